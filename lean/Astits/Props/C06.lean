/-
C06 — duplicate packets are harmless; packet loss never yields spliced data.
Theorems about the accumulator / pool model; the regenerated Go predicates are tied below.
-/
import Astits.Proofs.Pool
import Astits.Proofs.Loss
import Astits.Props.C02
import Astits.Generated.Exprs
import Astits.Generated.Facts
import Astits.Proofs.LossTable
import Astits.Props.C09
import Astits.Props.TieTactics
namespace Astits.C06
open Astits.Tie

/-! #### tie: the Go predicates of today are the model's -/

def ccOr0 (q : List Packet) : Nat := (lastCC q).getD 0

theorem lastCC_none_iff (q : List Packet) : lastCC q = none ↔ q.length = 0 := by
  unfold lastCC
  cases q with
  | nil => simp
  | cons a r => simp [List.getLast?_cons]

/-- `hasDiscontinuity` of the model on the scalars the Go function reads: queue length, the packet's flags and
counter, the counter of the last queued packet (any value if there is none) -/
def hasDiscontinuityRef (l : Nat) (pHasAF pDI pHasPayload : Bool) (pCC lastCC : Nat) : Bool :=
  (pHasAF && pDI) || (decide (l > 0) && ((pHasPayload && pCC != (lastCC + 1) % 16) || (!pHasPayload && pCC != lastCC)))

/-- `isSameAsPrevious` of the model on scalars -/
def isSameAsPreviousRef (l : Nat) (pHasPayload : Bool) (pCC lastCC : Nat) : Bool :=
  decide (l > 0) && pHasPayload && pCC == lastCC

/-- the Go function of today, translated expression by expression, is the scalar form.  The proof does not follow
the shape of the Go code (one expression, guard clauses, a helper for the announced discontinuity, `% 16` or `& 0xf`
…): it splits on the three flags and on an empty / non-empty queue and lets `simp` + `omega` decide what is left
about the two counters. -/
theorem generated_hasDiscontinuity (l : Nat) (a d h : Bool) (c lc : Nat) :
    Generated.hasDiscontinuity l a d h c lc = hasDiscontinuityRef l a d h c lc := by
  unfold Generated.hasDiscontinuity hasDiscontinuityRef
  rcases l with _ | l <;> cases a <;> cases d <;> cases h <;> bool_arith

theorem generated_isSameAsPrevious (l : Nat) (h : Bool) (c lc : Nat) :
    Generated.isSameAsPrevious l h c lc = isSameAsPreviousRef l h c lc := by
  unfold Generated.isSameAsPrevious isSameAsPreviousRef
  rcases l with _ | l <;> cases h <;> bool_arith

theorem hasDiscontinuity_eq_generated (q : List Packet) (p : Packet) :
    hasDiscontinuity q p = Generated.hasDiscontinuity q.length p.header.hasAdaptationField
      ((p.adaptationField.map (·.discontinuityIndicator)).getD false) p.header.hasPayload
      p.header.continuityCounter (ccOr0 q) := by
  rw [generated_hasDiscontinuity]
  unfold hasDiscontinuity hasDiscontinuityRef pktDI ccOr0
  cases h : lastCC q with
  | none =>
    have : q.length = 0 := (lastCC_none_iff q).mp h
    simp [this]
  | some l =>
    have : q.length ≠ 0 := fun h0 => by
      have := (lastCC_none_iff q).mpr h0; rw [h] at this; cases this
    have hpos : q.length > 0 := Nat.pos_of_ne_zero this
    simp [hpos]

theorem isSameAsPrevious_eq_generated (q : List Packet) (p : Packet) :
    isSameAsPrevious q p = Generated.isSameAsPrevious q.length p.header.hasPayload p.header.continuityCounter (ccOr0 q) := by
  rw [generated_isSameAsPrevious]
  unfold isSameAsPrevious isSameAsPreviousRef ccOr0
  cases h : lastCC q with
  | none =>
    have : q.length = 0 := (lastCC_none_iff q).mp h
    simp [this]
  | some l =>
    have : q.length ≠ 0 := fun h0 => by
      have := (lastCC_none_iff q).mpr h0; rw [h] at this; cases this
    have hpos : q.length > 0 := Nat.pos_of_ne_zero this
    simp [hpos]

/-- which PIDs carry PSI: the Go predicate of today, for every PID and both answers of the program map -/
theorem generated_isPSIPayload (pid : Nat) (inMap : Bool) :
    Generated.isPSIPayload pid inMap
      = (pid == 0 || inMap || (decide (0x10 ≤ pid ∧ pid ≤ 0x14) || decide (0x1e ≤ pid ∧ pid ≤ 0x1f))) := by
  unfold Generated.isPSIPayload
  cases inMap <;> bool_arith

theorem isPSIPayload_eq_generated (pid : Nat) (pm : ProgramMap) :
    isPSIPayload pid pm = Generated.isPSIPayload pid (pm.has pid) := by
  rw [generated_isPSIPayload]; rfl

/-- the order of the tests in `packetAccumulator.add` as found in the source today.  The regenerated fact lists, for
every `if` statement of the function in source order, the SET of the tests that occur in its condition (sorted, joined
by `+`), after the local variables of the condition have been replaced by their definitions — so hoisting
`isSameAsPrevious(mps, p)` into a local or re-bracketing one condition does not change it, while moving a test to
another `if`, dropping one or swapping two `if`s does:
duplicate test first; then the discontinuity test (whose reset is waived for a discontinuity announced on a unit start
that is not a duplicate: the three tests of the second condition); then the flush on unit start; then the PSI
completeness test -/
theorem add_order_in_source :
    Generated.Facts.accumulatorAddOrder = ["isSameAsPrevious",
      "hasDiscontinuity+isSameAsPrevious+p.Header.PayloadUnitStartIndicator",
      "p.Header.PayloadUnitStartIndicator", "isPSIComplete"] := by
  decide

/-- a unit start that announces a discontinuity hands over everything accumulated so far (it is not discarded) and
starts the new unit — whatever the queue holds, provided the packet does not repeat the counter of the last one -/
theorem announced_discontinuity_on_unit_start_flushes (pm : ProgramMap) (pid : Nat) (q : List Packet) (p : Packet)
    (hnp : (pid == 0 || pm.has pid) = false) (hpusi : p.header.payloadUnitStartIndicator = true) (hdi : pktDI p = true)
    (hnd : isSameAsPrevious q p = false) :
    accAdd pm pid q p = (q, [p]) := by
  unfold accAdd
  simp [hdi, hpusi, hnp, hnd]

/-! #### duplicates -/

/-- a duplicate (same counter as the last queued packet, no discontinuity indicator) changes nothing -/
theorem dup_dropped (pm : ProgramMap) (pid : Nat) (q : List Packet) (p : Packet)
    (hs : isSameAsPrevious q p = true) (hd : pktDI p = false) : accAdd pm pid q p = ([], q) := by
  unfold accAdd; simp [hs, hd]

/-- on a PID that is not flushed early (neither the PAT PID nor a known PMT PID), right after a payload
packet has been queued, the same packet again is a duplicate -/
theorem queued_packet_is_last (pm : ProgramMap) (pid : Nat) (q : List Packet) (p : Packet)
    (hnp : (pid == 0 || pm.has pid) = false) (hns : (isSameAsPrevious q p && !pktDI p) = false) :
    ∃ q', (accAdd pm pid q p).2 = q' ++ [p] := by
  unfold accAdd
  simp only [hns, hnp, Bool.false_and]
  by_cases hpusi : p.header.payloadUnitStartIndicator = true
  · exact ⟨[], by simp [hpusi]⟩
  · exact ⟨if hasDiscontinuity q p then [] else q, by simp [hpusi]⟩

/-- **duplicates are harmless on PES PIDs**: feeding a payload packet (no transport error, no
discontinuity indicator) twice in a row flushes nothing the second time and leaves the pool as it was
after the first copy — hence the rest of the run is identical -/
theorem dup_harmless_pes (pm : ProgramMap) (pool : Pool) (p : Packet)
    (hpay : p.header.hasPayload = true) (htei : p.header.transportErrorIndicator = false) (hdi : pktDI p = false)
    (hnp : (p.header.pid == 0 || pm.has p.header.pid) = false) :
    poolAdd pm (poolAdd pm pool p).2 p = ([], (poolAdd pm pool p).2) := by
  by_cases hs : (isSameAsPrevious (pool.get p.header.pid) p && !pktDI p) = true
  · -- the first copy is itself a duplicate of what is queued: both copies are dropped
    have h1 : poolAdd pm pool p = ([], pool.put p.header.pid (pool.get p.header.pid)) := by
      unfold poolAdd accAdd
      simp [htei, hpay, hs]
    rw [h1]
    unfold poolAdd accAdd
    simp [htei, hpay, hs, Pool.put_put]
  · -- otherwise the first copy is queued last, so the second one has the counter of the last queued packet
    have hs' : (isSameAsPrevious (pool.get p.header.pid) p && !pktDI p) = false := by simpa using hs
    obtain ⟨q', hq'⟩ := queued_packet_is_last pm p.header.pid (pool.get p.header.pid) p hnp hs'
    have h1 : (poolAdd pm pool p).2 = pool.put p.header.pid (q' ++ [p]) := by
      unfold poolAdd
      simp [htei, hpay, hq']
    rw [h1]
    unfold poolAdd
    simp only [htei, hpay, Bool.not_true, Bool.false_eq_true, if_false, Pool.get_put_same]
    have hdup : accAdd pm p.header.pid (q' ++ [p]) p = ([], q' ++ [p]) :=
      dup_dropped pm _ _ _ (isSame_after_append q' p hpay) hdi
    rw [hdup]
    simp [Pool.put_put]

/-- feeding a list of packets to the pool with a fixed program map: what each packet flushed, the pool afterwards -/
def poolRun (pm : ProgramMap) : Pool → List Packet → List (List Packet) × Pool
  | pool, [] => ([], pool)
  | pool, p :: r =>
    let fs := poolRun pm (poolAdd pm pool p).2 r
    ((poolAdd pm pool p).1 :: fs.1, fs.2)

theorem poolRun_append (pm : ProgramMap) (pool : Pool) (a b : List Packet) :
    poolRun pm pool (a ++ b) = ((poolRun pm pool a).1 ++ (poolRun pm (poolRun pm pool a).2 b).1,
                                 (poolRun pm (poolRun pm pool a).2 b).2) := by
  induction a generalizing pool with
  | nil => simp [poolRun]
  | cons p r ih => simp [poolRun, ih]

/-- **stream form**: a duplicate inserted immediately after a payload packet of a PES PID adds one empty
flush and changes nothing else — every group flushed later, and the final pool (hence the EOF drain), are
the same as without the duplicate -/
theorem dup_stream_pes (pm : ProgramMap) (pool : Pool) (pre post : List Packet) (p : Packet)
    (hpay : p.header.hasPayload = true) (htei : p.header.transportErrorIndicator = false) (hdi : pktDI p = false)
    (hnp : (p.header.pid == 0 || pm.has p.header.pid) = false) :
    poolRun pm pool (pre ++ p :: p :: post) =
      ((poolRun pm pool pre).1 ++ (poolAdd pm (poolRun pm pool pre).2 p).1 :: [] ::
          (poolRun pm (poolAdd pm (poolRun pm pool pre).2 p).2 post).1,
       (poolRun pm pool (pre ++ p :: post)).2)
    ∧ (poolRun pm pool (pre ++ p :: post)).1 =
      (poolRun pm pool pre).1 ++ (poolAdd pm (poolRun pm pool pre).2 p).1 ::
          (poolRun pm (poolAdd pm (poolRun pm pool pre).2 p).2 post).1 := by
  have hd := dup_harmless_pes pm (poolRun pm pool pre).2 p hpay htei hdi hnp
  constructor
  · rw [poolRun_append, poolRun_append]
    simp only [poolRun, hd]
  · rw [poolRun_append]
    simp only [poolRun]

/-! #### non-vacuity -/
def pkt (cc : Nat) (pusi : Bool) : Packet :=
  { header := { continuityCounter := cc, hasAdaptationField := false, hasPayload := true, payloadUnitStartIndicator := pusi,
                pid := 256, transportErrorIndicator := false, transportPriority := false, transportScramblingControl := 0 },
    payload := [1, 2, 3] }

example : (pkt 3 true).header.hasPayload = true ∧ pktDI (pkt 3 true) = false
    ∧ ((pkt 3 true).header.pid == 0 || ProgramMap.has [] (pkt 3 true).header.pid) = false := by decide
example : (poolRun [] [] [pkt 3 true, pkt 4 false, pkt 4 false, pkt 5 true]).1 = [[], [], [], [pkt 3 true, pkt 4 false]] := by decide


/-! ## LOSS CLAUSE — packet loss never yields spliced data

Accumulator / pool level, for a PID that is not flushed early (`(pid == 0 || pm.has pid) = false`).
Helper development: `Astits/Proofs/Loss.lean`.

Vocabulary (all from `Astits.Loss`):
* `delivered pm pid s` — the non-empty groups handed to the unit parser while the packet sequence `s` of the PID is
  read from an empty queue, followed by the queue left at the end (the end-of-stream drain), see `mem_delivered`;
* `Headless v f` — `f` is a non-empty proper suffix of the packets of unit `v` (it lacks the unit's first packet);
* `GapAt us a gap b U1 M U3 x y` — where the gap lies: `us = U1 ++ M ++ U3`; `U1` are the units received whole before
  the gap, `U3` those received whole after it, `M` (non-empty) the units that lost at least one packet; `x` is what
  was received of the first unit of `M` (a proper prefix of it, possibly empty), `y` what is received of the last unit
  of `M` (a proper suffix, possibly empty): `a = U1.packets ++ x`, `b = y ++ U3.packets`, `M.packets = x ++ gap ++ y`;
* `keptBefore U1 x` — `U1`, or `U1` without its last unit when `x = []` (the gap starts on a unit boundary);
* `LossyN n us gs` — `gs` arises from `us`, in order, by delivering a unit whole, dropping it, or delivering a headless
  fragment of it; `n` units are not delivered whole.
-/
section LossClause
open Astits.Loss

/-- **the counter after a gap** (counters wrap modulo 16): after `g` lost packets, `1 ≤ g ≤ 14`, the next packet's
counter is neither the counter `c` of the last packet received (so it is not taken for a duplicate) nor its successor
(so it is not taken for the continuation) -/
theorem loss_counter_jump (c : Nat) (gap : List Packet) (p : Packet) (r : List Packet)
    (h : CCRun c (gap ++ p :: r)) (hg1 : 1 ≤ gap.length) (hg2 : gap.length ≤ 14) :
    p.header.continuityCounter = (c + gap.length + 1) % 16 ∧
    p.header.continuityCounter ≠ c ∧ p.header.continuityCounter ≠ (c + 1) % 16 := by
  obtain ⟨e, _⟩ := gap_counter c gap p r h
  exact ⟨e, gap_jump c gap.length _ hg1 hg2 e⟩

/-- **what the accumulator does at the jump**: the queue is discarded — not flushed, even when the packet starts a
unit, so a unit received whole just before the gap is lost in that case — and the packet is queued alone -/
theorem loss_discards_queue (pm : ProgramMap) (pid : Nat) (q : List Packet) (p : Packet) (l : Nat)
    (hnp : (pid == 0 || pm.has pid) = false) (hq : lastCC q = some l) (hp : PlainPayload p)
    (h1 : p.header.continuityCounter ≠ l) (h2 : p.header.continuityCounter ≠ (l + 1) % 16) :
    accAdd pm pid q p = ([], [p]) := accAdd_jump pm pid q p l hnp hq hp h1 h2

/-- **(L1) one gap, precise shape.** `us` is a chain of well-formed units, `a ++ gap ++ b` its packet sequence, the
`gap` (1..14 packets) is lost and followed by at least one received packet. Then the groups delivered for `a ++ b` are,
in order: the units received whole before the gap (`U1`) — except the last of them when the gap starts on a unit
boundary: that unit is still queued when the gap occurs and is discarded —, then at most one headless fragment `y`
(the tail of the unit cut by the gap), then the units received whole after the gap (`U3`). The prefix `x` of the
unit in which the gap starts is discarded. Nothing else is delivered: no group mixes packets from before and after
the gap. -/
theorem loss_one_gap (pm : ProgramMap) (pid : Nat) (us : List UnitPk) (a gap b : List Packet)
    (hnp : (pid == 0 || pm.has pid) = false) (hc : ChainOK [] us)
    (hs : us.flatMap UnitPk.packets = a ++ gap ++ b) (hg1 : 1 ≤ gap.length) (hg2 : gap.length ≤ 14) (hb : b ≠ []) :
    ∃ U1 M U3 x y, GapAt us a gap b U1 M U3 x y ∧
      delivered pm pid (a ++ b) =
        (keptBefore U1 x).map UnitPk.packets ++ (if y = [] then [] else [y]) ++ U3.map UnitPk.packets ∧
      (y ≠ [] → ∃ v ∈ us, Headless v y) := by
  obtain ⟨U1, M, U3, x, y, hG, hd⟩ := one_gap pm pid us a gap b hnp (ChainOK0_of_chain us hc) hs hg1 hg2 hb
  exact ⟨U1, M, U3, x, y, hG, hd, hG.headless⟩

/-- the loss-free reference: the groups delivered for the whole chain are exactly the units -/
theorem loss_free_delivered (pm : ProgramMap) (pid : Nat) (us : List UnitPk)
    (hnp : (pid == 0 || pm.has pid) = false) (hc : ChainOK [] us) :
    delivered pm pid (us.flatMap UnitPk.packets) = us.map UnitPk.packets :=
  delivered_chain pm pid us hnp (ChainOK0_of_chain us hc)

theorem chain_units_ok (q : List Packet) (us : List UnitPk) (h : ChainOK q us) : ∀ u ∈ us, UnitOK u := by
  induction us generalizing q with
  | nil => intro u hu; cases hu
  | cons v r ih =>
    intro u hu
    rcases List.mem_cons.mp hu with rfl | hu
    · exact h.1
    · exact ih _ h.2.2 u hu

/-- **(L1) never a splice**: every non-empty group flushed while `a ++ b` is read from an empty queue, and the queue
left at the end, is the packet list of a unit of `us` (whole) or a headless fragment of a unit of `us`, none of whose
packets starts a unit -/
theorem loss_one_gap_no_splice (pm : ProgramMap) (pid : Nat) (us : List UnitPk) (a gap b : List Packet)
    (hnp : (pid == 0 || pm.has pid) = false) (hc : ChainOK [] us)
    (hs : us.flatMap UnitPk.packets = a ++ gap ++ b) (hg1 : 1 ≤ gap.length) (hg2 : gap.length ≤ 14) (hb : b ≠ [])
    (g : List Packet) (hg : g ≠ [])
    (hmem : g ∈ (accRun pm pid [] (a ++ b)).1 ∨ g = (accRun pm pid [] (a ++ b)).2) :
    (∃ u ∈ us, g = u.packets) ∨
    (∃ v ∈ us, Headless v g ∧ ∀ p ∈ g, p.header.payloadUnitStartIndicator = false) := by
  have hl := one_gap_lossy pm pid us a gap b hnp (ChainOK0_of_chain us hc) hs hg1 hg2 hb
  rcases hl.classify g ((mem_delivered pm pid (a ++ b) g).mpr ⟨hg, hmem⟩) with h | ⟨v, hv, hh⟩
  · exact Or.inl h
  · exact Or.inr ⟨v, hv, hh, headless_no_pusi v g (toOK0 (chain_units_ok [] us hc v hv)) hh⟩

/-- **(L2) one gap, data level.** If no headless fragment of a unit of `us` is mistaken for a unit by the unit parser
(`NoFalseStart`: `parseData` yields no data for it — `.ok []` or an error), the data delivered for the lossy stream
are exactly the data of the kept units `keptBefore U1 x ++ U3`, a subsequence of the units sent; they are a
subsequence of the loss-free data; and the units missing are at most the units that lost a packet (`M`) plus one
(the unit immediately preceding the gap). -/
theorem loss_one_gap_data (prs : ParserKind) (pm : ProgramMap) (pid : Nat) (us : List UnitPk) (a gap b : List Packet)
    (hnp : (pid == 0 || pm.has pid) = false) (hc : ChainOK [] us)
    (hs : us.flatMap UnitPk.packets = a ++ gap ++ b) (hg1 : 1 ≤ gap.length) (hg2 : gap.length ≤ 14) (hb : b ≠ [])
    (hnf : ∀ v ∈ us, ∀ f, Headless v f → NoFalseStart prs pm f) :
    ∃ U1 M U3 x y, GapAt us a gap b U1 M U3 x y ∧
      deliveredData prs pm pid (a ++ b) = (keptBefore U1 x ++ U3).flatMap (fun u => dataOf prs pm u.packets) ∧
      (keptBefore U1 x ++ U3).Sublist us ∧ us.length ≤ (keptBefore U1 x ++ U3).length + M.length + 1 ∧
      (deliveredData prs pm pid (a ++ b)).Sublist (deliveredData prs pm pid (us.flatMap UnitPk.packets)) :=
  one_gap_data prs pm pid us a gap b hnp (ChainOK0_of_chain us hc) hs hg1 hg2 hb hnf

/-- **(L3) several gaps.** The stream sent is `a0 ++ g₁ ++ k₁ ++ … ++ gₙ ++ kₙ` (`origOf`), every lost block `gᵢ` has
1..14 packets and every received block `kᵢ` at least one packet (`GapsOK`); the stream received is
`a0 ++ k₁ ++ … ++ kₙ` (`lossyOf`). Then the groups delivered arise from the units sent, in order, by delivering a unit
whole, dropping it, or delivering a headless fragment of it (`LossyN`): every group consists of packets of ONE unit.
The units not delivered whole are at most the lost packets plus one per gap. -/
theorem loss_multi_gap (pm : ProgramMap) (pid : Nat) (us : List UnitPk) (a0 : List Packet)
    (tail : List (List Packet × List Packet))
    (hnp : (pid == 0 || pm.has pid) = false) (hc : ChainOK [] us)
    (hs : us.flatMap UnitPk.packets = origOf a0 tail) (hg : GapsOK tail) :
    ∃ n, n ≤ (tail.map (fun gk => gk.1.length + 1)).sum ∧ LossyN n us (delivered pm pid (lossyOf a0 tail)) :=
  multi_gapN pm pid tail hnp us a0 (ChainOK0_of_chain us hc) hs hg

/-- **(L3) never a splice, several gaps** -/
theorem loss_multi_gap_no_splice (pm : ProgramMap) (pid : Nat) (us : List UnitPk) (a0 : List Packet)
    (tail : List (List Packet × List Packet))
    (hnp : (pid == 0 || pm.has pid) = false) (hc : ChainOK [] us)
    (hs : us.flatMap UnitPk.packets = origOf a0 tail) (hg : GapsOK tail)
    (g : List Packet) (hgne : g ≠ [])
    (hmem : g ∈ (accRun pm pid [] (lossyOf a0 tail)).1 ∨ g = (accRun pm pid [] (lossyOf a0 tail)).2) :
    (∃ u ∈ us, g = u.packets) ∨
    (∃ v ∈ us, Headless v g ∧ ∀ p ∈ g, p.header.payloadUnitStartIndicator = false) := by
  have hl := multi_gap pm pid tail hnp us a0 (ChainOK0_of_chain us hc) hs hg
  rcases hl.classify g ((mem_delivered pm pid _ g).mpr ⟨hgne, hmem⟩) with h | ⟨v, hv, hh⟩
  · exact Or.inl h
  · exact Or.inr ⟨v, hv, hh, headless_no_pusi v g (toOK0 (chain_units_ok [] us hc v hv)) hh⟩

/-- **(L3) several gaps, data level**: under `NoFalseStart` the data delivered are a subsequence of the loss-free data -/
theorem loss_multi_gap_data (prs : ParserKind) (pm : ProgramMap) (pid : Nat) (us : List UnitPk) (a0 : List Packet)
    (tail : List (List Packet × List Packet))
    (hnp : (pid == 0 || pm.has pid) = false) (hc : ChainOK [] us)
    (hs : us.flatMap UnitPk.packets = origOf a0 tail) (hg : GapsOK tail)
    (hnf : ∀ v ∈ us, ∀ f, Headless v f → NoFalseStart prs pm f) :
    (deliveredData prs pm pid (lossyOf a0 tail)).Sublist (deliveredData prs pm pid (us.flatMap UnitPk.packets)) :=
  multi_gap_data prs pm pid tail hnp us a0 (ChainOK0_of_chain us hc) hs hg hnf

/-- **loss and duplicates together**: if, on top of the losses, received packets are repeated (`Dups`: each copy
right after the original, any number of copies), exactly the same groups are delivered -/
theorem loss_with_duplicates (pm : ProgramMap) (pid : Nat) (us : List UnitPk) (a0 : List Packet)
    (tail : List (List Packet × List Packet))
    (hnp : (pid == 0 || pm.has pid) = false) (hc : ChainOK [] us)
    (hs : us.flatMap UnitPk.packets = origOf a0 tail) (s' : List Packet) (hd : Dups (lossyOf a0 tail) s') :
    delivered pm pid s' = delivered pm pid (lossyOf a0 tail) :=
  multi_gap_dups pm pid tail hnp us a0 (ChainOK0_of_chain us hc) hs s' hd

/-! #### pool level: other PIDs interleaved -/

/-- the non-empty groups the pool flushes for `pid` while the stream `S` (all PIDs) is read, then the queue left for
`pid` -/
def poolDelivered (pm : ProgramMap) (pid : Nat) (S : List Packet) : List (List Packet) :=
  (C07.flushesOf pm pid [] S ++ [(C07.queueAfter pm [] S).get pid]).filter nonEmpty

/-- at the pool, what is delivered for `pid` is what its accumulator delivers for the packets of `pid` -/
theorem poolDelivered_eq (pm : ProgramMap) (pid : Nat) (S : List Packet)
    (hS : ∀ p ∈ S, p.header.pid = pid → p.header.hasPayload = true ∧ p.header.transportErrorIndicator = false) :
    poolDelivered pm pid S = delivered pm pid (S.filter fun p => p.header.pid == pid) := by
  have hper := C07.per_pid pm pid S [] [] rfl
  have hf : ∀ p ∈ (S.filter fun p => p.header.pid == pid),
      p.header.pid = pid ∧ p.header.hasPayload = true ∧ p.header.transportErrorIndicator = false := by
    intro p hp
    obtain ⟨h1, h2⟩ := List.mem_filter.mp hp
    have hpid : p.header.pid = pid := by simpa using h2
    exact ⟨hpid, hS p h1 hpid⟩
  have hacc := C02.pool_is_accumulator pm pid _ [] hf
  unfold poolDelivered delivered groupsOf
  rw [hper.1, hper.2, hacc.1, hacc.2]
  simp [Pool.get]

/-- **the loss clause at the pool**: `S'` is any stream (other PIDs, null packets, anything interleaved) whose packets
on `pid` are the lossy sequence. What the pool delivers for `pid` arises from the units sent as in `loss_multi_gap`. -/
theorem loss_at_pool (pm : ProgramMap) (pid : Nat) (us : List UnitPk) (a0 : List Packet)
    (tail : List (List Packet × List Packet)) (S' : List Packet)
    (hnp : (pid == 0 || pm.has pid) = false) (hc : ChainOK [] us)
    (hs : us.flatMap UnitPk.packets = origOf a0 tail) (hg : GapsOK tail)
    (hS' : (S'.filter fun p => p.header.pid == pid) = lossyOf a0 tail) :
    ∃ n, n ≤ (tail.map (fun gk => gk.1.length + 1)).sum ∧ LossyN n us (poolDelivered pm pid S') := by
  have hpl : ∀ p ∈ S', p.header.pid = pid → p.header.hasPayload = true ∧ p.header.transportErrorIndicator = false := by
    intro p hp hpid
    have hm : p ∈ lossyOf a0 tail := by
      rw [← hS']; exact List.mem_filter.mpr ⟨hp, by simpa using hpid⟩
    have := Consec_all _ (chain0_consec us (ChainOK0_of_chain us hc)) p (hs ▸ mem_lossyOf a0 tail p hm)
    exact ⟨this.1, this.2.1⟩
  rw [poolDelivered_eq pm pid S' hpl, hS']
  exact loss_multi_gap pm pid us a0 tail hnp hc hs hg

/-- **units on other PIDs are unaffected**: two streams with the same packets on `pid'` (e.g. before and after losing
packets of another PID) deliver the same groups for `pid'` -/
theorem loss_other_pids_unaffected (pm : ProgramMap) (pid' : Nat) (S S' : List Packet)
    (h : (S.filter fun p => p.header.pid == pid') = (S'.filter fun p => p.header.pid == pid')) :
    poolDelivered pm pid' S = poolDelivered pm pid' S' := by
  unfold poolDelivered
  rw [(C07.per_pid pm pid' S [] [] rfl).1, (C07.per_pid pm pid' S [] [] rfl).2,
    (C07.per_pid pm pid' S' [] [] rfl).1, (C07.per_pid pm pid' S' [] [] rfl).2, h]

/-! #### non-vacuity, and the model at the excluded points -/

/-- packet number `i` of a test stream of 3-packet units on PID 256: counter `i mod 16`, payload `[i]` -/
def lpkt (i : Nat) : Packet :=
  { header := { continuityCounter := i % 16, hasAdaptationField := false, hasPayload := true,
                payloadUnitStartIndicator := i % 3 == 0, pid := 256, transportErrorIndicator := false,
                transportPriority := false, transportScramblingControl := 0 },
    payload := [i] }

def lunits (n : Nat) : List UnitPk := (List.range n).map fun j => ⟨lpkt (3 * j), [lpkt (3 * j + 1), lpkt (3 * j + 2)]⟩
def lstream (n : Nat) : List Packet := (List.range n).map lpkt
def ltags (gs : List (List Packet)) : List (List Nat) := gs.map (·.map fun p => p.payload.headD 0)

/-- 8 units of 3 packets, counters 0..15, 0..7 (they wrap) -/
example : ChainOK [] (lunits 8) := chainB_sound _ _ (by decide +kernel)
example : (lunits 8).flatMap UnitPk.packets = lstream 24 := by decide +kernel
example : ((256 : Nat) == 0 || ProgramMap.has [] 256) = false := by decide

/-- loss-free: 8 units -/
example : ltags (delivered [] 256 (lstream 24)) =
    [[0, 1, 2], [3, 4, 5], [6, 7, 8], [9, 10, 11], [12, 13, 14], [15, 16, 17], [18, 19, 20], [21, 22, 23]] := by
  decide +kernel

/-- the hypotheses of `loss_one_gap` hold for: packets 5 and 6 lost (the gap spans a unit boundary) … -/
example : (lunits 8).flatMap UnitPk.packets = (lstream 24).take 5 ++ ((lstream 24).drop 5).take 2 ++ (lstream 24).drop 7
    ∧ 1 ≤ (((lstream 24).drop 5).take 2).length ∧ (((lstream 24).drop 5).take 2).length ≤ 14
    ∧ (lstream 24).drop 7 ≠ [] := by decide +kernel
/-- … and what is delivered: unit 0, the headless fragment `[7, 8]` of unit 2, units 3..7 (the prefix `[3, 4]` of unit 1
is discarded) -/
example : ltags (delivered [] 256 ((lstream 24).take 5 ++ (lstream 24).drop 7)) =
    [[0, 1, 2], [7, 8], [9, 10, 11], [12, 13, 14], [15, 16, 17], [18, 19, 20], [21, 22, 23]] := by decide +kernel

/-- a gap on a unit boundary followed by a unit start (unit 2 = packets 6, 7, 8 lost): unit 1 was received WHOLE and is
nevertheless discarded — "the unit immediately preceding the gap" -/
example : ltags (delivered [] 256 ((lstream 24).take 6 ++ (lstream 24).drop 9)) =
    [[0, 1, 2], [9, 10, 11], [12, 13, 14], [15, 16, 17], [18, 19, 20], [21, 22, 23]] := by decide +kernel

/-- the bound 14 is sharp: 14 packets lost (4..17) — no splice … -/
example : ltags (delivered [] 256 ((lstream 30).take 4 ++ (lstream 30).drop 18)) =
    [[0, 1, 2], [18, 19, 20], [21, 22, 23], [24, 25, 26], [27, 28, 29]] := by decide +kernel
/-- … 15 packets lost (4..18): packet 19 carries the counter of packet 3 and is dropped as a duplicate, packet 20 is then
taken for the continuation of packet 3: the group `[3, 20]` SPLICES units 1 and 6 … -/
example : ltags (delivered [] 256 ((lstream 30).take 4 ++ (lstream 30).drop 19)) =
    [[0, 1, 2], [3, 20], [21, 22, 23], [24, 25, 26], [27, 28, 29]] := by decide +kernel
/-- … 16 packets lost (4..19): the counter has gone round once, the loss is invisible: `[3, 20]` again -/
example : ltags (delivered [] 256 ((lstream 30).take 4 ++ (lstream 30).drop 20)) =
    [[0, 1, 2], [3, 20], [21, 22, 23], [24, 25, 26], [27, 28, 29]] := by decide +kernel

/-- no later packet (`b = []`, packets 22, 23 lost at the end of the stream): nothing reveals the gap, and the
end-of-stream drain hands over the truncated unit `[21]` — a headed prefix, neither a whole unit nor a headless fragment -/
example : ltags (delivered [] 256 ((lstream 24).take 22)) =
    [[0, 1, 2], [3, 4, 5], [6, 7, 8], [9, 10, 11], [12, 13, 14], [15, 16, 17], [18, 19, 20], [21]] := by decide +kernel

/-- two gaps (packets 4 and 10..12 lost) with a duplicate of packet 7 on top: `GapsOK` holds … -/
example : lstream 24 = origOf ((lstream 24).take 4) [([lpkt 4], ((lstream 24).drop 5).take 5),
      (((lstream 24).drop 10).take 3, (lstream 24).drop 13)]
    ∧ GapsOK [([lpkt 4], ((lstream 24).drop 5).take 5), (((lstream 24).drop 10).take 3, (lstream 24).drop 13)] := by
  constructor
  · decide +kernel
  · intro gk hgk
    simp only [List.mem_cons, List.not_mem_nil, or_false] at hgk
    rcases hgk with rfl | rfl <;> decide +kernel
/-- … and what is delivered: unit 0; `[5]` (tail of unit 1); unit 2 is flushed whole; `[9]` (prefix of unit 3) is
discarded; `[13, 14]` (tail of unit 4); units 5..7 -/
example : ltags (delivered [] 256 (lossyOf ((lstream 24).take 4) [([lpkt 4], ((lstream 24).drop 5).take 5),
      (((lstream 24).drop 10).take 3, (lstream 24).drop 13)])) =
    [[0, 1, 2], [5], [6, 7, 8], [13, 14], [15, 16, 17], [18, 19, 20], [21, 22, 23]] := by decide +kernel

/-- `NoFalseStart` holds for the headless fragments of these units: their payload does not begin with the PES start
code, so the unit parser returns no data -/
example : NoFalseStart .none [] [lpkt 7, lpkt 8] ∧ NoFalseStart .none [] [lpkt 8] := by
  constructor <;> simp [NoFalseStart, dataOf, parseData, lpkt, concatPayload, isPSIPayload, isPESPayload, ProgramMap.has]

/-- … for every headless fragment of every unit of the test chain: the hypothesis `hnf` of `loss_one_gap_data` -/
example : ∀ v ∈ lunits 8, ∀ f, Headless v f → NoFalseStart .none [] f := by
  have hall : (lunits 8).all (fun v => v.packets.length == 3 &&
      [1, 2].all (fun m => (dataOf .none [] (v.packets.drop m)).isEmpty)) = true := by decide +kernel
  intro v hv f ⟨m, hm1, hm2, hf⟩
  have := List.all_eq_true.mp hall v hv
  simp only [Bool.and_eq_true, beq_iff_eq, List.all_cons, List.all_nil, Bool.and_true, List.isEmpty_iff] at this
  obtain ⟨hlen, h1, h2⟩ := this
  rw [hlen] at hm2
  subst hf
  have : m = 1 ∨ m = 2 := by omega
  rcases this with rfl | rfl
  · exact h1
  · exact h2

end LossClause

/-! ## P3 — the loss clause for TABLE PIDs (`(pid == 0 || pm.has pid) = true`: early flush by `isPSIComplete`)

Helpers: `Proofs/LossTable.lean` (namespace `Astits.LossTable`): a generic invariant of the accumulator of a table PID
(`accRun_inv`: every group flushed and the queue are runs of the input — consecutive counters, no unit start except at
the head — together with the REASON of the flush), then chains of PAT/PMT units with a gap. -/

section LossClauseTables
open Astits.Loss Astits.LossTable Astits.PSIComplete

/-- **what the accumulator of a table PID does at the counter jump**: the queue is DISCARDED — not flushed — whatever it
holds and even when the packet starts a unit; the packet is queued alone, or flushed at once when it looks complete by
itself.  So the head of a unit whose completing packet is lost does NOT stay queued until the next unit start: it is
thrown away by the first packet that follows the gap. -/
theorem table_jump_discards (pm : ProgramMap) (pid : Nat) (q : List Packet) (p : Packet) (l : Nat)
    (htab : (pid == 0 || pm.has pid) = true) (hq : lastCC q = some l) (hp : PlainPayload p)
    (h1 : p.header.continuityCounter ≠ l) (h2 : p.header.continuityCounter ≠ (l + 1) % 16) :
    accAdd pm pid q p = if isPSIComplete [p] then ([p], []) else ([], [p]) :=
  accAdd_table_jump pm pid q p l htab hq hp h1 h2

/-- a gap acts as a reset on a table PID too: what follows is read as from an empty queue -/
theorem table_gap_resets (pm : ProgramMap) (pid : Nat) (q : List Packet) (p : Packet) (b : List Packet) (l : Nat)
    (htab : (pid == 0 || pm.has pid) = true) (hq : lastCC q = some l) (hp : PlainPayload p)
    (h1 : p.header.continuityCounter ≠ l) (h2 : p.header.continuityCounter ≠ (l + 1) % 16) :
    accRun pm pid q (p :: b) = accRun pm pid [] (p :: b) :=
  accRun_table_jump pm pid q p b l htab hq hp h1 h2

/-- **(L1, table PIDs) never a splice** — the analogue of `loss_one_gap_no_splice`.  `ts`: a chain of well-formed PAT/PMT
units (`TU.OK`: the hypotheses of `C02.table_unit_flushed` — unit layout, conformant cut points — with NO bound on the
stuffing tail) with counters running on; `A ++ gap ++ B` its packets; `gap` (1..14 packets) lost, `B ≠ []`.  Every
non-empty group handed to the unit parser for `A ++ B` is
* `t.a ++ [t.pk]` for a unit `t` of the chain — the unit from its first to its completing packet, flushed at the completing
  packet, exactly the loss-free group — or
* a `Fragment` of one unit: a contiguous part of its packets that does not contain its first packet (headless remainder,
  piece of one, stuffing-only tail packets); none of its packets starts a unit.
Consequences: no group mixes two units or the two sides of the gap; a group that begins with a unit start is the whole
unit — a unit that lost its completing packet or any packet before it is never delivered with wrong content: what was
received of it before the gap is discarded (`table_jump_discards`), what is received after the gap is a `Fragment`.
"False completes" of headless remainders are NOT excluded by hypothesis: they only cut the remainder into several
fragments (see the evaluated example below: they do occur). -/
theorem table_loss_one_gap_no_splice (pm : ProgramMap) (pid : Nat) (htab : (pid == 0 || pm.has pid) = true) (ts : List TU)
    (hok : ∀ t ∈ ts, t.OK) (hc : ChainOK [] (ts.map (·.u))) (A gap B : List Packet)
    (hs : (ts.map (·.u)).flatMap UnitPk.packets = A ++ gap ++ B) (hg1 : 1 ≤ gap.length) (hg2 : gap.length ≤ 14)
    (hB : B ≠ []) (g : List Packet) (hne : g ≠ [])
    (hmem : g ∈ (accRun pm pid [] (A ++ B)).1 ∨ g = (accRun pm pid [] (A ++ B)).2) :
    (∃ t ∈ ts, g = t.a ++ [t.pk]) ∨
    (∃ t ∈ ts, Fragment t.u g ∧ ∀ p ∈ g, p.header.payloadUnitStartIndicator = false) := by
  rcases table_loss_no_splice pm pid htab ts hok hc A gap B hs hg1 hg2 hB g hne hmem with h | ⟨t, ht, hf⟩
  · exact .inl h
  · exact .inr ⟨t, ht, hf, hf.no_pusi (hok t ht).unit⟩

/-- the generic invariant behind it, for ANY input of plain payload packets none of which repeats its predecessor's
counter (several gaps, arbitrary payloads): every flushed group is a run of the input and was flushed either at the first
moment it looked complete or by a unit start carrying the next counter -/
theorem table_groups_are_runs (pm : ProgramMap) (pid : Nat) (htab : (pid == 0 || pm.has pid) = true) (s : List Packet)
    (hs : StreamOK [] s) : LossTable.Inv s (accRun pm pid [] s).1 (accRun pm pid [] s).2 := accRun_inv pm pid htab s hs

/-- **(a) when does a headless remainder look complete?**  Exactly when the pure walker says so on its bytes: the first
byte is taken for a pointer_field `p`; from offset `1 + p` "sections" are skipped by their 12-bit length; the answer is
true when a stop table id (0xff) is met or the walk ends exactly at the end of the bytes.  Nothing relates this to the
real section boundaries once a packet is lost: a false "complete" is possible, and harmless for the no-splice property. -/
theorem fragment_complete_iff (g : List Packet) : isPSIComplete g = completeNat (concatPayload g) := complete_eq _

/-- **stuffing-only tail packets** (or any part of them): the group parses to no data and no error -/
theorem table_stuffing_tail_no_data (pm : ProgramMap) (pid : Nat) (htab : (pid == 0 || pm.has pid) = true) (t : TU)
    (ht : t.OK) (x g z : List Packet) (hb : t.b = x ++ g ++ z) (hpid : (g.headD default).header.pid = pid)
    (hl : 0 < (concatPayload g).length) : parseData g .none pm = .ok [] := by
  obtain ⟨ptr, filler, secs, stuffing, L, hbefore, hat, hcut⟩ := ht.layout
  have hff := (table_unit_run_tail pm pid htab t.u ht.unit t.a t.pk t.b ht.split ptr filler secs stuffing L hat).1
  refine parseData_stuffing pm pid htab g hpid hl ?_
  intro b hbm
  apply hff
  rw [hb, concatPayload_append, concatPayload_append]
  simp [hbm]

/-- **(b) what a fragment can deliver**: whatever `parseData` returns for ANY group of a table PID (not the CAT PID 1) is
`psiToData` of the sections `parsePSIData` found in the group's bytes, and every CRC-carrying section among them (PAT, PMT,
…, section_length > 0) has, inside those bytes, a CRC_32 that matches (`C09.crc_mismatch_never_delivered`).  A headless
fragment therefore yields data only if its bytes happen to contain — behind what is taken for the pointer_field — a whole
CRC-valid section: the recorded finding `headless-fragment-looks-like-unit`; otherwise an error or no data. -/
theorem table_group_data_checked (pm : ProgramMap) (g : List Packet)
    (htab : ((g.headD default).header.pid == 0 || pm.has (g.headD default).header.pid) = true)
    (hcat : (g.headD default).header.pid ≠ 1) (ds : List DemuxerData) (h : parseData g .none pm = .ok ds) :
    ∃ d, parsePSIData.val (concatPayload g) = .ok d ∧ ds = psiToData d (firstOf g) (g.headD default).header.pid ∧
      ∀ k s hd, d.sections[k]? = some s → s.header = some hd → hasCRC32 hd.tableID = true → hd.sectionLength > 0 →
        PSIVerdict.secStart d k + 3 + hd.sectionLength ≤ (concatPayload g).length ∧
        s.crc32 = beNat (PSIVerdict.slice (concatPayload g) (PSIVerdict.secStart d k + hd.sectionLength - 1) 4) ∧
        (computeCRC32 (PSIVerdict.slice (concatPayload g) (PSIVerdict.secStart d k) (hd.sectionLength - 1))).toNat = s.crc32 := by
  unfold parseData at h
  simp only [] at h
  have h1 : ((g.headD default).header.pid == 1) = false := by simpa using hcat
  rw [if_neg (by rw [h1]; exact Bool.false_ne_true), if_pos (isPSIPayload_of_table pm _ htab)] at h
  cases hv : parsePSIData.val (concatPayload g) with
  | ok d =>
    rw [hv] at h
    simp only [Res.ok.injEq] at h
    refine ⟨d, rfl, h.symm, ?_⟩
    intro k s hd hk hh hcrc hsl
    have := C09.crc_mismatch_never_delivered (concatPayload g) d hv k s hk hd hh hcrc hsl
    exact ⟨this.2.1, this.2.2.1, this.2.2.2⟩
  | err e => rw [hv] at h; cases h
  | panic => rw [hv] at h; cases h

/-! #### non-vacuity: a chain of four two-section PAT units (the bytes of `C02.exUnit`: 10 + 15 + 12 payload bytes, then a
stuffing-only tail packet), counters 0..15 -/

def tpk (cc : Nat) (pusi : Bool) (pl : Bytes) : Packet := C02.exTablePk (cc % 16) pusi pl

def exTU (c : Nat) : TU :=
  { u := ⟨tpk c true [0, 0, 176, 13, 0, 7, 199, 0, 0, 0],
          [tpk (c + 1) false [1, 240, 0, 80, 134, 190, 104, 0, 176, 17, 0, 7, 199, 0, 0],
           tpk (c + 2) false [0, 2, 240, 1, 0, 3, 240, 2, 184, 178, 78, 179], tpk (c + 3) false [0xff, 0xff, 0xff]]⟩
    a := [tpk c true [0, 0, 176, 13, 0, 7, 199, 0, 0, 0], tpk (c + 1) false [1, 240, 0, 80, 134, 190, 104, 0, 176, 17, 0, 7, 199, 0, 0]]
    pk := tpk (c + 2) false [0, 2, 240, 1, 0, 3, 240, 2, 184, 178, 78, 179]
    b := [tpk (c + 3) false [0xff, 0xff, 0xff]] }

def exTUs : List TU := [exTU 0, exTU 4, exTU 8, exTU 12]
def exTStream : List Packet := (exTUs.map (·.u)).flatMap UnitPk.packets
def ccTags (gs : List (List Packet)) : List (List Nat) := gs.map (·.map fun p => p.header.continuityCounter)
def del (s : List Packet) (i n : Nat) : List Packet := s.take i ++ s.drop (i + n)
def dataTags (gs : List (List Packet)) : List String := gs.map fun g =>
  match parseData g .none [] with | .ok ds => s!"ok{ds.length}" | .err _ => "err" | .panic => "panic"

theorem tpk_plain (cc : Nat) (pusi : Bool) (pl : Bytes) : PlainPayload (tpk cc pusi pl) := by
  have : cc % 16 < 16 := Nat.mod_lt _ (by decide)
  simp [PlainPayload, tpk, C02.exTablePk, pktDI, this]

theorem exTU_ok (c : Nat) : (exTU c).OK := by
  refine ⟨⟨tpk_plain _ _ _, rfl, ⟨tpk_plain _ _ _, rfl, ?_, tpk_plain _ _ _, rfl, ?_, tpk_plain _ _ _, rfl, ?_, trivial⟩⟩, rfl, ?_⟩
  · simp only [exTU, tpk, C02.exTablePk]; omega
  · simp only [tpk, C02.exTablePk]; omega
  · simp only [tpk, C02.exTablePk]; omega
  · refine ⟨0, [], [[0, 176, 13, 0, 7, 199, 0, 0, 0, 1, 240, 0, 80, 134, 190, 104],
        [0, 176, 17, 0, 7, 199, 0, 0, 0, 2, 240, 1, 0, 3, 240, 2, 184, 178, 78, 179]], [0xff, 0xff, 0xff], ⟨rfl, rfl, ?_, by simp, by decide⟩,
      by simp [exTU, tpk, C02.exTablePk, concatPayload], by simp [exTU, tpk, C02.exTablePk, concatPayload], ?_⟩
    · intro s hs
      simp only [List.mem_cons, List.not_mem_nil, or_false] at hs
      rcases hs with rfl | rfl
      · exact ⟨0, 176, 13, _, rfl, by decide, by decide⟩
      · exact ⟨0, 176, 17, _, rfl, by decide, by decide⟩
    · intro i hi hia j hj hjl
      have hj1 : j = 1 := by simp at hjl; omega
      subst hj1
      have : i = 1 ∨ i = 2 := by simp [exTU] at hia; omega
      rcases this with rfl | rfl <;> simp [exTU, tpk, C02.exTablePk, concatPayload]

theorem exTUs_ok : ∀ t ∈ exTUs, t.OK := by
  intro t ht
  simp only [exTUs, List.mem_cons, List.not_mem_nil, or_false] at ht
  rcases ht with rfl | rfl | rfl | rfl <;> exact exTU_ok _

theorem exTUs_chain : ChainOK [] (exTUs.map (·.u)) := chainB_sound _ _ (by decide +kernel)

/-- loss-free: each unit is flushed at its completing packet, its stuffing tail at the next unit start (or at the end); the
units yield 2 PAT data each, the tails none -/
example : ccTags (delivered [] 0 exTStream) = [[0, 1, 2], [3], [4, 5, 6], [7], [8, 9, 10], [11], [12, 13, 14], [15]]
    ∧ dataTags (delivered [] 0 exTStream) = ["ok2", "ok0", "ok2", "ok0", "ok2", "ok0", "ok2", "ok0"] := by decide +kernel

/-- the hypotheses of `table_loss_one_gap_no_splice` hold for every gap of 1..14 packets followed by a packet -/
example (i n : Nat) (h1 : 1 ≤ n) (h2 : n ≤ 14) (h3 : i + n < 16) (g : List Packet) (hne : g ≠ [])
    (hmem : g ∈ (accRun [] 0 [] (del exTStream i n)).1 ∨ g = (accRun [] 0 [] (del exTStream i n)).2) :
    (∃ t ∈ exTUs, g = t.a ++ [t.pk]) ∨
    (∃ t ∈ exTUs, Fragment t.u g ∧ ∀ p ∈ g, p.header.payloadUnitStartIndicator = false) := by
  have hlen : exTStream.length = 16 := by decide +kernel
  refine table_loss_one_gap_no_splice [] 0 (by decide) exTUs exTUs_ok exTUs_chain (exTStream.take i)
    ((exTStream.drop i).take n) (exTStream.drop (i + n)) ?_ ?_ ?_ ?_ g hne hmem
  · show exTStream = _
    rw [List.append_assoc, ← List.drop_drop, List.take_append_drop, List.take_append_drop]
  · rw [List.length_take, List.length_drop]; omega
  · rw [List.length_take]; omega
  · intro h
    have := congrArg List.length h
    rw [List.length_drop] at this
    simp at this; omega

/-- the completing packet (counter 6) of the second unit lost: its head `[4, 5]` is discarded at packet 7 (never delivered),
the stuffing tail `[7]` is flushed by the next unit start and yields nothing; the other units are intact -/
example : ccTags (delivered [] 0 (del exTStream 6 1)) = [[0, 1, 2], [3], [7], [8, 9, 10], [11], [12, 13, 14], [15]]
    ∧ dataTags (delivered [] 0 (del exTStream 6 1)) = ["ok2", "ok0", "ok0", "ok2", "ok0", "ok2", "ok0"] := by decide +kernel

/-- a packet BEFORE the completing packet lost (counter 5): the head `[4]` is discarded; the remainder is cut in two by a
FALSE COMPLETE — packet 6 alone (bytes `00 02 f0 01 …`: pointer 0, a "section" of table id 2 and length 1, then another one
that ends exactly at the end of the packet) looks complete and is flushed at once, as a fragment; the unit parser rejects
it (error: no CRC-valid section there); `[7]` follows as a second fragment.  Nothing of unit 2 is delivered as data. -/
example : ccTags (delivered [] 0 (del exTStream 5 1)) = [[0, 1, 2], [3], [6], [7], [8, 9, 10], [11], [12, 13, 14], [15]]
    ∧ dataTags (delivered [] 0 (del exTStream 5 1)) = ["ok2", "ok0", "err", "ok0", "ok2", "ok0", "ok2", "ok0"]
    ∧ isPSIComplete [tpk 6 false [0, 2, 240, 1, 0, 3, 240, 2, 184, 178, 78, 179]] = true := by decide +kernel

/-- the unit start (counter 4) lost: the previous stuffing tail `[3]`, still queued, is discarded too; the headless
remainder `[5, 6, 7]` never looks complete, is flushed by the next unit start and rejected by the unit parser -/
example : ccTags (delivered [] 0 (del exTStream 4 1)) = [[0, 1, 2], [5, 6, 7], [8, 9, 10], [11], [12, 13, 14], [15]]
    ∧ dataTags (delivered [] 0 (del exTStream 4 1)) = ["ok2", "err", "ok2", "ok0", "ok2", "ok0"] := by decide +kernel

/-- a stuffing-only tail packet (counter 7) lost: no unit is affected (the unit before it was flushed at its completing
packet) -/
example : ccTags (delivered [] 0 (del exTStream 7 1)) = [[0, 1, 2], [3], [4, 5, 6], [8, 9, 10], [11], [12, 13, 14], [15]] := by
  decide +kernel

/-- a gap across a unit boundary (6, 7, 8 lost): head `[4, 5]` discarded, remainder `[9, 10, 11]` of the next unit flushed
as a fragment -/
example : ccTags (delivered [] 0 (del exTStream 6 3)) = [[0, 1, 2], [3], [9, 10, 11], [12, 13, 14], [15]]
    ∧ dataTags (delivered [] 0 (del exTStream 6 3)) = ["ok2", "ok0", "err", "ok2", "ok0"] := by decide +kernel

/-- the excluded point `B = []` (the completing packet and everything after it lost at the end of the stream): nothing
reveals the gap; the end-of-stream drain hands over the head `[12, 13]` — a headed, incomplete group; the unit parser
rejects it -/
example : ccTags (delivered [] 0 (exTStream.take 14)) = [[0, 1, 2], [3], [4, 5, 6], [7], [8, 9, 10], [11], [12, 13]]
    ∧ (dataTags (delivered [] 0 (exTStream.take 14))).getLast? = some "err" := by decide +kernel

/-- **(L1, table PIDs) completeness: the units the gap does not touch are all delivered.**  `T1` / `T3`: the units before /
after the units `M` that lost a packet (`x`: what was received of the first of them, `y`: what is received of the last of
them; stuffing tails of at most 256 bytes, as in `C02.table_unit_flushed`).  Each unit of `T1 ++ T3` is flushed from its
first to its completing packet.  In contrast with `loss_one_gap` (PES PIDs: "the unit immediately preceding the gap is
discarded"), the unit that ends right before the gap survives on a table PID — it had already been flushed at its completing
packet. -/
theorem table_loss_one_gap_untouched_delivered (pm : ProgramMap) (pid : Nat) (htab : (pid == 0 || pm.has pid) = true)
    (T1 M T3 : List TU) (hok : ∀ t ∈ T1 ++ M ++ T3, t.OK ∧ (concatPayload t.b).length ≤ 256)
    (hc : ChainOK [] ((T1 ++ M ++ T3).map (·.u))) (x gap y : List Packet)
    (hM : (M.map (·.u)).flatMap UnitPk.packets = x ++ gap ++ y)
    (hlast : ∃ M' v w, M = M' ++ [v] ∧ v.u.packets = w ++ y ∧ w ≠ [])
    (hg1 : 1 ≤ gap.length) (hg2 : gap.length ≤ 14) (hb : y ++ (T3.map (·.u)).flatMap UnitPk.packets ≠ []) :
    ∀ t ∈ T1 ++ T3, t.a ++ [t.pk] ∈
      (accRun pm pid [] (((T1.map (·.u)).flatMap UnitPk.packets ++ x) ++ (y ++ (T3.map (·.u)).flatMap UnitPk.packets))).1 :=
  table_loss_untouched_delivered pm pid htab T1 M T3 hok hc x gap y hM hlast hg1 hg2 hb

/-- non-vacuity: the completing packet of the second unit lost — units 1, 3 and 4 are delivered -/
example : ∀ t ∈ [exTU 0] ++ [exTU 8, exTU 12], t.a ++ [t.pk] ∈
    (accRun [] 0 [] ((([exTU 0].map (·.u)).flatMap UnitPk.packets ++ (exTU 4).a)
      ++ ((exTU 4).b ++ ([exTU 8, exTU 12].map (·.u)).flatMap UnitPk.packets))).1 := by
  refine table_loss_one_gap_untouched_delivered [] 0 (by decide) [exTU 0] [exTU 4] [exTU 8, exTU 12] ?_ exTUs_chain
    (exTU 4).a [(exTU 4).pk] (exTU 4).b rfl ⟨[], exTU 4, (exTU 4).a ++ [(exTU 4).pk], rfl, rfl, by simp [exTU]⟩
    (by simp) (by simp) (by simp [exTU])
  intro t ht
  exact ⟨exTUs_ok t ht, by
    simp only [List.cons_append, List.nil_append, List.mem_cons, List.not_mem_nil, or_false] at ht
    rcases ht with rfl | rfl | rfl | rfl <;> simp [exTU, tpk, C02.exTablePk, concatPayload]⟩

end LossClauseTables

end Astits.C06
