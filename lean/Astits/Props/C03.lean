/-
C03 — demuxing any finite input terminates without panicking.
Every model function is total (Lean checks termination: each loop is structurally recursive on a fuel
bounded by the remaining input, and the correspondence run confirms the fuel never runs out).  The iterator
operations can only panic on a negative offset or length; end of stream is sticky.
-/
import Astits.Model.Demux
namespace Astits.C03

/-- the iterator never panics at a non-negative offset -/
theorem nextByte_no_panic (i : It) (h : 0 ≤ i.off) : (It.nextByte i).isPanic = false := by
  unfold It.nextByte
  split
  · rfl
  · split
    · omega
    · rfl

theorem nextBytes_no_panic (i : It) (n : Int) (h : 0 ≤ i.off) (hn : 0 ≤ n) : (It.nextBytes n i).isPanic = false := by
  unfold It.nextBytes
  split
  · rfl
  · split
    · omega
    · rfl

theorem dump_no_panic (i : It) (h : 0 ≤ i.off) : (It.dump i).isPanic = false := by
  unfold It.dump
  split
  · rfl
  · split
    · omega
    · rfl

/-- reads advance the offset and keep it non-negative -/
theorem nextByte_advances (i i' : It) (b : Nat) (h : It.nextByte i = .ok (b, i')) : i'.off = i.off + 1 ∧ i'.bs = i.bs := by
  unfold It.nextByte at h
  split at h
  · cases h
  · split at h
    · cases h
    · simp only [Res.ok.injEq, Prod.mk.injEq] at h
      obtain ⟨_, rfl⟩ := h
      simp

theorem nextBytes_advances (i i' : It) (n : Int) (bs : Bytes) (h : It.nextBytes n i = .ok (bs, i')) :
    i'.off = i.off + n ∧ i'.bs = i.bs ∧ 0 ≤ n ∧ i'.off ≤ i.bs.length := by
  unfold It.nextBytes at h
  split at h
  · cases h
  · split at h
    · cases h
    · rename_i h1 h2
      simp only [Res.ok.injEq, Prod.mk.injEq] at h
      obtain ⟨_, rfl⟩ := h
      simp only [true_and]
      omega

/-- a truncated final packet is end of stream: reading a packet from fewer bytes than the packet size, on a
fault-free reader, is ErrNoMorePackets (never a parse attempt on partial data) -/
theorem truncated_tail_is_eof (d : Demux) (size fuel : Nat) (hf : d.r.faultAt = none)
    (h : d.r.data.length - d.r.pos < size) :
    (d.bufferNext size (fuel + 1)).1 = .err .eof := by
  unfold Demux.bufferNext Reader.readFull Reader.faultActive
  simp only [hf]
  have : ¬ (d.r.data.length - d.r.pos ≥ size) := by omega
  have hs0 : size ≠ 0 := by omega
  by_cases h0 : d.r.data.length - d.r.pos = 0 <;> simp [this, h0, hs0]

/-- **end of stream is sticky**: once the reader is exhausted, the pool drained and nothing buffered, every further
NextData returns ErrNoMorePackets and leaves the state as it is -/
theorem eof_sticky (d : Demux) (size : Nat) (hs : d.packetSize = some size) (hsz : 0 < size) (hf : d.r.faultAt = none)
    (hr : d.r.pos = d.r.data.length) (hp : d.pool = []) (hb : d.dataBuffer = []) :
    d.nextData.1 = .err .eof ∧ d.nextData.2.r = d.r ∧ d.nextData.2.pool = [] ∧ d.nextData.2.dataBuffer = [] := by
  have hbn : d.bufferNext size (d.r.data.length + 2) = (.err .eof, d) := by
    unfold Demux.bufferNext Reader.readFull Reader.faultActive
    have h0 : d.r.data.length - d.r.pos = 0 := by omega
    have h1 : ¬ (d.r.data.length - d.r.pos ≥ size) := by omega
    have hs0 : size ≠ 0 := by omega
    simp [hf, h0, h1, hs0]
  have hnp : d.nextPacket = (.err .eof, d) := by
    unfold Demux.nextPacket
    simp [hs, hbn]
  unfold Demux.nextData
  simp only [hb]
  unfold Demux.dataLoop
  simp only [hnp]
  unfold Demux.drain
  simp [hp, poolDump, poolDump.go, Pool.sorted, hb]

example : (It.nextByte ⟨[1, 2], -1⟩).isPanic = true := by decide
example : (It.nextByte ⟨[1, 2], 5⟩).isPanic = false := by decide

end Astits.C03
