/-
C03 — demuxing any finite input terminates without panicking.
Every model function is total (Lean checks termination: each loop is structurally recursive on a fuel
bounded by the remaining input, and the correspondence run confirms the fuel never runs out).  The iterator
operations can only panic on a negative offset or length; end of stream is sticky.
-/
import Astits.Model.Demux
import Astits.Proofs.NoPanic
namespace Astits.C03

/-- the iterator never panics at a non-negative offset -/
theorem nextByte_no_panic (i : It) (h : 0 ≤ i.off) : (It.nextByte i).isPanic = false := by
  unfold It.nextByte
  split
  · rfl
  · split
    · omega
    · rfl

theorem nextBytes_no_panic (i : It) (n : Int) (h : 0 ≤ i.off) (hn : 0 ≤ n) : (It.nextBytes n i).isPanic = false := by
  unfold It.nextBytes
  split
  · rfl
  · split
    · omega
    · rfl

theorem dump_no_panic (i : It) (h : 0 ≤ i.off) : (It.dump i).isPanic = false := by
  unfold It.dump
  split
  · rfl
  · split
    · omega
    · rfl

/-- reads advance the offset and keep it non-negative -/
theorem nextByte_advances (i i' : It) (b : Nat) (h : It.nextByte i = .ok (b, i')) : i'.off = i.off + 1 ∧ i'.bs = i.bs := by
  unfold It.nextByte at h
  split at h
  · cases h
  · split at h
    · cases h
    · simp only [Res.ok.injEq, Prod.mk.injEq] at h
      obtain ⟨_, rfl⟩ := h
      simp

theorem nextBytes_advances (i i' : It) (n : Int) (bs : Bytes) (h : It.nextBytes n i = .ok (bs, i')) :
    i'.off = i.off + n ∧ i'.bs = i.bs ∧ 0 ≤ n ∧ i'.off ≤ i.bs.length := by
  unfold It.nextBytes at h
  split at h
  · cases h
  · split at h
    · cases h
    · rename_i h1 h2
      simp only [Res.ok.injEq, Prod.mk.injEq] at h
      obtain ⟨_, rfl⟩ := h
      simp only [true_and]
      omega

/-- a truncated final packet is end of stream: reading a packet from fewer bytes than the packet size, on a
fault-free reader, is ErrNoMorePackets (never a parse attempt on partial data) -/
theorem truncated_tail_is_eof (d : Demux) (size fuel : Nat) (hf : d.r.faultAt = none)
    (h : d.r.data.length - d.r.pos < size) :
    (d.bufferNext size (fuel + 1)).1 = .err .eof := by
  unfold Demux.bufferNext Reader.readFull Reader.faultActive
  simp only [hf]
  have : ¬ (d.r.data.length - d.r.pos ≥ size) := by omega
  have hs0 : size ≠ 0 := by omega
  by_cases h0 : d.r.data.length - d.r.pos = 0 <;> simp [this, h0, hs0]

/-- **end of stream is sticky**: once the reader is exhausted, the pool drained and nothing buffered, every further
NextData returns ErrNoMorePackets and leaves the state as it is -/
theorem eof_sticky (d : Demux) (size : Nat) (hs : d.packetSize = some size) (hsz : 0 < size) (hf : d.r.faultAt = none)
    (hr : d.r.pos = d.r.data.length) (hp : d.pool = []) (hb : d.dataBuffer = []) :
    d.nextData.1 = .err .eof ∧ d.nextData.2.r = d.r ∧ d.nextData.2.pool = [] ∧ d.nextData.2.dataBuffer = [] := by
  have hbn : d.bufferNext size (d.r.data.length + 2) = (.err .eof, d) := by
    unfold Demux.bufferNext Reader.readFull Reader.faultActive
    have h0 : d.r.data.length - d.r.pos = 0 := by omega
    have h1 : ¬ (d.r.data.length - d.r.pos ≥ size) := by omega
    have hs0 : size ≠ 0 := by omega
    simp [hf, h0, h1, hs0]
  have hnp : d.nextPacket = (.err .eof, d) := by
    unfold Demux.nextPacket
    simp [hs, hbn]
  unfold Demux.nextData
  simp only [hb]
  unfold Demux.dataLoop
  simp only [hnp]
  unfold Demux.drain
  simp [hp, poolDump, poolDump.go, Pool.sorted, hb]

example : (It.nextByte ⟨[1, 2], -1⟩).isPanic = true := by decide
example : (It.nextByte ⟨[1, 2], 5⟩).isPanic = false := by decide

/-! ## No parser of the model yields `.panic` (reading side), bottom-up

Helper lemmas: `Astits/Proofs/NoPanic/*.lean` (a no-panic Hoare logic `Tr` / `NP` on the parser monad).
`NP p` unfolds (`NP_iff`) to: from every iterator with `0 ≤ off`, `p` does not panic and leaves `0 ≤ off`.

FINDINGS (confirmed on the Go implementation): `parsePacket` panics on a sync-byte-led slice shorter than 187 bytes
(`Seek(len-188+1)` goes negative, the next `NextBytes(3)` slices at a negative index), so
`DemuxerOptPacketSize(n)` with `1 ≤ n ≤ 186` makes `NextPacket`/`NextData` panic on the first packet that starts
with 0x47.  The property's domain ("explicit size ≥ 188") excludes it; the exact bound is 187. -/

/-! ### (1) iterator primitives -/

/-- the exact panic conditions of every iterator primitive -/
theorem iterator_panic_conditions (it : It) (n : Int) :
    (It.nextByte it = .panic ↔ it.off < 0) ∧
    (It.nextBytes n it = .panic ↔ it.off + n ≤ it.bs.length ∧ (n < 0 ∨ it.off < 0)) ∧
    (It.dump it = .panic ↔ it.off < 0) ∧
    It.seek n it ≠ .panic ∧ It.skip n it ≠ .panic ∧ It.offset it ≠ .panic ∧ It.len it ≠ .panic ∧
    It.hasBytesLeft it ≠ .panic :=
  ⟨nextByte_panic_iff it, nextBytes_panic_iff n it, dump_panic_iff it, seek_ne_panic n it, skip_ne_panic n it,
    offset_ne_panic it, len_ne_panic it, hasBytesLeft_ne_panic it⟩

/-- the invariant `0 ≤ off` is preserved by every primitive on `.ok` (for `Seek`/`Skip`: exactly when the target
offset is not negative) -/
theorem iterator_offset_invariant (it it' : It) (h0 : 0 ≤ it.off) :
    (∀ b, It.nextByte it = .ok (b, it') → 0 ≤ it'.off) ∧
    (∀ n bs, It.nextBytes n it = .ok (bs, it') → 0 ≤ it'.off) ∧
    (∀ bs, It.dump it = .ok (bs, it') → 0 ≤ it'.off) ∧
    (∀ n, It.seek n it = .ok ((), it') → (0 ≤ it'.off ↔ 0 ≤ n)) ∧
    (∀ n, It.skip n it = .ok ((), it') → (0 ≤ it'.off ↔ 0 ≤ it.off + n)) ∧
    (∀ o, It.offset it = .ok (o, it') → 0 ≤ it'.off) ∧
    (∀ l, It.len it = .ok (l, it') → 0 ≤ it'.off) ∧
    (∀ b, It.hasBytesLeft it = .ok (b, it') → 0 ≤ it'.off) := by
  refine ⟨?_, ?_, ?_, ?_, ?_, ?_, ?_, ?_⟩
  · intro b h; have := nextByte_advances it it' b h; omega
  · intro n bs h; have := nextBytes_advances it it' n bs h; omega
  · intro bs h; exact NP_dump.off_nonneg it h0 bs it' h
  · intro n h
    simp only [It.seek, Res.ok.injEq, Prod.mk.injEq, true_and] at h
    rw [← h]
  · intro n h
    simp only [It.skip, Res.ok.injEq, Prod.mk.injEq, true_and] at h
    rw [← h]
  · intro o h; exact NP_offset.off_nonneg it h0 o it' h
  · intro l h; exact NP_len.off_nonneg it h0 l it' h
  · intro b h; exact NP_hasBytesLeft.off_nonneg it h0 b it' h

example : (It.nextBytes (-1) ⟨[1, 2], 1⟩).isPanic = true := by decide
example : (It.dump ⟨[1, 2], -1⟩).isPanic = true := by decide

/-! ### (2) `parsePacket` and the adaptation-field parsers -/

/-- the packet sub-parsers never panic from a non-negative offset, on any bytes -/
theorem packet_subparsers_never_panic :
    NP parsePacketHeader ∧ NP parsePCR ∧ NP parsePTSOrDTS ∧ NP parseAFExtension ∧ NP parsePacketAdaptationField :=
  ⟨NP_parsePacketHeader, NP_parsePCR, NP_parsePTSOrDTS, NP_parseAFExtension, NP_parsePacketAdaptationField⟩

/-- **`parsePacket` never panics** on a slice of at least 187 bytes, from any non-negative offset, with any
PacketSkipper; on success the offset is not negative -/
theorem parsePacket_never_panics_from (skip : Option (Packet → Bool)) (it : It) (h0 : 0 ≤ it.off)
    (hl : 187 ≤ it.bs.length) :
    parsePacket skip it ≠ .panic ∧ ∀ p it', parsePacket skip it = .ok (p, it') → 0 ≤ it'.off :=
  ⟨(Tr_parsePacket skip).not_panic it ⟨h0, hl⟩, fun p it' e => (Tr_parsePacket skip).post it ⟨h0, hl⟩ p it' e⟩

/-- **`parsePacket` never panics**, stated for the entry point used by `packetBuffer.next`
(`(parsePacket skip).val bs`: a fresh iterator on the packet bytes) -/
theorem parsePacket_never_panics (skip : Option (Packet → Bool)) (bs : Bytes) (hl : 187 ≤ bs.length) :
    (parsePacket skip).val bs ≠ .panic :=
  P.val_ne_panic ((Tr_parsePacket skip).not_panic ⟨bs, 0⟩ ⟨Int.le_refl 0, hl⟩)

/-- the guard is exact: `parsePacket` panics precisely on a sync-byte-led slice shorter than 187 bytes -/
theorem parsePacket_panics_iff (skip : Option (Packet → Bool)) (bs : Bytes) :
    (parsePacket skip).val bs = .panic ↔ bs.head? = some syncByte ∧ bs.length < 187 := by
  rw [P.val_panic_iff]; exact parsePacket_panic_iff skip bs

-- non-vacuity: a 188-byte packet (PID 0x100, payload only) satisfies the hypothesis and parses
example : ∃ bs : Bytes, 187 ≤ bs.length ∧ ((parsePacket none).val bs).isOk = true :=
  ⟨0x47 :: 0x41 :: 0x00 :: 0x10 :: List.replicate 184 0xab, by decide +kernel, by decide +kernel⟩
-- the excluded inputs do panic
example : ((parsePacket none).val [0x47]).isPanic = true := by decide +kernel
example : ((parsePacket none).val (0x47 :: List.replicate 185 0)).isPanic = true := by decide +kernel
example : ((parsePacket none).val (0x47 :: List.replicate 186 0)).isPanic = false := by decide +kernel

/-! ### (3) PES -/

/-- **`parsePESData` never panics**: from any non-negative offset, on any bytes -/
theorem parsePESData_never_panics_from (it : It) (h0 : 0 ≤ it.off) :
    parsePESData it ≠ .panic ∧ ∀ d it', parsePESData it = .ok (d, it') → 0 ≤ it'.off :=
  (NP_iff parsePESData).mp NP_parsePESData it h0

/-- **`parsePESData` never panics** on any payload (entry point of `parseData`) -/
theorem parsePESData_never_panics (payload : Bytes) : parsePESData.val payload ≠ .panic :=
  NP_parsePESData.val_ne_panic payload

example : (parsePESData.val [0, 0, 1, 0xe0, 0, 0, 0x80, 0x80, 5, 0x21, 0, 1, 0, 1, 7, 7]).isOk = true := by
  decide +kernel
example : (parsePESData.val [0, 0, 1, 0xe0, 0xff]).isOk = false := by decide +kernel

/-! ### (4) descriptors -/

/-- **`parseDescriptors` never panics**: from any non-negative offset (it is called in the middle of a section),
on any bytes, and it leaves a non-negative offset -/
theorem parseDescriptors_never_panics (it : It) (h0 : 0 ≤ it.off) :
    parseDescriptors it ≠ .panic ∧ ∀ ds it', parseDescriptors it = .ok (ds, it') → 0 ≤ it'.off :=
  (NP_iff parseDescriptors).mp NP_parseDescriptors it h0

/-- the DVB time parsers never panic -/
theorem dvb_parsers_never_panic : NP parseDVBTime ∧ NP parseDVBDurationSeconds ∧ NP parseDVBDurationMinutes :=
  ⟨NP_parseDVBTime, NP_parseDVBDurationSeconds, NP_parseDVBDurationMinutes⟩

/-- the three descriptor constructors with an unguarded `NextBytes(offsetEnd - offset)` are panic-free exactly in
the situation `parseDescriptor` calls them in (offset inside the non-empty descriptor body) … -/
theorem unguarded_rest_descriptors_never_panic (e : Int) (it : It) (h0 : 0 ≤ it.off) (he : it.off < e) :
    newDescriptorISO639LanguageAndAudioType e it ≠ .panic ∧ newDescriptorNetworkName e it ≠ .panic ∧
      newDescriptorExtension e it ≠ .panic :=
  ⟨(Tr_newDescriptorISO639LanguageAndAudioType e).not_panic it ⟨h0, he⟩,
    (Tr_newDescriptorNetworkName e).not_panic it ⟨h0, he⟩, (Tr_newDescriptorExtension e).not_panic it ⟨h0, he⟩⟩

-- … and do panic outside it (unreachable from `parseDescriptors`)
example : ((newDescriptorISO639LanguageAndAudioType 1).run [1, 2, 3] 1).isPanic = true := by decide +kernel
example : ((newDescriptorNetworkName 1).run [1, 2, 3] 2).isPanic = true := by decide +kernel

example : (parseDescriptors.val [0xf0, 6, 0x0a, 4, 0x65, 0x6e, 0x67, 0]).isOk = true := by decide +kernel
-- declared ISO 639 descriptor length 0: skipped, no panic
example : (parseDescriptors.val [0xf0, 2, 0x0a, 0]).isOk = true := by decide +kernel

/-! ### (5) PSI -/

/-- **`parsePSIData` never panics**: from any non-negative offset, on any bytes -/
theorem parsePSIData_never_panics_from (it : It) (h0 : 0 ≤ it.off) :
    parsePSIData it ≠ .panic ∧ ∀ d it', parsePSIData it = .ok (d, it') → 0 ≤ it'.off :=
  (NP_iff parsePSIData).mp NP_parsePSIData it h0

/-- **`parsePSIData` never panics** on any payload (entry point of `parseData`) -/
theorem parsePSIData_never_panics (payload : Bytes) : parsePSIData.val payload ≠ .panic :=
  NP_parsePSIData.val_ne_panic payload

/-- the syntax-data dispatcher is panic-free exactly when the syntax header is present for the table ids that have
one (which `parsePSISection` guarantees); without it the model reports Go's nil dereference -/
theorem parsePSISectionSyntaxData_never_panics (t : Nat) (sh : Option PSISectionSyntaxHeader) (e : Int)
    (h : sh.isSome = hasPSISyntaxHeader t) : NP (parsePSISectionSyntaxData t sh e) :=
  NP_parsePSISectionSyntaxData t sh e h

example : ((parsePSISectionSyntaxData 0 none 10).run [1, 2, 3] 1).isPanic = true := by decide +kernel
-- a PAT section with a wrong CRC: an error, not a panic; a too short one likewise
example : (parsePSIData.val [0, 0, 0xb0, 0x0d, 0, 1, 0xc1, 0, 0, 0, 1, 0xf0, 0, 1, 2, 3, 4]).isOk = false := by
  decide +kernel
example : (parsePSIData.val [0, 0, 0xb0, 0x01, 0]).isPanic = false := by decide +kernel

/-! ### (6) `parseData`, `isPSIComplete`, `NextPacket`, `NextData` -/

/-- **`parseData` never panics**: any packets, any custom-parser kind, any program map -/
theorem parseData_never_panics (ps : List Packet) (prs : ParserKind) (pm : ProgramMap) :
    parseData ps prs pm ≠ .panic :=
  parseData_ne_panic ps prs pm

/-- the parser behind `isPSIComplete` never panics (so treating every failure as "incomplete" hides no panic) -/
theorem isPSIComplete_parser_never_panics (payload : Bytes) :
    (psiCompleteParser (payload.length + 1)).val payload ≠ .panic ∧
    isPSICompleteBytes payload = (match (psiCompleteParser (payload.length + 1)).val payload with
      | .ok b => b
      | _ => false) :=
  ⟨psiCompleteParser_ne_panic payload _, isPSICompleteBytes_eq payload⟩

/-- auto-detection never panics and only returns sizes ≥ 188 -/
theorem autoDetectPacketSize_never_panics (r : Reader) :
    (autoDetectPacketSize r).1 ≠ .panic ∧ ∀ s, (autoDetectPacketSize r).1 = .ok s → 188 ≤ s := by
  have := autoDetectPacketSize_spec r
  constructor
  · intro e; rw [e] at this; exact this
  · intro s e; rw [e] at this; exact this

/-- **`NextPacket` never panics**: any reader contents / kind / fault, any skipper and parser, any pool, in every
state whose packet sizes are supported (`Demux.SizeOK`: option 0 or ≥ 187, installed size ≥ 187); the state
afterwards is again such a state -/
theorem nextPacket_never_panics (d : Demux) (h : d.SizeOK) : d.nextPacket.1 ≠ .panic ∧ d.nextPacket.2.SizeOK :=
  nextPacket_spec d h

/-- **`NextData` never panics** (same hypotheses), and re-establishes the invariant -/
theorem nextData_never_panics (d : Demux) (h : d.SizeOK) : d.nextData.1 ≠ .panic ∧ d.nextData.2.SizeOK :=
  nextData_spec d h

/-- every initial state (`NewDemuxer`: no packet buffer yet) with packet size option 0 (auto-detect) or ≥ 187
satisfies the invariant … -/
theorem newDemux_sizeOK (d : Demux) (hp : d.packetSize = none) (ho : d.optPacketSize = 0 ∨ 187 ≤ d.optPacketSize) :
    d.SizeOK :=
  SizeOK_init d hp ho

/-- … hence **no sequence of `NextPacket` / `NextData` / `Rewind` calls from an initial state ever panics** -/
theorem demux_calls_never_panic (d : Demux) (hp : d.packetSize = none)
    (ho : d.optPacketSize = 0 ∨ 187 ≤ d.optPacketSize) (calls : List DemuxCall) : d.anyPanic calls = false :=
  anyPanic_false d (SizeOK_init d hp ho) calls

-- non-vacuity: the default demuxer over arbitrary bytes, auto-detection, explicit 188 and 192
example : ({ r := { data := [1, 2, 3] } } : Demux).SizeOK := SizeOK_init _ rfl (Or.inl rfl)
example : ({ r := { data := List.replicate 400 0x47, kind := .plain }, optPacketSize := 192,
             skipper := .script [true, false] , parser := .observer } : Demux).SizeOK :=
  SizeOK_init _ rfl (Or.inr (by decide))
example : (({ r := { data := 0x47 :: 0x40 :: 0 :: 0x10 :: List.replicate 184 0 }, optPacketSize := 188 } : Demux).anyPanic
    [.nextData, .nextData, .rewind, .nextPacket, .nextPacket]) = false :=
  demux_calls_never_panic _ rfl (Or.inr (by decide)) _
-- the excluded configuration does panic (FINDING): explicit packet size 100 on a sync-byte-led stream
example : (({ r := { data := 0x47 :: List.replicate 99 0 }, optPacketSize := 100 } : Demux).nextPacket.1).isPanic = true := by
  decide +kernel
example : (({ r := { data := 0x47 :: List.replicate 99 0 }, optPacketSize := 100 } : Demux).nextData.1).isPanic = true := by
  decide +kernel

/-- the guard is exact (FINDING): an explicit packet size `1 ≤ n ≤ 186` makes the first `NextPacket` panic on any
fault-free reader holding at least `n` bytes that start with the sync byte -/
theorem explicit_size_below_187_panics (d : Demux) (n : Nat) (tl : Bytes) (hps : d.packetSize = none)
    (ho : d.optPacketSize = n) (h0 : 0 < n) (hn : n < 187) (hf : d.r.faultAt = none) (hpos : d.r.pos = 0)
    (hdata : d.r.data = syncByte :: tl) (hlen : n ≤ tl.length + 1) : d.nextPacket.1 = .panic :=
  nextPacket_panics_below_187 d n tl hps ho h0 hn hf hpos hdata hlen

example : (({ r := { data := syncByte :: [1, 2, 3] }, optPacketSize := 2 } : Demux).nextPacket.1) = .panic :=
  explicit_size_below_187_panics _ 2 [1, 2, 3] rfl rfl (by decide) (by decide) rfl rfl rfl (by decide)

#print axioms explicit_size_below_187_panics
#print axioms iterator_panic_conditions
#print axioms iterator_offset_invariant
#print axioms parsePacket_never_panics
#print axioms parsePacket_never_panics_from
#print axioms parsePacket_panics_iff
#print axioms parsePESData_never_panics
#print axioms parseDescriptors_never_panics
#print axioms parsePSIData_never_panics
#print axioms parseData_never_panics
#print axioms isPSIComplete_parser_never_panics
#print axioms nextPacket_never_panics
#print axioms nextData_never_panics
#print axioms demux_calls_never_panic

end Astits.C03
