/-
C03 — demuxing any finite input terminates without panicking.
Every model function is total (Lean checks termination: each loop is structurally recursive on a fuel).  The fuel of
the demuxer loops (`bufferNext`, `dataLoop`, `drain`) is proved sufficient in the section "Termination" below: the
model computes a fuel-free big-step semantics, repeated `NextPacket` / `NextData` calls reach ErrNoMorePackets within
an explicit number of calls, and it is sticky.  The iterator operations can only panic on a negative offset or
length.
-/
import Astits.Model.Demux
import Astits.Proofs.NoPanic
import Astits.Proofs.Termination
import Astits.Proofs.TerminationCost
import Astits.Proofs.ParserFuel
namespace Astits.C03

/-- the iterator never panics at a non-negative offset -/
theorem nextByte_no_panic (i : It) (h : 0 ≤ i.off) : (It.nextByte i).isPanic = false := by
  unfold It.nextByte
  split
  · rfl
  · split
    · omega
    · rfl

theorem nextBytes_no_panic (i : It) (n : Int) (h : 0 ≤ i.off) (hn : 0 ≤ n) : (It.nextBytes n i).isPanic = false := by
  unfold It.nextBytes
  split
  · rfl
  · split
    · omega
    · rfl

theorem dump_no_panic (i : It) (h : 0 ≤ i.off) : (It.dump i).isPanic = false := by
  unfold It.dump
  split
  · rfl
  · split
    · omega
    · rfl

/-- reads advance the offset and keep it non-negative -/
theorem nextByte_advances (i i' : It) (b : Nat) (h : It.nextByte i = .ok (b, i')) : i'.off = i.off + 1 ∧ i'.bs = i.bs := by
  unfold It.nextByte at h
  split at h
  · cases h
  · split at h
    · cases h
    · simp only [Res.ok.injEq, Prod.mk.injEq] at h
      obtain ⟨_, rfl⟩ := h
      simp

theorem nextBytes_advances (i i' : It) (n : Int) (bs : Bytes) (h : It.nextBytes n i = .ok (bs, i')) :
    i'.off = i.off + n ∧ i'.bs = i.bs ∧ 0 ≤ n ∧ i'.off ≤ i.bs.length := by
  unfold It.nextBytes at h
  split at h
  · cases h
  · split at h
    · cases h
    · rename_i h1 h2
      simp only [Res.ok.injEq, Prod.mk.injEq] at h
      obtain ⟨_, rfl⟩ := h
      simp only [true_and]
      omega

/-- a truncated final packet is end of stream: reading a packet from fewer bytes than the packet size, on a
fault-free reader, is ErrNoMorePackets (never a parse attempt on partial data) -/
theorem truncated_tail_is_eof (d : Demux) (size fuel : Nat) (hf : d.r.faultAt = none)
    (h : d.r.data.length - d.r.pos < size) :
    (d.bufferNext size (fuel + 1)).1 = .err .eof := by
  unfold Demux.bufferNext Reader.readFull Reader.faultActive
  simp only [hf]
  have : ¬ (d.r.data.length - d.r.pos ≥ size) := by omega
  have hs0 : size ≠ 0 := by omega
  by_cases h0 : d.r.data.length - d.r.pos = 0 <;> simp [this, h0, hs0]

/-- **end of stream is sticky**: once the reader is exhausted, the pool drained and nothing buffered, every further
NextData returns ErrNoMorePackets and leaves the state as it is -/
theorem eof_sticky (d : Demux) (size : Nat) (hs : d.packetSize = some size) (hsz : 0 < size) (hf : d.r.faultAt = none)
    (hr : d.r.pos = d.r.data.length) (hp : d.pool = []) (hb : d.dataBuffer = []) :
    d.nextData.1 = .err .eof ∧ d.nextData.2.r = d.r ∧ d.nextData.2.pool = [] ∧ d.nextData.2.dataBuffer = [] := by
  have hbn : d.bufferNext size (d.r.data.length + 2) = (.err .eof, d) := by
    unfold Demux.bufferNext Reader.readFull Reader.faultActive
    have h0 : d.r.data.length - d.r.pos = 0 := by omega
    have h1 : ¬ (d.r.data.length - d.r.pos ≥ size) := by omega
    have hs0 : size ≠ 0 := by omega
    simp [hf, h0, h1, hs0]
  have hnp : d.nextPacket = (.err .eof, d) := by
    unfold Demux.nextPacket
    simp [hs, hbn]
  unfold Demux.nextData
  simp only [hb]
  unfold Demux.dataLoop
  simp only [hnp]
  unfold Demux.drain
  simp [hp, poolDump, poolDump.go, Pool.sorted, hb]

example : (It.nextByte ⟨[1, 2], -1⟩).isPanic = true := by decide
example : (It.nextByte ⟨[1, 2], 5⟩).isPanic = false := by decide

/-! ## No parser of the model yields `.panic` (reading side), bottom-up

Helper lemmas: `Astits/Proofs/NoPanic/*.lean` (a no-panic Hoare logic `Tr` / `NP` on the parser monad).
`NP p` unfolds (`NP_iff`) to: from every iterator with `0 ≤ off`, `p` does not panic and leaves `0 ≤ off`.

FINDINGS (confirmed on the Go implementation): `parsePacket` panics on a sync-byte-led slice shorter than 187 bytes
(`Seek(len-188+1)` goes negative, the next `NextBytes(3)` slices at a negative index), so
`DemuxerOptPacketSize(n)` with `1 ≤ n ≤ 186` makes `NextPacket`/`NextData` panic on the first packet that starts
with 0x47.  The property's domain ("explicit size ≥ 188") excludes it; the exact bound is 187. -/

/-! ### (1) iterator primitives -/

/-- the exact panic conditions of every iterator primitive -/
theorem iterator_panic_conditions (it : It) (n : Int) :
    (It.nextByte it = .panic ↔ it.off < 0) ∧
    (It.nextBytes n it = .panic ↔ it.off + n ≤ it.bs.length ∧ (n < 0 ∨ it.off < 0)) ∧
    (It.dump it = .panic ↔ it.off < 0) ∧
    It.seek n it ≠ .panic ∧ It.skip n it ≠ .panic ∧ It.offset it ≠ .panic ∧ It.len it ≠ .panic ∧
    It.hasBytesLeft it ≠ .panic :=
  ⟨nextByte_panic_iff it, nextBytes_panic_iff n it, dump_panic_iff it, seek_ne_panic n it, skip_ne_panic n it,
    offset_ne_panic it, len_ne_panic it, hasBytesLeft_ne_panic it⟩

/-- the invariant `0 ≤ off` is preserved by every primitive on `.ok` (for `Seek`/`Skip`: exactly when the target
offset is not negative) -/
theorem iterator_offset_invariant (it it' : It) (h0 : 0 ≤ it.off) :
    (∀ b, It.nextByte it = .ok (b, it') → 0 ≤ it'.off) ∧
    (∀ n bs, It.nextBytes n it = .ok (bs, it') → 0 ≤ it'.off) ∧
    (∀ bs, It.dump it = .ok (bs, it') → 0 ≤ it'.off) ∧
    (∀ n, It.seek n it = .ok ((), it') → (0 ≤ it'.off ↔ 0 ≤ n)) ∧
    (∀ n, It.skip n it = .ok ((), it') → (0 ≤ it'.off ↔ 0 ≤ it.off + n)) ∧
    (∀ o, It.offset it = .ok (o, it') → 0 ≤ it'.off) ∧
    (∀ l, It.len it = .ok (l, it') → 0 ≤ it'.off) ∧
    (∀ b, It.hasBytesLeft it = .ok (b, it') → 0 ≤ it'.off) := by
  refine ⟨?_, ?_, ?_, ?_, ?_, ?_, ?_, ?_⟩
  · intro b h; have := nextByte_advances it it' b h; omega
  · intro n bs h; have := nextBytes_advances it it' n bs h; omega
  · intro bs h; exact NP_dump.off_nonneg it h0 bs it' h
  · intro n h
    simp only [It.seek, Res.ok.injEq, Prod.mk.injEq, true_and] at h
    rw [← h]
  · intro n h
    simp only [It.skip, Res.ok.injEq, Prod.mk.injEq, true_and] at h
    rw [← h]
  · intro o h; exact NP_offset.off_nonneg it h0 o it' h
  · intro l h; exact NP_len.off_nonneg it h0 l it' h
  · intro b h; exact NP_hasBytesLeft.off_nonneg it h0 b it' h

example : (It.nextBytes (-1) ⟨[1, 2], 1⟩).isPanic = true := by decide
example : (It.dump ⟨[1, 2], -1⟩).isPanic = true := by decide

/-! ### (2) `parsePacket` and the adaptation-field parsers -/

/-- the packet sub-parsers never panic from a non-negative offset, on any bytes -/
theorem packet_subparsers_never_panic :
    NP parsePacketHeader ∧ NP parsePCR ∧ NP parsePTSOrDTS ∧ NP parseAFExtension ∧ NP parsePacketAdaptationField :=
  ⟨NP_parsePacketHeader, NP_parsePCR, NP_parsePTSOrDTS, NP_parseAFExtension, NP_parsePacketAdaptationField⟩

/-- **`parsePacket` never panics** on a slice of at least 187 bytes, from any non-negative offset, with any
PacketSkipper; on success the offset is not negative -/
theorem parsePacket_never_panics_from (skip : Option (Packet → Bool)) (it : It) (h0 : 0 ≤ it.off)
    (hl : 187 ≤ it.bs.length) :
    parsePacket skip it ≠ .panic ∧ ∀ p it', parsePacket skip it = .ok (p, it') → 0 ≤ it'.off :=
  ⟨(Tr_parsePacket skip).not_panic it ⟨h0, hl⟩, fun p it' e => (Tr_parsePacket skip).post it ⟨h0, hl⟩ p it' e⟩

/-- **`parsePacket` never panics**, stated for the entry point used by `packetBuffer.next`
(`(parsePacket skip).val bs`: a fresh iterator on the packet bytes) -/
theorem parsePacket_never_panics (skip : Option (Packet → Bool)) (bs : Bytes) (hl : 187 ≤ bs.length) :
    (parsePacket skip).val bs ≠ .panic :=
  P.val_ne_panic ((Tr_parsePacket skip).not_panic ⟨bs, 0⟩ ⟨Int.le_refl 0, hl⟩)

/-- the guard is exact: `parsePacket` panics precisely on a sync-byte-led slice shorter than 187 bytes -/
theorem parsePacket_panics_iff (skip : Option (Packet → Bool)) (bs : Bytes) :
    (parsePacket skip).val bs = .panic ↔ bs.head? = some syncByte ∧ bs.length < 187 := by
  rw [P.val_panic_iff]; exact parsePacket_panic_iff skip bs

-- non-vacuity: a 188-byte packet (PID 0x100, payload only) satisfies the hypothesis and parses
example : ∃ bs : Bytes, 187 ≤ bs.length ∧ ((parsePacket none).val bs).isOk = true :=
  ⟨0x47 :: 0x41 :: 0x00 :: 0x10 :: List.replicate 184 0xab, by decide +kernel, by decide +kernel⟩
-- the excluded inputs do panic
example : ((parsePacket none).val [0x47]).isPanic = true := by decide +kernel
example : ((parsePacket none).val (0x47 :: List.replicate 185 0)).isPanic = true := by decide +kernel
example : ((parsePacket none).val (0x47 :: List.replicate 186 0)).isPanic = false := by decide +kernel

/-! ### (3) PES -/

/-- **`parsePESData` never panics**: from any non-negative offset, on any bytes -/
theorem parsePESData_never_panics_from (it : It) (h0 : 0 ≤ it.off) :
    parsePESData it ≠ .panic ∧ ∀ d it', parsePESData it = .ok (d, it') → 0 ≤ it'.off :=
  (NP_iff parsePESData).mp NP_parsePESData it h0

/-- **`parsePESData` never panics** on any payload (entry point of `parseData`) -/
theorem parsePESData_never_panics (payload : Bytes) : parsePESData.val payload ≠ .panic :=
  NP_parsePESData.val_ne_panic payload

example : (parsePESData.val [0, 0, 1, 0xe0, 0, 0, 0x80, 0x80, 5, 0x21, 0, 1, 0, 1, 7, 7]).isOk = true := by
  decide +kernel
example : (parsePESData.val [0, 0, 1, 0xe0, 0xff]).isOk = false := by decide +kernel

/-! ### (4) descriptors -/

/-- **`parseDescriptors` never panics**: from any non-negative offset (it is called in the middle of a section),
on any bytes, and it leaves a non-negative offset -/
theorem parseDescriptors_never_panics (it : It) (h0 : 0 ≤ it.off) :
    parseDescriptors it ≠ .panic ∧ ∀ ds it', parseDescriptors it = .ok (ds, it') → 0 ≤ it'.off :=
  (NP_iff parseDescriptors).mp NP_parseDescriptors it h0

/-- the DVB time parsers never panic -/
theorem dvb_parsers_never_panic : NP parseDVBTime ∧ NP parseDVBDurationSeconds ∧ NP parseDVBDurationMinutes :=
  ⟨NP_parseDVBTime, NP_parseDVBDurationSeconds, NP_parseDVBDurationMinutes⟩

/-- the three descriptor constructors with an unguarded `NextBytes(offsetEnd - offset)` are panic-free exactly in
the situation `parseDescriptor` calls them in (offset inside the non-empty descriptor body) … -/
theorem unguarded_rest_descriptors_never_panic (e : Int) (it : It) (h0 : 0 ≤ it.off) (he : it.off < e) :
    newDescriptorISO639LanguageAndAudioType e it ≠ .panic ∧ newDescriptorNetworkName e it ≠ .panic ∧
      newDescriptorExtension e it ≠ .panic :=
  ⟨(Tr_newDescriptorISO639LanguageAndAudioType e).not_panic it ⟨h0, he⟩,
    (Tr_newDescriptorNetworkName e).not_panic it ⟨h0, he⟩, (Tr_newDescriptorExtension e).not_panic it ⟨h0, he⟩⟩

-- … and do panic outside it (unreachable from `parseDescriptors`)
example : ((newDescriptorISO639LanguageAndAudioType 1).run [1, 2, 3] 1).isPanic = true := by decide +kernel
example : ((newDescriptorNetworkName 1).run [1, 2, 3] 2).isPanic = true := by decide +kernel

example : (parseDescriptors.val [0xf0, 6, 0x0a, 4, 0x65, 0x6e, 0x67, 0]).isOk = true := by decide +kernel
-- declared ISO 639 descriptor length 0: skipped, no panic
example : (parseDescriptors.val [0xf0, 2, 0x0a, 0]).isOk = true := by decide +kernel

/-! ### (5) PSI -/

/-- **`parsePSIData` never panics**: from any non-negative offset, on any bytes -/
theorem parsePSIData_never_panics_from (it : It) (h0 : 0 ≤ it.off) :
    parsePSIData it ≠ .panic ∧ ∀ d it', parsePSIData it = .ok (d, it') → 0 ≤ it'.off :=
  (NP_iff parsePSIData).mp NP_parsePSIData it h0

/-- **`parsePSIData` never panics** on any payload (entry point of `parseData`) -/
theorem parsePSIData_never_panics (payload : Bytes) : parsePSIData.val payload ≠ .panic :=
  NP_parsePSIData.val_ne_panic payload

/-- the syntax-data dispatcher is panic-free exactly when the syntax header is present for the table ids that have
one (which `parsePSISection` guarantees); without it the model reports Go's nil dereference -/
theorem parsePSISectionSyntaxData_never_panics (t : Nat) (sh : Option PSISectionSyntaxHeader) (e : Int)
    (h : sh.isSome = hasPSISyntaxHeader t) : NP (parsePSISectionSyntaxData t sh e) :=
  NP_parsePSISectionSyntaxData t sh e h

example : ((parsePSISectionSyntaxData 0 none 10).run [1, 2, 3] 1).isPanic = true := by decide +kernel
-- a PAT section with a wrong CRC: an error, not a panic; a too short one likewise
example : (parsePSIData.val [0, 0, 0xb0, 0x0d, 0, 1, 0xc1, 0, 0, 0, 1, 0xf0, 0, 1, 2, 3, 4]).isOk = false := by
  decide +kernel
example : (parsePSIData.val [0, 0, 0xb0, 0x01, 0]).isPanic = false := by decide +kernel

/-! ### (6) `parseData`, `isPSIComplete`, `NextPacket`, `NextData` -/

/-- **`parseData` never panics**: any packets, any custom-parser kind, any program map -/
theorem parseData_never_panics (ps : List Packet) (prs : ParserKind) (pm : ProgramMap) :
    parseData ps prs pm ≠ .panic :=
  parseData_ne_panic ps prs pm

/-- the parser behind `isPSIComplete` never panics (so treating every failure as "incomplete" hides no panic) -/
theorem isPSIComplete_parser_never_panics (payload : Bytes) :
    (psiCompleteParser (payload.length + 1)).val payload ≠ .panic ∧
    isPSICompleteBytes payload = (match (psiCompleteParser (payload.length + 1)).val payload with
      | .ok b => b
      | _ => false) :=
  ⟨psiCompleteParser_ne_panic payload _, isPSICompleteBytes_eq payload⟩

/-- auto-detection never panics and only returns sizes ≥ 188 -/
theorem autoDetectPacketSize_never_panics (r : Reader) :
    (autoDetectPacketSize r).1 ≠ .panic ∧ ∀ s, (autoDetectPacketSize r).1 = .ok s → 188 ≤ s := by
  have := autoDetectPacketSize_spec r
  constructor
  · intro e; rw [e] at this; exact this
  · intro s e; rw [e] at this; exact this

/-- **`NextPacket` never panics**: any reader contents / kind / fault, any skipper and parser, any pool, in every
state whose packet sizes are supported (`Demux.SizeOK`: option 0 or ≥ 187, installed size ≥ 187); the state
afterwards is again such a state -/
theorem nextPacket_never_panics (d : Demux) (h : d.SizeOK) : d.nextPacket.1 ≠ .panic ∧ d.nextPacket.2.SizeOK :=
  nextPacket_spec d h

/-- **`NextData` never panics** (same hypotheses), and re-establishes the invariant -/
theorem nextData_never_panics (d : Demux) (h : d.SizeOK) : d.nextData.1 ≠ .panic ∧ d.nextData.2.SizeOK :=
  nextData_spec d h

/-- every initial state (`NewDemuxer`: no packet buffer yet) with packet size option 0 (auto-detect) or ≥ 187
satisfies the invariant … -/
theorem newDemux_sizeOK (d : Demux) (hp : d.packetSize = none) (ho : d.optPacketSize = 0 ∨ 187 ≤ d.optPacketSize) :
    d.SizeOK :=
  SizeOK_init d hp ho

/-- … hence **no sequence of `NextPacket` / `NextData` / `Rewind` calls from an initial state ever panics** -/
theorem demux_calls_never_panic (d : Demux) (hp : d.packetSize = none)
    (ho : d.optPacketSize = 0 ∨ 187 ≤ d.optPacketSize) (calls : List DemuxCall) : d.anyPanic calls = false :=
  anyPanic_false d (SizeOK_init d hp ho) calls

-- non-vacuity: the default demuxer over arbitrary bytes, auto-detection, explicit 188 and 192
example : ({ r := { data := [1, 2, 3] } } : Demux).SizeOK := SizeOK_init _ rfl (Or.inl rfl)
example : ({ r := { data := List.replicate 400 0x47, kind := .plain }, optPacketSize := 192,
             skipper := .script [true, false] , parser := .observer } : Demux).SizeOK :=
  SizeOK_init _ rfl (Or.inr (by decide))
example : (({ r := { data := 0x47 :: 0x40 :: 0 :: 0x10 :: List.replicate 184 0 }, optPacketSize := 188 } : Demux).anyPanic
    [.nextData, .nextData, .rewind, .nextPacket, .nextPacket]) = false :=
  demux_calls_never_panic _ rfl (Or.inr (by decide)) _
-- the excluded configuration does panic (FINDING): explicit packet size 100 on a sync-byte-led stream
example : (({ r := { data := 0x47 :: List.replicate 99 0 }, optPacketSize := 100 } : Demux).nextPacket.1).isPanic = true := by
  decide +kernel
example : (({ r := { data := 0x47 :: List.replicate 99 0 }, optPacketSize := 100 } : Demux).nextData.1).isPanic = true := by
  decide +kernel

/-- the guard is exact (FINDING): an explicit packet size `1 ≤ n ≤ 186` makes the first `NextPacket` panic on any
fault-free reader holding at least `n` bytes that start with the sync byte -/
theorem explicit_size_below_187_panics (d : Demux) (n : Nat) (tl : Bytes) (hps : d.packetSize = none)
    (ho : d.optPacketSize = n) (h0 : 0 < n) (hn : n < 187) (hf : d.r.faultAt = none) (hpos : d.r.pos = 0)
    (hdata : d.r.data = syncByte :: tl) (hlen : n ≤ tl.length + 1) : d.nextPacket.1 = .panic :=
  nextPacket_panics_below_187 d n tl hps ho h0 hn hf hpos hdata hlen

example : (({ r := { data := syncByte :: [1, 2, 3] }, optPacketSize := 2 } : Demux).nextPacket.1) = .panic :=
  explicit_size_below_187_panics _ 2 [1, 2, 3] rfl rfl (by decide) (by decide) rfl rfl rfl (by decide)

#print axioms explicit_size_below_187_panics
#print axioms iterator_panic_conditions
#print axioms iterator_offset_invariant
#print axioms parsePacket_never_panics
#print axioms parsePacket_never_panics_from
#print axioms parsePacket_panics_iff
#print axioms parsePESData_never_panics
#print axioms parseDescriptors_never_panics
#print axioms parsePSIData_never_panics
#print axioms parseData_never_panics
#print axioms isPSIComplete_parser_never_panics
#print axioms nextPacket_never_panics
#print axioms nextData_never_panics
#print axioms demux_calls_never_panic

/-! ## Termination: progress of `NextPacket`, bounded termination of repeated calls, fuel sufficiency

Helper lemmas: `Astits/Proofs/Termination.lean` (namespace `Astits.Term`).  Everything is stated for every state whose
packet sizes are supported (`Demux.SizeOK`: explicit size 0 = auto-detect or ≥ 187, installed size ≥ 187), every
reader kind, skipper and parser kind, and every reader whose injected fault, if any, fires at most once
(`Term.OneShot`: `faultAt = none ∨ faultOnce = true`); `Term.Good d` is the conjunction of the two.

FINDING (model level; `autoDetectPacketSize` in packet_buffer.go rewinds with `Seek(0, io.SeekStart)`): on a
*seekable* reader a successful packet-size auto-detection rewinds to absolute offset 0, not to where the detection
started.  When earlier `NextPacket` calls failed to detect the size (they consumed 193 bytes each and returned an
error), the first successful detection makes the demuxer re-read the whole input from offset 0: the position moves
*backwards*, and up to about `2 · len / 187` calls (not `len / 187`) are needed to reach ErrNoMorePackets.  Termination
still holds because the rewind can happen only once (the packet buffer exists afterwards). -/

section Termination
open Term

/-- **(Z1) progress of `NextPacket`, branch by branch**, on a fault-free reader: a call that does not return
ErrNoMorePackets leaves the stream as it is and advances the position
* by at least the packet size when the packet buffer exists or an explicit size is set (each skipped packet adds one
  more packet size);
* when auto-detection fails (the call returns an error and the packet buffer is still missing): by the 193 bytes
  examined, or up to the end of the data — for every reader kind (seekable and plain readers have read them, a
  bufio reader discards them; a plain reader that cannot be re-synchronised is left at the end);
* when auto-detection succeeds with size `s`: a bufio reader (peeked, nothing lost) by at least `s`; a plain reader
  by at least `3·s` (two packets are lost to the detection); a seekable reader is rewound to offset 0 and then
  advanced by at least `s` **from 0** (see the FINDING above). -/
theorem nextPacket_progress (d : Demux) (hok : d.SizeOK) (hf : d.r.faultAt = none)
    (hne : d.nextPacket.1 ≠ .err .eof) :
    d.nextPacket.2.r.data = d.r.data ∧ d.nextPacket.2.r.kind = d.r.kind ∧ d.nextPacket.2.r.faultAt = none ∧
    d.nextPacket.2.r.pos ≤ d.r.data.length ∧
    (∀ s, d.packetSize = some s → d.r.pos + s ≤ d.nextPacket.2.r.pos) ∧
    (d.packetSize = none → d.optPacketSize ≠ 0 → d.r.pos + d.optPacketSize ≤ d.nextPacket.2.r.pos) ∧
    (d.packetSize = none → d.optPacketSize = 0 →
      (d.nextPacket.2.packetSize = none →
        d.r.pos < d.nextPacket.2.r.pos ∧
          (d.r.pos + 193 ≤ d.nextPacket.2.r.pos ∨ d.nextPacket.2.r.pos = d.r.data.length)) ∧
      (∀ s, d.nextPacket.2.packetSize = some s → 188 ≤ s ∧ s ≤ 192 ∧
        (d.r.kind = .seek → s ≤ d.nextPacket.2.r.pos) ∧
        (d.r.kind = .bufio → d.r.pos + s ≤ d.nextPacket.2.r.pos) ∧
        (d.r.kind ≠ .seek → d.r.kind ≠ .bufio → d.r.pos + 3 * s ≤ d.nextPacket.2.r.pos))) := by
  have hsem := nextPacket_sem d hok (Or.inl hf)
  have hsame := hsem.same hok (Or.inl hf)
  exact ⟨hsame.data, hsame.kind, hsame.faultAt.trans hf, hsem.progress hok hf hne⟩

/-- **(Z1) the position never moves backwards** — whatever the call returns, with or without a one-shot fault —
in every configuration except auto-detection on a seekable reader -/
theorem nextPacket_never_backwards (d : Demux) (hok : d.SizeOK) (ho : OneShot d.r)
    (hc : d.r.kind ≠ .seek ∨ d.packetSize ≠ none ∨ d.optPacketSize ≠ 0) : d.r.pos ≤ d.nextPacket.2.r.pos :=
  (nextPacket_sem d hok ho).pos_mono hok ho hc

/-- (Z1) a call that finds fewer bytes than one packet returns ErrNoMorePackets (`truncated_tail_is_eof`), and
ErrNoMorePackets always leaves an exhausted reader behind: no byte left, no fault pending -/
theorem nextPacket_eof_exhausts (d : Demux) (hok : d.SizeOK) (ho : OneShot d.r) (he : d.nextPacket.1 = .err .eof) :
    d.nextPacket.2.r.data.length ≤ d.nextPacket.2.r.pos ∧ Exh d.nextPacket.2.r := by
  have hsem := nextPacket_sem d hok ho
  rw [he] at hsem
  exact ⟨(hsem.eof_exh hok ho).2.1, (hsem.eof_exh hok ho).2⟩

/-- the excluded configuration, evaluated (FINDING): 193 bytes that do not start with a sync byte, then a 188-byte
packet and the next sync byte, on a seekable reader with auto-detection.  Call 1 fails (position 193); call 2 detects
size 188, rewinds to 0 and reads the first 188 bytes as a packet: the position goes back from 193 to 188. -/
def rewindDemo (k : ReaderKind) : Demux :=
  { r := { data := List.replicate 193 0xff ++ (0x47 :: List.replicate 187 0) ++ [0x47], kind := k } }

example : (rewindDemo .seek).nextPacket.2.r.pos = 193 ∧ (rewindDemo .seek).nextPacket.2.nextPacket.2.r.pos = 188 ∧
    (rewindDemo .seek).nextPacket.2.nextPacket.2.packetSize = some 188 := by decide +kernel
-- the same bytes on a bufio reader: 193, then 381 (the packet at 193 is returned)
example : (rewindDemo .bufio).nextPacket.2.r.pos = 193 ∧ (rewindDemo .bufio).nextPacket.2.nextPacket.2.r.pos = 381 ∧
    (rewindDemo .bufio).nextPacket.2.nextPacket.1.isOk = true := by decide +kernel

/-- **(Z1, measure form; Z4)** every `NextPacket` call that does not return ErrNoMorePackets strictly decreases
`Term.pktMeasure` = (1 if a one-shot fault is pending) + (whole 187-byte blocks left when the packet size is known |
blocks left rounded up, plus — seekable reader only — the blocks of the whole data, before a successful detection) -/
theorem nextPacket_measure_decreases (d : Demux) (hok : d.SizeOK) (ho : OneShot d.r)
    (hne : d.nextPacket.1 ≠ .err .eof) : pktMeasure d.nextPacket.2 < pktMeasure d :=
  (nextPacket_sem d hok ho).measure_lt hok ho hne

/-- **(Z2, Z4) bounded termination of `NextPacket`**: for any bytes, reader kind, explicit size ≥ 187 or
auto-detection, skipper, and at most a one-shot fault: there is `n ≤ pktMeasure d` such that the first `n` calls do
not return ErrNoMorePackets and call `n + 1` and all later calls do -/
theorem nextPacket_terminates (d : Demux) (hok : d.SizeOK) (ho : OneShot d.r) :
    ∃ n, n ≤ pktMeasure d ∧ (∀ k, k < n → (afterPackets d k).nextPacket.1 ≠ .err .eof) ∧
      ∀ m, n ≤ m → (afterPackets d m).nextPacket.1 = .err .eof :=
  packets_terminate d ⟨hok, ho⟩

/-- (Z2) the measure in terms of the input length: `len/187` when the size is known and no fault is pending,
`len/187 + 1` with auto-detection on a reader that cannot seek, `2·(len/187) + 1` on a seekable one; one more with a
pending fault.  (So ErrNoMorePackets is returned by call number `pktMeasure d + 1` at the latest.) -/
theorem pktMeasure_bounds (d : Demux) :
    pktMeasure d ≤ 2 * (d.r.data.length / 187) + 2 ∧
    (d.r.kind ≠ .seek → pktMeasure d ≤ d.r.data.length / 187 + 2) ∧
    (d.r.faultAt = none →
      (d.packetSize ≠ none ∨ d.optPacketSize ≠ 0 → pktMeasure d = (d.r.data.length - d.r.pos) / 187) ∧
      (d.r.kind ≠ .seek → pktMeasure d ≤ d.r.data.length / 187 + 1) ∧
      pktMeasure d ≤ 2 * (d.r.data.length / 187) + 1) := by
  have hphi := phi_le d.r
  have h0 : d.r.faultAt = none → phi d.r = 0 := by
    intro hf; unfold phi; rw [fpos_of_none hf, if_neg (by omega)]
  unfold pktMeasure
  refine ⟨?_, fun hk => ?_, fun hf => ⟨fun hd => ?_, fun hk => ?_, ?_⟩⟩
  · split
    · omega
    · split <;> omega
  · rw [if_neg hk]; split <;> omega
  · rw [if_pos hd, h0 hf]; omega
  · rw [if_neg hk, h0 hf]; split <;> omega
  · rw [h0 hf]
    split
    · omega
    · split <;> omega

/-- the `2·(len/187)` of the seekable case is real (FINDING): 10 × 193 bytes of junk, then a detectable packet
(2119 bytes, `len/187 = 11`): the first 21 calls all return an error other than ErrNoMorePackets, call 22 returns it -/
def rewindDemoLong : Demux :=
  { r := { data := List.replicate 1930 0xff ++ (0x47 :: List.replicate 187 0) ++ [0x47], kind := .seek } }

example : ((List.range 21).all fun k => !(afterPackets rewindDemoLong k).nextPacket.1.isEOF) = true ∧
    (afterPackets rewindDemoLong 21).nextPacket.1.isEOF = true ∧ rewindDemoLong.r.data.length / 187 = 11 := by
  decide +kernel

/-- **(Z3) fuel sufficiency**: the three fuel-bounded loops of the model (`bufferNext`: skipped packets, `dataLoop`:
packets that complete no unit, `drain`: accumulators without data) never run out of fuel — `nextPacket` and
`nextData` compute the fuel-free big-step semantics `Term.NextPacketSem` / `Term.NextDataSem`, inductive relations
that have no fuel and hence no "fuel exhausted" outcome -/
theorem fuel_is_sufficient (d : Demux) (hok : d.SizeOK) (ho : OneShot d.r) :
    NextPacketSem d d.nextPacket.1 d.nextPacket.2 ∧ NextDataSem d d.nextData.1 d.nextData.2 :=
  ⟨nextPacket_sem d hok ho, nextData_sem d ⟨hok, ho⟩⟩

/-- (Z3) the fuel the model gives its loops, `data.length + 2`, exceeds the measure that bounds their iterations -/
theorem fuel_exceeds_measure (d : Demux) : pktMeasure d < d.r.data.length + 2 := by
  have := pktMeasure_le d; omega

/-- **(Z3) every `NextData` call makes progress**: a call served from the data buffer returns data and shortens the
buffer; a call that runs the packet loop either returns something else than ErrNoMorePackets and strictly decreases
`Term.dataMeasure` = `2 · pktMeasure + pool.length`, or returns ErrNoMorePackets and leaves nothing behind
(`Term.Done`: reader exhausted, pool empty, buffer empty).  The invariant is preserved. -/
theorem nextData_progress (d : Demux) (hok : d.SizeOK) (ho : OneShot d.r) :
    Good d.nextData.2 ∧
    (d.dataBuffer ≠ [] → d.nextData.1 ≠ .err .eof ∧ dataMeasure d.nextData.2 = dataMeasure d ∧
        d.nextData.2.dataBuffer.length + 1 = d.dataBuffer.length) ∧
    (d.dataBuffer = [] → (d.nextData.1 ≠ .err .eof → dataMeasure d.nextData.2 < dataMeasure d) ∧
        (d.nextData.1 = .err .eof → Done d.nextData.2)) :=
  (nextData_sem d ⟨hok, ho⟩).facts ⟨hok, ho⟩

/-- **(Z3) end of stream is sticky, in general**: when nothing is left, `NextData` returns ErrNoMorePackets and
nothing is left afterwards (generalises `eof_sticky`: any supported size state, exhausted reader) -/
theorem eof_sticky_general (d : Demux) (hok : d.SizeOK) (ho : OneShot d.r) (h : Done d) (n : Nat) :
    (afterData d n).nextData.1 = .err .eof :=
  afterData_done d ⟨hok, ho⟩ h n

/-- **(Z3, Z4) termination of `NextData`**: there is `n` such that the first `n` calls do not return
ErrNoMorePackets, call `n + 1` and all later calls do, and at most `dataMeasure d` of the first `n` calls ran the
packet loop; every other one of them returned one buffered data item (a unit that yields `k` items is handed out over
`k` calls) -/
theorem nextData_terminates (d : Demux) (hok : d.SizeOK) (ho : OneShot d.r) :
    ∃ n, (∀ k, k < n → (afterData d k).nextData.1 ≠ .err .eof) ∧
      (∀ m, n ≤ m → (afterData d m).nextData.1 = .err .eof) ∧
      loopCalls d n ≤ dataMeasure d :=
  data_terminate d ⟨hok, ho⟩

/-- (Z3) the bound in terms of the input: from a state with an empty pool, at most `4·(len/187) + 4` calls run the
packet loop before ErrNoMorePackets (`2·(len/187) + 4` when the reader cannot seek) -/
theorem dataMeasure_bounds (d : Demux) (hp : d.pool = []) :
    dataMeasure d ≤ 4 * (d.r.data.length / 187) + 4 ∧
    (d.r.kind ≠ .seek → dataMeasure d ≤ 2 * (d.r.data.length / 187) + 4) := by
  obtain ⟨h1, h2, _⟩ := pktMeasure_bounds d
  unfold dataMeasure
  rw [hp]
  refine ⟨by simp only [List.length_nil]; omega, fun hk => ?_⟩
  have := h2 hk
  simp only [List.length_nil]; omega

/-- (Z3) counting **all** calls needs more than `len/187 + #PIDs + c`: one 188-byte packet on PID 0 that carries
15 (empty, CRC-correct) PAT sections yields 15 data items, handed out by 15 `NextData` calls; call 16 is
ErrNoMorePackets.  Only the first of them runs the packet loop. -/
def manySectionsDemo : Demux :=
  { r := { data := [0x47, 0x40, 0x00, 0x10, 0] ++
      (List.replicate 15 [0, 176, 9, 0, 0, 193, 0, 0, 51, 79, 248, 160]).flatten ++ List.replicate 3 0xff },
    optPacketSize := 188 }

example : manySectionsDemo.r.data.length = 188 ∧
    ((List.range 15).all fun k => (afterData manySectionsDemo k).nextData.1.isOk) = true ∧
    (match (afterData manySectionsDemo 15).nextData.1 with
     | .err .eof => true
     | _ => false) = true ∧
    loopCalls manySectionsDemo 15 = 1 := by decide +kernel

/-- **(Z3, Z4) every `NextData` call that does not return ErrNoMorePackets lowers the total measure**
`Term.totalMeasure` = buffered items + cost of the packets in the pool (`2·payload + 3` each: a bound on the items
they can still yield) + `3`·unread bytes (+ 1 for a pending fault, + `3·len` before a successful auto-detection on a
seekable reader) -/
theorem nextData_total_progress (d : Demux) (hok : d.SizeOK) (ho : OneShot d.r) (hne : d.nextData.1 ≠ .err .eof) :
    totalMeasure d.nextData.2 < totalMeasure d := by
  have hc := (nextData_sem d ⟨hok, ho⟩).cost ⟨hok, ho⟩
  have h1 : dcost d.nextData.1 = 1 := by
    unfold dcost
    split
    · rename_i e heq
      rw [if_neg (by intro hc; apply hne; rw [heq, hc])]
    · rfl
  omega

/-- **(Z3, Z4) bounded termination of `NextData`, all calls counted**: there is `n ≤ totalMeasure d` such that the
first `n` calls do not return ErrNoMorePackets and call `n + 1` and every later call do -/
theorem nextData_terminates_bounded (d : Demux) (hok : d.SizeOK) (ho : OneShot d.r) :
    ∃ n, n ≤ totalMeasure d ∧ (∀ k, k < n → (afterData d k).nextData.1 ≠ .err .eof) ∧
      ∀ m, n ≤ m → (afterData d m).nextData.1 = .err .eof :=
  data_terminate_total d ⟨hok, ho⟩

/-- (Z3) from an initial state: ErrNoMorePackets after at most `3·len + 1` calls (`6·len + 1` with auto-detection on a
seekable reader) -/
theorem totalMeasure_bounds (d : Demux) (hp : d.pool = []) (hb : d.dataBuffer = []) :
    totalMeasure d ≤ 6 * d.r.data.length + 1 ∧
    (d.packetSize ≠ none ∨ d.optPacketSize ≠ 0 ∨ d.r.kind ≠ .seek → totalMeasure d ≤ 3 * d.r.data.length + 1) :=
  totalMeasure_init d hp hb

/-- **(Z4) a permanent fault** is different: a reader parked on a fault that fires on every `Read` makes every
`NextPacket` return the I/O error, unchanged state: ErrNoMorePackets is never reached (the calls still terminate) -/
theorem permanent_fault_repeats (d : Demux) (s f : Nat) (hs : d.packetSize = some s) (h0 : 0 < s)
    (hfa : d.r.faultAt = some f) (hfo : d.r.faultOnce = false) (hfd : d.r.faultDone = false) (hpos : d.r.pos = f)
    (hle : f ≤ d.r.data.length) (n : Nat) : (afterPackets d n).nextPacket = (.err .io, afterPackets d n) := by
  have key := nextPacket_permanent_fault d s f hs h0 hfa hfo hfd hpos hle
  have : ∀ n, afterPackets d n = d := by
    intro n
    induction n with
    | zero => rfl
    | succ n ih => rw [afterPackets_succ, ih, key]
  rw [this n]; exact key

-- non-vacuity of the hypotheses: arbitrary bytes with auto-detection; explicit size on a plain reader with a script
-- skipper; a one-shot fault in the middle of the data; a permanent fault
example : Good ({ r := { data := [1, 2, 3] } } : Demux) := ⟨SizeOK_init _ rfl (Or.inl rfl), Or.inl rfl⟩
def plainDemo : Demux :=
  { r := { data := List.replicate 400 0x47, kind := .plain }, optPacketSize := 192, skipper := .script [true, false] }
example : Good plainDemo := ⟨SizeOK_init _ rfl (Or.inr (by decide)), Or.inl rfl⟩
example : Good ({ r := { data := List.replicate 400 0x47, kind := .bufio, faultAt := some 200 } } : Demux) :=
  ⟨SizeOK_init _ rfl (Or.inl rfl), Or.inr rfl⟩
-- the one-shot fault in action: 400 sync bytes, explicit size 188, fault at 200: packet, I/O error (position 200),
-- packet, then ErrNoMorePackets for good
def faultDemo : Demux := { r := { data := List.replicate 400 0x47, faultAt := some 200 }, optPacketSize := 188 }
example : (afterPackets faultDemo 0).nextPacket.1.isOk = true ∧ (afterPackets faultDemo 2).r.pos = 200 ∧
    (afterPackets faultDemo 2).nextPacket.1.isOk = true ∧ (afterPackets faultDemo 3).nextPacket.1.isEOF = true ∧
    (afterPackets faultDemo 4).nextPacket.1.isEOF = true := by decide +kernel
def permFaultDemo : Demux :=
  { r := { data := List.replicate 400 0x47, faultAt := some 0, faultOnce := false }, packetSize := some 188 }
example : (afterPackets permFaultDemo 7).nextPacket = (.err .io, afterPackets permFaultDemo 7) :=
  permanent_fault_repeats _ 188 0 rfl (by decide) rfl rfl rfl rfl (Nat.zero_le _) 7

end Termination

#print axioms nextPacket_progress
#print axioms nextPacket_never_backwards
#print axioms nextPacket_eof_exhausts
#print axioms nextPacket_measure_decreases
#print axioms nextPacket_terminates
#print axioms pktMeasure_bounds
#print axioms fuel_is_sufficient
#print axioms nextData_progress
#print axioms eof_sticky_general
#print axioms nextData_terminates
#print axioms dataMeasure_bounds
#print axioms nextData_total_progress
#print axioms nextData_terminates_bounded
#print axioms totalMeasure_bounds
#print axioms permanent_fault_repeats

/-! ## Fuel of the PARSER loops is always sufficient (Astits/Proofs/ParserFuel*)

Every Go loop `for i.Offset() < end { … }` of the parsers (`loopUntil` for the PAT / PMT / SDT / EIT / NIT loops,
`parsePSISections`, `parseDescriptorsLoop`, the eight loops inside descriptor bodies, `psiCompleteLoop`) is a
fuel-recursive function in the model whose `0` branch (`P.fail`, resp. `pure false`) is an outcome the Go code does
not have.  The theorems below close that gap, for EVERY input (malformed input included) and EVERY iterator state:

* `ParserFuel.XRes` adds a fourth outcome `exhausted`; `ParserFuel.iterX` is the fuel-recursive loop that returns
  it in its `0` branch (and nowhere else); the `…X` functions are the model's parsers with every loop replaced by
  `iterX` (all other text unchanged, loop-free model parsers are used as they are).  `erase_…X` theorems: forgetting
  the fourth outcome (`exhausted ↦ P.fail`) gives back the model's parser, for every fuel.
* `parser_loops_never_exhausted`: with the caller's fuel `len + 1` (or any larger fuel) no loop is exhausted.
* `parser_loops_fuel_irrelevant`: above `rem i + 1` (remaining bytes + 1) the fuel does not change the result.
* `parser_fuel_is_sufficient`: the entry points `parseDescriptors`, `parsePSIData`, `parseData`, `isPSIComplete`
  never have the fuel-exhausted outcome, nested loops included; their exhaustion-reporting variants ARE the
  model's functions.
* the engine is one progress lemma per loop (`ParserFuel.Rd body 1` / `ParserFuel.ProgStep step`): an iteration
  after which the loop goes on started inside the slice (`0 ≤ off < len`), left the slice unchanged and the
  offset strictly larger — for `parseDescriptor` because of the final `Seek(off + 2 + length)` (wherever the body
  parser stopped), for `parsePSISection` because of the final `Seek(start + 3 + section_length)`.
No counterexample exists: no hypothesis on the input was needed anywhere. -/

section ParserFuel
open ParserFuel

/-- the progress lemmas (one per loop): a successful iteration that continues the loop began inside the slice and
moved the offset strictly forward, leaving the slice unchanged -/
theorem parser_loop_progress :
    (Rd patBody 1 ∧ Rd pmtBody 1 ∧ Rd sdtBody 1 ∧ Rd nitBody 1 ∧ Rd eitBody 1) ∧
    ProgStep sectionsStep ∧ Rd parseDescriptor 1 ∧
    (Rd contentBody 1 ∧ Rd newDescriptorExtendedEventItem 1 ∧ Rd localTimeOffsetBody 1 ∧ Rd parentalRatingBody 1 ∧
      Rd subtitlingBody 1 ∧ Rd teletextBody 1 ∧ Rd It.nextByte 1 ∧ Rd vbiDataBody 1) ∧
    ProgStep psiCompleteStep :=
  ⟨table_loop_bodies_progress, ProgStep_sectionsStep, Rd_parseDescriptor,
    ⟨Rd_contentBody, Rd_extendedEventItem, Rd_localTimeOffsetBody, Rd_parentalRatingBody, Rd_subtitlingBody,
      Rd_teletextBody, Rd.nextByte, Rd_vbiDataBody⟩, ProgStep_psiCompleteStep⟩

/-- what the progress lemma of the descriptor loop says in plain terms: a returned descriptor started at an offset
with two bytes left and the iterator stands at least two bytes further (after the `Seek`), possibly beyond the end -/
theorem parseDescriptor_progress (i i' : It) (d : Descriptor) (h : parseDescriptor i = .ok (d, i')) :
    i'.bs = i.bs ∧ i.off + 2 ≤ i'.off ∧ 0 ≤ i.off ∧ i.off + 2 ≤ i.bs.length :=
  parseDescriptor_ok h

/-- a returned section started inside the slice and the iterator stands strictly further -/
theorem parsePSISection_progress (i i' : It) (s : PSISection) (stop : Bool)
    (h : parsePSISection i = .ok ((s, stop), i')) :
    i'.bs = i.bs ∧ i.off < i'.off ∧ 0 ≤ i.off ∧ i.off < i.bs.length :=
  parsePSISection_ok h

/-- every loop of the model is the generic fuel-recursive loop, for EVERY fuel (also `0`) -/
theorem parser_loops_are_iter :
    (∀ α (n : Nat) (e : Int) (body : P α), loopUntil n e body = iter P.fail (forStep e body []) List.cons n) ∧
    (∀ n, parsePSISections n = iter P.fail sectionsStep List.cons n) ∧
    (∀ e n, parseDescriptorsLoop e n = iter P.fail (forStep e parseDescriptor []) List.cons n) ∧
    (∀ e n, newDescriptorContentLoop e n = iter P.fail (forStep e contentBody []) List.cons n) ∧
    (∀ e n, newDescriptorExtendedEventLoop e n = iter P.fail (forStep e newDescriptorExtendedEventItem []) List.cons n) ∧
    (∀ e n, newDescriptorLocalTimeOffsetLoop e n = iter P.fail (forStep e localTimeOffsetBody []) List.cons n) ∧
    (∀ e n, newDescriptorParentalRatingLoop e n = iter P.fail (forStep e parentalRatingBody []) List.cons n) ∧
    (∀ e n, newDescriptorSubtitlingLoop e n = iter P.fail (forStep e subtitlingBody []) List.cons n) ∧
    (∀ e n, newDescriptorTeletextLoop e n = iter P.fail (forStep e teletextBody []) List.cons n) ∧
    (∀ id e n, newDescriptorVBIDataDescLoop id e n = iter P.fail (forStep e It.nextByte []) (vbiDescFin id) n) ∧
    (∀ e n, newDescriptorVBIDataLoop e n = iter P.fail (forStep e vbiDataBody []) List.cons n) ∧
    (∀ n, psiCompleteLoop n = iter (pure false) psiCompleteStep (fun _ r => r) n) :=
  ⟨fun _ n e body => loopUntil_eq n e body, parsePSISections_eq, descriptorsLoop_eq, contentLoop_eq,
    extendedEventLoop_eq, localTimeOffsetLoop_eq, parentalRatingLoop_eq, subtitlingLoop_eq, teletextLoop_eq,
    vbiDataDescLoop_eq, vbiDataLoop_eq, psiCompleteLoop_eq⟩

/-- NEVER EXHAUSTED.  From any iterator state `i`, with the fuel the callers pass (`len + 1`) or more, none of the
twelve loops reaches its `0` branch: the exhaustion-reporting loop is not exhausted and is the model's loop.
(`loopUntil`: for every body that never reports exhaustion itself and has the progress property — the five bodies
of the table parsers do, see `parser_loop_progress` and `parser_fuel_is_sufficient`.) -/
theorem parser_loops_never_exhausted (i : It) (n : Nat) (hn : i.bs.length + 1 ≤ n) :
    (∀ α (e : Int) (body : PX α), NX body → Rd (erase body) 1 →
        loopUntilX n e body i = .ofRes (loopUntil n e (erase body) i)) ∧
    parsePSISectionsX n i = .ofRes (parsePSISections n i) ∧
    (∀ e, parseDescriptorsLoopX e n i = .ofRes (parseDescriptorsLoop e n i)) ∧
    (∀ e, newDescriptorContentLoopX e n i = .ofRes (newDescriptorContentLoop e n i)) ∧
    (∀ e, newDescriptorExtendedEventLoopX e n i = .ofRes (newDescriptorExtendedEventLoop e n i)) ∧
    (∀ e, newDescriptorLocalTimeOffsetLoopX e n i = .ofRes (newDescriptorLocalTimeOffsetLoop e n i)) ∧
    (∀ e, newDescriptorParentalRatingLoopX e n i = .ofRes (newDescriptorParentalRatingLoop e n i)) ∧
    (∀ e, newDescriptorSubtitlingLoopX e n i = .ofRes (newDescriptorSubtitlingLoop e n i)) ∧
    (∀ e, newDescriptorTeletextLoopX e n i = .ofRes (newDescriptorTeletextLoop e n i)) ∧
    (∀ id e, newDescriptorVBIDataDescLoopX id e n i = .ofRes (newDescriptorVBIDataDescLoop id e n i)) ∧
    (∀ e, newDescriptorVBIDataLoopX e n i = .ofRes (newDescriptorVBIDataLoop e n i)) ∧
    psiCompleteLoopX n i = .ofRes (psiCompleteLoop n i) := by
  have h : rem i < n := by have := rem_le i; omega
  exact ⟨fun _ e body hb hp => loopUntilX_eq e hb hp n i h, parsePSISectionsX_eq n i h,
    fun e => parseDescriptorsLoopX_eq e n i h, fun e => contentLoopX_eq e n i h,
    fun e => extendedEventLoopX_eq e n i h, fun e => localTimeOffsetLoopX_eq e n i h,
    fun e => parentalRatingLoopX_eq e n i h, fun e => subtitlingLoopX_eq e n i h, fun e => teletextLoopX_eq e n i h,
    fun id e => vbiDataDescLoopX_eq id e n i h, fun e => vbiDataLoopX_eq e n i h, psiCompleteLoopX_eq n i h⟩

/-- `.ofRes r` is never the fuel-exhausted outcome -/
theorem ofRes_not_exhausted {α} (r : Res α) : (XRes.ofRes r).isExhausted = false := by cases r <;> rfl

/-- FUEL IRRELEVANCE.  From any iterator state, every fuel above the remaining bytes (`rem i`: `len - off`, `0` for
a negative offset) gives the result of fuel `rem i + 1`; in particular the callers' `len + 1` does. -/
theorem parser_loops_fuel_irrelevant (i : It) (n : Nat) (hn : rem i + 1 ≤ n) :
    (∀ α (e : Int) (body : P α), Rd body 1 → loopUntil n e body i = loopUntil (rem i + 1) e body i) ∧
    parsePSISections n i = parsePSISections (rem i + 1) i ∧
    (∀ e, parseDescriptorsLoop e n i = parseDescriptorsLoop e (rem i + 1) i) ∧
    (∀ e, newDescriptorContentLoop e n i = newDescriptorContentLoop e (rem i + 1) i) ∧
    (∀ e, newDescriptorExtendedEventLoop e n i = newDescriptorExtendedEventLoop e (rem i + 1) i) ∧
    (∀ e, newDescriptorLocalTimeOffsetLoop e n i = newDescriptorLocalTimeOffsetLoop e (rem i + 1) i) ∧
    (∀ e, newDescriptorParentalRatingLoop e n i = newDescriptorParentalRatingLoop e (rem i + 1) i) ∧
    (∀ e, newDescriptorSubtitlingLoop e n i = newDescriptorSubtitlingLoop e (rem i + 1) i) ∧
    (∀ e, newDescriptorTeletextLoop e n i = newDescriptorTeletextLoop e (rem i + 1) i) ∧
    (∀ id e, newDescriptorVBIDataDescLoop id e n i = newDescriptorVBIDataDescLoop id e (rem i + 1) i) ∧
    (∀ e, newDescriptorVBIDataLoop e n i = newDescriptorVBIDataLoop e (rem i + 1) i) ∧
    psiCompleteLoop n i = psiCompleteLoop (rem i + 1) i := by
  have h : rem i < n := by omega
  exact ⟨fun _ e body hp => loopUntil_fuel_irrelevant e hp n i h, parsePSISections_fuel_irrelevant n i h,
    fun e => parseDescriptorsLoop_fuel_irrelevant e n i h, fun e => contentLoop_fuel_irrelevant e n i h,
    fun e => extendedEventLoop_fuel_irrelevant e n i h, fun e => localTimeOffsetLoop_fuel_irrelevant e n i h,
    fun e => parentalRatingLoop_fuel_irrelevant e n i h, fun e => subtitlingLoop_fuel_irrelevant e n i h,
    fun e => teletextLoop_fuel_irrelevant e n i h, fun id e => vbiDataDescLoop_fuel_irrelevant id e n i h,
    fun e => vbiDataLoop_fuel_irrelevant e n i h, psiCompleteLoop_fuel_irrelevant n i h⟩

/-- the remaining bytes never exceed the slice: the callers' fuel `len + 1` is above the bound -/
theorem rem_lt_caller_fuel (i : It) : rem i + 1 ≤ i.bs.length + 1 := by have := rem_le i; omega

/-- FUEL-FREE SEMANTICS.  With the callers' fuel (or more) each loop returns the result of the fuel-free big-step
relation `IterRuns` (which has no out-of-fuel rule and is deterministic, `IterRuns.det`) -/
theorem parser_loops_big_step (i : It) (n : Nat) (hn : i.bs.length + 1 ≤ n) :
    (∀ α (e : Int) (body : P α), Rd body 1 → IterRuns (forStep e body []) List.cons i (loopUntil n e body i)) ∧
    IterRuns sectionsStep List.cons i (parsePSISections n i) ∧
    (∀ e, IterRuns (forStep e parseDescriptor []) List.cons i (parseDescriptorsLoop e n i)) ∧
    (∀ e, IterRuns (forStep e vbiDataBody []) List.cons i (newDescriptorVBIDataLoop e n i)) ∧
    (∀ id e, IterRuns (forStep e It.nextByte []) (vbiDescFin id) i (newDescriptorVBIDataDescLoop id e n i)) ∧
    IterRuns psiCompleteStep (fun _ r => r) i (psiCompleteLoop n i) := by
  have h : rem i < n := by have := rem_le i; omega
  exact ⟨fun _ e body hp => loopUntil_runs e hp n i h, parsePSISections_runs n i h,
    fun e => parseDescriptorsLoop_runs e n i h, fun e => vbiDataLoop_runs e n i h,
    fun id e => vbiDataDescLoop_runs id e n i h, psiCompleteLoop_runs n i h⟩

/-- ENTRY POINTS.  `parseDescriptors`, `parsePSIData` (from any iterator state), `parseData` and `isPSIComplete`
(for every packet group) never have the fuel-exhausted outcome: their exhaustion-reporting variants — the model's
text with every loop, nested ones included, replaced by the loop that reports exhaustion — are the model's
functions -/
theorem parser_fuel_is_sufficient :
    (∀ i : It, parseDescriptorsX i = .ofRes (parseDescriptors i)) ∧
    (∀ i : It, parsePSIDataX i = .ofRes (parsePSIData i)) ∧
    (∀ (ps : List Packet) (prs : ParserKind) (pm : ProgramMap), parseDataX ps prs pm = .ofRes (parseData ps prs pm)) ∧
    (∀ ps : List Packet, isPSICompleteX ps = some (isPSIComplete ps)) :=
  ⟨parseDescriptorsX_eq, parsePSIDataX_eq, parseDataX_eq, isPSICompleteX_eq⟩

/-- the six table parsers (callers of `loopUntil`) and the section parser, from any iterator state -/
theorem table_parsers_fuel_is_sufficient (i : It) (e : Int) (x : Nat) :
    parsePATSectionX e x i = .ofRes (parsePATSection e x i) ∧
    parsePMTSectionX e x i = .ofRes (parsePMTSection e x i) ∧
    parseSDTSectionX e x i = .ofRes (parseSDTSection e x i) ∧
    parseNITSectionX x i = .ofRes (parseNITSection x i) ∧
    parseEITSectionX e x i = .ofRes (parseEITSection e x i) ∧
    parseTOTSectionX i = .ofRes (parseTOTSection i) ∧
    parsePSISectionX i = .ofRes (parsePSISection i) :=
  ⟨eq_ofRes_of_NX (NX_parsePATSectionX e x) (erase_parsePATSectionX e x) i,
   eq_ofRes_of_NX (NX_parsePMTSectionX e x) (erase_parsePMTSectionX e x) i,
   eq_ofRes_of_NX (NX_parseSDTSectionX e x) (erase_parseSDTSectionX e x) i,
   eq_ofRes_of_NX (NX_parseNITSectionX x) (erase_parseNITSectionX x) i,
   eq_ofRes_of_NX (NX_parseEITSectionX e x) (erase_parseEITSectionX e x) i,
   eq_ofRes_of_NX NX_parseTOTSectionX erase_parseTOTSectionX i,
   eq_ofRes_of_NX NX_parsePSISectionX erase_parsePSISectionX i⟩

/-- the same, as "the fourth outcome does not occur" -/
theorem parser_entry_points_never_exhausted :
    (∀ i : It, (parseDescriptorsX i).isExhausted = false) ∧
    (∀ i : It, (parsePSIDataX i).isExhausted = false) ∧
    (∀ (ps : List Packet) (prs : ParserKind) (pm : ProgramMap), (parseDataX ps prs pm).isExhausted = false) ∧
    (∀ ps : List Packet, isPSICompleteX ps ≠ none) := by
  refine ⟨fun i => ?_, fun i => ?_, fun ps prs pm => ?_, fun ps => ?_⟩
  · rw [parseDescriptorsX_eq]; exact ofRes_not_exhausted _
  · rw [parsePSIDataX_eq]; exact ofRes_not_exhausted _
  · rw [parseDataX_eq]; exact ofRes_not_exhausted _
  · rw [isPSICompleteX_eq]; exact fun h => by cases h

/-- the exhaustion-reporting variants are faithful: forgetting the fourth outcome the way the model does
(`exhausted ↦ P.fail`) gives the model's parser, for every fuel of the loops (also insufficient ones) -/
theorem exhaustion_variants_are_the_model :
    erase parseDescriptorsX = parseDescriptors ∧ erase parsePSIDataX = parsePSIData ∧
    (∀ n, erase (parsePSISectionsX n) = parsePSISections n) ∧
    (∀ e n, erase (parseDescriptorsLoopX e n) = parseDescriptorsLoop e n) ∧
    (∀ α n e (body : PX α), erase (loopUntilX n e body) = loopUntil n e (erase body)) :=
  ⟨erase_parseDescriptorsX, erase_parsePSIDataX, erase_parsePSISectionsX, erase_parseDescriptorsLoopX,
    fun _ n e body => erase_loopUntilX n e body⟩

/-! ### non-vacuity: inputs that make the loops run several iterations, evaluated -/

/-- pointer field 0; a PAT with three programmes; a PMT with a programme-level VBI data descriptor (two services of
two lines each) and two elementary streams carrying a teletext descriptor (two items) and a VBI data descriptor;
both CRCs correct; two stuffing bytes -/
def fuelDemoUnit : Bytes :=
  [0, 0, 176, 21, 0, 7, 199, 0, 0, 0, 1, 240, 0, 0, 2, 240, 1, 0, 3, 240, 2, 137, 150, 253, 157, 2, 176, 67, 0, 1, 199,
   0, 0, 225, 0, 240, 10, 69, 8, 1, 2, 231, 201, 4, 2, 225, 194, 6, 225, 0, 240, 22, 86, 10, 1, 2, 3, 17, 18, 4, 5, 6,
   10, 52, 69, 8, 1, 2, 231, 201, 4, 2, 225, 194, 6, 225, 1, 240, 12, 86, 10, 1, 2, 3, 17, 18, 4, 5, 6, 10, 52, 71, 117,
   165, 145, 0xff, 0xff]

/-- the loop counts of the unit: sections, PAT programmes, PMT streams, descriptors of the first stream, teletext
items, VBI services, lines of the first VBI service -/
def demoShape (d : PSIData) : List Nat :=
  let pat := d.sections.filterMap fun s => s.syn.bind (·.data) |>.bind (·.pat)
  let pmt := d.sections.filterMap fun s => s.syn.bind (·.data) |>.bind (·.pmt)
  let es := (pmt.map (·.elementaryStreams)).flatten
  let ds := ((es.take 1).map (·.elementaryStreamDescriptors)).flatten
  let tt := (ds.filterMap (·.teletext)).map (·.items.length)
  let vb := ds.filterMap (·.vbiData)
  [d.sections.length, (pat.map (·.programs.length)).sum, es.length, ds.length, tt.sum,
   (vb.map (·.services.length)).sum, ((vb.map (·.services)).flatten.take 1 |>.map (·.descriptors.length)).sum]

/-- section loop 3 iterations (PAT, PMT, stop), programme loop 3, stream loop 2, descriptor loop 2, teletext loop 2,
VBI service loop 2, VBI line loop 2 — and no exhaustion -/
example : (match parsePSIDataX ⟨fuelDemoUnit, 0⟩ with
    | .ok (d, _) => decide (demoShape d = [3, 3, 2, 2, 2, 2, 2])
    | _ => false) = true := by decide +kernel
example : (match parsePSIData.val fuelDemoUnit with
    | .ok d => decide (demoShape d = [3, 3, 2, 2, 2, 2, 2])
    | _ => false) = true := by decide +kernel

def fuelDemoPacket : Packet :=
  { header := ⟨0, false, true, true, 0, false, false, 0⟩, payload := fuelDemoUnit }

example : (parseDataX [fuelDemoPacket] .none []).isOk = true ∧ (parseData [fuelDemoPacket] .none []).isOk = true := by
  decide +kernel
example : isPSICompleteX [fuelDemoPacket] = some true ∧ isPSIComplete [fuelDemoPacket] = true := by decide +kernel

/-- with less fuel than iterations the variant DOES report exhaustion (three sections need three units; the model
then returns its `0` branch, an error) — the fourth outcome is not vacuous -/
example : (parsePSISectionsX 2 ⟨fuelDemoUnit, 1⟩).isExhausted = true ∧ (parsePSISections 2 ⟨fuelDemoUnit, 1⟩).isOk = false ∧
    (parsePSISectionsX 3 ⟨fuelDemoUnit, 1⟩).isOk = true ∧ (parsePSISections 3 ⟨fuelDemoUnit, 1⟩).isOk = true := by
  decide +kernel

/-- the bound `rem i + 1` is tight: the inner VBI loop consumes one byte per iteration, so three remaining bytes
need three iterations and the final test -/
example : rem ⟨[1, 2, 3], 0⟩ = 3 ∧ (newDescriptorVBIDataDescLoopX 1 3 3 ⟨[1, 2, 3], 0⟩).isExhausted = true ∧
    (newDescriptorVBIDataDescLoopX 1 3 4 ⟨[1, 2, 3], 0⟩).isOk = true := by decide +kernel

/-- MALFORMED input 1: a body parser that reads beyond the declared end of its descriptor.  Two extended-event
descriptors (tag 0x4e) declare one byte but their parser reads eight; `Seek` moves the iterator BACK to the declared
end each time, still two bytes beyond the start of the iteration: five iterations, result ok. -/
def overreadDescriptors : Bytes := [0xf0, 0x0c, 0x4e, 0x01, 0x00, 0x4e, 0x01, 0x00, 0x00, 0x00, 0x00, 0x00, 0x00, 0x00]

example : (match newDescriptorExtendedEvent ⟨overreadDescriptors, 4⟩ with | .ok (_, i) => decide (i.off = 10) | _ => false) = true ∧
    (match parseDescriptor ⟨overreadDescriptors, 2⟩ with | .ok (_, i) => decide (i.off = 5) | _ => false) = true ∧
    (match parseDescriptorsX ⟨overreadDescriptors, 0⟩ with
      | .ok (ds, i) => decide (ds.map (·.tag) = [0x4e, 0x4e, 0, 0, 0] ∧ i.off = 14) | _ => false) = true := by
  decide +kernel

/-- MALFORMED input 2: a descriptor that declares 200 bytes in a 5-byte slice and whose parser (stream identifier)
reads one byte: `Seek` puts the offset at 204, beyond the end; the next iteration fails on its first read — an
error, not exhaustion, and not an endless loop -/
example : (match parseDescriptor ⟨[0xf0, 0xff, 0x52, 200, 7], 2⟩ with | .ok (_, i) => decide (i.off = 204) | _ => false) = true ∧
    (match parseDescriptorsX ⟨[0xf0, 0xff, 0x52, 200, 7], 0⟩ with | .err _ => true | _ => false) = true := by
  decide +kernel

/-- MALFORMED input 3: a negative offset: the first read panics (Go: index out of range), no loop iteration -/
example : (match parsePSISectionsX 1 ⟨[1, 2, 3], -2⟩ with | .panic => true | _ => false) = true := by decide +kernel

end ParserFuel

#print axioms parser_loop_progress
#print axioms parser_loops_are_iter
#print axioms parser_loops_never_exhausted
#print axioms parser_loops_fuel_irrelevant
#print axioms parser_loops_big_step
#print axioms parser_fuel_is_sufficient
#print axioms table_parsers_fuel_is_sufficient
#print axioms parser_entry_points_never_exhausted
#print axioms exhaustion_variants_are_the_model

end Astits.C03
