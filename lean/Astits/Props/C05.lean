/-
C05 — muxed continuity counters advance by one per payload packet on every PID.
-/
import Astits.Model.Mux
import Astits.Spec.Mux
namespace Astits.C05

/-- the 4-bit wrapping counter of the code: after `inc`, the value is the successor modulo 16
(a fresh counter holds 16, so that the first packet carries 0) -/
theorem inc_value (c : WrappingCounter) (hw : c.wrapAt = 15) (hv : c.value ≤ 15) :
    c.inc.value = (c.value + 1) % 16 ∧ c.inc.wrapAt = 15 ∧ c.inc.value ≤ 15 := by
  unfold WrappingCounter.inc
  rw [hw]
  by_cases h : c.value + 1 > 15
  · simp [h, hw]; omega
  · simp [h, hw]; omega

/-- a fresh counter (value 16) yields 0 first -/
theorem inc_fresh (c : WrappingCounter) (hw : c.wrapAt = 15) (hv : c.value = 16) :
    c.inc.value = 0 ∧ c.inc.wrapAt = 15 := by
  unfold WrappingCounter.inc
  rw [hw, hv]; simp [hw]

theorem fresh_counter_first_is_zero : (newWrappingCounter 15).inc.value = 0 := by decide

theorem fresh_counter_get_masked : (newWrappingCounter 15).get % 16 = 0 := by decide

/-- 5-bit version counters: successor modulo 32, the first emitted version is 0 -/
theorem inc_version (c : WrappingCounter) (hw : c.wrapAt = 31) (hv : c.value ≤ 31) :
    c.inc.value = (c.value + 1) % 32 ∧ c.inc.wrapAt = 31 ∧ c.inc.value ≤ 31 := by
  unfold WrappingCounter.inc
  rw [hw]
  by_cases h : c.value + 1 > 31
  · simp [h, hw]; omega
  · simp [h, hw]; omega

/-- invariant of every counter the muxer holds -/
def CounterInv (c : WrappingCounter) : Prop := c.wrapAt = 15 ∧ c.value ≤ 16

theorem counterInv_fresh : CounterInv (newWrappingCounter 15) := ⟨rfl, by decide⟩
theorem counterInv_inc (c : WrappingCounter) (h : CounterInv c) : CounterInv c.inc := by
  obtain ⟨hw, hv⟩ := h
  by_cases h16 : c.value = 16
  · have := inc_fresh c hw h16
    exact ⟨this.2, by omega⟩
  · have := inc_value c hw (by omega)
    exact ⟨this.2.1, by omega⟩

/-- in the abstract specification the continuity counter a PID will use next is the successor of the
last one it sent: a call that appends nothing leaves it unchanged (no counter value is burnt) -/
theorem spec_next_is_successor (s : Spec.MuxSpec) (pid c : Nat) (h : Spec.lastOf s pid = some c) :
    Spec.ccOf s pid = (c + 1) % 16 := by
  unfold Spec.ccOf; rw [h]

theorem spec_first_is_zero (s : Spec.MuxSpec) (pid : Nat) (h : Spec.lastOf s pid = none) :
    Spec.ccOf s pid = 0 := by
  unfold Spec.ccOf; rw [h]

/-- a rejected WriteTables leaves the abstract state untouched -/
theorem spec_rejected_tables_keep_state (s : Spec.MuxSpec) (e : Err) (h : Spec.emitTables s = .error e) :
    (Spec.step s .tables).2 = s ∧ (Spec.step s .tables).1.packets = [] := by
  simp [Spec.step, h]

/-- the model rolls its counters back when a table cannot be generated -/
theorem model_rejected_tables_keep_state (m : Mux) (e : Err) (h : m.writeTables.1 = .err e) :
    m.writeTables.2 = m := by
  unfold Mux.writeTables at *
  split at h
  · split at h <;> simp_all
  · rfl
  · rfl

example : CounterInv (newWrappingCounter 15).inc.inc := counterInv_inc _ (counterInv_inc _ counterInv_fresh)

end Astits.C05
