/-
C05 — muxed continuity counters advance by one per payload packet on every PID.
-/
import Astits.Model.Mux
import Astits.Spec.Mux
import Astits.Proofs.MuxCounters
import Astits.Proofs.MuxAuto
namespace Astits.C05

/-- the 4-bit wrapping counter of the code: after `inc`, the value is the successor modulo 16
(a fresh counter holds 16, so that the first packet carries 0) -/
theorem inc_value (c : WrappingCounter) (hw : c.wrapAt = 15) (hv : c.value ≤ 15) :
    c.inc.value = (c.value + 1) % 16 ∧ c.inc.wrapAt = 15 ∧ c.inc.value ≤ 15 := by
  unfold WrappingCounter.inc
  rw [hw]
  by_cases h : c.value + 1 > 15
  · simp [h, hw]; omega
  · simp [h, hw]; omega

/-- a fresh counter (value 16) yields 0 first -/
theorem inc_fresh (c : WrappingCounter) (hw : c.wrapAt = 15) (hv : c.value = 16) :
    c.inc.value = 0 ∧ c.inc.wrapAt = 15 := by
  unfold WrappingCounter.inc
  rw [hw, hv]; simp [hw]

theorem fresh_counter_first_is_zero : (newWrappingCounter 15).inc.value = 0 := by decide

theorem fresh_counter_get_masked : (newWrappingCounter 15).get % 16 = 0 := by decide

/-- 5-bit version counters: successor modulo 32, the first emitted version is 0 -/
theorem inc_version (c : WrappingCounter) (hw : c.wrapAt = 31) (hv : c.value ≤ 31) :
    c.inc.value = (c.value + 1) % 32 ∧ c.inc.wrapAt = 31 ∧ c.inc.value ≤ 31 := by
  unfold WrappingCounter.inc
  rw [hw]
  by_cases h : c.value + 1 > 31
  · simp [h, hw]; omega
  · simp [h, hw]; omega

/-- invariant of every counter the muxer holds -/
def CounterInv (c : WrappingCounter) : Prop := c.wrapAt = 15 ∧ c.value ≤ 16

theorem counterInv_fresh : CounterInv (newWrappingCounter 15) := ⟨rfl, by decide⟩
theorem counterInv_inc (c : WrappingCounter) (h : CounterInv c) : CounterInv c.inc := by
  obtain ⟨hw, hv⟩ := h
  by_cases h16 : c.value = 16
  · have := inc_fresh c hw h16
    exact ⟨this.2, by omega⟩
  · have := inc_value c hw (by omega)
    exact ⟨this.2.1, by omega⟩

/-- in the abstract specification the continuity counter a PID will use next is the successor of the
last one it sent: a call that appends nothing leaves it unchanged (no counter value is burnt) -/
theorem spec_next_is_successor (s : Spec.MuxSpec) (pid c : Nat) (h : Spec.lastOf s pid = some c) :
    Spec.ccOf s pid = (c + 1) % 16 := by
  unfold Spec.ccOf; rw [h]

theorem spec_first_is_zero (s : Spec.MuxSpec) (pid : Nat) (h : Spec.lastOf s pid = none) :
    Spec.ccOf s pid = 0 := by
  unfold Spec.ccOf; rw [h]

/-- a rejected WriteTables leaves the abstract state untouched -/
theorem spec_rejected_tables_keep_state (s : Spec.MuxSpec) (e : Err) (h : Spec.emitTables s = .error e) :
    (Spec.step s .tables).2 = s ∧ (Spec.step s .tables).1.packets = [] := by
  simp [Spec.step, h]

/-- the model rolls its counters back when a table cannot be generated -/
theorem model_rejected_tables_keep_state (m : Mux) (e : Err) (h : m.writeTables.1 = .err e) :
    m.writeTables.2 = m := by
  unfold Mux.writeTables at *
  split at h
  · split at h <;> simp_all
  · rfl
  · rfl

example : CounterInv (newWrappingCounter 15).inc.inc := counterInv_inc _ (counterInv_inc _ counterInv_fresh)

/-! ## C05 on the muxer MODEL, at three levels (proofs: `Astits/Proofs/MuxCounters.lean`)

Observers on the 188-byte chunks handed to the writer: `pktPID`, `pktHasPayload`, `pktCC` (bytes 1..3).
`next v` = successor of a stored counter value (`next 16 = 0`: a fresh counter yields 0 first),
`succs v n` = the `n` values handed out after `v`, `adv v n` = the stored value after `n` increments,
`payloadCCs cs` = counters of the payload-carrying chunks of `cs`, `ccsOn p cs` = the same restricted to PID `p`,
`stored m p` = the counter value the muxer holds for PID `p` (patCC / pmtCC / esCC entry / removedCC entry / 16). -/

open MuxCounters (pktPID pktHasPayload pktCC next adv succs payloadCCs ccsOn stored CCInv LoopWF DataWF DataOK NoBurn
  MuxInv StepAdv Adv Op step run RunAll StepOK StepNoPanic OpOK TablesEmitted dataForce dataHdr)

theorem counterInv_iff (c : WrappingCounter) : CounterInv c ↔ CCInv c := Iff.rfl

/-- **Level 1.** Bytes 1..3 of a chunk produced by `writePacket` carry the header's PID, payload flag and
continuity counter. -/
theorem chunk_header_observed (p : Packet) (bs : Bytes) (h : writePacket p 188 = .ok bs)
    (hpid : p.header.pid < 8192) (htsc : p.header.transportScramblingControl < 4)
    (hcc : p.header.continuityCounter < 16) :
    pktPID bs = p.header.pid ∧ pktHasPayload bs = p.header.hasPayload ∧ pktCC bs = p.header.continuityCounter :=
  MuxCounters.writePacket_observe p 188 bs h hpid htsc hcc

def exPkt : Packet :=
  { header := { continuityCounter := 5, hasAdaptationField := false, hasPayload := true, payloadUnitStartIndicator := true,
                pid := 0x100, transportErrorIndicator := false, transportPriority := false, transportScramblingControl := 0 },
    payload := [1, 2, 3] }

example : ∃ bs, writePacket exPkt 188 = .ok bs ∧ exPkt.header.pid < 8192 ∧ exPkt.header.transportScramblingControl < 4 ∧
    exPkt.header.continuityCounter < 16 ∧ pktPID bs = 0x100 ∧ pktHasPayload bs = true ∧ pktCC bs = 5 :=
  ⟨_, rfl, by decide +kernel⟩

/-- **Level 2 (packetisation loop).** With the counter invariant and a 13-bit PID, the chunks `new` a run of
`writeDataLoop` appends to its accumulator are all on `pid`; the payload-carrying ones carry, in order, the
successive counter values after `cc` (adaptation-field-only chunks are skipped by `payloadCCs`: they do not
advance the counter); the returned counter is `cc` advanced exactly once per payload-carrying chunk — or exactly
once more ("burnt" value), which is only possible when the result is `.panic` (never `.ok`, never `.err`) and the
inputs are not `LoopWF`; an `.ok` result returns exactly `acc ++ new`. -/
theorem loop_counters (pid : Nat) (hdr : PESHeader) (hpid : pid < 8192) (fuel : Nat) (data : Bytes)
    (ps waf : Bool) (af : Option PacketAdaptationField) (cc : WrappingCounter) (acc : List Bytes) (hcc : CCInv cc) :
    ∃ new : List Bytes,
      (writeDataLoop pid hdr fuel data ps waf af cc acc).2.2.2 = acc ++ new ∧
      (∀ c ∈ new, pktPID c = pid) ∧
      payloadCCs new = succs cc.value (payloadCCs new).length ∧
      CCInv (writeDataLoop pid hdr fuel data ps waf af cc acc).2.1 ∧
      ((writeDataLoop pid hdr fuel data ps waf af cc acc).2.1.value = adv cc.value (payloadCCs new).length ∨
        (¬ LoopWF hdr ps waf af ∧ (writeDataLoop pid hdr fuel data ps waf af cc acc).1 = .panic ∧
          (writeDataLoop pid hdr fuel data ps waf af cc acc).2.1.value = adv cc.value ((payloadCCs new).length + 1))) ∧
      (∀ l, (writeDataLoop pid hdr fuel data ps waf af cc acc).1 = .ok l → l = acc ++ new) :=
  MuxCounters.writeDataLoop_counters pid hdr hpid fuel data ps waf af cc acc hcc

/-- on well-formed inputs (`LoopWF`: no nil pointer behind a set flag, PES header as long as announced, adaptation
field only in the first packets) nothing is burnt -/
theorem loop_counters_wf (pid : Nat) (hdr : PESHeader) (hpid : pid < 8192) (fuel : Nat) (data : Bytes)
    (ps waf : Bool) (af : Option PacketAdaptationField) (cc : WrappingCounter) (acc : List Bytes) (hcc : CCInv cc)
    (hwf : LoopWF hdr ps waf af) :
    ∃ new : List Bytes,
      (writeDataLoop pid hdr fuel data ps waf af cc acc).2.2.2 = acc ++ new ∧
      (∀ c ∈ new, pktPID c = pid) ∧
      payloadCCs new = succs cc.value (payloadCCs new).length ∧
      (writeDataLoop pid hdr fuel data ps waf af cc acc).2.1.value = adv cc.value (payloadCCs new).length :=
  MuxCounters.writeDataLoop_wf_exact pid hdr hpid fuel data ps waf af cc acc hcc hwf

/-- the burnt case is real: an optional PES header flagged with a PTS it does not hold makes `writePESData` panic
after `cc.inc` -/
def burntHdr : PESHeader := { streamID := 0xe0, optionalHeader := some { ptsDTSIndicator := 2 } }
example : (writeDataLoop 0x100 burntHdr 3 [1] true false none (newWrappingCounter 15) []).1.isPanic = true ∧
    (writeDataLoop 0x100 burntHdr 3 [1] true false none (newWrappingCounter 15) []).2.1.value = 0 ∧
    (writeDataLoop 0x100 burntHdr 3 [1] true false none (newWrappingCounter 15) []).2.2.2 = [] := by decide +kernel

/-- non-vacuity of `loop_counters` / `loop_counters_wf`: a fresh counter, 300 bytes → two payload chunks 0, 1 -/
example : CCInv (newWrappingCounter 15) ∧ (0x100 : Nat) < 8192 ∧
    payloadCCs (writeDataLoop 0x100 { streamID := 0xe0 } 302 (List.replicate 300 7) true false none
      (newWrappingCounter 15) []).2.2.2 = [0, 1] :=
  ⟨MuxCounters.ccInv_fresh, by decide, by decide +kernel⟩

/-- **Level 2 (`WriteData`).** When the tables step of the call succeeded with chunks `tcs` and state `m1`:
chunks = table chunks ++ loop chunks; the new state is `m1` with only the counter of `d.pid` replaced (`setCC`);
the loop chunks / new counter relate to the old counter `cc` of `d.pid` as in `loop_counters`. -/
theorem writeData_counters (m : Mux) (d : MuxerData) (cc : WrappingCounter) (hcc : m.ccOf d.pid = some cc)
    (hfit : ¬ 6 + calcPESOptionalHeaderLength d.pes.header.optionalHeader > 184)
    (hinv : CCInv cc) (hpid : d.pid < 8192)
    (tcs : List Bytes) (m1 : Mux) (hr : m.retransmitTables (dataForce m d) = (.ok tcs, m1)) :
    ∃ (new : List Bytes) (cc' : WrappingCounter),
      (m.writeData d).1.chunks = tcs ++ new ∧
      (m.writeData d).2.1 = m1.setCC d.pid cc' ∧
      (∀ c ∈ new, pktPID c = d.pid) ∧
      payloadCCs new = succs cc.value (payloadCCs new).length ∧
      CCInv cc' ∧
      (cc'.value = adv cc.value (payloadCCs new).length ∨
        (¬ LoopWF (dataHdr m1 d) true d.adaptationField.isSome d.adaptationField ∧ (m.writeData d).1.panic = true ∧
          cc'.value = adv cc.value ((payloadCCs new).length + 1))) :=
  MuxCounters.writeData_counters m d cc hcc hfit hinv hpid tcs m1 hr

/-- `setCC` changes the counter of `pid` only: patCC / pmtCC / removedCC / streams are untouched and every other
PID's entry of `esCC` is kept -/
theorem setCC_only_pid (m : Mux) (pid : Nat) (c : WrappingCounter) :
    (m.setCC pid c).patCC = m.patCC ∧ (m.setCC pid c).pmtCC = m.pmtCC ∧ (m.setCC pid c).removedCC = m.removedCC ∧
    (∀ p, p ≠ pid → (m.setCC pid c).ccOf p = m.ccOf p) := by
  refine ⟨rfl, rfl, rfl, fun p hp => ?_⟩
  rw [MuxCounters.ccOf_eq, MuxCounters.ccOf_eq, MuxCounters.setCC_esCC, MuxCounters.lookup_setCC, if_neg hp]

/-- a rejected `WriteData` (unknown PID, PES header that can never fit) emits nothing and changes nothing; when the
tables step fails nothing is emitted either -/
theorem writeData_rejected (m : Mux) (d : MuxerData)
    (h : m.ccOf d.pid = none ∨ 6 + calcPESOptionalHeaderLength d.pes.header.optionalHeader > 184) :
    (m.writeData d).1.chunks = [] ∧ (m.writeData d).2.1 = m :=
  MuxCounters.writeData_rejected m d h

/-- **Level 3 (tables).** `WriteTables` either succeeds, emitting exactly one packet on PID 0 and one on PID 0x1000,
payload-carrying, with the successors of `patCC` / `pmtCC`, which become the stored counters (stream counters
untouched); or it fails (error / panic) and returns the state it was called with, nothing being emitted. -/
theorem tables_counters (m : Mux) (hp : CCInv m.patCC) (hq : CCInv m.pmtCC) :
    (∃ pat pmt, m.writeTables.1 = .ok [pat, pmt] ∧
        pktPID pat = 0 ∧ pktHasPayload pat = true ∧ pktCC pat = next m.patCC.value ∧
        pktPID pmt = 4096 ∧ pktHasPayload pmt = true ∧ pktCC pmt = next m.pmtCC.value ∧
        m.writeTables.2.patCC = m.patCC.inc ∧ m.writeTables.2.pmtCC = m.pmtCC.inc ∧
        m.writeTables.2.esCC = m.esCC ∧ m.writeTables.2.removedCC = m.removedCC) ∨
    (m.writeTables.1.isOk = false ∧ m.writeTables.2 = m) := by
  rcases MuxCounters.writeTables_spec m hp hq with ⟨cs, h1, pat, pmt, rfl, a1, a2, a3, b1, b2, b3, c1, c2, c3⟩ | h
  · exact Or.inl ⟨pat, pmt, h1, a1, a2, a3, b1, b2, b3, c1, c2, c3.esCC, c3.removedCC⟩
  · exact Or.inr h

/-- **Level 3 (per-step preservation).** Every admissible call (`OpOK`: explicitly added PIDs are `< 8192`, not 0,
not 0x1000), succeeding or failing, keeps the state invariant; unless it is a `WriteData` that burns a value, on
every PID the payload-carrying chunks it emits carry the successive values after the stored counter, which ends
at the last one sent. -/
theorem step_preserves (m : Mux) (op : Op) (h : MuxInv m) (hok : StepOK m op) :
    MuxInv (step m op).2 ∧ ∀ p, Adv (stored m p) (ccsOn p (step m op).1) (stored (step m op).2 p) :=
  MuxCounters.step_adv m op h hok

/-- a `WriteData` that burns a value panics, its input is not `DataWF`, and exactly one value is skipped -/
theorem burnt_only_on_panic (m : Mux) (d : MuxerData) (h : MuxInv m) (hb : ¬ NoBurn m d) :
    (m.writeData d).1.panic = true ∧ ¬ DataWF d ∧
    stored (m.writeData d).2.1 d.pid = adv (stored m d.pid) ((ccsOn d.pid (m.writeData d).1.chunks).length + 1) :=
  (MuxCounters.writeData_step m d h).2.2 hb

/-- **Level 3 (history theorem).** From a new muxer, over any interleaving of stream additions (explicit PIDs
`< 8192`, not 0 / 0x1000), removals, `SetPCRPID`, explicit `WriteTables`, `WriteData` on any PIDs (with their
automatic table retransmissions) and failed calls, in which no `WriteData` burns a counter value: on EVERY PID the
payload-carrying chunks, in emission order, carry the counters 0, 1, 2, … modulo 16, and the muxer's stored counter
is the last one sent (`adv 16 n`; 16 iff nothing was sent: `MuxCounters.stored_is_last`). -/
theorem history_counters (period : Nat) (ops : List Op) (hok : RunAll StepOK (newMux period) ops) (p : Nat) :
    ccsOn p (run (newMux period) ops).1
        = (List.range (ccsOn p (run (newMux period) ops).1).length).map (· % 16) ∧
    stored (run (newMux period) ops).2 p = adv 16 (ccsOn p (run (newMux period) ops).1).length :=
  MuxCounters.history_counters period ops hok p

/-- the same when no `WriteData` of the history panics (an observable condition) -/
theorem history_counters_noPanic (period : Nat) (ops : List Op) (hok : RunAll StepNoPanic (newMux period) ops) (p : Nat) :
    ccsOn p (run (newMux period) ops).1
        = (List.range (ccsOn p (run (newMux period) ops).1).length).map (· % 16) ∧
    stored (run (newMux period) ops).2 p = adv 16 (ccsOn p (run (newMux period) ops).1).length :=
  MuxCounters.history_counters_noPanic period ops hok p

/-- the same under a static condition on the inputs: every `WriteData` input is `DataOK` (no nil pointer behind a
set flag; optional PES header not overflowing its 8-bit length) -/
theorem history_counters_dataOK (period : Nat) (ops : List Op)
    (hok : ∀ op ∈ ops, OpOK op ∧ ∀ d, op = .data d → DataOK d) (p : Nat) :
    ccsOn p (run (newMux period) ops).1
        = (List.range (ccsOn p (run (newMux period) ops).1).length).map (· % 16) ∧
    stored (run (newMux period) ops).2 p = adv 16 (ccsOn p (run (newMux period) ops).1).length :=
  MuxCounters.history_counters_wf period ops (fun op h => ⟨(hok op h).1, fun d hd => ((hok op h).2 d hd).wf⟩) p

/-- from any state satisfying the invariant the counters continue from the stored values -/
theorem history_counters_from (m : Mux) (ops : List Op) (h : MuxInv m) (hok : RunAll StepOK m ops) (p : Nat) :
    Adv (stored m p) (ccsOn p (run m ops).1) (stored (run m ops).2 p) :=
  MuxCounters.history_counters_from m ops h hok p

/-! ### non-vacuity: a concrete history with removal, failed call, re-addition and retransmissions -/

def exES : PMTElementaryStream := { elementaryPID := 0x100, streamType := 0x1b }
def exData (n : Nat) : MuxerData :=
  { pid := 0x100, pes := { data := List.replicate n 7, header := { streamID := 0xe0 } } }
def exOps : List Op :=
  [.add exES, .setPCR 0x100, .tables, .data (exData 300), .remove 0x100, .data (exData 10), .add exES,
   .data (exData 10), .tables]

theorem exData_ok (n : Nat) : DataOK (exData n) :=
  ⟨rfl, (by intro oh h; cases h), (by intro a h; cases h)⟩

theorem exOps_ok : ∀ op ∈ exOps, OpOK op ∧ ∀ d, op = .data d → DataOK d := by
  intro op hop
  simp only [exOps, List.mem_cons, List.mem_nil_iff, or_false] at hop
  rcases hop with rfl | rfl | rfl | rfl | rfl | rfl | rfl | rfl | rfl
  · exact ⟨⟨by decide, by decide, by decide⟩, by intro d h; cases h⟩
  · exact ⟨trivial, by intro d h; cases h⟩
  · exact ⟨trivial, by intro d h; cases h⟩
  · exact ⟨trivial, by intro d h; cases h; exact exData_ok _⟩
  · exact ⟨trivial, by intro d h; cases h⟩
  · exact ⟨trivial, by intro d h; cases h; exact exData_ok _⟩
  · exact ⟨⟨by decide, by decide, by decide⟩, by intro d h; cases h⟩
  · exact ⟨trivial, by intro d h; cases h; exact exData_ok _⟩
  · exact ⟨trivial, by intro d h; cases h⟩

/-- the hypotheses of `history_counters_dataOK` hold for `exOps`, and the history really emits packets: three
payload chunks on the stream's PID (the counter survives removal and re-addition; the `WriteData` on the removed
PID fails and emits nothing) and three on each table PID -/
example : (∀ op ∈ exOps, OpOK op ∧ ∀ d, op = .data d → DataOK d) ∧
    ccsOn 0x100 (run (newMux 40) exOps).1 = [0, 1, 2] ∧ ccsOn 0 (run (newMux 40) exOps).1 = [0, 1, 2] ∧
    ccsOn 4096 (run (newMux 40) exOps).1 = [0, 1, 2] ∧ (run (newMux 40) exOps).1.length = 9 :=
  ⟨exOps_ok, by decide +kernel, by decide +kernel, by decide +kernel, by decide +kernel⟩

example : RunAll StepOK (newMux 40) exOps :=
  MuxCounters.runAll_mono MuxCounters.StepWF StepOK (fun _ _ h => h.1)
    (fun m _ hm h => ⟨h.1, fun d hd => MuxCounters.noBurn_of_wf m d hm (h.2 d hd)⟩) _ exOps (MuxCounters.muxInv_new 40)
    (MuxCounters.runAll_wf _ exOps (fun op h => ⟨(exOps_ok op h).1, fun d hd => ((exOps_ok op h).2 d hd).wf⟩))

/-! second example: adaptation field (PCR, random access, 164 private bytes) too large for the PES header (with PTS)
to follow in the same packet → an adaptation-field-only packet precedes the payload packets and does not advance
the counter; two interleaved streams; forced and periodic table retransmissions -/

def exAF : PacketAdaptationField :=
  { hasPCR := true, pcr := some { base := 1234, extension := 5 }, randomAccessIndicator := true,
    hasTransportPrivateData := true, transportPrivateData := List.replicate 164 9, transportPrivateDataLength := 164 }
def exOH : PESOptionalHeader := { ptsDTSIndicator := 2, pts := some { base := 90000, extension := 0 } }
def exData2 : MuxerData :=
  { pid := 0x101, adaptationField := some exAF,
    pes := { data := List.replicate 200 3, header := { streamID := 0, optionalHeader := some exOH } } }
def exOps2 : List Op :=
  [.add { elementaryPID := 0x101, streamType := 0x0f }, .add exES, .setPCR 0x101, .data exData2, .data (exData 10),
   .data exData2]

theorem exData2_ok : DataOK exData2 :=
  ⟨by decide, (by intro oh h; cases h; decide), (by intro a h; cases h; decide)⟩

example : (∀ op ∈ exOps2, OpOK op ∧ ∀ d, op = .data d → DataOK d) ∧
    (run (newMux 40) exOps2).1.map (fun c => (pktPID c, pktHasPayload c, pktCC c)) =
      [(0, true, 0), (4096, true, 0), (257, false, 0), (257, true, 0), (257, true, 1), (256, true, 0),
       (0, true, 1), (4096, true, 1), (257, false, 1), (257, true, 2), (257, true, 3)] := by
  refine ⟨?_, by decide +kernel⟩
  intro op hop
  simp only [exOps2, List.mem_cons, List.mem_nil_iff, or_false] at hop
  rcases hop with rfl | rfl | rfl | rfl | rfl | rfl
  · exact ⟨⟨by decide, by decide, by decide⟩, by intro d h; cases h⟩
  · exact ⟨⟨by decide, by decide, by decide⟩, by intro d h; cases h⟩
  · exact ⟨trivial, by intro d h; cases h⟩
  · exact ⟨trivial, by intro d h; cases h; exact exData2_ok⟩
  · exact ⟨trivial, by intro d h; cases h; exact exData_ok _⟩
  · exact ⟨trivial, by intro d h; cases h; exact exData2_ok⟩

/-! ## C05 with AUTOMATIC PIDs and raw `WritePacket` calls (proofs: `Astits/Proofs/MuxAuto.lean`)

`history_counters` above requires `OpOK`: every `AddElementaryStream` names its PID.  The theorems of this section
drop that restriction: an `AddElementaryStream` with `ElementaryPID = 0` gets the automatic PID
`MuxTables.autoPID m` (C17 T4).  Admissibility is `MuxTables.StepOK'` = `OpOK'` (an explicit PID is 13-bit and not
0x1000; PID 0 asks for an automatic one) ∧ `Room` (an automatic PID is only asked for while fewer than 7934 streams
exist); the invariant carried along the history is `MuxTables.PidInv`.
`MuxAuto.StepOKA m op` = `StepOK' m op ∧ (op = .data d → NoBurn m d)`. -/

namespace Auto
open MuxTables (StepOK' OpOK' Room PidInv autoPID isAdd)
open MuxAuto (StepOKA StepNoPanicA opsOf ownWritten rawWritten)
open MuxWhole (Call hist written)

/-- an automatic add moves no counter: the new stream's PID continues from the counter kept for that PID when a stream
on it was last removed, or starts fresh (16 → first packet carries 0) -/
theorem auto_add_keeps_counters (m : Mux) (es : PMTElementaryStream) (h : PidInv m) (h0 : es.elementaryPID = 0)
    (hroom : m.streams.length < 7934) (p : Nat) :
    stored (m.addElementaryStream es).2 p = stored m p :=
  MuxAuto.add_auto_stored m es h h0 hroom p

/-- **per-step preservation, automatic PIDs included** -/
theorem step_preserves_auto (m : Mux) (op : Op) (h : PidInv m) (hok : StepOKA m op) :
    PidInv (step m op).2 ∧ ∀ p, Adv (stored m p) (ccsOn p (step m op).1) (stored (step m op).2 p) :=
  MuxAuto.step_adv' m op h hok

/-- **History theorem with automatic PIDs.**  From a new muxer, over any interleaving of stream additions (explicit
13-bit PIDs other than 0x1000, or PID 0 = automatic assignment while fewer than 7934 streams exist), removals,
`SetPCRPID`, `WriteTables`, `WriteData` on any PIDs and failed calls, in which no `WriteData` burns a counter value: on
EVERY PID the payload-carrying chunks, in emission order, carry the counters 0, 1, 2, … modulo 16, and the muxer's
stored counter is the last one sent. -/
theorem history_counters_auto (period : Nat) (ops : List Op)
    (hok : RunAll (fun m op => StepOK' m op ∧ (∀ d, op = .data d → NoBurn m d)) (newMux period) ops) (p : Nat) :
    ccsOn p (run (newMux period) ops).1
        = (List.range (ccsOn p (run (newMux period) ops).1).length).map (· % 16) ∧
    stored (run (newMux period) ops).2 p = adv 16 (ccsOn p (run (newMux period) ops).1).length :=
  MuxAuto.history_counters_auto period ops hok p

/-- the same when no `WriteData` of the history panics (observable) -/
theorem history_counters_auto_noPanic (period : Nat) (ops : List Op)
    (hok : RunAll (fun m op => StepOK' m op ∧ (∀ d, op = .data d → (m.writeData d).1.panic = false)) (newMux period) ops)
    (p : Nat) :
    ccsOn p (run (newMux period) ops).1
        = (List.range (ccsOn p (run (newMux period) ops).1).length).map (· % 16) ∧
    stored (run (newMux period) ops).2 p = adv 16 (ccsOn p (run (newMux period) ops).1).length :=
  MuxAuto.history_counters_auto period ops (MuxAuto.runAll_noPanic _ ops (MuxTables.pidInv_new period) hok) p

/-- the same under a purely static condition: every call is `OpOK'`, every `WriteData` input is `DataOK`, and there
are at most 7934 `AddElementaryStream` calls (so that an automatic PID is always available) -/
theorem history_counters_auto_dataOK (period : Nat) (ops : List Op)
    (hok : ∀ op ∈ ops, OpOK' op ∧ ∀ d, op = .data d → DataOK d)
    (hn : (ops.filter isAdd).length ≤ 7934) (p : Nat) :
    ccsOn p (run (newMux period) ops).1
        = (List.range (ccsOn p (run (newMux period) ops).1).length).map (· % 16) ∧
    stored (run (newMux period) ops).2 p = adv 16 (ccsOn p (run (newMux period) ops).1).length :=
  MuxAuto.history_counters_auto period ops
    (MuxAuto.runAll_static _ ops (MuxTables.pidInv_new period) hok (by show 0 + _ ≤ _; omega)) p

/-- from any state satisfying `PidInv` -/
theorem history_counters_auto_from (m : Mux) (ops : List Op) (h : PidInv m) (hok : RunAll StepOKA m ops) (p : Nat) :
    Adv (stored m p) (ccsOn p (run m ops).1) (stored (run m ops).2 p) :=
  MuxAuto.history_counters_auto_from m ops h hok p

/-- **History theorem for ALL API calls, raw `WritePacket` included.**  `cs` is a history of `MuxWhole.Call`s: the five
calls above and `WritePacket p` with an arbitrary caller-built packet `p` (which writes the caller's continuity
counter on the caller's PID and does not touch the muxer state: `MuxAuto.writePacketCall_state`).  `opsOf cs` is the
history with the raw calls deleted, `ownWritten` the chunks handed to the writer by the other calls, `rawWritten`
those of the raw calls, `written (hist …).1` everything, in order.  If the muxer's own calls are admissible, then
1. on every PID the chunks emitted by the muxer's own calls carry 0, 1, 2, … mod 16 and the stored counter is the last
   one sent — whatever the raw packets are;
2. on every PID on which no raw packet was written, the same holds of the COMPLETE output.
Nothing can be said of a PID shared by raw packets and muxer packets: see the counter-example below. -/
theorem history_counters_calls (period : Nat) (cs : List Call)
    (hok : RunAll (fun m op => StepOK' m op ∧ (∀ d, op = .data d → NoBurn m d)) (newMux period) (opsOf cs)) (p : Nat) :
    (ccsOn p (ownWritten (newMux period) cs)
        = (List.range (ccsOn p (ownWritten (newMux period) cs)).length).map (· % 16) ∧
     stored (hist (newMux period) cs).2 p = adv 16 (ccsOn p (ownWritten (newMux period) cs)).length) ∧
    ((∀ c ∈ rawWritten (newMux period) cs, pktPID c ≠ p) →
      ccsOn p (written (hist (newMux period) cs).1)
        = (List.range (ccsOn p (written (hist (newMux period) cs).1)).length).map (· % 16) ∧
      stored (hist (newMux period) cs).2 p = adv 16 (ccsOn p (written (hist (newMux period) cs).1)).length) :=
  MuxAuto.history_counters_calls period cs hok p

/-- the side condition of (2) follows from the raw packets' headers: 13-bit PID other than `p`, 2-bit scrambling control,
4-bit counter -/
theorem raw_packets_off_pid (p : Nat) (m : Mux) (cs : List Call)
    (h : ∀ pk, Call.packet pk ∈ cs → pk.header.pid < 8192 ∧ pk.header.transportScramblingControl < 4 ∧
      pk.header.continuityCounter < 16 ∧ pk.header.pid ≠ p) :
    ∀ c ∈ rawWritten m cs, pktPID c ≠ p :=
  MuxAuto.raw_off_pid p m cs h

/-! ### non-vacuity -/

/-- two automatic PIDs (0x100, 0x101), an explicit one (0x102), removal and automatic re-addition, data, tables -/
def exAutoES (t : Nat) : PMTElementaryStream := { elementaryPID := 0, streamType := t }
def exDataOn (pid n : Nat) : MuxerData :=
  { pid := pid, pes := { data := List.replicate n 7, header := { streamID := 0xe0 } } }
def exAutoOps : List Op :=
  [.add (exAutoES 0x1b), .add (exAutoES 0x0f), .add { elementaryPID := 0x102, streamType := 0x0f }, .setPCR 0x100,
   .data (exDataOn 0x100 300), .data (exDataOn 0x101 10), .remove 0x101, .add (exAutoES 0x0f), .data (exDataOn 0x103 10),
   .data (exDataOn 0x102 200), .tables]

theorem exDataOn_ok (pid n : Nat) : DataOK (exDataOn pid n) :=
  ⟨rfl, (by intro oh h; cases h), (by intro a h; cases h)⟩

theorem exAutoOps_ok : ∀ op ∈ exAutoOps, OpOK' op ∧ ∀ d, op = .data d → DataOK d := by
  intro op hop
  simp only [exAutoOps, List.mem_cons, List.mem_nil_iff, or_false] at hop
  rcases hop with rfl | rfl | rfl | rfl | rfl | rfl | rfl | rfl | rfl | rfl | rfl
  · exact ⟨⟨by decide, by decide⟩, by intro d h; cases h⟩
  · exact ⟨⟨by decide, by decide⟩, by intro d h; cases h⟩
  · exact ⟨⟨by decide, by decide⟩, by intro d h; cases h⟩
  · exact ⟨trivial, by intro d h; cases h⟩
  · exact ⟨trivial, by intro d h; cases h; exact exDataOn_ok _ _⟩
  · exact ⟨trivial, by intro d h; cases h; exact exDataOn_ok _ _⟩
  · exact ⟨trivial, by intro d h; cases h⟩
  · exact ⟨⟨by decide, by decide⟩, by intro d h; cases h⟩
  · exact ⟨trivial, by intro d h; cases h; exact exDataOn_ok _ _⟩
  · exact ⟨trivial, by intro d h; cases h; exact exDataOn_ok _ _⟩
  · exact ⟨trivial, by intro d h; cases h⟩

/-- the hypotheses of `history_counters_auto_dataOK` hold for `exAutoOps`; the streams really got automatic PIDs
(0x100, 0x101, then 0x103 — `nextPID` moves on, 0x102 being taken), and packets are emitted on all of them -/
example : (∀ op ∈ exAutoOps, OpOK' op ∧ ∀ d, op = .data d → DataOK d) ∧ (exAutoOps.filter isAdd).length ≤ 7934 ∧
    (run (newMux 40) exAutoOps).2.streams.map (·.elementaryPID) = [0x100, 0x102, 0x103] ∧
    (run (newMux 40) exAutoOps).1.map (fun c => (pktPID c, pktHasPayload c, pktCC c)) =
      [(0, true, 0), (4096, true, 0), (0x100, true, 0), (0x100, true, 1), (0x101, true, 0), (0x103, true, 0),
       (0x102, true, 0), (0x102, true, 1), (0, true, 1), (4096, true, 1)] :=
  ⟨exAutoOps_ok, by decide, by decide +kernel, by decide +kernel⟩

example : RunAll StepOKA (newMux 40) exAutoOps :=
  MuxAuto.runAll_static _ exAutoOps (MuxTables.pidInv_new 40) exAutoOps_ok (by decide)

/-- raw packets: one on a PID of its own (0x200, counter 9), one on the muxer's PID 0x100 (counter 7) -/
def exRaw (pid cc : Nat) : Packet :=
  { header := { continuityCounter := cc, hasAdaptationField := false, hasPayload := true, payloadUnitStartIndicator := false,
                pid := pid, transportErrorIndicator := false, transportPriority := false, transportScramblingControl := 0 },
    payload := List.replicate 184 1 }
def exCalls : List Call :=
  [.op (.add (exAutoES 0x1b)), .op (.setPCR 0x100), .op (.data (exDataOn 0x100 10)), .packet (exRaw 0x200 9),
   .packet (exRaw 0x100 7), .op (.data (exDataOn 0x100 10))]

/-- `history_counters_calls` applies to `exCalls`; its part (2) applies to PIDs 0 and 0x1000 (no raw packet there); on
the shared PID 0x100 the muxer's own chunks carry 0, 1 but the complete output carries 0, 7, 1: **the muxer does not
account for packets written through `WritePacket`** — a raw packet on a muxer PID breaks the continuity of that PID
(the demuxer would see a discontinuity and drop the unit being assembled).  This is by design of the Go API
(`WritePacket` is a pass-through), not a defect. -/
example : RunAll StepOKA (newMux 40) (opsOf exCalls) ∧
    (∀ c ∈ rawWritten (newMux 40) exCalls, pktPID c ≠ 0 ∧ pktPID c ≠ 4096) ∧
    ccsOn 0x100 (ownWritten (newMux 40) exCalls) = [0, 1] ∧
    ccsOn 0x100 (written (hist (newMux 40) exCalls).1) = [0, 7, 1] ∧
    ccsOn 0x200 (written (hist (newMux 40) exCalls).1) = [9] ∧
    ccsOn 0 (written (hist (newMux 40) exCalls).1) = [0] := by
  refine ⟨MuxAuto.runAll_static _ _ (MuxTables.pidInv_new 40) ?_ (by decide), by decide +kernel, by decide +kernel,
    by decide +kernel, by decide +kernel, by decide +kernel⟩
  intro op hop
  simp only [exCalls, opsOf, List.mem_cons, List.mem_nil_iff, or_false] at hop
  rcases hop with rfl | rfl | rfl | rfl
  · exact ⟨⟨by decide, by decide⟩, by intro d h; cases h⟩
  · exact ⟨trivial, by intro d h; cases h⟩
  · exact ⟨trivial, by intro d h; cases h; exact exDataOn_ok _ _⟩
  · exact ⟨trivial, by intro d h; cases h; exact exDataOn_ok _ _⟩

/-- the points excluded by `OpOK'`, evaluated.  (a) An explicit PID 0x1000 is accepted by the model (as by the Go
code: `AddElementaryStream` only checks for duplicates) and `WriteData` on it then shares PID 0x1000 with the PMT
packets while using a counter of its own: the PID carries 0 (PMT), 0 (PES): a duplicate counter.  (b) An explicit PID
≥ 0x2000 is accepted too and its packets go out on the PID truncated to 13 bits (0x2100 → 0x100). -/
example :
    ccsOn 4096 (run (newMux 40) [.add { elementaryPID := 4096, streamType := 0x1b }, .setPCR 4096,
      .data (exDataOn 4096 10)]).1 = [0, 0] ∧
    (run (newMux 40) [.add { elementaryPID := 0x2100, streamType := 0x1b }, .setPCR 0x2100,
      .data (exDataOn 0x2100 10)]).1.map pktPID = [0, 4096, 0x100] := by
  constructor <;> decide +kernel

end Auto

end Astits.C05
