/-
Reference encoding of the descriptors the library knows, written from the syntax tables of
ISO/IEC 13818-1 (2.6) and ETSI EN 300 468 (6.2, 6.4, annex D) -- not from the Go writer.

Conventions: a table is a list of `(width, value)` fields in transmission order (`Spec.enc`);
`reserved` / `reserved_future_use` bits are 1; character / private byte strings are appended as they
are; where a table has an `N`-times loop the list of items of the library value is mapped over it.
The one place where the standard prescribes zeros instead of ones is noted (AC-3 `reserved_flags`).
-/
import Astits.Spec.Bits
import Astits.Spec.DVB
import Astits.Model.Desc
namespace Astits.Spec

/-- all `n` bits set -/
def ones (n : Nat) : Nat × Nat := (n, 2 ^ n - 1)

/-! ### ISO/IEC 13818-1, 2.6 -/

/-- 2.6.8 registration_descriptor: format_identifier(32) additional_identification_info(8·N) -/
def registrationBody (d : DescriptorRegistration) : Bytes :=
  enc [(32, d.formatIdentifier)] ++ d.additionalIdentificationInfo

/-- 2.6.10 data_stream_alignment_descriptor: alignment_type(8) -/
def dataStreamAlignmentBody (d : DescriptorDataStreamAlignment) : Bytes := enc [(8, d.type)]

/-- 2.6.18 ISO_639_language_descriptor: ISO_639_language_code(24) audio_type(8); the library keeps
one (language, audio type) pair, the language as a byte string -/
def iso639Body (d : DescriptorISO639LanguageAndAudioType) : Bytes := d.language ++ enc [(8, d.type)]

/-- 2.6.26 maximum_bitrate_descriptor: reserved(2) maximum_bitrate(22), in units of 50 bytes/s -/
def maximumBitrateBody (d : DescriptorMaximumBitrate) : Bytes := enc [ones 2, (22, d.bitrate / 50)]

/-- 2.6.28 private_data_indicator_descriptor: private_data_indicator(32) -/
def privateDataIndicatorBody (d : DescriptorPrivateDataIndicator) : Bytes := enc [(32, d.indicator)]

/-- 2.6.64 AVC_video_descriptor: profile_idc(8) constraint_set0_flag(1) constraint_set1_flag(1)
constraint_set2_flag(1) AVC_compatible_flags(5) level_idc(8) AVC_still_present(1)
AVC_24_hour_picture_flag(1) reserved(6) -/
def avcVideoBody (d : DescriptorAVCVideo) : Bytes :=
  enc [(8, d.profileIDC), bit d.constraintSet0Flag, bit d.constraintSet1Flag, bit d.constraintSet2Flag,
       (5, d.compatibleFlags), (8, d.levelIDC), bit d.avcStillPresent, bit d.avc24HourPictureFlag, ones 6]

/-! ### EN 300 468, 6.2 -/

/-- 6.2.27 network_name_descriptor: char(8·N) -/
def networkNameBody (d : DescriptorNetworkName) : Bytes := d.name

/-- 6.2.47 VBI_data_descriptor, one line: reserved(2) field_parity(1) line_offset(5) -/
def vbiLine (l : DescriptorVBIDataDescriptor) : Bytes := enc [ones 2, bit l.fieldParity, (5, l.lineOffset)]

/-- 6.2.47, one service: data_service_id(8) data_service_descriptor_length(8), then for ids
1, 2, 4, 5, 6, 7 the lines, otherwise reserved bytes (the library keeps none: one byte 0xFF) -/
def vbiService (s : DescriptorVBIDataService) : Bytes :=
  let id := s.dataServiceID
  let data : Bytes :=
    if id = 1 ∨ id = 2 ∨ id = 4 ∨ id = 5 ∨ id = 6 ∨ id = 7 then (s.descriptors.map vbiLine).flatten
    else enc [ones 8]
  enc [(8, id), (8, data.length)] ++ data

def vbiDataBody (d : DescriptorVBIData) : Bytes := (d.services.map vbiService).flatten

/-- 6.2.43 teletext_descriptor (and 6.2.48 VBI_teletext_descriptor, same syntax), one entry:
ISO_639_language_code(24) teletext_type(5) teletext_magazine_number(3) teletext_page_number(8 = two
4-bit digits, tens then units) -/
def teletextItem (t : DescriptorTeletextItem) : Bytes :=
  t.language ++ enc [(5, t.type), (3, t.magazine), (4, t.page / 10), (4, t.page % 10)]

def teletextBody (d : DescriptorTeletext) : Bytes := (d.items.map teletextItem).flatten

/-- 6.2.33 service_descriptor: service_type(8) service_provider_name_length(8) char(8·N)
service_name_length(8) char(8·N) -/
def serviceBody (d : DescriptorService) : Bytes :=
  enc [(8, d.type), (8, d.provider.length)] ++ d.provider ++ enc [(8, d.name.length)] ++ d.name

/-- 6.2.37 short_event_descriptor: ISO_639_language_code(24) event_name_length(8) event_name_char(8·N)
text_length(8) text_char(8·N) -/
def shortEventBody (d : DescriptorShortEvent) : Bytes :=
  d.language ++ enc [(8, d.eventName.length)] ++ d.eventName ++ enc [(8, d.text.length)] ++ d.text

/-- 6.2.15, one item: item_description_length(8) item_description_char(8·N) item_length(8) item_char(8·N) -/
def extendedEventItem (it : DescriptorExtendedEventItem) : Bytes :=
  enc [(8, it.description.length)] ++ it.description ++ enc [(8, it.content.length)] ++ it.content

/-- 6.2.15 extended_event_descriptor: descriptor_number(4) last_descriptor_number(4)
ISO_639_language_code(24) length_of_items(8) items text_length(8) text_char(8·N) -/
def extendedEventBody (d : DescriptorExtendedEvent) : Bytes :=
  let items := (d.items.map extendedEventItem).flatten
  enc [(4, d.number), (4, d.lastDescriptorNumber)] ++ d.iso639LanguageCode
  ++ enc [(8, items.length)] ++ items ++ enc [(8, d.text.length)] ++ d.text

/-- 6.2.8 component_descriptor: stream_content_ext(4) stream_content(4) component_type(8)
component_tag(8) ISO_639_language_code(24) text_char(8·N) -/
def componentBody (d : DescriptorComponent) : Bytes :=
  enc [(4, d.streamContentExt), (4, d.streamContent), (8, d.componentType), (8, d.componentTag)]
  ++ d.iso639LanguageCode ++ d.text

/-- 6.2.39 stream_identifier_descriptor: component_tag(8) -/
def streamIdentifierBody (d : DescriptorStreamIdentifier) : Bytes := enc [(8, d.componentTag)]

/-- 6.2.9 content_descriptor, one entry: content_nibble_level_1(4) content_nibble_level_2(4) user_byte(8) -/
def contentItem (c : DescriptorContentItem) : Bytes :=
  enc [(4, c.contentNibbleLevel1), (4, c.contentNibbleLevel2), (8, c.userByte)]

def contentBody (d : DescriptorContent) : Bytes := (d.items.map contentItem).flatten

/-- 6.2.28 parental_rating_descriptor, one entry: country_code(24) rating(8) -/
def parentalRatingItem (p : DescriptorParentalRatingItem) : Bytes := p.countryCode ++ enc [(8, p.rating)]

def parentalRatingBody (d : DescriptorParentalRating) : Bytes := (d.items.map parentalRatingItem).flatten

/-- a duration in nanoseconds as 4 BCD digits: hours (2 digits), minutes (2 digits) -/
def bcdHoursMinutes (ns : Int) : List (Nat × Nat) :=
  let minutes := ns.toNat / 60000000000
  let h := minutes / 60
  let m := minutes % 60
  [(4, h / 10), (4, h % 10), (4, m / 10), (4, m % 10)]

/-- Unix seconds as the 40-bit UTC time of annex C: MJD(16) then hh mm ss as 6 BCD digits;
1970-01-01 is MJD 40587 -/
def utcTimeBytes (unix : Int) : Bytes :=
  dvbTimeBytes ((unix.fdiv 86400 + 40587).toNat) ((unix.fmod 86400).toNat)

/-- 6.2.20 local_time_offset_descriptor, one entry: country_code(24) country_region_id(6) reserved(1)
local_time_offset_polarity(1) local_time_offset(16) time_of_change(40) next_time_offset(16) -/
def localTimeOffsetItem (l : DescriptorLocalTimeOffsetItem) : Bytes :=
  l.countryCode
  ++ enc ([(6, l.countryRegionID), ones 1, bit l.localTimeOffsetPolarity] ++ bcdHoursMinutes l.localTimeOffset)
  ++ utcTimeBytes l.timeOfChange
  ++ enc (bcdHoursMinutes l.nextTimeOffset)

def localTimeOffsetBody (d : DescriptorLocalTimeOffset) : Bytes := (d.items.map localTimeOffsetItem).flatten

/-- 6.2.41 subtitling_descriptor, one entry: ISO_639_language_code(24) subtitling_type(8)
composition_page_id(16) ancillary_page_id(16) -/
def subtitlingItem (s : DescriptorSubtitlingItem) : Bytes :=
  s.language ++ enc [(8, s.type), (16, s.compositionPageID), (16, s.ancillaryPageID)]

def subtitlingBody (d : DescriptorSubtitling) : Bytes := (d.items.map subtitlingItem).flatten

/-- 6.2.31 private_data_specifier_descriptor: private_data_specifier(32) -/
def privateDataSpecifierBody (d : DescriptorPrivateDataSpecifier) : Bytes := enc [(32, d.specifier)]

/-! ### EN 300 468, annex D -/

/-- D.3 AC-3_descriptor: component_type_flag(1) bsid_flag(1) mainid_flag(1) asvc_flag(1)
reserved_flags(4), then the flagged bytes component_type, bsid, mainid, asvc, then
additional_info_byte(8·N).  The semantics of reserved_flags in D.3 say these 1-bit fields are
reserved for future use and are to be set to '0' -- the only reserved field here that is not all ones. -/
def ac3Body (d : DescriptorAC3) : Bytes :=
  enc ([bit d.hasComponentType, bit d.hasBSID, bit d.hasMainID, bit d.hasASVC, (4, 0)]
    ++ (if d.hasComponentType then [(8, d.componentType)] else [])
    ++ (if d.hasBSID then [(8, d.bsid)] else [])
    ++ (if d.hasMainID then [(8, d.mainID)] else [])
    ++ (if d.hasASVC then [(8, d.asvc)] else []))
  ++ d.additionalInfo

/-- D.5 enhanced_ac-3_descriptor: component_type_flag(1) bsid_flag(1) mainid_flag(1) asvc_flag(1)
mixinfoexists(1) substream1_flag(1) substream2_flag(1) substream3_flag(1), then the flagged bytes
component_type, bsid, mainid, asvc, substream1, substream2, substream3, then additional_info_byte(8·N) -/
def enhancedAC3Body (d : DescriptorEnhancedAC3) : Bytes :=
  enc ([bit d.hasComponentType, bit d.hasBSID, bit d.hasMainID, bit d.hasASVC, bit d.mixInfoExists,
        bit d.hasSubStream1, bit d.hasSubStream2, bit d.hasSubStream3]
    ++ (if d.hasComponentType then [(8, d.componentType)] else [])
    ++ (if d.hasBSID then [(8, d.bsid)] else [])
    ++ (if d.hasMainID then [(8, d.mainID)] else [])
    ++ (if d.hasASVC then [(8, d.asvc)] else [])
    ++ (if d.hasSubStream1 then [(8, d.subStream1)] else [])
    ++ (if d.hasSubStream2 then [(8, d.subStream2)] else [])
    ++ (if d.hasSubStream3 then [(8, d.subStream3)] else []))
  ++ d.additionalInfo

/-! ### EN 300 468, 6.2.16 and 6.4 -/

/-- 6.4.10 supplementary_audio_descriptor (after descriptor_tag_extension): mix_type(1)
editorial_classification(5) reserved_future_use(1) language_code_present(1)
[ISO_639_language_code(24)] private_data_byte(8·N) -/
def supplementaryAudioBody (d : DescriptorExtensionSupplementaryAudio) : Bytes :=
  enc [bit d.mixType, (5, d.editorialClassification), ones 1, bit d.hasLanguageCode]
  ++ (if d.hasLanguageCode then d.languageCode else [])
  ++ d.privateData

/-- 6.2.16 extension_descriptor: descriptor_tag_extension(8) selector_byte(8·N) -/
def extensionBody (d : DescriptorExtension) : Bytes :=
  enc [(8, d.tag)]
  ++ (if d.tag = 0x06 then
        (match d.supplementaryAudio with | some s => supplementaryAudioBody s | none => [])
      else d.unknown.getD [])

/-! ### descriptor(), descriptor loop -/

def optBody {α} (f : α → Bytes) : Option α → Bytes
  | some a => f a
  | none => []

/-- what follows descriptor_length -/
def descBodyEncode (d : Descriptor) : Bytes :=
  let t := d.tag
  if 0x80 ≤ t ∧ t ≤ 0xfe then d.userDefined
  else if t = 0x05 then optBody registrationBody d.registration
  else if t = 0x06 then optBody dataStreamAlignmentBody d.dataStreamAlignment
  else if t = 0x0a then optBody iso639Body d.iso639LanguageAndAudioType
  else if t = 0x0e then optBody maximumBitrateBody d.maximumBitrate
  else if t = 0x0f then optBody privateDataIndicatorBody d.privateDataIndicator
  else if t = 0x28 then optBody avcVideoBody d.avcVideo
  else if t = 0x40 then optBody networkNameBody d.networkName
  else if t = 0x45 then optBody vbiDataBody d.vbiData
  else if t = 0x46 then optBody teletextBody d.vbiTeletext
  else if t = 0x48 then optBody serviceBody d.service
  else if t = 0x4d then optBody shortEventBody d.shortEvent
  else if t = 0x4e then optBody extendedEventBody d.extendedEvent
  else if t = 0x50 then optBody componentBody d.component
  else if t = 0x52 then optBody streamIdentifierBody d.streamIdentifier
  else if t = 0x54 then optBody contentBody d.content
  else if t = 0x55 then optBody parentalRatingBody d.parentalRating
  else if t = 0x56 then optBody teletextBody d.teletext
  else if t = 0x58 then optBody localTimeOffsetBody d.localTimeOffset
  else if t = 0x59 then optBody subtitlingBody d.subtitling
  else if t = 0x5f then optBody privateDataSpecifierBody d.privateDataSpecifier
  else if t = 0x6a then optBody ac3Body d.ac3
  else if t = 0x7a then optBody enhancedAC3Body d.enhancedAC3
  else if t = 0x7f then optBody extensionBody d.extension
  else optBody (fun u => u.content) d.unknown

/-- descriptor(): descriptor_tag(8) descriptor_length(8) body -/
def descEncode (d : Descriptor) : Bytes :=
  let body := descBodyEncode d
  enc [(8, d.tag), (8, body.length)] ++ body

/-- reserved_future_use(4) descriptors_loop_length(12) descriptor()… -/
def descLoopEncode (ds : List Descriptor) : Bytes :=
  let body := (ds.map descEncode).flatten
  enc [ones 4, (12, body.length)] ++ body

end Astits.Spec
