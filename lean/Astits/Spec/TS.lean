/-
Reference encoding of a transport packet, ISO/IEC 13818-1 2.4.3.2 (table 2-2) and 2.4.3.4
(table 2-6).  Written from the standard's syntax tables, not from the Go writer.
Reserved bits = 1, stuffing_byte = 0xFF.  `p` is a packet value in the form the demuxer delivers
(derived fields filled in: see `Gen/Packet.lean`).
-/
import Astits.Spec.Bits
import Astits.Model.Packet
namespace Astits.Spec

def i2n (x : Int) : Nat := x.toNat

/-- program_clock_reference_base(33) reserved(6) program_clock_reference_extension(9) -/
def pcrFields (c : ClockReference) : List (Nat × Nat) := [(33, i2n c.base), (6, 0x3f), (9, i2n c.extension)]

/-- adaptation_field_extension -/
def afExtFields (e : PacketAdaptationExtensionField) : List (Nat × Nat) :=
  let body :=
    [bit e.hasLegalTimeWindow, bit e.hasPiecewiseRate, bit e.hasSeamlessSplice, (5, 0x1f)]
    ++ (if e.hasLegalTimeWindow then [bit e.legalTimeWindowIsValid, (15, e.legalTimeWindowOffset)] else [])
    ++ (if e.hasPiecewiseRate then [(2, 3), (22, e.piecewiseRate)] else [])
    ++ (if e.hasSeamlessSplice then
          let d := i2n (e.dtsNextAccessUnit.getD default).base
          [(4, e.spliceType), (3, d / 2 ^ 30), (1, 1), (15, d / 2 ^ 15 % 2 ^ 15), (1, 1), (15, d % 2 ^ 15), (1, 1)]
        else [])
  (8, (body.map (·.1)).sum / 8) :: body

/-- adaptation_field() of total length `a.length` (value of adaptation_field_length) -/
def afEncode (a : PacketAdaptationField) : Bytes :=
  if a.length = 0 then [0]
  else
    let body := enc ([bit a.discontinuityIndicator, bit a.randomAccessIndicator, bit a.elementaryStreamPriorityIndicator,
        bit a.hasPCR, bit a.hasOPCR, bit a.hasSplicingCountdown, bit a.hasTransportPrivateData,
        bit a.hasAdaptationExtensionField]
      ++ (if a.hasPCR then pcrFields (a.pcr.getD default) else [])
      ++ (if a.hasOPCR then pcrFields (a.opcr.getD default) else [])
      ++ (if a.hasSplicingCountdown then [(8, i2n a.spliceCountdown)] else [])
      ++ (if a.hasTransportPrivateData then [(8, a.transportPrivateData.length)] else []))
      ++ (if a.hasTransportPrivateData then a.transportPrivateData else [])
      ++ (if a.hasAdaptationExtensionField then enc (afExtFields (a.adaptationExtensionField.getD {})) else [])
    let l := i2n a.length
    [l] ++ body ++ List.replicate (l - body.length) 0xff

/-- transport_packet() -/
def tsEncode (p : Packet) : Bytes :=
  let h := p.header
  enc [(8, 0x47), bit h.transportErrorIndicator, bit h.payloadUnitStartIndicator, bit h.transportPriority,
       (13, h.pid), (2, h.transportScramblingControl), bit h.hasAdaptationField, bit h.hasPayload,
       (4, h.continuityCounter)]
  ++ (if h.hasAdaptationField then afEncode (p.adaptationField.getD {}) else [])
  ++ (if h.hasPayload then p.payload else [])

/-- stuffing adaptation field of adaptation_field_length `l` in delivered form -/
def stuffAF (l : Nat) : PacketAdaptationField :=
  if l = 0 then { length := 0, isOneByteStuffing := true } else { length := l, stuffingLength := l - 1 }

/-- a 188+k byte packet in this code base's convention: the k extra bytes directly follow the sync byte -/
def tsExpand (extra : Bytes) (pkt : Bytes) : Bytes := pkt.take 1 ++ extra ++ pkt.drop 1

end Astits.Spec
