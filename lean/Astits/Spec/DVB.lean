/-
Independent specification for C15: the Gregorian calendar by counting days, BCD digit by digit.
MJD 15079 is 1900-03-01 (EN 300 468 Annex C), MJD 40587 is 1970-01-01.
-/
import Astits.Basic
namespace Astits.Spec

def isLeap (y : Nat) : Bool := (y % 4 == 0 && y % 100 != 0) || y % 400 == 0

def daysInMonth (y m : Nat) : Nat :=
  if m = 2 then (if isLeap y then 29 else 28)
  else if m = 4 ∨ m = 6 ∨ m = 9 ∨ m = 11 then 30 else 31

/-- the day after y-m-d -/
def nextDay (d : Nat × Nat × Nat) : Nat × Nat × Nat :=
  let (y, m, dd) := d
  if dd < daysInMonth y m then (y, m, dd + 1)
  else if m < 12 then (y, m + 1, 1) else (y + 1, 1, 1)

/-- the civil date of MJD 15079 + n -/
def dateAfter : Nat → Nat × Nat × Nat
  | 0 => (1900, 3, 1)
  | n + 1 => nextDay (dateAfter n)

/-- two BCD digits -/
def bcd (n : Nat) : Nat := (n / 10) * 16 + n % 10

/-- five bytes of a DVB UTC time: 16-bit MJD, hh mm ss in BCD -/
def dvbTimeBytes (mjd secOfDay : Nat) : Bytes :=
  [mjd / 256 % 256, mjd % 256, bcd (secOfDay / 3600), bcd (secOfDay / 60 % 60), bcd (secOfDay % 60)]

end Astits.Spec
