/-
Reference decoder for C09: walks the sections of a PSI unit and accepts a section of the six
CRC-protected table families only if its CRC_32 (bit-serial `Spec.crc`, ISO 13818-1 Annex A) is
correct — the check comes *first*, nothing of the content is looked at.
Outcome: an error for the unit, or the list of accepted sections (offset, bytes).
-/
import Astits.Spec.CRC
import Astits.Basic
namespace Astits.Spec

def sixTables (t : Nat) : Bool :=
  t == 0 || t == 2 || t == 0x73 || t == 0x40 || t == 0x41 || t == 0x42 || t == 0x46 || decide (0x4e ≤ t ∧ t ≤ 0x6f)

/-- table ids the library knows but does not decode (no CRC check, nothing delivered) -/
def knownNoCRC (t : Nat) : Bool := t == 0x4a || t == 0x7e || t == 0x71 || t == 0x7f || t == 0x72 || t == 0x70

inductive UnitOutcome where
  | error
  | sections (l : List (Nat × Bytes))
  deriving Repr

def decodeSections (bs : Bytes) : Nat → Nat → List (Nat × Bytes) → UnitOutcome
  | 0, _, acc => .sections acc
  | fuel + 1, pos, acc =>
    if pos ≥ bs.length then .sections acc
    else
      let t := bs.getD pos 0
      if t == 0xff || !(sixTables t || knownNoCRC t) then .sections acc     -- stuffing / unknown table: stop
      else if pos + 3 > bs.length then .error
      else
        let sl := (bs.getD (pos + 1) 0 % 16) * 256 + bs.getD (pos + 2) 0
        if sl == 0 then decodeSections bs fuel (pos + 3) acc
        else if sixTables t then
          if pos + 3 + sl > bs.length ∨ 3 + sl < 4 then .error
          else
            let body := (bs.drop pos).take (3 + sl - 4)
            let crcField := beNat ((bs.drop (pos + 3 + sl - 4)).take 4)
            if (crc body).toNat == crcField then decodeSections bs fuel (pos + 3 + sl) (acc ++ [(pos, (bs.drop pos).take (3 + sl))])
            else .error
        else decodeSections bs fuel (pos + 3 + sl) acc

def decodeUnit (bs : Bytes) : UnitOutcome :=
  match bs with
  | [] => .error
  | ptr :: _ => decodeSections bs (bs.length + 1) (1 + ptr) []

end Astits.Spec
