/-
Reference encoding of PSI / SI sections: ISO/IEC 13818-1 2.4.4 (PAT table 2-30, PMT table 2-33,
generic private section syntax) and ETSI EN 300 468 5.2 (NIT, SDT, EIT, TOT), with CRC_32 from the
bit-serial `Spec.crc`.  Descriptor payloads are taken as given byte strings (their own reference
encoding is C14's); the loop length fields are written here.
-/
import Astits.Spec.Bits
import Astits.Spec.CRC
import Astits.Spec.DVB
import Astits.Model.PSI
namespace Astits.Spec

def be32' (v : Nat) : Bytes := enc [(32, v)]

/-- a descriptor loop: reserved(4) length(12) descriptors -/
def descLoop (ds : List Descriptor) : Bytes :=
  let body := writeDescriptors ds
  enc [(4, 15), (12, body.length)] ++ body

/-- generic section: table_id, section_syntax_indicator, private bit, reserved(2), section_length, body [, CRC_32] -/
def mkSec (tid : Nat) (ssi priv : Bool) (body : Bytes) (withCRC : Bool) : Bytes :=
  let len := body.length + (if withCRC then 4 else 0)
  let pre := enc [(8, tid), bit ssi, bit priv, (2, 3), (12, len)] ++ body
  if withCRC then pre ++ be32' (crc pre).toNat else pre

def syntaxHeader (h : PSISectionSyntaxHeader) : Bytes :=
  enc [(16, h.tableIDExtension), (2, 3), (5, h.versionNumber), bit h.currentNextIndicator, (8, h.sectionNumber),
       (8, h.lastSectionNumber)]

def patBody (d : PATData) : Bytes :=
  (d.programs.map fun p => enc [(16, p.programNumber), (3, 7), (13, p.programMapID)]).flatten

def pmtBody (d : PMTData) : Bytes :=
  enc [(3, 7), (13, d.pcrPID)] ++ descLoop d.programDescriptors
  ++ (d.elementaryStreams.map fun e =>
        enc [(8, e.streamType), (3, 7), (13, e.elementaryPID)] ++ descLoop e.elementaryStreamDescriptors).flatten

def sdtBody (d : SDTData) : Bytes :=
  enc [(16, d.originalNetworkID), (8, 0xff)]
  ++ (d.services.map fun s =>
        let ds := writeDescriptors s.descriptors
        enc [(16, s.serviceID), (6, 0x3f), bit s.hasEITSchedule, bit s.hasEITPresentFollowing, (3, s.runningStatus),
             bit s.hasFreeCSAMode, (12, ds.length)] ++ ds).flatten

def nitBody (d : NITData) : Bytes :=
  let tsl := (d.transportStreams.map fun t =>
    enc [(16, t.transportStreamID), (16, t.originalNetworkID)] ++ descLoop t.transportDescriptors).flatten
  descLoop d.networkDescriptors ++ enc [(4, 15), (12, tsl.length)] ++ tsl

/-- 40-bit UTC time from Unix seconds: 16-bit MJD and 6 BCD digits -/
def utcBytes (unix : Int) : Bytes :=
  dvbTimeBytes ((unix / 86400 + 40587).toNat) ((unix % 86400).toNat)

def durationBytes (ns : Int) : Bytes :=
  let s := (ns / 1000000000).toNat
  [bcd (s / 3600), bcd (s / 60 % 60), bcd (s % 60)]

def eitBody (d : EITData) : Bytes :=
  enc [(16, d.transportStreamID), (16, d.originalNetworkID), (8, d.segmentLastSectionNumber), (8, d.lastTableID)]
  ++ (d.events.map fun e =>
        let ds := writeDescriptors e.descriptors
        enc [(16, e.eventID)] ++ utcBytes e.startTime ++ durationBytes e.duration
        ++ enc [(3, e.runningStatus), bit e.hasFreeCSAMode, (12, ds.length)] ++ ds).flatten

def totBody (d : TOTData) : Bytes := utcBytes d.utcTime ++ descLoop d.descriptors

/-- reference bytes of one section given in the form the library delivers it -/
def sectionEncode (s : PSISection) : Bytes :=
  let h := s.header.getD {}
  let syn := s.syn.getD {}
  let d := syn.data.getD {}
  let t := h.tableID
  let sh := match syn.header with | some x => syntaxHeader x | none => []
  let body :=
    if t = 0 then sh ++ patBody (d.pat.getD {})
    else if t = 2 then sh ++ pmtBody (d.pmt.getD {})
    else if t = 0x42 ∨ t = 0x46 then sh ++ sdtBody (d.sdt.getD {})
    else if t = 0x40 ∨ t = 0x41 then sh ++ nitBody (d.nit.getD {})
    else if 0x4e ≤ t ∧ t ≤ 0x6f then sh ++ eitBody (d.eit.getD {})
    else totBody (d.tot.getD {})
  mkSec t h.sectionSyntaxIndicator h.privateBit body true

/-- a PSI unit: pointer_field, filler, sections, trailing 0xFF stuffing -/
def unitEncode (pointer : Nat) (sections : List Bytes) (stuffing : Nat) : Bytes :=
  [pointer] ++ List.replicate pointer 0 ++ sections.flatten ++ List.replicate stuffing 0xff

end Astits.Spec
