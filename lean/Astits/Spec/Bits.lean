/-
Bit-level helpers for the independent reference encoders (ISO 13818-1 / EN 300 468 syntax tables
are transcribed as lists of fixed-width fields).  Deliberately separate from `packFields`.
-/
import Astits.Basic
namespace Astits.Spec

/-- `width` bits of `v`, most significant first -/
def bitsOf : Nat → Nat → List Bool
  | 0, _ => []
  | w + 1, v => v.testBit w :: bitsOf w v

def byteOfBits (bs : List Bool) : Nat := bs.foldl (fun acc b => 2 * acc + (if b then 1 else 0)) 0

/-- pack a bit string whose length is a multiple of 8 into bytes -/
def packBits : List Bool → Bytes
  | b7 :: b6 :: b5 :: b4 :: b3 :: b2 :: b1 :: b0 :: r => byteOfBits [b7, b6, b5, b4, b3, b2, b1, b0] :: packBits r
  | _ => []

/-- a syntax table: fields `(width, value)` in transmission order -/
def enc (fields : List (Nat × Nat)) : Bytes :=
  packBits (fields.map fun (w, v) => bitsOf w v).flatten

def bit (b : Bool) : Nat × Nat := (1, if b then 1 else 0)

end Astits.Spec
