/-
Reference multiplexer for the demuxer properties (C02, C06, C07, C08, C16, C18, C19, C20): a stream
*model* (units per PID, cut points, adaptation-field stuffing, merge order) is turned into TS bytes
by the reference encoders, together with what a receiver must be handed (`expected`).
-/
import Astits.Spec.TS
import Astits.Spec.PES
import Astits.Spec.PSI
import Astits.Model.Demux
namespace Astits.Spec

structure TSUnit where
  pid : Nat
  payload : Bytes                 -- the unit's bytes (PES packet, or pointer_field + sections + stuffing)
  data : List DemuxerData         -- what must be delivered (firstPacket filled in by `expectedOf`)
  psi : Bool
  /-- sizes of the payload chunks, one per packet (each 1..184, sum = payload.length) -/
  chunks : List Nat
  /-- adaptation field content of the first packet (its adaptation_field_length is 183 - first chunk) -/
  firstAF : Option PacketAdaptationField := none
  /-- PSI only: pad the last packet's payload with 0xFF instead of adaptation field stuffing -/
  padPayload : Bool := false
  tei : Bool := false              -- mark every packet of the unit with transport_error_indicator
  /-- PSI: offset in `payload` where the last section ends (pointer_field + filler + sections) -/
  sectionsEnd : Nat := 0
  deriving Inhabited

def splitChunks (bs : Bytes) : List Nat → List Bytes
  | [] => []
  | n :: r => bs.take n :: splitChunks (bs.drop n) r

/-- the packets of one unit; `cc0` is the continuity counter of the first packet -/
def packetsOf (u : TSUnit) (cc0 : Nat) : List Packet :=
  let cs := splitChunks u.payload u.chunks
  let n := cs.length
  (cs.zipIdx).map fun (c, i) =>
    let lastPad := u.psi && u.padPayload && i + 1 = n && c.length < 184
    let payload := if lastPad then c ++ List.replicate (184 - c.length) 0xff else c
    let af : Option PacketAdaptationField :=
      if payload.length = 184 then none
      else if i = 0 then (match u.firstAF with | some a => some a | none => some (stuffAF (183 - payload.length)))
      else some (stuffAF (183 - payload.length))
    { adaptationField := af, payload := payload,
      header := { continuityCounter := (cc0 + i) % 16, hasAdaptationField := af.isSome, hasPayload := true,
                  payloadUnitStartIndicator := i = 0, pid := u.pid, transportErrorIndicator := u.tei,
                  transportPriority := false, transportScramblingControl := 0 } }

def expectedOf (u : TSUnit) (cc0 : Nat) : List DemuxerData :=
  match packetsOf u cc0 with
  | [] => []
  | p :: _ => u.data.map fun d => { d with firstPacket := some { p with payload := [] }, pid := u.pid }

/-- a stream: units in transmission order of their *first* packets per PID, plus a merge schedule -/
structure StreamModel where
  units : List TSUnit
  /-- order-preserving merge: a list of PIDs, one entry per packet, saying whose next packet comes -/
  schedule : List Nat
  deriving Inhabited

/-- per PID: the packet sequence and the expected data, continuity counters running per PID -/
def perPID (units : List TSUnit) : List (Nat × List Packet × List DemuxerData) :=
  let pids := (units.map (·.pid)).eraseDups
  pids.map fun pid =>
    let us := units.filter (·.pid == pid)
    let (ps, ds, _) := us.foldl (fun (acc : List Packet × List DemuxerData × Nat) u =>
      let (ps, ds, cc) := acc
      let pk := packetsOf u cc
      (ps ++ pk, ds ++ expectedOf u cc, (cc + pk.length) % 16)) ([], [], 0)
    (pid, ps, ds)

/-- merge per-PID packet lists following the schedule (entries for exhausted PIDs are skipped; what is
left over is appended PID by PID) -/
def mergeBy : List Nat → List (Nat × List Packet) → List Packet
  | [], rest => (rest.map (·.2)).flatten
  | pid :: sched, rest =>
    match rest.find? (·.1 == pid) with
    | some (_, p :: ps) => p :: mergeBy sched (rest.map fun e => if e.1 == pid then (pid, ps) else e)
    | _ => mergeBy sched rest

def StreamModel.packets (m : StreamModel) : List Packet :=
  mergeBy m.schedule ((perPID m.units).map fun (pid, ps, _) => (pid, ps))

def StreamModel.bytes (m : StreamModel) : Bytes := (m.packets.map tsEncode).flatten

/-- what a receiver must be handed, per PID (sorted by PID) -/
def StreamModel.expected (m : StreamModel) : List (Nat × List DemuxerData) :=
  let l := (perPID m.units).map fun (pid, _, ds) => (pid, ds)
  (l.toArray.qsort (fun a b => a.1 < b.1)).toList

/-- canonical "per PID" view shared with the harness -/
def showPerPID (l : List (Nat × List DemuxerData)) (errors : Nat) (ending : String) (noErr : Bool := false) : String :=
  ";".intercalate ((l.filter (fun e => !e.2.isEmpty)).map fun (pid, ds) => s!"pid={pid}:{jarr (ds.map DemuxerData.toJson)}")
    ++ (if noErr then "" else s!";errors={errors};end={ending}")

end Astits.Spec
