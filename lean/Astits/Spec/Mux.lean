/-
Abstract specification of the muxer: what each API call must append to the output (as packet
*values*, encoded by the reference encoders) and what it must return.  Deliberately written in terms
of "what a receiver must see": tables before the first PES and at every retransmission point, one
PES per WriteData cut into 184-byte pieces with the header in the first packet and the remainder
stuffed through the adaptation field, continuity counters consecutive per PID, a rejected call
appends nothing.
-/
import Astits.Spec.TS
import Astits.Spec.PES
import Astits.Spec.PSI
import Astits.Model.Mux
import Astits.Model.Demux
namespace Astits.Spec

structure MuxSpec where
  period : Nat
  streams : List PMTElementaryStream := []       -- in insertion order
  pcrPID : Nat := 0
  sinceEmission : Nat                            -- WriteData calls since the last automatic emission
  lastCC : List (Nat × Option Nat) := []         -- PID ↦ counter of the last payload packet sent (none: nothing sent yet)
  patCC : Nat := 0
  pmtCC : Nat := 0
  patVersion : Nat := 0                          -- version the next PAT carries if content changed
  pmtVersion : Nat := 0
  patDirty : Bool := true
  pmtDirty : Bool := false
  patEmitted : Bool := false
  pmtEmitted : Bool := false
  nextAuto : Nat := 0x100
  deriving Inhabited

def newMuxSpec (period : Nat) : MuxSpec := { period := period, sinceEmission := period }

inductive MuxOp where
  | add (es : PMTElementaryStream)
  | remove (pid : Nat)
  | setPCR (pid : Nat)
  | tables
  | data (d : MuxerData)
  | packet (p : Packet)
  deriving Inhabited

structure SpecOut where
  n : Nat := 0
  err : Option Err := none
  packets : List Bytes := []      -- whole 188-byte packets appended by the call
  /-- what a receiver of those packets must be handed (C01) -/
  delivered : List DemuxerData := []
  deriving Inhabited

def lastOf (s : MuxSpec) (pid : Nat) : Option Nat := ((s.lastCC.find? (·.1 == pid)).map (·.2)).getD none
/-- counter of the next payload packet of the PID -/
def ccOf (s : MuxSpec) (pid : Nat) : Nat := match lastOf s pid with | none => 0 | some c => (c + 1) % 16
def setLast (s : MuxSpec) (pid : Nat) (cc : Option Nat) : MuxSpec :=
  { s with lastCC := (s.lastCC.filter (·.1 != pid)) ++ [(pid, cc)] }

def reservedPID (pid : Nat) : Bool := pid < 0x100 || pid == 0x1000 || pid ≥ 0x1fff

/-- smallest automatic PID ≥ start (cyclically) that is neither reserved nor in use -/
def autoPID (s : MuxSpec) : Nat :=
  let cands := (List.range 65536).map fun i => (s.nextAuto + i) % 65536
  (cands.find? fun p => !reservedPID p && !s.streams.any (·.elementaryPID == p)).getD 0

def plainHeader (pid cc : Nat) (pusi hasAF hasPayload : Bool) : PacketHeader :=
  { continuityCounter := cc, hasAdaptationField := hasAF, hasPayload := hasPayload, payloadUnitStartIndicator := pusi,
    pid := pid, transportErrorIndicator := false, transportPriority := false, transportScramblingControl := 0 }

/-- a table section in one packet: pointer_field 0, the section, 0xFF up to 188 bytes -/
def tablePacketBytes (pid cc : Nat) (sec : Bytes) : Option Bytes :=
  if 1 + sec.length > 184 then none
  else
    let pl := [0] ++ sec
    some (tsEncode { adaptationField := none, header := plainHeader pid cc true false true, payload := pl }
          ++ List.replicate (184 - pl.length) 0xff)

def patSectionBytes (version : Nat) : Bytes :=
  sectionEncode { header := some { sectionSyntaxIndicator := true, tableID := 0 },
                  syn := some { header := some { currentNextIndicator := true, tableIDExtension := 0, versionNumber := version },
                                data := some { pat := some { programs := [{ programMapID := 0x1000, programNumber := 1 }], transportStreamID := 0 } } } }

def pmtSectionBytes (s : MuxSpec) (version : Nat) : Bytes :=
  sectionEncode { header := some { sectionSyntaxIndicator := true, tableID := 2 },
                  syn := some { header := some { currentNextIndicator := true, tableIDExtension := 1, versionNumber := version },
                                data := some { pmt := some { elementaryStreams := s.streams, pcrPID := s.pcrPID, programDescriptors := [], programNumber := 1 } } } }

/-- a PAT/PMT pair, or the reason why none can be emitted (then nothing changes) -/
def tablesDelivered (s : MuxSpec) : List DemuxerData :=
  [{ firstPacket := some { adaptationField := none, header := plainHeader 0 s.patCC true false true, payload := [] }, pid := 0,
     pat := some { programs := [{ programMapID := 0x1000, programNumber := 1 }], transportStreamID := 0 } },
   { firstPacket := some { adaptationField := none, header := plainHeader 0x1000 s.pmtCC true false true, payload := [] }, pid := 0x1000,
     pmt := some { elementaryStreams := s.streams, pcrPID := s.pcrPID, programDescriptors := [], programNumber := 1 } }]

def emitTables (s : MuxSpec) : Except Err (List Bytes × MuxSpec) :=
  if !(s.streams.any (·.elementaryPID == s.pcrPID)) then .error .pcrInvalid
  else
    -- the version changes (by one, modulo 32) iff the content changed since the last emission
    let patV := if s.patDirty ∧ s.patEmitted then (s.patVersion + 1) % 32 else s.patVersion
    let pmtV := if s.pmtDirty ∧ s.pmtEmitted then (s.pmtVersion + 1) % 32 else s.pmtVersion
    match tablePacketBytes 0 s.patCC (patSectionBytes patV), tablePacketBytes 0x1000 s.pmtCC (pmtSectionBytes s pmtV) with
    | some a, some b =>
      .ok ([a, b], { s with patCC := (s.patCC + 1) % 16, pmtCC := (s.pmtCC + 1) % 16, patVersion := patV, pmtVersion := pmtV,
                            patDirty := false, pmtDirty := false, patEmitted := true, pmtEmitted := true })
    | _, _ => .error .other      -- PMT too large for one packet

/-- adaptation field of adaptation_field_length `l` carrying the caller's content `a` (if any) -/
def afWithLength (a : Option PacketAdaptationField) (l : Nat) : PacketAdaptationField :=
  match a with
  | none => stuffAF l
  | some a => { a with length := l, stuffingLength := (l : Int) - afSize { a with stuffingLength := 0 },
                       transportPrivateDataLength := a.transportPrivateData.length,
                       adaptationExtensionField := a.adaptationExtensionField.map fun e => { e with length := afExtSize e } }

def chunk184 : Nat → Bytes → List Bytes
  | 0, _ => []
  | fuel + 1, bs => if bs.isEmpty then [] else bs.take 184 :: chunk184 fuel (bs.drop 184)

/-- the packets of one PES: header + payload cut into pieces, first packet with the caller's adaptation field -/
def pesPackets (pid cc0 ccPrev : Nat) (af : Option PacketAdaptationField) (pes : Bytes) (hdrLen : Nat) : Except Err (List Bytes × Nat × Packet) :=
  let afLen : Nat := match af with | some a => (afSize { a with stuffingLength := 0 }).toNat | none => 0
  let cap0 : Int := 184 - (if af.isSome then 1 + (afLen : Int) else 0)
  if af.isSome ∧ cap0 < 0 then .error .other                 -- the adaptation field does not fit in a packet
  else if af.isNone ∧ hdrLen > 184 then .error .other         -- the PES header can never fit
  else
    -- when the header does not fit behind the adaptation field, the adaptation field travels alone first
    let afAlone := af.isSome ∧ cap0 < hdrLen
    if afAlone ∧ hdrLen > 184 then .error .other
    else
      let pre : List Bytes := if afAlone then
          [tsEncode { adaptationField := some (afWithLength af 183), header := plainHeader pid ccPrev false true false, payload := [] }]
        else []
      let firstCap := if afAlone ∨ af.isNone then 184 else cap0.toNat
      let first := pes.take firstCap
      let rest := chunk184 (pes.length + 1) (pes.drop firstCap)
      let pieces := first :: rest
      let vals := pieces.zipIdx.map fun (pc, i) =>
        let carried : Option PacketAdaptationField := if i = 0 ∧ !afAlone then af else none
        let used := pc.length + (if carried.isSome then 1 + afLen else 0)
        let afv : Option PacketAdaptationField :=
          if used = 184 then carried.map (fun a => afWithLength (some a) afLen)
          else some (afWithLength carried (183 - pc.length))
        ({ adaptationField := afv, header := plainHeader pid ((cc0 + i) % 16) (i = 0) afv.isSome true, payload := pc } : Packet)
      .ok (pre ++ vals.map tsEncode, pieces.length, { vals.headD default with payload := [] })

def fits188 (bs : Bytes) : Bool := bs.length ≤ 188

def step (s : MuxSpec) : MuxOp → SpecOut × MuxSpec
  | .add es =>
    if es.elementaryPID ≠ 0 then
      if s.streams.any (·.elementaryPID == es.elementaryPID) then ({ err := some .pidExists }, s)
      else ({}, { s with streams := s.streams ++ [es], pmtDirty := true })   -- the PID's counter goes on where it stopped
    else
      let pid := autoPID s
      ({}, { s with streams := s.streams ++ [{ es with elementaryPID := pid }], pmtDirty := true, nextAuto := (pid + 1) % 65536 })
  | .remove pid =>
    if s.streams.any (·.elementaryPID == pid) then
      ({}, { s with streams := s.streams.filter (·.elementaryPID != pid), pmtDirty := true })
    else ({ err := some .pidNotFound }, s)
  | .setPCR pid => ({}, { s with pcrPID := pid, pmtDirty := true })
  | .tables =>
    match emitTables s with
    | .ok (ps, s') => ({ n := 376, packets := ps, delivered := tablesDelivered s }, s')
    | .error e => ({ err := some e }, s)
  | .packet p =>
    let bs := tsEncode p
    if p.header.hasAdaptationField ∧ p.adaptationField.isNone then ({ err := some .other }, s)   -- (Go panics: outside the domain)
    else if (if p.header.hasPayload then bs.length else bs.length + p.payload.length) > 188 then ({ err := some .other }, s)
    else ({ n := 188, packets := [bs ++ List.replicate (188 - bs.length) 0xff] }, s)
  | .data d =>
    if !(s.streams.any (·.elementaryPID == d.pid)) then ({ err := some .pidNotFound }, s)
    -- a PES header that can never fit in one packet is rejected before anything is written
    else if 6 + (match d.pes.header.optionalHeader with | some oh => (pesOptionalEncode oh 0).length | none => 0) > 184 then ({ err := some .other }, s)
    else
      -- tables first: when the period is reached, or before a random access point on the PCR PID
      let rai := (d.adaptationField.map (·.randomAccessIndicator)).getD false && d.pid == s.pcrPID
      let s1 := { s with sinceEmission := s.sinceEmission + 1 }
      let due := rai || s1.sinceEmission ≥ s1.period
      let tabs : Except Err (List Bytes × MuxSpec) := if due then emitTables s1 else .ok ([], s1)
      match tabs with
      | .error e => ({ err := some e }, s1)
      | .ok (tps, s2) =>
        let tdel := if due then tablesDelivered s1 else []
        let s2 := if due then { s2 with sinceEmission := 0 } else s2
        if d.pes.data.isEmpty then ({ n := 188 * tps.length, packets := tps, delivered := tdel }, s2)
        else
          let st := ((s2.streams.find? (·.elementaryPID == d.pid)).map (·.streamType)).getD 0
          let sid := if d.pes.header.streamID = 0 then toPESStreamID st else d.pes.header.streamID
          let h0 : PESHeader := { d.pes.header with streamID := sid }
          let optLen := if hasPESOptionalHeader sid then (match h0.optionalHeader with | some oh => (pesOptionalEncode oh 0).length | none => 0) else 0
          let plen := if sid == 0xe0 || sid == 0xfd then 0 else (let l := optLen + d.pes.data.length; if l > 0xffff then 0 else l)
          let pes := pesEncode { h0 with packetLength := plen } 0 d.pes.data
          -- the library reserves room for the optional header even for stream ids that carry none
          let hdrLen := 6 + (match h0.optionalHeader with | some oh => (pesOptionalEncode oh 0).length | none => 0)
          match pesPackets d.pid (ccOf s2 d.pid) ((lastOf s2 d.pid).getD 0) d.adaptationField pes hdrLen with
          | .error e => ({ n := 188 * tps.length, err := some e, packets := tps, delivered := tdel }, s2)
          | .ok (pkts, npayload, fp) =>
            ({ n := 188 * (tps.length + pkts.length), packets := tps ++ pkts,
               delivered := tdel ++ [{ firstPacket := some fp, pid := d.pid, pes := some { data := d.pes.data, header := { h0 with packetLength := plen } } }] }, setLast s2 d.pid (some ((ccOf s2 d.pid + npayload + 15) % 16)))

end Astits.Spec
