/-
Independent specification of CRC-32/MPEG-2: the textbook bit-serial register.
Polynomial 0x04C11DB7, initial value 0xFFFFFFFF, message bits MSB first, no reflection, no final XOR.
-/
import Astits.Basic
namespace Astits.Spec

/-- feed one message bit into the register -/
def crcFeedBit (c : BitVec 32) (bit : Bool) : BitVec 32 :=
  if c.msb != bit then (c <<< 1) ^^^ 0x04C11DB7#32 else c <<< 1

/-- the 8 bits of a byte, MSB first -/
def bitsOfByte (b : Nat) : List Bool :=
  [b.testBit 7, b.testBit 6, b.testBit 5, b.testBit 4, b.testBit 3, b.testBit 2, b.testBit 1, b.testBit 0]

def crcFeedByte (c : BitVec 32) (b : Nat) : BitVec 32 := (bitsOfByte b).foldl crcFeedBit c

def crcFrom (c : BitVec 32) (bs : Bytes) : BitVec 32 := bs.foldl crcFeedByte c

def crc (bs : Bytes) : BitVec 32 := crcFrom 0xFFFFFFFF#32 bs

end Astits.Spec
