/-
Reference encoding of a PES packet, ISO/IEC 13818-1 2.4.3.6 (table 2-21), written from the syntax
table.  Covers every optional field the library decodes (pack header excluded: documented as
unsupported).  `h` is a header value in the form the demuxer delivers it.
-/
import Astits.Spec.Bits
import Astits.Model.PES
namespace Astits.Spec

def tsFields (prefix4 : Nat) (v : Nat) : List (Nat × Nat) :=
  [(4, prefix4), (3, v / 2 ^ 30), (1, 1), (15, v / 2 ^ 15 % 2 ^ 15), (1, 1), (15, v % 2 ^ 15), (1, 1)]

def trickModeFields (m : DSMTrickMode) : List (Nat × Nat) :=
  let c := m.trickModeControl
  if c = 0 ∨ c = 3 then [(3, c), (2, m.fieldID), (1, m.intraSliceRefresh), (2, m.frequencyTruncation)]
  else if c = 2 then [(3, c), (2, m.fieldID), (3, 7)]
  else if c = 1 ∨ c = 4 then [(3, c), (5, m.repeatControl)]
  else [(3, c), (5, 0x1f)]

/-- optional PES header: flags, PES_header_data_length, fields, `stuffing` bytes of 0xFF -/
def pesOptionalEncode (h : PESOptionalHeader) (stuffing : Nat) : Bytes :=
  let base (c : Option ClockReference) : Nat := ((c.getD default).base).toNat
  let fieldsA : Bytes :=
    (if h.ptsDTSIndicator = 2 then enc (tsFields 2 (base h.pts)) else [])
    ++ (if h.ptsDTSIndicator = 3 then enc (tsFields 3 (base h.pts)) ++ enc (tsFields 1 (base h.dts)) else [])
    ++ (if h.hasESCR then
          let b := base h.escr
          let e := ((h.escr.getD default).extension).toNat
          enc [(2, 3), (3, b / 2 ^ 30), (1, 1), (15, b / 2 ^ 15 % 2 ^ 15), (1, 1), (15, b % 2 ^ 15), (1, 1), (9, e), (1, 1)]
        else [])
    ++ (if h.hasESRate then enc [(1, 1), (22, h.esRate), (1, 1)] else [])
    ++ (if h.hasDSMTrickMode then enc (trickModeFields (h.dsmTrickMode.getD {})) else [])
    ++ (if h.hasAdditionalCopyInfo then enc [(1, 1), (7, h.additionalCopyInfo)] else [])
    ++ (if h.hasCRC then enc [(16, h.crc)] else [])
  let ext : Bytes :=
    if h.hasExtension then
      enc [bit h.hasPrivateData, bit h.hasPackHeaderField, bit h.hasProgramPacketSequenceCounter, bit h.hasPSTDBuffer,
           (3, 7), bit h.hasExtension2]
      ++ (if h.hasPrivateData then h.privateData else [])
      ++ (if h.hasProgramPacketSequenceCounter then
            enc [(1, 1), (7, h.packetSequenceCounter), (1, 1), (1, h.mpeg1OrMPEG2ID), (6, h.originalStuffingLength)] else [])
      ++ (if h.hasPSTDBuffer then enc [(2, 1), (1, h.pstdBufferScale), (13, h.pstdBufferSize)] else [])
      ++ (if h.hasExtension2 then enc [(1, 1), (7, h.extension2Data.length)] ++ h.extension2Data else [])
    else []
  let data := fieldsA ++ ext ++ List.replicate stuffing 0xff
  enc [(2, 2), (2, h.scramblingControl), bit h.priority, bit h.dataAlignmentIndicator, bit h.isCopyrighted, bit h.isOriginal,
       (2, h.ptsDTSIndicator), bit h.hasESCR, bit h.hasESRate, bit h.hasDSMTrickMode, bit h.hasAdditionalCopyInfo,
       bit h.hasCRC, bit h.hasExtension, (8, data.length)]
  ++ data

/-- PES_packet(): start code prefix, stream id, PES_packet_length, optional header, payload -/
def pesEncode (h : PESHeader) (stuffing : Nat) (payload : Bytes) : Bytes :=
  let opt := if hasPESOptionalHeader h.streamID then pesOptionalEncode (h.optionalHeader.getD {}) stuffing else []
  enc [(24, 1), (8, h.streamID), (16, h.packetLength)] ++ opt ++ payload

end Astits.Spec
