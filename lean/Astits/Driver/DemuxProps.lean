/-
Case generators for the demuxer properties C03, C07, C08, C16, C18 (reader side), C19, C20.
-/
import Astits.Driver.DemuxOp
import Astits.Gen.Stream
namespace Astits.DriverDemux
open Spec

def bytesOf (ps : List Packet) : Bytes := (ps.map tsEncode).flatten

def smallStream (i : Nat) (tables : Bool := true) : Gen StreamModel :=
  genStream { pesPIDs := [0x100, 0x101], pmtPIDs := if tables then [0x1000] else [], dvb := i % 2 = 0, unitsPerPID := 2, maxPayload := 300 }

def expectedStr (m : StreamModel) : String := showPerPID m.expected 0 "eof"

/-- carry every packet in a (188+k)-byte frame: the k extra bytes directly follow the sync byte -/
def expandStream (ps : List Packet) (k : Nat) (fill : Nat) : Bytes :=
  (ps.map fun p => tsExpand (List.replicate k fill) (tsEncode p)).flatten

def nullPacketLike : Packet :=
  { adaptationField := none, payload := List.replicate 184 0xff,
    header := { continuityCounter := 0, hasAdaptationField := false, hasPayload := true, payloadUnitStartIndicator := false,
                pid := 0x1fff, transportErrorIndicator := false, transportPriority := false, transportScramblingControl := 0 } }

/-! ### helper packets -/
def nullPacket (cc : Nat) : Packet :=
  { adaptationField := none, payload := List.replicate 184 0xff,
    header := { continuityCounter := cc, hasAdaptationField := false, hasPayload := true, payloadUnitStartIndicator := false,
                pid := 0x1fff, transportErrorIndicator := false, transportPriority := false, transportScramblingControl := 0 } }

/-- adaptation-field-only packet of a PID (counter not incremented: same as the previous payload packet) -/
def afOnlyPacket (pid cc : Nat) : Packet :=
  { adaptationField := some (stuffAF 183), payload := [],
    header := { continuityCounter := cc, hasAdaptationField := true, hasPayload := false, payloadUnitStartIndicator := false,
                pid := pid, transportErrorIndicator := false, transportPriority := false, transportScramblingControl := 0 } }

/-- adaptation-field-only packet carrying a PCR, optionally announcing a (time-base) discontinuity -/
def afOnlyPCRPacket (pid cc : Nat) (di : Bool) (base : Nat) : Packet :=
  { adaptationField := some { discontinuityIndicator := di, hasPCR := true, pcr := some { base := base, extension := 0 },
                              length := 183, stuffingLength := 176 }, payload := [],
    header := { continuityCounter := cc, hasAdaptationField := true, hasPayload := false, payloadUnitStartIndicator := false,
                pid := pid, transportErrorIndicator := false, transportPriority := false, transportScramblingControl := 0 } }

def teiPacket (pid : Nat) (junk : Bytes) : Packet :=
  { adaptationField := none, payload := junk,
    header := { continuityCounter := 9, hasAdaptationField := false, hasPayload := true, payloadUnitStartIndicator := true,
                pid := pid, transportErrorIndicator := true, transportPriority := false, transportScramblingControl := 0 } }


/-! ### C08 -/
def runC08 (t : Tier) : Emit Unit := do
  for i in [0:(if t.quick then 6 else 30)] do
    let m ← liftGen (smallStream i)
    let bs := m.bytes
    let exp := expectedStr m
    -- fixed chunk sizes (all of 1..400 in the thorough tier), random schedules, all reader kinds, explicit and auto
    let sizes : List Nat := if t.quick then [1, 2, 3, 7, 100, 187, 188, 189, 192, 193, 194, 376, 400] else (List.range 400).map (· + 1)
    for c in sizes do
      let kind ← liftGen (pick [ReaderKind.seek, .bufio, .plain])
      emit "C08" (demuxCase bs { view := .perpid, kind := kind, chunks := [c] } none (some exp) "fixed-chunks-explicit")
      let kind2 ← liftGen (pick [ReaderKind.seek, .bufio])
      emit "C08" (demuxCase bs { view := .perpid, kind := kind2, chunks := [c], size := 0 } none (some exp) "fixed-chunks-auto")
    -- a reader that returns its last bytes together with io.EOF, every reader kind, several chunk sizes
    for (kind, nm) in [(ReaderKind.seek, "seek+dataeof"), (.plain, "plain+dataeof"), (.bufio, "bufio+dataeof")] do
      for c in [1, 100, 188, 5000] do
        emit "C08" (demuxCase bs { view := .perpid, kind := kind, readerName := some nm, chunks := [c] } none (some exp) "last-bytes-with-eof")
    -- detection-window reads that stop after 189..192 bytes (3 x 63, 2 x 95, 189, 190, 191, 192)
    for c in [63, 95, 189, 190, 191, 192] do
      emit "C08" (demuxCase bs { view := .perpid, kind := .seek, chunks := [c], size := 0 } none (some exp) "detection-window-short-reads")
    for _ in [0:(if t.quick then 10 else 50)] do
      let n ← liftGen (randRange 1 8)
      let sched ← liftGen (genList n (randRange 1 400))
      let kind ← liftGen (pick [ReaderKind.seek, .bufio, .plain])
      let auto ← liftGen randBool
      let kind := if auto && kind == .plain then .seek else kind
      emit "C08" (demuxCase bs { view := .perpid, kind := kind, chunks := sched, size := if auto then 0 else 188 } none (some exp) "random-schedule")
    -- a chunk boundary at every offset of the first 400 bytes (quick: every 7th)
    for off in [1:400] do
      if t.quick && off % 7 != 0 && off != 188 && off != 193 then continue
      let auto := off % 2 = 0
      emit "C08" (demuxCase bs { view := .perpid, kind := .seek, chunks := [off, 100000], size := if auto then 0 else 188 } none (some exp) "boundary-offsets")
    -- the packet sequence itself (NextPacket), explicit and auto
    emit "C08" (demuxCase bs { view := .seq, packetAPI := true, kind := .bufio, chunks := [5], size := 0 } none none "packets-auto-bufio")
    emit "C08" (demuxCase bs { view := .seq, packetAPI := true, kind := .plain, chunks := [191] } none none "packets-plain")
    -- larger frames: 188+k given explicitly (and auto-detected for k ≤ 4); extra bytes are not sync bytes
    for k in [1, 4, 16, 100] do
      let big := expandStream m.packets k 0xab
      emit "C08" (demuxCase big { view := .perpid, size := 188 + k, chunks := [97] } none (some exp) "oversize-explicit")
      if k ≤ 4 then
        emit "C08" (demuxCase big { view := .perpid, size := 0, kind := .bufio } none (some exp) "oversize-auto")
  -- auto-detection on a reader that can be neither rewound nor peeked (plain reader, bufio.Reader with a small buffer):
  -- by design the two first packets are spent on the detection and the reader is re-synchronised on the third one; from there
  -- on the packets are those of the explicit-size run. Frames of 188..192 bytes.
  for i in [0:(if t.quick then 2 else 10)] do
    let m ← liftGen (smallStream i)
    for k in [0, 1, 2, 3, 4] do
      let big := if k = 0 then m.bytes else expandStream m.packets k 0xab
      let ref := demuxCase big { view := .items, packetAPI := true, size := 188 + k } none none "ref"
      let expItems := "|".intercalate ((ref.model.splitOn "|").drop 2)
      for kind in [ReaderKind.plain, .bufioSmall] do
        for c in [61, 63, 95, 190] do
          emit "C08" (demuxCase big { view := .items, packetAPI := true, size := 0, kind := kind, chunks := [c] } none (some expItems) "auto-unpeekable-reader")
      for c in [63, 95, 189, 191] do
        emit "C08" (demuxCase big { view := .items, packetAPI := true, size := 0, kind := .seek, chunks := [c] } none (some ref.model) "auto-equals-explicit-packets")
      -- and the readers that can be rewound / peeked lose nothing
      for kind in [ReaderKind.seek, .bufio] do
        emit "C08" (demuxCase big { view := .items, packetAPI := true, size := 0, kind := kind } none (some ref.model) "auto-equals-explicit-packets")
      -- bufio.Reader buffers around the 193 bytes auto-detection peeks: 193 and more are peeked, 192 is read like a plain reader
      for nm in ["bufio193", "bufio194", "bufio256"] do
        emit "C08" (demuxCase big { view := .items, packetAPI := true, size := 0, kind := .bufio, readerName := some nm, chunks := [50] } none (some ref.model) "auto-bufio-buffer-sizes")
      emit "C08" (demuxCase big { view := .items, packetAPI := true, size := 0, kind := .bufioSmall, readerName := some "bufio192", chunks := [50] } none (some expItems) "auto-bufio-buffer-sizes")
  -- 188-byte packets with sync-byte values right behind the second packet's sync byte (PID 0x0047, payload bytes 0x47)
  for _ in [0:(if t.quick then 3 else 12)] do
    let n ← liftGen (randRange 200 500)
    let data := List.replicate n 0x47
    let hdr : PESHeader := { streamID := 0xe0, optionalHeader := some { markerBits := 2 }, packetLength := 0 }
    let pes := pesEncode hdr 0 data
    let pid ← liftGen (pick [0x0047, 0x0100, 0x0747])
    let rest := pes.length - 184
    let u : TSUnit := { pid := pid, payload := pes, psi := false, data := [{ pes := some { data := data, header := hdr } }],
                        chunks := [184] ++ (List.replicate (rest / 184) 184) ++ (if rest % 184 = 0 then [] else [rest % 184]) }
    let v ← liftGen (genPESUnit pid 200)
    let ms : StreamModel := { units := [u, v], schedule := [] }
    let ref := demuxCase ms.bytes { view := .items, packetAPI := true } none none "ref"
    for kind in [ReaderKind.seek, .bufio] do
      emit "C08" (demuxCase ms.bytes { view := .items, packetAPI := true, size := 0, kind := kind } none (some ref.model) "auto-sync-values-after-second-sync")
    emit "C08" (demuxCase ms.bytes { view := .perpid, size := 0 } none (some (expectedStr ms)) "auto-sync-values-after-second-sync-data")
  -- adversarial (known finding): 192-byte frames with a sync byte among the extra bytes; a single-packet stream
  for _ in [0:3] do
    let m ← liftGen (smallStream 1)
    -- a leading null packet whose payload is full of 0x47: byte 188 of the 192-byte framed stream is a sync byte
    let np : Packet := { nullPacketLike with payload := List.replicate 184 0x47 }
    let big := expandStream (np :: m.packets) 4 0xab
    emit "C08" (demuxCase big { view := .perpid, size := 0 } none (some (expectedStr m)) "auto-early-sync" "autodetect-heuristic")
  for _ in [0:3] do
    let u ← liftGen (genPESUnit 0x100 100)
    let n := min u.payload.length 150
    let u1 : TSUnit := { u with payload := u.payload.take n, chunks := [n], firstAF := none, data := [] }
    let one : StreamModel := { units := [u1], schedule := [] }
    -- explicit size: the (truncated, hence undecodable or shortened) unit is handled normally; auto: the packet is lost
    let ref := demuxCase one.bytes { view := .outcomes, packetAPI := true } none none "ref"
    emit "C08" (demuxCase one.bytes { view := .outcomes, packetAPI := true, size := 0 } none (some ref.model) "auto-single-packet" "autodetect-heuristic")
  return ()

/-! ### C03 -/
def outcomesCase (bs : Bytes) (c : DemuxCfg) (tag : String) : Case :=
  demuxCase bs { c with view := .outcomes } none none tag "" "eof-sticky"

def mutateBytes (bs : Bytes) : Gen Bytes := do
  let n ← randRange 1 6
  let mut out := bs
  for _ in [0:n] do
    let k ← randBelow 4
    if out.isEmpty then break
    let i ← randBelow out.length
    match k with
    | 0 => do let v ← randBelow 256; out := out.set i v
    | 1 => do let b ← randBelow 8; out := out.set i ((out.getD i 0) ^^^ (2 ^ b))
    | 2 => out := out.take i ++ out.drop (i + 1)            -- delete a byte: everything after is misaligned
    | _ => do let v ← randBelow 256; out := out.take i ++ [v] ++ out.drop i
  return out

def allCfgs : List (Nat × ReaderKind) :=
  [(0, .seek), (0, .bufio), (0, .plain), (188, .seek), (188, .bufio), (188, .plain), (192, .seek), (204, .plain), (200, .bufio),
   (0, .bufioSmall), (188, .bufioSmall)]

def runC03 (t : Tier) : Emit Unit := do
  -- empty and tiny inputs, every configuration, both APIs
  for n in [0, 1, 2, 187, 188, 189, 192, 193, 194, 375, 376, 377] do
    let bs ← liftGen (randBytes n)
    let bs2 := if n > 0 then bs.set 0 0x47 else bs
    for (size, kind) in allCfgs do
      for api in [false, true] do
        emit "C03" (outcomesCase bs { size := size, kind := kind, packetAPI := api } "tiny-random")
        emit "C03" (outcomesCase bs2 { size := size, kind := kind, packetAPI := api } "tiny-sync")
  -- random bytes
  for _ in [0:(if t.quick then 40 else 400)] do
    let n ← liftGen (randRange 0 2000)
    let bs ← liftGen (randBytes n)
    let (size, kind) ← liftGen (pick allCfgs)
    let api ← liftGen randBool
    emit "C03" (outcomesCase bs { size := size, kind := kind, packetAPI := api } "random-bytes")
  -- structured then mutated; truncated at every offset (quick: every 13th)
  for i in [0:(if t.quick then 8 else 60)] do
    let m ← liftGen (smallStream i)
    let bs := m.bytes
    for _ in [0:(if t.quick then 12 else 40)] do
      let mb ← liftGen (mutateBytes bs)
      let (size, kind) ← liftGen (pick allCfgs)
      let api ← liftGen randBool
      emit "C03" (outcomesCase mb { size := size, kind := kind, packetAPI := api } "structured-mutated")
      -- the data view of the same input: model and implementation must agree on everything delivered
      emit "C03" (demuxCase mb { size := if size = 0 then 0 else 188, kind := kind, view := .seq } none none "structured-mutated-seq")
    if i < 2 then
      for cut in [0:bs.length + 1] do
        if t.quick && cut % 13 != 0 && cut % 188 > 2 then continue
        let (size, kind) ← liftGen (pick [(0, ReaderKind.seek), (188, .seek), (0, .bufio), (188, .plain)])
        emit "C03" (outcomesCase (bs.take cut) { size := size, kind := kind } "truncated")
  -- tables whose descriptors declare lengths that do not match their tag (every tag x length 0..6), carried in a PMT on an
  -- announced PID and in an SDT: through the whole demuxer
  let m0 ← liftGen (smallStream 0)
  let patUnit := (m0.units.filter (·.pid == 0)).headD default
  for tag in knownDescriptorTags ++ [0x90, 0x01] do
    for dl in [0, 1, 2, 3, 4, 5, 6] do
      let junk ← liftGen (randBytes 12)
      let descs : Bytes := [tag, dl] ++ junk.take dl
      -- PMT section with this program_info loop (CRC computed correctly: the parser runs before the CRC check anyway)
      let body : Bytes := [0x00, 0x01, 0xc1, 0x00, 0x00, 0xe1, 0x00, 0xf0, descs.length] ++ descs ++ junk
      let sec0 : Bytes := [0x02, 0xb0, body.length + 4] ++ body
      let sec := sec0 ++ be32 (computeCRC32 sec0)
      let unit : Bytes := [0] ++ sec
      let u : Spec.TSUnit := { pid := 0x1000, payload := unit, data := [], psi := true, chunks := [unit.length] }
      let st : Spec.StreamModel := { units := [patUnit, u], schedule := [] }
      emit "C03" (outcomesCase st.bytes {} "descriptor-length-vs-tag")
      emit "C03" (demuxCase st.bytes { view := .seq } none none "descriptor-length-vs-tag-seq")
  -- bufio.Reader buffers of 188..192 bytes (one packet fits, the 193-byte detection window does not) and 193: auto-detection
  for nm in ["bufio188", "bufio190", "bufio192", "bufio193"] do
    let m ← liftGen (smallStream 1)
    let mb ← liftGen (mutateBytes m.bytes)
    for api in [false, true] do
      let k := if nm = "bufio193" then ReaderKind.bufio else .bufioSmall
      emit "C03" (outcomesCase m.bytes { size := 0, kind := k, readerName := some nm, packetAPI := api } "bufio-buffer-around-193")
      emit "C03" (outcomesCase mb { size := 0, kind := k, readerName := some nm, packetAPI := api } "bufio-buffer-around-193")
  -- sections on the PAT PID and on an announced PMT PID that announce up to 4095 bytes and span 8..23 packets before they
  -- complete (or never do)
  let m00 ← liftGen (smallStream 0)
  let pat0 := (m00.units.filter (·.pid == 0)).headD default
  let pat0Bytes : Bytes := bytesOf (Spec.packetsOf pat0 0)
  for sl in [1300, 1464, 1465, 2000, 4095] do
    for pidT in [0, 0x1000] do
      let junk ← liftGen (randBytes (sl + 40))
      let unit : Bytes := [0, (if pidT = 0 then 0x00 else 0x02), 0xb0 + sl / 256, sl % 256] ++ junk
      let n := unit.length
      let u : Spec.TSUnit := { pid := pidT, payload := unit, data := [], psi := true,
                               chunks := List.replicate (n / 184) 184 ++ (if n % 184 = 0 then [] else [n % 184]) }
      let st : Spec.StreamModel := { units := [pat0, u], schedule := [] }
      emit "C03" (demuxCase st.bytes { view := .seq } none none "huge-section-on-table-pid")
      emit "C03" (outcomesCase st.bytes { size := 0, kind := .bufio } "huge-section-on-table-pid")
  -- sections of every table family announcing 0..12 bytes (shorter than their fixed fields), followed by more bytes
  for (tid, pidT) in [(0x00, 0), (0x02, 0x1000), (0x42, 0x11), (0x40, 0x10), (0x4e, 0x12), (0x73, 0x14), (0x70, 0x14)] do
    for sl in [0:13] do
      let junk ← liftGen (randBytes 40)
      let unit : Bytes := [0, tid, 0xb0, sl] ++ junk
      let u : Spec.TSUnit := { pid := pidT, payload := unit, data := [], psi := true, chunks := [unit.length] }
      let st : Spec.StreamModel := { units := (if pidT = 0 then [u] else [pat0, u]), schedule := [] }
      emit "C03" (demuxCase st.bytes { view := .seq } none none "tiny-section-length")
  -- adaptation_field_length beyond the packet (184..255), adaptation field only / with payload, in a stream
  for afl in [183, 184, 185, 200, 254, 255] do
    for afc in [0x20, 0x30] do
      let fill ← liftGen (randBytes 183)
      let bad : Bytes := [0x47, 0x41, 0x00, afc + 1, afl] ++ fill
      emit "C03" (demuxCase (pat0Bytes ++ bad ++ bad) { view := .seq } none none "adaptation-field-length-beyond-packet")
      emit "C03" (demuxCase (bad ++ bad) { view := .seq, packetAPI := true } none none "adaptation-field-length-beyond-packet")
  -- a unit start whose counter jumps while packets of the previous unit are queued (the last 1..3 packets of that unit
  -- were lost), and the same with the queue empty (first packet of the PID)
  for lost in [1, 2, 3] do
    let pl ← liftGen (randBytes 900)
    let pes : Bytes := [0, 0, 1, 0xe0, 0, 0, 0x80, 0, 0] ++ pl
    let u : Spec.TSUnit := { pid := 0x100, payload := pes, data := [], psi := false, chunks := [184, 184, 184, 184, pes.length - 736] }
    let ps1 := Spec.packetsOf u 0
    let ps2 := Spec.packetsOf u ((5 + lost) % 16)
    emit "C03" (demuxCase (pat0Bytes ++ bytesOf (ps1.take (5 - lost) ++ ps2)) { view := .seq } none none "unit-start-with-counter-jump-and-queue")
    emit "C03" (demuxCase (bytesOf (ps2 ++ ps1.take (5 - lost) ++ ps2)) { view := .seq } none none "unit-start-with-counter-jump-and-queue")
  -- sections with a CORRECT CRC whose section_length (4..12) leaves no room for the table's fixed part: every table family
  let recrc (b : Bytes) : Bytes := b ++ Spec.be32' (Spec.crc b).toNat
  for (tid, pidT) in [(0x00, 0), (0x02, 0x1000), (0x42, 0x11), (0x40, 0x10), (0x4e, 0x12), (0x73, 0x14)] do
    for sl in [4:13] do
      let junk ← liftGen (randBytes (sl - 4))
      -- (behind the section: stuffing, or zeros — the fixed part that does not fit is then read as all-zero lengths)
      for tail in ([[0xff, 0xff], List.replicate 12 0] : List Bytes) do
        let unit : Bytes := [0] ++ recrc ([tid, 0xb0, sl] ++ junk) ++ tail
        let u : Spec.TSUnit := { pid := pidT, payload := unit, data := [], psi := true, chunks := [unit.length] }
        let st : Spec.StreamModel := { units := (if pidT = 0 then [u, u] else [pat0, u, u]), schedule := [] }
        emit "C03" (demuxCase st.bytes { view := .seq } none none "crc-valid-tiny-section")
  -- a table of every family cut at every offset (the unit simply ends there), and a PMT whose descriptor loop holds a
  -- descriptor of every kind, cut at every offset of that descriptor
  for kk in [0:12] do
    -- (a small and a large table of every family: the large ones have several loop entries to be cut in)
    let k := kk % 6
    let (_, sb) ← liftGen (genSectionOfKind k (kk ≥ 6))
    let pidT := [0, 0x1000, 0x11, 0x10, 0x12, 0x14].getD k 0
    let unit : Bytes := [0] ++ sb
    for cut in [1:min unit.length (if kk ≥ 6 then 260 else 160)] do
      let u : Spec.TSUnit := { pid := pidT, payload := unit.take cut, data := [], psi := true, chunks := [cut] }
      let st : Spec.StreamModel := { units := (if pidT = 0 then [u, u] else [pat0, u, u]), schedule := [] }
      emit "C03" (demuxCase st.bytes { view := .outcomes } none none "section-cut-at-every-offset")
  for k in [0:25] do
    let d ← liftGen (genDescriptorOfKind k)
    let db := (writeDescriptor d).take 60
    let es : Bytes := [0x1b, 0xe1, 0x00, 0xf0 + db.length / 256, db.length % 256] ++ db
    let body : Bytes := [0, 1, 0xc1, 0, 0, 0xe1, 0x00, 0xf0, 0x00] ++ es
    let l := body.length + 4
    let unit : Bytes := [0] ++ recrc ([0x02, 0xb0 + l / 256, l % 256] ++ body)
    for cut in [18:18 + db.length] do
      let u : Spec.TSUnit := { pid := 0x1000, payload := unit.take cut, data := [], psi := true, chunks := [cut] }
      let st : Spec.StreamModel := { units := [pat0, u, u], schedule := [] }
      emit "C03" (demuxCase st.bytes { view := .outcomes } none none "pmt-cut-inside-a-descriptor")
  -- the CAT PID (1): units that look like a PES, like a PAT, like nothing — none of them is delivered as data
  for payload in ([[0, 0, 1, 0xe0, 0, 0, 0x80, 0, 0, 1, 2, 3], [0, 0, 0xb0, 0x0d, 0, 1, 0xc1, 0, 0, 0, 1, 0xf0, 0, 0x2a, 0xb1, 0x04, 0xb2],
                   [0, 1, 0xb0, 0x05, 1, 2, 3, 4, 5], [9, 9, 9, 9]] : List Bytes) do
    let u1 : Spec.TSUnit := { pid := 1, payload := payload, data := [], psi := false, chunks := [payload.length] }
    let st : Spec.StreamModel := { units := [pat0, u1, u1, u1], schedule := [] }
    emit "C03" (demuxCase st.bytes { view := .seq } none none "cat-pid")
  -- PES units whose length fields contradict each other and the unit (PES_packet_length x PES_header_data_length x
  -- flags x unit size), one unit per stream
  for sid in [0xe0, 0xc0, 0xbd] do
    for plen in [0, 3, 9, 0xffff] do
      for hdl in [0, 5, 10, 0xc8, 0xff] do
        for flags in [0x00, 0x80, 0xc0, 0x3f] do
          let body ← liftGen (randBytes (if hdl % 2 = 0 then 4 else 30))
          let unit : Bytes := [0, 0, 1, sid, plen / 256, plen % 256, 0x80, flags, hdl] ++ body
          let u : Spec.TSUnit := { pid := 0x100, payload := unit, data := [], psi := false, chunks := [unit.length] }
          let st : Spec.StreamModel := { units := [u], schedule := [] }
          emit "C03" (demuxCase st.bytes { view := .seq } none none "pes-length-fields")
  -- with a skipper and with custom parsers
  for i in [0:(if t.quick then 6 else 30)] do
    let m ← liftGen (smallStream i)
    let mb ← liftGen (mutateBytes m.bytes)
    let ds ← liftGen (genList 40 randBool)
    emit "C03" (outcomesCase mb { skipper := .script ds } "mutated-skipper")
    emit "C03" (outcomesCase mb { parser := .observer } "mutated-parser")
    emit "C03" (outcomesCase mb { parser := .failing, size := 0 } "mutated-parser-failing")

/-- reference for a seekable reader whose Seek always fails, packet size to be detected: every call examines the next
193 bytes (they are consumed: the reader cannot be put back); a window that starts with a sync byte and holds a second
one from offset 188 on needs the rewind, which fails with the injected cause; other windows are ordinary detection
errors; nothing left is the end of the stream -/
def seekFailOutcomes (bs : Bytes) : Nat → Nat → List String
  | 0, _ => []
  | n + 1, pos =>
    let rem := bs.drop pos
    if rem.isEmpty then "eof" :: seekFailOutcomes bs n pos
    else
      let w := rem.take 193
      let o := if w.headD 0 != 0x47 then "other" else if (w.drop 188).contains 0x47 then "io" else "other"
      o :: seekFailOutcomes bs n (pos + w.length)

/-- one reader-fault case: the fault-free run's results up to the call that hits the fault, then an error wrapping the cause -/
def readerFaultCase (bs : Bytes) (off : Nat) (kind : ReaderKind) (auto once api : Bool) (chunk : List Nat) (tag : String) : Case :=
  let cfg : DemuxCfg := { size := if auto then 0 else 188, kind := kind, fault := some (off, once), packetAPI := api, chunks := chunk }
  -- calls: until the model reports the first error
  let d0 := mkDemux bs cfg
  let rec firstErr (d : Demux) (fuel n : Nat) : Nat :=
    match fuel with
    | 0 => n
    | fuel + 1 =>
      if api then (match d.nextPacket with | (.ok _, d') => firstErr d' fuel (n + 1) | _ => n + 1)
      else (match d.nextData with | (.ok _, d') => firstErr d' fuel (n + 1) | _ => n + 1)
  let k := firstErr d0 (bs.length / 188 + 8) 0
  -- spec: the fault-free run's first k-1 results, then an error wrapping the cause at the fault offset
  let clean := mkDemux bs { cfg with fault := none }
  let (rs, _) := runCalls clean api (List.replicate (k - 1) Call.next)
  let prefixOK := rs.all fun r => match r with | .data (.ok _) _ => true | .packet (.ok _) _ => true | _ => false
  let posS := if kind == .bufio then "-" else toString off
  let spec := if prefixOK then some ("|".intercalate ((rs.map (·.show kind)) ++ [s!"err:io@{posS}"]) ++ ";skip=[];parser=[];stable=true") else none
  demuxCase bs { cfg with view := .seq } (some (List.replicate k Call.next)) spec tag
/-! ### C18 (reader side) -/
def runC18r (t : Tier) : Emit Unit := do
  -- the reader's Seek fails (returning -1 or 0 with the error) when auto-detection wants to go back to the start: the
  -- pending call returns an error wrapping the cause. The model has no failing Seek: `seekFailOutcomes` is the
  -- reference for both columns of these cases
  for i in [0:(if t.quick then 2 else 6)] do
    let m ← liftGen (smallStream i)
    let bs := m.bytes.take (188 * 6)
    for rk in ["seekfail-1", "seekfail0"] do
      for api in [false, true] do
        let calls := List.replicate (bs.length / 193 + 3) Call.next
        let exp := ",".intercalate (seekFailOutcomes bs calls.length 0)
        let c := demuxCase bs { size := 0, kind := .seek, readerName := some rk, packetAPI := api, view := .outcomes } (some calls) (some exp) "seek-fault-in-auto-detection"
        emit "C18" { c with model := exp }
  for i in [0:(if t.quick then 3 else 12)] do
    let m ← liftGen (smallStream i)
    let bs := m.bytes
    let stride := if t.quick then 37 else 5
    for off in [0:bs.length + 1] do
      if off % stride != 0 && off != 1 && off != 192 && off != 193 && off != 194 && off != bs.length then continue
      let kind ← liftGen (pick [ReaderKind.seek, .bufio, .plain])
      let auto ← liftGen randBool
      let kind := if auto && kind == .plain then ReaderKind.seek else kind
      let once ← liftGen randBool
      let api ← liftGen (chance 1 3)
      let chunk ← liftGen (pick [[], [50], [1], [300]])
      emit "C18" (readerFaultCase bs off kind auto once api chunk "reader-fault")
    -- the detection window of a peeked (bufio) reader, deterministically: a fault with some bytes already buffered must
    -- not be taken for a short stream
    for off in [1, 2, 50, 100, 187, 188, 189, 192] do
      for once in [true, false] do
        for api in [false, true] do
          emit "C18" (readerFaultCase bs off .bufio true once api [] "reader-fault-in-peeked-detection-window")
          emit "C18" (readerFaultCase bs off .bufio true once api [64] "reader-fault-in-peeked-detection-window")
    -- auto-detection on readers that can be neither rewound nor peeked: faults inside the detection window and inside the
    -- re-synchronisation read that follows it (offsets 0..380): the first call returns an error wrapping the cause
    for off in [0, 1, 100, 192, 193, 194, 250, 300, 375, 376, 380] do
      for kind in [ReaderKind.plain, .bufioSmall] do
        let once ← liftGen randBool
        let cfg : DemuxCfg := { size := 0, kind := kind, fault := some (off, once), packetAPI := true, chunks := [70] }
        let posS := if kind == .bufioSmall then "-" else toString off
        if off < 376 then
          emit "C18" (demuxCase bs { cfg with view := .seq } (some [Call.next]) (some (s!"err:io@{posS}" ++ ";skip=[];parser=[];stable=true")) "reader-fault-unpeekable-auto")
        else
          emit "C18" (demuxCase bs { cfg with view := .seq } (some [Call.next, Call.next]) none "reader-fault-unpeekable-auto")

/-! ### C19 -/
def runC19 (t : Tier) : Emit Unit := do
  -- packets whose adaptation field cannot be parsed (private data / extension lengths running past the packet): the
  -- packet is an error for the caller whatever the skipper would say about it — it is never consulted on half a packet
  for (afb : Bytes) in ([[183, 0x02, 255], [183, 0x03, 170, 1], [10, 0x01, 200, 0xe0], [183, 0x1a, 0, 0, 0, 0, 0, 0, 0, 0, 0, 0, 0, 0, 190]] : List Bytes) do
    let m ← liftGen (smallStream 1 true)
    let ps := m.packets
    let pid := (ps.headD default).header.pid
    let bad : Bytes := [0x47, pid / 256 % 32, pid % 256, 0x20] ++ afb ++ List.replicate (184 - afb.length) 0xff
    let bs := bytesOf (ps.take 2) ++ bad ++ bytesOf (ps.drop 2)
    for sk in [SkipSpec.pids [pid], .af, .script (List.replicate (ps.length + 1) true), .none] do
      emit "C19" (demuxCase bs { view := .seq, packetAPI := true, skipper := sk } none none "skipper-and-unparseable-adaptation-field")
      emit "C19" (demuxCase bs { view := .seq, skipper := sk } none none "skipper-and-unparseable-adaptation-field")
  for i in [0:(if t.quick then 8 else 40)] do
    let m ← liftGen (smallStream i (i % 2 = 0))
    let ps := m.packets
    let bs := bytesOf ps
    let n := ps.length
    let script ← liftGen (genList n (chance 1 3))
    let pids := (ps.map (·.header.pid)).eraseDups
    let somePids ← liftGen (do let k ← randRange 1 pids.length; pure (pids.take k))
    let cc ← liftGen (randBelow 16)
    let specs : List (SkipSpec × String) :=
      [(.pids somePids, "skip-pids"), (.cc cc, "skip-cc"), (.pusi, "skip-pusi"), (.af, "skip-af"), (.afContent, "skip-af-content"), (.script script, "skip-script"),
       (.script (List.replicate n true), "skip-all"), (.script [], "skip-none")]
    for (sk, tag) in specs do
      -- the filtered stream, demuxed without a skipper, is the reference
      let decide : Packet → Nat → Bool := fun p idx => match sk with
        | .pids l => l.contains p.header.pid | .cc v => p.header.continuityCounter == v | .pusi => p.header.payloadUnitStartIndicator
        | .af => p.header.hasAdaptationField | .afContent => afContentPred p | .script ds => ds.getD idx false | .none => false
      let kept := (ps.zipIdx.filter fun (p, idx) => !decide p idx).map (·.1)
      let ref := demuxCase (bytesOf kept) { view := .perpid } none none "ref"
      emit "C19" (demuxCase bs { view := .perpid, skipper := sk } none (some ref.model) tag)
      -- the same with the packet size auto-detected (seekable and peekable readers): the skipper still applies
      if i < 4 then
        let refA := demuxCase (bytesOf kept) { view := .perpid, size := 0 } none none "ref"
        emit "C19" (demuxCase bs { view := .perpid, skipper := sk, size := 0 } none none (tag ++ "-auto-size"))
        emit "C19" (demuxCase bs { view := .perpid, skipper := sk, size := 0, kind := .bufio } none none (tag ++ "-auto-size"))
        let _ := refA
      -- packets API: exactly the kept packets, in order
      let refP := demuxCase (bytesOf kept) { view := .outcomes, packetAPI := true } none none "ref"
      emit "C19" (demuxCase bs { view := .outcomes, packetAPI := true, skipper := sk } none (some refP.model) (tag ++ "-packets"))
      -- the predicate is consulted once per packet, in stream order, with header and adaptation field parsed
      if i < 3 then
        let c := demuxCase bs { view := .seq, packetAPI := true, skipper := sk } none none (tag ++ "-log")
        emit "C19" c
    -- the same on a stream that also carries adaptation-field-only, null and transport-error packets
    let mut out : List Packet := []
    let mut lastCC : List (Nat × Nat) := []
    for p in ps do
      let k ← liftGen (randBelow 5)
      if k = 0 then
        match lastCC.find? (·.1 == p.header.pid) with
        | some (_, cc) => out := out ++ [afOnlyPacket p.header.pid cc]
        | none => out := out ++ [afOnlyPacket p.header.pid 7]
      else if k = 1 then
        let junk ← liftGen (randBytes 184)
        out := out ++ [teiPacket p.header.pid junk]
      else if k = 2 then out := out ++ [nullPacket 3]
      out := out ++ [p]
      lastCC := (lastCC.filter (·.1 != p.header.pid)) ++ [(p.header.pid, p.header.continuityCounter)]
    let script2 ← liftGen (genList out.length (chance 1 3))
    for (sk, tag) in [(SkipSpec.af, "mixed-skip-af"), (.script script2, "mixed-skip-script"), (.script (List.replicate out.length true), "mixed-skip-all"), (.pids somePids, "mixed-skip-pids")] do
      let decide2 : Packet → Nat → Bool := fun p idx => match sk with
        | .pids l => l.contains p.header.pid | .af => p.header.hasAdaptationField | .script ds => ds.getD idx false | _ => false
      let kept := (out.zipIdx.filter fun (p, idx) => !decide2 p idx).map (·.1)
      let refP := demuxCase (bytesOf kept) { view := .outcomes, packetAPI := true } none none "ref"
      emit "C19" (demuxCase (bytesOf out) { view := .outcomes, packetAPI := true, skipper := sk } none (some refP.model) (tag ++ "-packets"))
      let refD := demuxCase (bytesOf kept) { view := .perpid } none none "ref"
      emit "C19" (demuxCase (bytesOf out) { view := .perpid, skipper := sk } none (some refD.model) tag)
      emit "C19" (demuxCase (bytesOf out) { view := .seq, packetAPI := true, skipper := sk } none none (tag ++ "-log"))
    -- parsers: observer leaves the output unchanged; replacer substitutes exactly its data, once per unit
    let m2 ← liftGen (smallStream i false)
    let bs2 := m2.bytes
    emit "C19" (demuxCase bs2 { view := .perpid, parser := .observer } none (some (expectedStr m2)) "parser-observer")
    let repl := showPerPID ((perPID m2.units).map (fun (pid, _, _) =>
        (pid, (m2.units.filter (·.pid == pid)).map fun u => replacerData (packetsOf u 0))) |>.toArray.qsort (fun a b => a.1 < b.1) |>.toList) 0 "eof"
    emit "C19" (demuxCase bs2 { view := .perpid, parser := .replacer } none (some repl) "parser-replacer")
    -- a stream joined in the middle of a unit (its first 1..3 packets missing): the headless group is handed to the parser
    -- like every other group (log), whatever the parser kind
    for cut in [1, 2, 3] do
      let joined := bytesOf (m2.packets.drop cut)
      emit "C19" (demuxCase joined { view := .seq, parser := .observer } none none "parser-stream-joined-mid-unit")
      emit "C19" (demuxCase joined { view := .seq, parser := .replacer } none none "parser-stream-joined-mid-unit")
    -- a parser that takes every unit over and returns nothing: nothing is delivered (and nothing is parsed by default)
    emit "C19" (demuxCase bs2 { view := .perpid, parser := .dropper } none (some (showPerPID [] 0 "eof")) "parser-dropper")
    emit "C19" (demuxCase bs2 { view := .seq, parser := .dropper } none none "parser-dropper-log")
    emit "C19" (demuxCase bs2 { view := .seq, parser := .observer } none none "parser-observer-log")
    -- null packets (PID 0x1fff, with payload) form a unit like any other: the custom parser is handed it at the end of the stream
    let nulls := [nullPacket 0, nullPacket 1, nullPacket 2]
    let withNulls := (m2.packets.take 1) ++ nulls.take 1 ++ (m2.packets.drop 1) ++ nulls.drop 1
    let perRepl : List (Nat × List DemuxerData) := (perPID m2.units).map (fun (pid, _, _) =>
        (pid, (m2.units.filter (fun u => u.pid == pid)).map fun u => replacerData (packetsOf u 0)))
    let allRepl : List (Nat × List DemuxerData) := perRepl ++ [(0x1fff, [replacerData nulls])]
    let replN := showPerPID ((allRepl.toArray.qsort (fun a b => a.1 < b.1)).toList) 0 "eof"
    emit "C19" (demuxCase (bytesOf withNulls) { view := .perpid, parser := .replacer } none (some replN) "parser-replacer-null-packets")
    emit "C19" (demuxCase bs2 { view := .seq, parser := .failing } none none "parser-failing")
    -- a parser that fails (skip = false): every unit handed over before the end of the stream yields the parser's error, never default data
    -- (units flushed by the end-of-stream drain are logged, not returned: every PID's last unit)
    let nUnits := ((perPID m2.units).map fun (pid, _, _) => (m2.units.filter (·.pid == pid)).length - 1).sum
    let calls := List.replicate (nUnits + 2) Call.next
    emit "C19" (demuxCase bs2 { view := .outcomes, parser := .failing } (some calls)
      (some (",".intercalate (List.replicate nUnits "parser" ++ ["eof", "eof"]))) "parser-failing-outcomes")

/-! ### C20 -/
def runC20 (t : Tier) : Emit Unit := do
  for i in [0:(if t.quick then 5 else 25)] do
    let m ← liftGen (smallStream i)
    let bs := m.bytes
    for auto in [false, true] do
      for api in [false, true] do
        let cfg : DemuxCfg := { size := if auto then 0 else 188, packetAPI := api }
        let total := callsToEOF (mkDemux bs cfg) api (bs.length / 188 + 8) 0
        let (fresh, _) := runCalls (mkDemux bs cfg) api (List.replicate (total + 1) Call.next)
        let freshS := fresh.map (·.show .seek)
        for k in [0:total + 2] do
          if t.quick && api && k % 3 != 0 then continue
          let calls := List.replicate k Call.next ++ [Call.rewind] ++ List.replicate (total + 1) Call.next
          let spec := "|".intercalate (freshS.take k ++ (List.replicate (k - freshS.length) "err:eof@" |>.map (· ++ toString bs.length))
            ++ ["rewind:0@0"] ++ freshS) ++ ";skip=[];parser=[];stable=true"
          emit "C20" (demuxCase bs { cfg with view := .seq } (some calls) (some spec) (if auto then "rewind-auto" else "rewind-explicit"))
        -- repeated rewinds
        let calls := List.replicate 3 Call.next ++ [Call.rewind] ++ List.replicate 2 Call.next ++ [Call.rewind, Call.rewind] ++ List.replicate (total + 1) Call.next
        emit "C20" (demuxCase bs { cfg with view := .seq } (some calls)
          (some ("|".intercalate (freshS.take 3 ++ ["rewind:0@0"] ++ freshS.take 2 ++ ["rewind:0@0", "rewind:0@0"] ++ freshS) ++ ";skip=[];parser=[];stable=true")) "rewind-repeated")

/-- explicit packet sizes that auto-detection could not find again (204-byte frames; a stream of one packet): Rewind keeps
the configured size -/
def runC20sizes (t : Tier) : Emit Unit := do
  for i in [0:(if t.quick then 2 else 8)] do
    let m ← liftGen (smallStream i)
    let big := expandStream m.packets 16 0xab
    let one := (m.bytes.take 188)
    -- (and the same inputs with auto-detection, which fails on them call after call: Rewind still goes back to offset 0)
    -- a 188-byte stream whose second packet has lost its sync byte: the first detection fails, a later one succeeds;
    -- after Rewind the detection has to be made again, from offset 0
    -- (every packet also carries 0x47 at its offset 5, which is where the second attempt starts: 193 = 188 + 5)
    let noSync2 : Bytes := (((List.range 6).map fun (k : Nat) => ([0x47, 0x01, 0x00, 0x10 + k] : Bytes) ++ ((List.replicate 184 (k + 1)).set 1 0x47)).flatten).set 188 0
    for (bs, size, tag) in [(big, 204, "rewind-explicit-204"), (one, 188, "rewind-explicit-single-packet"),
                            (big, 0, "rewind-auto-detection-failing-204"), (one, 0, "rewind-auto-detection-failing-single-packet"),
                            (noSync2, 0, "rewind-auto-detection-failing-once")] do
      for api in [false, true] do
        let cfg : DemuxCfg := { size := size, packetAPI := api }
        let total := callsToEOF (mkDemux bs cfg) api (bs.length / 188 + 8) 0
        let (fresh, _) := runCalls (mkDemux bs cfg) api (List.replicate (total + 1) Call.next)
        let freshS := fresh.map (·.show .seek)
        for k in [0:total + 2] do
          if t.quick && k % 4 != 0 && k != total then continue
          let calls := List.replicate k Call.next ++ [Call.rewind] ++ List.replicate (total + 1) Call.next
          let spec := "|".intercalate (freshS.take k ++ (List.replicate (k - freshS.length) "err:eof@" |>.map (· ++ toString bs.length))
            ++ ["rewind:0@0"] ++ freshS) ++ ";skip=[];parser=[];stable=true"
          emit "C20" (demuxCase bs { cfg with view := .seq } (some calls) (some spec) tag)

/-- a long unit on the higher PID interleaved packet by packet with single-packet units on the lower PID: after k
NextData calls the higher PID holds k-1 pending packets (more than 16: the continuity counter wraps) -/
def interleavedLong (n : Nat) : Gen StreamModel := do
  let big ← genPESUnit 0x101 100
  let payload ← randBytes (184 * n - 40)
  let h : PESHeader := { streamID := 0xe0, optionalHeader := some { markerBits := 2, ptsDTSIndicator := 2, pts := some { base := 5000, extension := 0 }, headerLength := 5 } }
  let bytes := pesEncode h 0 payload
  let chunks ← genRestChunks bytes.length
  let bigU : TSUnit := { big with payload := bytes, chunks := List.replicate (bytes.length / 184) 184 ++ (if bytes.length % 184 = 0 then [] else [bytes.length % 184]),
                                   firstAF := none, data := [{ pes := some { data := payload, header := h } }] }
  let _ := chunks
  let mut units : List TSUnit := [bigU]
  for _ in [0:n + 2] do
    let u ← genPESUnit 0x100 60
    -- force single-packet units
    units := units ++ [{ u with chunks := [u.payload.length], firstAF := none }]
  let tail ← genPESUnit 0x101 100
  units := units ++ [tail]
  let sched := ((List.range (n + 4)).map fun _ => [0x100, 0x101]).flatten
  return { units := units.filter (fun u => u.payload.length ≤ 184 || u.pid == 0x101), schedule := sched }

def runC20long (t : Tier) : Emit Unit := do
  for n in (if t.quick then [20] else [20, 35]) do
    let m ← liftGen (interleavedLong n)
    let bs := m.bytes
    for api in [false, true] do
      let cfg : DemuxCfg := { size := 188, packetAPI := api }
      let total := callsToEOF (mkDemux bs cfg) api (bs.length / 188 + 8) 0
      let (fresh, _) := runCalls (mkDemux bs cfg) api (List.replicate (total + 1) Call.next)
      let freshS := fresh.map (·.show .seek)
      for k in [0:total + 1] do
        if api && k % 4 != 0 then continue
        let calls := List.replicate k Call.next ++ [Call.rewind] ++ List.replicate (total + 1) Call.next
        let spec := "|".intercalate (freshS.take k ++ ["rewind:0@0"] ++ freshS) ++ ";skip=[];parser=[];stable=true"
        emit "C20" (demuxCase bs { cfg with view := .seq } (some calls) (some spec) "rewind-long-units")

/-! ### C07 -/
def runC07 (t : Tier) : Emit Unit := do
  for i in [0:(if t.quick then 8 else 40)] do
    let m ← liftGen (smallStream i)
    let exp := expectedStr m
    let per := perPID m.units
    -- several order-preserving merges of the same per-PID sequences (PAT first)
    for _ in [0:(if t.quick then 4 else 12)] do
      let patN := (per.find? (·.1 == 0)).map (fun e => e.2.1.length) |>.getD 0
      let rest := (per.filter (·.1 != 0)).map fun (pid, ps, _) => List.replicate ps.length pid
      let sh ← liftGen (shuffle rest.flatten)
      let m' := { m with schedule := List.replicate patN 0 ++ sh }
      emit "C07" (demuxCase m'.bytes { view := .perpid } none (some exp) "merge")
    -- repeated PATs anywhere in the multiplex (also between the packets of a PMT unit): a PMT PID depends on a PAT
    -- having been delivered earlier, not on where later PATs fall
    let mr ← liftGen (genStream { pesPIDs := [0x100], pmtPIDs := if i % 2 = 0 then [0x1000] else [0x1000, 0x1001, 0x1002], dvb := false,
                                  unitsPerPID := 2, maxPayload := 300, multiPMT := 3, patRepeats := 2, splitPAT := i % 2 = 1 })
    let expR := expectedStr mr
    let perR := perPID mr.units
    let firstPat := (mr.units.find? (·.pid == 0)).map (·.chunks.length) |>.getD 0
    for _ in [0:(if t.quick then 4 else 12)] do
      let all := (perR.map fun (pid, ps, _) => List.replicate ps.length pid).flatten
      -- remove the first PAT unit's entries from the shuffled part
      let restPat := List.replicate ((all.filter (· == 0)).length - firstPat) 0
      let sh ← liftGen (shuffle (all.filter (· != 0) ++ restPat))
      let m' := { mr with schedule := List.replicate firstPat 0 ++ sh }
      emit "C07" (demuxCase m'.bytes { view := .perpid } none (some expR) "merge-repeated-pat")
    -- a stray continuation packet of the PMT PID in front of the PAT (a capture that starts mid-cycle): the PMTs that follow
    -- the PAT are delivered all the same, by the calls that read their final packets
    if i % 2 = 0 then
      let junk ← liftGen (randBytes 184)
      let stray : Packet := { (nullPacket 9) with payload := junk, header := { (nullPacket 9).header with pid := 0x1000 } }
      emit "C07" (demuxCase (bytesOf (stray :: m.packets)) { view := .perpid, noErr := true } none (some (showPerPID m.expected 0 "eof" true)) "stray-pmt-packet-before-pat")
    -- the same with a continuity-counter jump between the two PMT units that follow the PAT: the first one was returned when
    -- it completed, so the jump costs nothing
    if i % 2 = 0 then
      let mg ← liftGen (genStream { pesPIDs := [0x100], pmtPIDs := [0x1000], dvb := false, unitsPerPID := 2 })
      let strayU : Spec.TSUnit := { pid := 0x1000, payload := [0] ++ List.replicate 20 0xff, data := [], psi := true, chunks := [21], sectionsEnd := 1 }
      let m2 : StreamModel := { units := strayU :: mg.units, schedule := 0x1000 :: mg.schedule }
      let pmtUnits := mg.units.filter (·.pid == 0x1000)
      let nA := (pmtUnits.headD default).chunks.length
      let dA := (pmtUnits.headD default).data.length
      let bump (p : Packet) : Packet := { p with header := { p.header with continuityCounter := (p.header.continuityCounter + 5) % 16 } }
      let pk := (m2.packets.foldl (fun (acc : List Packet × Nat) p =>
        if p.header.pid == 0x1000 then (acc.1 ++ [if acc.2 ≥ 1 + nA then bump p else p], acc.2 + 1) else (acc.1 ++ [p], acc.2)) ([], 0)).1
      let exp2 := m2.expected.map fun (pid, ds) =>
        if pid == 0x1000 then (pid, ds.zipIdx.map fun (d, j) => if j ≥ dA then { d with firstPacket := d.firstPacket.map bump } else d) else (pid, ds)
      emit "C07" (demuxCase (bytesOf pk) { view := .perpid, noErr := true } none (some (showPerPID exp2 0 "eof" true)) "pmt-pid-before-pat-with-counter-jump")
    -- a CRC-broken unit on an SI PID makes NextData return an error while units are in progress on other PIDs: they are
    -- delivered all the same (the caller goes on calling)
    if i % 2 = 0 then
      let (s1, b1) ← liftGen (genSectionOfKind 2 false)
      let _ := s1
      let broken := (Spec.unitEncode 0 [b1] 0).set 12 (((Spec.unitEncode 0 [b1] 0).getD 12 0) ^^^ 0x10)
      let bu : Spec.TSUnit := { pid := 0x11, payload := broken, data := [], psi := true, chunks := [broken.length] }
      let bu2 : Spec.TSUnit := bu
      let p1 ← liftGen (genPESUnit 0x100 1500)
      let p2 ← liftGen (genPESUnit 0x100 200)
      let q1 ← liftGen (genPESUnit 0x101 1500)
      let q2 ← liftGen (genPESUnit 0x101 200)
      let units := [p1, p2, q1, q2, bu, bu2]
      let perB := perPID units
      let sched ← liftGen (shuffle ((perB.map fun (pid, pk, _) => List.replicate pk.length pid).flatten))
      let mb : StreamModel := { units := units, schedule := sched }
      emit "C07" (demuxCase mb.bytes { view := .perpid, exclude := [0x11], noErr := true } none
        (some (showPerPID (mb.expected.filter (·.1 != 0x11)) 0 "eof" true)) "crc-broken-si-unit-among-pes")
    -- insert null / adaptation-only / transport-error packets at random points
    let ps := m.packets
    for _ in [0:(if t.quick then 6 else 20)] do
      let mut out : List Packet := []
      let mut lastCC : List (Nat × Nat) := []
      let mut nullCC := 0
      for p in ps do
        let k ← liftGen (randBelow 6)
        if k = 0 then
          out := out ++ [nullPacket nullCC]; nullCC := (nullCC + 1) % 16
        else if k = 1 then
          match lastCC.find? (·.1 == p.header.pid) with
          | some (_, cc) =>
            let v ← liftGen (randBelow 3)
            let base ← liftGen (randField 33)
            out := out ++ [if v = 0 then afOnlyPacket p.header.pid cc else afOnlyPCRPacket p.header.pid cc (v = 2) base]
          | none => pure ()
        else if k = 2 then
          let junk ← liftGen (randBytes 184)
          out := out ++ [teiPacket p.header.pid junk]
        out := out ++ [p]
        lastCC := (lastCC.filter (·.1 != p.header.pid)) ++ [(p.header.pid, p.header.continuityCounter)]
      emit "C07" (demuxCase (bytesOf out) { view := .perpid } none (some exp) "insert-null-af-tei")
    -- corruption confined to one PID never changes what is delivered on the others
    let pids := (ps.map (·.header.pid)).eraseDups.filter (· != 0)
    for victim in pids do
      let mut out : List Packet := []
      for p in ps do
        if p.header.pid == victim then
          let junk ← liftGen (randBytes p.payload.length)
          let flip ← liftGen (randBelow 3)
          let cc' := if flip = 0 then (p.header.continuityCounter + 5) % 16 else p.header.continuityCounter
          let pusi' := if flip = 1 then !p.header.payloadUnitStartIndicator else p.header.payloadUnitStartIndicator
          let h' : PacketHeader := { p.header with continuityCounter := cc', payloadUnitStartIndicator := pusi' }
          out := out ++ [{ p with payload := junk, header := h' }]
        else out := out ++ [p]
      let others := showPerPID (m.expected.filter (·.1 != victim)) 0 "eof" true
      emit "C07" (demuxCase (bytesOf out) { view := .perpid, exclude := [victim], noErr := true } none (some others) "corrupt-one-pid")
    -- a PID whose LAST unit cannot be parsed (PES start code, PTS announced, header cut short) is still pending at the end of
    -- the stream together with complete units of other PIDs, lower and higher: the end-of-stream drain delivers those
    for victim in [0x0ff, 0x100, 0x180] do
      let bad : Bytes := [0, 0, 1, 0xe0, 0, 0, 0x80, 0x80, 5, 0x21]
      let u : Spec.TSUnit := { pid := victim, payload := bad, data := [], psi := false, chunks := [bad.length] }
      let o1 ← liftGen (genPESUnit 0x0fe 300)
      let o2 ← liftGen (genPESUnit 0x101 300)
      let o3 ← liftGen (genPESUnit 0x1f0 300)
      let units := [o1, o2, o3, u]
      let perU := perPID units
      let sched ← liftGen (shuffle ((perU.map fun (pid, pk, _) => List.replicate pk.length pid).flatten))
      let mv : StreamModel := { units := units, schedule := sched }
      let others := showPerPID (mv.expected.filter (·.1 != victim)) 0 "eof" true
      emit "C07" (demuxCase mv.bytes { view := .perpid, exclude := [victim], noErr := true } none (some others) "unparseable-last-unit")

/-! ### C16 (aliasing part) -/
def runC16 (t : Tier) : Emit Unit := do
  for i in [0:(if t.quick then 10 else 60)] do
    let m ← liftGen (smallStream i)
    -- null packets (their payload is returned by NextPacket too) and adaptation-only packets in between
    let mut out : List Packet := []
    let mut ncc := 0
    for p in m.packets do
      if (← liftGen (chance 1 4)) then
        let junk ← liftGen (randBytes 184)
        out := out ++ [{ nullPacket ncc with payload := junk }]
        ncc := (ncc + 1) % 16
      out := out ++ [p]
    let bs := if i % 2 = 0 then bytesOf out else m.bytes
    for api in [false, true] do
      let cfg : DemuxCfg := { packetAPI := api, size := if i % 2 = 0 then 188 else 0, kind := if i % 3 = 0 then .bufio else .seek }
      let total := callsToEOF (mkDemux bs cfg) api (bs.length / 188 + 8) 0
      -- after every call, poison the demuxer's read buffer and the pooled payload buffers; at the end everything
      -- returned so far is rendered again and must be unchanged
      let calls := ((List.range (total + 1)).map fun _ => [Call.next, Call.poison]).flatten
      emit "C16" (demuxCase bs { cfg with view := .seq } (some calls) none "poison-after-every-call" "" "stable")
      -- with a custom parser that keeps the packets it is handed: they are not touched afterwards either
      if !api then
        emit "C16" (demuxCase bs { cfg with view := .seq, parser := .observer } (some calls) none "parser-keeps-its-packets" "" "stable")
  -- independent demuxers in different goroutines: each over its own stream (large units, so that the pooled payload
  -- buffers are in use for a while), all running together for several rounds; every result = the result alone = the model's
  for i in [0:(if t.quick then 2 else 10)] do
    let mut subs : List String := []
    for j in [0:8] do
      let m ← liftGen (genStream { pesPIDs := [0x100 + j], pmtPIDs := if j % 2 = 0 then [0x1000] else [], dvb := j % 4 = 0,
                                   unitsPerPID := 3, maxPayload := 6000 })
      let c := demuxCase m.bytes { view := .perpid, packetAPI := false, size := if (i + j) % 2 = 0 then 188 else 0 } none none "sub"
      subs := subs ++ [c.line "C16" 0]
    emit "C16" { op := "concurrent", args := [("cases", jarr subs), ("rounds", jnat (if t.quick then 30 else 100))],
                 model := "consistent", spec := some "consistent", tag := "concurrent-demuxers" }

end Astits.DriverDemux
