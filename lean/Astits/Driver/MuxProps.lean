/-
The `mux` operation and the case generators of the muxer properties C01, C04, C05, C17, C18 (writer).
-/
import Astits.Driver.DemuxOp
import Astits.Spec.Mux
import Astits.Gen.PES
import Astits.Gen.PSI
import Astits.Gen.Stream
namespace Astits.DriverMux
open Spec

def PMTElementaryStream.json (e : PMTElementaryStream) : String := e.toJson

def opJson : MuxOp → String
  | .add es => jobj [("add", es.toJson)]
  | .remove pid => jobj [("remove", jnat pid)]
  | .setPCR pid => jobj [("pcr", jnat pid)]
  | .tables => jobj [("tables", "true")]
  | .data d => jobj [("data", d.toJson)]
  | .packet p => jobj [("packet", p.toJson)]

def errStr (e : Option Err) : String := match e with | none => "none" | some e => e.pub

def showCall (kind : String) (n : Int) (err : Option Err) (w : Bytes) : String :=
  s!"{kind}:n={n}:err={errStr err}:w={hex w}"

/-- model side of one operation -/
def modelStep (m : Mux) : MuxOp → String × Mux
  | .add es => let (r, m') := m.addElementaryStream es; ("add:" ++ (match r with | .ok _ => "ok" | .err e => "err:" ++ e.pub | .panic => "panic"), m')
  | .remove pid => let (r, m') := m.removeElementaryStream pid; ("remove:" ++ (match r with | .ok _ => "ok" | .err e => "err:" ++ e.pub | .panic => "panic"), m')
  | .setPCR pid => ("pcr", m.setPCRPID pid)
  | .tables => let (o, m') := m.writeTablesCall; (if o.panic then "panic" else showCall "tables" o.n o.err o.chunks.flatten, m')
  | .data d => let (o, m', _) := m.writeData d; (if o.panic then "panic" else showCall "data" o.n o.err o.chunks.flatten, m')
  | .packet p => let (o, m') := m.writePacketCall p; (if o.panic then "panic" else showCall "packet" o.n o.err o.chunks.flatten, m')

def specStep (s : MuxSpec) (op : MuxOp) : String × MuxSpec × List DemuxerData :=
  let (o, s') := step s op
  let str := match op with
    | .add _ => "add:" ++ (match o.err with | none => "ok" | some e => "err:" ++ e.pub)
    | .remove _ => "remove:" ++ (match o.err with | none => "ok" | some e => "err:" ++ e.pub)
    | .setPCR _ => "pcr"
    | .tables => showCall "tables" o.n o.err o.packets.flatten
    | .data _ => showCall "data" o.n o.err o.packets.flatten
    | .packet _ => showCall "packet" o.n o.err o.packets.flatten
  (str, s', o.delivered)

structure History where
  period : Nat
  ops : List MuxOp
  /-- the muxer is created without the retransmit-period option (the harness is sent period 0 and passes no option);
  `period` then has to be the library's default -/
  defaultPeriod : Bool := false

def History.periodArg (h : History) : Nat := if h.defaultPeriod then 0 else h.period

def runModel (h : History) : List String × Bytes :=
  let (outs, _, bytes) := h.ops.foldl (fun (acc : List String × Mux × Bytes) op =>
    let (s, m') := modelStep acc.2.1 op
    let w := match op with
      | .tables => (acc.2.1.writeTablesCall).1.chunks.flatten
      | .data d => (acc.2.1.writeData d).1.chunks.flatten
      | .packet p => (acc.2.1.writePacketCall p).1.chunks.flatten
      | _ => []
    (acc.1 ++ [s], m', acc.2.2 ++ w)) ([], newMux h.period, [])
  (outs, bytes)

def runSpec (h : History) : List String × Bytes × List DemuxerData :=
  let (outs, _, bytes, del) := h.ops.foldl (fun (acc : List String × MuxSpec × Bytes × List DemuxerData) op =>
    let (o, s') := step acc.2.1 op
    let (str, _, d) := specStep acc.2.1 op
    (acc.1 ++ [str], s', acc.2.2.1 ++ o.packets.flatten, acc.2.2.2 ++ d)) ([], newMuxSpec h.period, [], [])
  (outs, bytes, del)

/-- the sequence view: what every call returned and appended -/
def muxCase (h : History) (withSpec : Bool) (tag : String) (cls : String := "") : Case :=
  let (mo, _) := runModel h
  let (so, _, _) := runSpec h
  { op := "mux", args := [("period", jnat h.periodArg), ("ops", jarr (h.ops.map opJson)), ("view", jstr "seq")],
    model := "|".intercalate mo, spec := if withSpec then some ("|".intercalate so) else none, tag := tag, cls := cls }

/-- mux → demux: the real demuxer fed with the real muxer's bytes must deliver what was written -/
def muxDemuxCase (h : History) (tag : String) (cls : String := "") : Case :=
  let (_, mbytes) := runModel h
  let (_, _, del) := runSpec h
  let pids := ((del.map (·.pid)).eraseDups.toArray.qsort (· < ·)).toList
  let spec := showPerPID (pids.map fun pid => (pid, del.filter (·.pid == pid))) 0 "eof"
  -- model: the demuxer model on the muxer model's bytes
  let dc := demuxCase mbytes { view := .perpid } none none "x"
  { op := "mux", args := [("period", jnat h.periodArg), ("ops", jarr (h.ops.map opJson)), ("view", jstr "demux")],
    model := dc.model, spec := some spec, tag := tag, cls := cls }

/-! ### generators -/

def streamTypes : List Nat := [0x1b, 0x0f, 0x24, 0x03, 0x06, 0x81, 0x02, 0xd1, 0x15]

def genES (pid : Nat) (withDesc : Bool) : Gen PMTElementaryStream := do
  let st ← pick streamTypes
  let ds ← (if withDesc then genDescs 30 else pure [])
  return { elementaryPID := pid, elementaryStreamDescriptors := ds, streamType := st }

/-- first-packet adaptation field as a caller would pass it (StuffingLength 0, lengths consistent) -/
def genCallerAF (maxPriv : Nat) : Gen PacketAdaptationField := do
  let hasPCR ← randBool
  let pcr ← genClock 9
  let rai ← randBool
  let hasPriv ← chance 1 2
  let n ← (do let k ← randBelow 4; if k = 0 then pure maxPriv else randBelow (min 20 (maxPriv + 1)))
  let priv ← randBytes (if hasPriv then n else 0)
  let hasSplice ← chance 1 4
  let sc ← randField 8
  let espi ← randBool
  let di ← chance 1 6
  -- the redundant TransportPrivateDataLength sometimes contradicts the data (0, short, long): the data decide
  let stale ← chance 1 4
  let plen ← (if stale && hasPriv then pick [0, 1, priv.length + 1, 255] else pure priv.length : Gen Nat)
  return { discontinuityIndicator := di, pcr := if hasPCR then some pcr else none, hasPCR := hasPCR, randomAccessIndicator := rai, hasTransportPrivateData := hasPriv,
           transportPrivateData := priv, transportPrivateDataLength := plen, hasSplicingCountdown := hasSplice,
           spliceCountdown := if hasSplice then sc else 0, elementaryStreamPriorityIndicator := espi }

/-- payload lengths around the packing boundaries -/
def genPayloadLen (hdrLen afLen : Nat) : Gen Nat := do
  let first := 184 - hdrLen - afLen
  let k ← randBelow 10
  match k with
  | 0 => pure 1
  | 1 => pure (first - 1) | 2 => pure first | 3 => pure (first + 1)
  | 4 => do let j ← randRange 1 4; pure (first + 184 * j - 1)
  | 5 => do let j ← randRange 1 4; pure (first + 184 * j)
  | 6 => do let j ← randRange 1 4; pure (first + 184 * j + 1)
  | 7 => pure 2
  | _ => randRange 1 700

def genData (pid : Nat) (wantAF : Bool) (maxPriv : Nat := 100) (big : Bool := false) : Gen MuxerData := do
  let sid ← (do let k ← randBelow 4; if k = 0 then pure 0 else genStreamID)
  let oh ← genPESOptionalHeader true 0
  let af ← (if wantAF then do let a ← genCallerAF maxPriv; pure (some a) else pure none)
  let hdrLen := 6 + calcPESOptionalHeaderLength (some oh)
  let afLen := match af with | some a => 1 + (afSize a).toNat | none => 0
  -- big: around the 16-bit PES_packet_length limit (65535 - optional header .. 65536)
  let optL := calcPESOptionalHeaderLength (some oh)
  let n ← (if big then (do
      let k ← randBelow 8
      match k with
      | 0 => pure (65535 - optL - 1) | 1 => pure (65535 - optL) | 2 => pure (65535 - optL + 1) | 3 => pure 65535
      | 4 => pure 65536 | 5 => pure (65535 - optL - 184) | _ => randRange 65400 65700)
    else genPayloadLen hdrLen afLen)
  let payload ← randBytes (max n 1)
  -- the optional header is present iff the stream id carries one (stream id 0 = default from the stream type: always one)
  let hasOpt := sid = 0 || hasPESOptionalHeader sid
  return { pid := pid, adaptationField := af, pes := { data := payload, header := { optionalHeader := if hasOpt then some oh else none, streamID := sid } } }

/-- a well-formed history: streams on explicit or automatic PIDs, PCR PID set, then a mix of operations -/
def genHistory (len : Nat) (period : Nat) (onlyValid : Bool) : Gen History := do
  let mut ops : List MuxOp := []
  let mut pids : List Nat := []
  let mut auto := 0x100
  if (← chance 1 4) then
    -- an explicit stream on the PID automatic assignment will hand out later: written to, removed, then an automatic add
    -- receives that PID and continues its counter
    let d1 ← genData 0x100 false
    let d2 ← genData 0x100 false
    let d3 ← genData 0x100 false
    ops := ops ++ [.add { elementaryPID := 0x100, streamType := 0x1b }, .add { elementaryPID := 0x250, streamType := 0x0f }, .setPCR 0x250,
                   .data d1, .data d2, .remove 0x100, .add { elementaryPID := 0, streamType := 0x06 }, .data d3]
    pids := [0x250, 0x100]
    auto := 0x101
  else if (← chance 1 3) then
    -- two explicit streams exactly where automatic assignment starts, then an automatic one: it has to step over both
    ops := ops ++ [.add { elementaryPID := 0x100, streamType := 0x1b }, .add { elementaryPID := 0x101, streamType := 0x0f },
                   .add { elementaryPID := 0, streamType := 0x06 }]
    pids := [0x100, 0x101, 0x102]
    auto := 0x103
  let n0 ← randRange 1 3
  for _ in [0:n0] do
    let explicit ← randBool
    -- explicit PIDs also in the range automatic assignment starts from (0x100..0x103), so that it has to step over several
    let pid ← (if explicit then (do
      let c ← randBelow 4
      if c = 0 then randRange 0x100 0x103 else if c = 1 then pick [0x20, 0xfff, 0x1001, 0x1100, 0x1234, 0x1abc, 0x1ffe] else randRange 0x200 0x20f) else pure 0)
    if explicit && pids.contains pid then continue
    let es ← genES pid (← chance 1 3)
    ops := ops ++ [.add es]
    if explicit then pids := pids ++ [pid]
    else
      -- what the muxer will assign: the next PID from `auto` on that is not in use
      let mut a := auto
      for _ in [0:40] do
        if pids.contains a then a := a + 1
      pids := pids ++ [a]
      auto := a + 1
  ops := ops ++ [.setPCR (pids.headD 0x100)]
  let mut pcr := pids.headD 0x100
  for _ in [0:len] do
    let k ← randBelow 21
    if k < 12 then
      if pids.isEmpty then continue
      let pid ← pick pids
      let wantAF ← chance 1 2
      let d ← genData pid wantAF (if onlyValid then 100 else 176) (← chance 1 25)
      ops := ops ++ [.data d]
    else if k = 12 then
      if (← chance 1 2) || pids.isEmpty then ops := ops ++ [.tables]
      else
        -- the adaptation field and the PES header exactly fill the first packet (no payload byte in it), one byte less, one more
        let pid ← pick pids
        let d ← genData pid false
        let hdrLen := 6 + calcPESOptionalHeaderLength d.pes.header.optionalHeader
        let delta ← pick [0, 1, 2]
        let n := 181 - hdrLen - delta + 1
        let priv ← randBytes n
        let af : PacketAdaptationField := { hasTransportPrivateData := true, transportPrivateData := priv, transportPrivateDataLength := n }
        let payload ← randBytes (← randRange 1 400)
        ops := ops ++ [.data { d with adaptationField := some af, pes := { d.pes with data := payload } }]
    else if k = 13 then
      let pid ← (do let c ← randBelow 4; if c = 0 then pure 0 else if c = 1 then randRange 0x100 0x105 else randRange 0x200 0x20f)
      if pid != 0 && pids.contains pid then
        if !onlyValid then ops := ops ++ [.add { elementaryPID := pid, streamType := 0x1b }]
      else
        let es ← genES pid (← chance 1 4)
        ops := ops ++ [.add es]
        if pid = 0 then
          let mut a := auto
          for _ in [0:40] do
            if pids.contains a then a := a + 1
          pids := pids ++ [a]
          auto := a + 1
        else pids := pids ++ [pid]
    else if k = 14 then
      if pids.length > 1 then
        let pid ← pick pids
        if pid != pcr then
          if (← chance 1 2) then
            -- remove, (emit tables), add the same PID again, write: the PID's continuity counter must run on
            let withTables ← chance 2 3
            let es ← genES pid false
            let d ← genData pid false
            ops := ops ++ [MuxOp.remove pid] ++ (if withTables then [MuxOp.tables] else []) ++ [MuxOp.add es, MuxOp.data d]
          else
            ops := ops ++ [.remove pid]
            pids := pids.filter (· != pid)
      else if !onlyValid then ops := ops ++ [.remove 0x333]
    else if k = 15 then
      if !pids.isEmpty then
        let pid ← pick pids
        ops := ops ++ [.setPCR pid]
        pcr := pid
    else if k = 16 then
      if !onlyValid then
        let d ← genData 0x444 false
        ops := ops ++ [.data d]
    else if k = 17 then
      if !onlyValid then
        -- invalid PCR PID, a failing WriteTables, then repair
        if (← chance 1 2) || pids.isEmpty then ops := ops ++ [.setPCR 0x555, .tables, .setPCR pcr]
        else
          -- a WriteData whose due tables cannot be generated (invalid PCR PID; forced by the random access indicator when
          -- they are not due anyway), then the repair and another WriteData: the tables come before its PES
          let d1 ← genData (← pick pids) true 20
          let d2 ← genData (← pick pids) false
          let af1 := { (d1.adaptationField.getD {}) with randomAccessIndicator := true }
          ops := ops ++ [.setPCR 0x555, .data { d1 with pid := 0x555, adaptationField := some af1 }, .data d1, .setPCR pcr, .data d2]
    else if k = 18 then
      if !onlyValid then
        let p ← genPacket
        let extra ← randBytes 10
        let choice ← randBelow 3
        let p' : Packet := if choice = 0 then p else if choice = 1 then { p with payload := p.payload.take (p.payload.length / 2) } else { p with payload := p.payload ++ extra, header := { p.header with hasPayload := true } }
        ops := ops ++ [.packet p']
    else if k = 19 && !onlyValid then
      let c ← randBelow 3
      if c = 0 then
        -- a PMT too large for one packet: the emission is rejected, then the streams are removed again
        let n ← randRange 33 40
        let extra := (List.range n).map fun i => 0x400 + i
        ops := ops ++ extra.map (fun pid => MuxOp.add { elementaryPID := pid, streamType := 0x0f }) ++ [.tables]
        if !pids.isEmpty then
          let d ← genData (← pick pids) false
          ops := ops ++ [.data d]
        ops := ops ++ extra.map (fun pid => MuxOp.remove pid) ++ [.tables]
      else if c = 1 then
        -- adaptation fields whose size does not fit a uint8: huge stuffing, 254/255 bytes of private data
        let p ← genPacket
        let sl ← pick [100, 200, 254, 255, 256, 300, 511]
        let afBig : PacketAdaptationField := { stuffingLength := sl, length := 1 + sl }
        let pl := p.payload.take 10
        ops := ops ++ [.packet { p with adaptationField := some afBig, header := { p.header with hasAdaptationField := true }, payload := pl }]
      else
        if !pids.isEmpty then
          let pid ← pick pids
          let d ← genData pid false
          let n ← pick [254, 255]
          let priv ← randBytes n
          let af : PacketAdaptationField := { hasTransportPrivateData := true, transportPrivateData := priv, transportPrivateDataLength := n }
          ops := ops ++ [.data { d with adaptationField := some af }]
    else
      if !onlyValid && !pids.isEmpty && (← chance 1 3) then
        -- a PES header that can never fit one packet (180 bytes of extension 2 data): rejected before anything is
        -- written, also when tables are due (random access indicator on the PCR PID forces them)
        let d ← genData pcr true 20
        let ext2 ← randBytes 180
        let oh := d.pes.header.optionalHeader.getD {}
        let oh' := { oh with hasExtension := true, hasExtension2 := true, extension2Data := ext2, extension2Length := 180 }
        let af := { (d.adaptationField.getD {}) with randomAccessIndicator := true }
        let sid := if hasPESOptionalHeader d.pes.header.streamID then d.pes.header.streamID else 0xe0
        ops := ops ++ [.data { d with adaptationField := some af, pes := { d.pes with header := { d.pes.header with optionalHeader := some oh', streamID := sid } } }]
      else if !onlyValid && !pids.isEmpty then
        -- an adaptation field that leaves no room for the PES header / does not fit at all
        let pid ← pick pids
        let d ← genData pid true 176
        let n ← pick [165, 170, 176, 181, 200]
        let priv ← randBytes n
        let af : PacketAdaptationField := { (d.adaptationField.getD {}) with hasTransportPrivateData := true, transportPrivateData := priv, transportPrivateDataLength := n }
        ops := ops ++ [.data { d with adaptationField := some af }]
  return { period := period, ops := ops }

def genPeriod : Gen Nat := do
  let k ← randBelow 4
  match k with | 0 => pure 1 | 1 => pure 2 | 2 => randRange 3 10 | _ => randRange 11 50

def runHistories (prop : String) (t : Tier) (valid : Bool) (n len : Nat) (demuxToo : Bool) : Emit Unit := do
  for _ in [0:n] do
    let period ← liftGen genPeriod
    let h ← liftGen (genHistory len period valid)
    emit prop (muxCase h true (if valid then "history-valid" else "history-mixed"))
    if demuxToo then emit prop (muxDemuxCase h "mux-demux")

/-- automatic PIDs walk through the PID space (past the PMT PID 0x1000; thorough: up to the null PID and around): one stream
stays and is written to, thousands come and go, tables are emitted around the places where reserved PIDs must be stepped over -/
def runWalk (prop : String) (t : Tier) : Emit Unit := do
  let mut ops : List MuxOp := [.add { elementaryPID := 0, streamType := 0x1b }, .setPCR 0x100, .tables]
  let mut cur := 0x101
  for i in [0:(if t.quick then 3900 else 8100)] do
    -- the PID the muxer will assign: the next one from `cur` that is neither reserved nor 0x100
    let mut p := cur
    for _ in [0:300] do
      if p < 0x100 || p == 0x1000 || p ≥ 0x1fff || p == 0x100 then p := (p + 1) % 65536
    if p < 0x100 then p := 0x101
    ops := ops ++ [.add { elementaryPID := 0, streamType := 0x0f }]
    if i % 1000 = 999 || (p ≥ 0xffe && p ≤ 0x1002) || p ≥ 0x1ffc || p ≤ 0x103 then ops := ops ++ [.tables]
    ops := ops ++ [.remove p]
    cur := (p + 1) % 65536
  ops := ops ++ [.add { elementaryPID := 0, streamType := 0x0f }, .tables]
  let dw ← liftGen (genData 0x100 false)
  ops := ops ++ [.data dw, .data dw]
  emit prop (muxCase { period := 40, ops := ops } true "automatic-pids-walk-the-pid-space")

def runC04 (t : Tier) : Emit Unit := do
  runHistories "C04" t false (if t.quick then 25 else 250) 25 false
  runHistories "C04" t true (if t.quick then 10 else 100) 40 false
  -- PES headers of 181..187 bytes, around the largest that fits a packet (183): whole packets or nothing. Such
  -- headers need more extension-2 data than its 7-bit length can announce, so only the packet level is judged
  -- (against the model); with and without an adaptation field, tables due or not
  for target in [181, 182, 183, 184, 185, 186, 187] do
    for withAF in [false, true] do
      let d ← liftGen (genData 0x100 withAF 10)
      let oh := d.pes.header.optionalHeader.getD {}
      let base := 6 + calcPESOptionalHeaderLength (some { oh with hasExtension := true, hasExtension2 := true, extension2Data := [], extension2Length := 0 })
      let ext2 ← liftGen (randBytes (target - base))
      let oh' := { oh with hasExtension := true, hasExtension2 := true, extension2Data := ext2, extension2Length := ext2.length % 128 }
      let sid := if hasPESOptionalHeader d.pes.header.streamID then d.pes.header.streamID else 0xe0
      -- (at least 10 payload bytes: with a 1-byte payload behind a 184-byte header and an adaptation-field-only packet
      -- the model's loop fuel, payload length + 2, runs out one step early — an artefact of the model at a header size
      -- that cannot be encoded anyway, seen as a correspondence difference on seed 3 and documented in DESIGN Appendix C)
      let pad ← liftGen (randBytes 10)
      let big : MuxerData := { d with pes := { data := d.pes.data ++ pad, header := { d.pes.header with optionalHeader := some oh', streamID := sid } } }
      let d2 ← liftGen (genData 0x100 false)
      let ops : List MuxOp := [.add { elementaryPID := 0x100, streamType := 0x1b }, .setPCR 0x100, .data big, .data d2, .data big, .tables]
      emit "C04" (muxCase { period := 2, ops := ops } false "pes-header-around-the-largest-that-fits")

def runC05 (t : Tier) : Emit Unit := do
  -- long histories: more than 16 packets per PID, failing calls in between
  runHistories "C05" t false (if t.quick then 20 else 200) 60 false
  runWalk "C05" t

def runC17 (t : Tier) : Emit Unit := do
  -- many content changes (version wrap-around needs > 32 of them), every period
  for period in [1, 2, 3, 5, 7, 40, 50] do
    let h ← liftGen (genHistory 30 period false)
    emit "C17" (muxCase h true "history-mixed")
  for _ in [0:(if t.quick then 4 else 40)] do
    -- 40 add/remove cycles, each followed by an emission
    let mut ops : List MuxOp := [.add { elementaryPID := 0x100, streamType := 0x1b }, .setPCR 0x100]
    for i in [0:40] do
      let k ← liftGen (randBelow 3)
      if k = 0 then ops := ops ++ [.add { elementaryPID := 0, streamType := 0x0f }, .tables]
      else if k = 1 then
        -- explicit PIDs from both halves of the 13-bit PID space
        let pe := if i % 2 = 0 then 0x300 + i else 0x1f00 + i
        ops := ops ++ [.add { elementaryPID := pe, streamType := 0x0f }, .tables, .remove pe, .tables]
      else ops := ops ++ [.setPCR 0x100, .tables, .tables]
    emit "C17" (muxCase { period := 40, ops := ops } true "version-wrap")
  runHistories "C17" t true (if t.quick then 10 else 100) 50 false
  runWalk "C17" t
  -- a WriteData whose table emission fails (PCR PID not among the streams / PMT too large for a packet) writes nothing and
  -- leaves the tables due: the next WriteData that can emit them does, before its PES — at the start and when the period
  -- comes round
  for period in [1, 3, 40] do
    let mk (n : Nat) : Gen (List MuxOp) := genList n (do let d ← genData 0x100 false; pure (MuxOp.data { d with pes := { d.pes with data := d.pes.data.take 30 } }))
    let a ← liftGen (mk 1); let b ← liftGen (mk (period + 1)); let c ← liftGen (mk 2)
    let ops : List MuxOp := [.add { elementaryPID := 0x100, streamType := 0x1b }, .setPCR 0x555] ++ a ++ [.setPCR 0x100] ++ b
      ++ [.setPCR 0x555] ++ c ++ [.setPCR 0x100] ++ c
    emit "C17" (muxCase { period := period, ops := ops } true "tables-failing-inside-writedata-stay-due")
    let fat ← liftGen (genList 9 (do let body ← randBytes 20; pure ({ tag := 0x80, length := 20, userDefined := body } : Descriptor)))
    let ops2 : List MuxOp := [.add { elementaryPID := 0x100, streamType := 0x1b }, .setPCR 0x100, .add { elementaryPID := 0x101, elementaryStreamDescriptors := fat, streamType := 0x06 }]
      ++ a ++ [.remove 0x101] ++ b
    emit "C17" (muxCase { period := period, ops := ops2 } true "tables-failing-inside-writedata-stay-due")
  -- rejected calls between two emissions (duplicate add, remove of an unknown PID, add on the PMT PID / null PID) change
  -- nothing: the next PMT carries the same version
  let rej : List MuxOp := [.add { elementaryPID := 0x100, streamType := 0x1b }, .setPCR 0x100, .tables,
    .add { elementaryPID := 0x100, streamType := 0x0f }, .tables, .remove 0x321, .tables,
    .add { elementaryPID := 0x1000, streamType := 0x0f }, .tables, .add { elementaryPID := 0x1fff, streamType := 0x0f }, .tables,
    .add { elementaryPID := 0x101, streamType := 0x0f }, .tables, .remove 0x101, .remove 0x101, .tables]
  emit "C17" (muxCase { period := 40, ops := rej } true "rejected-calls-leave-the-version")
  -- a muxer created without the period option: the default period (40 WriteData calls) applies
  let mut dops : List MuxOp := [.add { elementaryPID := 0x100, streamType := 0x1b }, .setPCR 0x100]
  for _ in [0:85] do
    let d ← liftGen (genData 0x100 false)
    dops := dops ++ [.data { d with pes := { d.pes with data := d.pes.data.take 20 } }]
  emit "C17" (muxCase { period := 40, ops := dops, defaultPeriod := true } true "default-period")

/-! ### one MuxerData / adaptation field object reused across calls

The caller keeps one `*PacketAdaptationField` and passes it to several `WriteData` calls. The muxer writes stuffing
into that object while it packetises; whatever it leaves behind is what the next call receives. Specification side:
every call is an ordinary `.data` with the adaptation field the caller set up (no stuffing). Model side: the next call
receives the object as the model's `writeData` left it. -/

def runModelReuse (period : Nat) (pre : List MuxOp) (ds : List MuxerData) : List String × Bytes :=
  let (outs0, m0, b0) := pre.foldl (fun (acc : List String × Mux × Bytes) op =>
    let (s, m') := modelStep acc.2.1 op
    let w := match op with
      | .tables => (acc.2.1.writeTablesCall).1.chunks.flatten
      | _ => []
    (acc.1 ++ [s], m', acc.2.2 ++ w)) ([], newMux period, [])
  let (outs, _, bytes, _) := ds.foldl (fun (acc : List String × Mux × Bytes × Option (Option PacketAdaptationField)) d =>
    let d1 : MuxerData := match acc.2.2.2 with | some af => { d with adaptationField := af } | none => d
    let (o, m', d') := acc.2.1.writeData d1
    let s := if o.panic then "panic" else showCall "data" o.n o.err o.chunks.flatten
    (acc.1 ++ [s], m', acc.2.2.1 ++ o.chunks.flatten, some d'.adaptationField)) (outs0, m0, b0, none)
  (outs, bytes)

def reuseCases (period : Nat) (pre : List MuxOp) (ds : List MuxerData) (tag : String) : List Case :=
  let h : History := { period := period, ops := pre ++ ds.map .data }
  let (mo, mbytes) := runModelReuse period pre ds
  let (so, _, del) := runSpec h
  let opsJson := jarr (pre.map opJson ++ ds.zipIdx.map fun (d, i) =>
    jobj ([("data", d.toJson)] ++ (if i > 0 then [("reuse", "true")] else [])))
  let pids := ((del.map (·.pid)).eraseDups.toArray.qsort (· < ·)).toList
  let spec := showPerPID (pids.map fun pid => (pid, del.filter (·.pid == pid))) 0 "eof"
  let dc := demuxCase mbytes { view := .perpid } none none "x"
  [{ op := "mux", args := [("period", jnat period), ("ops", opsJson), ("view", jstr "seq")],
     model := "|".intercalate mo, spec := some ("|".intercalate so), tag := tag },
   { op := "mux", args := [("period", jnat period), ("ops", opsJson), ("view", jstr "demux")],
     model := dc.model, spec := some spec, tag := tag ++ "-demux" }]

/-- several units on one PID with the same adaptation field object; payload lengths chosen so that some first packets
need stuffing (short units) and some do not -/
def genReuse : Gen (Nat × List MuxOp × List MuxerData) := do
  let period ← randRange 1 50
  let st ← pick streamTypes
  let pre : List MuxOp := [.add { elementaryPID := 0x100, elementaryStreamDescriptors := [], streamType := st }, .setPCR 0x100]
  let af ← genCallerAF 60
  let n ← randRange 2 5
  let ds ← genList n (do
    let d ← genData 0x100 false
    let short ← chance 1 2
    let len ← (if short then randRange 1 120 else randRange 150 600)
    let payload ← randBytes len
    pure { d with adaptationField := some af, pes := { d.pes with data := payload } })
  return (period, pre, ds)

def runReuse (prop : String) (t : Tier) (n : Nat) : Emit Unit := do
  for _ in [0:n * t.scale] do
    let (period, pre, ds) ← liftGen genReuse
    for c in reuseCases period pre ds "af-object-reused" do
      emit prop c

/-- C16, muxer side: the caller's payload bytes are never modified; independent muxers and demuxers running in different
goroutines behave as they do alone -/
def runC16mux (t : Tier) : Emit Unit := do
  for _ in [0:(if t.quick then 6 else 40)] do
    let period ← liftGen genPeriod
    let h ← liftGen (genHistory 15 period true)
    emit "C16" { op := "mux", args := [("period", jnat h.period), ("ops", jarr (h.ops.map opJson)), ("view", jstr "payload")],
                 model := "payload-unchanged=true", spec := some "payload-unchanged=true", tag := "muxer-keeps-payload" }
    -- WritePacket with payloads shorter than, equal to and longer than the room in the packet; the caller's slices sit in
    -- larger buffers (the harness gives every payload 64 bytes of spare capacity and checks those too)
    let mut pops : List MuxOp := []
    for _ in [0:8] do
      let p ← liftGen genPacket
      let cut ← liftGen (randBelow 3)
      let extra ← liftGen (randBytes 10)
      let p' : Packet := if cut = 0 then p else if cut = 1 then { p with payload := p.payload.take (p.payload.length / 2) } else { p with payload := p.payload ++ extra }
      pops := pops ++ [.packet p']
    emit "C16" { op := "mux", args := [("period", jnat 40), ("ops", jarr (pops.map opJson)), ("view", jstr "payload")],
                 model := "payload-unchanged=true", spec := some "payload-unchanged=true", tag := "muxer-keeps-packet-payload" }
  -- private data shorter than its 16 bytes (the writer pads), extension 2 data, adaptation field private data: the
  -- caller's slices, and the spare capacity behind them, come back untouched
  for k in [0, 1, 5, 15, 16] do
    let d ← liftGen (genData 0x100 true 20)
    let oh := d.pes.header.optionalHeader.getD { markerBits := 2 }
    let pd ← liftGen (randBytes k)
    let e2 ← liftGen (randBytes 3)
    let oh' := { oh with hasExtension := true, hasPrivateData := true, privateData := pd, hasExtension2 := true, extension2Data := e2, extension2Length := 3 }
    let d' : MuxerData := { d with pes := { d.pes with header := { d.pes.header with optionalHeader := some oh', streamID := 0xe0 } } }
    let ops : List MuxOp := [.add { elementaryPID := 0x100, streamType := 0x1b }, .setPCR 0x100, .data d', .data d']
    emit "C16" { op := "mux", args := [("period", jnat 40), ("ops", jarr (ops.map opJson)), ("view", jstr "payload")],
                 model := "payload-unchanged=true", spec := some "payload-unchanged=true", tag := "muxer-keeps-the-caller's-other-slices" }
  for _ in [0:(if t.quick then 1 else 6)] do
    let mut subs : List String := []
    for j in [0:4] do
      let period ← liftGen genPeriod
      let h ← liftGen (genHistory 12 period true)
      subs := subs ++ [(muxCase h false "sub").line "C16" 0, (muxDemuxCase h "sub").line "C16" 0]
      let m ← liftGen (genStream { pesPIDs := [0x100 + j], pmtPIDs := [0x1000], dvb := true, unitsPerPID := 2, maxPayload := 3000 })
      subs := subs ++ [(demuxCase m.bytes { view := .perpid } none none "sub").line "C16" 0]
    emit "C16" { op := "concurrent", args := [("cases", jarr subs), ("rounds", jnat (if t.quick then 20 else 60))],
                 model := "consistent", spec := some "consistent", tag := "concurrent-muxers-and-demuxers" }

def runC01 (t : Tier) : Emit Unit := do
  runReuse "C01" t 8
  -- elementary PIDs at every single-bit distance from the PMT PID 0x1000 (and from 0x100, where automatic assignment
  -- starts): whatever the program map uses to remember the PMT PID, a neighbour is not a table PID
  for base in [0x1000, 0x100] do
    let nbrs := ((List.range 13).map fun k => base ^^^ (2 ^ k)).filter fun p => p != 0 && p != 0x1000 && p < 0x1fff && p ≥ 0x20
    let mut ops : List MuxOp := nbrs.map fun p => MuxOp.add { elementaryPID := p, streamType := 0x0f }
    ops := ops ++ [.setPCR (nbrs.headD 0x100)]
    for p in nbrs do
      let d ← liftGen (genData p false)
      ops := ops ++ [.data { d with pes := { d.pes with data := d.pes.data.take 40 } }]
    for p in nbrs do
      let d ← liftGen (genData p false)
      ops := ops ++ [.data { d with pes := { d.pes with data := d.pes.data.take 40 } }]
    emit "C01" (muxDemuxCase { period := 5, ops := ops } "pids-one-bit-from-the-pmt-pid")
  -- payload sizes around the 16-bit PES_packet_length limit, one unit per history (every run, whatever the seed)
  for rep in [0:(if t.quick then 1 else 4)] do
    for delta in [0, 1, 2, 65535] do
      let mut d0 ← liftGen (genData 0x100 false 100 false)
      for _ in [0:20] do
        if d0.pes.header.optionalHeader.isNone then d0 ← liftGen (genData 0x100 false 100 false)
      if d0.pes.header.optionalHeader.isNone then continue
      -- an audio stream id (PES_packet_length is meaningful) with its optional header
      let d : MuxerData := { d0 with pes := { d0.pes with header := { d0.pes.header with streamID := 0xc0 } } }
      let optL := calcPESOptionalHeaderLength d.pes.header.optionalHeader
      -- payload + optional header = 65535 (the largest announced length), 65536, 65537; payload alone = 65535
      let n := if delta = 65535 then 65535 else 65535 - optL + delta
      let payload ← liftGen (randBytes n)
      let _ := rep
      let h : History := { period := 40, ops := [.add { elementaryPID := 0x100, streamType := 0x0f }, .setPCR 0x100,
                                                 .data { d with pes := { d.pes with data := payload } }] }
      emit "C01" (muxDemuxCase h "mux-demux-16-bit-limit")
  for _ in [0:(if t.quick then 25 else 250)] do
    let period ← liftGen genPeriod
    let h ← liftGen (genHistory 25 period true)
    emit "C01" (muxDemuxCase h "mux-demux")

end Astits.DriverMux

namespace Astits.DriverMux
open Spec

/-- number of `Write` calls the muxer issues for one packet given as bytes: one per byte, except the
transport private data and the payload, which are written with one call each -/
def writeCallsOfPacket (bs : Bytes) : Nat :=
  match (parsePacket none).val bs with
  | .ok p =>
    let priv := match p.adaptationField with | some a => a.transportPrivateData.length | none => 0
    let pl := p.payload.length
    188 - priv - pl + (if priv > 0 then 1 else 0) + (if pl > 0 then 1 else 0)
  | _ => 188

def chunk188 : Nat → Bytes → List Bytes
  | 0, _ => []
  | fuel + 1, bs => if bs.isEmpty then [] else bs.take 188 :: chunk188 fuel (bs.drop 188)

/-- Write calls of one muxer call: 2 for a table pair (one Write per 188-byte table), per-byte for packets -/
def writeCallsOf (m : Mux) (op : MuxOp) : Nat :=
  match op with
  | .tables => (match m.writeTables with | (.ok cs, _) => cs.length | _ => 0)
  | .data d =>
    let (o, _, _) := m.writeData d
    let tabs := (o.chunks.filter fun c => c.length == 188 && (c.getD 1 0 % 32 * 256 + c.getD 2 0 == 0 || c.getD 1 0 % 32 * 256 + c.getD 2 0 == 0x1000)).length
    -- table chunks come first (if any): one Write each; the rest are PES packets
    let nt := if (m.retransmitTables ((d.adaptationField.map (·.randomAccessIndicator)).getD false && d.pid == m.pcrPID)).1.isOk
              then ((m.retransmitTables ((d.adaptationField.map (·.randomAccessIndicator)).getD false && d.pid == m.pcrPID)).1 |> fun r => match r with | .ok cs => cs.length | _ => 0) else 0
    let _ := tabs
    nt + ((o.chunks.drop nt).map writeCallsOfPacket).sum
  | .packet p => (match Astits.writePacket p 188 with | .ok bs => writeCallsOfPacket bs | _ => 0)
  | _ => 0

def faultCase (h : History) (k : Nat) (once : Bool) (expect : String) (tag : String) : Case :=
  { op := "mux", args := [("period", jnat h.period), ("ops", jarr (h.ops.map opJson)), ("view", jstr "fault"),
                          ("failAtLast", jnat k), ("once", jbool once)],
    model := expect, spec := some expect, tag := tag }

def runC18w (t : Tier) : Emit Unit := do
  for i in [0:(if t.quick then 6 else 40)] do
    let period ← liftGen genPeriod
    let h0 ← liftGen (genHistory 6 period true)
    -- the model state after the prefix
    let m := h0.ops.foldl (fun m op => (modelStep m op).2) (newMux period)
    let pids := m.streams.map (·.elementaryPID)
    if pids.isEmpty then continue
    let pid ← liftGen (pick pids)
    -- final operations: WriteTables, WriteData whose last packet needs 0 / 1 / 2 / many stuffing bytes, WritePacket
    let mut finals : List (MuxOp × String) := [(.tables, "tables")]
    for extra in [0, 1, 2, 40] do
      let d ← liftGen (genData pid (i % 2 = 0) 20)
      let hdr := 6 + calcPESOptionalHeaderLength d.pes.header.optionalHeader
      let afLen := match d.adaptationField with | some a => 1 + (afSize a).toNat | none => 0
      -- payload such that the last packet has `extra` free bytes
      let n := (184 - hdr - afLen) + 184 - extra
      let pl ← liftGen (randBytes n)
      finals := finals ++ [(.data { d with pes := { d.pes with data := pl } }, s!"data-stuff{extra}")]
    let p ← liftGen genPacket
    finals := finals ++ [(.packet p, "packet")]
    -- a packet without adaptation field whose payload is shorter than the packet: the rest is 0xff padding, byte by byte
    let shortLen ← liftGen (randRange 1 150)
    let shortPl ← liftGen (randBytes shortLen)
    let pShort : Packet := { adaptationField := none, payload := shortPl, header := { p.header with hasAdaptationField := false, hasPayload := true } }
    finals := finals ++ [(.packet pShort, "packet-padded")]
    -- a packet whose adaptation field has every optional part and the whole extension: every Write of it fails in turn
    let ext : PacketAdaptationExtensionField := { dtsNextAccessUnit := some { base := 0x123456789, extension := 0 }, hasLegalTimeWindow := true, hasPiecewiseRate := true, hasSeamlessSplice := true, legalTimeWindowIsValid := true, legalTimeWindowOffset := 0x1234, length := 11, piecewiseRate := 0x2abcde, spliceType := 5 }
    let fullAF : PacketAdaptationField := { adaptationExtensionField := some ext, opcr := some { base := 0x1fedcba98, extension := 0x155 }, pcr := some { base := 0x0abcdef12, extension := 0xaa }, transportPrivateData := [1, 2, 3, 4, 5], transportPrivateDataLength := 5, length := 36, stuffingLength := 3, spliceCountdown := 0x7f, hasAdaptationExtensionField := true, hasOPCR := true, hasPCR := true, hasTransportPrivateData := true, hasSplicingCountdown := true }
    let fullPl ← liftGen (randBytes (184 - 37))
    let pFull : Packet := { adaptationField := some fullAF, payload := fullPl, header := { p.header with hasAdaptationField := true, hasPayload := true } }
    finals := finals ++ [(.packet pFull, "packet-full-af")]
    for (fop, name) in finals do
      let w := if name = "packet-padded" then 4 + 1 + (184 - shortLen) else writeCallsOf m fop
      let h : History := { period := period, ops := h0.ops ++ [fop] }
      let kind := match fop with | .tables => "tables" | .data _ => "data" | _ => "packet"
      let stride := if t.quick then 23 else 3
      for k in [0:w] do
        if name != "packet-full-af" && k % stride != 0 && k + 3 < w && k > 8 then continue
        if name = "packet-full-af" && i > 0 then continue
        let once ← liftGen randBool
        emit "C18" (faultCase h k once s!"{kind}:err=io:nle=true" ("writer-fault-" ++ name))
        if name = "packet-full-af" then
          emit "C18" (faultCase h k (!once) s!"{kind}:err=io:nle=true" ("writer-fault-" ++ name))
      -- a fault armed beyond the last Write of the call is not hit: the call succeeds
      emit "C18" (faultCase h (w + 5) true s!"{kind}:err=none:nle=true" ("writer-nofault-" ++ name))

end Astits.DriverMux
