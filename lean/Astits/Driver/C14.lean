import Astits.Driver.Common
import Astits.Gen.Desc
import Astits.Spec.Desc
namespace Astits.DriverC14

def showDescs (ds : List Descriptor) : String := jarr (ds.map Descriptor.toJson)

/-- observation of parseDescriptors: parsed values and the iterator offset afterwards -/
def showParse (r : Res (List Descriptor × It)) : String :=
  match r with
  | .ok (ds, i) => s!"ok:off={i.off}:{showDescs ds}"
  | .err e => "err:" ++ e.pub
  | .panic => "panic"

/-- observation of writeDescriptorsWithLength: returned count, bytes, per-descriptor calculated lengths -/
def showWrite (bytes : Bytes) (n : Nat) (calcs : List Nat) : String :=
  s!"ok:n={n}:{hex bytes}:calc={jarr (calcs.map jnat)}"

/-- what parsing a written descriptor must give -/
def expectParsed (d : Descriptor) : Descriptor :=
  let l := calcDescriptorLength d
  if l = 0 then { tag := d.tag, length := 0 } else { d with length := l }

/-- the AC-3 descriptor's reserved_flags are written as 1111 by the library (pinned by its test suite)
while EN 300 468 D.3 prescribes 0000: known finding -/
def hasAC3 (ds : List Descriptor) : Bool := ds.any fun d => d.tag == 0x6a && d.ac3.isSome

def writeCase (ds : List Descriptor) (spec : Option Bytes) (tag : String) : Case :=
  if ds.any writeDescriptorPanics then
    { op := "writeDesc", args := [("descs", showDescs ds)], model := "panic", tag := tag ++ "-nil" }
  else
    let bs := writeDescriptorsWithLength ds
    let cl := ds.map calcDescriptorLength
    { op := "writeDesc", args := [("descs", showDescs ds)],
      model := showWrite bs (writeDescriptorsWithLengthCount ds) cl,
      spec := spec.map fun sb => showWrite sb sb.length (ds.map fun d => (Spec.descBodyEncode d).length),
      cls := if hasAC3 ds then "ac3-reserved-flags" else "",
      tag := tag }

def parseCase (bs : Bytes) (spec : Option String) (tag : String) : Case :=
  { op := "parseDesc", args := [("hex", jhex bs)], model := showParse (parseDescriptors.run bs), spec := spec, tag := tag }

/-- bytes of a descriptor loop given raw (tag, declared length, body) triples -/
def rawLoop (items : List (Nat × Nat × Bytes)) : Bytes :=
  let body := (items.map fun (t, l, b) => [t, l] ++ b).flatten
  packFields [(0xf, 4), (body.length, 12)] ++ body

def run (t : Tier) : Emit Unit := do
  -- (1) every kind: well-formed values, write then parse of the written bytes
  for k in [0:25] do
    for _ in [0:40 * t.scale] do
      let d ← liftGen (genDescriptorOfKind k)
      emit "C14" (writeCase [d] (some (Spec.descLoopEncode [d])) s!"write-kind")
      let bs := writeDescriptorsWithLength [d]
      emit "C14" (parseCase bs (some s!"ok:off={bs.length}:{showDescs [expectParsed d]}") "parse-written-kind")
  -- (2) loops of mixed descriptors; the redundant Length field correct, 0 or wrong
  for _ in [0:200 * t.scale] do
    let mx ← liftGen (pick [40, 150, 400, 1000, 4000])
    let ds ← liftGen (genDescriptors mx)
    emit "C14" (writeCase ds (some (Spec.descLoopEncode ds)) "write-loop")
    let bs := writeDescriptorsWithLength ds
    emit "C14" (parseCase bs (some s!"ok:off={bs.length}:{showDescs (ds.map expectParsed)}") "parse-written-loop")
    let dl ← liftGen (genDescriptorsLoose mx)
    -- the Length field must not matter: same bytes as with the field set correctly
    let fixed := dl.map fun d => { d with length := calcDescriptorLength d }
    emit "C14" (writeCase dl (some (Spec.descLoopEncode fixed)) "write-loose-length")
  -- (2b) loops that need all 12 bits of the loop length (1 KiB .. 4 KiB)
  for n in [4, 5, 8, 12, 15] do
    let mut ds : List Descriptor := []
    for i in [0:n] do
      let body ← liftGen (randBytes (if i % 2 = 0 then 255 else 254))
      ds := ds ++ [({ tag := 0x80 + i, length := body.length, userDefined := body } : Descriptor)]
    ds := ds ++ [{ tag := descriptorTagStreamIdentifier, length := 1, streamIdentifier := some { componentTag := n } }]
    emit "C14" (writeCase ds (some (Spec.descLoopEncode ds)) "write-long-loop")
    let bs := writeDescriptorsWithLength ds
    emit "C14" (parseCase bs (some s!"ok:off={bs.length}:{showDescs (ds.map expectParsed)}") "parse-long-loop")
  -- (3) framing: a descriptor whose declared length differs from what its tag implies must not shift
  --     the parsing of the descriptors that follow (either an error, or the tail parses as it does alone)
  for _ in [0:300 * t.scale] do
    let d ← liftGen genDescriptor
    let full := writeDescriptor d
    let body := full.drop 2
    let rest ← liftGen (genDescriptors 60)
    let restBytes := writeDescriptors rest
    let k ← liftGen (randBelow 4)
    let declared ← liftGen (match k with
      | 0 => randBelow (body.length + 1)                 -- shorter than the body
      | 1 => randRange body.length (min 255 (body.length + 12))   -- longer
      | _ => randBelow 256)
    -- the declared length is honoured by the loop: body bytes = the next `declared` bytes of (body ++ filler)
    let filler ← liftGen (randBytes (declared - body.length))
    let content := (body ++ filler).take declared
    let loop := rawLoop [(d.tag, declared, content)]
    let whole := packFields [(0xf, 4), (loop.length - 2 + restBytes.length, 12)] ++ loop.drop 2 ++ restBytes
    let m := parseDescriptors.run whole
    let spec := match m with
      | .ok (ds, _) => some s!"ok:off={whole.length}:{showDescs (ds.take 1 ++ rest.map expectParsed)}"
      | .err _ => some "err:other"
      | .panic => none
    emit "C14" (parseCase whole spec "framing")
  -- (3b) the same, systematically: every kind x every small declared length (0..12) and the lengths around the body's
  for k in [0:27] do
    -- 25, 26: the extension descriptor in both of its shapes (supplementary audio with a language code; unknown tag)
    let pdx ← liftGen (randBytes 3)
    let sa : DescriptorExtensionSupplementaryAudio := { editorialClassification := 3, hasLanguageCode := true, languageCode := [0x65, 0x6e, 0x67], mixType := true, privateData := pdx }
    let ex25 : DescriptorExtension := { tag := descriptorTagExtensionSupplementaryAudio, supplementaryAudio := some sa }
    let ex26 : DescriptorExtension := { tag := 0x09, unknown := some pdx }
    let d25 : Descriptor := { tag := descriptorTagExtension, extension := some ex25 }
    let d26 : Descriptor := { tag := descriptorTagExtension, extension := some ex26 }
    let dk ← liftGen (genDescriptorOfKind (k % 25))
    let d := if k = 25 then d25 else if k = 26 then d26 else dk
    let body := (writeDescriptor d).drop 2
    let rest ← liftGen (genDescriptors 30)
    let restBytes := writeDescriptors rest
    let lens := ((List.range 13) ++ [body.length - 1, body.length + 1, body.length + 7, 255]).eraseDups.filter (· ≤ 255)
    for declared in lens do
     for variant in [0, 1, 2, 3, 4] do
      for pad in [0, 1, 2, 3, 4] do
        -- pad = 1: the descriptor is the last thing in the buffer (nothing follows to read into);
        -- pad = 2, 3, 4: only a very short descriptor follows (a body parser that reads past the declared end then hits
        -- the end of the buffer, while the loop itself could go on)
        -- the body: the kind's own bytes (cut / filled up), all zero (every inner length 0), all 0xff (every flag set), the same two behind the body's own first byte (extension tag)
        let filler ← liftGen (randBytes (declared - body.length))
        let content := if variant = 0 then (body ++ filler).take declared else if variant ≤ 2 then List.replicate declared (if variant = 1 then 0 else 0xff) else (body.take 1 ++ List.replicate declared (if variant = 3 then 0 else 0xff)).take declared
        let tail : Bytes := match pad with
          | 0 => restBytes | 1 => [] | 2 => [0x80, 0] | 3 => [0x81, 1, 0x55] | _ => [0x82, 0, 0x83, 0]
        let whole := packFields [(0xf, 4), (2 + content.length + tail.length, 12)] ++ [d.tag, declared] ++ content ++ tail
        -- "the tail parses as it does alone"
        let tailAlone := match parseDescriptors.run (packFields [(0xf, 4), (tail.length, 12)] ++ tail) with
          | .ok (ds, _) => ds | _ => []
        let m := parseDescriptors.run whole
        let spec := match m with
          | .ok (ds, _) => some s!"ok:off={whole.length}:{showDescs (ds.take 1 ++ tailAlone)}"
          | .err _ => some "err:other"
          | .panic => none
        emit "C14" (parseCase whole spec "framing-systematic")
    -- the same descriptor with a small declared length, the buffer ending inside it (loop length still announcing it)
    for declared in [0:13] do
     for variant in [0, 1, 2, 3, 4] do
      let filler ← liftGen (randBytes (declared - body.length))
      let content := if variant = 0 then (body ++ filler).take declared else if variant ≤ 2 then List.replicate declared (if variant = 1 then 0 else 0xff) else (body.take 1 ++ List.replicate declared (if variant = 3 then 0 else 0xff)).take declared
      for avail in [0:declared] do
        let whole := packFields [(0xf, 4), (2 + declared, 12)] ++ [d.tag, declared] ++ content.take avail
        emit "C14" (parseCase whole none "framing-truncated")
  -- (3c) every known tag with short bodies over a small alphabet (inner lengths 0, 1, 2, 5 and 0xff, flags all clear or
  --      all set), the buffer ending with the descriptor or 1..3 bytes short of what its length announces
  for tg in knownDescriptorTags do
    for _ in [0:(if t.quick then 40 else 200)] do
      let n ← liftGen (randRange 0 11)
      let body ← liftGen (genList n (pick [0, 0, 1, 2, 5, 0xff, 0x10, 0x65]))
      let short ← liftGen (pick [0, 0, 1, 2, 3])
      let whole := packFields [(0xf, 4), (2 + n, 12)] ++ [tg, n] ++ body.take (n - short)
      emit "C14" (parseCase whole none "small-alphabet-bodies")
  -- (3d) the same, systematically, for the kinds with inner length bytes: p bytes of plausible fixed fields, two
  --      small length bytes, k zero bytes, end of buffer
  for tg in [0x4e, 0x4d, 0x48, 0x50, 0x56, 0x59, 0x58, 0x55, 0x0a, 0x45, 0x7f, 0x6a, 0x7a] do
    for p in [0:6] do
      for a in [0, 1, 2, 5] do
        for b in [0, 1, 2, 5] do
          for k in [0:4] do
            let body : Bytes := ([0x10, 0x65, 0x6e, 0x67, 0x01] : Bytes).take p ++ [a, b] ++ List.replicate k 0
            let whole := packFields [(0xf, 4), (2 + body.length, 12)] ++ [tg, body.length] ++ body
            emit "C14" (parseCase whole none "inner-lengths-x-short")
  -- (4) malformed: mutations, truncations at every offset, random bytes (model only)
  for _ in [0:300 * t.scale] do
    let ds ← liftGen (genDescriptors 80)
    let bs := writeDescriptorsWithLength ds
    let i ← liftGen (randBelow bs.length); let v ← liftGen (randBelow 256)
    emit "C14" (parseCase (bs.set i v) none "parse-mutated")
  let ds ← liftGen (genDescriptors 120)
  let bs := writeDescriptorsWithLength ds
  for k in [0:bs.length + 1] do emit "C14" (parseCase (bs.take k) none "parse-truncated")
  for _ in [0:200 * t.scale] do
    let n ← liftGen (randBelow 60)
    let bs ← liftGen (randBytes n)
    let l ← liftGen (randBelow (n + 4))
    emit "C14" (parseCase (packFields [(0xf, 4), (l, 12)] ++ bs) none "parse-random")
  -- (4b) every kind, its loop cut at every offset (the lengths still announce the whole): a failed read inside a
  --      descriptor must stay an error even when a later, shorter read would succeed on the bytes that are left
  for k in [0:25] do
    for _ in [0:(if t.quick then 1 else 6)] do
      let d ← liftGen (genDescriptorOfKind k)
      let bs := writeDescriptorsWithLength [d]
      let bs := if bs.length > 80 then bs.take 80 else bs
      for cut in [0:bs.length] do emit "C14" (parseCase (bs.take cut) none "kind-truncated")
  -- (1b) the ends of the tag ranges: user-defined 0x80 and 0xfe, unknown 0xff / 0x7e / 0x00
  for tg in [0x80, 0x81, 0xfd, 0xfe] do
    let body ← liftGen (randBytes 7)
    let d : Descriptor := { tag := tg, length := 7, userDefined := body }
    emit "C14" (writeCase [d] (some (Spec.descLoopEncode [d])) "write-tag-range")
    let bs := writeDescriptorsWithLength [d]
    emit "C14" (parseCase bs (some s!"ok:off={bs.length}:{showDescs [expectParsed d]}") "parse-tag-range")
  for tg in [0xff, 0x7e, 0x00, 0x01] do
    let body ← liftGen (randBytes 5)
    let d : Descriptor := { tag := tg, length := 5, unknown := some { content := body, tag := tg } }
    emit "C14" (writeCase [d] (some (Spec.descLoopEncode [d])) "write-tag-range")
    let bs := writeDescriptorsWithLength [d]
    emit "C14" (parseCase bs (some s!"ok:off={bs.length}:{showDescs [expectParsed d]}") "parse-tag-range")
  -- (5) ill-formed values through the writers (uint8 truncation etc.): correspondence only
  --     every kind several times (codes of 0..5 bytes where 3 are expected, nil sub-structs, blobs past 255 bytes)
  for k in [0:25] do
    for _ in [0:12 * t.scale] do
      let d ← liftGen (genWildOfKind k)
      emit "C14" (writeCase [d] none "write-wild-kind")
  -- codes shorter / longer than their 3 bytes in every kind that has one (the writers pad with 0 / cut)
  for k in [0:25] do
    for n in [0, 1, 2, 4] do
      let d ← liftGen (genDescriptorOfKind k)
      let c ← liftGen (randBytes n)
      let d := { d with
        component := d.component.map fun x => { x with iso639LanguageCode := c },
        extendedEvent := d.extendedEvent.map fun x => { x with iso639LanguageCode := c },
        extension := d.extension.map fun x => { x with supplementaryAudio := x.supplementaryAudio.map fun y => { y with hasLanguageCode := true, languageCode := c } },
        iso639LanguageAndAudioType := d.iso639LanguageAndAudioType.map fun x => { x with language := c },
        localTimeOffset := d.localTimeOffset.map fun x => { x with items := x.items.map fun y => { y with countryCode := c } },
        parentalRating := d.parentalRating.map fun x => { x with items := x.items.map fun y => { y with countryCode := c } },
        shortEvent := d.shortEvent.map fun x => { x with language := c },
        subtitling := d.subtitling.map fun x => { x with items := x.items.map fun y => { y with language := c } },
        teletext := d.teletext.map fun x => { x with items := x.items.map fun y => { y with language := c } },
        vbiTeletext := d.vbiTeletext.map fun x => { x with items := x.items.map fun y => { y with language := c } } }
      emit "C14" (writeCase [d] none "write-short-code")
  -- extension descriptors: unknown extension tag with and without content, supplementary audio tag without the struct
  for et in [0x00, 0x05, 0x99] do
    let u ← liftGen (randBytes 4)
    emit "C14" (writeCase [{ tag := descriptorTagExtension, extension := some { tag := et, unknown := none } }] none "write-extension-nil")
    emit "C14" (writeCase [{ tag := descriptorTagExtension, extension := some { tag := et, unknown := some u } }] none "write-extension-nil")
  emit "C14" (writeCase [{ tag := descriptorTagExtension, extension := some { tag := descriptorTagExtensionSupplementaryAudio, supplementaryAudio := none } }] none "write-extension-nil")
  for _ in [0:100 * t.scale] do
    let ds ← liftGen genDescriptorsWild
    emit "C14" (writeCase ds none "write-wild")

end Astits.DriverC14
