import Astits.Driver.Common
import Astits.Model.DVB
import Astits.Spec.DVB
namespace Astits.DriverC15

/-- batched cases: the harness evaluates the real function on every value of the range and joins the
results with ','; model and spec do the same -/
def joinInts (xs : List Int) : String := ",".intercalate (xs.map toString)

def showP (r : Res Int) : Int := match r with | .ok v => v | _ => -1

def rangeList (lo hi : Nat) : List Nat := (List.range (hi - lo)).map (· + lo)

/-- decode: 5 bytes (MJD, fixed time of day 12:34:56) → Unix seconds -/
def decodeBatch (lo hi : Nat) : Case :=
  let secs := 12 * 3600 + 34 * 60 + 56
  let m := (rangeList lo hi).map fun mjd => showP (parseDVBTime.val [mjd / 256, mjd % 256, 0x12, 0x34, 0x56])
  -- spec only on the property's range 15079..65535: linear in the day number
  let inRange := lo ≥ 15079
  let s := (rangeList lo hi).map fun (mjd : Nat) => ((mjd : Int) - 40587) * 86400 + secs
  { op := "dvbDecodeRange", args := [("lo", jnat lo), ("hi", jnat hi)], model := joinInts m,
    spec := if inRange then some (joinInts s) else none, tag := if inRange then "decode-mjd" else "decode-mjd-below-range" }

/-- decode the time of day: all seconds of a day in BCD on a fixed MJD -/
def decodeTimeBatch (mjd lo hi : Nat) : Case :=
  let m := (rangeList lo hi).map fun s =>
    showP (parseDVBTime.val [mjd / 256, mjd % 256, Spec.bcd (s / 3600), Spec.bcd (s / 60 % 60), Spec.bcd (s % 60)])
  let sp := (rangeList lo hi).map fun (s : Nat) => ((mjd : Int) - 40587) * 86400 + (s : Int)
  { op := "dvbDecodeTimeRange", args := [("mjd", jnat mjd), ("lo", jnat lo), ("hi", jnat hi)], model := joinInts m,
    spec := some (joinInts sp), tag := "decode-time" }

/-- encode: Unix seconds (day × 86400 + fixed second) → 5 bytes -/
def encodeBatch (lo hi : Nat) (sec : Nat) : Case :=
  let m := (rangeList lo hi).map fun (mjd : Nat) => hex (writeDVBTime (((mjd : Int) - 40587) * 86400 + sec))
  let s := (rangeList lo hi).map fun mjd => hex (Spec.dvbTimeBytes mjd sec)
  { op := "dvbEncodeRange", args := [("lo", jnat lo), ("hi", jnat hi), ("sec", jnat sec)], model := ",".intercalate m,
    spec := some (",".intercalate s), tag := "encode-mjd" }

def encodeTimeBatch (mjd lo hi : Nat) : Case :=
  let m := (rangeList lo hi).map fun (s : Nat) => hex (writeDVBTime (((mjd : Int) - 40587) * 86400 + (s : Int)))
  let sp := (rangeList lo hi).map fun s => hex (Spec.dvbTimeBytes mjd s)
  { op := "dvbEncodeTimeRange", args := [("mjd", jnat mjd), ("lo", jnat lo), ("hi", jnat hi)], model := ",".intercalate m,
    spec := some (",".intercalate sp), tag := "encode-time" }

/-- all raw 16-bit minute-duration patterns lo..hi: seconds, and agreement with the digit-wise definition -/
def durMinBatch (lo hi : Nat) : Case :=
  let m := (rangeList lo hi).map fun v => showP (parseDVBDurationMinutes.val [v / 256, v % 256])
  let s := (rangeList lo hi).map fun v =>
    (((10 * (v / 4096) + v / 256 % 16) * 3600 + (10 * (v / 16 % 16) + v % 16) * 60 : Nat) : Int) * 1000000000
  { op := "durMinParseRange", args := [("lo", jnat lo), ("hi", jnat hi)], model := joinInts m, spec := some (joinInts s),
    tag := "duration-minutes-raw" }

def durSecBatch (lo hi : Nat) : Case :=
  let m := (rangeList lo hi).map fun v => showP (parseDVBDurationSeconds.val [v / 65536, v / 256 % 256, v % 256])
  let s := (rangeList lo hi).map fun v =>
    (((10 * (v / 1048576) + v / 65536 % 16) * 3600 + (10 * (v / 4096 % 16) + v / 256 % 16) * 60
      + (10 * (v / 16 % 16) + v % 16) : Nat) : Int) * 1000000000
  { op := "durSecParseRange", args := [("lo", jnat lo), ("hi", jnat hi)], model := joinInts m, spec := some (joinInts s),
    tag := "duration-seconds-raw" }

/-- write durations: all hh:mm (10^4) / a range of hh:mm:ss values given as a count of seconds -/
def durMinWriteBatch (lo hi : Nat) : Case :=
  -- v = hh*60+mm for hh < 100
  let m := (rangeList lo hi).map fun (v : Nat) => hex (writeDVBDurationMinutes ((v : Int) * 60000000000))
  let s := (rangeList lo hi).map fun v => hex [Spec.bcd (v / 60), Spec.bcd (v % 60)]
  { op := "durMinWriteRange", args := [("lo", jnat lo), ("hi", jnat hi)], model := ",".intercalate m,
    spec := some (",".intercalate s), tag := "duration-minutes-write" }

def durSecWriteBatch (lo hi : Nat) : Case :=
  let m := (rangeList lo hi).map fun (v : Nat) => hex (writeDVBDurationSeconds ((v : Int) * 1000000000))
  let s := (rangeList lo hi).map fun v => hex [Spec.bcd (v / 3600), Spec.bcd (v / 60 % 60), Spec.bcd (v % 60)]
  { op := "durSecWriteRange", args := [("lo", jnat lo), ("hi", jnat hi)], model := ",".intercalate m,
    spec := some (",".intercalate s), tag := "duration-seconds-write" }

def run (t : Tier) : Emit Unit := do
  let step := 512
  -- every 16-bit MJD value: decode (below 15079: agreement and panic-freedom only) and encode
  for k in [0:65536 / step] do
    emit "C15" (decodeBatch (k * step) ((k + 1) * step))
  for k in [0:(65536 - 15079 + step - 1) / step] do
    let lo := 15079 + k * step
    emit "C15" (encodeBatch lo (min 65536 (lo + step)) (if k % 2 = 0 then 0 else 86399))
  -- every second of the day (decode and encode) on a few days; thorough: a grid of days
  let days := if t.quick then [15079, 40587, 51544, 65535] else (List.range 100).map (fun i => 15079 + i * 509) ++ [65535]
  for mjd in days do
    for k in [0:86400 / 1440] do
      emit "C15" (decodeTimeBatch mjd (k * 1440) ((k + 1) * 1440))
      emit "C15" (encodeTimeBatch mjd (k * 1440) ((k + 1) * 1440))
  -- all 2^16 raw minute patterns; all 10^4 hh:mm values written
  for k in [0:65536 / step] do emit "C15" (durMinBatch (k * step) ((k + 1) * step))
  for k in [0:6000 / 500] do emit "C15" (durMinWriteBatch (k * 500) ((k + 1) * 500))
  -- hh:mm:ss: all 360000 values of 0..99:59:59 written; raw 24-bit patterns: all in thorough, 2^18 sampled blocks in quick
  for k in [0:360000 / 2000] do emit "C15" (durSecWriteBatch (k * 2000) ((k + 1) * 2000))
  let blocks := 16777216 / 1024
  for k in [0:blocks] do
    if t.quick && k % 64 != 0 then continue
    emit "C15" (durSecBatch (k * 1024) ((k + 1) * 1024))

end Astits.DriverC15
