import Astits.Driver.Common
import Astits.Gen.PES
import Astits.Spec.PES
namespace Astits.DriverC12

def showParse (r : Res PESData) : String := r.showPub PESData.toJson

def showWritePES (r : Res (Bytes × Nat × Nat)) : String :=
  match r with
  | .ok (bs, ntot, np) => s!"ok:ntot={ntot}:np={np}:{hex bs}"
  | .err e => s!"err:{e.pub}"
  | .panic => "panic"

def parseCase (bs : Bytes) (spec : Option String) (tag : String) : Case :=
  { op := "parsePES", args := [("hex", jhex bs)], model := showParse (parsePESData.val bs), spec := spec, tag := tag }

def optLen (h : PESHeader) (stuffing : Nat) : Nat :=
  if hasPESOptionalHeader h.streamID then (Spec.pesOptionalEncode (h.optionalHeader.getD {}) stuffing).length else 0

/-- header + the four PES_packet_length situations -/
def lengthCases (h0 : PESHeader) (stuffing : Nat) (payload extra : Bytes) (tag : String) : Emit Unit := do
  let exact := optLen h0 stuffing + payload.length
  -- exact
  if exact ≤ 65535 ∧ exact > 0 then
    let h := { h0 with packetLength := exact }
    emit "C12" (parseCase (Spec.pesEncode h stuffing payload ++ extra)
      (some ("ok:" ++ ({ data := payload, header := h } : PESData).toJson)) (tag ++ "-exact"))
  -- zero: everything up to the end of the unit
  let h := { h0 with packetLength := 0 }
  emit "C12" (parseCase (Spec.pesEncode h stuffing payload ++ extra)
    (some ("ok:" ++ ({ data := payload ++ extra, header := h } : PESData).toJson)) (tag ++ "-zero"))
  -- shorter than what is available: exactly that many bytes
  if payload.length ≥ 2 ∧ exact ≤ 65535 then
    let k ← liftGen (randRange 1 (payload.length - 1))
    let h := { h0 with packetLength := exact - k }
    emit "C12" (parseCase (Spec.pesEncode h stuffing payload ++ extra)
      (some ("ok:" ++ ({ data := payload.take (payload.length - k), header := h } : PESData).toJson)) (tag ++ "-shorter"))
  -- longer than what is available: an error, never wrong data
  if exact + 1 ≤ 65535 then
    let k ← liftGen (randRange 1 50)
    let h := { h0 with packetLength := min 65535 (exact + extra.length + k) }
    emit "C12" (parseCase (Spec.pesEncode h stuffing payload ++ extra) (some "err:other") (tag ++ "-longer"))

def writeCase (h : PESHeader) (payload : Bytes) (start : Bool) (avail : Nat) (spec : Option String) (tag : String) : Case :=
  { op := "writePES", args := [("header", h.toJson), ("payload", jhex payload), ("start", jbool start), ("avail", jnat avail)], model := showWritePES (writePESData h payload start avail), spec := spec, tag := tag }

def durationCase (base ext : Nat) : Case :=
  let c : ClockReference := { base := base, extension := ext }
  { op := "duration", args := [("base", jnat base), ("ext", jnat ext)], model := toString c.duration, spec := some (toString (base * 1000000000 / 90000 + ext * 1000000000 / 27000000)), tag := "duration" }

def tsValues : List Nat := (List.range 33).map (2 ^ ·) ++ [0, 2 ^ 33 - 1, 2 ^ 33 - 2, 2 ^ 32 + 1]

def run (t : Tier) : Emit Unit := do
  -- (1) random headers, all stream id classes, header stuffing 0..32, four length situations
  for _ in [0:300 * t.scale] do
    let sid ← liftGen genStreamID
    let stuffing ← liftGen (do if (← chance 1 2) then pure 0 else randBelow 33)
    let oh ← liftGen (genPESOptionalHeader false stuffing)
    let h : PESHeader := { optionalHeader := if hasPESOptionalHeader sid then some oh else none, streamID := sid }
    let n ← liftGen (do if (← chance 1 8) then randRange 1000 3000 else randRange 1 200)
    let payload ← liftGen (randBytes n)
    let en ← liftGen (randBelow 20)
    let extra ← liftGen (randBytes en)
    lengthCases h stuffing payload extra "parse"
  -- (2) every flag byte of the optional header (flags2: PTS_DTS, ESCR, ES_rate, trick, copy, CRC, ext)
  for f in [0:256] do
    if f / 64 % 4 = 1 then continue   -- PTS_DTS_flags = '01' is forbidden
    let oh0 ← liftGen (genPESOptionalHeader false 0)
    let pts ← liftGen (genClock 0); let dts ← liftGen (genClock 0); let escr ← liftGen (genClock 9)
    let dsm ← liftGen genDSM
    let ind := f / 64 % 4
    let oh : PESOptionalHeader := { oh0 with
      ptsDTSIndicator := ind, pts := if ind ≥ 2 then some pts else none, dts := if ind = 3 then some dts else none,
      hasESCR := f / 32 % 2 = 1, escr := if f / 32 % 2 = 1 then some escr else none,
      hasESRate := f / 16 % 2 = 1, esRate := if f / 16 % 2 = 1 then oh0.esRate % 4194303 + 1 else 0,
      hasDSMTrickMode := f / 8 % 2 = 1, dsmTrickMode := if f / 8 % 2 = 1 then some dsm else none,
      hasAdditionalCopyInfo := f / 4 % 2 = 1, additionalCopyInfo := if f / 4 % 2 = 1 then 0x55 else 0,
      hasCRC := f / 2 % 2 = 1, crc := if f / 2 % 2 = 1 then 0x1234 + f else 0,
      hasExtension := f % 2 = 1,
      hasPrivateData := oh0.hasPrivateData && f % 2 = 1, privateData := if oh0.hasPrivateData && f % 2 = 1 then oh0.privateData else [],
      hasProgramPacketSequenceCounter := oh0.hasProgramPacketSequenceCounter && f % 2 = 1,
      packetSequenceCounter := if f % 2 = 1 then oh0.packetSequenceCounter else 0,
      mpeg1OrMPEG2ID := if f % 2 = 1 then oh0.mpeg1OrMPEG2ID else 0,
      originalStuffingLength := if f % 2 = 1 then oh0.originalStuffingLength else 0,
      hasPSTDBuffer := oh0.hasPSTDBuffer && f % 2 = 1, pstdBufferScale := if f % 2 = 1 then oh0.pstdBufferScale else 0,
      pstdBufferSize := if f % 2 = 1 then oh0.pstdBufferSize else 0,
      hasExtension2 := oh0.hasExtension2 && f % 2 = 1, extension2Data := if f % 2 = 1 then oh0.extension2Data else [],
      extension2Length := if f % 2 = 1 then oh0.extension2Length else 0 }
    let oh := { oh with headerLength := (calcPESOptionalHeaderDataLength oh + (if oh.hasCRC then 2 else 0)) % 256 }
    let h : PESHeader := { optionalHeader := some oh, streamID := 0xc0 }
    let payload ← liftGen (randBytes 20)
    lengthCases h 0 payload [] "flags"
  -- (3) timestamps: every single-bit value and all ones, in PTS, DTS and ESCR positions
  for v in tsValues do
    for e in [0, 1, 256, 511] do
      let oh : PESOptionalHeader := { markerBits := 2, ptsDTSIndicator := 3, pts := some { base := v, extension := 0 }, dts := some { base := (2 ^ 33 - 1 - v : Nat), extension := 0 }, hasESCR := true, escr := some { base := v, extension := e }, headerLength := 16 }
      let h : PESHeader := { optionalHeader := some oh, streamID := 0xe0 }
      lengthCases h 0 [1, 2, 3] [] "timestamps"
  -- (4) all 256 trick-mode bytes
  for b in [0:256] do
    let oh : PESOptionalHeader := { markerBits := 2, hasDSMTrickMode := true, dsmTrickMode := some (parseDSMTrickMode b), headerLength := 1 }
    let h : PESHeader := { optionalHeader := some oh, streamID := 0xe0, packetLength := 0 }
    -- the reference encoding of a trick-mode byte with arbitrary reserved bits is the byte itself
    let bs := Spec.enc [(24, 1), (8, 0xe0), (16, 0), (8, 0x80), (8, 0x08), (8, 1), (8, b)] ++ [9, 9]
    emit "C12" (parseCase bs (some ("ok:" ++ ({ data := [9, 9], header := h } : PESData).toJson)) "trickmode")
  -- (5) 16-bit previous_PES_packet_CRC values
  for k in [0:18] do
    let v := if k < 16 then 2 ^ k else if k = 16 then 0xffff else 0x1234
    let oh : PESOptionalHeader := { markerBits := 2, hasCRC := true, crc := v, headerLength := 2 }
    let h : PESHeader := { optionalHeader := some oh, streamID := 0xc0 }
    lengthCases h 0 [7, 7, 7] [] "crc16"
  -- (6) writing: headers the writer supports; first / continuation chunks; every available size
  for _ in [0:300 * t.scale] do
    let sid ← liftGen genStreamID
    let oh ← liftGen (genPESOptionalHeader true 0)
    let h : PESHeader := { optionalHeader := if hasPESOptionalHeader sid then some oh else none, streamID := sid }
    let n ← liftGen (do let k ← randBelow 10; if k = 0 then randRange 65400 65700 else randRange 1 400)
    let payload ← liftGen (randBytes n)
    let hl := 6 + calcPESOptionalHeaderLength h.optionalHeader
    let avail ← liftGen (do let k ← randBelow 3; if k = 0 then pure 184 else if k = 1 then randRange hl 184 else randRange hl (hl + n + 10))
    let hdrLen := 6 + optLen h 0
    let np := min (avail - hdrLen) n
    let expectLen := pesPacketLengthFor h n
    let spec := Spec.pesEncode { h with packetLength := expectLen } 0 (payload.take np)
    emit "C12" (writeCase h payload true avail (some s!"ok:ntot={hdrLen + np}:np={np}:{hex spec}") "write-first")
    let avail2 ← liftGen (randRange 1 184)
    emit "C12" (writeCase h payload false avail2
      (some s!"ok:ntot={min avail2 n}:np={min avail2 n}:{hex (payload.take avail2)}") "write-continuation")
    -- the redundant length fields of the struct left 0 or stale (HeaderLength, Extension2Length): what is written and
    -- announced comes from the data
    match h.optionalHeader with
    | some o =>
      if o.hasExtension ∧ o.hasExtension2 ∧ n < 400 then
        let stale : PESHeader := { h with optionalHeader := some { o with extension2Length := (o.extension2Length + 5) % 128, headerLength := 0 } }
        emit "C12" (writeCase stale payload true 184 (some s!"ok:ntot={hdrLen + min (184 - hdrLen) n}:np={min (184 - hdrLen) n}:{hex (Spec.pesEncode { h with packetLength := expectLen } 0 (payload.take (min (184 - hdrLen) n)))}") "write-stale-length-fields")
    | none => pure ()
  -- (6b) stream ids that carry no optional header (padding, private_stream_2, ECM, ...) although the struct holds one:
  --      nothing of it is written or counted
  for sid in [0xbc, 0xbe, 0xbf, 0xf0, 0xf1, 0xf2, 0xf8, 0xff] do
    let oh ← liftGen (genPESOptionalHeader true 0)
    let n ← liftGen (randRange 1 300)
    let payload ← liftGen (randBytes n)
    let h : PESHeader := { optionalHeader := some oh, streamID := sid }
    let hn : PESHeader := { optionalHeader := none, streamID := sid }
    if !hasPESOptionalHeader sid then
      let np := min (184 - 6) n
      let spec := Spec.pesEncode { hn with packetLength := pesPacketLengthFor hn n } 0 (payload.take np)
      emit "C12" (writeCase h payload true 184 (some s!"ok:ntot={6 + np}:np={np}:{hex spec}") "write-no-optional-header-for-stream-id")
  -- (6c) private data that is not 16 bytes long (the writer pads with zeros / cuts): correspondence only
  for k in [0, 1, 15, 17, 40] do
    let oh ← liftGen (genPESOptionalHeader true 0)
    let pd ← liftGen (randBytes k)
    let oh' := { oh with hasExtension := true, hasPrivateData := true, privateData := pd }
    let h : PESHeader := { optionalHeader := some oh', streamID := 0xe0 }
    emit "C12" (writeCase h [1, 2, 3] true 184 none "write-private-data-length")
  -- (7) Duration: single-bit and extreme values
  for v in tsValues do
    for e in [0, 1, 16, 299, 300, 511] do
      emit "C12" (durationCase v e)
  for _ in [0:200 * t.scale] do
    let v ← liftGen (randField 33); let e ← liftGen (randField 9)
    emit "C12" (durationCase v e)
  -- (7b) dense: every tick of the first 20000 (quick: 6000), multiples of 9 ticks (the exact duration is a whole number of
  -- nanoseconds every 9 ticks) from several starting points across the 33-bit range, every extension
  let rangeCase (start step count ext : Nat) : Case :=
    let vals := (List.range count).map fun i => ({ base := (start + i * step : Nat), extension := (ext : Nat) } : ClockReference).duration
    let sp := (List.range count).map fun i => ((start + i * step) * 1000000000 / 90000 + ext * 1000000000 / 27000000 : Nat)
    { op := "durationRange", args := [("start", jnat start), ("step", jnat step), ("count", jnat count), ("ext", jnat ext)],
      model := ",".intercalate (vals.map toString), spec := some (",".intercalate (sp.map toString)), tag := "duration-dense" }
  for b in [0:(if t.quick then 3 else 10)] do
    emit "C12" (rangeCase (b * 2000) 1 2000 0)
  for _ in [0:(if t.quick then 4 else 40)] do
    let k0 ← liftGen (randField 29)
    emit "C12" (rangeCase (9 * k0) 9 2000 (← liftGen (randField 9)))
  emit "C12" (rangeCase (8589934592 - 2000) 1 2000 511)
  -- (8) malformed: truncations at every offset of one unit, mutations, random
  let oh ← liftGen (genPESOptionalHeader false 3)
  let h : PESHeader := { optionalHeader := some oh, streamID := 0xbd, packetLength := 0 }
  let unit := Spec.pesEncode h 3 [1, 2, 3, 4, 5]
  for k in [0:unit.length + 1] do
    emit "C12" (parseCase (unit.take k) none "parse-truncated")
  -- many headers (every combination of optional parts turns up), each cut at every offset, with and without a few
  -- bytes of zeros behind the cut: a failed read must stay an error even if a later, shorter read succeeds
  for _ in [0:30 * t.scale] do
    let oh ← liftGen (genPESOptionalHeader false 2)
    let h : PESHeader := { optionalHeader := some oh, streamID := 0xe0, packetLength := 0 }
    let unit := Spec.pesEncode h 2 [9, 8, 7]
    for k in [6:unit.length] do
      emit "C12" (parseCase (unit.take k) none "parse-truncated-header")
  -- every flags byte (which optional parts are announced) x 0..10 bytes behind the header_data_length byte, and
  -- every extension flags byte x 0..6 bytes behind it: parts announced but not (wholly) there
  for fl in [0:256] do
    for k in [0:11] do
      emit "C12" (parseCase ([0, 0, 1, 0xe0, 0, 0, 0x80, fl, 0] ++ (List.range k).map (· + 1)) none "parse-flags-x-short")
  for fl in [0:256] do
    for k in [0:7] do
      emit "C12" (parseCase ([0, 0, 1, 0xe0, 0, 0, 0x80, 0x01, 0, fl] ++ (List.range k).map (· + 1)) none "parse-extflags-x-short")
  for _ in [0:300 * t.scale] do
    let sid ← liftGen genStreamID
    let oh ← liftGen (genPESOptionalHeader false 0)
    let h : PESHeader := { optionalHeader := if hasPESOptionalHeader sid then some oh else none, streamID := sid, packetLength := 0 }
    let payload ← liftGen (randBytes 10)
    let bs := Spec.pesEncode h 0 payload
    let i ← liftGen (randBelow bs.length); let v ← liftGen (randBelow 256)
    emit "C12" (parseCase (bs.set i v) none "parse-mutated")
  -- (9) headers of a foreign encoder: PES extension with pack_header_field_flag set (the library never writes it, but
  -- reads the length byte), every combination of the other extension flags, header_data_length around what is there
  for fl in [0:32] do
    let extFlags := 0x40 + (if fl % 2 = 1 then 0x80 else 0) + (if fl / 2 % 2 = 1 then 0x20 else 0) + (if fl / 4 % 2 = 1 then 0x10 else 0)
                      + (if fl / 8 % 2 = 1 then 0x01 else 0) + (if fl / 16 % 2 = 1 then 0x0e else 0)
    let rest ← liftGen (randBytes 40)
    let packLen ← liftGen (pick [0, 1, 5, 14, 255])
    let hdl ← liftGen (randRange 1 45)
    let body : Bytes := [extFlags] ++ (if extFlags ≥ 0x80 then rest.take 16 else []) ++ [packLen] ++ rest.drop 16
    let payload ← liftGen (randBytes 12)
    let unit : Bytes := [0, 0, 1, 0xbd, 0, 0, 0x80, 0x01, hdl] ++ body ++ payload
    emit "C12" (parseCase unit none "parse-pack-header-field")

end Astits.DriverC12
