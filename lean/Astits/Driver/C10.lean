import Astits.Driver.Common
import Astits.Model.CRC
import Astits.Spec.CRC
namespace Astits.DriverC10

def splitAt (bs : Bytes) (cuts : List Nat) : List Bytes :=
  let rec go (bs : Bytes) (cuts : List Nat) (pos : Nat) : List Bytes :=
    match cuts with
    | [] => [bs]
    | c :: cs => (bs.take (c - pos)) :: go (bs.drop (c - pos)) cs c
  go bs cuts 0

/-- observation string shared by model, spec and implementation: checksum, piecewise checksum, residue -/
def obs (crc pieces residue : BitVec 32) : String :=
  hex32 crc.toNat ++ " " ++ hex32 pieces.toNat ++ " " ++ hex32 residue.toNat

def crcCase (bs : Bytes) (cuts : List Nat) (tag : String) : Case :=
  let m := computeCRC32 bs
  let pieces := (splitAt bs cuts).foldl updateCRC32 crcInit
  let res := computeCRC32 (bs ++ be32 m)
  let s := Spec.crc bs
  { op := "crc", args := [("hex", jhex bs), ("cuts", jarr (cuts.map jnat))],
    model := obs m pieces res, spec := some (obs s s 0#32), tag := tag, nt := bs.length > 0 }

def stepCase (state : Nat) (b : Nat) : Case :=
  let c := BitVec.ofNat 32 state
  { op := "crcstep", args := [("state", jnat state), ("byte", jnat b)],
    model := hex32 (crcStep c b).toNat, spec := some (hex32 (Spec.crcFeedByte c b).toNat), tag := "step" }

def tableCase : Case :=
  let t := (List.range 256).map fun i => hex32 (crcTableEntry (BitVec.ofNat 32 i)).toNat
  let s := (List.range 256).map fun i => hex32 (Spec.crcFeedByte 0#32 i).toNat
  { op := "crctable", model := " ".intercalate t, spec := some (" ".intercalate s), tag := "table" }

def seqCase (msgs : List Bytes) : Case :=
  { op := "crcseq", args := [("msgs", jarr (msgs.map jhex))],
    model := " ".intercalate (msgs.map fun b => hex32 (computeCRC32 b).toNat),
    spec := some (" ".intercalate (msgs.map fun b => hex32 (Spec.crc b).toNat)), tag := "one-buffer-reused" }

def sortedCuts (n k : Nat) : Gen (List Nat) := do
  let cs ← genList k (randBelow (n + 1))
  return (cs.toArray.qsort (· < ·)).toList

def run (t : Tier) : Emit Unit := do
  emit "C10" tableCase
  -- messages of equal length written one after the other into the same buffer, repeats included
  for _ in [0:(if t.quick then 20 else 200)] do
    let n ← liftGen (randRange 1 64)
    let a ← liftGen (randBytes n); let b ← liftGen (randBytes n); let c ← liftGen (randBytes n)
    emit "C10" (seqCase [a, b, a, a, c, b])
  -- all messages of length 0..2 (length 2 only in the thorough tier; quick samples 2000 of them)
  emit "C10" (crcCase [] [] "len0")
  for b in [0:256] do emit "C10" (crcCase [b] [] "len1")
  if t.quick then
    for _ in [0:2000] do
      let a ← liftGen (randBelow 256); let b ← liftGen (randBelow 256)
      emit "C10" (crcCase [a, b] [1] "len2")
  else
    for a in [0:256] do for b in [0:256] do emit "C10" (crcCase [a, b] [1] "len2")
  -- random messages up to 4 KiB, random split points
  for _ in [0:200 * t.scale] do
    let n ← liftGen (do if (← chance 1 4) then randRange 1024 4096 else randRange 3 300)
    let bs ← liftGen (randBytes n)
    let k ← liftGen (randBelow 6)
    let cuts ← liftGen (sortedCuts n k)
    emit "C10" (crcCase bs cuts "random")
  -- one message with every split point
  let bs ← liftGen (randBytes (if t.quick then 64 else 512))
  for c in [0:bs.length + 1] do emit "C10" (crcCase bs [c] "everysplit")
  -- stratified single steps: every byte value × states with structure (single bits, all ones, random)
  for b in [0:256] do
    for k in [0:32] do emit "C10" (stepCase (2 ^ k) b)
    emit "C10" (stepCase 0 b); emit "C10" (stepCase 0xffffffff b)
    for _ in [0:(if t.quick then 8 else 256)] do
      let s ← liftGen nextU64
      emit "C10" (stepCase (s.toNat % 4294967296) b)

end Astits.DriverC10
