/-
The `demux` operation of the line protocol: one Demuxer run described by (stream bytes, packet
size, reader kind + read schedule + fault, skipper, parser, API, call script, view) and the
model's prediction of what the harness will observe.
-/
import Astits.Driver.Common
import Astits.Model.Demux
import Astits.Spec.RefMux
namespace Astits

inductive SkipSpec where
  | none
  | pids (l : List Nat)
  | cc (v : Nat)
  | pusi
  | af
  /-- looks INTO the adaptation field: PCR, random access indicator or stuffing present -/
  | afContent
  | script (ds : List Bool)
  deriving Inhabited

def afContentPred (p : Packet) : Bool :=
  match p.adaptationField with
  | some a => a.hasPCR || a.randomAccessIndicator || a.stuffingLength > 0
  | none => false

def SkipSpec.toJson : SkipSpec → String
  | .none => "null"
  | .pids l => jobj [("kind", jstr "pids"), ("pids", jarr (l.map jnat))]
  | .cc v => jobj [("kind", jstr "cc"), ("v", jnat v)]
  | .pusi => jobj [("kind", jstr "pusi")]
  | .af => jobj [("kind", jstr "af")]
  | .afContent => jobj [("kind", jstr "afContent")]
  | .script ds => jobj [("kind", jstr "script"), ("ds", jarr (ds.map jbool))]

def SkipSpec.toModel : SkipSpec → Skipper
  | .none => .none
  | .pids l => .pred fun p => l.contains p.header.pid
  | .cc v => .pred fun p => p.header.continuityCounter == v
  | .pusi => .pred fun p => p.header.payloadUnitStartIndicator
  | .af => .pred fun p => p.header.hasAdaptationField
  | .afContent => .pred afContentPred
  | .script ds => .script ds

inductive Call where
  | next | rewind | poison
  deriving DecidableEq, Inhabited

inductive View where
  | seq | perpid | tablepos | outcomes
  /-- what every call returned, without reader positions, up to and including the first end of stream -/
  | items
  deriving DecidableEq, Inhabited

def View.name : View → String
  | .seq => "seq" | .perpid => "perpid" | .tablepos => "tablepos" | .outcomes => "outcomes" | .items => "items"

structure DemuxCfg where
  size : Nat := 188
  kind : ReaderKind := .seek
  chunks : List Nat := []
  fault : Option (Nat × Bool) := none
  skipper : SkipSpec := .none
  parser : ParserKind := .none
  packetAPI : Bool := false
  view : View := .seq
  /-- perpid view: keep only PES data / drop these PIDs / omit the error count and ending -/
  onlyPES : Bool := false
  exclude : List Nat := []
  noErr : Bool := false
  /-- reader implementation name sent to the harness when it differs from the model kind's (e.g. a bufio.Reader with a
  193-byte buffer is modelled by `.bufio`) -/
  readerName : Option String := none
  deriving Inhabited

def ReaderKind.name : ReaderKind → String
  | .seek => "seek" | .bufio => "bufio" | .plain => "plain" | .bufioSmall => "bufio64"
def ParserKind.name : ParserKind → String
  | .none => "none" | .observer => "observer" | .replacer => "replacer" | .failing => "failing" | .dropper => "dropper"

def mkDemux (bs : Bytes) (c : DemuxCfg) : Demux :=
  { r := { data := bs, kind := c.kind, faultAt := c.fault.map (·.1), faultOnce := (c.fault.map (·.2)).getD true },
    optPacketSize := c.size, skipper := c.skipper.toModel, parser := c.parser }

/-- result of one call, as rendered in the `seq` view -/
inductive CallRes where
  | data (r : Res DemuxerData) (pos : Nat)
  | packet (r : Res Packet) (pos : Nat)
  | rewound (n : Int) (pos : Nat)
  | poisoned

def posStr (k : ReaderKind) (pos : Nat) : String := if k == .bufio || k == .bufioSmall then "-" else toString pos

def CallRes.show (k : ReaderKind) : CallRes → String
  | .data r pos => r.showPub DemuxerData.toJson ++ "@" ++ posStr k pos
  | .packet r pos => r.showPub Packet.toJson ++ "@" ++ posStr k pos
  | .rewound n pos => s!"rewind:{n}@" ++ posStr k pos
  | .poisoned => "poison"

def CallRes.item : CallRes → String
  | .data r _ => r.showPub DemuxerData.toJson
  | .packet r _ => r.showPub Packet.toJson
  | .rewound n _ => s!"rewind:{n}"
  | .poisoned => "poison"

def CallRes.isEOF : CallRes → Bool
  | .data (.err .eof) _ => true | .packet (.err .eof) _ => true | _ => false

/-- results up to and including the first end of stream -/
def untilEOF : List CallRes → List CallRes
  | [] => []
  | r :: rs => if r.isEOF then [r] else r :: untilEOF rs

def CallRes.outcome : CallRes → String
  | .data (.ok _) _ => "ok" | .packet (.ok _) _ => "ok"
  | .data (.err e) _ => e.pub | .packet (.err e) _ => e.pub
  | .data .panic _ => "panic" | .packet .panic _ => "panic"
  | .rewound _ _ => "rewind" | .poisoned => "poison"

def runCalls (d : Demux) (packetAPI : Bool) : List Call → List CallRes × Demux
  | [] => ([], d)
  | .next :: r =>
    if packetAPI then
      let (x, d') := d.nextPacket
      let (rs, d'') := runCalls d' packetAPI r
      (.packet x d'.r.pos :: rs, d'')
    else
      let (x, d') := d.nextData
      let (rs, d'') := runCalls d' packetAPI r
      (.data x d'.r.pos :: rs, d'')
  | .rewind :: r =>
    let (n, d') := d.rewind
    let (rs, d'') := runCalls d' packetAPI r
    (.rewound n d'.r.pos :: rs, d'')
  | .poison :: r =>
    let (rs, d') := runCalls d packetAPI r
    (.poisoned :: rs, d')

/-- number of `next` calls until the model returns end of stream (bounded) -/
def callsToEOF (d : Demux) (packetAPI : Bool) : Nat → Nat → Nat
  | 0, acc => acc
  | fuel + 1, acc =>
    if packetAPI then
      match d.nextPacket with
      | (.err .eof, _) => acc + 1
      | (_, d') => callsToEOF d' packetAPI fuel (acc + 1)
    else
      match d.nextData with
      | (.err .eof, _) => acc + 1
      | (_, d') => callsToEOF d' packetAPI fuel (acc + 1)

def skipLogStr (l : List Packet) : String :=
  jarr (l.map fun p => jstr s!"{p.header.pid}.{p.header.continuityCounter}.{(p.adaptationField.map (·.length)).getD (-1)}.{p.payload.length}")

def parserLogStr (l : List (Nat × List Nat)) : String :=
  jarr (l.map fun (pid, ccs) => jstr (s!"{pid}:" ++ ",".intercalate (ccs.map toString)))

def isTable (d : DemuxerData) : Bool := d.pat.isSome || d.pmt.isSome

/-- the model's observation -/
def observe (c : DemuxCfg) (rs : List CallRes) (final : Demux) : String :=
  match c.view with
  | .seq => "|".intercalate (rs.map (·.show c.kind)) ++ ";skip=" ++ skipLogStr final.skipLog
              ++ ";parser=" ++ parserLogStr final.parserLog ++ ";stable=true"
  | .outcomes => ",".intercalate (rs.map (·.outcome))
  | .items => "|".intercalate ((untilEOF rs).map (·.item))
  | .tablepos => jarr (rs.filterMap fun r => match r with
      | .data (.ok d) pos => if isTable d then some (jstr s!"{d.pid}:{pos}") else none
      | _ => none)
  | .perpid =>
    let ds := rs.filterMap fun r => match r with | .data (.ok d) _ => some d | _ => none
    let ds := ds.filter fun d => (!c.onlyPES || d.pes.isSome) && !c.exclude.contains d.pid
    let pids := ((ds.map (·.pid)).eraseDups.toArray.qsort (· < ·)).toList
    let errors := (rs.filter fun r => match r with
      | .data (.err e) _ => e != .eof | .data .panic _ => true | _ => false).length
    let ending := match rs.getLast? with | some (.data (.err .eof) _) => "eof" | _ => "other"
    Spec.showPerPID (pids.map fun pid => (pid, ds.filter (·.pid == pid))) errors ending c.noErr

def callsJson (cs : List Call) : String :=
  jarr (cs.map fun c => match c with | .next => jstr "next" | .rewind => jstr "rewind" | .poison => jstr "poison")

/-- build the case; `calls = none` means: call `next` until the model reaches end of stream, plus two -/
def demuxCase (bs : Bytes) (c : DemuxCfg) (calls : Option (List Call)) (spec : Option String) (tag : String)
    (cls : String := "") (judge : String := "") : Case :=
  let d0 := mkDemux bs c
  let cs := match calls with
    | some cs => cs
    | none => List.replicate (callsToEOF d0 c.packetAPI (bs.length / 188 + 8) 0 + 2) Call.next
  let (rs, final) := runCalls d0 c.packetAPI cs
  { op := "demux",
    args := [("hex", jhex bs), ("size", jnat c.size), ("reader", jstr (c.readerName.getD c.kind.name)), ("chunks", jarr (c.chunks.map jnat)),
             ("fault", match c.fault with | some (pos, once) => jobj [("at", jnat pos), ("once", jbool once)] | none => "null"),
             ("skip", c.skipper.toJson), ("parser", jstr c.parser.name), ("api", jstr (if c.packetAPI then "packet" else "data")),
             ("calls", callsJson cs), ("view", jstr c.view.name), ("onlyPES", jbool c.onlyPES),
             ("exclude", jarr (c.exclude.map jnat)), ("noErr", jbool c.noErr)] ++ (if judge = "" then [] else [("judge", jstr judge)]),
    model := observe c rs final, spec := spec, tag := tag, cls := cls }

end Astits
