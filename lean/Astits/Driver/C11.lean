import Astits.Driver.Common
import Astits.Gen.Packet
import Astits.Spec.TS
namespace Astits.DriverC11

def showParse (r : Res Packet) : String := r.showPub Packet.toJson

/-- observation of a write: returned count and the bytes that reached the writer -/
def showWrite (r : Res Bytes) : String :=
  match r with
  | .ok bs => s!"ok:n={bs.length}:{hex bs}"
  | .err e => s!"err:{e.pub}:n=0:"
  | .panic => "panic"

def parseCase (bs : Bytes) (spec : Option Packet) (tag : String) : Case :=
  { op := "parsePacket", args := [("hex", jhex bs)], model := showParse ((parsePacket none).val bs),
    spec := spec.map fun p => "ok:" ++ p.toJson, tag := tag }

def writeCase (p : Packet) (spec : Option String) (tag : String) : Case :=
  { op := "writePacket", args := [("packet", p.toJson), ("target", "188")], model := showWrite (writePacket p 188),
    spec := spec, tag := tag }

/-- NextPacket → WritePacket must reproduce the bytes -/
def reemitCase (bs : Bytes) (tag : String) (cls : String := "") : Case :=
  let m := match (parsePacket none).val bs with
    | .ok p => showWrite (writePacket p 188)
    | .err e => "parse-err:" ++ e.pub
    | .panic => "panic"
  { op := "reemit", args := [("hex", jhex bs)], model := m, spec := some s!"ok:n=188:{hex bs}", tag := tag, cls := cls }

/-- several packets read with NextPacket FIRST, then all re-emitted with WritePacket: the bytes of the stream -/
def reemitStreamCase (pkts : List Bytes) (tag : String) (afterTables : Bool := false) : Case :=
  let outs := pkts.map fun bs => match (parsePacket none).val bs with
    | .ok p => (match writePacket p 188 with | .ok w => some w | _ => none)
    | _ => none
  let m := if outs.all Option.isSome then s!"ok:{hex (outs.filterMap id).flatten}" else "err"
  { op := "reemitStream", args := [("hex", jhex pkts.flatten), ("afterTables", jbool afterTables)], model := m, spec := some s!"ok:{hex pkts.flatten}", tag := tag }

def mutate (bs : Bytes) : Gen Bytes := do
  let k ← randBelow 4
  match k with
  | 0 => do -- flip one bit
    let i ← randBelow bs.length; let b ← randBelow 8
    return bs.set i ((bs.getD i 0) ^^^ (2 ^ b))
  | 1 => do -- overwrite a byte in the header / AF area
    let i ← randBelow 16; let v ← randBelow 256
    return bs.set i v
  | 2 => do -- overwrite AF length
    let v ← randBelow 256
    return bs.set 4 v
  | _ => do
    let i ← randBelow bs.length; let v ← randBelow 256
    return bs.set i v

def run (t : Tier) : Emit Unit := do
  -- (1) conformant packets, both directions and re-emission
  for _ in [0:400 * t.scale] do
    let p ← liftGen genPacket
    let bs := Spec.tsEncode p
    emit "C11" (parseCase bs (some p) "parse-conformant")
    emit "C11" (writeCase p (some s!"ok:n=188:{hex bs}") "write-conformant")
    emit "C11" (reemitCase bs "reemit-conformant")
    -- the same packet carried in a 192 / 204 byte frame: extra bytes after the sync byte are skipped
    let k ← liftGen (pick [4, 16, 1])
    let extra ← liftGen (randBytes k)
    emit "C11" (parseCase (Spec.tsExpand extra bs) (some p) "parse-oversize-frame")
  -- (1b) packets kept by the caller while further packets are read, then re-emitted
  for _ in [0:10 * t.scale] do
    let n ← liftGen (randRange 2 6)
    let ps ← liftGen (genList n genPacket)
    emit "C11" (reemitStreamCase (ps.map Spec.tsEncode) "reemit-after-reading-on")
    emit "C11" (reemitStreamCase (ps.map Spec.tsEncode) "reemit-on-a-used-muxer" true)
  -- (2) header space: every PID; every combination of the other header fields
  for pid in [0:8192] do
    if t.quick && pid % 8 != 0 && pid > 64 && pid < 8128 then continue
    let h ← liftGen (genHeaderWith false true)
    let pl ← liftGen (randBytes 184)
    let p : Packet := { adaptationField := none, header := { h with pid := pid }, payload := pl }
    let bs := Spec.tsEncode p
    emit "C11" (parseCase bs (some p) "header-pid")
    emit "C11" (writeCase p (some s!"ok:n=188:{hex bs}") "header-pid")
  for k in [0:512] do
    let cc := k % 16
    let tsc := k / 16 % 4
    let fl := k / 64
    let pid ← liftGen (randField 13)
    let pl ← liftGen (randBytes 184)
    let h : PacketHeader :=
      { continuityCounter := cc, hasAdaptationField := false, hasPayload := true,
        payloadUnitStartIndicator := fl % 2 = 1, pid := pid, transportErrorIndicator := fl / 2 % 2 = 1,
        transportPriority := fl / 4 % 2 = 1, transportScramblingControl := tsc }
    let p : Packet := { adaptationField := none, header := h, payload := pl }
    let bs := Spec.tsEncode p
    emit "C11" (parseCase bs (some p) "header-flags")
    emit "C11" (writeCase p (some s!"ok:n=188:{hex bs}") "header-flags")
  -- (3) every adaptation_field_length 0..183
  for l in [0:184] do
    let h ← liftGen (genHeaderWith true (l < 183))
    let af ← liftGen (genAF l)
    let pl ← liftGen (randBytes (183 - l))
    let p : Packet := { adaptationField := some af, header := h, payload := pl }
    let bs := Spec.tsEncode p
    emit "C11" (parseCase bs (some p) "af-length")
    emit "C11" (writeCase p (some s!"ok:n=188:{hex bs}") "af-length")
    emit "C11" (reemitCase bs "reemit-af-length")
  -- (4) PCR values: every single-bit base / extension value, all ones
  for k in [0:44] do
    let c : ClockReference :=
      if k < 33 then { base := (2 ^ k : Nat), extension := 0 }
      else if k < 42 then { base := 0, extension := (2 ^ (k - 33) : Nat) }
      else if k = 42 then { base := (2 ^ 33 - 1 : Nat), extension := 511 } else { base := 0, extension := 0 }
    let h ← liftGen (genHeaderWith true true)
    let af : PacketAdaptationField := { length := 7, hasPCR := true, pcr := some c, stuffingLength := 0 }
    let pl ← liftGen (randBytes 176)
    let p : Packet := { adaptationField := some af, header := h, payload := pl }
    let bs := Spec.tsEncode p
    emit "C11" (parseCase bs (some p) "pcr-bits")
    emit "C11" (writeCase p (some s!"ok:n=188:{hex bs}") "pcr-bits")
  -- (5) writePacket: short payloads are padded with 0xff; oversize payloads are rejected with nothing written
  for _ in [0:100 * t.scale] do
    let p ← liftGen genPacket
    let cut ← liftGen (randBelow (p.payload.length + 1))
    let p1 := { p with payload := p.payload.take cut }
    emit "C11" (writeCase p1 none "write-short-payload")
    let more ← liftGen (randRange 1 40)
    let extra ← liftGen (randBytes more)
    let p2 := { p with payload := p.payload ++ extra, header := { p.header with hasPayload := true } }
    emit "C11" (writeCase p2 (some "err:other:n=0:") "write-oversize")
  -- (5b) the redundant length fields of the caller's struct contradict the data (TransportPrivateDataLength 0 / short /
  --      long with private data present; adaptation field and extension Length fields stale): the bytes written are
  --      those of the reference encoding, which derives every length from the data
  for _ in [0:150 * t.scale] do
    let p ← liftGen genPacket
    match p.adaptationField with
    | none => pure ()
    | some a =>
      if a.hasTransportPrivateData && !a.isOneByteStuffing then
        let bs := Spec.tsEncode p
        let n := a.transportPrivateData.length
        for stale in ([0, 1, (n : Int) + 1, 255, (n : Int) - 1] : List Int) do
          if stale ≥ 0 && stale != (n : Int) then
            let a' := { a with transportPrivateDataLength := stale, length := 0 }
            let p' := { p with adaptationField := some a' }
            emit "C11" (writeCase p' (some s!"ok:n=188:{hex bs}") "write-stale-length-fields")
  -- (5c) HasPayload false although the struct holds payload bytes; HasAdaptationField false although it holds an
  --      adaptation field: what the flags say is what is written
  for _ in [0:40 * t.scale] do
    let p ← liftGen genPacket
    if p.header.hasAdaptationField && !(p.adaptationField.map (·.isOneByteStuffing)).getD true then
      let pl ← liftGen (randBytes 20)
      emit "C11" (writeCase { p with header := { p.header with hasPayload := false }, payload := pl } none "write-flags-contradict-struct")
    if !p.header.hasAdaptationField then
      let a ← liftGen (genAF 7)
      emit "C11" (writeCase { p with adaptationField := some a } none "write-flags-contradict-struct")
  -- (5d) adaptation fields whose inner lengths run past the adaptation field or the packet: private data length
  --      150..183 and 255 in front of an extension, every adaptation_field_length that cuts it, four fillers
  for l in (List.range 34).map (· + 150) ++ [255, 0] do
    for afl in [183, l + 2, l + 3, l + 4, l + 6, 1, 2] do
      for fill in [0xff, 0x00, 0x01, 0xe0] do
        if afl ≤ 183 then
          let bs : Bytes := [0x47, 0x01, 0x00, 0x20, afl, 0x03, l] ++ List.replicate 181 fill
          emit "C11" (parseCase bs none "parse-af-inner-lengths")
  -- the same for the extension alone: its length byte 0..12, every flags combination, three adaptation field lengths
  for el in [0:13] do
    for fl in [0:8] do
      for afl in [2 + el, 3 + el, 183] do
        let bs : Bytes := [0x47, 0x01, 0x00, 0x20, afl, 0x01, el, fl * 32 + 0x1f] ++ (List.range 180).map (· % 251 + 1)
        emit "C11" (parseCase bs none "parse-af-extension-lengths")
  -- (6) malformed input: mutations of conformant packets and random bytes (model only: never a panic)
  for _ in [0:400 * t.scale] do
    let p ← liftGen genPacket
    let bs ← liftGen (mutate (Spec.tsEncode p))
    emit "C11" (parseCase bs none "parse-mutated")
  for _ in [0:100 * t.scale] do
    let bs ← liftGen (randBytes 188)
    emit "C11" (parseCase (bs.set 0 0x47) none "parse-random")
  -- (7) adversarial: adaptation field extension carrying trailing reserved bytes (see known findings)
  for _ in [0:20] do
    let h ← liftGen (genHeaderWith true true)
    let r ← liftGen (randRange 1 5)
    -- AF: flags byte (ext only), ext length = 1 + r, ext flags 0x1f, r reserved bytes 0xff
    let afb : Bytes := [2 + 1 + r, 0x01, 1 + r, 0x1f] ++ List.replicate r 0xff
    let pl ← liftGen (randBytes (184 - afb.length))
    let bs := Spec.enc [(8, 0x47), Spec.bit h.transportErrorIndicator, Spec.bit h.payloadUnitStartIndicator,
      Spec.bit h.transportPriority, (13, h.pid), (2, h.transportScramblingControl), (1, 1), (1, 1),
      (4, h.continuityCounter)] ++ afb ++ pl
    emit "C11" (reemitCase bs "reemit-afext-reserved" "af-extension-reserved-bytes")

end Astits.DriverC11
