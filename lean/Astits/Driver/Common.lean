/-
Driver side of the line protocol: a case = one operation for the Go harness together with what the
*model* returns on it (`model`) and, where the property pins the result down, what the independent
*spec* demands (`spec`).  The harness runs the real code and compares strings:
  impl ≠ spec   → the implementation violates the property on this concrete input (replayable)
  impl ≠ model  → the correspondence model ↔ code is broken on this input
-/
import Astits.Basic
namespace Astits

structure Case where
  op    : String
  args  : List (String × String) := []   -- values already JSON-encoded
  model : String
  spec  : Option String := none
  cls   : String := ""        -- known-finding class this case deliberately belongs to ("" = none)
  nt    : Bool := true        -- counted as non-trivial
  tag   : String := ""        -- generator stratum, for the coverage histogram

/-- escape for embedding canonical JSON text inside a JSON string -/
def jesc (s : String) : String :=
  s.foldl (fun acc c => if c = '"' then acc ++ "\\\"" else if c = '\\' then acc ++ "\\\\" else acc.push c) ""

def Case.line (c : Case) (prop : String) (id : Nat) : String :=
  jobj ([("id", jnat id), ("prop", jstr prop), ("do", jstr c.op)] ++ c.args ++
    [("model", jstr (jesc c.model))] ++ (match c.spec with | some s => [("spec", jstr (jesc s))] | none => []) ++
    [("cls", jstr c.cls), ("nt", jbool c.nt), ("tag", jstr c.tag)])

def hex32 (v : Nat) : String := hex (beBytes 4 v)

structure Tier where
  quick : Bool
  /-- scale factor for case counts -/
  scale : Nat

def Tier.ofString (s : String) : Tier :=
  if s = "thorough" then { quick := false, scale := 10 } else { quick := true, scale := 1 }

/-- emit cases lazily: a generator is an IO action that prints lines, threading the PRNG state -/
abbrev Emit := StateT (UInt64 × Nat) IO

def emit (prop : String) (c : Case) : Emit Unit := do
  let (s, id) ← get
  IO.println (c.line prop id)
  set (s, id + 1)

def liftGen {α} (g : Gen α) : Emit α := do
  let (s, id) ← get
  let (a, s') := g.run s
  set (s', id)
  return a

end Astits
