import Astits.Driver.DemuxOp
import Astits.Gen.Stream
namespace Astits.DriverC02
open Spec

/-- index (within the unit) of the packet carrying the last section byte -/
def completingPacket (u : TSUnit) (sectionEnd : Nat) : Nat :=
  let rec go (cs : List Nat) (acc i : Nat) : Nat :=
    match cs with
    | [] => i
    | c :: r => if acc + c ≥ sectionEnd then i else go r (acc + c) (i + 1)
  go u.chunks 0 0

/-- stream position (bytes) after the n-th (0-based) packet of `pid` in the merged stream -/
def posAfter (merged : List Packet) (pid ordinal : Nat) : Nat :=
  let rec go (ps : List Packet) (seen idx : Nat) : Nat :=
    match ps with
    | [] => idx * 188
    | p :: r => if p.header.pid == pid then (if seen == ordinal then (idx + 1) * 188 else go r (seen + 1) (idx + 1))
                else go r seen (idx + 1)
  go merged 0 0

/-- expected (pid, reader position) of every PAT/PMT datum, in stream order; `ends u` = offset in the
unit payload where its last section ends -/
def tablePositions (m : StreamModel) (tablePIDs : List Nat) (ends : TSUnit → Nat) : String :=
  let merged := m.packets
  let entries := (tablePIDs.map fun pid =>
    let us := m.units.filter (·.pid == pid)
    let (l, _) := us.foldl (fun (acc : List (Nat × Nat) × Nat) u =>
      let (l, start) := acc
      let pos := posAfter merged pid (start + completingPacket u (ends u))
      (l ++ (u.data.map fun _ => (pos, pid)), start + u.chunks.length)) ([], 0)
    l).flatten
  let sorted := (entries.toArray.qsort (fun a b => a.1 < b.1)).toList
  jarr (sorted.map fun (pos, pid) => jstr s!"{pid}:{pos}")

def run (t : Tier) : Emit Unit := do
  for i in [0:60 * t.scale] do
    let npes ← liftGen (randBelow 4)
    let pesPIDs := (List.range npes).map (0x100 + ·)
    let withTables ← liftGen (chance 3 4)
    let cfg : StreamCfg := { pesPIDs := pesPIDs, pmtPIDs := if withTables then [0x1000] else [], dvb := i % 2 = 0, unitsPerPID := 2, maxPayload := (if i % 7 = 0 then 3000 else 500), multiPMT := 3 }
    let m ← liftGen (genStream cfg)
    let bs := m.bytes
    emit "C02" (demuxCase bs { view := .perpid } none (some (showPerPID m.expected 0 "eof")) "stream-perpid")
    emit "C02" (demuxCase bs { view := .seq } none none "stream-seq")
  -- PAT / PMT are returned by the call that reads their final packet (no read-ahead), explicit and auto-detected size
  for i in [0:60 * t.scale] do
    let npes ← liftGen (randRange 1 3)
    let m ← liftGen (genStream { pesPIDs := (List.range npes).map (0x100 + ·), pmtPIDs := [0x1000, 0x1001], dvb := false, unitsPerPID := 2, multiPMT := 3, longPMT := i % 3 = 0, splitPAT := i % 4 = 1 })
    let bs := m.bytes
    let auto := i % 2 = 1
    let spec := tablePositions m [0, 0x1000, 0x1001] (·.sectionsEnd)
    emit "C02" (demuxCase bs { view := .tablepos, size := if auto then 0 else 188 } none (some spec) "tables-no-readahead")

  -- units whose reassembled payload is exactly as long as the buffer the previous unit left in the byte pool (the pool
  -- starts at 1024 bytes and grows to the allocator's size classes: a unit of c-1 bytes leaves a c-byte buffer), and one
  -- byte shorter / longer: the payload is delivered whole
  for c in [1024, 1152, 1280, 1536, 2048, 3072, 4096, 8192, 66000] do
    let mut units : List TSUnit := []
    -- (66000: one unit beyond 64 KiB, then a small one, a big one, medium and small ones: a buffer much larger than needed)
    for total in (if c = 66000 then [c, 500, 40000, 3000, 1500, 200, 9000, 1025] else [c - 1, c, c, c + 1, c]) do
      let n := total - 9
      let payload ← liftGen (randBytes n)
      let h : PESHeader := { optionalHeader := some { markerBits := 2, headerLength := 0 }, streamID := 0xe0, packetLength := 0 }
      let bytes := pesEncode h 0 payload
      let chunks := List.replicate (bytes.length / 184) 184 ++ (if bytes.length % 184 = 0 then [] else [bytes.length % 184])
      units := units ++ [({ pid := 0x100, payload := bytes, data := [{ pes := some { data := payload, header := h } }], psi := false, chunks := chunks, firstAF := none } : TSUnit)]
    let m : StreamModel := { units := units, schedule := [] }
    emit "C02" (demuxCase m.bytes { view := .perpid } none (some (showPerPID m.expected 0 "eof")) "unit-exactly-fills-the-pooled-buffer")
  -- a PMT unit of two large sections (section_length >= 256) cut so that the second section's three header bytes lie on
  -- both sides of a packet boundary (table_id | length, table_id length-high | length-low): the unit is complete when its
  -- last byte has arrived, not before
  for rep in [0:(if t.quick then 2 else 8)] do
    let (s1, b1) ← liftGen (genSectionOfKind 1 true)
    let (s2, b2) ← liftGen (genSectionOfKind 1 true)
    if b1.length < 256 || b2.length < 256 || b1.length + b2.length > 3000 then continue
    let bytes := Spec.unitEncode 0 [b1, b2] 0
    let m0 ← liftGen (genStream { pesPIDs := [0x100], pmtPIDs := [0x1000], dvb := false, unitsPerPID := 1 })
    let patU := m0.units.filter (·.pid == 0)
    for split in [1 + b1.length + 1, 1 + b1.length + 2, 1 + b1.length + 3] do
      let post := bytes.length - split
      let chunks := (if split % 184 = 0 then [] else [split % 184]) ++ List.replicate (split / 184) 184 ++ List.replicate (post / 184) 184 ++ (if post % 184 = 0 then [] else [post % 184])
      let u : TSUnit := { pid := 0x1000, payload := bytes, data := [dataOfSection s1, dataOfSection s2], psi := true, chunks := chunks, sectionsEnd := bytes.length }
      let pes ← liftGen (genPESUnit 0x100 200)
      let m : StreamModel := { units := patU ++ [u, pes, u], schedule := [] }
      emit "C02" (demuxCase m.bytes { view := .perpid } none (some (showPerPID m.expected 0 "eof")) "section-header-straddles-a-packet-boundary")
      let _ := rep
  -- PES PIDs at every single-bit distance from the PMT PID: none of them is a table PID
  for half in [0, 1] do
    let nbrs := (((List.range 13).map fun k => 0x1000 ^^^ (2 ^ k)).filter fun p => p != 0 && p < 0x1fff).drop (half * 6) |>.take 6
    let m ← liftGen (genStream { pesPIDs := nbrs, pmtPIDs := [0x1000], dvb := false, unitsPerPID := 2 })
    emit "C02" (demuxCase m.bytes { view := .perpid } none (some (showPerPID m.expected 0 "eof")) "pes-pids-one-bit-from-the-pmt-pid")
  -- the PAT also lists programme 0 -> network PID 0x10 (as DVB multiplexes do): the NIT on that PID is an SI table like
  -- any other, delivered when its unit ends, not a PMT
  for _ in [0:(if t.quick then 6 else 40)] do
    let m ← liftGen (genStream { pesPIDs := [0x100, 0x101], pmtPIDs := [0x1000], dvb := true, unitsPerPID := 3, networkPID := true })
    emit "C02" (demuxCase m.bytes { view := .perpid } none (some (showPerPID m.expected 0 "eof")) "pat-with-network-pid")
    emit "C02" (demuxCase m.bytes { view := .items } none none "pat-with-network-pid")
  -- a unit of the PMT PID in front of the PAT (a capture that starts mid-cycle; it carries nothing decodable): the PMTs that
  -- follow the PAT are still returned by the calls that read their final packets
  for i in [0:(if t.quick then 6 else 30)] do
    let m ← liftGen (genStream { pesPIDs := [0x100], pmtPIDs := [0x1000], dvb := false, unitsPerPID := 2, multiPMT := 2, longPMT := i % 2 = 0 })
    let strayU : TSUnit := { pid := 0x1000, payload := [0] ++ List.replicate 20 0xff, data := [], psi := true, chunks := [21], sectionsEnd := 1 }
    let m2 : StreamModel := { units := strayU :: m.units, schedule := 0x1000 :: m.schedule }
    let spec := tablePositions m2 [0, 0x1000] (·.sectionsEnd)
    emit "C02" (demuxCase m2.bytes { view := .tablepos } none (some spec) "pmt-pid-seen-before-pat")
    emit "C02" (demuxCase m2.bytes { view := .perpid } none (some (showPerPID m2.expected 0 "eof")) "pmt-pid-seen-before-pat-data")
    -- … and packets of one, two, three other PIDs nobody announces between that unit and the PAT
    for extra in [1, 2, 3] do
      let others := (List.range extra).map fun k => ({ pid := 0x300 + k, payload := [9, 9, 9, 9, 9], data := [], psi := false, chunks := [5] } : TSUnit)
      -- (order: the stray unit, the unknown PIDs, the whole PAT, every PMT packet, then the elementary streams — no other
      -- PID is seen between the PAT and the PMTs)
      let m3 : StreamModel := { units := [strayU] ++ others ++ m.units, schedule := [0x1000] ++ others.map (·.pid) ++ List.replicate 60 0 ++ List.replicate 400 0x1000 }
      emit "C02" (demuxCase m3.bytes { view := .perpid } none (some (showPerPID m3.expected 0 "eof")) "pmt-pid-and-unknown-pids-seen-before-pat")
  -- sections the library does not decode (TDT 0x70, RST 0x71, BAT 0x4a, ST 0x72, DIT 0x7e, SIT 0x7f) are stepped over by
  -- their section_length: the sections that follow them in the same unit are delivered
  -- (also with section_length 0: a bare header)
  for tid in [0x70, 0x71, 0x4a, 0x72, 0x7e, 0x7f, 0x1070, 0x1072, 0x104a] do
    let body ← (if tid ≥ 0x1000 then pure [] else do liftGen (randBytes (← liftGen (randRange 1 20))) : Emit Bytes)
    let tid := tid % 0x1000
    let raw : Bytes := [tid, 0x70 + body.length / 256, body.length % 256] ++ body
    let (s1, b1) ← liftGen (genSectionOfKind 5 false)
    let (s2, b2) ← liftGen (genSectionOfKind 5 false)
    let ptr ← liftGen (randBelow 3)
    let bytes := Spec.unitEncode ptr [raw, b1, b2] 0
    let (chunks, _) ← liftGen (mkChunks bytes.length false)
    let u : TSUnit := { pid := 0x14, payload := bytes, data := [dataOfSection s1, dataOfSection s2], psi := true, chunks := chunks,
                        sectionsEnd := bytes.length }
    let pes ← liftGen (genPESUnit 0x100 200)
    let m : StreamModel := { units := [u, pes], schedule := [] }
    emit "C02" (demuxCase m.bytes { view := .perpid } none (some (showPerPID m.expected 0 "eof")) "undecoded-section-stepped-over")
  -- outside the property's domain (ISO/IEC 13818-1 2.4.4.1): an inner section of a PMT unit starting on the first
  -- payload byte of a continuation packet; model and implementation are compared, nothing is judged
  for _ in [0:10 * t.scale] do
    let ps ← liftGen (patSection [0x1000])
    let pat ← liftGen (mkPSIUnit 0 [ps])
    let ss ← liftGen (genList 2 (genSectionOfKind 1 false))
    let u ← liftGen (mkPSIUnitMulti 0x1000 ss false)
    let pes ← liftGen (genPESUnit 0x100 300)
    let units := [pat, u, pes]
    let per := perPID units
    let m : StreamModel := { units := units, schedule := (per.map fun (pid, pk, _) => List.replicate pk.length pid).flatten }
    emit "C02" (demuxCase m.bytes { view := .seq } none none "nonconformant-inner-section-on-packet-edge")

end Astits.DriverC02
