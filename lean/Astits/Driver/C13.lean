import Astits.Driver.Common
import Astits.Gen.PSI
namespace Astits.DriverC13

def showParse (r : Res PSIData) : String := r.showPub PSIData.toJson

def showWrite (r : Res Bytes) : String :=
  match r with
  | .ok bs => s!"ok:n={bs.length}:{hex bs}"
  | .err e => s!"err:{e.pub}:n=0:"
  | .panic => "panic"

def parseCase (bs : Bytes) (spec : Option PSIData) (tag : String) : Case :=
  { op := "parsePSI", args := [("hex", jhex bs)], model := showParse (parsePSIData.val bs),
    spec := spec.map fun d => "ok:" ++ d.toJson, tag := tag }

def stopSection : PSISection := { header := some { tableID := 255, tableType := "Null" } }

def kindName (k : Nat) : String := ["PAT", "PMT", "SDT", "NIT", "EIT", "TOT"].getD k "?"

def run (t : Tier) : Emit Unit := do
  -- (1) one section per unit, every table kind, small and large, pointer field and stuffing variants
  for k in [0:6] do
    for i in [0:60 * t.scale] do
      let big := i % 4 = 3
      let (s, bs) ← liftGen (genSectionOfKind k big)
      if bs.length > (if k = 4 then 4096 else 1024) then continue
      let ptr ← liftGen (do if (← chance 1 2) then pure 0 else randBelow 12)
      let stuff ← liftGen (do if (← chance 1 2) then pure 0 else randRange 1 30)
      let unit := Spec.unitEncode ptr [bs] stuff
      let exp : PSIData := { pointerField := ptr, sections := [s] ++ (if stuff > 0 then [stopSection] else []) }
      emit "C13" (parseCase unit (some exp) ("parse-" ++ kindName k ++ (if big then "-large" else "")))
      -- PAT and PMT: the library's writer must produce the reference bytes
      if k < 2 then
        let d : PSIData := { pointerField := 0, sections := [s] }
        emit "C13" { op := "writePSI", args := [("psi", d.toJson)], model := showWrite (writePSIData d),
                     spec := some (showWrite (.ok (Spec.unitEncode 0 [bs] 0))), tag := "write-" ++ kindName k ++ (if big then "-large" else "") }
        -- the flags of the struct's section header contradicting the table id (section_syntax_indicator / private bit
        -- cleared or set the other way round), the redundant SectionLength stale: correspondence with the model — what is
        -- announced must still be what is written
        if i % 5 = 0 then
          let s' := { s with header := s.header.map fun h => { h with sectionSyntaxIndicator := !h.sectionSyntaxIndicator, privateBit := !h.privateBit, sectionLength := (h.sectionLength + 7) % 4096 } }
          let d' : PSIData := { pointerField := 0, sections := [s'] }
          emit "C13" { op := "writePSI", args := [("psi", d'.toJson)], model := showWrite (writePSIData d'), spec := none, tag := "write-header-flags-contradict-table-id" }
  -- (1h) a NIT whose transport streams carry descriptor loops of 256 bytes and more (all 12 bits of the loop length)
  for n in [2, 3] do
    let mut tss : List NITDataTransportStream := []
    for j in [0:n] do
      let mut ds : List Descriptor := []
      for i in [0:2 + j] do
        let body ← liftGen (randBytes (if i % 2 = 0 then 200 else 130))
        ds := ds ++ [({ tag := 0x80 + i, length := body.length, userDefined := body } : Descriptor)]
      tss := tss ++ [{ originalNetworkID := 1 + j, transportDescriptors := ds, transportStreamID := 10 + j }]
    let sh ← liftGen (genSyntaxHeader 7)
    let (s, bs) := mkSection 0x40 false (some sh) { nit := some { networkDescriptors := [], networkID := 7, transportStreams := tss } }
    emit "C13" (parseCase (Spec.unitEncode 0 [bs] 0) (some { pointerField := 0, sections := [s] }) "parse-NIT-long-transport-descriptor-loops")
  -- (1i) the largest PAT sections the writer can be asked for: 251..253 programmes (section_length 1013..1021)
  for n in [251, 252, 253] do
    let progs := (List.range n).map fun i => ({ programMapID := 0x20 + i, programNumber := i + 1 } : PATProgram)
    let sh ← liftGen (genSyntaxHeader 3)
    let (s, bs) := mkSection 0 false (some sh) { pat := some { programs := progs, transportStreamID := 3 } }
    let d : PSIData := { pointerField := 0, sections := [s] }
    emit "C13" { op := "writePSI", args := [("psi", d.toJson)], model := showWrite (writePSIData d),
                 spec := some (showWrite (.ok (Spec.unitEncode 0 [bs] 0))), tag := "write-PAT-largest" }
    emit "C13" (parseCase (Spec.unitEncode 0 [bs] 0) (some d) "parse-PAT-largest")
  -- (1g) the writer with pointer fields 0..40 (filler bytes of value 0 in front of the first section)
  for ptr in [0, 1, 2, 7, 8, 9, 10, 16, 17, 31, 40] do
    let (s, bs) ← liftGen (genSectionOfKind (ptr % 2) false)
    let d : PSIData := { pointerField := ptr, sections := [s] }
    emit "C13" { op := "writePSI", args := [("psi", d.toJson)], model := showWrite (writePSIData d),
                 spec := some (showWrite (.ok (Spec.unitEncode ptr [bs] 0))), tag := "write-pointer-field" }
  -- (1a) a section whose struct says SectionLength 0 (the writer then emits nothing but the three header bytes) in front
  --      of, between and behind ordinary sections of one unit, and in a call of its own between ordinary calls: whatever
  --      the writer keeps between sections and calls must not leak into the next section
  for rep in [0:4] do
    let (s0, _) ← liftGen (genSectionOfKind (rep % 2) false)
    let bare : PSISection := { s0 with header := s0.header.map fun h => { h with sectionLength := 0 } }
    let dBare : PSIData := { pointerField := 0, sections := [bare] }
    emit "C13" { op := "writePSI", args := [("psi", dBare.toJson)], model := showWrite (writePSIData dBare), spec := none, tag := "write-header-only-section" }
    let (s, bs) ← liftGen (genSectionOfKind (rep % 2) false)
    let d : PSIData := { pointerField := 0, sections := [s] }
    emit "C13" { op := "writePSI", args := [("psi", d.toJson)], model := showWrite (writePSIData d),
                 spec := some (showWrite (.ok (Spec.unitEncode 0 [bs] 0))), tag := "write-after-a-header-only-section" }
    let (s2, _) ← liftGen (genSectionOfKind ((rep + 1) % 2) false)
    let dMix : PSIData := { pointerField := 0, sections := [bare, s, bare, s2, bare] }
    emit "C13" { op := "writePSI", args := [("psi", dMix.toJson)], model := showWrite (writePSIData dMix), spec := none, tag := "write-header-only-sections-in-a-unit" }
  -- (1b) PMT with descriptors at the top of the 8-bit length range, in the programme loop and in an ES loop
  for n in [250, 251, 252, 253, 254, 255] do
    for where_ in [0, 1] do
      let body ← liftGen (randBytes n)
      let d : Descriptor := { tag := 0x80 + n % 16, length := n, userDefined := body }
      let pmt : PMTData := { elementaryStreams := [{ elementaryPID := 0x100, elementaryStreamDescriptors := if where_ = 1 then [d] else [], streamType := 6 }],
                             pcrPID := 0x100, programDescriptors := if where_ = 0 then [d] else [], programNumber := 1 }
      let sh ← liftGen (genSyntaxHeader 1)
      let (s, bs) := mkSection 2 false (some sh) { pmt := some pmt }
      let psi : PSIData := { pointerField := 0, sections := [s] }
      emit "C13" { op := "writePSI", args := [("psi", psi.toJson)], model := showWrite (writePSIData psi),
                   spec := some (showWrite (.ok (Spec.unitEncode 0 [bs] 0))), tag := "write-PMT-max-descriptor" }
      emit "C13" (parseCase (Spec.unitEncode 0 [bs] 0) (some psi) "parse-PMT-max-descriptor")
  -- (1d) TOT sections for the first day of March and the last day of February of every year 1901..2038 (the days at
  -- which the year/month arithmetic of the date formula turns over)
  for y in [0:(if t.quick then 138 else 138)] do
    for back in [0, 1] do
      let year := 1901 + y
      -- days from 1900-03-01 (MJD 15079 = day -25508 of the Unix era) to 1 March of `year`, by counting leap days
      let n := ((List.range (year - 1900)).map fun i => 365 + (if Spec.isLeap (1900 + i + 1) then 1 else 0)).sum
      let days : Int := (n : Int) - 25508 - (back : Int)
      let sec ← liftGen (randBelow 86400)
      let tot : TOTData := { descriptors := [], utcTime := days * 86400 + (sec : Int) }
      let (s, bs) := mkSection 0x73 false none { tot := some tot }
      emit "C13" (parseCase (Spec.unitEncode 0 [bs] 0) (some { pointerField := 0, sections := [s] }) "parse-TOT-march-1")
  -- (1e) descriptor loops that need all 12 bits of their length inside tables: an EIT event and an SDT service with five
  -- descriptors of 255 / 254 bytes, a NIT with a long network loop
  for k in [0, 1, 2] do
    let mut ds : List Descriptor := []
    for i in [0:5] do
      let body ← liftGen (randBytes (if i % 2 = 0 then 255 else 254))
      ds := ds ++ [({ tag := 0x80 + i, length := body.length, userDefined := body } : Descriptor)]
    let sh ← liftGen (genSyntaxHeader 7)
    let st ← liftGen genUTC
    let sec : PSISection × Bytes := match k with
      | 0 => mkSection 0x50 false (some sh) { eit := some { events := [{ descriptors := ds, duration := 3600000000000, eventID := 1, hasFreeCSAMode := false, runningStatus := 4, startTime := st }],
                                                            lastTableID := 0x50, originalNetworkID := 1, segmentLastSectionNumber := 0, serviceID := 7, transportStreamID := 2 } }
      | 1 => mkSection 0x42 false (some sh) { sdt := some { originalNetworkID := 1, services := [{ descriptors := ds, hasEITPresentFollowing := true, hasEITSchedule := false, hasFreeCSAMode := false, runningStatus := 4, serviceID := 9 }], transportStreamID := 7 } }
      | _ => mkSection 0x40 false (some sh) { nit := some { networkDescriptors := ds, networkID := 7, transportStreams := [] } }
    let (s, bs) := sec
    emit "C13" (parseCase (Spec.unitEncode 0 [bs] 0) (some { pointerField := 0, sections := [s] }) "parse-long-descriptor-loop-in-table")
  -- (1f) TOT sections (short syntax: section_syntax_indicator 0) whose section_length has each of its upper bits set
  --      in turn (the header's flag bits sit in the same byte)
  for n in [1, 2, 3, 4, 5, 9, 17] do
    let mut ds : List Descriptor := []
    for i in [0:n] do
      let body ← liftGen (randBytes (if i = 0 then 210 else 200))
      ds := ds ++ [({ tag := 0x80 + i, length := body.length, userDefined := body } : Descriptor)]
    let st ← liftGen genUTC
    let (s, bs) := mkSection 0x73 false none { tot := some { descriptors := ds, utcTime := st } }
    emit "C13" (parseCase (Spec.unitEncode 0 [bs] 0) (some { pointerField := 0, sections := [s] }) "parse-TOT-long")
  -- (1c) the writer with several PAT / PMT sections in one unit: every section carries its own CRC
  for _ in [0:10 * t.scale] do
    let n ← liftGen (randRange 2 4)
    let mut ss : List PSISection := []
    let mut bss : List Bytes := []
    for _ in [0:n] do
      let k ← liftGen (randBelow 2)
      let (s, bs) ← liftGen (genSectionOfKind k false)
      ss := ss ++ [s]; bss := bss ++ [bs]
    let psi : PSIData := { pointerField := 0, sections := ss }
    emit "C13" { op := "writePSI", args := [("psi", psi.toJson)], model := showWrite (writePSIData psi),
                 spec := some (showWrite (.ok (Spec.unitEncode 0 bss 0))), tag := "write-several-sections" }
  -- (2) several sections per unit (mixed kinds)
  for _ in [0:100 * t.scale] do
    let n ← liftGen (randRange 2 5)
    let mut ss : List PSISection := []
    let mut bss : List Bytes := []
    for _ in [0:n] do
      let k ← liftGen (randBelow 6)
      let (s, bs) ← liftGen (genSectionOfKind k false)
      ss := ss ++ [s]; bss := bss ++ [bs]
    let ptr ← liftGen (randBelow 4)
    let stuff ← liftGen (randBelow 8)
    let unit := Spec.unitEncode ptr bss stuff
    let exp : PSIData := { pointerField := ptr, sections := ss ++ (if stuff > 0 then [stopSection] else []) }
    emit "C13" (parseCase unit (some exp) "parse-multi")
  -- (3) header fields at their extremes on a tiny PAT
  for v in [0:32] do
    for cni in [false, true] do
      let sh : PSISectionSyntaxHeader := { currentNextIndicator := cni, lastSectionNumber := 255 - v, sectionNumber := v * 8,
                                           tableIDExtension := 2 ^ (v % 16), versionNumber := v }
      let (s, bs) := mkSection 0 (v % 2 = 1) (some sh) { pat := some { programs := [{ programMapID := 2 ^ (v % 13), programNumber := 65535 - v }], transportStreamID := 2 ^ (v % 16) } }
      emit "C13" (parseCase (Spec.unitEncode 0 [bs] 0) (some { pointerField := 0, sections := [s] }) "parse-header-fields")
  -- (4) malformed: mutations / truncations (model only)
  for _ in [0:200 * t.scale] do
    let k ← liftGen (randBelow 6)
    let (_, bs) ← liftGen (genSectionOfKind k false)
    let unit := Spec.unitEncode 0 [bs] 2
    let i ← liftGen (randBelow unit.length); let v ← liftGen (randBelow 256)
    emit "C13" (parseCase (unit.set i v) none "parse-mutated")
    let cut ← liftGen (randBelow unit.length)
    emit "C13" (parseCase (unit.take cut) none "parse-truncated")

end Astits.DriverC13
