import Astits.Driver.MuxProps
import Astits.Spec.PSIDecode
import Astits.Gen.Stream
namespace Astits.DriverC09
open Spec

def showData (r : Res (List DemuxerData)) : String :=
  match r with
  | .ok ds => "ok:" ++ jarr (ds.map DemuxerData.toJson)
  | .err _ => "err"
  | .panic => "panic"

/-- the unit carried in packets of PID `pid` (184-byte pieces, last one stuffed through the adaptation field) -/
def unitPackets (pid : Nat) (unit : Bytes) : List Packet :=
  let u : TSUnit := { pid := pid, payload := unit, data := [], psi := true, chunks := (chunk184 (unit.length + 1) unit).map List.length }
  packetsOf u 0

def parseDataCase (pid : Nat) (pmt : List Nat) (unit : Bytes) (originals : List (Bytes × DemuxerData)) (tag : String) : Case :=
  let ps := unitPackets pid unit
  let pm : ProgramMap := pmt.map fun p => (p, 1)
  let fp : Packet := { (ps.headD default) with payload := [] }
  -- reference outcome: CRC first; an accepted section must be one of the unmodified originals
  let spec : Option String := match decodeUnit unit with
    | .error => some "err"
    | .sections l =>
      let ds := l.map fun (_, sb) => (originals.find? fun o => o.1 == sb).map (·.2)
      if ds.all Option.isSome then some ("ok:" ++ jarr ((ds.filterMap id).map fun d => ({ d with firstPacket := some fp, pid := pid } : DemuxerData).toJson))
      else none
  { op := "parseData", args := [("packets", jarr (ps.map Packet.toJson)), ("pmtPIDs", jarr (pmt.map jnat))],
    model := showData (parseData ps .none pm), spec := spec, tag := tag }

def pidForKind (k : Nat) : Nat × List Nat := match k with
  | 0 => (0, []) | 1 => (0x1000, [0x1000]) | 2 => (0x11, []) | 3 => (0x10, []) | 4 => (0x12, []) | _ => (0x14, [])

def run (t : Tier) : Emit Unit := do
  for k in [0:6] do
    for rep in [0:(if t.quick then 1 else 6)] do
      let (s, sb) ← liftGen (genSectionOfKind k false)
      let (s2, sb2) ← liftGen (genSectionOfKind k false)
      let two := rep % 2 = 1
      let unit := unitEncode 0 (if two then [sb, sb2] else [sb]) 3
      let (pid, pmt) := pidForKind k
      let originals := [(sb, dataOfSection s), (sb2, dataOfSection s2)]
      emit "C09" (parseDataCase pid pmt unit originals "intact")
      -- every single-bit flip of the unit (pointer field, sections, stuffing)
      for i in [0:unit.length * 8] do
        let u := unit.set (i / 8) ((unit.getD (i / 8) 0) ^^^ (2 ^ (7 - i % 8)))
        emit "C09" (parseDataCase pid pmt u originals "single-bit-flip")
      -- byte substitutions, bursts of up to 32 bits, truncations, extensions
      for _ in [0:(if t.quick then 30 else 100)] do
        let i ← liftGen (randBelow unit.length); let v ← liftGen (randBelow 256)
        emit "C09" (parseDataCase pid pmt (unit.set i v) originals "byte-substitution")
        let start ← liftGen (randBelow (unit.length * 8 - 32)); let len ← liftGen (randRange 2 32)
        let pat ← liftGen nextU64
        let mut u := unit
        for j in [0:len] do
          if j = 0 || j = len - 1 || (pat.toNat / 2 ^ j) % 2 = 1 then
            let b := start + j
            u := u.set (b / 8) ((u.getD (b / 8) 0) ^^^ (2 ^ (7 - b % 8)))
        emit "C09" (parseDataCase pid pmt u originals "burst-le-32")
        let cut ← liftGen (randRange 1 (unit.length - 1))
        emit "C09" (parseDataCase pid pmt (unit.take cut) originals "truncation")
        let extra ← liftGen (do let n ← randRange 1 8; randBytes n)
        emit "C09" (parseDataCase pid pmt ((unit.take (unit.length - 3)) ++ extra) originals "extension")
  -- muxed sections: PAT/PMT with elementary stream descriptors of any type that fit one packet
  for _ in [0:(if t.quick then 12 else 120)] do
    let n ← liftGen (randRange 1 4)
    let mut ops : List MuxOp := []
    for i in [0:n] do
      let es ← liftGen (DriverMux.genES (0x100 + i) true)
      ops := ops ++ [.add es, .setPCR 0x100, .tables]
    ops := ops ++ [.remove 0x100, .tables, .setPCR 0x101, .tables]
    emit "C09" (DriverMux.muxCase { period := 40, ops := ops } true "mux-sections")
  -- the same for every descriptor kind in turn (each length calculator decides section_length, hence where the CRC sits)
  for k in [0:25] do
    for _ in [0:(if t.quick then 3 else 20)] do
      let mut ds : List Descriptor := []
      let mut fuel := 20
      while fuel > 0 do
        fuel := fuel - 1
        let d ← liftGen (genDescriptorOfKind k)
        if (descriptorBody d).length ≤ 150 then
          -- every other case carries a stale `Length` in the struct: what is announced is what is written
          ds := (descsP [d]).map fun x => if fuel % 2 = 0 then { x with length := (x.length + 3) % 256 } else x
          fuel := 0
      let ops : List MuxOp := [.add { elementaryPID := 0x100, elementaryStreamDescriptors := ds, streamType := 0x06 }, .setPCR 0x100, .tables]
      emit "C09" (DriverMux.muxCase { period := 40, ops := ops } true "mux-sections-per-descriptor-kind")

  -- language codes that are not 3 bytes long: the field is 3 bytes on the wire (padded with 0 / truncated), and every
  -- length that is announced counts those 3 bytes
  for code in [[], [0x65], [0x65, 0x6e], [0x65, 0x6e, 0x67, 0x6c], [0x65, 0x6e, 0x67, 0x6c, 0x69]] do
    let code3 : Bytes := code.take 3 ++ List.replicate (3 - code.length) 0
    let mk (c : Bytes) : List MuxOp :=
      let d : Descriptor := { tag := descriptorTagISO639LanguageAndAudioType, iso639LanguageAndAudioType := some { language := c, type := 1 } }
      let d2 : Descriptor := { tag := descriptorTagStreamIdentifier, streamIdentifier := some { componentTag := 7 } }
      [.add { elementaryPID := 0x100, elementaryStreamDescriptors := descsP [d, d2], streamType := 0x0f }, .setPCR 0x100, .tables]
    let raw := DriverMux.muxCase { period := 40, ops := mk code } false "mux-sections-language-code-length"
    let norm := DriverMux.muxCase { period := 40, ops := mk code3 } true "x"
    emit "C09" { raw with spec := norm.spec }
  -- VBI data: every data service id x 0..3 lines (the per-service size depends on the id)
  for id in [1, 2, 4, 5, 6, 7, 0, 3, 0x10] do
    for lines in [0:4] do
      let descs := (List.range lines).map fun i => ({ fieldParity := i % 2 = 0, lineOffset := (7 + i) % 32 } : DescriptorVBIDataDescriptor)
      let d : Descriptor := { tag := descriptorTagVBIData, vbiData := some { services := [{ dataServiceID := id, descriptors := if isKnownVBIDataServiceID id then descs else [] }] } }
      let ops : List MuxOp := [.add { elementaryPID := 0x100, elementaryStreamDescriptors := descsP [d], streamType := 0x06 }, .setPCR 0x100, .tables]
      emit "C09" (DriverMux.muxCase { period := 40, ops := ops } true "mux-sections-vbi-data")

end Astits.DriverC09
