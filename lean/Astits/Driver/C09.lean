import Astits.Driver.MuxProps
import Astits.Spec.PSIDecode
import Astits.Gen.Stream
namespace Astits.DriverC09
open Spec

def showData (r : Res (List DemuxerData)) : String :=
  match r with
  | .ok ds => "ok:" ++ jarr (ds.map DemuxerData.toJson)
  | .err _ => "err"
  | .panic => "panic"

/-- the unit carried in packets of PID `pid` (184-byte pieces, last one stuffed through the adaptation field) -/
def unitPackets (pid : Nat) (unit : Bytes) : List Packet :=
  let u : TSUnit := { pid := pid, payload := unit, data := [], psi := true, chunks := (chunk184 (unit.length + 1) unit).map List.length }
  packetsOf u 0

def parseDataCase (pid : Nat) (pmt : List Nat) (unit : Bytes) (originals : List (Bytes × DemuxerData)) (tag : String) : Case :=
  let ps := unitPackets pid unit
  let pm : ProgramMap := pmt.map fun p => (p, 1)
  let fp : Packet := { (ps.headD default) with payload := [] }
  -- reference outcome: CRC first; an accepted section must be one of the unmodified originals
  let spec : Option String := match decodeUnit unit with
    | .error => some "err"
    | .sections l =>
      let ds := l.map fun (_, sb) => (originals.find? fun o => o.1 == sb).map (·.2)
      if ds.all Option.isSome then some ("ok:" ++ jarr ((ds.filterMap id).map fun d => ({ d with firstPacket := some fp, pid := pid } : DemuxerData).toJson))
      else none
  { op := "parseData", args := [("packets", jarr (ps.map Packet.toJson)), ("pmtPIDs", jarr (pmt.map jnat))],
    model := showData (parseData ps .none pm), spec := spec, tag := tag }

def pidForKind (k : Nat) : Nat × List Nat := match k with
  | 0 => (0, []) | 1 => (0x1000, [0x1000]) | 2 => (0x11, []) | 3 => (0x10, []) | 4 => (0x12, []) | _ => (0x14, [])

def run (t : Tier) : Emit Unit := do
  for k in [0:6] do
    for rep in [0:(if t.quick then 1 else 6)] do
      let (s, sb) ← liftGen (genSectionOfKind k false)
      let (s2, sb2) ← liftGen (genSectionOfKind k false)
      let two := rep % 2 = 1
      let unit := unitEncode 0 (if two then [sb, sb2] else [sb]) 3
      let (pid, pmt) := pidForKind k
      let originals := [(sb, dataOfSection s), (sb2, dataOfSection s2)]
      emit "C09" (parseDataCase pid pmt unit originals "intact")
      -- every single-bit flip of the unit (pointer field, sections, stuffing)
      for i in [0:unit.length * 8] do
        let u := unit.set (i / 8) ((unit.getD (i / 8) 0) ^^^ (2 ^ (7 - i % 8)))
        emit "C09" (parseDataCase pid pmt u originals "single-bit-flip")
      -- byte substitutions, bursts of up to 32 bits, truncations, extensions
      for _ in [0:(if t.quick then 30 else 100)] do
        let i ← liftGen (randBelow unit.length); let v ← liftGen (randBelow 256)
        emit "C09" (parseDataCase pid pmt (unit.set i v) originals "byte-substitution")
        let start ← liftGen (randBelow (unit.length * 8 - 32)); let len ← liftGen (randRange 2 32)
        let pat ← liftGen nextU64
        let mut u := unit
        for j in [0:len] do
          if j = 0 || j = len - 1 || (pat.toNat / 2 ^ j) % 2 = 1 then
            let b := start + j
            u := u.set (b / 8) ((u.getD (b / 8) 0) ^^^ (2 ^ (7 - b % 8)))
        emit "C09" (parseDataCase pid pmt u originals "burst-le-32")
        let cut ← liftGen (randRange 1 (unit.length - 1))
        emit "C09" (parseDataCase pid pmt (unit.take cut) originals "truncation")
        let extra ← liftGen (do let n ← randRange 1 8; randBytes n)
        emit "C09" (parseDataCase pid pmt ((unit.take (unit.length - 3)) ++ extra) originals "extension")
  -- sections whose CRC_32 is CORRECT for bytes that are not a well-formed section (a decoder that trusts the CRC still
  -- has to reject, or deliver exactly what the bytes say): the model's outcome is the reference here
  for k in [0:6] do
    for _ in [0:(if t.quick then 1 else 5)] do
      let (_, sb) ← liftGen (genSectionOfKind k false)
      let (pid, pmt) := pidForKind k
      let body := sb.take (sb.length - 4)
      let recrc (b : Bytes) : Bytes := b ++ be32' (Spec.crc b).toNat
      let setLen (b : Bytes) (l : Nat) : Bytes := (b.set 1 ((b.getD 1 0) / 16 * 16 + l / 256 % 16)).set 2 (l % 256)
      let sl := (body.getD 1 0) % 16 * 256 + body.getD 2 0
      -- (a) section_length announces 4 bytes more than the unit carries, the bytes present end with their own CRC
      --     (residue 0): the CRC_32 field itself is missing
      emit "C09" (parseDataCase pid pmt ([0] ++ recrc (setLen body (sl + 4))) [] "crc-valid-truncated")
      -- (b) one byte of the section set to 0xff / 0x00 / +1 and the CRC recomputed: lengths of loops and descriptors
      --     that overrun the section or the unit, flags that announce parts that are not there
      for i in [0:body.length] do
        for v in [0xff, 0x00, (body.getD i 0 + 1) % 256] do
          if v != body.getD i 0 then
            emit "C09" (parseDataCase pid pmt ([0] ++ recrc (body.set i v) ++ [0xff, 0xff]) [] "crc-valid-substitution")
      -- (c) slack between the end of the table data and the CRC (section_length 2 bytes larger than the table needs)
      emit "C09" (parseDataCase pid pmt ([0] ++ recrc (setLen (body ++ [0xaa, 0xbb]) (sl + 2)) ++ [0xff]) [] "crc-valid-slack")
      -- (d) section_length 4..12: nothing, or not enough, between the header and a correct CRC
      for l in [4:13] do
        let junk ← liftGen (randBytes (l - 4))
        for tl in [0, 1, 3] do
          emit "C09" (parseDataCase pid pmt ([0] ++ recrc (setLen (body.take 3 ++ junk) l) ++ List.replicate tl 0xff) [] "crc-valid-tiny")
  -- (e) a descriptor in one loop entry declares more bytes than the whole unit has left, and what follows it parses as a
  --     further loop entry; the CRC is correct; the unit ends with the CRC (no stuffing to read into)
  let syn : Bytes := [0, 1, 0xc1, 0, 0]
  let ev (id : Nat) (ll : Nat) : Bytes := [0, id, 0xc0, 0x79, 0x12, 0x45, 0x00, 0x01, 0x30, 0x00, 0xf0, ll]
  for bad in [[0x80, 0xff], [0x4d, 0xff], [0x0a, 0xf0], [0x48, 0xff], [0x05, 0xff]] do
    let mkUnit (tid : Nat) (body : Bytes) : Bytes :=
      let l := body.length + 4
      let sec : Bytes := [tid, 0xb0 + l / 256, l % 256] ++ body
      [0] ++ sec ++ be32' (Spec.crc sec).toNat
    let cases : List (Nat × List Nat × Bytes) := [
      (0x11, [], mkUnit 0x42 (syn ++ [0, 1, 0xff] ++ [0, 1, 0xfc, 0x80, 0x02] ++ bad ++ [0, 2, 0xfc, 0x80, 0x00])),
      (0x11, [], mkUnit 0x42 (syn ++ [0, 1, 0xff] ++ [0, 1, 0xfc, 0x80, 0x07] ++ bad ++ [0, 2, 0xfc, 0x80, 0x00])),
      (0x12, [], mkUnit 0x4e (syn ++ [0, 1, 0, 2, 0, 0x4e] ++ ev 1 2 ++ bad ++ ev 2 0)),
      (0x12, [], mkUnit 0x4e (syn ++ [0, 1, 0, 2, 0, 0x4e] ++ ev 1 14 ++ bad ++ ev 2 0)),
      (0x12, [], mkUnit 0x4e (syn ++ [0, 1, 0, 2, 0, 0x4e] ++ [0x12])),
      (0x12, [], mkUnit 0x4e (syn ++ [0, 1, 0, 2, 0, 0x4e] ++ (ev 1 0).take 9)),
      (0x10, [], mkUnit 0x40 (syn ++ [0xf0, 0x02] ++ bad ++ [0xf0, 0x00])),
      (0x10, [], mkUnit 0x40 (syn ++ [0xf0, 0x00, 0xf0, 14] ++ [0, 1, 0, 2, 0xf0, 0x02] ++ bad ++ [0, 3, 0, 4, 0xf0, 0x00])),
      (0x1000, [0x1000], mkUnit 0x02 (syn ++ [0xe1, 0x00, 0xf0, 0x02] ++ bad ++ [0x1b, 0xe1, 0x00, 0xf0, 0x00])),
      (0x1000, [0x1000], mkUnit 0x02 (syn ++ [0xe1, 0x00, 0xf0, 0x00] ++ [0x1b, 0xe1, 0x00, 0xf0, 0x02] ++ bad ++ [0x0f, 0xe1, 0x01, 0xf0, 0x00])),
      (0x14, [], mkUnit 0x73 ([0xc0, 0x79, 0x12, 0x45, 0x00] ++ [0xf0, 0x02] ++ bad))]
    for (pid, pmt, unit) in cases do
      emit "C09" (parseDataCase pid pmt unit [] "crc-valid-descriptor-overruns-unit")
  -- (f) a loop entry that starts r bytes before the CRC (too few for its fixed part), the unit going on for t more
  --     bytes behind the CRC: the entry's fields would have to be read out of the CRC and the stuffing
  let mkUnit' (tid : Nat) (body : Bytes) : Bytes :=
    let l := body.length + 4
    let sec : Bytes := [tid, 0xb0 + l / 256, l % 256] ++ body
    [0] ++ sec ++ be32' (Spec.crc sec).toNat
  for (pid, pmt, tid, head, entry) in ([(0x12, [], 0x4e, [0, 1, 0, 2, 0, 0x4e], 12), (0x11, [], 0x42, [0, 1, 0xff], 5),
                                        (0x1000, [0x1000], 0x02, [0xe1, 0x00, 0xf0, 0x00], 5), (0, [], 0x00, [], 4)] : List (Nat × List Nat × Nat × Bytes × Nat)) do
    for r in [1:entry] do
      for tl in [0:13] do
        for pat in [0, 1] do
          let residual := (List.range r).map (0x12 + ·)
          let tail : Bytes := if pat = 0 then ([0xff, 0xff, 0xf0, 0x00, 0xf0, 0x00, 0xff, 0xff, 0x00, 0x00, 0xf0, 0x00] : Bytes).take tl else List.replicate tl 0
          emit "C09" (parseDataCase pid pmt (mkUnit' tid (syn ++ head ++ residual) ++ tail) [] "crc-valid-short-loop-entry")
  -- muxed sections: PAT/PMT with elementary stream descriptors of any type that fit one packet
  for _ in [0:(if t.quick then 12 else 120)] do
    let n ← liftGen (randRange 1 4)
    let mut ops : List MuxOp := []
    for i in [0:n] do
      let es ← liftGen (DriverMux.genES (0x100 + i) true)
      ops := ops ++ [.add es, .setPCR 0x100, .tables]
    ops := ops ++ [.remove 0x100, .tables, .setPCR 0x101, .tables]
    emit "C09" (DriverMux.muxCase { period := 40, ops := ops } true "mux-sections")
  -- the same for every descriptor kind in turn (each length calculator decides section_length, hence where the CRC sits)
  for k in [0:25] do
    for _ in [0:(if t.quick then 3 else 20)] do
      let mut ds : List Descriptor := []
      let mut fuel := 20
      while fuel > 0 do
        fuel := fuel - 1
        let d ← liftGen (genDescriptorOfKind k)
        if (descriptorBody d).length ≤ 150 then
          -- every other case carries a stale `Length` in the struct: what is announced is what is written
          ds := (descsP [d]).map fun x => if fuel % 2 = 0 then { x with length := (x.length + 3) % 256 } else x
          fuel := 0
      let ops : List MuxOp := [.add { elementaryPID := 0x100, elementaryStreamDescriptors := ds, streamType := 0x06 }, .setPCR 0x100, .tables]
      emit "C09" (DriverMux.muxCase { period := 40, ops := ops } true "mux-sections-per-descriptor-kind")

  -- the ends of the tag ranges in a muxed PMT: user-defined 0x80 / 0xfe, unknown 0xff / 0x7e / 0x01
  for tg in [0x80, 0xfe, 0xff, 0x7e, 0x01] do
    let body ← liftGen (randBytes 6)
    let d : Descriptor := if tg ≥ 0x80 ∧ tg ≤ 0xfe then { tag := tg, length := 6, userDefined := body } else { tag := tg, length := 6, unknown := some { content := body, tag := tg } }
    let d2 : Descriptor := { tag := descriptorTagStreamIdentifier, streamIdentifier := some { componentTag := 7 } }
    let ops : List MuxOp := [.add { elementaryPID := 0x100, elementaryStreamDescriptors := descsP [d, d2], streamType := 0x06 }, .setPCR 0x100, .tables]
    emit "C09" (DriverMux.muxCase { period := 40, ops := ops } true "mux-sections-tag-range-ends")
  -- language codes that are not 3 bytes long: the field is 3 bytes on the wire (padded with 0 / truncated), and every
  -- length that is announced counts those 3 bytes
  for code in [[], [0x65], [0x65, 0x6e], [0x65, 0x6e, 0x67, 0x6c], [0x65, 0x6e, 0x67, 0x6c, 0x69]] do
    let code3 : Bytes := code.take 3 ++ List.replicate (3 - code.length) 0
    let mk (c : Bytes) : List MuxOp :=
      let d : Descriptor := { tag := descriptorTagISO639LanguageAndAudioType, iso639LanguageAndAudioType := some { language := c, type := 1 } }
      let d2 : Descriptor := { tag := descriptorTagStreamIdentifier, streamIdentifier := some { componentTag := 7 } }
      [.add { elementaryPID := 0x100, elementaryStreamDescriptors := descsP [d, d2], streamType := 0x0f }, .setPCR 0x100, .tables]
    let raw := DriverMux.muxCase { period := 40, ops := mk code } false "mux-sections-language-code-length"
    let norm := DriverMux.muxCase { period := 40, ops := mk code3 } true "x"
    emit "C09" { raw with spec := norm.spec }
  -- VBI data: every data service id x 0..3 lines (the per-service size depends on the id)
  for id in [1, 2, 4, 5, 6, 7, 0, 3, 0x10] do
    for lines in [0:4] do
      let descs := (List.range lines).map fun i => ({ fieldParity := i % 2 = 0, lineOffset := (7 + i) % 32 } : DescriptorVBIDataDescriptor)
      let d : Descriptor := { tag := descriptorTagVBIData, vbiData := some { services := [{ dataServiceID := id, descriptors := if isKnownVBIDataServiceID id then descs else [] }] } }
      let ops : List MuxOp := [.add { elementaryPID := 0x100, elementaryStreamDescriptors := descsP [d], streamType := 0x06 }, .setPCR 0x100, .tables]
      emit "C09" (DriverMux.muxCase { period := 40, ops := ops } true "mux-sections-vbi-data")

end Astits.DriverC09
