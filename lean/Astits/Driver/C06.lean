import Astits.Driver.DemuxOp
import Astits.Gen.Stream
namespace Astits.DriverC06
open Spec

def bytesOf (ps : List Packet) : Bytes := (ps.map tsEncode).flatten

def isPESPid (m : StreamModel) (pid : Nat) : Bool := m.units.any fun u => u.pid == pid && !u.psi

/-- index of the unit (among the units of its PID) that packet number `ord` of that PID belongs to -/
def unitOfOrdinal (us : List TSUnit) (ord : Nat) : Nat :=
  let rec go (us : List TSUnit) (start i : Nat) : Nat :=
    match us with
    | [] => i
    | u :: r => if ord < start + u.chunks.length then i else go r (start + u.chunks.length) (i + 1)
  go us 0 0

/-- the packets of the same unit that follow packet `k` (the headless fragment a loss of `k` leaves behind) -/
def fragmentAfter (ps : List Packet) (k : Nat) : List Packet :=
  let pid := (ps.getD k default).header.pid
  ((ps.drop (k + 1)).filter (·.header.pid == pid)).takeWhile (!·.header.payloadUnitStartIndicator)

/-- does a headless fragment look like a unit of its own (excluded hypothesis `NoFalseStart`)? -/
def looksLikeUnit1 (frag : List Packet) (psi : Bool) : Bool :=
  let payload := concatPayload frag
  if frag.isEmpty then false
  else if psi then
    match parsePSIData.val payload with
    | .ok d => !(psiToData d default 0).isEmpty
    | _ => false
  else isPESPayload payload

/-- some prefix of the fragment looks like a unit (PAT/PMT PIDs are flushed as soon as they look complete) -/
def looksLikeUnit (frag : List Packet) (psi : Bool) : Bool :=
  (List.range frag.length).any fun i => looksLikeUnit1 (frag.take (i + 1)) psi

def showGroups (gs : List (List Packet)) : String :=
  String.join (gs.map fun g => "[" ++ " ".intercalate (g.map fun p => s!"{p.header.pid}.{p.header.continuityCounter}") ++ "]")

/-- the pool operation: model of VerifPoolAdd -/
def poolCase (ps : List Packet) (pmtPIDs : List Nat) (tag : String) : Case :=
  let pm : ProgramMap := pmtPIDs.map fun p => (p, 1)
  let (flushed, pool) := ps.foldl (fun (acc : List (List Packet) × Pool) p =>
    let (f, pool') := poolAdd pm acc.2 p
    (acc.1 ++ [f], pool')) ([], [])
  let rec drain (pool : Pool) (fuel : Nat) : List (List Packet) :=
    match fuel with
    | 0 => []
    | fuel + 1 =>
      let (g, pool') := poolDump pool
      if g.isEmpty then [] else g :: drain pool' fuel
  { op := "pool", args := [("packets", jarr (ps.map Packet.toJson)), ("pmtPIDs", jarr (pmtPIDs.map jnat))],
    model := "flushed=" ++ showGroups flushed ++ ";drained=" ++ showGroups (drain pool (pool.length + 1)), tag := tag }

/-- alphabet for bounded-exhaustive sequences on one PID: the letter decides the packet given the previous counter -/
def letterPacket (pid : Nat) (letter : Nat) (prevCC : Nat) : Packet × Nat :=
  let mk (cc : Nat) (pusi hasPayload tei di : Bool) : Packet :=
    { adaptationField := if di || !hasPayload then some { length := 1, discontinuityIndicator := di } else none,
      payload := if hasPayload then [0, 0, 1, 0xe0, 0, 0] ++ List.replicate 10 cc else [],
      header := { continuityCounter := cc, hasAdaptationField := di || !hasPayload, hasPayload := hasPayload,
                  payloadUnitStartIndicator := pusi, pid := pid, transportErrorIndicator := tei, transportPriority := false,
                  transportScramblingControl := 0 } }
  let nxt := (prevCC + 1) % 16
  match letter with
  | 0 => (mk nxt true true false false, nxt)        -- unit start, cc+1
  | 1 => (mk nxt false true false false, nxt)       -- continuation, cc+1
  | 2 => (mk prevCC false true false false, prevCC) -- duplicate counter (continuation)
  | 3 => (mk ((prevCC + 3) % 16) false true false false, (prevCC + 3) % 16)   -- gap
  | 4 => (mk prevCC false false false false, prevCC) -- adaptation field only
  | 5 => (mk nxt false true true false, prevCC)      -- transport error indicator (ignored by the pool)
  | 6 => (mk nxt true true false true, nxt)          -- discontinuity indicator on a unit start
  | _ => (mk prevCC true true false false, prevCC)   -- duplicate counter on a unit start

def seqPackets (pid : Nat) (letters : List Nat) : List Packet :=
  (letters.foldl (fun (acc : List Packet × Nat) l =>
    let (p, cc) := letterPacket pid l acc.2
    (acc.1 ++ [p], cc)) ([], 5)).1

def digits (base len n : Nat) : List Nat := (List.range len).map fun i => n / base ^ i % base

/-- the packet after a gap announces a discontinuity: counters are then allowed to jump, so the continuity counter
cannot reveal the gap (outside the loss clause) -/
def gapHiddenByDI (ps : List Packet) (lastDropped pid : Nat) : Bool :=
  match (ps.drop (lastDropped + 1)).find? (fun q => q.header.pid == pid && q.header.hasPayload) with
  | some q => pktDI q
  | none => false

def run (t : Tier) : Emit Unit := do
  for i in [0:(if t.quick then 6 else 40)] do
    let m ← liftGen (genStream { pesPIDs := [0x100, 0x101], pmtPIDs := if i % 2 = 0 then [0x1000] else [], dvb := i % 3 = 0,
                                 unitsPerPID := 3, maxPayload := 400 })
    let ps := m.packets
    let expPES := showPerPID (m.expected.filter fun e => isPESPid m e.1) 0 "eof"
    let expAll := showPerPID m.expected 0 "eof" true
    let expPESnoErr := showPerPID (m.expected.filter fun e => isPESPid m e.1) 0 "eof" true
    -- every single-packet duplication position
    for k in [0:ps.length] do
      let dup := ps.take (k + 1) ++ [ps.getD k default] ++ ps.drop (k + 1)
      -- a duplicate on a PES PID: the whole output (errors included) is that of the undisturbed stream; a duplicate on a
      -- table PID may re-deliver a table or surface a parse error for the repeated fragment (an early-flushed PAT/PMT
      -- leaves no packet to compare the duplicate with) — the property only requires the PES output to be identical
      if isPESPid m (ps.getD k default).header.pid then
        emit "C06" (demuxCase (bytesOf dup) { view := .perpid, onlyPES := true } none (some expPES) "dup-every-position")
      else
        emit "C06" (demuxCase (bytesOf dup) { view := .perpid, onlyPES := true, noErr := true } none (some expPESnoErr) "dup-table-pid-position")
    -- the duplicate need not be adjacent in the multiplex: it is the next packet OF ITS PID (packets of other PIDs in between)
    for k in [0:ps.length] do
      let p := ps.getD k default
      if !isPESPid m p.header.pid then continue
      match ((ps.drop (k + 1)).zipIdx.find? fun (q, _) => q.header.pid == p.header.pid) with
      | some (_, off) =>
        if off = 0 then continue
        if t.quick && k % 2 = 1 then continue
        let j := k + 1 + off
        emit "C06" (demuxCase (bytesOf (ps.take j ++ [p] ++ ps.drop j)) { view := .perpid, onlyPES := true } none (some expPES) "dup-before-next-packet-of-pid")
      | none => pure ()
    -- several duplicates in one stream: every packet of the PES PIDs sent twice, and random subsets
    let dupAll := (ps.map fun p => if isPESPid m p.header.pid then [p, p] else [p]).flatten
    emit "C06" (demuxCase (bytesOf dupAll) { view := .perpid, onlyPES := true } none (some expPES) "dup-every-pes-packet")
    for _ in [0:(if t.quick then 4 else 12)] do
      let mut out : List Packet := []
      for p in ps do
        if isPESPid m p.header.pid ∧ (← liftGen (chance 1 2)) then out := out ++ [p, p] else out := out ++ [p]
      emit "C06" (demuxCase (bytesOf out) { view := .perpid, onlyPES := true } none (some expPES) "dup-random-subset")
    -- every single-packet deletion position that is followed by a later payload packet of the same PID
    for k in [0:ps.length] do
      let p := ps.getD k default
      let later := (ps.drop (k + 1)).any fun q => q.header.pid == p.header.pid && q.header.hasPayload
      if !later then continue
      let pid := p.header.pid
      if gapHiddenByDI ps k pid then continue
      let ord := ((ps.take k).filter (·.header.pid == pid)).length
      let us := m.units.filter (·.pid == pid)
      let ui := unitOfOrdinal us ord
      let maxMissing := (us.getD ui default).data.length + (if ui > 0 then (us.getD (ui - 1) default).data.length else 0)
      let del := ps.take k ++ ps.drop (k + 1)
      let isPSI := (us.getD ui default).psi
      let cls := if looksLikeUnit (fragmentAfter ps k) isPSI then "headless-fragment-looks-like-unit" else ""
      let c := demuxCase (bytesOf del) { view := .perpid, noErr := true } none none "loss-every-position" cls "loss"
      -- a PMT PID is only recognised once a PAT listing it has been delivered: losing a PAT packet may legitimately
      -- hide the PMTs as well (C07 states this dependency)
      let pmts := if pid = 0 then (m.units.filter (fun u => u.psi && u.pid ≥ 0x1000)).map (·.pid) |>.eraseDups else []
      let mm := if pid = 0 then 1000 else maxMissing
      emit "C06" { c with args := c.args ++ [("expect", jstr (jesc expAll)), ("faultPids", jarr ((pid :: pmts).map jnat)), ("maxMissing", jnat mm)] }
    -- random multi-fault patterns: bursts < 16 on one PID and duplicates elsewhere
    for _ in [0:(if t.quick then 10 else 40)] do
      let pid ← liftGen (pick (m.units.map (·.pid)))
      let idxs := (ps.zipIdx.filter fun (p, _) => p.header.pid == pid).map (·.2)
      if idxs.length < 4 then continue
      let start ← liftGen (randBelow (idxs.length - 2))
      let len ← liftGen (randRange 1 (min 14 (idxs.length - start - 1)))
      let drop := (idxs.drop start).take len
      let del := (ps.zipIdx.filter fun (_, i) => !drop.contains i).map (·.1)
      let us := m.units.filter (·.pid == pid)
      let uFirst := unitOfOrdinal us start
      let uLast := unitOfOrdinal us (start + len - 1)
      let maxMissing := (((List.range (uLast + 1 - uFirst + 1)).map fun j => (us.getD (uFirst + j - 1) default).data.length).sum)
      let lastDropped := drop.getLast?.getD 0
      if gapHiddenByDI ps lastDropped pid then continue
      let isPSIb := (us.getD uLast default).psi
      let clsB := if looksLikeUnit (fragmentAfter ps lastDropped) isPSIb then "headless-fragment-looks-like-unit" else ""
      let c := demuxCase (bytesOf del) { view := .perpid, noErr := true } none none "loss-burst" clsB "loss"
      let pmts := if pid = 0 then (m.units.filter (fun u => u.psi && u.pid ≥ 0x1000)).map (·.pid) |>.eraseDups else []
      let mm := if pid = 0 then 1000 else maxMissing + (us.getD uFirst default).data.length
      emit "C06" { c with args := c.args ++ [("expect", jstr (jesc expAll)), ("faultPids", jarr ((pid :: pmts).map jnat)), ("maxMissing", jnat mm)] }
  -- bursts of every length 1..14 inside one long unit (>= 18 packets) that is followed by further units of the PID
  for _ in [0:(if t.quick then 1 else 6)] do
    let mut long : TSUnit := default
    let mut fuel := 40
    while fuel > 0 do
      fuel := fuel - 1
      let u ← liftGen (genPESUnit 0x100 6000)
      if u.chunks.length ≥ 18 then
        long := u
        fuel := 0
    if long.chunks.length < 18 then continue
    let u2 ← liftGen (genPESUnit 0x100 300)
    let u3 ← liftGen (genPESUnit 0x100 300)
    let o1 ← liftGen (genPESUnit 0x101 400)
    let o2 ← liftGen (genPESUnit 0x101 400)
    let units := [long, u2, u3, o1, o2]
    let per := perPID units
    let sched ← liftGen (shuffle ((per.map fun (pid, pk, _) => List.replicate pk.length pid).flatten))
    let m : StreamModel := { units := units, schedule := sched }
    let ps := m.packets
    let expAllL := showPerPID m.expected 0 "eof" true
    let idxs := (ps.zipIdx.filter fun (p, _) => p.header.pid == 0x100).map (·.2)
    -- 15 lost packets make the next one carry the counter of the last one received: it is indistinguishable from a
    -- legal duplicate (first clause of C06), so no receiver can see that gap; lengths 1..14
    for len in [1:15] do
      for start in [1, 2] do
        let drop := (idxs.drop start).take len
        let del := (ps.zipIdx.filter fun (_, i) => !drop.contains i).map (·.1)
        let lastDropped := drop.getLast?.getD 0
        if gapHiddenByDI ps lastDropped 0x100 then continue
        let clsB := if looksLikeUnit (fragmentAfter ps lastDropped) false then "headless-fragment-looks-like-unit" else ""
        let c := demuxCase (bytesOf del) { view := .perpid, noErr := true } none none "loss-burst-every-length" clsB "loss"
        emit "C06" { c with args := c.args ++ [("expect", jstr (jesc expAllL)), ("faultPids", jarr [jnat 0x100]), ("maxMissing", jnat 1)] }
  -- loss on an SI PID whose units span several packets (the remainder of a unit is then usually unparseable: NextData
  -- reports an error), while long units are in progress on two PES PIDs: those are unaffected
  for i in [0:(if t.quick then 6 else 24)] do
    let kind := [2, 3, 4].getD (i % 3) 2
    let pidSI := [0x11, 0x10, 0x12].getD (i % 3) 0x11
    let secsA ← liftGen (genList 1 (genSectionOfKind kind true))
    let secsB ← liftGen (genList 1 (genSectionOfKind kind true))
    let a0 ← liftGen (mkPSIUnit pidSI secsA)
    let b0 ← liftGen (mkPSIUnit pidSI secsB)
    let a ← liftGen (manyChunks a0)
    let b ← liftGen (manyChunks b0)
    let p1 ← liftGen (genPESUnit 0x100 2000)
    let p2 ← liftGen (genPESUnit 0x100 300)
    let q1 ← liftGen (genPESUnit 0x101 2000)
    let q2 ← liftGen (genPESUnit 0x101 300)
    let units := [a, b, p1, p2, q1, q2]
    let per := perPID units
    let sched ← liftGen (shuffle ((per.map fun (pid, pk, _) => List.replicate pk.length pid).flatten))
    let m : StreamModel := { units := units, schedule := sched }
    let ps := m.packets
    let expAllS := showPerPID m.expected 0 "eof" true
    let idxs := (ps.zipIdx.filter fun (p, _) => p.header.pid == pidSI).map (·.2)
    let nA := a.chunks.length
    for j in [0:idxs.length - 1] do
      let k := idxs.getD j 0
      if gapHiddenByDI ps k pidSI then continue
      let del := ps.take k ++ ps.drop (k + 1)
      let isFirstOfUnit := j = 0 || j = nA
      let clsS := if looksLikeUnit (fragmentAfter ps k) true then "headless-fragment-looks-like-unit" else ""
      let c := demuxCase (bytesOf del) { view := .perpid, noErr := true } none none "loss-on-si-pid" clsS "loss"
      let mm := (a.data.length + b.data.length)
      let _ := isFirstOfUnit
      emit "C06" { c with args := c.args ++ [("expect", jstr (jesc expAllS)), ("faultPids", jarr [jnat pidSI]), ("maxMissing", jnat mm)] }
  -- bounded-exhaustive packet sequences over the 8-letter alphabet on a PES PID, through the pool
  let len := if t.quick then 4 else 6
  for n in [0:8 ^ len] do
    emit "C06" (poolCase (seqPackets 0x100 (digits 8 len n)) [] "pool-sequences")
  -- adversarial (known finding): after a lost packet the headless fragment starts with a PES start code
  for _ in [0:5] do
    let a ← liftGen (randBytes 175)
    let b ← liftGen (randBytes 184)
    let c ← liftGen (randBytes 100)
    let inner : Bytes := [0, 0, 1, 0xe0, 0, 0, 0x80, 0, 0] ++ c
    let pes := pesEncode { streamID := 0xe0, optionalHeader := some { markerBits := 2 }, packetLength := 0 } 0 (a ++ b ++ inner)
    let u : TSUnit := { pid := 0x100, payload := pes, psi := false, chunks := [184, 184, pes.length - 368],
                        data := [{ pes := some { data := a ++ b ++ inner, header := { streamID := 0xe0, optionalHeader := some { markerBits := 2 } } } }] }
    let u2 ← liftGen (genPESUnit 0x100 100)
    let m : StreamModel := { units := [u, u2], schedule := [] }
    let ps := m.packets
    let del := ps.take 1 ++ ps.drop 2
    let cse := demuxCase (bytesOf del) { view := .perpid, noErr := true } none none "loss-fragment-looks-like-pes" "headless-fragment-looks-like-unit" "loss"
    emit "C06" { cse with args := cse.args ++ [("expect", jstr (jesc (showPerPID m.expected 0 "eof" true))), ("faultPids", jarr [jnat 0x100]), ("maxMissing", jnat 1)] }

end Astits.DriverC06
