/-
Reader-side PES theorems for the FULL reference encoder `Spec.pesEncode h stuffing payload` (C12, P1): optional headers
with previous_PES_packet_CRC and with header stuffing bytes (PES_header_data_length larger than the fields present),
and every PES_packet_length situation (0, exact, shorter, longer than what is there).

Builds on `Proofs/PESRT.lean` (segment lemmas `seg_*`, `Step`) and `Proofs/SpecEq/PES.lean` (`Spec.enc` = `packFields`).
-/
import Astits.Proofs.PESRT
import Astits.Proofs.SpecEq.PES
namespace Astits.PESReader
open Astits Astits.PSIRT Astits.PESRT Astits.SpecEq Astits.SIRT

/-! ### the second flag byte, with PES_CRC_flag -/

theorem pes_byte1c (ind escr rate dsm aci crc ext : Nat) (h1 : ind < 4) (h2 : escr ≤ 1) (h3 : rate ≤ 1) (h4 : dsm ≤ 1)
    (h5 : aci ≤ 1) (h5' : crc ≤ 1) (h6 : ext ≤ 1) :
    ∃ f, packFields [(ind, 2), (escr, 1), (rate, 1), (dsm, 1), (aci, 1), (crc, 1), (ext, 1)] = [f] ∧ f / 64 % 4 = ind ∧
      f / 32 % 2 = escr ∧ f / 16 % 2 = rate ∧ f / 8 % 2 = dsm ∧ f / 4 % 2 = aci ∧ f / 2 % 2 = crc ∧ f % 2 = ext := by
  refine ⟨(((((((0 * 4 + ind % 4) * 2 + escr % 2) * 2 + rate % 2) * 2 + dsm % 2) * 2 + aci % 2) * 2 + crc % 2) * 2 + ext % 2) % 256,
    ?_, ?_, ?_, ?_, ?_, ?_, ?_, ?_⟩
  · simp only [packFields, fieldsWidth, fieldsValue, beBytes]
    simp only [Nat.reducePow, Nat.pow_zero, Nat.div_one, Nat.pow_one]
  all_goals omega

/-! ### previous_PES_packet_CRC -/

theorem step_crc (v : Nat) (hv : v < 65536) :
    Step (do let bs ← It.nextBytes 2; pure (bs.getD 0 0 * 256 + bs.getD 1 0) : P Nat) (packFields [(v, 16)]) v := by
  intro bs off r hat
  have hb : packFields [(v, 16)] = [v / 256, v % 256] := by
    simp only [packFields, fieldsWidth, fieldsValue, beBytes]
    simp only [Nat.reducePow, Nat.pow_zero, Nat.div_one, Nat.pow_one]
    congr 1
    · omega
    · congr 1; omega
  rw [hb] at hat ⊢
  rw [P.bind_of_ok (nextBytes_at bs off _ _ 2 (by simp) hat)]
  simp only [P.pure_run, List.getD_cons_zero, List.getD_cons_succ]
  have e1 : v / 256 * 256 + v % 256 = v := by omega
  rw [e1]
  rfl

theorem seg_crc (c : Bool) (v : Nat) (ok : if c then v < 65536 else v = 0) :
    Step (if c = true then (do let bs ← It.nextBytes 2; pure (bs.getD 0 0 * 256 + bs.getD 1 0)) else pure 0 : P Nat)
      (if c then packFields [(v, 16)] else []) v := by
  cases c with
  | false => simp only [Bool.false_eq_true, if_false] at ok ⊢; subst ok; intro bs off r _; simp
  | true => simp only [if_true] at ok ⊢; exact step_crc v ok

/-! ### optional headers the PARSER can deliver from conformant bytes (CRC and stuffing included) -/

/-- the number of bytes the optional fields occupy (PES_header_data_length minus the stuffing) -/
def fieldsLength (h : PESOptionalHeader) : Nat :=
  calcPESOptionalHeaderDataLength h + (if h.hasCRC then 2 else 0)

/-- `PESOptOkR h st`: a well-formed optional header value as the parser delivers it from a conformant optional header with
`st` stuffing bytes.  Same clauses as `PESRT.PESOptOk` except: `HasCRC` is free, `CRC` is a 16-bit value when the flag is
set (0 otherwise), and `HeaderLength` = bytes of the fields present + `st`, below 256. -/
structure PESOptOkR (h : PESOptionalHeader) (st : Nat) : Prop where
  markerBits : h.markerBits = 2
  scramblingControl : h.scramblingControl < 4
  ind : h.ptsDTSIndicator < 4
  pts : if h.ptsDTSIndicator = 2 ∨ h.ptsDTSIndicator = 3 then ∃ b : Nat, b < 8589934592 ∧ h.pts = some { base := b, extension := 0 } else h.pts = none
  dts : if h.ptsDTSIndicator = 3 then ∃ b : Nat, b < 8589934592 ∧ h.dts = some { base := b, extension := 0 } else h.dts = none
  escr : if h.hasESCR then ∃ b e : Nat, b < 8589934592 ∧ e < 512 ∧ h.escr = some { base := b, extension := e } else h.escr = none
  esRate : if h.hasESRate then h.esRate < 4194304 else h.esRate = 0
  dsm : if h.hasDSMTrickMode then ∃ m, h.dsmTrickMode = some m ∧ DSMOk m = true else h.dsmTrickMode = none
  aci : if h.hasAdditionalCopyInfo then h.additionalCopyInfo < 128 else h.additionalCopyInfo = 0
  crc : if h.hasCRC then h.crc < 65536 else h.crc = 0
  noOptionalFields : h.hasOptionalFields = false
  noPack : h.hasPackHeaderField = false ∧ h.packField = 0
  extFlags : h.hasExtension = false → h.hasPrivateData = false ∧ h.hasProgramPacketSequenceCounter = false ∧ h.hasPSTDBuffer = false ∧ h.hasExtension2 = false
  priv : if h.hasPrivateData then h.privateData.length = 16 else h.privateData = []
  psc : if h.hasProgramPacketSequenceCounter then h.packetSequenceCounter < 128 ∧ h.mpeg1OrMPEG2ID < 2 ∧ h.originalStuffingLength < 64 else h.packetSequenceCounter = 0 ∧ h.mpeg1OrMPEG2ID = 0 ∧ h.originalStuffingLength = 0
  pstd : if h.hasPSTDBuffer then h.pstdBufferScale < 2 ∧ h.pstdBufferSize < 8192 else h.pstdBufferScale = 0 ∧ h.pstdBufferSize = 0
  ext2 : if h.hasExtension2 then h.extension2Data.length < 128 ∧ h.extension2Length = h.extension2Data.length else h.extension2Data = [] ∧ h.extension2Length = 0
  /-- PES_header_data_length = fields + stuffing: the ONLY place where the stuffing shows in the parsed value -/
  headerLength : h.headerLength = fieldsLength h + st
  fits : h.headerLength < 256

/-- the header with CRC and stuffing removed: what the writer can emit -/
def strip (h : PESOptionalHeader) : PESOptionalHeader :=
  { h with hasCRC := false, crc := 0, headerLength := calcPESOptionalHeaderDataLength h }

theorem calc_strip (h : PESOptionalHeader) : calcPESOptionalHeaderDataLength (strip h) = calcPESOptionalHeaderDataLength h := rfl

theorem strip_ok (h : PESOptionalHeader) (st : Nat) (ok : PESOptOkR h st) : PESOptOk (strip h) where
  markerBits := ok.markerBits
  scramblingControl := ok.scramblingControl
  ind := ok.ind
  pts := ok.pts
  dts := ok.dts
  escr := ok.escr
  esRate := ok.esRate
  dsm := ok.dsm
  aci := ok.aci
  noCRC := ⟨rfl, rfl⟩
  noOptionalFields := ok.noOptionalFields
  noPack := ok.noPack
  headerLength := rfl
  extFlags := ok.extFlags
  priv := ok.priv
  psc := ok.psc
  pstd := ok.pstd
  ext2 := ok.ext2

/-- conversely a header the writer supports is a reader header without CRC and without stuffing -/
theorem okR_of_ok (h : PESOptionalHeader) (ok : PESOptOk h) : PESOptOkR h 0 where
  markerBits := ok.markerBits
  scramblingControl := ok.scramblingControl
  ind := ok.ind
  pts := ok.pts
  dts := ok.dts
  escr := ok.escr
  esRate := ok.esRate
  dsm := ok.dsm
  aci := ok.aci
  crc := by rw [ok.noCRC.1]; exact ok.noCRC.2
  noOptionalFields := ok.noOptionalFields
  noPack := ok.noPack
  headerLength := by rw [ok.headerLength]; simp [fieldsLength, ok.noCRC.1]
  fits := by rw [ok.headerLength]; exact calcData_le h
  extFlags := ok.extFlags
  priv := ok.priv
  psc := ok.psc
  pstd := ok.pstd
  ext2 := ok.ext2

/-! ### byte layout (writer-style `packFields` form) of the reference optional header -/

/-- PTS/DTS, ESCR, ES rate, trick mode, additional copy info -/
def tailA (h : PESOptionalHeader) : Bytes :=
  (if h.ptsDTSIndicator = 2 then ptsBytes 2 (h.pts.getD default) else [])
  ++ ((if h.ptsDTSIndicator = 3 then ptsBytes 3 (h.pts.getD default) ++ ptsBytes 1 (h.dts.getD default) else [])
  ++ ((if h.hasESCR then escrBytes (h.escr.getD default) else [])
  ++ ((if h.hasESRate then packFields [(1, 1), (h.esRate, 22), (1, 1)] else [])
  ++ ((if h.hasDSMTrickMode then dsmBytes (h.dsmTrickMode.getD default) else [])
  ++ (if h.hasAdditionalCopyInfo then packFields [(1, 1), (h.additionalCopyInfo, 7)] else [])))))

def crcSeg (h : PESOptionalHeader) : Bytes := if h.hasCRC then packFields [(h.crc, 16)] else []

def tailExt (h : PESOptionalHeader) : Bytes :=
  if h.hasExtension then
    packFields [(b2n h.hasPrivateData, 1), (0, 1), (b2n h.hasProgramPacketSequenceCounter, 1),
      (b2n h.hasPSTDBuffer, 1), (7, 3), (b2n h.hasExtension2, 1)]
    ++ ((if h.hasPrivateData then bytesN h.privateData 16 0 else [])
    ++ ((if h.hasProgramPacketSequenceCounter then
          packFields [(1, 1), (h.packetSequenceCounter, 7), (1, 1), (h.mpeg1OrMPEG2ID, 1), (h.originalStuffingLength, 6)]
        else [])
    ++ ((if h.hasPSTDBuffer then packFields [(1, 2), (h.pstdBufferScale, 1), (h.pstdBufferSize, 13)] else [])
    ++ (if h.hasExtension2 then packFields [(1, 1), (h.extension2Data.length, 7)] ++ h.extension2Data else []))))
  else []

def flagBytes (h : PESOptionalHeader) : Bytes :=
  packFields [(2, 2), (h.scramblingControl, 2), (b2n h.priority, 1), (b2n h.dataAlignmentIndicator, 1),
      (b2n h.isCopyrighted, 1), (b2n h.isOriginal, 1)]
  ++ packFields [(h.ptsDTSIndicator, 2), (b2n h.hasESCR, 1), (b2n h.hasESRate, 1), (b2n h.hasDSMTrickMode, 1),
      (b2n h.hasAdditionalCopyInfo, 1), (b2n h.hasCRC, 1), (b2n h.hasExtension, 1)]

/-- the optional header as bytes: two flag bytes, the length byte `hl`, fields, CRC, extension -/
def optFields (h : PESOptionalHeader) : Bytes := tailA h ++ (crcSeg h ++ tailExt h)

theorem optTail_split (h : PESOptionalHeader) : optTail h = tailA h ++ tailExt h := by
  unfold optTail tailA tailExt
  simp only [List.append_assoc]

theorem tailA_strip (h : PESOptionalHeader) : tailA (strip h) = tailA h := rfl
theorem tailExt_strip (h : PESOptionalHeader) : tailExt (strip h) = tailExt h := rfl

theorem crcSeg_length (h : PESOptionalHeader) : (crcSeg h).length = if h.hasCRC then 2 else 0 := by
  unfold crcSeg
  split <;> simp [packFields_length, fieldsWidth]

/-- the fields occupy `fieldsLength h` bytes -/
theorem optFields_length (h : PESOptionalHeader) (st : Nat) (ok : PESOptOkR h st) : (optFields h).length = fieldsLength h := by
  have hs := pesOptionalHeaderBytes_length (strip h) (strip_ok h st ok)
  rw [optBytes_split, optTail_split, tailA_strip, tailExt_strip, calc_strip] at hs
  simp only [List.length_append, packFields_length, fieldsWidth, List.length_cons, List.length_nil] at hs
  unfold optFields fieldsLength
  simp only [List.length_append, crcSeg_length]
  omega

/-! ### the parser on these bytes -/

/-- **optional header, reader side**: on flag bytes, ANY length byte `hl = h.headerLength`, the fields (CRC included) and
anything after them (stuffing, payload), `parsePESOptionalHeader` returns `h` and the payload start
`offset + 3 + PES_header_data_length` — the stuffing is skipped by the later seek, not read. -/
theorem parseOpt_reader (h : PESOptionalHeader) (st : Nat) (ok : PESOptOkR h st) (bs : Bytes) (off : Int) (r : Bytes)
    (hat : It.At ⟨bs, off⟩ (flagBytes h ++ ([h.headerLength] ++ (optFields h ++ r)))) :
    ∃ j, parsePESOptionalHeader ⟨bs, off⟩ = .ok ((h, off + 3 + ((h.headerLength : Nat) : Int)), j) ∧ j.bs = bs := by
  obtain ⟨b, hb, b1, b2, b3, b4, b5, b6⟩ := pes_byte0 h.scramblingControl (b2n h.priority) (b2n h.dataAlignmentIndicator)
    (b2n h.isCopyrighted) (b2n h.isOriginal) ok.scramblingControl (b2n_le _) (b2n_le _) (b2n_le _) (b2n_le _)
  obtain ⟨f, hf, f1, f2, f3, f4, f5, f6, f7⟩ := pes_byte1c h.ptsDTSIndicator (b2n h.hasESCR) (b2n h.hasESRate) (b2n h.hasDSMTrickMode)
    (b2n h.hasAdditionalCopyInfo) (b2n h.hasCRC) (b2n h.hasExtension) ok.ind (b2n_le _) (b2n_le _) (b2n_le _) (b2n_le _) (b2n_le _) (b2n_le _)
  unfold flagBytes optFields tailA at hat
  rw [hb, hf] at hat
  simp only [List.append_assoc, List.cons_append, List.nil_append] at hat
  unfold parsePESOptionalHeader
  rw [P.bind_of_ok (nextByte_at bs off b _ hat)]
  have a1 := It.At.advance1 hat
  rw [P.bind_of_ok (nextByte_at bs _ f _ a1)]
  have a2 := It.At.advance1 a1
  rw [P.bind_of_ok (nextByte_at bs _ _ _ a2)]
  have a3 := It.At.advance1 a2
  rw [P.bind_of_ok (offset_run _)]
  simp only [f1, f2, f3, f4, f5, f6, f7, b1, b2, b3, b4, b5, b6, b2n_eq_one, Bool.decide_eq_true]
  obtain ⟨o1, o2, hpts, hdts, a4⟩ := seg_ptsdts h.ptsDTSIndicator h.pts h.dts ok.ind ok.pts ok.dts bs _ _ a3
  rw [P.bind_of_ok hpts, P.bind_of_ok hdts]
  obtain ⟨r5, a5⟩ := (seg_escr _ _ ok.escr).run a4
  rw [P.bind_of_ok r5]
  obtain ⟨r6, a6⟩ := (seg_rate _ _ ok.esRate).run a5
  rw [P.bind_of_ok r6]
  obtain ⟨r7, a7⟩ := (seg_dsm _ _ ok.dsm).run a6
  rw [P.bind_of_ok r7]
  obtain ⟨r8, a8⟩ := (seg_aci _ _ ok.aci).run a7
  rw [P.bind_of_ok r8]
  unfold crcSeg at a8
  obtain ⟨r9, a9⟩ := (seg_crc _ _ ok.crc).run a8
  rw [P.bind_of_ok r9]
  generalize o2 + _ + _ + _ + _ + _ = o8 at a9 ⊢
  clear a1 a2 a3 a4 a5 a6 a7 a8 hpts hdts hat r5 r6 r7 r8 r9
  have e_mb := ok.markerBits
  have e_of := ok.noOptionalFields
  have e_pack := ok.noPack.1
  have e_packf := ok.noPack.2
  have e_off : off + 1 + 1 + 1 + ((h.headerLength : Nat) : Int) = off + 3 + ((h.headerLength : Nat) : Int) := by omega
  rw [e_off]
  unfold tailExt at a9
  by_cases hext : h.hasExtension = true
  · simp only [hext, if_true] at a9 ⊢
    obtain ⟨e, he, g1, g2, g3, g4, g5⟩ := pes_byte_ext (b2n h.hasPrivateData) (b2n h.hasProgramPacketSequenceCounter)
      (b2n h.hasPSTDBuffer) (b2n h.hasExtension2) (b2n_le _) (b2n_le _) (b2n_le _) (b2n_le _)
    rw [he] at a9
    simp only [List.append_assoc, List.cons_append, List.nil_append] at a9
    rw [P.bind_of_ok (nextByte_at bs _ e _ a9)]
    have c1 := It.At.advance1 a9
    simp only [g1, g2, g3, g4, g5, b2n_eq_one, Bool.decide_eq_true]
    obtain ⟨s2, c2⟩ := (seg_priv _ _ ok.priv).run c1
    rw [P.bind_of_ok s2]
    have hpure2 : ∀ (i : It), (if (0 : Nat) = 1 then It.nextByte else pure 0 : P Nat) i = .ok (0, i) := fun _ => rfl
    rw [P.bind_of_ok (hpure2 _)]
    obtain ⟨s3, c3⟩ := (seg_psc _ _ _ _ ok.psc).run c2
    rw [P.bind_of_ok s3]
    obtain ⟨s4, c4⟩ := (seg_pstd _ _ _ ok.pstd).run c3
    rw [P.bind_of_ok s4]
    obtain ⟨s5, c5⟩ := (seg_ext2 _ _ _ ok.ext2).run c4
    rw [P.bind_of_ok s5]
    generalize o8 + 1 + _ + _ + _ + _ = o9 at c5 ⊢
    refine ⟨⟨bs, o9⟩, ?_, rfl⟩
    show Res.ok _ = _
    congr 3
    clear ok a9 e_off hb hf b1 b2 b3 b4 b5 b6 f1 f2 f3 f4 f5 f6 f7 c1 c2 c3 c4 c5 s2 s3 s4 s5 he g1 g2 g3 g4 g5
    cases h
    simp only at *
    subst_vars
    rfl
  · simp only [hext] at a9 ⊢
    have hext' : h.hasExtension = false := by simpa using hext
    obtain ⟨x1, x2, x3, x4⟩ := ok.extFlags hext'
    have y1 := ok.priv
    have y2 := ok.psc
    have y3 := ok.pstd
    have y4 := ok.ext2
    simp only [x1, x2, x3, x4, Bool.false_eq_true, if_false] at y1 y2 y3 y4
    obtain ⟨y21, y22, y23⟩ := y2
    obtain ⟨y31, y32⟩ := y3
    obtain ⟨y41, y42⟩ := y4
    refine ⟨⟨bs, o8⟩, ?_, rfl⟩
    show Res.ok _ = _
    congr 3
    clear ok a9 e_off hb hf b1 b2 b3 b4 b5 b6 f1 f2 f3 f4 f5 f6 f7
    cases h
    simp only at *
    subst_vars
    rfl

/-! ### the reference encoder produces this layout -/

/-- what `SpecEq.PESOptAgree` asks, minus "no CRC" -/
structure AgreeR (h : PESOptionalHeader) : Prop where
  noPack : h.hasExtension = true → h.hasPackHeaderField = false
  priv : h.hasExtension = true → h.hasPrivateData = true → h.privateData.length = 16
  pts : h.ptsDTSIndicator = 2 ∨ h.ptsDTSIndicator = 3 → 0 ≤ (h.pts.getD default).base
  dts : h.ptsDTSIndicator = 3 → 0 ≤ (h.dts.getD default).base
  escr : h.hasESCR = true → 0 ≤ (h.escr.getD default).base ∧ 0 ≤ (h.escr.getD default).extension
  dsm : h.hasDSMTrickMode = true →
    (h.dsmTrickMode.getD {}).trickModeControl = 0 ∨ (h.dsmTrickMode.getD {}).trickModeControl = 3 →
    (h.dsmTrickMode.getD {}).intraSliceRefresh < 2

theorem agreeR_of_okR (h : PESOptionalHeader) (st : Nat) (ok : PESOptOkR h st) : AgreeR h := by
  have ag := optAgree_of_ok (strip h) (strip_ok h st ok)
  exact ⟨ag.noPack, ag.priv, ag.pts, ag.dts, ag.escr, ag.dsm⟩

theorem specData_eq_fields (h : PESOptionalHeader) (ag : AgreeR h) : specData h = optFields h := by
  unfold specData optFields tailA crcSeg tailExt
  have e1 : (if h.ptsDTSIndicator = 2 then Spec.enc (Spec.tsFields 2 (h.pts.getD default).base.toNat) else [])
      = if h.ptsDTSIndicator = 2 then ptsBytes 2 (h.pts.getD default) else [] := by
    by_cases hc : h.ptsDTSIndicator = 2
    · rw [if_pos hc, if_pos hc, tsFields_eq _ _ (ag.pts (.inl hc))]
    · rw [if_neg hc, if_neg hc]
  have e2 : (if h.ptsDTSIndicator = 3 then Spec.enc (Spec.tsFields 3 (h.pts.getD default).base.toNat)
          ++ Spec.enc (Spec.tsFields 1 (h.dts.getD default).base.toNat) else [])
      = if h.ptsDTSIndicator = 3 then ptsBytes 3 (h.pts.getD default) ++ ptsBytes 1 (h.dts.getD default) else [] := by
    by_cases hc : h.ptsDTSIndicator = 3
    · rw [if_pos hc, if_pos hc, tsFields_eq _ _ (ag.pts (.inr hc)), tsFields_eq _ _ (ag.dts hc)]
    · rw [if_neg hc, if_neg hc]
  have e3 : (if h.hasESCR = true then
          Spec.enc [(2, 3), (3, (h.escr.getD default).base.toNat / 2 ^ 30), (1, 1),
            (15, (h.escr.getD default).base.toNat / 2 ^ 15 % 2 ^ 15), (1, 1),
            (15, (h.escr.getD default).base.toNat % 2 ^ 15), (1, 1), (9, (h.escr.getD default).extension.toNat), (1, 1)]
        else []) = if h.hasESCR = true then escrBytes (h.escr.getD default) else [] := by
    by_cases hc : h.hasESCR = true
    · rw [if_pos hc, if_pos hc, escr_eq _ (ag.escr hc).1 (ag.escr hc).2]
    · rw [if_neg hc, if_neg hc]
  have e4 : Spec.enc [(1, 1), (22, h.esRate), (1, 1)] = packFields [(1, 1), (h.esRate, 22), (1, 1)] := by
    rw [enc_pack _ (by wd)]; rfl
  have e5 : (if h.hasDSMTrickMode = true then Spec.enc (Spec.trickModeFields (h.dsmTrickMode.getD {})) else [])
      = if h.hasDSMTrickMode = true then dsmBytes (h.dsmTrickMode.getD default) else [] := by
    by_cases hc : h.hasDSMTrickMode = true
    · rw [if_pos hc, if_pos hc, dsm_eq _ (ag.dsm hc)]; rfl
    · rw [if_neg hc, if_neg hc]
  have e6 : Spec.enc [(1, 1), (7, h.additionalCopyInfo)] = packFields [(1, 1), (h.additionalCopyInfo, 7)] := by
    rw [enc_pack _ (by wd)]; rfl
  have e7 : Spec.enc [(16, h.crc)] = packFields [(h.crc, 16)] := by
    rw [enc_pack _ (by wd)]; rfl
  have e8 : (if h.hasExtension = true then
      Spec.enc [Spec.bit h.hasPrivateData, Spec.bit h.hasPackHeaderField, Spec.bit h.hasProgramPacketSequenceCounter,
        Spec.bit h.hasPSTDBuffer, (3, 7), Spec.bit h.hasExtension2]
      ++ (if h.hasPrivateData = true then h.privateData else [])
      ++ (if h.hasProgramPacketSequenceCounter = true then
            Spec.enc [(1, 1), (7, h.packetSequenceCounter), (1, 1), (1, h.mpeg1OrMPEG2ID), (6, h.originalStuffingLength)] else [])
      ++ (if h.hasPSTDBuffer = true then Spec.enc [(2, 1), (1, h.pstdBufferScale), (13, h.pstdBufferSize)] else [])
      ++ (if h.hasExtension2 = true then Spec.enc [(1, 1), (7, h.extension2Data.length)] ++ h.extension2Data else [])
    else [])
    = (if h.hasExtension = true then
        packFields [(b2n h.hasPrivateData, 1), (0, 1), (b2n h.hasProgramPacketSequenceCounter, 1),
          (b2n h.hasPSTDBuffer, 1), (7, 3), (b2n h.hasExtension2, 1)]
        ++ ((if h.hasPrivateData = true then bytesN h.privateData 16 0 else [])
        ++ ((if h.hasProgramPacketSequenceCounter = true then
              packFields [(1, 1), (h.packetSequenceCounter, 7), (1, 1), (h.mpeg1OrMPEG2ID, 1), (h.originalStuffingLength, 6)]
            else [])
        ++ ((if h.hasPSTDBuffer = true then packFields [(1, 2), (h.pstdBufferScale, 1), (h.pstdBufferSize, 13)] else [])
        ++ (if h.hasExtension2 = true then packFields [(1, 1), (h.extension2Data.length, 7)] ++ h.extension2Data else []))))
      else []) := by
    by_cases hc : h.hasExtension = true
    · rw [if_pos hc, if_pos hc]
      have f1 : Spec.enc [Spec.bit h.hasPrivateData, Spec.bit h.hasPackHeaderField, Spec.bit h.hasProgramPacketSequenceCounter,
          Spec.bit h.hasPSTDBuffer, (3, 7), Spec.bit h.hasExtension2]
          = packFields [(b2n h.hasPrivateData, 1), (0, 1), (b2n h.hasProgramPacketSequenceCounter, 1),
            (b2n h.hasPSTDBuffer, 1), (7, 3), (b2n h.hasExtension2, 1)] := by
        rw [ag.noPack hc, enc_pack _ (by wd)]; rfl
      have f2 : (if h.hasPrivateData = true then h.privateData else [])
          = if h.hasPrivateData = true then bytesN h.privateData 16 0 else [] := by
        by_cases hp : h.hasPrivateData = true
        · rw [if_pos hp, if_pos hp, bytesN_exact _ _ _ (ag.priv hc hp)]
        · rw [if_neg hp, if_neg hp]
      have f3 : Spec.enc [(1, 1), (7, h.packetSequenceCounter), (1, 1), (1, h.mpeg1OrMPEG2ID), (6, h.originalStuffingLength)]
          = packFields [(1, 1), (h.packetSequenceCounter, 7), (1, 1), (h.mpeg1OrMPEG2ID, 1), (h.originalStuffingLength, 6)] := by
        rw [enc_pack _ (by wd)]; rfl
      have f4 : Spec.enc [(2, 1), (1, h.pstdBufferScale), (13, h.pstdBufferSize)]
          = packFields [(1, 2), (h.pstdBufferScale, 1), (h.pstdBufferSize, 13)] := by
        rw [enc_pack _ (by wd)]; rfl
      have f5 : Spec.enc [(1, 1), (7, h.extension2Data.length)] = packFields [(1, 1), (h.extension2Data.length, 7)] := by
        rw [enc_pack _ (by wd)]; rfl
      rw [f1, f2, f3, f4, f5]
      simp only [List.append_assoc]
    · rw [if_neg hc, if_neg hc]
  rw [e1, e2, e3, e4, e5, e6, e7, e8]
  simp only [List.append_assoc, List.append_nil]

theorem optFlags_eq_crc (h : PESOptionalHeader) (n : Nat) :
    Spec.enc [(2, 2), (2, h.scramblingControl), Spec.bit h.priority, Spec.bit h.dataAlignmentIndicator,
        Spec.bit h.isCopyrighted, Spec.bit h.isOriginal, (2, h.ptsDTSIndicator), Spec.bit h.hasESCR, Spec.bit h.hasESRate,
        Spec.bit h.hasDSMTrickMode, Spec.bit h.hasAdditionalCopyInfo, Spec.bit h.hasCRC, Spec.bit h.hasExtension, (8, n)]
    = flagBytes h ++ [n % 256] := by
  have e := enc_append [(2, 2), (2, h.scramblingControl), Spec.bit h.priority, Spec.bit h.dataAlignmentIndicator,
        Spec.bit h.isCopyrighted, Spec.bit h.isOriginal]
      ([(2, h.ptsDTSIndicator), Spec.bit h.hasESCR, Spec.bit h.hasESRate,
        Spec.bit h.hasDSMTrickMode, Spec.bit h.hasAdditionalCopyInfo, Spec.bit h.hasCRC, Spec.bit h.hasExtension] ++ [(8, n)]) (by wd)
  have e' := enc_append [(2, h.ptsDTSIndicator), Spec.bit h.hasESCR, Spec.bit h.hasESRate,
        Spec.bit h.hasDSMTrickMode, Spec.bit h.hasAdditionalCopyInfo, Spec.bit h.hasCRC, Spec.bit h.hasExtension] [(8, n)] (by wd)
  simp only [List.cons_append, List.nil_append] at e e'
  rw [e, e', enc_byte, enc_pack _ (by wd), enc_pack _ (by wd)]
  unfold flagBytes
  simp only [List.append_assoc]
  rfl

/-- **the reference optional header, byte for byte**: flag bytes, PES_header_data_length = `h.headerLength`, the fields,
`st` stuffing bytes 0xff -/
theorem optEncode_layout (h : PESOptionalHeader) (st : Nat) (ok : PESOptOkR h st) :
    Spec.pesOptionalEncode h st = flagBytes h ++ ([h.headerLength] ++ (optFields h ++ List.replicate st 0xff)) := by
  rw [optEncode_shape, specData_eq_fields h (agreeR_of_okR h st ok), optFlags_eq_crc]
  have hl : (optFields h ++ List.replicate st 0xff).length % 256 = h.headerLength := by
    rw [List.length_append, optFields_length h st ok, List.length_replicate, ← ok.headerLength]
    exact Nat.mod_eq_of_lt ok.fits
  rw [hl]
  simp only [List.append_assoc]

theorem flagBytes_length (h : PESOptionalHeader) : (flagBytes h).length = 2 := by
  simp [flagBytes, packFields_length, fieldsWidth]

/-- its length: 3 + PES_header_data_length -/
theorem optEncode_length (h : PESOptionalHeader) (st : Nat) (ok : PESOptOkR h st) :
    (Spec.pesOptionalEncode h st).length = 3 + h.headerLength := by
  rw [optEncode_layout h st ok]
  simp only [List.length_append, flagBytes_length, optFields_length h st ok, List.length_replicate, List.length_cons,
    List.length_nil, ok.headerLength]
  omega

/-- `parsePESOptionalHeader` on the reference optional header followed by anything -/
theorem parseOpt_spec (h : PESOptionalHeader) (st : Nat) (ok : PESOptOkR h st) (bs : Bytes) (off : Int) (r : Bytes)
    (hat : It.At ⟨bs, off⟩ (Spec.pesOptionalEncode h st ++ r)) :
    ∃ j, parsePESOptionalHeader ⟨bs, off⟩ = .ok ((h, off + 3 + ((h.headerLength : Nat) : Int)), j) ∧ j.bs = bs := by
  rw [optEncode_layout h st ok] at hat
  simp only [List.append_assoc] at hat
  exact parseOpt_reader h st ok bs off (List.replicate st 0xff ++ r) hat

/-! ### the whole PES packet -/

/-- `PESHeaderOkR h st`: 8-bit stream id, 16-bit PES_packet_length (ANY value: the reader theorem below says what each
value does), an optional header exactly for the stream ids that carry one, satisfying `PESOptOkR … st` -/
structure PESHeaderOkR (h : PESHeader) (st : Nat) : Prop where
  streamID : h.streamID < 256
  packetLength : h.packetLength < 65536
  optional : if hasPESOptionalHeader h.streamID then ∃ oh, h.optionalHeader = some oh ∧ PESOptOkR oh st else h.optionalHeader = none

/-- bytes of the optional header: 3 + PES_header_data_length, or 0 for stream ids without one -/
def optLen (h : PESHeader) : Nat :=
  if hasPESOptionalHeader h.streamID then 3 + (h.optionalHeader.getD {}).headerLength else 0

theorem pesEncode_length (h : PESHeader) (st : Nat) (payload : Bytes) (ok : PESHeaderOkR h st) :
    (Spec.pesEncode h st payload).length = 6 + optLen h + payload.length := by
  unfold Spec.pesEncode optLen
  simp only []
  rw [pesStart_eq]
  have hopt := ok.optional
  by_cases ho : hasPESOptionalHeader h.streamID = true
  · rw [if_pos ho] at hopt
    obtain ⟨oh, hoh, ook⟩ := hopt
    simp only [ho, if_true, hoh, Option.getD_some, List.length_append, optEncode_length oh st ook, List.length_cons,
      List.length_nil, beBytes_length]
  · simp only [ho, Bool.false_eq_true, if_false, List.length_append, List.length_cons, List.length_nil, beBytes_length]

theorem parsePESHeader_spec (h : PESHeader) (st : Nat) (payload : Bytes) (ok : PESHeaderOkR h st) :
    ∃ j, parsePESHeader ⟨Spec.pesEncode h st payload, 3⟩ =
      .ok ((h, ((6 + optLen h : Nat) : Int),
            if h.packetLength > 0 then ((6 + h.packetLength : Nat) : Int) else ((6 + optLen h + payload.length : Nat) : Int)), j) ∧
      j.bs = Spec.pesEncode h st payload := by
  obtain ⟨x, y, hxy, exy⟩ := be2_bytes _ ok.packetLength
  have hsid : h.streamID % 256 = h.streamID := Nat.mod_eq_of_lt ok.streamID
  have hopt := ok.optional
  have hlen := pesEncode_length h st payload ok
  by_cases ho : hasPESOptionalHeader h.streamID = true
  · rw [if_pos ho] at hopt
    obtain ⟨oh, hoh, ook⟩ := hopt
    have hL : optLen h = 3 + oh.headerLength := by unfold optLen; rw [if_pos ho, hoh]; rfl
    generalize hbs : Spec.pesEncode h st payload = bs at hlen ⊢
    have hbytes : bs = [0, 0, 1] ++ (h.streamID :: ([x, y] ++ (Spec.pesOptionalEncode oh st ++ payload))) := by
      rw [← hbs]
      unfold Spec.pesEncode
      simp only []
      rw [pesStart_eq, hxy, hsid, if_pos ho, hoh]
      simp
    have a3 : It.At ⟨bs, 3⟩ (h.streamID :: ([x, y] ++ (Spec.pesOptionalEncode oh st ++ payload))) := ⟨[0, 0, 1], hbytes, rfl⟩
    unfold parsePESHeader
    rw [P.bind_of_ok (nextByte_at bs 3 _ _ a3)]
    have a4 := It.At.advance1 a3
    rw [P.bind_of_ok (nextBytes_at bs _ _ _ 2 (by simp) a4)]
    have a6 := It.At.advance a4 2 (by simp)
    rw [P.bind_of_ok (offset_run _), P.bind_of_ok (len_run _)]
    simp only [ho, if_true, List.getD_cons_zero, List.getD_cons_succ, exy]
    obtain ⟨j, hj, hjb⟩ := parseOpt_spec oh st ook bs _ payload a6
    rw [P.bind_of_ok hj]
    refine ⟨j, ?_, hjb⟩
    show Res.ok _ = _
    have hh : ({ optionalHeader := some oh, packetLength := h.packetLength, streamID := h.streamID } : PESHeader) = h := by
      cases h; simp only at hoh; subst hoh; rfl
    rw [hh]
    congr 3
    congr 1
    · omega
    · by_cases hp : h.packetLength > 0
      · simp only [hp, if_true]; omega
      · simp only [hp, if_false, hlen]
  · have ho' : hasPESOptionalHeader h.streamID = false := by simpa using ho
    rw [if_neg ho] at hopt
    have hL : optLen h = 0 := by unfold optLen; rw [if_neg ho]
    generalize hbs : Spec.pesEncode h st payload = bs at hlen ⊢
    have hbytes : bs = [0, 0, 1] ++ (h.streamID :: ([x, y] ++ payload)) := by
      rw [← hbs]
      unfold Spec.pesEncode
      simp only []
      rw [pesStart_eq, hxy, hsid, if_neg ho]
      simp
    have a3 : It.At ⟨bs, 3⟩ (h.streamID :: ([x, y] ++ payload)) := ⟨[0, 0, 1], hbytes, rfl⟩
    unfold parsePESHeader
    rw [P.bind_of_ok (nextByte_at bs 3 _ _ a3)]
    have a4 := It.At.advance1 a3
    rw [P.bind_of_ok (nextBytes_at bs _ _ _ 2 (by simp) a4)]
    rw [P.bind_of_ok (offset_run _), P.bind_of_ok (len_run _)]
    simp only [ho', Bool.false_eq_true, if_false, List.getD_cons_zero, List.getD_cons_succ, exy]
    rw [P.bind_of_ok (offset_run _)]
    refine ⟨⟨bs, 3 + 1 + 2⟩, ?_, rfl⟩
    show Res.ok _ = _
    have hh : ({ optionalHeader := none, packetLength := h.packetLength, streamID := h.streamID } : PESHeader) = h := by
      cases h; simp only at hopt; subst hopt; rfl
    rw [hh]
    congr 3
    congr 1
    · show (3 : Int) + 1 + 2 = _
      omega
    · by_cases hp : h.packetLength > 0
      · simp only [hp, if_true]; omega
      · simp only [hp, if_false, hlen]

theorem nextBytes_short (bs : Bytes) (off n : Int) (h : (bs.length : Int) < off + n) :
    It.nextBytes n ⟨bs, off⟩ = .err .other := by
  unfold It.nextBytes
  simp only [h, if_true]

/-- the reference packet as prefix ++ payload, the prefix having `6 + optLen h` bytes -/
theorem pesEncode_split (h : PESHeader) (st : Nat) (payload : Bytes) (ok : PESHeaderOkR h st) :
    ∃ pre, Spec.pesEncode h st payload = pre ++ payload ∧ pre.length = 6 + optLen h := by
  refine ⟨Spec.pesEncode h st [], ?_, ?_⟩
  · unfold Spec.pesEncode; simp only [List.append_nil]
  · have := pesEncode_length h st [] ok
    simpa using this

/-- **P1, every PES_packet_length situation at once.**  With `L = optLen h` (0, or 3 + PES_header_data_length) and `n`
the number of bytes that follow the header in the slice:
* PES_packet_length = 0 (unbounded): all `n` bytes are the data;
* 0 < PES_packet_length < L (the announced length ends inside the optional header): error;
* L ≤ PES_packet_length ≤ L + n: the first `PES_packet_length − L` bytes are the data (exact: all of them; shorter:
  truncated to the announced length, the rest is dropped silently);
* PES_packet_length > L + n (longer than what is there): error, no partial data.
In every successful case the header delivered is `h` itself (`headerLength` = the PES_header_data_length byte, stuffing
included; nothing else records the stuffing). -/
theorem parse_pesEncode_general (h : PESHeader) (st : Nat) (payload : Bytes) (ok : PESHeaderOkR h st) :
    parsePESData.val (Spec.pesEncode h st payload) =
      if h.packetLength = 0 then .ok { data := payload, header := h }
      else if h.packetLength < optLen h ∨ optLen h + payload.length < h.packetLength then .err .other
      else .ok { data := payload.take (h.packetLength - optLen h), header := h } := by
  obtain ⟨j, hj, hjb⟩ := parsePESHeader_spec h st payload ok
  obtain ⟨pre, hsplit, hprelen⟩ := pesEncode_split h st payload ok
  have hlen := pesEncode_length h st payload ok
  obtain ⟨jb, jo⟩ := j
  simp only at hjb
  subst hjb
  unfold P.val parsePESData
  rw [P.bind_of_ok (seek_run _ _), P.bind_of_ok hj]
  simp only []
  by_cases h0 : h.packetLength = 0
  · have hp : ¬ (h.packetLength > 0) := by omega
    simp only [h0, if_true]
    rw [if_neg (by omega)]
    rw [P.bind_of_ok (seek_run _ _)]
    have a : It.At ⟨Spec.pesEncode h st payload, ((6 + optLen h : Nat) : Int)⟩ (payload ++ []) :=
      ⟨pre, by simpa using hsplit, by simp [hprelen]⟩
    rw [P.bind_of_ok (nextBytes_at _ _ payload [] _ (by omega) a)]
    rfl
  · have hp : h.packetLength > 0 := by omega
    simp only [hp, if_true, h0, if_false]
    by_cases hs : h.packetLength < optLen h
    · rw [if_pos (by omega), if_pos (.inl hs)]
      rfl
    · rw [if_neg (by omega)]
      rw [P.bind_of_ok (seek_run _ _)]
      by_cases hlong : optLen h + payload.length < h.packetLength
      · rw [if_pos (.inr hlong)]
        rw [P.bind_run, nextBytes_short _ _ _ (by rw [hlen]; omega)]
      · rw [if_neg (by omega)]
        have hk : h.packetLength - optLen h ≤ payload.length := by omega
        have a : It.At ⟨Spec.pesEncode h st payload, ((6 + optLen h : Nat) : Int)⟩
            (payload.take (h.packetLength - optLen h) ++ payload.drop (h.packetLength - optLen h)) :=
          ⟨pre, by rw [List.take_append_drop]; exact hsplit, by simp [hprelen]⟩
        rw [P.bind_of_ok (nextBytes_at _ _ _ _ _ (by rw [List.length_take]; omega) a)]
        rfl

end Astits.PESReader
