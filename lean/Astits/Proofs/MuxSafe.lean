/-
C01 support — the muxer's output is a "safe" stream for the demuxer (`DemuxSafePM.SP`): the hypothesis `hsafe` of
`mux_demux_nextData_partial` discharged from the history, and the `NextData`-level theorem for histories with
automatic PIDs.
-/
import Astits.Proofs.MuxTablesDemux
import Astits.Proofs.DemuxSafePM
namespace Astits.MuxSafe
open Astits.MuxCounters Astits.MuxTables Astits.MuxDemux Astits.MuxAuto Astits.MuxAutoDemux Astits.MuxTablesDemux
open Astits.DemuxSafePM Astits.PSIRT Astits.PESRT

/-- no stream of the muxer is on a DVB SI PID (0x10–0x14, 0x1e, 0x1f) -/
def StreamsNoSI (m : Mux) : Prop := ∀ es ∈ m.streams, ¬ SI es.elementaryPID

/-- an explicitly chosen PID is not a DVB SI PID -/
def OpNoSI : Op → Prop
  | .add es => ¬ SI es.elementaryPID
  | _ => True

theorem streamsNoSI_new (period : Nat) : StreamsNoSI (newMux period) := fun es h => by cases h

theorem streamsNoSI_step (m : Mux) (op : Op) (h : PidInv m) (hn : StreamsNoSI m) (hok : StepOK' m op) (hsi : OpNoSI op) :
    StreamsNoSI (step m op).2 := by
  have hc : (step m op).2.streams = (nextContent m op).1 := congrArg Prod.fst (step_content m op)
  intro es hes
  rw [hc] at hes
  cases op with
  | add e =>
    simp only [nextContent] at hes
    split at hes
    · rename_i h0
      rcases List.mem_append.mp hes with h1 | h1
      · exact hn es h1
      · simp only [List.mem_cons, List.not_mem_nil, or_false] at h1
        subst h1
        obtain ⟨_, _, a1, _⟩ := add_auto_spec m e h h0 (hok.2 h0)
        intro hh
        unfold SI at hh
        simp only at hh
        omega
    · split at hes
      · exact hn es hes
      · rcases List.mem_append.mp hes with h1 | h1
        · exact hn es h1
        · simp only [List.mem_cons, List.not_mem_nil, or_false] at h1
          subst h1; exact hsi
  | remove pid =>
    simp only [nextContent] at hes
    exact hn es (List.mem_filter.mp hes).1
  | setPCR pid => exact hn es hes
  | tables => exact hn es hes
  | data d => exact hn es hes

/-- the packets parsed from whole chunks inherit what is known of the PIDs read from the chunks -/
theorem parsed_pids (Q : Nat → Prop) (cs : List Bytes) (s : List Packet) (hs : ParsesTo cs s)
    (h : ∀ c ∈ cs, c.length = 188 ∧ Q (pktPID c)) : ∀ p ∈ s, Q p.header.pid := by
  induction cs generalizing s with
  | nil => rw [ParsesTo.nil_inv hs]; intro p hp; cases hp
  | cons c cs ih =>
    cases s with
    | nil => intro p hp; cases hp
    | cons p0 ps =>
      obtain ⟨hl, hq⟩ := h c (by simp)
      intro p hp
      rcases List.mem_cons.mp hp with rfl | hp'
      · rw [parsePacket_pid_188 c p hl hs.1]; exact hq
      · exact ih ps hs.2 (fun x hx => h x (by simp [hx])) p hp'

theorem sp_of_other (p : Packet) (h0 : p.header.pid ≠ 0) (h1 : p.header.pid ≠ 4096) (hsi : ¬ SI p.header.pid) : SP p :=
  ⟨hsi, fun h => by rcases h with h | h <;> contradiction⟩

theorem safeDatum_pat (ccv : Nat) : SafeDatum (patDatum ccv) := by
  intro pat hp
  simp only [patDatum, Option.some.injEq] at hp
  subst hp
  intro pg hpg
  simp only [patData, List.mem_cons, List.not_mem_nil, or_false] at hpg
  subst hpg
  rfl

/-- **one call: every packet the demuxer parses from its chunks is safe** -/
theorem op_SP (m : Mux) (op : Op) (h : Reach m) (hn : StreamsNoSI m) (hyp : TablesHyp m op) (s : List Packet)
    (hs : ParsesTo (step m op).1 s) : ∀ p ∈ s, SP p := by
  have hw := step_whole m op
  have hkeys : ∀ k, k ∈ m.esCC.map (·.1) → ¬ SI k := by
    intro k hk
    rw [h.pid.pids] at hk
    obtain ⟨es, hes, rfl⟩ := List.mem_map.mp hk
    exact hn es hes
  have others : ∀ (cs : List Bytes) (s' : List Packet), ParsesTo cs s' →
      (∀ c ∈ cs, c.length = 188 ∧ pktPID c ≠ 0 ∧ pktPID c ≠ 4096 ∧ pktPID c ∈ m.esCC.map (·.1)) → ∀ p ∈ s', SP p := by
    intro cs s' hs' hall p hp
    have := parsed_pids (fun k => k ≠ 0 ∧ k ≠ 4096 ∧ ¬ SI k) cs s' hs'
      (fun c hc => ⟨(hall c hc).1, (hall c hc).2.1, (hall c hc).2.2.1, hkeys _ (hall c hc).2.2.2⟩) p hp
    exact sp_of_other p this.1 this.2.1 this.2.2
  by_cases he : Emits m op
  · obtain ⟨hso, hfit⟩ := hyp he
    obtain ⟨tcs, rest, ⟨hpcr, pat, pmt, p1, p2, rfl, a1, a2, a3, a4⟩, hc, hrest⟩ := emits_shape m op h.pid.inv he
    have hd := pmtOk_of_streams m h.pid hpcr hso hfit
    have hcc1 : m.patCC.inc.get < 16 := by
      rw [inc_get _ h.pid.inv.pat]; have := next_le m.patCC.value; omega
    have hcc2 : m.pmtCC.inc.get < 16 := by
      rw [inc_get _ h.pid.inv.pmt]; have := next_le m.pmtCC.value; omega
    rw [hc] at hs hw
    obtain ⟨st, sr, rfl, hst, hsr⟩ := hs.append_inv
    obtain ⟨_, q1⟩ := MuxTables.tablePacket_parsed 0 _ p1 pat (by decide) hcc1 a2
    obtain ⟨_, q2⟩ := MuxTables.tablePacket_parsed 4096 _ p2 pmt (by decide) hcc2 a4
    have hst' : st = [tablePacket 0 m.patCC.inc.get (p1 ++ List.replicate (184 - p1.length) 0xff),
        tablePacket 4096 m.pmtCC.inc.get (p2 ++ List.replicate (184 - p2.length) 0xff)] :=
      hst.unique (s' := [_, _]) ⟨q1, q2, trivial⟩
    have hv1 : wPAT m < 32 := by rw [(wPAT_zero m h.ver).1]; decide
    have hv2 := pmtVersion_lt m h hpcr
    intro p hp
    rcases List.mem_append.mp hp with hp | hp
    · rw [hst'] at hp
      simp only [List.mem_cons, List.not_mem_nil, or_false] at hp
      rcases hp with rfl | rfl
      · refine ⟨by show ¬ SI 0; decide, fun _ => ⟨rfl, rfl, fun pm _ => ?_⟩⟩
        rw [(pat_packet pm m.patCC.inc.get (wPAT m) hcc1 hv1 p1 a1 (184 - p1.length)).2]
        intro ds hds x hx
        simp only [Res.ok.injEq] at hds
        subst hds
        simp only [List.mem_cons, List.not_mem_nil, or_false] at hx
        subst hx
        exact safeDatum_pat _
      · refine ⟨by show ¬ SI 4096; decide, fun _ => ⟨rfl, rfl, fun pm _ => ?_⟩⟩
        cases hh : pm.has 4096 with
        | true =>
          rw [(pmt_packet pm hh m.pmtCC.inc.get (wPMT m) hcc2 hv2 m.pmtData hd rfl p2 a3 (184 - p2.length)).2]
          intro ds hds x hx
          simp only [Res.ok.injEq] at hds
          subst hds
          simp only [List.mem_cons, List.not_mem_nil, or_false] at hx
          subst hx
          intro pat' hp'; cases hp'
        | false =>
          apply parseData_nonpsi_safe
          right
          show isPSIPayload 4096 pm = false
          unfold isPSIPayload
          rw [hh]; decide
    · exact others rest sr hsr (fun c hc' => ⟨hw c (by simp [hc']), hrest c hc'⟩) p hp
  · exact others _ s hs (fun c hc' => ⟨hw c hc', silent_shape m op h.pid.inv he c hc'⟩)

/-- per-call condition for the `NextData`-level theorems: admissible (automatic PIDs allowed), explicit PIDs off the
DVB SI range, and `TablesHyp` when the call emits the tables -/
def HistS (m : Mux) (op : Op) : Prop := StepOK' m op ∧ TablesHyp m op ∧ OpNoSI op

theorem run_SP (m : Mux) (ops : List Op) (h : Reach m) (hn : StreamsNoSI m) (hok : RunAll HistS m ops)
    (s : List Packet) (hs : ParsesTo (run m ops).1 s) : ∀ p ∈ s, SP p := by
  induction ops generalizing m s with
  | nil => rw [ParsesTo.nil_inv hs]; intro p hp; cases hp
  | cons op ops ih =>
    have hs' : ParsesTo ((step m op).1 ++ (run (step m op).2 ops).1) s := hs
    obtain ⟨s1, s2, rfl, h1, h2⟩ := hs'.append_inv
    intro p hp
    rcases List.mem_append.mp hp with hp | hp
    · exact op_SP m op h hn hok.1.2.1 s1 h1 p hp
    · exact ih (step m op).2 (step_reach m op h hok.1.1) (streamsNoSI_step m op h.pid hn hok.1.1 hok.1.2.2) hok.2 s2 h2 p hp

theorem run_whole (m : Mux) (ops : List Op) : ∀ c ∈ (run m ops).1, c.length = 188 := by
  induction ops generalizing m with
  | nil => intro c hc; cases hc
  | cons op ops ih =>
    intro c hc
    have hc' : c ∈ (step m op).1 ++ (run (step m op).2 ops).1 := hc
    rcases List.mem_append.mp hc' with h | h
    · exact step_whole m op c h
    · exact ih _ c h

/-- **`hsafe` from the history.**  The only PATs in the muxer's stream are its own, which list PMT PID 0x1000 only:
whatever the number of `NextData` calls, the demuxer's program map knows no other PMT PID — so a PID that is an
elementary-stream PID to begin with (not 0, 1, a DVB SI PID) and is not 0x1000 is never turned into a PSI PID. -/
theorem hsafe_of_history (pid : Nat) (hes : ESPid pid []) (hpmt : pid ≠ 4096) (m : Mux) (ops : List Op) (h : Reach m)
    (hn : StreamsNoSI m) (hok : RunAll HistS m ops) (s : List Packet) (hs : ParsesTo (run m ops).1 s) (k : Nat) :
    ESPid pid (after k (demuxOf (run m ops).1.flatten)).programMap :=
  esPid_of_safe pid _ hes hpmt
    (programMap_safe (run m ops).1 s hs (run_whole m ops) (run_SP m ops h hn hok s hs) k)

/-- the program map itself: no key but 0x1000, ever -/
theorem programMap_of_history (m : Mux) (ops : List Op) (h : Reach m) (hn : StreamsNoSI m) (hok : RunAll HistS m ops)
    (s : List Packet) (hs : ParsesTo (run m ops).1 s) (k : Nat) :
    ∀ e ∈ (after k (demuxOf (run m ops).1.flatten)).programMap, e.1 = 4096 :=
  programMap_safe (run m ops).1 s hs (run_whole m ops) (run_SP m ops h hn hok s hs) k

/-! ## C01 through `NextData`, automatic PIDs included, `hsafe` discharged -/

/-- the `NextData`-level theorem of `MuxDemuxNext` for histories with automatic PIDs (`hsafe` still a hypothesis) -/
theorem history_nextData_auto (pid : Nat) (hpmt : pid ≠ 4096) (m : Mux) (ops : List Op) (hinv : PidInv m)
    (hok : RunAll (HistOKA pid) m ops) (s : List Packet) (hs : ParsesTo (run m ops).1 s)
    (n : Nat) (hsafe : ∀ k, k < n → ESPid pid (after k (demuxOf (run m ops).1.flatten)).programMap)
    (hend : (collect n (demuxOf (run m ops).1.flatten)).2 = true) :
    pidOut pid (collect n (demuxOf (run m ops).1.flatten)).1 =
      (writesOn pid m ops).map fun w => pesDelivered pid w.hdr w.data w.unit.first := by
  have hn : 0 < n := by
    cases n with
    | zero => simp [collect] at hend
    | succ k => omega
  have hes : ESPid pid [] := hsafe 0 hn
  have hp0 : pid ≠ 0 := by
    intro h
    have := hes.notEarly
    simp [h] at this
  rw [nextData_delivers pid _ s hs (run_whole m ops) n hsafe hend]
  obtain ⟨r1, r2, r3⟩ := run_stream' pid hp0 hpmt m ops hinv hok s hs
  have hc : ChainOK [] ((writesOn pid m ops).map (·.unit)) := chainOK_of_unitsFrom [] _ _ (Or.inl rfl) r2
  have hacc : s.filter (accepted pid) = ((writesOn pid m ops).map (·.unit)).flatMap UnitPk.packets := by
    have e1 : s.filter (accepted pid) = (s.filter (onPid pid)).filter (fun p => !p.header.transportErrorIndicator) := by
      rw [List.filter_filter]
      apply List.filter_congr
      intro p _
      simp only [accepted, onPid]
      cases (p.header.pid == pid) <;> cases p.header.hasPayload <;> cases p.header.transportErrorIndicator <;> rfl
    have e2 : (writesOn pid m ops).flatMap (·.unit.packets) = ((writesOn pid m ops).map (·.unit)).flatMap UnitPk.packets := by
      simp [List.flatMap_map]
    rw [e1, r1, e2, accepted_of_plain _ (chainOK_plain [] _ hc)]
  rw [hacc, groupsFrom_units pid _ hes.notEarly hc]
  have key : ∀ (ws : List PESUnit),
      (∀ w ∈ ws, C02.unitOnPID pid w.unit ∧ PESHeaderOk w.hdr ∧
        concatPayload w.unit.packets = pesHeaderBytes w.hdr w.data.length ++ w.data) →
      okAll (((ws.map (·.unit)).map UnitPk.packets).map (parseData · .none []))
        = ws.map fun w => pesDelivered pid w.hdr w.data w.unit.first := by
    intro ws
    induction ws with
    | nil => intro _; rfl
    | cons w r ih =>
      intro hall
      obtain ⟨h1, h2, h3⟩ := hall w (by simp)
      have hp : w.unit.first.header.pid = pid := h1 w.unit.first (by simp [UnitPk.packets])
      have hpd := parseData_pes_unit [] w.unit.first w.unit.rest w.hdr w.data (by rw [hp]; exact hes) h2 h3
      simp only [List.map_cons, okAll_cons]
      rw [ih (fun x hx => hall x (by simp [hx]))]
      have : parseData w.unit.packets .none [] = .ok [pesDelivered pid w.hdr w.data w.unit.first] := by
        rw [← hp]; exact hpd
      rw [this]
      rfl
  exact key _ r3

/-- everything the `NextData`-level theorem asks of each call -/
def HistN (pid : Nat) (m : Mux) (op : Op) : Prop := HistOKA pid m op ∧ TablesHyp m op ∧ OpNoSI op

theorem histN_split (pid : Nat) (m : Mux) (ops : List Op) (h : RunAll (HistN pid) m ops) :
    RunAll (HistOKA pid) m ops ∧ RunAll HistS m ops := by
  induction ops generalizing m with
  | nil => exact ⟨trivial, trivial⟩
  | cons op ops ih =>
    obtain ⟨i1, i2⟩ := ih _ h.2
    exact ⟨⟨h.1.1, i1⟩, ⟨⟨h.1.1.1, h.1.2.1, h.1.2.2⟩, i2⟩⟩

/-- **C01 on the model through `Demux.NextData`, `hsafe` discharged.** -/
theorem history_nextData (pid : Nat) (hes : ESPid pid []) (hpmt : pid ≠ 4096) (m : Mux) (ops : List Op) (h : Reach m)
    (hn : StreamsNoSI m) (hok : RunAll (HistN pid) m ops) (s : List Packet) (hs : ParsesTo (run m ops).1 s)
    (n : Nat) (hend : (collect n (demuxOf (run m ops).1.flatten)).2 = true) :
    pidOut pid (collect n (demuxOf (run m ops).1.flatten)).1 =
      (writesOn pid m ops).map fun w => pesDelivered pid w.hdr w.data w.unit.first := by
  obtain ⟨h1, h2⟩ := histN_split pid m ops hok
  exact history_nextData_auto pid hpmt m ops h.pid h1 s hs n
    (fun k _ => hsafe_of_history pid hes hpmt m ops h hn h2 s hs k) hend

/-- with termination made explicit -/
theorem history_nextData_all (pid : Nat) (hes : ESPid pid []) (hpmt : pid ≠ 4096) (m : Mux) (ops : List Op) (h : Reach m)
    (hn : StreamsNoSI m) (hok : RunAll (HistN pid) m ops) (s : List Packet) (hs : ParsesTo (run m ops).1 s) :
    ∃ n, (collect n (demuxOf (run m ops).1.flatten)).2 = true ∧
      ∀ k, pidOut pid (collect (n + k) (demuxOf (run m ops).1.flatten)).1 =
        (writesOn pid m ops).map fun w => pesDelivered pid w.hdr w.data w.unit.first := by
  obtain ⟨n, hn'⟩ := nextData_terminates (run m ops).1 s hs (run_whole m ops)
  refine ⟨n, hn', fun k => ?_⟩
  rw [collect_stable n _ hn' k]
  exact history_nextData pid hes hpmt m ops h hn hok s hs n hn'

/-! ## the muxer enforces "the PMT fits one packet" -/

theorem streams_pmtOk (m : Mux) (h : PidInv m) (hs : ∀ es ∈ m.streams, StreamOk es) :
    ∀ es ∈ m.streams, PMTStreamOk es :=
  fun es hes => ⟨(hs es hes).streamType, (h.distinct.2 es hes).2.2, (hs es hes).descs, (hs es hes).fits⟩

theorem calcPMTSectionLength_eq (m : Mux) (hs : ∀ es ∈ m.streams, StreamOk es) :
    calcPMTSectionLength m.pmtData = pmtBodySize m.pmtData % 65536 := by
  have hsum : (m.streams.map fun es => 5 + calcDescriptorsLength es.elementaryStreamDescriptors)
      = (m.streams.map fun es => 5 + descriptorsSize es.elementaryStreamDescriptors) := by
    apply List.map_congr_left
    intro es hes
    have := (hs es hes).fits
    simp only [calcDescriptorsLength]
    rw [Nat.mod_eq_of_lt (by omega)]
  simp only [calcPMTSectionLength, pmtBodySize, Mux.pmtData]
  rw [hsum]
  simp [calcDescriptorsLength, descriptorsSize]

/-- **a PMT that was emitted fits one packet**: if a call emitted the tables, the streams are `StreamOk` and the PMT
body does not overflow the 16-bit length computation, then the PMT body is at most 171 bytes (13 + body ≤ 184) -/
theorem emits_pmt_fits (m : Mux) (op : Op) (h : Reach m) (he : Emits m op) (hs : ∀ es ∈ m.streams, StreamOk es)
    (hlt : pmtBodySize m.pmtData < 65536) : pmtBodySize m.pmtData ≤ 171 := by
  obtain ⟨tcs, rest, ⟨hpcr, pat, pmt, p1, p2, rfl, a1, a2, a3, a4⟩, hc, hrest⟩ := emits_shape m op h.pid.inv he
  have hcc2 : m.pmtCC.inc.get < 16 := by
    rw [inc_get _ h.pid.inv.pmt]; have := next_le m.pmtCC.value; omega
  obtain ⟨hlen, _⟩ := MuxTables.tablePacket_parsed 4096 _ p2 pmt (by decide) hcc2 a4
  have hsl : calcPMTSectionLength m.pmtData = pmtBodySize m.pmtData := by
    rw [calcPMTSectionLength_eq m hs, Nat.mod_eq_of_lt hlt]
  have hpos : calcPMTSectionLength m.pmtData > 0 := by
    rw [hsl]; unfold pmtBodySize; omega
  have hw := writePMT 0 { sectionLength := calcPMTSectionLength m.pmtData, sectionSyntaxIndicator := true, tableID := 2 }
    { currentNextIndicator := true, tableIDExtension := 1, versionNumber := (pmtV m).get % 256 } m.pmtData rfl hpos
  have hbody : (pmtSectionBytes m.pmtData).length = pmtBodySize m.pmtData := by
    have h1 : (writeDescriptorsWithLength ([] : List Descriptor)).length = 2 + descriptorsSize [] :=
      writeDescriptorsWithLength_length [] (by intro d hd; cases hd)
    have h2 := entries_length m.streams (streams_pmtOk m h.pid hs)
    have e1 : m.pmtData.programDescriptors = [] := rfl
    have e2 : m.pmtData.elementaryStreams = m.streams := rfl
    rw [pmtSectionBytes_eq]
    unfold pmtBodySize
    rw [e1, e2]
    simp only [List.length_append, MuxCounters.packFields_length, fieldsWidth, h1, h2, descriptorsSize]
  have hp2 : writePSIData (pmtPSI m) = .ok p2 := a3
  unfold writePSIData pmtPSI tablePSI at hp2
  simp only [writePSISections] at hp2
  have hw' : writePSISection (mkPMTSection 0 { sectionLength := calcPMTSectionLength m.pmtData, sectionSyntaxIndicator := true, tableID := 2 }
    { currentNextIndicator := true, tableIDExtension := 1, versionNumber := (pmtV m).get % 256 } m.pmtData) = _ := hw
  unfold mkPMTSection at hw'
  rw [hw'] at hp2
  simp only [Res.bind_ok, Res.pure_eq, Res.ok.injEq] at hp2
  rw [← hp2] at hlen
  simp only [List.length_append, be32_length, hbody, MuxCounters.packFields_length, fieldsWidth, syntaxHeaderBytes,
    List.length_cons, List.length_nil, List.length_replicate] at hlen
  omega

/-- hence `TablesHyp` asks nothing about sizes beyond the 16-bit wrap-around -/
theorem tablesHyp_of_streams (m : Mux) (op : Op) (h : Reach m) (hs : ∀ es ∈ m.streams, StreamOk es)
    (hlt : pmtBodySize m.pmtData < 65536) : TablesHyp m op := by
  intro he
  have := emits_pmt_fits m op h he hs hlt
  exact ⟨hs, by omega⟩

/-! ## static sufficient conditions for the history hypotheses -/

theorem runAll_imp (P Q : Mux → Op → Prop) (h : ∀ m op, P m op → Q m op) (m : Mux) (ops : List Op)
    (hP : RunAll P m ops) : RunAll Q m ops := by
  induction ops generalizing m with
  | nil => trivial
  | cons op ops ih => exact ⟨h m op hP.1, ih _ hP.2⟩

theorem histT_of_histS (m : Mux) (ops : List Op) (h : RunAll HistS m ops) : RunAll HistT m ops :=
  runAll_imp HistS HistT (fun _ _ h => ⟨h.1, h.2.1⟩) m ops h

/-- every stream the caller adds satisfies `StreamOk` -/
def AddsOk : Op → Prop
  | .add es => StreamOk es
  | _ => True

/-- bytes a stream takes in the PMT section -/
def streamCost (es : PMTElementaryStream) : Nat := 5 + descriptorsSize es.elementaryStreamDescriptors
def streamsCost (l : List PMTElementaryStream) : Nat := (l.map streamCost).sum
/-- bytes the streams added by the history would take -/
def addsCost : List Op → Nat
  | [] => 0
  | .add es :: ops => streamCost es + addsCost ops
  | _ :: ops => addsCost ops

/-- the streams present are `StreamOk`, and with everything the rest of the history adds the PMT section stays within
its 12-bit length: 13 + 4082 < 4096 -/
structure Budget (m : Mux) (ops : List Op) : Prop where
  ok : ∀ es ∈ m.streams, StreamOk es
  cost : streamsCost m.streams + addsCost ops ≤ 4082

theorem streamsCost_append (a b : List PMTElementaryStream) : streamsCost (a ++ b) = streamsCost a + streamsCost b := by
  simp [streamsCost]

theorem streamsCost_filter_le (l : List PMTElementaryStream) (f : PMTElementaryStream → Bool) :
    streamsCost (l.filter f) ≤ streamsCost l := by
  induction l with
  | nil => exact Nat.le_refl _
  | cons x r ih =>
    simp only [List.filter_cons]
    split
    · simp only [streamsCost, List.map_cons, List.sum_cons] at ih ⊢; omega
    · simp only [streamsCost, List.map_cons, List.sum_cons] at ih ⊢; omega

theorem streamsCost_ge (l : List PMTElementaryStream) : 5 * l.length ≤ streamsCost l := by
  induction l with
  | nil => exact Nat.le_refl _
  | cons x r ih =>
    simp only [streamsCost, List.map_cons, List.sum_cons, List.length_cons, streamCost] at ih ⊢; omega

theorem pmtBodySize_eq (m : Mux) : pmtBodySize m.pmtData = 4 + streamsCost m.streams := by
  simp [pmtBodySize, Mux.pmtData, streamsCost, streamCost, descriptorsSize]
  rfl

theorem budget_new (period : Nat) (ops : List Op) (h : addsCost ops ≤ 4082) : Budget (newMux period) ops :=
  ⟨fun es hes => (by cases hes), (by show 0 + addsCost ops ≤ 4082; omega)⟩

theorem budget_step (m : Mux) (op : Op) (ops : List Op) (h : Budget m (op :: ops)) (ha : AddsOk op) :
    Budget (step m op).2 ops := by
  have hc : (step m op).2.streams = (nextContent m op).1 := congrArg Prod.fst (step_content m op)
  obtain ⟨hok, hcost⟩ := h
  suffices hh : (∀ es ∈ (nextContent m op).1, StreamOk es) ∧ streamsCost (nextContent m op).1 + addsCost ops ≤ 4082 from
    ⟨by rw [hc]; exact hh.1, by rw [hc]; exact hh.2⟩
  cases op with
  | add e =>
    have ha' : StreamOk e := ha
    simp only [addsCost] at hcost
    simp only [nextContent]
    split
    · refine ⟨?_, ?_⟩
      · intro es hes
        rcases List.mem_append.mp hes with h1 | h1
        · exact hok es h1
        · simp only [List.mem_cons, List.not_mem_nil, or_false] at h1
          subst h1
          exact ⟨ha'.streamType, ha'.descs, ha'.fits⟩
      · rw [streamsCost_append]
        have : streamsCost [{ e with elementaryPID := autoPID m }] = streamCost e := by
          simp [streamsCost, streamCost]
        omega
    · split
      · exact ⟨hok, by simp only; omega⟩
      · refine ⟨?_, ?_⟩
        · intro es hes
          rcases List.mem_append.mp hes with h1 | h1
          · exact hok es h1
          · simp only [List.mem_cons, List.not_mem_nil, or_false] at h1
            subst h1; exact ha'
        · rw [streamsCost_append]
          have : streamsCost [e] = streamCost e := by simp [streamsCost]
          omega
  | remove pid =>
    simp only [nextContent, addsCost] at hcost ⊢
    exact ⟨fun es hes => hok es (List.mem_filter.mp hes).1, by
      have := streamsCost_filter_le m.streams (fun x => x.elementaryPID != pid); omega⟩
  | setPCR pid => exact ⟨hok, hcost⟩
  | tables => exact ⟨hok, hcost⟩
  | data d => exact ⟨hok, hcost⟩

theorem budget_tablesHyp (m : Mux) (op : Op) (ops : List Op) (h : Budget m (op :: ops)) : TablesHyp m op := by
  intro _
  refine ⟨h.ok, ?_⟩
  rw [pmtBodySize_eq]
  have := h.cost
  omega

theorem budget_room (m : Mux) (op : Op) (ops : List Op) (h : Budget m (op :: ops)) : Room m op := by
  cases op with
  | add e =>
    intro _
    have := h.cost
    have := streamsCost_ge m.streams
    omega
  | remove _ => trivial
  | setPCR _ => trivial
  | tables => trivial
  | data _ => trivial

/-- **static condition**: every call `OpOK'`, every added stream `StreamOk` with an explicit PID (if any) off the DVB SI
range, and the added streams fit the PMT budget (which also bounds their number: room for automatic PIDs) -/
theorem runAll_histS_static (m : Mux) (ops : List Op) (hr : Reach m) (hb : Budget m ops)
    (h : ∀ op ∈ ops, OpOK' op ∧ AddsOk op ∧ OpNoSI op) : RunAll HistS m ops := by
  induction ops generalizing m with
  | nil => trivial
  | cons op ops ih =>
    obtain ⟨h1, h2, h3⟩ := h op (by simp)
    have hst : StepOK' m op := ⟨h1, budget_room m op ops hb⟩
    exact ⟨⟨hst, budget_tablesHyp m op ops hb, h3⟩,
      ih _ (step_reach m op hr hst) (budget_step m op ops hb h2) (fun o ho => h o (by simp [ho]))⟩

end Astits.MuxSafe
