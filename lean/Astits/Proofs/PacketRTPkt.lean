/-
C11 helper — whole-structure round trip, part 3: the whole packet (sync byte, header, adaptation field, payload).
-/
import Astits.Proofs.PacketRTAF
namespace Astits.PacketRT
open Astits

theorem P.bind_ok {α β} {x : P α} {f : α → P β} {i i' : It} {a : α} (h : x i = .ok (a, i')) :
    (x >>= f) i = f a i' := by
  rw [P.bind_run, h]

/-- adaptation field of a packet the writer accepts -/
def AFOK : Option PacketAdaptationField → Prop
  | some a => a.isOneByteStuffing = false → AFWF a
  | none => False

/-- well-formed packet: header values fit their bit widths; an announced adaptation field is present and well-formed -/
structure PacketWF (p : Packet) : Prop where
  pid : p.header.pid < 8192
  tsc : p.header.transportScramblingControl < 4
  cc : p.header.continuityCounter < 16
  af : p.header.hasAdaptationField = true → AFOK p.adaptationField

/-- the packet the parser returns for the bytes written for `p` (`pad` = number of 0xff bytes the writer appends) -/
def normaliseWith (pad : Nat) (p : Packet) : Packet :=
  { adaptationField := if p.header.hasAdaptationField = true then p.adaptationField.map normAF else none
    header := p.header
    payload := if p.header.hasPayload = true then p.payload ++ List.replicate pad 0xff else [] }

theorem header_at (pre : Bytes) (h : PacketHeader) (hpid : h.pid < 8192) (htsc : h.transportScramblingControl < 4)
    (hcc : h.continuityCounter < 16) : ParsesAt pre parsePacketHeader (hdrBytes h) h := by
  unfold parsePacketHeader
  have hl : (hdrBytes h).length = 3 := by simp [hdrBytes, packFields, fieldsWidth, beBytes]
  refine ParsesAt.congr_val (ParsesAt.bind_last (nextBytes_at _ _ 3 (by rw [hl]; rfl)) (ParsesAt.pure _ _)) ?_
  exact header_roundtrip h hpid htsc hcc

theorem optAF_at (pre : Bytes) (p : Packet) (h : PacketWF p) (hsz : packetHeadSize p ≤ 188) :
    ParsesAt pre (if p.header.hasAdaptationField = true then do let a ← parsePacketAdaptationField; pure (some a)
        else pure none : P (Option PacketAdaptationField))
      (if p.header.hasAdaptationField = true then afCore (p.adaptationField.getD default) else [])
      (if p.header.hasAdaptationField = true then p.adaptationField.map normAF else none) := by
  refine opt_at _ _ _ _ _ _ ?_
  intro hc
  have := h.af hc
  cases ha : p.adaptationField with
  | none => rw [ha] at this; exact this.elim
  | some a =>
    rw [ha] at this
    simp only [Option.getD_some, Option.map_some]
    refine ParsesAt.bind_last (af_at _ _ ?_) (ParsesAt.pure _ _)
    intro h1
    refine ⟨this h1, ?_⟩
    unfold packetHeadSize at hsz
    rw [if_pos hc, ha] at hsz
    simp only [h1] at hsz
    simp at hsz
    omega

/-- shape of the bytes of an accepted packet -/
theorem writePacket_ok (p : Packet) (bs : Bytes) (hw : writePacket p 188 = .ok bs) :
    (p.header.hasAdaptationField = true → p.adaptationField.isSome = true) ∧
    packetHeadSize p + p.payload.length ≤ 188 ∧
    bs = [syncByte] ++ (hdrBytes p.header ++ ((if p.header.hasAdaptationField = true then afCore (p.adaptationField.getD default) else [])
      ++ ((if p.header.hasAdaptationField = true then afStuffing (p.adaptationField.getD default) else [])
      ++ ((if p.header.hasPayload = true then p.payload else [])
      ++ List.replicate (188 - (([syncByte] ++ hdrBytes p.header
      ++ (if p.header.hasAdaptationField = true then afBytes (p.adaptationField.getD default) else [])).length + (if p.header.hasPayload = true then p.payload else []).length)) 0xff)))) := by
  unfold writePacket at hw
  split at hw
  · cases hw
  split at hw
  · cases hw
  split at hw
  · cases hw
  rename_i h1 h2 h3
  simp only [Res.ok.injEq] at hw
  refine ⟨?_, by omega, ?_⟩
  · intro hc
    cases ha : p.adaptationField with
    | none => exact absurd ⟨hc, by simp [ha]⟩ h1
    | some a => rfl
  · rw [← hw]
    by_cases hc : p.header.hasAdaptationField = true
    · simp only [hc, if_true, afBytes_split, List.append_assoc]
    · simp [hc]


theorem head_length (p : Packet) (h : PacketWF p) :
    (((if p.header.hasAdaptationField = true then afCore (p.adaptationField.getD default) else []).length : Int)
      + (if p.header.hasAdaptationField = true then afStuffing (p.adaptationField.getD default) else []).length) + 4
      = packetHeadSize p := by
  unfold packetHeadSize
  by_cases hc : p.header.hasAdaptationField = true
  · have := h.af hc
    simp only [hc, if_true]
    cases ha : p.adaptationField with
    | none => rw [ha] at this; exact this.elim
    | some a =>
      rw [ha] at this
      simp only [Option.getD_some]
      cases h1 : a.isOneByteStuffing
      · have := afBytes_length' a h1 (fun hp => ((this h1).priv hp).1)
        simp only [Bool.false_eq_true, if_false]
        omega
      · simp [afCore, afStuffing, h1]
  · simp [hc]

theorem hdrBytes_length (h : PacketHeader) : (hdrBytes h).length = 3 := by
  simp [hdrBytes, packFields, fieldsWidth, beBytes]

theorem payloadOffset_norm (p : Packet) (hsome : p.header.hasAdaptationField = true → p.adaptationField.isSome = true) :
    payloadOffset 1 p.header (if p.header.hasAdaptationField = true then p.adaptationField.map normAF else none)
      = packetHeadSize p := by
  unfold payloadOffset packetHeadSize
  by_cases hc : p.header.hasAdaptationField = true
  · have := hsome hc
    simp only [hc, if_true]
    cases ha : p.adaptationField with
    | none => rw [ha] at this; cases this
    | some a =>
      simp only [Option.map_some]
      cases h1 : a.isOneByteStuffing <;> simp [normAF, h1] <;> omega
  · simp [hc]

theorem dump_at (pre rest : Bytes) :
    ∃ i', It.dump ⟨pre ++ rest, (pre.length : Int)⟩ = .ok (rest, i') := by
  unfold It.dump
  cases rest with
  | nil => exact ⟨⟨pre ++ [], (pre.length : Int)⟩, by simp⟩
  | cons x r =>
    have h1 : ((pre.length : Int) < ((pre ++ x :: r).length : Nat)) := by
      simp only [List.length_append, List.length_cons]; omega
    have h2 : ¬ ((pre.length : Int) < 0) := by omega
    refine ⟨⟨pre ++ x :: r, ((pre ++ x :: r).length : Nat)⟩, ?_⟩
    simp only [h1, h2, not_true, if_false]
    simp

/-- the tail of `parsePacket`: extract the payload -/
def payloadStep (h : PacketHeader) (af : Option PacketAdaptationField) (offsetStart : Int) : P Packet :=
  if h.hasPayload = true then do
    It.seek (payloadOffset offsetStart h af)
    let pl ← It.dump
    pure { adaptationField := af, header := h, payload := pl }
  else pure { adaptationField := af, header := h, payload := [] }

theorem parsePacket_run (p : Packet) (skip : Option (Packet → Bool)) (h : PacketWF p)
    (hsome : p.header.hasAdaptationField = true → p.adaptationField.isSome = true)
    (A S B : Bytes) (pad : Nat)
    (hA : A = if p.header.hasAdaptationField = true then afCore (p.adaptationField.getD default) else [])
    (hB : B = if p.header.hasPayload = true then p.payload else [])
    (hhead : (A.length : Int) + S.length + 4 = packetHeadSize p)
    (hlen : 4 + A.length + S.length + B.length + pad = 188)
    (hskip : ∀ s, skip = some s → s { normaliseWith pad p with payload := [] } = false) :
    ∃ i', parsePacket skip ⟨[syncByte] ++ (hdrBytes p.header ++ (A ++ (S ++ (B ++ List.replicate pad 0xff)))), 0⟩
      = .ok (normaliseWith pad p, i') := by
  have hsz : packetHeadSize p ≤ 188 := by omega
  have e1 := nextByte_at [] syncByte (hdrBytes p.header ++ (A ++ (S ++ (B ++ List.replicate pad 0xff))))
  have e2 := header_at [syncByte] p.header h.pid h.tsc h.cc (A ++ (S ++ (B ++ List.replicate pad 0xff)))
  have e3 := optAF_at ([syncByte] ++ hdrBytes p.header) p h hsz (S ++ (B ++ List.replicate pad 0xff))
  rw [← hA] at e3
  simp only [List.nil_append, List.length_nil, List.length_cons, List.append_assoc, hdrBytes_length, List.length_append] at e1 e2 e3
  unfold parsePacket
  simp only [Int.natCast_zero, Int.natCast_add, Int.natCast_one, Int.zero_add] at e1 e2 e3
  rw [P.bind_ok e1]
  rw [if_neg (by simp)]
  rw [P.bind_ok (show It.len _ = _ from rfl)]
  rw [P.bind_ok (show It.seek _ _ = _ from rfl)]
  rw [P.bind_ok (show It.offset _ = _ from rfl)]
  have hl : (([syncByte] ++ (hdrBytes p.header ++ (A ++ (S ++ (B ++ List.replicate pad 255))))).length : Int) - (mpegTsPacketSize : Int) + 1 = 1 := by
    simp only [List.length_append, List.length_cons, List.length_nil, hdrBytes_length, List.length_replicate, mpegTsPacketSize]
    omega
  simp only [hl]
  rw [P.bind_ok e2, P.bind_ok e3]
  have fin : ∃ i', payloadStep p.header (if p.header.hasAdaptationField = true then Option.map normAF p.adaptationField else none) 1
        ⟨[syncByte] ++ (hdrBytes p.header ++ (A ++ (S ++ (B ++ List.replicate pad 255)))), 1 + ((3 : Nat) : Int) + (A.length : Int)⟩
      = .ok (normaliseWith pad p, i') := by
    unfold payloadStep
    by_cases hpl : p.header.hasPayload = true
    · rw [if_pos hpl, P.bind_ok (show It.seek _ _ = _ from rfl), payloadOffset_norm p hsome, ← hhead]
      rw [if_pos hpl] at hB
      obtain ⟨i', hd⟩ := dump_at ([syncByte] ++ (hdrBytes p.header ++ (A ++ S))) (B ++ List.replicate pad 255)
      have e5 : ((([syncByte] ++ (hdrBytes p.header ++ (A ++ S))).length : Nat) : Int) = (A.length : Int) + S.length + 4 := by
        simp only [List.length_append, List.length_cons, List.length_nil, hdrBytes_length]; omega
      rw [e5] at hd
      simp only [List.append_assoc] at hd
      rw [P.bind_ok hd]
      exact ⟨_, by simp only [P.pure_run, normaliseWith, if_pos hpl, hB]; rfl⟩
    · rw [if_neg hpl]
      exact ⟨_, by simp only [P.pure_run, normaliseWith, if_neg hpl]; rfl⟩
  revert hskip
  cases skip with
  | none =>
    intro _
    simp only [Bool.false_eq_true, if_false]
    exact fin
  | some s =>
    intro hk
    have hk' : s { adaptationField := if p.header.hasAdaptationField = true then Option.map normAF p.adaptationField else none,
                   header := p.header } = false := hk s rfl
    simp only [hk', Bool.false_eq_true, if_false]
    exact fin


theorem P.val_of_run {α} {x : P α} {bs : Bytes} {a : α} (h : ∃ i', x ⟨bs, 0⟩ = .ok (a, i')) : x.val bs = .ok a := by
  obtain ⟨i', h⟩ := h
  unfold P.val
  rw [h]

/-- number of 0xff bytes `writePacket` appends after header, adaptation field and payload -/
def padLen (p : Packet) : Nat :=
  (188 - (packetHeadSize p + ((if p.header.hasPayload = true then p.payload else []).length : Int))).toNat

theorem parsePacket_written (p : Packet) (skip : Option (Packet → Bool)) (h : PacketWF p) (bs : Bytes)
    (hw : writePacket p 188 = .ok bs)
    (hskip : ∀ s, skip = some s → s { normaliseWith (padLen p) p with payload := [] } = false) :
    (parsePacket skip).val bs = .ok (normaliseWith (padLen p) p) := by
  obtain ⟨hsome, hfit, hbs⟩ := writePacket_ok p bs hw
  have hhead := head_length p h
  have hsplit : ([syncByte] ++ hdrBytes p.header
      ++ (if p.header.hasAdaptationField = true then afBytes (p.adaptationField.getD default) else [])).length
      = 4 + (if p.header.hasAdaptationField = true then afCore (p.adaptationField.getD default) else []).length
        + (if p.header.hasAdaptationField = true then afStuffing (p.adaptationField.getD default) else []).length := by
    by_cases hc : p.header.hasAdaptationField = true
    · simp only [hc, if_true, afBytes_split, List.length_append, List.length_cons, List.length_nil, hdrBytes_length]; omega
    · simp [hc, hdrBytes_length]
  have hB : ((if p.header.hasPayload = true then p.payload else []).length : Int) ≤ p.payload.length := by
    split <;> simp
  have hpad : 188 - (([syncByte] ++ hdrBytes p.header
      ++ (if p.header.hasAdaptationField = true then afBytes (p.adaptationField.getD default) else [])).length
      + (if p.header.hasPayload = true then p.payload else []).length) = padLen p := by
    unfold padLen
    rw [hsplit]
    omega
  rw [hpad] at hbs
  rw [hbs]
  refine P.val_of_run (parsePacket_run p skip h hsome _ _ _ (padLen p) rfl rfl hhead ?_ hskip)
  unfold padLen
  omega

end Astits.PacketRT
