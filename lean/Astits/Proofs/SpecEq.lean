/-
SpecEq — "the model's writers = the independent reference encoders of Astits/Spec" (properties C11 / C12 / C13):
* `SpecEq/Enc.lean`  algebra of the bit-serial field encoder `Spec.enc` (byte-aligned append, optional parts, masking)
* `SpecEq/TS.lean`   W1: `writePacket p 188 = .ok (Spec.tsEncode p)`
* `SpecEq/PSI.lean`  W3: `writePSIData … = .ok (Spec.unitEncode … (sections.map Spec.sectionEncode) 0)` (PAT, PMT)
* `SpecEq/PES.lean`  W2: `pesHeaderBytes h n ++ payload = Spec.pesEncode h 0 payload`, first packet of `writePESData`
User-facing statements: Props/C11.lean, Props/C12.lean, Props/C13.lean (sections "W1", "W2", "W3").
-/
import Astits.Proofs.SpecEq.Enc
import Astits.Proofs.SpecEq.TS
import Astits.Proofs.SpecEq.PSI
import Astits.Proofs.SpecEq.PES
