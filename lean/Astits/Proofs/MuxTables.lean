/-
C17 support — the tables of the muxer MODEL (`Astits/Model/Mux.lean`) over all histories of API calls:
T4 automatic PIDs, T1 when tables are emitted (first / period / random access point), T2 version numbers,
T3 content of the emitted PAT / PMT.  Reuses `Op` / `step` / `run` / `RunAll` / `MuxInv` of `MuxCounters`
(`step` already handles `AddElementaryStream` with PID 0 = automatic PID; only `OpOK` there excludes it).
-/
import Astits.Model.Mux
import Astits.Proofs.MuxCounters
namespace Astits.MuxTables
open MuxCounters

/-! ## T4 — automatic PIDs -/

/-- PIDs of the streams the muxer currently holds a context for -/
def usedPIDs (m : Mux) : List Nat := m.esCC.map (·.1)

theorem any_fst_eq (l : List (Nat × WrappingCounter)) (p : Nat) :
    l.any (·.1 == p) = true ↔ p ∈ l.map (·.1) := by
  induction l with
  | nil => simp
  | cons e l ih =>
    simp only [List.any_cons, Bool.or_eq_true, ih, List.map_cons, List.mem_cons, beq_iff_eq]
    constructor
    · rintro (h | h)
      · exact Or.inl h.symm
      · exact Or.inr h
    · rintro (h | h)
      · exact Or.inl h.symm
      · exact Or.inr h

/-- a PID is assignable automatically iff it is in 0x100..0x1ffe, is not the PMT PID and is not in use -/
theorem pidInUse_false_iff (m : Mux) (p : Nat) :
    m.pidInUse p = false ↔ 256 ≤ p ∧ p ≠ 4096 ∧ p < 8191 ∧ p ∉ usedPIDs m := by
  have h := any_fst_eq m.esCC p
  unfold usedPIDs
  rw [← h]
  unfold Mux.pidInUse startPID pmtStartPID pidNull
  cases List.any m.esCC (fun x => x.1 == p) <;> simp <;> omega

/-- `nextFree` returns a free PID whenever one of the `fuel` PIDs it inspects is free -/
theorem nextFree_free (m : Mux) : ∀ (fuel pid : Nat),
    (∃ k, k < fuel ∧ m.pidInUse ((pid + k) % 65536) = false) → pid < 65536 →
    m.pidInUse (m.nextFree pid fuel) = false := by
  intro fuel
  induction fuel with
  | zero => intro pid ⟨k, hk, _⟩; omega
  | succ fuel ih =>
    intro pid ⟨k, hk, hfree⟩ hpid
    unfold Mux.nextFree
    by_cases hu : m.pidInUse pid = true
    · rw [if_pos hu]
      apply ih
      · cases k with
        | zero =>
          rw [Nat.add_zero, Nat.mod_eq_of_lt hpid, hu] at hfree
          cases hfree
        | succ k =>
          refine ⟨k, by omega, ?_⟩
          have : ((pid + 1) % 65536 + k) % 65536 = (pid + (k + 1)) % 65536 := by omega
          rw [this]; exact hfree
      · omega
    · rw [if_neg hu]
      simpa using hu

/-- the PIDs `nextFree` skips are all in use: the result is the first free PID at or (cyclically) after `pid` -/
theorem nextFree_first (m : Mux) : ∀ (fuel pid : Nat), pid < 65536 →
    ∃ k, k ≤ fuel ∧ m.nextFree pid fuel = (pid + k) % 65536 ∧ ∀ j, j < k → m.pidInUse ((pid + j) % 65536) = true := by
  intro fuel
  induction fuel with
  | zero => intro pid hpid; exact ⟨0, by omega, by simp [Mux.nextFree, Nat.mod_eq_of_lt hpid], by intro j hj; omega⟩
  | succ fuel ih =>
    intro pid hpid
    unfold Mux.nextFree
    by_cases hu : m.pidInUse pid = true
    · rw [if_pos hu]
      obtain ⟨k, hk, he, hall⟩ := ih ((pid + 1) % 65536) (by omega)
      refine ⟨k + 1, by omega, ?_, ?_⟩
      · rw [he]; omega
      · intro j hj
        cases j with
        | zero => rw [Nat.add_zero, Nat.mod_eq_of_lt hpid]; exact hu
        | succ j =>
          have := hall j (by omega)
          have e : ((pid + 1) % 65536 + j) % 65536 = (pid + (j + 1)) % 65536 := by omega
          rw [e] at this; exact this
    · rw [if_neg hu]
      exact ⟨0, by omega, by simp [Nat.mod_eq_of_lt hpid], by intro j hj; omega⟩

/-- the PID `AddElementaryStream` assigns to a stream added with PID 0 -/
def autoPID (m : Mux) : Nat := m.nextFree m.nextPID 65536

/-- **exact condition**: the automatic PID is free iff any PID at all is free -/
theorem autoPID_free_iff (m : Mux) (hn : m.nextPID < 65536) :
    m.pidInUse (autoPID m) = false ↔ ∃ p, m.pidInUse p = false := by
  constructor
  · intro h; exact ⟨_, h⟩
  · rintro ⟨p, hp⟩
    apply nextFree_free m 65536 m.nextPID _ hn
    have hp' := (pidInUse_false_iff m p).1 hp
    refine ⟨(p + 65536 - m.nextPID) % 65536, Nat.mod_lt _ (by decide), ?_⟩
    have : (m.nextPID + (p + 65536 - m.nextPID) % 65536) % 65536 = p := by omega
    rw [this]; exact hp

/-- the 7934 PIDs that can be assigned automatically: 0x100..0xfff and 0x1001..0x1ffe -/
def candidates : List Nat := List.range' 256 3840 ++ List.range' 4097 4094

theorem mem_candidates (p : Nat) : p ∈ candidates ↔ 256 ≤ p ∧ p ≠ 4096 ∧ p < 8191 := by
  unfold candidates
  simp only [List.mem_append, List.mem_range'_1]
  omega

theorem candidates_nodup : candidates.Nodup := by
  unfold candidates
  rw [List.nodup_append]
  refine ⟨List.nodup_range' .., List.nodup_range' .., ?_⟩
  intro a ha b hb
  simp only [List.mem_range'_1] at ha hb
  omega

theorem candidates_length : candidates.length = 7934 := by
  simp [candidates]

/-- pigeonhole: with fewer than 7934 streams some assignable PID is free -/
theorem exists_free (m : Mux) (h : m.esCC.length < 7934) : ∃ p, m.pidInUse p = false := by
  apply Classical.byContradiction
  intro hno
  have hsub : candidates ⊆ usedPIDs m := by
    intro p hp
    apply Classical.byContradiction
    intro hnp
    apply hno
    refine ⟨p, (pidInUse_false_iff m p).2 ?_⟩
    have := (mem_candidates p).1 hp
    exact ⟨this.1, this.2.1, this.2.2, hnp⟩
  have := List.Nodup.length_le_of_subset candidates_nodup hsub
  rw [candidates_length] at this
  simp only [usedPIDs, List.length_map] at this
  omega

/-- **T4 (one call)**: with fewer than 7934 streams, the automatic PID is in 0x100..0x1ffe, is not the PMT PID
and differs from every PID in use -/
theorem autoPID_spec (m : Mux) (hn : m.nextPID < 65536) (h : m.esCC.length < 7934) :
    256 ≤ autoPID m ∧ autoPID m ≠ 4096 ∧ autoPID m < 8191 ∧ autoPID m ∉ usedPIDs m :=
  (pidInUse_false_iff m _).1 ((autoPID_free_iff m hn).2 (exists_free m h))


/-! ## Exact description of the table-emitting calls -/

/-- version counter the next PAT carries -/
def patV (m : Mux) : WrappingCounter := if m.pmUpdated then m.patVersion.inc else m.patVersion
/-- version counter the next PMT carries -/
def pmtV (m : Mux) : WrappingCounter := if m.pmtUpdated then m.pmtVersion.inc else m.pmtVersion

/-- the PSI structure `generatePAT` serialises -/
def patPSI (m : Mux) : PSIData :=
  tablePSI 0 (calcPATSectionLength patData) 0 ((patV m).get % 256) { pat := some patData }
/-- the PSI structure `generatePMT` serialises -/
def pmtPSI (m : Mux) : PSIData :=
  tablePSI 2 (calcPMTSectionLength m.pmtData) 1 ((pmtV m).get % 256) { pmt := some m.pmtData }

/-- state after a successful `WriteTables` -/
def afterTables (m : Mux) : Mux :=
  { m with patVersion := patV m, patCC := m.patCC.inc, pmUpdated := false,
           pmtVersion := pmtV m, pmtCC := m.pmtCC.inc, pmtUpdated := false }

theorem generatePAT_ok_eq (m : Mux) (bs : Bytes) (m' : Mux) (h : m.generatePAT = (.ok bs, m')) :
    ∃ payload, writePSIData (patPSI m) = .ok payload ∧
      writePacket (tablePacket 0 m.patCC.inc.get payload) 188 = .ok bs ∧
      m' = { m with patVersion := patV m, patCC := m.patCC.inc, pmUpdated := false } := by
  unfold Mux.generatePAT at h
  simp only at h
  split at h
  · rename_i payload hpsi
    split at h
    · rename_i bs' hw
      simp only [Prod.mk.injEq, Res.ok.injEq] at h
      obtain ⟨rfl, rfl⟩ := h
      exact ⟨payload, hpsi, hw, rfl⟩
    · simp at h
    · simp at h
  · simp at h
  · simp at h

theorem generatePMT_ok_eq (m : Mux) (bs : Bytes) (m' : Mux) (h : m.generatePMT = (.ok bs, m')) :
    m.streams.any (·.elementaryPID == m.pcrPID) = true ∧
    ∃ payload, writePSIData (pmtPSI m) = .ok payload ∧
      writePacket (tablePacket 4096 m.pmtCC.inc.get payload) 188 = .ok bs ∧
      m' = { m with pmtVersion := pmtV m, pmtCC := m.pmtCC.inc, pmtUpdated := false } := by
  unfold Mux.generatePMT at h
  split at h
  · simp at h
  · rename_i hpcr
    simp only at h
    split at h
    · rename_i payload hpsi
      split at h
      · rename_i bs' hw
        simp only [Prod.mk.injEq, Res.ok.injEq] at h
        obtain ⟨rfl, rfl⟩ := h
        exact ⟨by simpa using hpcr, payload, hpsi, hw, rfl⟩
      · simp at h
      · simp at h
    · simp at h
    · simp at h

/-- what a successful `WriteTables` is: the two packets, in this order, and the state `afterTables` -/
structure TablesOK (m : Mux) (cs : List Bytes) : Prop where
  pcrValid : m.streams.any (·.elementaryPID == m.pcrPID) = true
  packets : ∃ pat pmt patPayload pmtPayload, cs = [pat, pmt] ∧
    writePSIData (patPSI m) = .ok patPayload ∧
    writePacket (tablePacket 0 m.patCC.inc.get patPayload) 188 = .ok pat ∧
    writePSIData (pmtPSI m) = .ok pmtPayload ∧
    writePacket (tablePacket 4096 m.pmtCC.inc.get pmtPayload) 188 = .ok pmt

theorem writeTables_ok_eq (m : Mux) (cs : List Bytes) (m' : Mux) (h : m.writeTables = (.ok cs, m')) :
    TablesOK m cs ∧ m' = afterTables m := by
  unfold Mux.writeTables at h
  split at h
  · rename_i pat m1 h1
    obtain ⟨p1, hp1, hw1, rfl⟩ := generatePAT_ok_eq m pat m1 h1
    split at h
    · rename_i pmt m2 h2
      obtain ⟨hpcr, p2, hp2, hw2, rfl⟩ := generatePMT_ok_eq _ pmt m2 h2
      simp only [Prod.mk.injEq, Res.ok.injEq] at h
      obtain ⟨rfl, rfl⟩ := h
      exact ⟨⟨hpcr, pat, pmt, p1, p2, rfl, hp1, hw1, hp2, hw2⟩, rfl⟩
    · simp at h
    · simp at h
  · simp at h
  · simp at h

/-- a failed `WriteTables` leaves the state as it was -/
theorem writeTables_fail_eq (m : Mux) (h : m.writeTables.1.isOk = false) : m.writeTables.2 = m := by
  unfold Mux.writeTables at h ⊢
  generalize m.generatePAT = r1 at h ⊢
  obtain ⟨a, m1⟩ := r1
  cases a with
  | ok pat =>
    simp only at h ⊢
    generalize m1.generatePMT = r2 at h ⊢
    obtain ⟨b, m2⟩ := r2
    cases b with
    | ok pmt => cases h
    | err e => rfl
    | panic => rfl
  | err e => rfl
  | panic => rfl

/-- the retransmit counter after one more `WriteData` -/
def bump (m : Mux) : Mux := { m with retransmitCounter := m.retransmitCounter + 1 }

/-- tables are due at a `WriteData`: the call is forced (random access indicator on the PCR PID) or, counting
this call, the retransmit counter reaches the period -/
def dueB (m : Mux) (force : Bool) : Bool := force || decide (m.period ≤ m.retransmitCounter + 1)

theorem TablesOK.of_bump {m : Mux} {cs : List Bytes} (h : TablesOK (bump m) cs) : TablesOK m cs := ⟨h.1, h.2⟩

theorem retransmit_not_due (m : Mux) (force : Bool) (h : dueB m force = false) :
    m.retransmitTables force = (.ok [], bump m) := by
  unfold dueB at h
  unfold Mux.retransmitTables
  simp only
  rw [if_pos]
  · rfl
  · cases force
    · simp at h ⊢; omega
    · simp at h

theorem retransmit_due (m : Mux) (force : Bool) (h : dueB m force = true) :
    m.retransmitTables force =
      match (bump m).writeTables with
      | (.ok cs, m') => (.ok cs, { m' with retransmitCounter := 0 })
      | (r, m') => (r, m') := by
  unfold dueB at h
  unfold Mux.retransmitTables
  simp only
  rw [if_neg]
  · rfl
  · cases force
    · simp at h ⊢; omega
    · simp

/-- a successful tables step of `WriteData`: nothing when not due; otherwise PAT and PMT, and the counter restarts -/
theorem retransmit_ok_cases (m : Mux) (force : Bool) (tcs : List Bytes) (m1 : Mux)
    (h : m.retransmitTables force = (.ok tcs, m1)) :
    (dueB m force = false ∧ tcs = [] ∧ m1 = bump m) ∨
    (dueB m force = true ∧ TablesOK m tcs ∧ m1 = { afterTables (bump m) with retransmitCounter := 0 }) := by
  cases hd : dueB m force with
  | false =>
    rw [retransmit_not_due m force hd] at h
    simp only [Prod.mk.injEq, Res.ok.injEq] at h
    exact Or.inl ⟨rfl, h.1.symm, h.2.symm⟩
  | true =>
    rw [retransmit_due m force hd] at h
    right
    split at h
    · rename_i cs m' hw
      simp only [Prod.mk.injEq, Res.ok.injEq] at h
      obtain ⟨rfl, rfl⟩ := h
      obtain ⟨h1, rfl⟩ := writeTables_ok_eq _ _ _ hw
      exact ⟨rfl, h1.of_bump, rfl⟩
    · rename_i r m' hne hw
      simp only [Prod.mk.injEq] at h
      obtain ⟨rfl, rfl⟩ := h
      exact (hne _ rfl).elim

/-- a failed tables step: it was due, `WriteTables` failed, only the counter moved (it is not reset) -/
theorem retransmit_fail (m : Mux) (force : Bool) (h : (m.retransmitTables force).1.isOk = false) :
    dueB m force = true ∧ (bump m).writeTables.1.isOk = false ∧ (m.retransmitTables force).2 = bump m := by
  cases hd : dueB m force with
  | false => rw [retransmit_not_due m force hd] at h; cases h
  | true =>
    rw [retransmit_due m force hd] at h ⊢
    have hf := writeTables_fail_eq (bump m)
    revert h hf
    generalize (bump m).writeTables = r
    obtain ⟨a, m'⟩ := r
    cases a with
    | ok cs => intro h; cases h
    | err e => intro _ hf; exact ⟨rfl, rfl, hf rfl⟩
    | panic => intro _ hf; exact ⟨rfl, rfl, hf rfl⟩

/-! ## `WriteData`, case by case -/

/-- the call returned neither an error nor panicked -/
def DataSuccess (m : Mux) (d : MuxerData) : Prop := (m.writeData d).1.err = none ∧ (m.writeData d).1.panic = false

/-- the call passes the two checks made before anything is written or counted: the PID is a current stream and
the PES header can fit in one packet -/
def Accepted (m : Mux) (d : MuxerData) : Prop :=
  (∃ cc, m.ccOf d.pid = some cc) ∧ ¬ 6 + calcPESOptionalHeaderLength d.pes.header.optionalHeader > 184

/-- tables are due at this `WriteData` -/
def dataDue (m : Mux) (d : MuxerData) : Bool := dueB m (dataForce m d)

theorem writeData_not_accepted (m : Mux) (d : MuxerData) (h : ¬ Accepted m d) :
    (m.writeData d).1.chunks = [] ∧ (m.writeData d).2.1 = m ∧ ¬ DataSuccess m d := by
  unfold DataSuccess Mux.writeData
  split
  · exact ⟨rfl, rfl, by simp⟩
  · split
    · exact ⟨rfl, rfl, by simp⟩
    · rename_i cc hcc hfit
      exact absurd ⟨⟨cc, hcc⟩, hfit⟩ h

theorem writeData_tables_failed' (m : Mux) (d : MuxerData) (ha : Accepted m d)
    (hr : (m.retransmitTables (dataForce m d)).1.isOk = false) :
    (m.writeData d).1.chunks = [] ∧ (m.writeData d).2.1 = bump m ∧ dataDue m d = true ∧ ¬ DataSuccess m d := by
  obtain ⟨⟨cc, hcc⟩, hfit⟩ := ha
  obtain ⟨h1, _, h3⟩ := retransmit_fail m _ hr
  refine ⟨(writeData_tables_failed m d cc hcc hfit hr).1, (writeData_tables_failed m d cc hcc hfit hr).2.trans h3, h1, ?_⟩
  unfold DataSuccess Mux.writeData
  rw [hcc]
  simp only [hfit, if_false]
  unfold dataForce at hr
  split
  · simp
  · simp
  · rename_i tcs m1 h; rw [h] at hr; cases hr

theorem writeData_proceeds (m : Mux) (d : MuxerData) (cc : WrappingCounter) (hcc : m.ccOf d.pid = some cc)
    (hfit : ¬ 6 + calcPESOptionalHeaderLength d.pes.header.optionalHeader > 184)
    (tcs : List Bytes) (m1 : Mux) (hr : m.retransmitTables (dataForce m d) = (.ok tcs, m1)) :
    (m.writeData d).1.chunks = tcs ++ (dataLoop m1 d cc).2.2.2 ∧
    (m.writeData d).2.1 = m1.setCC d.pid (dataLoop m1 d cc).2.1 ∧
    (DataSuccess m d ↔ (dataLoop m1 d cc).1.isOk = true) := by
  unfold DataSuccess Mux.writeData
  rw [hcc]
  simp only [hfit, if_false]
  unfold dataForce at hr
  rw [hr]
  unfold dataLoop dataHdr
  simp only
  generalize writeDataLoop _ _ _ _ _ _ _ _ _ = L
  obtain ⟨r, cc', af', acc'⟩ := L
  cases r <;> simp [Res.isOk]

/-- **one `WriteData`, all cases**.  Either (A) the call is rejected up front: nothing emitted, state untouched;
or (B) tables were due but could not be generated: nothing emitted, only the retransmit counter moved;
or (C) the tables step succeeded with chunks `tcs`, and the call emits `tcs` followed by packets of `d.pid` only
(`d.pid` is neither 0 nor 0x1000), the state being that of the tables step with the counter of `d.pid` updated. -/
theorem writeData_cases (m : Mux) (d : MuxerData) (h : MuxInv m) :
    (¬ Accepted m d ∧ (m.writeData d).1.chunks = [] ∧ (m.writeData d).2.1 = m ∧ ¬ DataSuccess m d) ∨
    (Accepted m d ∧ dataDue m d = true ∧ (m.retransmitTables (dataForce m d)).1.isOk = false ∧
      (m.writeData d).1.chunks = [] ∧ (m.writeData d).2.1 = bump m ∧ ¬ DataSuccess m d) ∨
    (Accepted m d ∧ d.pid ≠ 0 ∧ d.pid ≠ 4096 ∧ ∃ tcs m1 new cc', m.retransmitTables (dataForce m d) = (.ok tcs, m1) ∧
      (m.writeData d).1.chunks = tcs ++ new ∧ (m.writeData d).2.1 = m1.setCC d.pid cc' ∧
      (∀ c ∈ new, pktPID c = d.pid)) := by
  by_cases ha : Accepted m d
  · right
    cases hr : (m.retransmitTables (dataForce m d)).1.isOk with
    | false =>
      left
      obtain ⟨h1, h2, h3, h4⟩ := writeData_tables_failed' m d ha hr
      exact ⟨ha, h3, rfl, h1, h2, h4⟩
    | true =>
      right
      obtain ⟨⟨cc, hcc⟩, hfit⟩ := ha
      have hes := h.es _ (lookup_mem _ _ _ hcc)
      have hr' : ∃ tcs, m.retransmitTables (dataForce m d) = (.ok tcs, (m.retransmitTables (dataForce m d)).2) := by
        revert hr
        generalize m.retransmitTables (dataForce m d) = r
        obtain ⟨a, m1⟩ := r
        cases a with
        | ok tcs => intro _; exact ⟨tcs, rfl⟩
        | err e => intro hr; cases hr
        | panic => intro hr; cases hr
      obtain ⟨tcs, hr'⟩ := hr'
      generalize (m.retransmitTables (dataForce m d)).2 = m1 at hr'
      obtain ⟨c1, c2, _⟩ := writeData_proceeds m d cc hcc hfit tcs m1 hr'
      obtain ⟨new, e1, e2, _⟩ := loop_post d.pid (dataHdr m1 d) hes.2.2.2 (d.pes.data.length + 2) d.pes.data true
        d.adaptationField.isSome d.adaptationField cc [] hes.1
      refine ⟨⟨⟨cc, hcc⟩, hfit⟩, hes.2.1, hes.2.2.1, tcs, m1, new, (dataLoop m1 d cc).2.1, hr', ?_, c2, e2⟩
      rw [c1]; unfold dataLoop; rw [e1]; rfl
  · left
    obtain ⟨h1, h2, h3⟩ := writeData_not_accepted m d ha
    exact ⟨ha, h1, h2, h3⟩

/-- a successful call got past the tables step -/
theorem success_proceeds (m : Mux) (d : MuxerData) (h : MuxInv m) (hs : DataSuccess m d) :
    Accepted m d ∧ d.pid ≠ 0 ∧ d.pid ≠ 4096 ∧ ∃ tcs m1 new cc', m.retransmitTables (dataForce m d) = (.ok tcs, m1) ∧
      (m.writeData d).1.chunks = tcs ++ new ∧ (m.writeData d).2.1 = m1.setCC d.pid cc' ∧
      (∀ c ∈ new, pktPID c = d.pid) := by
  rcases writeData_cases m d h with ⟨_, _, _, hn⟩ | ⟨_, _, _, _, _, hn⟩ | h3
  · exact absurd hs hn
  · exact absurd hs hn
  · exact h3

/-! ## frames: what the emitting calls leave untouched -/

/-- state after any `WriteData` (no invariant needed) -/
theorem writeData_state_cases (m : Mux) (d : MuxerData) :
    (m.writeData d).2.1 = m ∨ (m.writeData d).2.1 = bump m ∨
    (∃ cc', (m.writeData d).2.1 = (bump m).setCC d.pid cc') ∨
    (∃ cc', (m.writeData d).2.1 = Mux.setCC { afterTables (bump m) with retransmitCounter := 0 } d.pid cc') := by
  by_cases ha : Accepted m d
  · cases hr : (m.retransmitTables (dataForce m d)).1.isOk with
    | false => exact Or.inr (Or.inl (writeData_tables_failed' m d ha hr).2.1)
    | true =>
      obtain ⟨⟨cc, hcc⟩, hfit⟩ := ha
      have hr' : ∃ tcs, m.retransmitTables (dataForce m d) = (.ok tcs, (m.retransmitTables (dataForce m d)).2) := by
        revert hr
        generalize m.retransmitTables (dataForce m d) = r
        obtain ⟨a, m1⟩ := r
        cases a with
        | ok tcs => intro _; exact ⟨tcs, rfl⟩
        | err e => intro hr; cases hr
        | panic => intro hr; cases hr
      obtain ⟨tcs, hr'⟩ := hr'
      generalize (m.retransmitTables (dataForce m d)).2 = m1 at hr'
      obtain ⟨_, c2, _⟩ := writeData_proceeds m d cc hcc hfit tcs m1 hr'
      rcases retransmit_ok_cases m _ tcs m1 hr' with ⟨_, _, rfl⟩ | ⟨_, _, rfl⟩
      · exact Or.inr (Or.inr (Or.inl ⟨_, c2⟩))
      · exact Or.inr (Or.inr (Or.inr ⟨_, c2⟩))
  · exact Or.inl (writeData_not_accepted m d ha).2.1

/-- state after `WriteTables` (the API call): `afterTables`, or unchanged when it failed -/
theorem writeTablesCall_cases (m : Mux) :
    (TablesOK m m.writeTablesCall.1.chunks ∧ m.writeTablesCall.2 = afterTables m) ∨
    (m.writeTablesCall.1.chunks = [] ∧ m.writeTablesCall.2 = m) := by
  unfold Mux.writeTablesCall
  have h1 := writeTables_ok_eq m
  have h2 := writeTables_fail_eq m
  revert h1 h2
  generalize m.writeTables = r
  obtain ⟨a, m'⟩ := r
  cases a with
  | ok cs => intro h1 _; exact Or.inl (h1 cs m' rfl)
  | err e => intro _ h2; exact Or.inr ⟨rfl, h2 rfl⟩
  | panic => intro _ h2; exact Or.inr ⟨rfl, h2 rfl⟩

theorem setCC_fst (l : List (Nat × WrappingCounter)) (pid : Nat) (c : WrappingCounter) :
    (l.map fun e => if e.1 == pid then (pid, c) else e).map (·.1) = l.map (·.1) := by
  induction l with
  | nil => rfl
  | cons e l ih =>
    simp only [List.map_cons, ih, List.cons.injEq, and_true]
    by_cases he : e.1 = pid
    · simp [he]
    · simp [he]

/-- fields no emitting call touches -/
structure Frame (m m' : Mux) : Prop where
  period : m'.period = m.period
  streams : m'.streams = m.streams
  pcrPID : m'.pcrPID = m.pcrPID
  nextPID : m'.nextPID = m.nextPID
  pids : m'.esCC.map (·.1) = m.esCC.map (·.1)
  removedCC : m'.removedCC = m.removedCC

theorem frame_setCC (m : Mux) (pid : Nat) (c : WrappingCounter) : Frame m (m.setCC pid c) :=
  ⟨rfl, rfl, rfl, rfl, setCC_fst _ _ _, rfl⟩

theorem writeData_frame (m : Mux) (d : MuxerData) : Frame m (m.writeData d).2.1 := by
  rcases writeData_state_cases m d with h | h | ⟨c, h⟩ | ⟨c, h⟩ <;> rw [h]
  · exact ⟨rfl, rfl, rfl, rfl, rfl, rfl⟩
  · exact ⟨rfl, rfl, rfl, rfl, rfl, rfl⟩
  · exact ⟨rfl, rfl, rfl, rfl, setCC_fst _ _ _, rfl⟩
  · exact ⟨rfl, rfl, rfl, rfl, setCC_fst _ _ _, rfl⟩

theorem writeTablesCall_frame (m : Mux) : Frame m m.writeTablesCall.2 := by
  rcases writeTablesCall_cases m with ⟨_, h⟩ | ⟨_, h⟩ <;> rw [h] <;> exact ⟨rfl, rfl, rfl, rfl, rfl, rfl⟩

/-! ## T4 over histories -/

/-- invariant: stream contexts and streams carry the same PIDs in the same order, pairwise distinct -/
structure PidInv (m : Mux) : Prop where
  inv : MuxInv m
  pids : m.esCC.map (·.1) = m.streams.map (·.elementaryPID)
  nodup : (m.streams.map (·.elementaryPID)).Nodup
  next : m.nextPID < 65536

theorem pidInv_new (period : Nat) : PidInv (newMux period) :=
  ⟨muxInv_new period, rfl, List.nodup_nil, show (256 : Nat) < 65536 by decide⟩

theorem PidInv.of_frame {m m' : Mux} (h : PidInv m) (hi : MuxInv m') (f : Frame m m') : PidInv m' :=
  ⟨hi, by rw [f.pids, f.streams]; exact h.pids, by rw [f.streams]; exact h.nodup, by rw [f.nextPID]; exact h.next⟩

theorem PidInv.length_eq {m : Mux} (h : PidInv m) : m.esCC.length = m.streams.length := by
  have := congrArg List.length h.pids
  simpa using this

theorem any_pid_eq (l : List PMTElementaryStream) (p : Nat) :
    l.any (·.elementaryPID == p) = true ↔ p ∈ l.map (·.elementaryPID) := by
  induction l with
  | nil => simp
  | cons e l ih =>
    simp only [List.any_cons, Bool.or_eq_true, ih, List.map_cons, List.mem_cons, beq_iff_eq]
    constructor
    · rintro (h | h)
      · exact Or.inl h.symm
      · exact Or.inr h
    · rintro (h | h)
      · exact Or.inl h.symm
      · exact Or.inr h

/-- admissible calls: an explicitly chosen PID is 13-bit and not the PMT PID; PID 0 asks for an automatic PID -/
def OpOK' : Op → Prop
  | .add es => es.elementaryPID ≠ 4096 ∧ es.elementaryPID < 8192
  | _ => True

/-- an automatic PID is only asked for while fewer than 7934 streams exist (7934 = number of assignable PIDs) -/
def Room (m : Mux) : Op → Prop
  | .add es => es.elementaryPID = 0 → m.streams.length < 7934
  | _ => True

def StepOK' (m : Mux) (op : Op) : Prop := OpOK' op ∧ Room m op

/-- `AddElementaryStream` with PID 0, spelled out -/
theorem add_auto_eq (m : Mux) (es : PMTElementaryStream) (h0 : es.elementaryPID = 0) :
    m.addElementaryStream es = (.ok (),
      { m with streams := m.streams ++ [{ es with elementaryPID := autoPID m }],
               esCC := m.esCC ++ [(autoPID m, m.keptCC (autoPID m))],
               removedCC := m.removedCC.filter (·.1 != autoPID m), nextPID := (autoPID m + 1) % 65536,
               pmtUpdated := true }) := by
  unfold Mux.addElementaryStream
  rw [if_neg (by simp [h0])]
  rfl

/-- `AddElementaryStream` with an explicit PID, spelled out -/
theorem add_explicit_eq (m : Mux) (es : PMTElementaryStream) (h0 : es.elementaryPID ≠ 0) :
    m.addElementaryStream es =
      if m.streams.any (·.elementaryPID == es.elementaryPID) then (.err .pidExists, m)
      else (.ok (),
        { m with streams := m.streams ++ [es],
                 esCC := (m.esCC.filter (·.1 != es.elementaryPID)) ++ [(es.elementaryPID, m.keptCC es.elementaryPID)],
                 removedCC := m.removedCC.filter (·.1 != es.elementaryPID), pmtUpdated := true }) := by
  unfold Mux.addElementaryStream
  rw [if_pos h0]

theorem keptCC_inv (m : Mux) (h : MuxInv m) (p : Nat) : CCInv (m.keptCC p) := by
  rw [keptCC_eq]
  cases hk : lookup m.removedCC p with
  | none => exact ccInv_fresh
  | some c => exact h.removed _ (lookup_mem _ _ _ hk)

theorem filter_fst_ne_self (l : List (Nat × WrappingCounter)) (p : Nat) (h : p ∉ l.map (·.1)) :
    l.filter (·.1 != p) = l := by
  rw [List.filter_eq_self]
  intro e he
  have : e.1 ≠ p := fun hh => h (hh ▸ List.mem_map_of_mem he)
  simpa using this

theorem map_fst_filter (l : List (Nat × WrappingCounter)) (p : Nat) :
    (l.filter (·.1 != p)).map (·.1) = (l.map (·.1)).filter (· != p) := by
  induction l with
  | nil => rfl
  | cons e l ih =>
    by_cases he : e.1 = p
    · simp [he, ih]
    · simp [he, ih]

theorem map_pid_filter (l : List PMTElementaryStream) (p : Nat) :
    (l.filter (·.elementaryPID != p)).map (·.elementaryPID) = (l.map (·.elementaryPID)).filter (· != p) := by
  induction l with
  | nil => rfl
  | cons e l ih =>
    by_cases he : e.elementaryPID = p
    · simp [he, ih]
    · simp [he, ih]

theorem link_of_pids (m : Mux) (h : m.esCC.map (·.1) = m.streams.map (·.elementaryPID)) (p : Nat) :
    m.streams.any (·.elementaryPID == p) = m.esCC.any (·.1 == p) := by
  rw [Bool.eq_iff_iff, any_pid_eq, any_fst_eq, h]

/-- **T4 (one call)**: a stream added with PID 0 while fewer than 7934 streams exist gets a PID in
0x100..0x1ffe, other than 0x1000, different from the PID of every current stream; the call succeeds and appends
the stream (with that PID) to the stream list -/
theorem add_auto_spec (m : Mux) (es : PMTElementaryStream) (h : PidInv m) (h0 : es.elementaryPID = 0)
    (hroom : m.streams.length < 7934) :
    (m.addElementaryStream es).1.isOk = true ∧
    (m.addElementaryStream es).2.streams = m.streams ++ [{ es with elementaryPID := autoPID m }] ∧
    256 ≤ autoPID m ∧ autoPID m ≠ 4096 ∧ autoPID m < 8191 ∧ autoPID m ∉ m.streams.map (·.elementaryPID) := by
  rw [add_auto_eq m es h0]
  have hs := autoPID_spec m h.next (by rw [h.length_eq]; exact hroom)
  unfold usedPIDs at hs
  rw [h.pids] at hs
  exact ⟨rfl, rfl, hs⟩

theorem add_step' (m : Mux) (es : PMTElementaryStream) (h : PidInv m) (hok : StepOK' m (.add es)) :
    PidInv (m.addElementaryStream es).2 := by
  by_cases h0 : es.elementaryPID = 0
  · obtain ⟨_, _, a1, a2, a3, a4⟩ := add_auto_spec m es h h0 (hok.2 h0)
    rw [add_auto_eq m es h0]
    have hp : (m.esCC ++ [(autoPID m, m.keptCC (autoPID m))]).map (fun e : Nat × WrappingCounter => e.1)
        = (m.streams ++ [{ es with elementaryPID := autoPID m }]).map (fun e : PMTElementaryStream => e.elementaryPID) := by
      simp [h.pids]
    refine ⟨⟨h.inv.pat, h.inv.pmt, ?_, ?_, ?_⟩, hp, ?_, ?_⟩
    · intro e he
      simp only [List.mem_append, List.mem_singleton] at he
      rcases he with he | rfl
      · exact h.inv.es e he
      · exact ⟨keptCC_inv m h.inv _, by simp only; omega, a2, by simp only; omega⟩
    · intro e he
      simp only [List.mem_filter] at he
      exact h.inv.removed e he.1
    · exact link_of_pids _ hp
    · simp only [List.map_append, List.map_cons, List.map_nil]
      rw [List.nodup_append]
      refine ⟨h.nodup, by simp, ?_⟩
      intro a ha b hb
      simp only [List.mem_singleton] at hb
      subst hb
      exact fun hh => a4 (hh ▸ ha)
    · exact Nat.mod_lt _ (by decide)
  · have hi := (add_step m es h.inv h0 hok.1.1 hok.1.2).1
    rw [add_explicit_eq m es h0] at hi ⊢
    split
    · exact h
    · rename_i hs
      rw [if_neg hs] at hi
      have hnot : es.elementaryPID ∉ m.streams.map (·.elementaryPID) := by
        intro hh; exact hs ((any_pid_eq _ _).2 hh)
      have hnot' : es.elementaryPID ∉ m.esCC.map (·.1) := by rw [h.pids]; exact hnot
      refine ⟨hi, ?_, ?_, h.next⟩
      · simp only [List.map_append, List.map_cons, List.map_nil]
        rw [filter_fst_ne_self _ _ hnot', h.pids]
      · simp only [List.map_append, List.map_cons, List.map_nil]
        rw [List.nodup_append]
        refine ⟨h.nodup, by simp, ?_⟩
        intro a ha b hb
        simp only [List.mem_singleton] at hb
        subst hb
        exact fun hh => hnot (hh ▸ ha)

theorem remove_step' (m : Mux) (pid : Nat) (h : PidInv m) : PidInv (m.removeElementaryStream pid).2 := by
  have hi := (remove_step m pid h.inv).1
  unfold Mux.removeElementaryStream at hi ⊢
  split
  · rename_i hs
    rw [if_pos hs] at hi
    refine ⟨hi, ?_, ?_, h.next⟩
    · simp only
      rw [map_fst_filter, map_pid_filter, h.pids]
    · simp only
      rw [map_pid_filter]
      exact List.Nodup.sublist List.filter_sublist h.nodup
  · exact h

theorem step_pidInv (m : Mux) (op : Op) (h : PidInv m) (hok : StepOK' m op) : PidInv (step m op).2 := by
  cases op with
  | add es => exact add_step' m es h hok
  | remove pid => exact remove_step' m pid h
  | setPCR pid => exact ⟨(setPCRPID_step m pid h.inv).1, h.pids, h.nodup, h.next⟩
  | tables => exact h.of_frame (writeTablesCall_step m h.inv).1 (writeTablesCall_frame m)
  | data d => exact h.of_frame (writeData_step m d h.inv).1 (writeData_frame m d)

/-- generic history induction: an invariant kept by admissible steps holds at every call and at the end -/
theorem runAll_inv (I : Mux → Prop) (Q R : Mux → Op → Prop)
    (hstep : ∀ m op, I m → Q m op → I (step m op).2) (hR : ∀ m op, I m → Q m op → R m op)
    (m : Mux) (ops : List Op) (hI : I m) (hQ : RunAll Q m ops) : RunAll R m ops ∧ I (run m ops).2 := by
  induction ops generalizing m with
  | nil => exact ⟨trivial, hI⟩
  | cons op ops ih =>
    obtain ⟨h1, h2⟩ := ih _ (hstep m op hI hQ.1) hQ.2
    exact ⟨⟨hR m op hI hQ.1, h1⟩, h2⟩

theorem run_pidInv (m : Mux) (ops : List Op) (h : PidInv m) (hok : RunAll StepOK' m ops) : PidInv (run m ops).2 :=
  (runAll_inv PidInv StepOK' (fun _ _ => True) step_pidInv (fun _ _ _ _ => trivial) m ops h hok).2

/-- what T4 says about one call of a history -/
def AutoSpec (m : Mux) (op : Op) : Prop :=
  ∀ es, op = .add es → es.elementaryPID = 0 →
    (m.addElementaryStream es).1.isOk = true ∧
    (m.addElementaryStream es).2.streams = m.streams ++ [{ es with elementaryPID := autoPID m }] ∧
    256 ≤ autoPID m ∧ autoPID m ≠ 4096 ∧ autoPID m < 8191 ∧ autoPID m ∉ m.streams.map (·.elementaryPID)

/-- **T4 (histories)**: along any admissible history from a new muxer, every automatically assigned PID is in
0x100..0x1ffe, is not 0x1000 and differs from the PIDs of all streams present at that moment; at the end (hence
at all times: every prefix of a history is a history) the invariant `PidInv` holds -/
theorem history_auto_pids (period : Nat) (ops : List Op) (hok : RunAll StepOK' (newMux period) ops) :
    RunAll AutoSpec (newMux period) ops ∧ PidInv (run (newMux period) ops).2 :=
  runAll_inv PidInv StepOK' AutoSpec step_pidInv
    (fun m op hI hQ es he h0 => by subst he; exact add_auto_spec m es hI h0 (hQ.2 h0)) _ ops (pidInv_new period) hok

/-- the PIDs of the current streams are pairwise distinct, none is 0 or 0x1000, all are 13-bit -/
theorem PidInv.distinct {m : Mux} (h : PidInv m) :
    (m.streams.map (·.elementaryPID)).Nodup ∧
    ∀ es ∈ m.streams, es.elementaryPID ≠ 0 ∧ es.elementaryPID ≠ 4096 ∧ es.elementaryPID < 8192 := by
  refine ⟨h.nodup, ?_⟩
  intro es hes
  have : es.elementaryPID ∈ m.esCC.map (·.1) := by rw [h.pids]; exact List.mem_map_of_mem hes
  obtain ⟨e, he, hh⟩ := List.mem_map.1 this
  rw [← hh]
  exact (h.inv.es e he).2

theorem history_pids_distinct (period : Nat) (ops : List Op) (hok : RunAll StepOK' (newMux period) ops) :
    ((run (newMux period) ops).2.streams.map (·.elementaryPID)).Nodup ∧
    ∀ es ∈ (run (newMux period) ops).2.streams, es.elementaryPID ≠ 0 ∧ es.elementaryPID ≠ 4096 ∧ es.elementaryPID < 8192 :=
  (history_auto_pids period ops hok).2.distinct

/-! ### a static sufficient condition for `Room` -/

def isAdd : Op → Bool
  | .add _ => true
  | _ => false

theorem step_streams_length (m : Mux) (op : Op) :
    (step m op).2.streams.length ≤ m.streams.length + (if isAdd op then 1 else 0) := by
  cases op with
  | add es =>
    simp only [step, isAdd, if_true]
    unfold Mux.addElementaryStream
    split
    · split
      · simp
      · simp
    · simp
  | remove pid =>
    simp only [step, isAdd]
    unfold Mux.removeElementaryStream
    split
    · simp only; exact Nat.le_trans (List.length_filter_le _ _) (by simp)
    · simp
  | setPCR pid => simp [step, isAdd, Mux.setPCRPID]
  | tables => simp [step, isAdd, (writeTablesCall_frame m).streams]
  | data d => simp [step, isAdd, (writeData_frame m d).streams]

/-- histories with at most 7934 `AddElementaryStream` calls (from a state with `n` streams: `n` + calls ≤ 7934)
always have room for automatic PIDs -/
theorem runAll_room (m : Mux) (ops : List Op) (hok : ∀ op ∈ ops, OpOK' op)
    (hn : m.streams.length + (ops.filter isAdd).length ≤ 7934) : RunAll StepOK' m ops := by
  induction ops generalizing m with
  | nil => trivial
  | cons op ops ih =>
    have hl := step_streams_length m op
    rw [List.filter_cons] at hn
    refine ⟨⟨hok op List.mem_cons_self, ?_⟩, ih _ (fun o ho => hok o (List.mem_cons_of_mem _ ho)) ?_⟩
    · cases op with
      | add es =>
        intro _
        have : isAdd (.add es) = true := rfl
        rw [if_pos this, List.length_cons] at hn
        omega
      | _ => trivial
    · cases hb : isAdd op
      · rw [hb] at hn hl; simp only [Bool.false_eq_true, if_false] at hn hl; omega
      · rw [hb] at hn hl; simp only [if_true, List.length_cons] at hn hl; omega

/-! ## T1 — when tables are emitted -/

/-- a chunk list that starts with a PAT packet (PID 0) followed by a PMT packet (PID 0x1000) -/
def StartsWithTables (cs : List Bytes) : Prop :=
  ∃ pat pmt rest, cs = pat :: pmt :: rest ∧ pktPID pat = 0 ∧ pktPID pmt = 4096

theorem tablesOK_pids (m : Mux) (cs : List Bytes) (h : MuxInv m) (ht : TablesOK m cs) :
    ∃ pat pmt, cs = [pat, pmt] ∧ pktPID pat = 0 ∧ pktPID pmt = 4096 := by
  obtain ⟨_, pat, pmt, p1, p2, rfl, _, hw1, _, hw2⟩ := ht
  have o1 := tablePacket_observe 0 _ _ _ hw1 (by decide) (by rw [inc_get _ h.pat]; have := next_le m.patCC.value; omega)
  have o2 := tablePacket_observe 4096 _ _ _ hw2 (by decide) (by rw [inc_get _ h.pmt]; have := next_le m.pmtCC.value; omega)
  exact ⟨pat, pmt, rfl, o1.1, o2.1⟩

/-- **T1 (one call, chunks)**: a successful `WriteData` emits PAT, PMT and then only packets of its own PID when
tables are due, and only packets of its own PID (which is neither 0 nor 0x1000) when they are not -/
theorem writeData_success_chunks (m : Mux) (d : MuxerData) (h : MuxInv m) (hs : DataSuccess m d) :
    d.pid ≠ 0 ∧ d.pid ≠ 4096 ∧
    (dataDue m d = true → ∃ pat pmt rest, (m.writeData d).1.chunks = pat :: pmt :: rest ∧
      pktPID pat = 0 ∧ pktPID pmt = 4096 ∧ ∀ c ∈ rest, pktPID c = d.pid) ∧
    (dataDue m d = false → ∀ c ∈ (m.writeData d).1.chunks, pktPID c = d.pid) := by
  obtain ⟨_, hp0, hp1, tcs, m1, new, cc', hr, hc, _, hnew⟩ := success_proceeds m d h hs
  refine ⟨hp0, hp1, ?_, ?_⟩
  · intro hd
    rcases retransmit_ok_cases m _ tcs m1 hr with ⟨hd', _, _⟩ | ⟨_, ht, _⟩
    · unfold dataDue at hd; rw [hd] at hd'; cases hd'
    · obtain ⟨pat, pmt, rfl, a, b⟩ := tablesOK_pids m tcs h ht
      exact ⟨pat, pmt, new, by rw [hc]; rfl, a, b, hnew⟩
  · intro hd
    rcases retransmit_ok_cases m _ tcs m1 hr with ⟨_, rfl, _⟩ | ⟨hd', _, _⟩
    · rw [hc]; simpa using hnew
    · unfold dataDue at hd; rw [hd] at hd'; cases hd'

/-- **T1 (one call, iff)**: the chunks of a successful `WriteData` start with the two table packets iff, counting
this call, the retransmit counter has reached the period, or the call is forced (random access indicator on the
PCR PID) -/
theorem writeData_tables_iff (m : Mux) (d : MuxerData) (h : MuxInv m) (hs : DataSuccess m d) :
    StartsWithTables (m.writeData d).1.chunks ↔
      (dataForce m d = true ∨ m.period ≤ m.retransmitCounter + 1) := by
  obtain ⟨hp0, _, h1, h2⟩ := writeData_success_chunks m d h hs
  have hdue : dataDue m d = true ↔ (dataForce m d = true ∨ m.period ≤ m.retransmitCounter + 1) := by
    unfold dataDue dueB; simp
  rw [← hdue]
  constructor
  · rintro ⟨pat, pmt, rest, hc, a, _⟩
    cases hd : dataDue m d with
    | true => rfl
    | false =>
      have := h2 hd pat (by rw [hc]; exact List.mem_cons_self)
      rw [a] at this
      exact absurd this.symm hp0
  · intro hd
    obtain ⟨pat, pmt, rest, hc, a, b, _⟩ := h1 hd
    exact ⟨pat, pmt, rest, hc, a, b⟩

/-- whatever the outcome, what a `WriteData` emits is either nothing, or starts with the tables (iff due), or
consists of packets of its own PID only -/
theorem writeData_chunks_shape (m : Mux) (d : MuxerData) (h : MuxInv m) :
    (m.writeData d).1.chunks = [] ∨
    (dataDue m d = true ∧ StartsWithTables (m.writeData d).1.chunks) ∨
    (dataDue m d = false ∧ d.pid ≠ 0 ∧ d.pid ≠ 4096 ∧ ∀ c ∈ (m.writeData d).1.chunks, pktPID c = d.pid) := by
  rcases writeData_cases m d h with ⟨_, hc, _⟩ | ⟨_, _, _, hc, _⟩ | ⟨_, hp0, hp1, tcs, m1, new, cc', hr, hc, _, hnew⟩
  · exact Or.inl hc
  · exact Or.inl hc
  · right
    rcases retransmit_ok_cases m _ tcs m1 hr with ⟨hd, rfl, _⟩ | ⟨hd, ht, _⟩
    · right; exact ⟨hd, hp0, hp1, by rw [hc]; simpa using hnew⟩
    · left
      obtain ⟨pat, pmt, rfl, a, b⟩ := tablesOK_pids m tcs h ht
      exact ⟨hd, pat, pmt, new, by rw [hc]; rfl, a, b⟩

/-- **T1 (one call, counter)**.  `retransmitCounter` after a `WriteData`:
* rejected up front (unknown PID, PES header that cannot fit): unchanged — such calls are not counted;
* tables due but not generated (e.g. invalid PCR PID): incremented and *not* reset — the next call is due again;
* otherwise: 0 if tables were emitted, else incremented. -/
theorem writeData_counter (m : Mux) (d : MuxerData) :
    (¬ Accepted m d → (m.writeData d).2.1.retransmitCounter = m.retransmitCounter) ∧
    (Accepted m d → (m.retransmitTables (dataForce m d)).1.isOk = false →
      (m.writeData d).2.1.retransmitCounter = m.retransmitCounter + 1 ∧ dataDue m d = true) ∧
    (Accepted m d → (m.retransmitTables (dataForce m d)).1.isOk = true →
      (m.writeData d).2.1.retransmitCounter = if dataDue m d then 0 else m.retransmitCounter + 1) := by
  refine ⟨fun ha => ?_, fun ha hr => ?_, fun ha hr => ?_⟩
  · rw [(writeData_not_accepted m d ha).2.1]
  · obtain ⟨_, h2, h3, _⟩ := writeData_tables_failed' m d ha hr
    rw [h2]; exact ⟨rfl, h3⟩
  · obtain ⟨⟨cc, hcc⟩, hfit⟩ := ha
    have hr' : ∃ tcs, m.retransmitTables (dataForce m d) = (.ok tcs, (m.retransmitTables (dataForce m d)).2) := by
      revert hr
      generalize m.retransmitTables (dataForce m d) = r
      obtain ⟨a, m1⟩ := r
      cases a with
      | ok tcs => intro _; exact ⟨tcs, rfl⟩
      | err e => intro hr; cases hr
      | panic => intro hr; cases hr
    obtain ⟨tcs, hr'⟩ := hr'
    generalize (m.retransmitTables (dataForce m d)).2 = m1 at hr'
    obtain ⟨_, c2, _⟩ := writeData_proceeds m d cc hcc hfit tcs m1 hr'
    rw [c2]
    unfold dataDue
    rcases retransmit_ok_cases m _ tcs m1 hr' with ⟨hd, _, rfl⟩ | ⟨hd, _, rfl⟩
    · rw [hd]; rfl
    · rw [hd]; rfl

/-- after a successful `WriteData` the counter is 0 (tables emitted) or one more than before, and below the period -/
theorem writeData_success_counter (m : Mux) (d : MuxerData) (h : MuxInv m) (hs : DataSuccess m d) (hp : 1 ≤ m.period) :
    (m.writeData d).2.1.retransmitCounter = (if dataDue m d then 0 else m.retransmitCounter + 1) ∧
    (m.writeData d).2.1.retransmitCounter < m.period := by
  obtain ⟨ha, _, _, tcs, m1, _, _, hr, _⟩ := success_proceeds m d h hs
  have h3 := (writeData_counter m d).2.2 ha (by rw [hr]; rfl)
  refine ⟨h3, ?_⟩
  rw [h3]
  cases hd : dataDue m d with
  | true => simp; omega
  | false =>
    unfold dataDue dueB at hd
    simp at hd
    simp; omega

/-- the manual `WriteTables`, `AddElementaryStream`, `RemoveElementaryStream`, `SetPCRPID` never touch the counter -/
theorem nondata_counter (m : Mux) (op : Op) (h : ∀ d, op ≠ .data d) :
    (step m op).2.retransmitCounter = m.retransmitCounter ∧ (step m op).2.period = m.period := by
  cases op with
  | add es =>
    simp only [step]
    unfold Mux.addElementaryStream
    split
    · split <;> exact ⟨rfl, rfl⟩
    · exact ⟨rfl, rfl⟩
  | remove pid =>
    simp only [step]
    unfold Mux.removeElementaryStream
    split <;> exact ⟨rfl, rfl⟩
  | setPCR pid => exact ⟨rfl, rfl⟩
  | tables =>
    simp only [step]
    rcases writeTablesCall_cases m with ⟨_, hh⟩ | ⟨_, hh⟩ <;> rw [hh] <;> exact ⟨rfl, rfl⟩
  | data d => exact absurd rfl (h d)

/-! ### T1 over histories -/

theorem StartsWithTables.append {cs : List Bytes} (h : StartsWithTables cs) (cs' : List Bytes) :
    StartsWithTables (cs ++ cs') := by
  obtain ⟨pat, pmt, rest, rfl, a, b⟩ := h
  exact ⟨pat, pmt, rest ++ cs', rfl, a, b⟩

theorem step_period (m : Mux) (op : Op) : (step m op).2.period = m.period := by
  cases op with
  | data d => exact (writeData_frame m d).period
  | add es => exact (nondata_counter m _ (by intro d h; cases h)).2
  | remove pid => exact (nondata_counter m _ (by intro d h; cases h)).2
  | setPCR pid => exact (nondata_counter m _ (by intro d h; cases h)).2
  | tables => exact (nondata_counter m _ (by intro d h; cases h)).2

theorem run_period (m : Mux) (ops : List Op) : (run m ops).2.period = m.period := by
  induction ops generalizing m with
  | nil => rfl
  | cons op ops ih => exact (ih _).trans (step_period m op)

/-- while the counter is at or beyond the period (as in a new muxer), a call either emits nothing and leaves the
counter there, or what it emits starts with the tables -/
theorem step_first (m : Mux) (op : Op) (h : MuxInv m) (hJ : m.period ≤ m.retransmitCounter) :
    ((step m op).1 = [] ∧ (step m op).2.period ≤ (step m op).2.retransmitCounter) ∨ StartsWithTables (step m op).1 := by
  have hper := step_period m op
  cases op with
  | add es => left; exact ⟨rfl, by rw [hper, (nondata_counter m (.add es) (by intro d h; cases h)).1]; exact hJ⟩
  | remove pid => left; exact ⟨rfl, by rw [hper, (nondata_counter m (.remove pid) (by intro d h; cases h)).1]; exact hJ⟩
  | setPCR pid => left; exact ⟨rfl, hJ⟩
  | tables =>
    rcases writeTablesCall_cases m with ⟨ht, _⟩ | ⟨hc, hm⟩
    · right
      obtain ⟨pat, pmt, hc, a, b⟩ := tablesOK_pids m _ h ht
      exact ⟨pat, pmt, [], hc, a, b⟩
    · left
      exact ⟨hc, by show m.writeTablesCall.2.period ≤ m.writeTablesCall.2.retransmitCounter; rw [hm]; exact hJ⟩
  | data d =>
    show ((m.writeData d).1.chunks = [] ∧ (m.writeData d).2.1.period ≤ (m.writeData d).2.1.retransmitCounter) ∨
      StartsWithTables (m.writeData d).1.chunks
    rcases writeData_cases m d h with ⟨_, hc, hm, _⟩ | ⟨_, _, _, hc, hm, _⟩ | ⟨_, _, _, tcs, m1, new, cc', hr, hc, _, _⟩
    · left; rw [hc, hm]; exact ⟨rfl, hJ⟩
    · left; rw [hc, hm]; exact ⟨rfl, by show m.period ≤ m.retransmitCounter + 1; omega⟩
    · right
      rcases retransmit_ok_cases m _ tcs m1 hr with ⟨hd, _, _⟩ | ⟨_, ht, _⟩
      · unfold dueB at hd
        simp at hd
        omega
      · obtain ⟨pat, pmt, rfl, a, b⟩ := tablesOK_pids m tcs h ht
        exact ⟨pat, pmt, new, by rw [hc]; rfl, a, b⟩

/-- **T1 (tables first)**: whatever a new muxer is asked to do, the first two packets it ever hands to the writer
are a PAT (PID 0) and a PMT (PID 0x1000): no PES packet precedes the tables -/
theorem run_first (m : Mux) (ops : List Op) (h : PidInv m) (hok : RunAll StepOK' m ops)
    (hJ : m.period ≤ m.retransmitCounter) :
    (run m ops).1 = [] ∨ StartsWithTables (run m ops).1 := by
  induction ops generalizing m with
  | nil => exact Or.inl rfl
  | cons op ops ih =>
    show (step m op).1 ++ (run (step m op).2 ops).1 = [] ∨ StartsWithTables ((step m op).1 ++ (run (step m op).2 ops).1)
    rcases step_first m op h.inv hJ with ⟨hc, hJ'⟩ | hs
    · rw [hc, List.nil_append]
      exact ih _ (step_pidInv m op h hok.1) hok.2 hJ'
    · exact Or.inr (hs.append _)

theorem history_tables_first (period : Nat) (ops : List Op) (hok : RunAll StepOK' (newMux period) ops) :
    (run (newMux period) ops).1 = [] ∨ StartsWithTables (run (newMux period) ops).1 :=
  run_first _ ops (pidInv_new period) hok (Nat.le_refl _)

/-- no `WriteData` of the history has handed anything to the writer -/
def NoDataOutput (m : Mux) (op : Op) : Prop := ∀ d, op = .data d → (m.writeData d).1.chunks = []

theorem run_still_due (m : Mux) (ops : List Op) (h : PidInv m) (hok : RunAll StepOK' m ops)
    (hq : RunAll NoDataOutput m ops) (hJ : m.period ≤ m.retransmitCounter) :
    (run m ops).2.period ≤ (run m ops).2.retransmitCounter := by
  induction ops generalizing m with
  | nil => exact hJ
  | cons op ops ih =>
    refine ih _ (step_pidInv m op h hok.1) hok.2 hq.2 ?_
    by_cases hd : ∃ d, op = .data d
    · obtain ⟨d, rfl⟩ := hd
      rcases step_first m (.data d) h.inv hJ with ⟨_, hJ'⟩ | ⟨pat, pmt, rest, hs, _⟩
      · exact hJ'
      · have := hq.1 d rfl
        simp only [step] at hs
        rw [this] at hs
        cases hs
    · have := nondata_counter m op (fun d hh => hd ⟨d, hh⟩)
      rw [this.1, this.2]; exact hJ

/-- **T1 (first `WriteData`)**: in any history of a new muxer, the first `WriteData` that hands anything to the writer
starts with PAT and PMT; in particular the first successful `WriteData` does (whatever the period) -/
theorem first_writeData_has_tables (period : Nat) (pre : List Op) (d : MuxerData)
    (hok : RunAll StepOK' (newMux period) pre) (hq : RunAll NoDataOutput (newMux period) pre) :
    ((run (newMux period) pre).2.writeData d).1.chunks = [] ∨
    StartsWithTables ((run (newMux period) pre).2.writeData d).1.chunks := by
  have hJ := run_still_due _ pre (pidInv_new period) hok hq (Nat.le_refl _)
  have hI := run_pidInv _ pre (pidInv_new period) hok
  rcases step_first _ (.data d) hI.inv hJ with ⟨hc, _⟩ | hs
  · exact Or.inl hc
  · exact Or.inr hs

theorem first_success_has_tables (period : Nat) (pre : List Op) (d : MuxerData)
    (hok : RunAll StepOK' (newMux period) pre) (hq : RunAll NoDataOutput (newMux period) pre)
    (hs : DataSuccess (run (newMux period) pre).2 d) :
    StartsWithTables ((run (newMux period) pre).2.writeData d).1.chunks := by
  have hJ := run_still_due _ pre (pidInv_new period) hok hq (Nat.le_refl _)
  have hI := run_pidInv _ pre (pidInv_new period) hok
  rw [writeData_tables_iff _ d hI.inv hs]
  right; omega

/-! #### at most `period − 1` successful calls without tables -/

instance (m : Mux) (d : MuxerData) : Decidable (DataSuccess m d) := by unfold DataSuccess; infer_instance

/-- number of successful `WriteData` calls of a history -/
def succCount : Mux → List Op → Nat
  | _, [] => 0
  | m, op :: ops =>
    (match op with
     | .data d => if DataSuccess m d then 1 else 0
     | _ => 0) + succCount (step m op).2 ops

/-- no `WriteData` of the history emits the tables -/
def Quiet (m : Mux) (op : Op) : Prop := ∀ d, op = .data d → ¬ StartsWithTables (m.writeData d).1.chunks

theorem quiet_step (m : Mux) (d : MuxerData) (h : MuxInv m) (hq : ¬ StartsWithTables (m.writeData d).1.chunks) :
    m.retransmitCounter ≤ (m.writeData d).2.1.retransmitCounter ∧
    (DataSuccess m d → (m.writeData d).2.1.retransmitCounter = m.retransmitCounter + 1 ∧
      m.retransmitCounter + 1 < m.period) := by
  constructor
  · rcases writeData_cases m d h with ⟨_, _, hm, _⟩ | ⟨_, _, _, _, hm, _⟩ | ⟨ha, _, _, tcs, m1, new, cc', hr, hc, hm, _⟩
    · rw [hm]; exact Nat.le_refl _
    · rw [hm]; exact Nat.le_succ _
    · rw [hm]
      rcases retransmit_ok_cases m _ tcs m1 hr with ⟨_, _, rfl⟩ | ⟨_, ht, _⟩
      · exact Nat.le_succ _
      · exfalso; apply hq
        obtain ⟨pat, pmt, rfl, a, b⟩ := tablesOK_pids m tcs h ht
        exact ⟨pat, pmt, new, by rw [hc]; rfl, a, b⟩
  · intro hs
    have hiff := writeData_tables_iff m d h hs
    have hnd : dataDue m d = false := by
      cases hd : dataDue m d with
      | false => rfl
      | true =>
        exfalso; apply hq; rw [hiff]
        unfold dataDue dueB at hd
        simpa using hd
    obtain ⟨ha, _, _, tcs, m1, _, _, hr, _⟩ := success_proceeds m d h hs
    have h3 := (writeData_counter m d).2.2 ha (by rw [hr]; rfl)
    rw [hnd] at h3
    refine ⟨by simpa using h3, ?_⟩
    unfold dataDue dueB at hnd
    simp at hnd
    omega

/-- **T1 (at most one period)**: in a stretch of calls in which no `WriteData` emits the tables, counter plus number of
successful `WriteData` calls stays below the period -/
theorem quiet_bound (m : Mux) (ops : List Op) (h : PidInv m) (hok : RunAll StepOK' m ops) (hq : RunAll Quiet m ops) :
    succCount m ops = 0 ∨ m.retransmitCounter + succCount m ops < m.period := by
  induction ops generalizing m with
  | nil => exact Or.inl rfl
  | cons op ops ih =>
    have ih' := ih _ (step_pidInv m op h hok.1) hok.2 hq.2
    rw [step_period] at ih'
    by_cases hd : ∃ d, op = .data d
    · obtain ⟨d, rfl⟩ := hd
      obtain ⟨q1, q2⟩ := quiet_step m d h.inv (hq.1 d rfl)
      simp only [succCount]
      have hst : (step m (.data d)).2 = (m.writeData d).2.1 := rfl
      rw [hst] at ih' ⊢
      by_cases hs : DataSuccess m d
      · obtain ⟨e1, e2⟩ := q2 hs
        rw [if_pos hs]
        right
        rcases ih' with i | i
        · rw [i]; omega
        · omega
      · rw [if_neg hs]
        rcases ih' with i | i
        · left; omega
        · right; omega
    · have hc := nondata_counter m op (fun d hh => hd ⟨d, hh⟩)
      have e : succCount m (op :: ops) = succCount (step m op).2 ops := by
        cases op with
        | data d => exact absurd ⟨d, rfl⟩ hd
        | _ => simp [succCount]
      rw [e]
      rw [hc.1] at ih'
      exact ih'

/-- hence (period ≥ 1) any such stretch contains at most `period − 1` successful `WriteData` calls: counting the call
that emitted the tables, a receiver joining anywhere sees the tables again within `period` successful calls -/
theorem quiet_stretch_lt_period (m : Mux) (ops : List Op) (h : PidInv m) (hok : RunAll StepOK' m ops)
    (hq : RunAll Quiet m ops) (hp : 1 ≤ m.period) : succCount m ops < m.period := by
  rcases quiet_bound m ops h hok hq with e | e <;> omega

/-! ## T2 — version numbers -/

/-- successor of a stored 5-bit version value; a fresh counter holds 32 and yields 0 first -/
def next32 (v : Nat) : Nat := if v + 1 > 31 then 0 else v + 1

theorem next32_le (v : Nat) : next32 v ≤ 31 := by unfold next32; split <;> omega
theorem next32_mod (v : Nat) (h : v ≤ 31) : next32 v = (v + 1) % 32 := by unfold next32; split <;> omega
theorem next32_fresh : next32 32 = 0 := rfl
theorem next32_ne (v : Nat) (h : v ≤ 32) : next32 v ≠ v := by unfold next32; split <;> omega

theorem inc31 (c : WrappingCounter) (h : c.wrapAt = 31) : c.inc = { value := next32 c.value, wrapAt := 31 } := by
  unfold WrappingCounter.inc next32
  rw [h]
  split <;> simp

/-- version field of the PAT / PMT section the next emission serialises -/
def wPAT (m : Mux) : Nat := (patV m).get % 256
def wPMT (m : Mux) : Nat := (pmtV m).get % 256

theorem patPSI_eq (m : Mux) :
    patPSI m = tablePSI 0 (calcPATSectionLength patData) 0 (wPAT m) { pat := some patData } := rfl
theorem pmtPSI_eq (m : Mux) :
    pmtPSI m = tablePSI 2 (calcPMTSectionLength m.pmtData) 1 (wPMT m) { pmt := some m.pmtData } := rfl

/-- invariant of the two version counters.  `value = 32` means "never emitted"; the PAT is marked updated only
until its first emission -/
structure VerInv (m : Mux) : Prop where
  pmtWrap : m.pmtVersion.wrapAt = 31
  pmtLe : m.pmtVersion.value ≤ 32
  pmtFresh : m.pmtVersion.value = 32 → m.pmtUpdated = false → m.streams = []
  patWrap : m.patVersion.wrapAt = 31
  pat : (m.pmUpdated = true ∧ m.patVersion.value = 32) ∨ (m.pmUpdated = false ∧ m.patVersion.value = 0)

theorem verInv_new (period : Nat) : VerInv (newMux period) :=
  ⟨rfl, Nat.le_refl _, fun _ _ => rfl, rfl, Or.inl ⟨rfl, rfl⟩⟩

/-- the PAT version field is always 0 -/
theorem wPAT_zero (m : Mux) (h : VerInv m) : wPAT m = 0 ∧ (patV m).value = 0 ∧ (patV m).wrapAt = 31 := by
  unfold wPAT patV
  rcases h.pat with ⟨h1, h2⟩ | ⟨h1, h2⟩
  · rw [h1, if_pos rfl, inc31 _ h.patWrap, h2]; exact ⟨rfl, rfl, rfl⟩
  · rw [h1]; simp only [Bool.false_eq_true, if_false]
    exact ⟨by simp [WrappingCounter.get, h2], h2, h.patWrap⟩

theorem pmtV_spec (m : Mux) (h : VerInv m) :
    (pmtV m).wrapAt = 31 ∧ (pmtV m).value = (if m.pmtUpdated then next32 m.pmtVersion.value else m.pmtVersion.value) := by
  unfold pmtV
  cases hu : m.pmtUpdated
  · simp only [Bool.false_eq_true, if_false]; exact ⟨h.pmtWrap, trivial⟩
  · simp only [if_true]; rw [inc31 _ h.pmtWrap]; exact ⟨rfl, rfl⟩

/-- the PMT version field: the stored value, advanced iff the PMT is marked updated -/
theorem wPMT_eq (m : Mux) (h : VerInv m) (hv : m.pmtVersion.value ≤ 31 ∨ m.pmtUpdated = true) :
    wPMT m = (if m.pmtUpdated then next32 m.pmtVersion.value else m.pmtVersion.value) ∧ wPMT m < 32 ∧
    (pmtV m).value = wPMT m := by
  have hs := (pmtV_spec m h).2
  have e : wPMT m = (pmtV m).value % 256 := rfl
  rw [e, hs]
  cases hu : m.pmtUpdated
  · simp only [Bool.false_eq_true, if_false]
    rcases hv with hv | hv
    · omega
    · rw [hu] at hv; cases hv
  · simp only [if_true]
    have := next32_le m.pmtVersion.value
    omega

/-- the call hands PAT and PMT to the writer (observable on the output: it starts with a packet on PID 0 followed
by a packet on PID 0x1000) -/
def Emits (m : Mux) (op : Op) : Prop := StartsWithTables (step m op).1

/-- the call changes what the PMT has to say: a successful add or remove, or any `SetPCRPID` -/
def modifies (m : Mux) : Op → Bool
  | .add es => (m.addElementaryStream es).1.isOk
  | .remove pid => (m.removeElementaryStream pid).1.isOk
  | .setPCR _ => true
  | _ => false

def anyModifies : Mux → List Op → Bool
  | _, [] => false
  | m, op :: ops => modifies m op || anyModifies (step m op).2 ops

theorem not_startsWithTables_nil : ¬ StartsWithTables [] := by
  rintro ⟨_, _, _, h, _⟩; cases h

theorem not_startsWithTables_pid (cs : List Bytes) (p : Nat) (hp : p ≠ 0) (h : ∀ c ∈ cs, pktPID c = p) :
    ¬ StartsWithTables cs := by
  rintro ⟨pat, _, _, rfl, a, _⟩
  have := h pat List.mem_cons_self
  rw [a] at this
  exact hp this.symm

/-- **an emitting call**: the two packets are the serialisations of `patPSI m` / `pmtPSI m` (version fields `wPAT m`,
`wPMT m`, PMT content `m.pmtData`); afterwards the stored versions are those just written and both dirty flags
are cleared; the content is untouched -/
theorem step_emits (m : Mux) (op : Op) (h : MuxInv m) (he : Emits m op) :
    (∃ tcs rest, TablesOK m tcs ∧ (step m op).1 = tcs ++ rest) ∧
    (step m op).2.pmtVersion = pmtV m ∧ (step m op).2.patVersion = patV m ∧
    (step m op).2.pmtUpdated = false ∧ (step m op).2.pmUpdated = false ∧
    (step m op).2.streams = m.streams ∧ (step m op).2.pcrPID = m.pcrPID ∧ modifies m op = false := by
  unfold Emits at he
  cases op with
  | add es => exact absurd he not_startsWithTables_nil
  | remove pid => exact absurd he not_startsWithTables_nil
  | setPCR pid => exact absurd he not_startsWithTables_nil
  | tables =>
    rcases writeTablesCall_cases m with ⟨ht, hm⟩ | ⟨hc, _⟩
    · simp only [step]
      rw [hm]
      exact ⟨⟨_, [], ht, by simp⟩, rfl, rfl, rfl, rfl, rfl, rfl, rfl⟩
    · simp only [step] at he
      rw [hc] at he
      exact absurd he not_startsWithTables_nil
  | data d =>
    simp only [step] at he ⊢
    rcases writeData_cases m d h with ⟨_, hc, _⟩ | ⟨_, _, _, hc, _⟩ | ⟨_, hp0, _, tcs, m1, new, cc', hr, hc, hm, hnew⟩
    · rw [hc] at he; exact absurd he not_startsWithTables_nil
    · rw [hc] at he; exact absurd he not_startsWithTables_nil
    · rcases retransmit_ok_cases m _ tcs m1 hr with ⟨_, rfl, _⟩ | ⟨_, ht, rfl⟩
      · rw [hc] at he
        exact absurd he (not_startsWithTables_pid _ d.pid hp0 (by simpa using hnew))
      · rw [hm]
        exact ⟨⟨tcs, new, ht, hc⟩, rfl, rfl, rfl, rfl, rfl, rfl, rfl⟩

/-- **a call that does not emit the tables** leaves both stored versions and the PAT flag alone; the PMT is marked
updated iff it was, or the call is a successful add / remove or a `SetPCRPID`; other calls leave the content alone -/
theorem step_silent (m : Mux) (op : Op) (h : MuxInv m) (he : ¬ Emits m op) :
    (step m op).2.pmtVersion = m.pmtVersion ∧ (step m op).2.patVersion = m.patVersion ∧
    (step m op).2.pmUpdated = m.pmUpdated ∧ (step m op).2.pmtUpdated = (m.pmtUpdated || modifies m op) := by
  unfold Emits at he
  cases op with
  | add es =>
    simp only [step, modifies]
    unfold Mux.addElementaryStream
    split
    · split
      · simp [Res.isOk]
      · simp [Res.isOk]
    · simp [Res.isOk]
  | remove pid =>
    simp only [step, modifies]
    unfold Mux.removeElementaryStream
    split
    · simp [Res.isOk]
    · simp [Res.isOk]
  | setPCR pid => simp [step, modifies, Mux.setPCRPID]
  | tables =>
    simp only [step, modifies, Bool.or_false] at he ⊢
    rcases writeTablesCall_cases m with ⟨ht, _⟩ | ⟨_, hm⟩
    · exfalso; apply he
      obtain ⟨pat, pmt, hc, a, b⟩ := tablesOK_pids m _ h ht
      exact ⟨pat, pmt, [], hc, a, b⟩
    · rw [hm]; exact ⟨rfl, rfl, rfl, rfl⟩
  | data d =>
    simp only [step, modifies, Bool.or_false] at he ⊢
    rcases writeData_cases m d h with ⟨_, _, hm, _⟩ | ⟨_, _, _, _, hm, _⟩ | ⟨_, _, _, tcs, m1, new, cc', hr, hc, hm, _⟩
    · rw [hm]; exact ⟨rfl, rfl, rfl, rfl⟩
    · rw [hm]; exact ⟨rfl, rfl, rfl, rfl⟩
    · rcases retransmit_ok_cases m _ tcs m1 hr with ⟨_, _, rfl⟩ | ⟨_, ht, _⟩
      · rw [hm]; exact ⟨rfl, rfl, rfl, rfl⟩
      · exfalso; apply he
        obtain ⟨pat, pmt, rfl, a, b⟩ := tablesOK_pids m tcs h ht
        exact ⟨pat, pmt, new, by rw [hc]; rfl, a, b⟩

/-- a call that is not a successful add / remove or a `SetPCRPID` leaves the content of the PMT alone -/
theorem step_content_same (m : Mux) (op : Op) (hm : modifies m op = false) :
    (step m op).2.streams = m.streams ∧ (step m op).2.pcrPID = m.pcrPID := by
  cases op with
  | add es =>
    simp only [step, modifies] at hm ⊢
    unfold Mux.addElementaryStream at hm ⊢
    split
    · split
      · exact ⟨rfl, rfl⟩
      · rename_i h1 h2; rw [if_pos h1, if_neg h2] at hm; cases hm
    · rename_i h1; rw [if_neg h1] at hm; cases hm
  | remove pid =>
    simp only [step, modifies] at hm ⊢
    unfold Mux.removeElementaryStream at hm ⊢
    split
    · rename_i h1; rw [if_pos h1] at hm; cases hm
    · exact ⟨rfl, rfl⟩
  | setPCR pid => cases hm
  | tables => exact ⟨(writeTablesCall_frame m).streams, (writeTablesCall_frame m).pcrPID⟩
  | data d => exact ⟨(writeData_frame m d).streams, (writeData_frame m d).pcrPID⟩

theorem step_verInv (m : Mux) (op : Op) (hi : MuxInv m) (h : VerInv m) : VerInv (step m op).2 := by
  by_cases he : Emits m op
  · obtain ⟨_, e1, e2, e3, e4, e5, _, _⟩ := step_emits m op hi he
    obtain ⟨p1, p2⟩ := pmtV_spec m h
    obtain ⟨_, q2, q3⟩ := wPAT_zero m h
    refine ⟨by rw [e1]; exact p1, ?_, ?_, by rw [e2]; exact q3, Or.inr ⟨e4, by rw [e2]; exact q2⟩⟩
    · rw [e1, p2]
      have := next32_le m.pmtVersion.value
      have := h.pmtLe
      split <;> omega
    · rw [e1, p2, e5]
      intro hv _
      cases hu : m.pmtUpdated
      · rw [hu] at hv; simp only [Bool.false_eq_true, if_false] at hv
        exact h.pmtFresh hv hu
      · rw [hu] at hv; simp only [if_true] at hv
        have := next32_le m.pmtVersion.value
        omega
  · obtain ⟨e1, e2, e3, e4⟩ := step_silent m op hi he
    refine ⟨by rw [e1]; exact h.pmtWrap, by rw [e1]; exact h.pmtLe, ?_, by rw [e2]; exact h.patWrap,
      by rw [e2, e3]; exact h.pat⟩
    rw [e1, e4]
    intro hv hu
    simp only [Bool.or_eq_false_iff] at hu
    rw [(step_content_same m op hu.2).1]
    exact h.pmtFresh hv hu.1

/-- everything that holds in every reachable state -/
structure Reach (m : Mux) : Prop where
  pid : PidInv m
  ver : VerInv m

theorem reach_new (period : Nat) : Reach (newMux period) := ⟨pidInv_new period, verInv_new period⟩

theorem step_reach (m : Mux) (op : Op) (h : Reach m) (hok : StepOK' m op) : Reach (step m op).2 :=
  ⟨step_pidInv m op h.pid hok, step_verInv m op h.pid.inv h.ver⟩

theorem run_reach (m : Mux) (ops : List Op) (h : Reach m) (hok : RunAll StepOK' m ops) : Reach (run m ops).2 :=
  (runAll_inv Reach StepOK' (fun _ _ => True) step_reach (fun _ _ _ _ => trivial) m ops h hok).2

/-- no call of the history emits the tables -/
def NoEmit (m : Mux) (op : Op) : Prop := ¬ Emits m op

/-- over a stretch without emission the stored versions stay, and the PMT ends up marked updated iff it was or
some call modified the content -/
theorem run_silent (m : Mux) (ops : List Op) (h : Reach m) (hok : RunAll StepOK' m ops) (hq : RunAll NoEmit m ops) :
    (run m ops).2.pmtVersion = m.pmtVersion ∧ (run m ops).2.patVersion = m.patVersion ∧
    (run m ops).2.pmUpdated = m.pmUpdated ∧ (run m ops).2.pmtUpdated = (m.pmtUpdated || anyModifies m ops) := by
  induction ops generalizing m with
  | nil => exact ⟨rfl, rfl, rfl, by simp [run, anyModifies]⟩
  | cons op ops ih =>
    obtain ⟨e1, e2, e3, e4⟩ := step_silent m op h.pid.inv hq.1
    obtain ⟨i1, i2, i3, i4⟩ := ih _ (step_reach m op h hok.1) hok.2 hq.2
    refine ⟨i1.trans e1, i2.trans e2, i3.trans e3, ?_⟩
    show (run (step m op).2 ops).2.pmtUpdated = _
    rw [i4, e4, anyModifies, Bool.or_assoc]

/-- the content of the PMT: the streams in insertion order and the PCR PID -/
def content (m : Mux) : List PMTElementaryStream × Nat := (m.streams, m.pcrPID)

theorem run_content_same (m : Mux) (ops : List Op) (hm : anyModifies m ops = false) :
    content (run m ops).2 = content m := by
  induction ops generalizing m with
  | nil => rfl
  | cons op ops ih =>
    simp only [anyModifies, Bool.or_eq_false_iff] at hm
    have := step_content_same m op hm.1
    show content (run (step m op).2 ops).2 = _
    rw [ih _ hm.2]
    unfold content
    rw [this.1, this.2]

/-- **T2 (first emission)**: the first tables a muxer ever emits carry version 0 (PAT and PMT) -/
theorem first_emission_versions (period : Nat) (pre : List Op) (op : Op)
    (hok : RunAll StepOK' (newMux period) pre) (hq : RunAll NoEmit (newMux period) pre)
    (he : Emits (run (newMux period) pre).2 op) :
    wPAT (run (newMux period) pre).2 = 0 ∧ wPMT (run (newMux period) pre).2 = 0 := by
  have hr := run_reach _ pre (reach_new period) hok
  obtain ⟨e1, _⟩ := run_silent _ pre (reach_new period) hok hq
  obtain ⟨⟨tcs, _, ht, _⟩, _⟩ := step_emits _ op hr.pid.inv he
  generalize (run (newMux period) pre).2 = m at *
  have hv : m.pmtVersion.value = 32 := by rw [e1]; rfl
  have hne : m.streams ≠ [] := by
    intro hh
    have := ht.pcrValid
    rw [hh] at this
    cases this
  have hu : m.pmtUpdated = true := by
    cases hu : m.pmtUpdated
    · exact absurd (hr.ver.pmtFresh hv hu) hne
    · rfl
  refine ⟨(wPAT_zero m hr.ver).1, ?_⟩
  rw [(wPMT_eq m hr.ver (Or.inr hu)).1, hu, hv]
  rfl

/-- **T2 (consecutive emissions)**.  `op0` emits the tables in state `m0`; then come calls `mid`, none of which emits
the tables; `m2` is the state reached.  The PMT version field of the next emission (`wPMT m2`: the version any
emitting call made in `m2` serialises, see `step_emits`) equals the one written by `op0` if no call of `mid` was a
successful add / remove or a `SetPCRPID`, and is that version plus one modulo 32 otherwise.  The PAT version is 0
at both emissions. -/
theorem versions_between (m0 : Mux) (op0 : Op) (mid : List Op) (h : Reach m0) (hok0 : StepOK' m0 op0)
    (he0 : Emits m0 op0) (hok : RunAll StepOK' (step m0 op0).2 mid) (hq : RunAll NoEmit (step m0 op0).2 mid) :
    wPMT m0 < 32 ∧
    wPMT (run (step m0 op0).2 mid).2 =
      (if anyModifies (step m0 op0).2 mid then (wPMT m0 + 1) % 32 else wPMT m0) ∧
    wPAT m0 = 0 ∧ wPAT (run (step m0 op0).2 mid).2 = 0 := by
  obtain ⟨⟨tcs, _, ht, _⟩, e1, _, e3, _⟩ := step_emits m0 op0 h.pid.inv he0
  have h1 := step_reach m0 op0 h hok0
  have h2 := run_reach _ mid h1 hok
  obtain ⟨s1, _, _, s4⟩ := run_silent _ mid h1 hok hq
  have hne : m0.streams ≠ [] := by
    intro hh
    have := ht.pcrValid
    rw [hh] at this
    cases this
  have hv0 : m0.pmtVersion.value ≤ 31 ∨ m0.pmtUpdated = true := by
    cases hu : m0.pmtUpdated
    · left
      have := h.ver.pmtLe
      have : m0.pmtVersion.value ≠ 32 := fun hv => hne (h.ver.pmtFresh hv hu)
      omega
    · exact Or.inr rfl
  obtain ⟨_, w2, w3⟩ := wPMT_eq m0 h.ver hv0
  refine ⟨w2, ?_, (wPAT_zero m0 h.ver).1, (wPAT_zero _ h2.ver).1⟩
  have hval : (run (step m0 op0).2 mid).2.pmtVersion.value = wPMT m0 := by rw [s1, e1, w3]
  rw [(wPMT_eq _ h2.ver (Or.inl (by rw [hval]; omega))).1, hval, s4, e3, Bool.false_or]
  cases anyModifies (step m0 op0).2 mid
  · simp
  · simp only [if_true]; exact next32_mod _ (by omega)

/-- … hence the two versions are equal iff nothing modified the content in between, and then the content of the
second PMT is that of the first -/
theorem versions_equal_iff (m0 : Mux) (op0 : Op) (mid : List Op) (h : Reach m0) (hok0 : StepOK' m0 op0)
    (he0 : Emits m0 op0) (hok : RunAll StepOK' (step m0 op0).2 mid) (hq : RunAll NoEmit (step m0 op0).2 mid) :
    (wPMT (run (step m0 op0).2 mid).2 = wPMT m0 ↔ anyModifies (step m0 op0).2 mid = false) ∧
    (anyModifies (step m0 op0).2 mid = false → content (run (step m0 op0).2 mid).2 = content m0) := by
  obtain ⟨v1, v2, _⟩ := versions_between m0 op0 mid h hok0 he0 hok hq
  obtain ⟨_, _, _, _, _, c1, c2, _⟩ := step_emits m0 op0 h.pid.inv he0
  constructor
  · rw [v2]
    cases anyModifies (step m0 op0).2 mid
    · simp
    · simp only [if_true]
      constructor
      · intro hh; omega
      · intro hh; cases hh
  · intro hm
    rw [run_content_same _ mid hm]
    unfold content
    rw [c1, c2]

/-! ## T3 — content of the emitted tables -/

theorem pmtData_eq (m : Mux) :
    m.pmtData = { elementaryStreams := m.streams, pcrPID := m.pcrPID, programDescriptors := [], programNumber := 1 } := rfl

theorem patData_eq : patData = { programs := [{ programMapID := 4096, programNumber := 1 }], transportStreamID := 0 } := rfl

/-- **T3 (what is serialised)**: a call that emits the tables hands to `writePacket`, on PID 0 and PID 0x1000, the
`writePSIData` serialisations of the PAT mapping program 1 to PID 0x1000 (version field `wPAT m`) and of the PMT of
program 1 listing exactly `m.streams` (in this order) with PCR PID `m.pcrPID` (version field `wPMT m`); and the PCR
PID is the PID of one of the streams -/
theorem emits_payloads (m : Mux) (op : Op) (h : MuxInv m) (he : Emits m op) :
    ∃ pat pmt rest patPayload pmtPayload, (step m op).1 = pat :: pmt :: rest ∧
      writePSIData (tablePSI 0 (calcPATSectionLength patData) 0 (wPAT m) { pat := some patData }) = .ok patPayload ∧
      writePacket (tablePacket 0 m.patCC.inc.get patPayload) 188 = .ok pat ∧
      writePSIData (tablePSI 2 (calcPMTSectionLength m.pmtData) 1 (wPMT m) { pmt := some m.pmtData }) = .ok pmtPayload ∧
      writePacket (tablePacket 4096 m.pmtCC.inc.get pmtPayload) 188 = .ok pmt ∧
      m.streams.any (·.elementaryPID == m.pcrPID) = true := by
  obtain ⟨⟨tcs, rest, ⟨hpcr, pat, pmt, p1, p2, rfl, a1, a2, a3, a4⟩, hc⟩, _⟩ := step_emits m op h he
  exact ⟨pat, pmt, rest, p1, p2, hc, a1, a2, a3, a4, hpcr⟩

/-- the content after a call, as a function of the content before (and, for PID 0, of the automatic PID) -/
def nextContent (m : Mux) : Op → List PMTElementaryStream × Nat
  | .add es =>
    if es.elementaryPID = 0 then (m.streams ++ [{ es with elementaryPID := autoPID m }], m.pcrPID)
    else if m.streams.any (·.elementaryPID == es.elementaryPID) then (m.streams, m.pcrPID)
    else (m.streams ++ [es], m.pcrPID)
  | .remove pid => (m.streams.filter (·.elementaryPID != pid), m.pcrPID)
  | .setPCR pid => (m.streams, pid)
  | _ => (m.streams, m.pcrPID)

/-- **T3 (evolution of the content)**: adds append (an add of a PID already present is refused and changes nothing),
removes filter the PID out (nothing to filter when it is absent), `SetPCRPID` replaces the PCR PID, no other call
touches streams or PCR PID -/
theorem step_content (m : Mux) (op : Op) : content (step m op).2 = nextContent m op := by
  cases op with
  | add es =>
    simp only [step, nextContent]
    by_cases h0 : es.elementaryPID = 0
    · rw [add_auto_eq m es h0, if_pos h0]; rfl
    · rw [add_explicit_eq m es h0, if_neg h0]
      split <;> rfl
  | remove pid =>
    simp only [step, nextContent]
    unfold Mux.removeElementaryStream
    split
    · rfl
    · rename_i hs
      unfold content
      simp only [Prod.mk.injEq, and_true]
      rw [List.filter_eq_self.2]
      intro e he
      have : e.elementaryPID ≠ pid := by
        intro hh
        apply hs
        rw [any_pid_eq]
        exact hh ▸ List.mem_map_of_mem he
      simpa using this
  | setPCR pid => rfl
  | tables =>
    simp only [step, nextContent]; unfold content
    rw [(writeTablesCall_frame m).streams, (writeTablesCall_frame m).pcrPID]
  | data d =>
    simp only [step, nextContent]; unfold content
    rw [(writeData_frame m d).streams, (writeData_frame m d).pcrPID]

/-- results of the stream-table calls -/
theorem add_result (m : Mux) (es : PMTElementaryStream) :
    (m.addElementaryStream es).1.isOk = (decide (es.elementaryPID = 0) || !m.streams.any (·.elementaryPID == es.elementaryPID)) := by
  by_cases h0 : es.elementaryPID = 0
  · rw [add_auto_eq m es h0]; simp [h0, Res.isOk]
  · rw [add_explicit_eq m es h0]
    split <;> simp_all [Res.isOk]

theorem remove_result (m : Mux) (pid : Nat) :
    (m.removeElementaryStream pid).1.isOk = m.streams.any (·.elementaryPID == pid) := by
  unfold Mux.removeElementaryStream
  split <;> simp_all [Res.isOk]

/-! ## T1 — the counting invariant, in closed form -/

/-- `Accepted`, as a Boolean -/
def acceptedB (m : Mux) (d : MuxerData) : Bool :=
  (m.ccOf d.pid).isSome && !decide (6 + calcPESOptionalHeaderLength d.pes.header.optionalHeader > 184)

theorem acceptedB_iff (m : Mux) (d : MuxerData) : acceptedB m d = true ↔ Accepted m d := by
  unfold acceptedB Accepted
  cases h : m.ccOf d.pid <;> simp

/-- the `WriteData` emits the tables automatically: it is accepted, tables are due, and they could be generated -/
def autoEmitB (m : Mux) (d : MuxerData) : Bool :=
  acceptedB m d && dataDue m d && (m.retransmitTables (dataForce m d)).1.isOk

/-- … which is observable: exactly then its output starts with PAT and PMT -/
theorem autoEmitB_iff (m : Mux) (d : MuxerData) (h : MuxInv m) :
    autoEmitB m d = true ↔ StartsWithTables (m.writeData d).1.chunks := by
  unfold autoEmitB
  rcases writeData_cases m d h with ⟨ha, hc, _⟩ | ⟨ha, hd, hr, hc, _⟩ | ⟨ha, hp0, _, tcs, m1, new, cc', hr, hc, _, hnew⟩
  · have : acceptedB m d = false := by
      cases hb : acceptedB m d
      · rfl
      · exact absurd ((acceptedB_iff m d).1 hb) ha
    rw [this, hc]
    simp [not_startsWithTables_nil]
  · rw [hr, hc]
    simp [not_startsWithTables_nil]
  · rw [(acceptedB_iff m d).2 ha, hr, hc]
    rcases retransmit_ok_cases m _ tcs m1 hr with ⟨hd, rfl, _⟩ | ⟨hd, ht, _⟩
    · have : dataDue m d = false := hd
      rw [this]
      simp only [Bool.true_and, Bool.false_and, Bool.false_eq_true, false_iff, List.nil_append]
      exact not_startsWithTables_pid _ d.pid hp0 hnew
    · have : dataDue m d = true := hd
      rw [this]
      obtain ⟨pat, pmt, rfl, a, b⟩ := tablesOK_pids m tcs h ht
      simp only [Bool.and_self, Res.isOk, true_iff]
      exact ⟨pat, pmt, new, rfl, a, b⟩

/-- what one call does to the retransmit counter `c`: a `WriteData` that emits the tables resets it, any other
accepted `WriteData` adds one (also when the due tables could not be generated), nothing else touches it -/
def counterStep (c : Nat) (m : Mux) : Op → Nat
  | .data d => if autoEmitB m d then 0 else if acceptedB m d then c + 1 else c
  | _ => c

theorem step_counter (m : Mux) (op : Op) : (step m op).2.retransmitCounter = counterStep m.retransmitCounter m op := by
  cases op with
  | add es => exact (nondata_counter m _ (by intro d h; cases h)).1
  | remove pid => exact (nondata_counter m _ (by intro d h; cases h)).1
  | setPCR pid => rfl
  | tables => exact (nondata_counter m _ (by intro d h; cases h)).1
  | data d =>
    simp only [step, counterStep]
    obtain ⟨c1, c2, c3⟩ := writeData_counter m d
    unfold autoEmitB
    cases hb : acceptedB m d
    · have ha : ¬ Accepted m d := fun ha => by rw [(acceptedB_iff m d).2 ha] at hb; cases hb
      simp [c1 ha]
    · have ha := (acceptedB_iff m d).1 hb
      cases hr : (m.retransmitTables (dataForce m d)).1.isOk
      · simp [(c2 ha hr).1]
      · rw [c3 ha hr]
        cases dataDue m d <;> simp

/-- the counter a history leaves, computed from the calls alone -/
def counterSpec (c : Nat) : Mux → List Op → Nat
  | _, [] => c
  | m, op :: ops => counterSpec (counterStep c m op) (step m op).2 ops

/-- **T1 (counting invariant)**: `retransmitCounter` starts at `period` and counts the accepted `WriteData` calls since
the last `WriteData` that emitted the tables (since the start if there was none); the manual `WriteTables` and the
stream-table calls do not touch it -/
theorem run_counter (m : Mux) (ops : List Op) :
    (run m ops).2.retransmitCounter = counterSpec m.retransmitCounter m ops := by
  induction ops generalizing m with
  | nil => rfl
  | cons op ops ih =>
    show (run (step m op).2 ops).2.retransmitCounter = _
    rw [ih, step_counter]
    rfl

/-! ## decidability of the predicates used as hypotheses (for concrete examples) -/

def startsWithTablesB : List Bytes → Bool
  | pat :: pmt :: _ => pktPID pat == 0 && pktPID pmt == 4096
  | _ => false

theorem startsWithTablesB_iff (cs : List Bytes) : startsWithTablesB cs = true ↔ StartsWithTables cs := by
  constructor
  · intro h
    match cs, h with
    | pat :: pmt :: rest, h =>
      simp only [startsWithTablesB, Bool.and_eq_true, beq_iff_eq] at h
      exact ⟨pat, pmt, rest, rfl, h.1, h.2⟩
  · rintro ⟨pat, pmt, rest, rfl, a, b⟩
    simp [startsWithTablesB, a, b]

instance (cs : List Bytes) : Decidable (StartsWithTables cs) :=
  decidable_of_iff _ (startsWithTablesB_iff cs)

instance (m : Mux) (op : Op) : Decidable (Emits m op) := by unfold Emits; infer_instance
instance (m : Mux) (op : Op) : Decidable (NoEmit m op) := by unfold NoEmit; infer_instance

instance (op : Op) : Decidable (OpOK' op) := by
  cases op <;> unfold OpOK' <;> infer_instance
instance (m : Mux) (op : Op) : Decidable (Room m op) := by
  cases op <;> unfold Room <;> infer_instance
instance (m : Mux) (op : Op) : Decidable (StepOK' m op) := by unfold StepOK'; infer_instance

instance (m : Mux) (op : Op) : Decidable (Quiet m op) := by
  cases op with
  | data d =>
    exact decidable_of_iff (¬ StartsWithTables (m.writeData d).1.chunks)
      ⟨fun h d' hd => by cases hd; exact h, fun h => h d rfl⟩
  | add es => exact isTrue (by intro d h; cases h)
  | remove pid => exact isTrue (by intro d h; cases h)
  | setPCR pid => exact isTrue (by intro d h; cases h)
  | tables => exact isTrue (by intro d h; cases h)

instance (m : Mux) (op : Op) : Decidable (NoDataOutput m op) := by
  cases op with
  | data d =>
    exact decidable_of_iff ((m.writeData d).1.chunks = [])
      ⟨fun h d' hd => by cases hd; exact h, fun h => h d rfl⟩
  | add es => exact isTrue (by intro d h; cases h)
  | remove pid => exact isTrue (by intro d h; cases h)
  | setPCR pid => exact isTrue (by intro d h; cases h)
  | tables => exact isTrue (by intro d h; cases h)

instance runAllDecidable (P : Mux → Op → Prop) [∀ m op, Decidable (P m op)] : ∀ (m : Mux) (ops : List Op), Decidable (RunAll P m ops)
  | _, [] => isTrue trivial
  | m, op :: ops =>
    have := runAllDecidable P (step m op).2 ops
    (inferInstance : Decidable (P m op ∧ RunAll P (step m op).2 ops))

/-! ## histories in two parts -/

theorem run_append (m : Mux) (a b : List Op) :
    run m (a ++ b) = ((run m a).1 ++ (run (run m a).2 b).1, (run (run m a).2 b).2) := by
  induction a generalizing m with
  | nil => simp [run]
  | cons op a ih =>
    show ((step m op).1 ++ (run (step m op).2 (a ++ b)).1, (run (step m op).2 (a ++ b)).2) = _
    rw [ih]
    simp [run]

theorem runAll_append (P : Mux → Op → Prop) (m : Mux) (a b : List Op) :
    RunAll P m (a ++ b) ↔ RunAll P m a ∧ RunAll P (run m a).2 b := by
  induction a generalizing m with
  | nil => simp [RunAll, run]
  | cons op a ih =>
    show (P m op ∧ RunAll P (step m op).2 (a ++ b)) ↔ (P m op ∧ RunAll P (step m op).2 a) ∧ RunAll P (run (step m op).2 a).2 b
    rw [ih, and_assoc]

/-- what T1 says about one call -/
def T1Call (m : Mux) (op : Op) : Prop :=
  ∀ d, op = .data d → DataSuccess m d →
    (StartsWithTables (m.writeData d).1.chunks ↔ (dataForce m d = true ∨ m.period ≤ m.retransmitCounter + 1)) ∧
    (∀ c ∈ (m.writeData d).1.chunks, pktPID c = 0 ∨ pktPID c = 4096 ∨ pktPID c = d.pid) ∧
    (m.writeData d).2.1.retransmitCounter =
      (if dataForce m d = true ∨ m.period ≤ m.retransmitCounter + 1 then 0 else m.retransmitCounter + 1) ∧
    (1 ≤ m.period → (m.writeData d).2.1.retransmitCounter < m.period)

theorem t1Call (m : Mux) (op : Op) (h : MuxInv m) : T1Call m op := by
  intro d hop hs
  have hdue : dataDue m d = true ↔ (dataForce m d = true ∨ m.period ≤ m.retransmitCounter + 1) := by
    unfold dataDue dueB; simp
  obtain ⟨_, _, c1, c2⟩ := writeData_success_chunks m d h hs
  refine ⟨writeData_tables_iff m d h hs, ?_, ?_, fun hp => (writeData_success_counter m d h hs hp).2⟩
  · intro c hc
    cases hd : dataDue m d with
    | true =>
      obtain ⟨pat, pmt, rest, e, a, b, r⟩ := c1 hd
      rw [e] at hc
      simp only [List.mem_cons] at hc
      rcases hc with rfl | rfl | hc
      · exact Or.inl a
      · exact Or.inr (Or.inl b)
      · exact Or.inr (Or.inr (r c hc))
    | false => exact Or.inr (Or.inr (c2 hd c hc))
  · by_cases hd : dataDue m d = true
    · rw [if_pos (hdue.1 hd)]
      have := (writeData_counter m d).2.2 (success_proceeds m d h hs).1
        (by obtain ⟨_, _, _, tcs, m1, _, _, hr, _⟩ := success_proceeds m d h hs; rw [hr]; rfl)
      rw [this, hd]; rfl
    · rw [if_neg (fun hh => hd (hdue.2 hh))]
      have := (writeData_counter m d).2.2 (success_proceeds m d h hs).1
        (by obtain ⟨_, _, _, tcs, m1, _, _, hr, _⟩ := success_proceeds m d h hs; rw [hr]; rfl)
      rw [this]
      simp [hd]

/-- **T1 (every call of every history)** -/
theorem history_t1 (period : Nat) (ops : List Op) (hok : RunAll StepOK' (newMux period) ops) :
    RunAll T1Call (newMux period) ops :=
  (runAll_inv PidInv StepOK' T1Call step_pidInv (fun m op hI _ => t1Call m op hI.inv) _ ops (pidInv_new period) hok).1

end Astits.MuxTables
