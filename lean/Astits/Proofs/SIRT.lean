/-
C13 helper — SI tables without a writer (TOT, SDT, NIT, EIT) parsed from the reference encoder's bytes, and
"model writer = reference encoder" per descriptor kind.  See the files of `Astits/Proofs/SIRT/`.
-/
import Astits.Proofs.SIRT.Enc
import Astits.Proofs.SIRT.Core
import Astits.Proofs.SIRT.Section
import Astits.Proofs.SIRT.Bodies
import Astits.Proofs.SIRT.TOT
import Astits.Proofs.SIRT.SDT
import Astits.Proofs.SIRT.SpecDesc
import Astits.Proofs.SIRT.NIT
import Astits.Proofs.SIRT.EIT
import Astits.Proofs.SIRT.WF
