/-
Whole-structure round trips for PSI (C13): iterator lemmas ("the iterator stands in front of these bytes"), the
section loop, the CRC check of a written section, PAT and PMT bodies.
-/
import Astits.Model.PSI
import Astits.Proofs.Layout
namespace Astits.PSIRT

/-! ### iterator positions -/

/-- the iterator stands in front of the bytes `r`: its slice is `pre ++ r` and its offset is `pre.length` -/
def It.At (i : It) (r : Bytes) : Prop := ∃ pre : Bytes, i.bs = pre ++ r ∧ i.off = (pre.length : Int)

theorem It.At.off_nonneg {i : It} {r : Bytes} (h : It.At i r) : 0 ≤ i.off := by
  obtain ⟨pre, _, ho⟩ := h; omega

theorem It.At.len {i : It} {r : Bytes} (h : It.At i r) : (i.bs.length : Int) = i.off + r.length := by
  obtain ⟨pre, hb, ho⟩ := h
  rw [hb, ho, List.length_append]; omega

theorem It.At.mk' (bs pre r : Bytes) (off : Int) (hb : bs = pre ++ r) (ho : off = pre.length) : It.At ⟨bs, off⟩ r :=
  ⟨pre, hb, ho⟩

/-- moving over a prefix -/
theorem It.At.advance {bs : Bytes} {off : Int} {xs r : Bytes} (h : It.At ⟨bs, off⟩ (xs ++ r)) (n : Int) (hn : n = xs.length) :
    It.At ⟨bs, off + n⟩ r := by
  obtain ⟨pre, hb, ho⟩ := h
  refine ⟨pre ++ xs, ?_, ?_⟩
  · simpa using hb
  · simp only at ho; simp only [ho, hn, List.length_append]; omega

theorem nextBytes_at (bs : Bytes) (off : Int) (xs r : Bytes) (n : Int) (hn : n = xs.length) (h : It.At ⟨bs, off⟩ (xs ++ r)) :
    It.nextBytes n ⟨bs, off⟩ = .ok (xs, ⟨bs, off + n⟩) := by
  obtain ⟨pre, hb, ho⟩ := h
  simp only at hb ho
  unfold It.nextBytes
  have hlen : (bs.length : Int) = pre.length + xs.length + r.length := by
    rw [hb]; simp only [List.length_append]; omega
  have h1 : ¬ ((bs.length : Int) < off + n) := by omega
  have h2 : ¬ (n < 0 ∨ off < 0) := by omega
  simp only [h1, h2, if_false]
  have : off.toNat = pre.length := by omega
  have hn' : n.toNat = xs.length := by omega
  rw [this, hn', hb, List.drop_left, List.take_left]

theorem nextByte_at (bs : Bytes) (off : Int) (x : Nat) (r : Bytes) (h : It.At ⟨bs, off⟩ (x :: r)) :
    It.nextByte ⟨bs, off⟩ = .ok (x, ⟨bs, off + 1⟩) := by
  obtain ⟨pre, hb, ho⟩ := h
  simp only at hb ho
  unfold It.nextByte
  have hlen : (bs.length : Int) = pre.length + 1 + r.length := by
    rw [hb]; simp only [List.length_append, List.length_cons]; omega
  have h1 : ¬ ((bs.length : Int) < off + 1) := by omega
  have h2 : ¬ (off < 0) := by omega
  simp only [h1, h2, if_false]
  have : off.toNat = pre.length := by omega
  rw [this, hb]
  simp

theorem It.At.advance1 {bs : Bytes} {off : Int} {x : Nat} {r : Bytes} (h : It.At ⟨bs, off⟩ (x :: r)) :
    It.At ⟨bs, off + 1⟩ r :=
  It.At.advance (xs := [x]) (by simpa using h) 1 (by simp)

/-- running a bind whose first action succeeds -/
theorem P.bind_of_ok {α β} {x : P α} {f : α → P β} {i : It} {a : α} {i' : It} (h : x i = .ok (a, i')) :
    (x >>= f) i = f a i' := by
  simp only [P.bind_run, h]

theorem P.map_of_ok {α β} {x : P α} {f : α → β} {i : It} {a : α} {i' : It} (h : x i = .ok (a, i')) :
    (f <$> x) i = .ok (f a, i') := by
  show (x >>= fun a => pure (f a)) i = _
  rw [P.bind_of_ok h]; rfl

/-! ### the syntax header -/


theorem list5 (l : Bytes) (h : l.length = 5) : l = [l.getD 0 0, l.getD 1 0, l.getD 2 0, l.getD 3 0, l.getD 4 0] := by
  match l, h with
  | [a, b, c, d, e], _ => rfl

structure SyntaxHeaderOk (h : PSISectionSyntaxHeader) : Prop where
  ext : h.tableIDExtension < 65536
  version : h.versionNumber < 32
  sn : h.sectionNumber < 256
  lsn : h.lastSectionNumber < 256

theorem syntax_header_bytes (h : PSISectionSyntaxHeader) (ok : SyntaxHeaderOk h) :
    let bs := syntaxHeaderBytes h
    bs.length = 5 ∧ u16 bs = h.tableIDExtension ∧ bs.getD 2 0 % 64 / 2 = h.versionNumber ∧
    decide (bs.getD 2 0 % 2 = 1) = h.currentNextIndicator ∧ bs.getD 3 0 = h.sectionNumber ∧ bs.getD 4 0 = h.lastSectionNumber := by
  obtain ⟨h1, h2, h3, h4⟩ := ok
  obtain ⟨cni, lsn, sn, ext, v⟩ := h
  simp only at h1 h2 h3 h4
  simp only [syntaxHeaderBytes, packFields, fieldsWidth, fieldsValue, beBytes, u16, List.getD_cons_zero, List.getD_cons_succ,
    List.length_cons, List.length_nil]
  simp only [Nat.reducePow, Nat.pow_zero, Nat.div_one, Nat.pow_one]
  have hb := b2n_le cni
  refine ⟨trivial, ?_, ?_, ?_, ?_, ?_⟩
  · omega
  · omega
  · have : (((((((0 * 65536 + ext % 65536) * 4 + 3 % 4) * 32 + v % 32) * 2 + b2n cni % 2) * 256 + sn % 256) * 256 + lsn % 256) / 65536 % 256 % 2) = b2n cni := by omega
    rw [this]; exact decide_b2n cni
  · omega
  · omega

theorem syntaxHeader_at (bs : Bytes) (off : Int) (sh : PSISectionSyntaxHeader) (r : Bytes) (ok : SyntaxHeaderOk sh)
    (hat : It.At ⟨bs, off⟩ (syntaxHeaderBytes sh ++ r)) :
    parsePSISectionSyntaxHeader ⟨bs, off⟩ = .ok (sh, ⟨bs, off + 5⟩) := by
  obtain ⟨hl, e1, e2, e3, e4, e5⟩ := syntax_header_bytes sh ok
  generalize syntaxHeaderBytes sh = l at *
  rw [list5 l hl] at hat
  unfold parsePSISectionSyntaxHeader
  have h1 := nextBytes_at bs off [l.getD 0 0, l.getD 1 0] ([l.getD 2 0, l.getD 3 0, l.getD 4 0] ++ r) 2 (by simp) (by simpa using hat)
  have a1 := It.At.advance (xs := [l.getD 0 0, l.getD 1 0]) (r := [l.getD 2 0, l.getD 3 0, l.getD 4 0] ++ r) (by simpa using hat) 2 (by simp)
  rw [P.bind_of_ok h1]
  have h2 := nextByte_at _ _ _ _ a1
  have a2 := It.At.advance1 a1
  rw [P.bind_of_ok h2]
  have h3 := nextByte_at _ _ _ _ a2
  have a3 := It.At.advance1 a2
  rw [P.bind_of_ok h3]
  have h4 := nextByte_at _ _ _ _ a3
  rw [P.bind_of_ok h4]
  simp only [P.pure_run]
  have eu : u16 [l.getD 0 0, l.getD 1 0] = u16 l := by simp [u16]
  rw [eu, e1, e2, e4, e5]
  rw [e3]
  have eo : off + 2 + 1 + 1 + 1 = off + 5 := by omega
  rw [eo]

/-! ### one written section, generically -/


theorem beNat_be32 (c : BitVec 32) : beNat (be32 c) = c.toNat := by
  unfold be32
  rw [beNat_beBytes]
  have := c.isLt
  simp only [Nat.reducePow] at *
  omega

theorem be32_length (c : BitVec 32) : (be32 c).length = 4 := by
  unfold be32; exact beBytes_length _ _

theorem seek_run (n : Int) (i : It) : It.seek n i = .ok ((), { i with off := n }) := rfl
theorem offset_run (i : It) : It.offset i = .ok (i.off, i) := rfl

theorem optP_true_of_ok {α} {p : P α} {i i' : It} {a : α} (h : p i = .ok (a, i')) : optP true p i = .ok (some a, i') := by
  simp only [optP, if_true]
  rw [P.bind_of_ok h]; rfl
theorem optP_false {α} (p : P α) (i : It) : optP false p i = .ok (none, i) := rfl

/-- the header the parser builds from the three leading bytes -/
def parsedSectionHeader (t x y : Nat) : PSISectionHeader :=
  { privateBit := x / 64 % 2 = 1, sectionLength := (x % 16) * 256 + y, sectionSyntaxIndicator := x / 128 % 2 = 1, tableID := t, tableType := tableType t }

def parsedSection (crc : Nat) (h : PSISectionHeader) (sh : PSISectionSyntaxHeader) (d : PSISectionSyntaxData) : PSISection :=
  { crc32 := crc, header := some h, syn := some { data := some d, header := some sh } }

theorem parsePSISection_written (bs : Bytes) (off : Int) (t x y : Nat) (sh : PSISectionSyntaxHeader) (shb body post : Bytes)
    (d : PSISectionSyntaxData) (j : It)
    (hat : It.At ⟨bs, off⟩ (([t, x, y] ++ shb ++ body) ++ be32 (computeCRC32 ([t, x, y] ++ shb ++ body)) ++ post))
    (hstop : shouldStopPSIParsing t = false) (hcrc : hasCRC32 t = true) (hsyn : hasPSISyntaxHeader t = true)
    (hshl : shb.length = 5)
    (hsl : (x % 16) * 256 + y = 5 + body.length + 4)
    (hsh : parsePSISectionSyntaxHeader ⟨bs, off + 3⟩ = .ok (sh, ⟨bs, off + 8⟩))
    (hdata : parsePSISectionSyntaxData t (some sh) (off + 3 + ((x % 16) * 256 + y : Nat) - 4) ⟨bs, off + 8⟩ = .ok (d, j))
    (hj : j.bs = bs) :
    parsePSISection ⟨bs, off⟩ = .ok ((parsedSection (computeCRC32 ([t, x, y] ++ shb ++ body)).toNat (parsedSectionHeader t x y) sh d, false),
       ⟨bs, off + 3 + ((x % 16) * 256 + y : Nat)⟩) := by
  unfold parsePSISection
  rw [P.bind_of_ok (offset_run _)]
  have h1 := nextByte_at bs off t _ (by simpa using hat)
  rw [P.bind_of_ok h1]
  simp only [hstop, Bool.false_eq_true, if_false]
  have a1 : It.At ⟨bs, off + 1⟩ ([x, y] ++ (shb ++ body ++ be32 (computeCRC32 ([t, x, y] ++ shb ++ body)) ++ post)) := by
    have := It.At.advance (xs := [t]) (r := [x, y] ++ (shb ++ body ++ be32 (computeCRC32 ([t, x, y] ++ shb ++ body)) ++ post))
      (by simpa using hat) 1 (by simp)
    exact this
  have h2 := nextBytes_at bs (off + 1) [x, y] _ 2 (by simp) a1
  rw [P.bind_of_ok h2, P.bind_of_ok (offset_run _)]
  simp only [List.getD_cons_zero, List.getD_cons_succ, hcrc, hsyn, if_true]
  have hpos : x % 16 * 256 + y > 0 := by omega
  simp only [hpos, if_true]
  have e12 : off + 1 + 2 = off + 3 := by omega
  simp only [e12]
  rw [P.bind_of_ok (optP_true_of_ok hsh), P.bind_of_ok hdata, P.bind_of_ok (seek_run _ _)]
  have a2 : It.At ⟨bs, off + 3 + ↑(x % 16 * 256 + y) - 4⟩ (be32 (computeCRC32 ([t, x, y] ++ shb ++ body)) ++ post) := by
    have := It.At.advance (xs := [t, x, y] ++ shb ++ body) (by simpa using hat) (3 + ↑(x % 16 * 256 + y) - 4)
      (by simp [hshl, hsl]; omega)
    have e : off + (3 + ((x % 16 * 256 + y : Nat) : Int) - 4) = off + 3 + ↑(x % 16 * 256 + y) - 4 := by omega
    rw [e] at this
    exact this
  have h3 := nextBytes_at bs _ _ _ 4 (by simp [be32_length]) a2
  simp only [hj]
  rw [P.bind_of_ok h3, P.bind_of_ok (seek_run _ _)]
  have h4 := nextBytes_at bs off ([t, x, y] ++ shb ++ body) (be32 (computeCRC32 ([t, x, y] ++ shb ++ body)) ++ post) (off + 3 + ↑(x % 16 * 256 + y) - 4 - off)
    (by simp [hshl, hsl]; omega) (by simpa using hat)
  show (It.nextBytes _ >>= _) (⟨bs, off⟩ : It) = _
  rw [P.bind_of_ok h4]
  simp only [beNat_be32, ne_eq, not_true, if_false]
  rw [P.bind_of_ok (seek_run _ _)]
  rfl

/-! ### `loopUntil` over a list of encoded elements -/


theorem loopUntil_reads {α} (body : P α) (enc : α → Bytes) (ok : α → Prop)
    (hbody : ∀ a, ok a → ∀ (bs : Bytes) (off : Int) (r : Bytes), It.At ⟨bs, off⟩ (enc a ++ r) →
      body ⟨bs, off⟩ = .ok (a, ⟨bs, off + ((enc a).length : Nat)⟩))
    (hpos : ∀ a, ok a → 0 < (enc a).length) :
    ∀ (as : List α) (fuel : Nat) (bs : Bytes) (off endOff : Int) (r : Bytes), (∀ a ∈ as, ok a) → as.length < fuel →
      It.At ⟨bs, off⟩ ((as.map enc).flatten ++ r) → endOff = off + (((as.map enc).flatten.length : Nat) : Int) →
      loopUntil fuel endOff body ⟨bs, off⟩ = .ok (as, ⟨bs, endOff⟩) := by
  intro as
  induction as with
  | nil =>
    intro fuel bs off endOff r _ hf _ hend
    cases fuel with
    | zero => omega
    | succ f =>
      unfold loopUntil
      rw [P.bind_of_ok (offset_run _)]
      simp only [List.map_nil, List.flatten_nil, List.length_nil] at hend
      have : ¬ (off < endOff) := by omega
      simp only [this, if_false, P.pure_run]
      have : endOff = off := by omega
      rw [this]
  | cons a as ih =>
    intro fuel bs off endOff r hok hf hat hend
    cases fuel with
    | zero => omega
    | succ f =>
      have hoka := hok a (by simp)
      have hp := hpos a hoka
      simp only [List.map_cons, List.flatten_cons, List.length_append] at hend hat
      unfold loopUntil
      rw [P.bind_of_ok (offset_run _)]
      have : off < endOff := by omega
      simp only [this, if_true]
      have hat' : It.At ⟨bs, off⟩ (enc a ++ ((as.map enc).flatten ++ r)) := by simpa using hat
      rw [P.bind_of_ok (hbody a hoka bs off _ hat')]
      have hat2 := It.At.advance hat' ((enc a).length : Nat) rfl
      have := ih f bs (off + ((enc a).length : Nat)) endOff r (fun x hx => hok x (by simp [hx])) (by simp at hf; omega) hat2
        (by rw [hend]; omega)
      rw [P.bind_of_ok this]
      rfl

theorem length_le_flatten {α} (enc : α → Bytes) (as : List α) (hpos : ∀ a ∈ as, 0 < (enc a).length) :
    as.length ≤ (as.map enc).flatten.length := by
  induction as with
  | nil => simp
  | cons a as ih =>
    have := hpos a (by simp)
    have := ih (fun x hx => hpos x (by simp [hx]))
    simp only [List.map_cons, List.flatten_cons, List.length_append, List.length_cons]
    omega

/-! ### PAT body -/


def PATProgramOk (p : PATProgram) : Prop := p.programNumber < 65536 ∧ p.programMapID < 8192

instance (p : PATProgram) : Decidable (PATProgramOk p) := by unfold PATProgramOk; infer_instance

def patEntryBytes (p : PATProgram) : Bytes := packFields [(p.programNumber, 16), (7, 3), (p.programMapID, 13)]

theorem patEntryBytes_length (p : PATProgram) : (patEntryBytes p).length = 4 := by
  simp [patEntryBytes, packFields, fieldsWidth, beBytes]

def patEntryParser : P PATProgram := do
  let bs ← It.nextBytes 4
  pure ({ programMapID := (bs.getD 2 0 % 32) * 256 + bs.getD 3 0, programNumber := u16 bs } : PATProgram)

theorem pat_entry_bytes (pn pid : Nat) (h1 : pn < 65536) (h2 : pid < 8192) :
    let bs := packFields [(pn, 16), (7, 3), (pid, 13)]
    u16 bs = pn ∧ (bs.getD 2 0 % 32) * 256 + bs.getD 3 0 = pid := by
  simp only [packFields, fieldsWidth, fieldsValue, beBytes, u16, List.getD_cons_zero, List.getD_cons_succ]
  simp only [Nat.reducePow, Nat.pow_zero, Nat.div_one, Nat.pow_one]
  refine ⟨?_, ?_⟩ <;> omega

theorem patEntry_at (p : PATProgram) (ok : PATProgramOk p) (bs : Bytes) (off : Int) (r : Bytes)
    (hat : It.At ⟨bs, off⟩ (patEntryBytes p ++ r)) :
    patEntryParser ⟨bs, off⟩ = .ok (p, ⟨bs, off + ((patEntryBytes p).length : Nat)⟩) := by
  unfold patEntryParser
  have hl := patEntryBytes_length p
  rw [P.bind_of_ok (nextBytes_at bs off _ _ 4 (by simp [hl]) hat)]
  obtain ⟨e1, e2⟩ := pat_entry_bytes p.programNumber p.programMapID ok.1 ok.2
  simp only [P.pure_run, hl]
  unfold patEntryBytes
  rw [e1, e2]
  rfl

theorem patSectionBytes_eq (d : PATData) : patSectionBytes d = (d.programs.map patEntryBytes).flatten := rfl

theorem patSectionBytes_length (d : PATData) : (patSectionBytes d).length = 4 * d.programs.length := by
  rw [patSectionBytes_eq]
  induction d.programs with
  | nil => rfl
  | cons p r ih => simp only [List.map_cons, List.flatten_cons, List.length_append, ih, List.length_cons, patEntryBytes_length]; omega

theorem parsePATSection_at (d : PATData) (ext : Nat) (hok : ∀ p ∈ d.programs, PATProgramOk p) (bs : Bytes) (off endOff : Int) (r : Bytes)
    (hat : It.At ⟨bs, off⟩ (patSectionBytes d ++ r)) (hend : endOff = off + (((patSectionBytes d).length : Nat) : Int)) :
    parsePATSection endOff ext ⟨bs, off⟩ = .ok ({ programs := d.programs, transportStreamID := ext }, ⟨bs, endOff⟩) := by
  unfold parsePATSection
  have hf : fuelOf ⟨bs, off⟩ = .ok (bs.length + 1, ⟨bs, off⟩) := rfl
  rw [P.bind_of_ok hf]
  have hlen := It.At.len hat
  simp only [List.length_append] at hlen
  have hle := length_le_flatten patEntryBytes d.programs (fun p _ => by rw [patEntryBytes_length]; omega)
  rw [← patSectionBytes_eq] at hle
  have hoff := It.At.off_nonneg hat
  simp only at hoff
  have := loopUntil_reads patEntryParser patEntryBytes PATProgramOk patEntry_at
    (fun p _ => by rw [patEntryBytes_length]; omega) d.programs (bs.length + 1) bs off endOff r hok (by omega)
    (by rw [← patSectionBytes_eq]; exact hat) (by rw [← patSectionBytes_eq]; exact hend)
  show (loopUntil _ _ patEntryParser >>= _) _ = _
  rw [P.bind_of_ok this]
  rfl

/-! ### dispatch and section head -/


theorem syntaxData_pat (sh : PSISectionSyntaxHeader) (endOff : Int) (i j : It) (x : PATData)
    (h : parsePATSection endOff sh.tableIDExtension i = .ok (x, j)) :
    parsePSISectionSyntaxData 0 (some sh) endOff i = .ok ({ pat := some x }, j) := by
  unfold parsePSISectionSyntaxData
  simp [isEIT]
  rw [P.bind_of_ok (a := ({ pat := some x } : PSISectionSyntaxData)) (i' := j) (by rw [P.bind_of_ok h]; rfl)]
  rfl

theorem syntaxData_pmt (sh : PSISectionSyntaxHeader) (endOff : Int) (i j : It) (x : PMTData)
    (h : parsePMTSection endOff sh.tableIDExtension i = .ok (x, j)) :
    parsePSISectionSyntaxData 2 (some sh) endOff i = .ok ({ pmt := some x }, j) := by
  unfold parsePSISectionSyntaxData
  simp [isEIT]
  rw [P.bind_of_ok (a := ({ pmt := some x } : PSISectionSyntaxData)) (i' := j) (by rw [P.bind_of_ok h]; rfl)]
  rfl

/-- the three leading bytes of a written section -/
theorem section_head_bytes (t ssi pb len : Nat) (ht : t < 256) (h1 : ssi ≤ 1) (h2 : pb ≤ 1) (hl : len < 4096) :
    ∃ x y, packFields [(t, 8), (ssi, 1), (pb, 1), (3, 2), (len, 12)] = [t, x, y] ∧ (x % 16) * 256 + y = len ∧
      x / 64 % 2 = pb ∧ x / 128 % 2 = ssi := by
  refine ⟨(((((0 * 256 + t % 256) * 2 + ssi % 2) * 2 + pb % 2) * 4 + 3 % 4) * 4096 + len % 4096) / 256 % 256,
    (((((0 * 256 + t % 256) * 2 + ssi % 2) * 2 + pb % 2) * 4 + 3 % 4) * 4096 + len % 4096) % 256, ?_, ?_, ?_, ?_⟩
  · simp only [packFields, fieldsWidth, fieldsValue, beBytes]
    simp only [Nat.reducePow, Nat.pow_zero, Nat.div_one, Nat.pow_one]
    congr 1
    omega
  · omega
  · omega
  · omega

/-! ### PAT sections -/


/-- `s` is a section the writer accepts, and `s'` is what the parser returns for the written bytes wherever they
stand in a slice (the iterator ends right after them, and the loop of `parsePSIData` goes on) -/
def SectionRT (s s' : PSISection) : Prop :=
  ∃ sec, writePSISection s = .ok sec ∧ 0 < sec.length ∧
    ∀ (bs : Bytes) (off : Int) (post : Bytes), It.At ⟨bs, off⟩ (sec ++ post) →
      parsePSISection ⟨bs, off⟩ = .ok ((s', false), ⟨bs, off + ((sec.length : Nat) : Int)⟩)

def mkPATSection (crc : Nat) (h : PSISectionHeader) (sh : PSISectionSyntaxHeader) (d : PATData) : PSISection :=
  { crc32 := crc, header := some h, syn := some { data := some { pat := some d }, header := some sh } }

structure PATOk (d : PATData) : Prop where
  programs : ∀ p ∈ d.programs, PATProgramOk p
  fits : 9 + 4 * d.programs.length < 4096

/-- the bytes of a written section before its CRC_32 -/
def sectionPre (s : PSISection) : Bytes :=
  match writePSISection s with
  | .ok sec => sec.take (sec.length - 4)
  | _ => []

theorem calcPAT (d : PATData) (ok : PATOk d) : calcPSISectionLength 0 { pat := some d } = 9 + 4 * d.programs.length := by
  have := ok.fits
  simp [calcPSISectionLength, hasPSISyntaxHeader, hasCRC32, calcPATSectionLength]
  omega

theorem writePAT (crc : Nat) (h : PSISectionHeader) (sh : PSISectionSyntaxHeader) (d : PATData)
    (ht : h.tableID = 0) (hsl : h.sectionLength > 0) :
    writePSISection (mkPATSection crc h sh d) =
      .ok ((packFields [(0, 8), (b2n h.sectionSyntaxIndicator, 1), (b2n h.privateBit, 1), (3, 2), (calcPSISectionLength 0 { pat := some d }, 12)]
            ++ (syntaxHeaderBytes sh ++ patSectionBytes d))
           ++ be32 (computeCRC32 (packFields [(0, 8), (b2n h.sectionSyntaxIndicator, 1), (b2n h.privateBit, 1), (3, 2), (calcPSISectionLength 0 { pat := some d }, 12)]
            ++ (syntaxHeaderBytes sh ++ patSectionBytes d)))) := by
  unfold writePSISection mkPATSection
  simp [ht, hsl]
theorem take_pre_crc (pre : Bytes) (c : BitVec 32) : (pre ++ be32 c).take ((pre ++ be32 c).length - 4) = pre := by
  have : (pre ++ be32 c).length - 4 = pre.length := by simp [be32_length]
  rw [this, List.take_left]

theorem parsedHeader_eq (h : PSISectionHeader) (t x y len : Nat) (ht : h.tableID = t) (e1 : (x % 16) * 256 + y = len)
    (e2 : x / 64 % 2 = b2n h.privateBit) (e3 : x / 128 % 2 = b2n h.sectionSyntaxIndicator) :
    parsedSectionHeader t x y = { h with sectionLength := len, tableType := tableType t } := by
  obtain ⟨pb, sl, ssi, tid, tt⟩ := h
  simp only at ht e2 e3
  simp only [parsedSectionHeader, e1, e2, e3, decide_b2n, ht]

theorem pat_section_rt (crc : Nat) (h : PSISectionHeader) (sh : PSISectionSyntaxHeader) (d : PATData)
    (ht : h.tableID = 0) (hsl : h.sectionLength > 0) (hsh : SyntaxHeaderOk sh) (hd : PATOk d) :
    SectionRT (mkPATSection crc h sh d)
      (parsedSection (computeCRC32 (sectionPre (mkPATSection crc h sh d))).toNat
        { h with sectionLength := 9 + 4 * d.programs.length, tableType := "PAT" } sh
        { pat := some { programs := d.programs, transportStreamID := sh.tableIDExtension } }) := by
  have hw := writePAT crc h sh d ht hsl
  rw [calcPAT d hd] at hw
  obtain ⟨x, y, hhead, e1, e2, e3⟩ := section_head_bytes 0 (b2n h.sectionSyntaxIndicator) (b2n h.privateBit)
    (9 + 4 * d.programs.length) (by omega) (b2n_le _) (b2n_le _) hd.fits
  rw [hhead] at hw
  have hshl := (syntax_header_bytes sh hsh).1
  have hbl := patSectionBytes_length d
  refine ⟨_, hw, by simp, ?_⟩
  intro bs off post hat
  have hpre : sectionPre (mkPATSection crc h sh d) = [0, x, y] ++ syntaxHeaderBytes sh ++ patSectionBytes d := by
    unfold sectionPre
    rw [hw]
    simp only
    rw [take_pre_crc]; simp
  rw [hpre]
  have hat' : It.At ⟨bs, off⟩ (([0, x, y] ++ syntaxHeaderBytes sh ++ patSectionBytes d)
      ++ be32 (computeCRC32 ([0, x, y] ++ syntaxHeaderBytes sh ++ patSectionBytes d)) ++ post) := by
    simpa using hat
  have a3 : It.At ⟨bs, off + 3⟩ (syntaxHeaderBytes sh ++ (patSectionBytes d ++ (be32 (computeCRC32 ([0, x, y] ++ syntaxHeaderBytes sh ++ patSectionBytes d)) ++ post))) :=
    It.At.advance (xs := [0, x, y]) (by simpa using hat') 3 (by simp)
  have hh := syntaxHeader_at bs (off + 3) sh _ hsh a3
  have e38 : off + 3 + 5 = off + 8 := by omega
  rw [e38] at hh
  have a8 := It.At.advance a3 5 (by simp [hshl])
  rw [e38] at a8
  have hp := parsePATSection_at d sh.tableIDExtension hd.programs bs (off + 8) (off + 3 + ((x % 16 * 256 + y : Nat) : Int) - 4) _ a8
    (by rw [e1, hbl]; omega)
  have hd' := syntaxData_pat sh _ _ _ _ hp
  have := parsePSISection_written bs off 0 x y sh (syntaxHeaderBytes sh) (patSectionBytes d) post _ _ hat' (by decide) (by decide) (by decide)
    hshl (by rw [e1, hbl]; omega) hh hd' rfl
  rw [this, parsedHeader_eq h 0 x y _ ht e1 e2 e3]
  have et : tableType 0 = "PAT" := by decide
  rw [et]
  congr 3
  simp [be32_length, hshl, hbl]
  omega

/-! ### the section loop and `parsePSIData` -/


theorem hasBytesLeft_run (i : It) : It.hasBytesLeft i = .ok (decide (i.off < i.bs.length), i) := rfl

/-- section by section: written and parsed back -/
inductive SectionsRT : List PSISection → List PSISection → Prop
  | nil : SectionsRT [] []
  | cons {s s' : PSISection} {r r' : List PSISection} : SectionRT s s' → SectionsRT r r' → SectionsRT (s :: r) (s' :: r')

theorem parsePSISections_rt (ss ss' : List PSISection) (h : SectionsRT ss ss') :
    ∃ body, writePSISections ss = .ok body ∧ ss.length ≤ body.length ∧
      ∀ (fuel : Nat) (bs : Bytes) (off : Int), ss.length < fuel → It.At ⟨bs, off⟩ body →
        parsePSISections fuel ⟨bs, off⟩ = .ok (ss', ⟨bs, off + ((body.length : Nat) : Int)⟩) := by
  induction h with
  | nil =>
    refine ⟨[], rfl, by simp, ?_⟩
    intro fuel bs off hf hat
    cases fuel with
    | zero => simp at hf
    | succ f =>
      unfold parsePSISections
      rw [P.bind_of_ok (hasBytesLeft_run _)]
      have := It.At.len hat
      simp only [List.length_nil] at this
      have hn : ¬ (off < (bs.length : Int)) := by omega
      simp only [hn, decide_false, Bool.false_eq_true, if_false, P.pure_run, List.length_nil]
      congr 2
      simp
  | @cons s s' r r' hs _ ih =>
    obtain ⟨sec, hw, hpos, hp⟩ := hs
    obtain ⟨body, hwb, hlen, hpb⟩ := ih
    refine ⟨sec ++ body, ?_, ?_, ?_⟩
    · simp [writePSISections, hw, hwb]
    · simp only [List.length_cons, List.length_append]; omega
    · intro fuel bs off hf hat
      cases fuel with
      | zero => simp at hf
      | succ f =>
        unfold parsePSISections
        rw [P.bind_of_ok (hasBytesLeft_run _)]
        have := It.At.len hat
        simp only [List.length_append] at this
        have hn : off < (bs.length : Int) := by omega
        simp only [hn, decide_true, if_true]
        rw [P.bind_of_ok (hp bs off body hat)]
        simp only [Bool.false_eq_true, if_false]
        have hat2 := It.At.advance hat (sec.length : Nat) rfl
        rw [P.bind_of_ok (hpb f bs _ (by simp at hf; omega) hat2)]
        simp only [P.pure_run, List.length_append]
        congr 2
        simp only [It.mk.injEq, true_and]
        omega

theorem psi_data_rt (pf : Nat) (hpf : pf < 256) (ss ss' : List PSISection) (h : SectionsRT ss ss') :
    ∃ bs, writePSIData { pointerField := (pf : Int), sections := ss } = .ok bs ∧
      parsePSIData ⟨bs, 0⟩ = .ok ({ pointerField := (pf : Int), sections := ss' }, ⟨bs, (bs.length : Int)⟩) := by
  obtain ⟨body, hwb, hlen, hpb⟩ := parsePSISections_rt ss ss' h
  refine ⟨[pf] ++ List.replicate pf 0 ++ body, ?_, ?_⟩
  · unfold writePSIData
    simp only [hwb, Res.bind_ok, Res.pure_eq]
    have : ((pf : Int) % 256).toNat = pf := by omega
    simp [this]
  · unfold parsePSIData
    have a0 : It.At ⟨[pf] ++ List.replicate pf 0 ++ body, 0⟩ (pf :: (List.replicate pf 0 ++ body)) := ⟨[], by simp, rfl⟩
    rw [P.bind_of_ok (nextByte_at _ _ _ _ a0)]
    have hs : It.skip (pf : Int) ⟨[pf] ++ List.replicate pf 0 ++ body, 0 + 1⟩ = .ok ((), ⟨[pf] ++ List.replicate pf 0 ++ body, 0 + 1 + (pf : Int)⟩) := rfl
    rw [P.bind_of_ok hs]
    have hf : fuelOf ⟨[pf] ++ List.replicate pf 0 ++ body, 0 + 1 + (pf : Int)⟩ = .ok (([pf] ++ List.replicate pf 0 ++ body).length + 1, ⟨[pf] ++ List.replicate pf 0 ++ body, 0 + 1 + (pf : Int)⟩) := rfl
    rw [P.bind_of_ok hf]
    have a1 : It.At ⟨[pf] ++ List.replicate pf 0 ++ body, 0 + 1 + (pf : Int)⟩ body :=
      ⟨[pf] ++ List.replicate pf 0, rfl, by simp; omega⟩
    rw [P.bind_of_ok (hpb _ _ _ (by simp; omega) a1)]
    simp only [P.pure_run]
    congr 2
    simp only [It.mk.injEq, true_and, List.length_append, List.length_cons, List.length_nil, List.length_replicate]
    omega



/-! ### descriptor loops, given a round trip for each descriptor -/

/-- round-trip hypothesis for one descriptor: wherever its written bytes stand, `parseDescriptor` returns it and
stops right after them -/
def DescRT (d : Descriptor) : Prop :=
  ∀ (bs : Bytes) (off : Int) (r : Bytes), It.At ⟨bs, off⟩ (writeDescriptor d ++ r) →
    parseDescriptor ⟨bs, off⟩ = .ok (d, ⟨bs, off + (((writeDescriptor d).length : Nat) : Int)⟩)

structure DescOk (d : Descriptor) : Prop where
  rt : DescRT d
  /-- the bytes written are what the length calculator announces (C14 `length_matches`) -/
  len : (writeDescriptor d).length = 2 + calcDescriptorLength d

theorem parseDescriptorsLoop_eq (e : Int) (f : Nat) : parseDescriptorsLoop e f = loopUntil f e parseDescriptor := by
  induction f with
  | zero => rfl
  | succ f ih =>
    unfold parseDescriptorsLoop loopUntil
    rw [ih]

theorem writeDescriptors_eq (ds : List Descriptor) : writeDescriptors ds = (ds.map writeDescriptor).flatten := by
  induction ds with
  | nil => rfl
  | cons d r ih => simp [writeDescriptors, ih]

theorem writeDescriptors_length (ds : List Descriptor) (h : ∀ d ∈ ds, DescOk d) :
    (writeDescriptors ds).length = descriptorsSize ds := by
  induction ds with
  | nil => rfl
  | cons d r ih =>
    simp only [writeDescriptors, List.length_append, descriptorsSize, (h d (by simp)).len,
      ih (fun x hx => h x (by simp [hx]))]

theorem descs_head_bytes (len : Nat) (hl : len < 4096) :
    ∃ x y, packFields [(0xff, 4), (len, 12)] = [x, y] ∧ (x % 16) * 256 + y = len := by
  refine ⟨((0 * 16 + 0xff % 16) * 4096 + len % 4096) / 256 % 256, ((0 * 16 + 0xff % 16) * 4096 + len % 4096) % 256, ?_, ?_⟩
  · simp only [packFields, fieldsWidth, fieldsValue, beBytes]
    simp only [Nat.reducePow, Nat.pow_zero, Nat.div_one, Nat.pow_one]
  · omega

theorem writeDescriptorsWithLength_length (ds : List Descriptor) (h : ∀ d ∈ ds, DescOk d) :
    (writeDescriptorsWithLength ds).length = 2 + descriptorsSize ds := by
  unfold writeDescriptorsWithLength
  rw [List.length_append, writeDescriptors_length ds h]
  simp [packFields, fieldsWidth, beBytes]

theorem parseDescriptors_at (ds : List Descriptor) (h : ∀ d ∈ ds, DescOk d) (hfit : descriptorsSize ds < 4096)
    (bs : Bytes) (off : Int) (r : Bytes) (hat : It.At ⟨bs, off⟩ (writeDescriptorsWithLength ds ++ r)) :
    parseDescriptors ⟨bs, off⟩ = .ok (ds, ⟨bs, off + (((writeDescriptorsWithLength ds).length : Nat) : Int)⟩) := by
  rw [writeDescriptorsWithLength_length ds h]
  unfold writeDescriptorsWithLength at hat
  unfold calcDescriptorsLength at hat
  rw [Nat.mod_eq_of_lt (by omega)] at hat
  obtain ⟨x, y, hxy, e⟩ := descs_head_bytes (descriptorsSize ds) hfit
  rw [hxy] at hat
  have hat' : It.At ⟨bs, off⟩ ([x, y] ++ (writeDescriptors ds ++ r)) := by simpa using hat
  unfold parseDescriptors
  rw [P.bind_of_ok (nextBytes_at bs off _ _ 2 (by simp) hat')]
  have a2 := It.At.advance hat' 2 (by simp)
  simp only [List.getD_cons_zero, List.getD_cons_succ, e]
  by_cases hz : descriptorsSize ds > 0
  · simp only [hz, if_true]
    rw [P.bind_of_ok (offset_run _)]
    have hf : loopFuel ⟨bs, off + 2⟩ = .ok (bs.length + 1, ⟨bs, off + 2⟩) := rfl
    rw [P.bind_of_ok hf, parseDescriptorsLoop_eq]
    have hlen := It.At.len a2
    simp only [List.length_append] at hlen
    have hoff := It.At.off_nonneg a2
    simp only at hoff
    have hwl := writeDescriptors_length ds h
    have hle := length_le_flatten writeDescriptor ds (fun d hd => by rw [(h d hd).len]; omega)
    rw [← writeDescriptors_eq] at hle
    have := loopUntil_reads parseDescriptor writeDescriptor DescOk (fun d ok => ok.rt)
      (fun d ok => by rw [ok.len]; omega) ds (bs.length + 1) bs (off + 2) (off + 2 + ((descriptorsSize ds : Nat) : Int)) r h (by omega)
      (by rw [← writeDescriptors_eq]; exact a2) (by rw [← writeDescriptors_eq, hwl])
    rw [this]
    congr 2
    simp only [It.mk.injEq, true_and]
    omega
  · have hz0 : descriptorsSize ds = 0 := by omega
    have hnil : ds = [] := by
      cases ds with
      | nil => rfl
      | cons d r => simp [descriptorsSize] at hz0
    subst hnil
    simp [descriptorsSize]



/-! ### PMT body -/

structure PMTStreamOk (es : PMTElementaryStream) : Prop where
  streamType : es.streamType < 256
  pid : es.elementaryPID < 8192
  descs : ∀ d ∈ es.elementaryStreamDescriptors, DescOk d
  fits : descriptorsSize es.elementaryStreamDescriptors < 4096

def pmtEntryBytes (es : PMTElementaryStream) : Bytes :=
  packFields [(es.streamType, 8), (7, 3), (es.elementaryPID, 13)] ++ writeDescriptorsWithLength es.elementaryStreamDescriptors

def pmtEntryParser : P PMTElementaryStream := do
  let st ← It.nextByte
  let bs ← It.nextBytes 2
  let ds ← parseDescriptors
  pure ({ elementaryPID := u13 bs, elementaryStreamDescriptors := ds, streamType := st } : PMTElementaryStream)

theorem pmt_entry_head (st pid : Nat) (h1 : st < 256) (h2 : pid < 8192) :
    ∃ x y, packFields [(st, 8), (7, 3), (pid, 13)] = [st, x, y] ∧ u13 [x, y] = pid := by
  refine ⟨(((0 * 256 + st % 256) * 8 + 7 % 8) * 8192 + pid % 8192) / 256 % 256,
    (((0 * 256 + st % 256) * 8 + 7 % 8) * 8192 + pid % 8192) % 256, ?_, ?_⟩
  · simp only [packFields, fieldsWidth, fieldsValue, beBytes]
    simp only [Nat.reducePow, Nat.pow_zero, Nat.div_one, Nat.pow_one]
    congr 1
    omega
  · simp only [u13, List.getD_cons_zero, List.getD_cons_succ]
    omega

theorem pcr_pid_head (pid : Nat) (h2 : pid < 8192) :
    ∃ x y, packFields [(7, 3), (pid, 13)] = [x, y] ∧ u13 [x, y] = pid := by
  refine ⟨((0 * 8 + 7 % 8) * 8192 + pid % 8192) / 256 % 256, ((0 * 8 + 7 % 8) * 8192 + pid % 8192) % 256, ?_, ?_⟩
  · simp only [packFields, fieldsWidth, fieldsValue, beBytes]
    simp only [Nat.reducePow, Nat.pow_zero, Nat.div_one, Nat.pow_one]
  · simp only [u13, List.getD_cons_zero, List.getD_cons_succ]
    omega

theorem pmtEntryBytes_length (es : PMTElementaryStream) (ok : PMTStreamOk es) :
    (pmtEntryBytes es).length = 5 + descriptorsSize es.elementaryStreamDescriptors := by
  unfold pmtEntryBytes
  rw [List.length_append, writeDescriptorsWithLength_length _ ok.descs]
  simp [packFields, fieldsWidth, beBytes]
  omega

theorem pmtEntry_at (es : PMTElementaryStream) (ok : PMTStreamOk es) (bs : Bytes) (off : Int) (r : Bytes)
    (hat : It.At ⟨bs, off⟩ (pmtEntryBytes es ++ r)) :
    pmtEntryParser ⟨bs, off⟩ = .ok (es, ⟨bs, off + (((pmtEntryBytes es).length : Nat) : Int)⟩) := by
  rw [pmtEntryBytes_length es ok]
  have hwl := writeDescriptorsWithLength_length _ ok.descs
  unfold pmtEntryBytes at hat
  obtain ⟨x, y, hxy, e⟩ := pmt_entry_head es.streamType es.elementaryPID ok.streamType ok.pid
  rw [hxy] at hat
  have hat' : It.At ⟨bs, off⟩ (es.streamType :: ([x, y] ++ (writeDescriptorsWithLength es.elementaryStreamDescriptors ++ r))) := by
    simpa using hat
  unfold pmtEntryParser
  rw [P.bind_of_ok (nextByte_at bs off _ _ hat')]
  have a1 := It.At.advance1 hat'
  rw [P.bind_of_ok (nextBytes_at bs _ _ _ 2 (by simp) a1)]
  have a3 := It.At.advance a1 2 (by simp)
  rw [P.bind_of_ok (parseDescriptors_at _ ok.descs ok.fits bs _ _ a3)]
  simp only [P.pure_run, e, hwl]
  congr 2
  simp only [It.mk.injEq, true_and]
  omega

theorem pmtSectionBytes_eq (d : PMTData) : pmtSectionBytes d =
    packFields [(7, 3), (d.pcrPID, 13)] ++ writeDescriptorsWithLength d.programDescriptors
      ++ (d.elementaryStreams.map pmtEntryBytes).flatten := rfl

/-- number of bytes of a PMT body -/
def pmtBodySize (d : PMTData) : Nat :=
  4 + descriptorsSize d.programDescriptors
    + (d.elementaryStreams.map fun es => 5 + descriptorsSize es.elementaryStreamDescriptors).sum

structure PMTOk (d : PMTData) : Prop where
  pcrPID : d.pcrPID < 8192
  descs : ∀ x ∈ d.programDescriptors, DescOk x
  streams : ∀ es ∈ d.elementaryStreams, PMTStreamOk es
  fits : 9 + pmtBodySize d < 4096

theorem sum_map_ge {α} (f : α → Nat) (l : List α) (a : α) (h : a ∈ l) : f a ≤ (l.map f).sum := by
  induction l with
  | nil => cases h
  | cons x r ih =>
    simp only [List.map_cons, List.sum_cons]
    rcases List.mem_cons.1 h with rfl | h'
    · omega
    · have := ih h'; omega

theorem entries_length (l : List PMTElementaryStream) (h : ∀ es ∈ l, PMTStreamOk es) :
    (l.map pmtEntryBytes).flatten.length = (l.map fun es => 5 + descriptorsSize es.elementaryStreamDescriptors).sum := by
  induction l with
  | nil => rfl
  | cons x r ih =>
    simp only [List.map_cons, List.flatten_cons, List.length_append, List.sum_cons,
      pmtEntryBytes_length x (h x (by simp)), ih (fun e he => h e (by simp [he]))]

theorem pmtSectionBytes_length (d : PMTData) (ok : PMTOk d) : (pmtSectionBytes d).length = pmtBodySize d := by
  rw [pmtSectionBytes_eq]
  simp only [List.length_append, writeDescriptorsWithLength_length _ ok.descs, entries_length _ ok.streams, pmtBodySize]
  simp [packFields, fieldsWidth, beBytes]
  omega

theorem calcPMT (d : PMTData) (ok : PMTOk d) : calcPSISectionLength 2 { pmt := some d } = 9 + pmtBodySize d := by
  have hf := ok.fits
  have hsum : (d.elementaryStreams.map fun es => 5 + calcDescriptorsLength es.elementaryStreamDescriptors)
      = (d.elementaryStreams.map fun es => 5 + descriptorsSize es.elementaryStreamDescriptors) := by
    apply List.map_congr_left
    intro es hes
    have := (ok.streams es hes).fits
    simp only [calcDescriptorsLength]
    rw [Nat.mod_eq_of_lt (by omega)]
  unfold pmtBodySize at hf
  have h1 : hasPSISyntaxHeader 2 = true := by decide
  have h2 : hasCRC32 2 = true := by decide
  simp only [calcPSISectionLength, h1, h2, calcPMTSectionLength, pmtBodySize, Option.getD_some]
  rw [hsum]
  simp only [calcDescriptorsLength]
  simp
  omega



theorem parsePMTSection_at (d : PMTData) (ext : Nat) (ok : PMTOk d) (bs : Bytes) (off endOff : Int) (r : Bytes)
    (hat : It.At ⟨bs, off⟩ (pmtSectionBytes d ++ r)) (hend : endOff = off + (((pmtSectionBytes d).length : Nat) : Int)) :
    parsePMTSection endOff ext ⟨bs, off⟩ = .ok ({ d with programNumber := ext }, ⟨bs, endOff⟩) := by
  have hbl := pmtSectionBytes_length d ok
  have hel := entries_length _ ok.streams
  have hwl := writeDescriptorsWithLength_length _ ok.descs
  have hfit := ok.fits
  unfold pmtBodySize at hfit hbl
  rw [pmtSectionBytes_eq] at hat
  obtain ⟨x, y, hxy, e⟩ := pcr_pid_head d.pcrPID ok.pcrPID
  rw [hxy] at hat
  have hat' : It.At ⟨bs, off⟩ ([x, y] ++ (writeDescriptorsWithLength d.programDescriptors ++ ((d.elementaryStreams.map pmtEntryBytes).flatten ++ r))) := by
    simpa using hat
  unfold parsePMTSection
  rw [P.bind_of_ok (nextBytes_at bs off _ _ 2 (by simp) hat')]
  have a2 := It.At.advance hat' 2 (by simp)
  rw [P.bind_of_ok (parseDescriptors_at _ ok.descs (by omega) bs _ _ a2)]
  have a3 := It.At.advance a2 _ rfl
  have hf : ∀ o, fuelOf ⟨bs, o⟩ = .ok (bs.length + 1, ⟨bs, o⟩) := fun _ => rfl
  rw [P.bind_of_ok (hf _)]
  have hlen := It.At.len a3
  simp only [List.length_append] at hlen
  have hoff := It.At.off_nonneg a3
  simp only at hoff
  have hle := length_le_flatten pmtEntryBytes d.elementaryStreams
    (fun es hes => by rw [pmtEntryBytes_length es (ok.streams es hes)]; omega)
  have := loopUntil_reads pmtEntryParser pmtEntryBytes PMTStreamOk pmtEntry_at
    (fun es hes => by rw [pmtEntryBytes_length es hes]; omega) d.elementaryStreams (bs.length + 1) bs _ endOff r ok.streams (by omega)
    a3 (by rw [hend, hbl, hel, hwl]; omega)
  show (loopUntil _ _ pmtEntryParser >>= _) _ = _
  rw [P.bind_of_ok this]
  simp only [P.pure_run, e]

def mkPMTSection (crc : Nat) (h : PSISectionHeader) (sh : PSISectionSyntaxHeader) (d : PMTData) : PSISection :=
  { crc32 := crc, header := some h, syn := some { data := some { pmt := some d }, header := some sh } }

theorem writePMT (crc : Nat) (h : PSISectionHeader) (sh : PSISectionSyntaxHeader) (d : PMTData)
    (ht : h.tableID = 2) (hsl : h.sectionLength > 0) :
    writePSISection (mkPMTSection crc h sh d) =
      .ok ((packFields [(2, 8), (b2n h.sectionSyntaxIndicator, 1), (b2n h.privateBit, 1), (3, 2), (calcPSISectionLength 2 { pmt := some d }, 12)]
            ++ (syntaxHeaderBytes sh ++ pmtSectionBytes d))
           ++ be32 (computeCRC32 (packFields [(2, 8), (b2n h.sectionSyntaxIndicator, 1), (b2n h.privateBit, 1), (3, 2), (calcPSISectionLength 2 { pmt := some d }, 12)]
            ++ (syntaxHeaderBytes sh ++ pmtSectionBytes d)))) := by
  unfold writePSISection mkPMTSection
  simp [ht, hsl]

theorem pmt_section_rt (crc : Nat) (h : PSISectionHeader) (sh : PSISectionSyntaxHeader) (d : PMTData)
    (ht : h.tableID = 2) (hsl : h.sectionLength > 0) (hsh : SyntaxHeaderOk sh) (hd : PMTOk d) :
    SectionRT (mkPMTSection crc h sh d)
      (parsedSection (computeCRC32 (sectionPre (mkPMTSection crc h sh d))).toNat
        { h with sectionLength := 9 + pmtBodySize d, tableType := "PMT" } sh
        { pmt := some { d with programNumber := sh.tableIDExtension } }) := by
  have hw := writePMT crc h sh d ht hsl
  rw [calcPMT d hd] at hw
  obtain ⟨x, y, hhead, e1, e2, e3⟩ := section_head_bytes 2 (b2n h.sectionSyntaxIndicator) (b2n h.privateBit)
    (9 + pmtBodySize d) (by omega) (b2n_le _) (b2n_le _) hd.fits
  rw [hhead] at hw
  have hshl := (syntax_header_bytes sh hsh).1
  have hbl := pmtSectionBytes_length d hd
  refine ⟨_, hw, by simp, ?_⟩
  intro bs off post hat
  have hpre : sectionPre (mkPMTSection crc h sh d) = [2, x, y] ++ syntaxHeaderBytes sh ++ pmtSectionBytes d := by
    unfold sectionPre
    rw [hw]
    simp only
    rw [take_pre_crc]; simp
  rw [hpre]
  have hat' : It.At ⟨bs, off⟩ (([2, x, y] ++ syntaxHeaderBytes sh ++ pmtSectionBytes d)
      ++ be32 (computeCRC32 ([2, x, y] ++ syntaxHeaderBytes sh ++ pmtSectionBytes d)) ++ post) := by
    simpa using hat
  have a3 : It.At ⟨bs, off + 3⟩ (syntaxHeaderBytes sh ++ (pmtSectionBytes d ++ (be32 (computeCRC32 ([2, x, y] ++ syntaxHeaderBytes sh ++ pmtSectionBytes d)) ++ post))) :=
    It.At.advance (xs := [2, x, y]) (by simpa using hat') 3 (by simp)
  have hh := syntaxHeader_at bs (off + 3) sh _ hsh a3
  have e38 : off + 3 + 5 = off + 8 := by omega
  rw [e38] at hh
  have a8 := It.At.advance a3 5 (by simp [hshl])
  rw [e38] at a8
  have hp := parsePMTSection_at d sh.tableIDExtension hd bs (off + 8) (off + 3 + ((x % 16 * 256 + y : Nat) : Int) - 4) _ a8
    (by rw [e1, hbl]; omega)
  have hd' := syntaxData_pmt sh _ _ _ _ hp
  have := parsePSISection_written bs off 2 x y sh (syntaxHeaderBytes sh) (pmtSectionBytes d) post _ _ hat' (by decide) (by decide) (by decide)
    hshl (by rw [e1, hbl]; omega) hh hd' rfl
  rw [this, parsedHeader_eq h 2 x y _ ht e1 e2 e3]
  have et : tableType 2 = "PMT" := by decide
  rw [et]
  congr 3
  simp [be32_length, hshl, hbl]
  omega

/-! ### the descriptor hypothesis is satisfiable: user-defined descriptors -/


/-- a user-defined descriptor (tags 0x80–0xfe) as the parser delivers it -/
def userDescriptor (tag : Nat) (u : Bytes) : Descriptor := { tag := tag, userDefined := u, length := u.length }

theorem userDescriptor_ok (tag : Nat) (u : Bytes) (ht : isUserDefinedTag tag = true) (hu : u.length < 256) :
    DescOk (userDescriptor tag u) := by
  have htag : tag < 256 := by simp [isUserDefinedTag] at ht; omega
  have hcalc : calcDescriptorLength (userDescriptor tag u) = u.length := by
    simp [calcDescriptorLength, userDescriptor, ht, calcDescriptorUserDefinedLength, Nat.mod_eq_of_lt hu]
  have hw : writeDescriptor (userDescriptor tag u) = [tag, u.length] ++ u := by
    unfold writeDescriptor
    rw [hcalc]
    simp only [wU8, Nat.mod_eq_of_lt htag, Nat.mod_eq_of_lt hu, descriptorBody, userDescriptor, ht, if_true, writeDescriptorUserDefined]
    by_cases hz : u.length = 0
    · have : u = [] := List.eq_nil_of_length_eq_zero hz
      simp [this]
    · simp [hz]
  constructor
  · intro bs off r hat
    rw [hw] at hat ⊢
    have hat' : It.At ⟨bs, off⟩ ([tag, u.length] ++ (u ++ r)) := by simpa using hat
    unfold parseDescriptor
    rw [P.bind_of_ok (nextBytes_at bs off _ _ 2 (by simp) hat')]
    have a2 := It.At.advance hat' 2 (by simp)
    simp only [List.getD_cons_zero, List.getD_cons_succ]
    by_cases hz : u.length > 0
    · simp only [hz, if_true, ht]
      rw [P.bind_of_ok (offset_run _)]
      rw [P.bind_of_ok (a := userDescriptor tag u) (i' := ⟨bs, off + 2 + (u.length : Nat)⟩)
        (by rw [P.bind_of_ok (nextBytes_at bs _ _ _ _ rfl a2)]; rfl)]
      rw [P.bind_of_ok (seek_run _ _)]
      simp only [P.pure_run]
      congr 2
      simp only [It.mk.injEq, true_and, List.length_append, List.length_cons, List.length_nil]
      omega
    · have : u = [] := List.eq_nil_of_length_eq_zero (by omega)
      subst this
      simp [userDescriptor]
  · rw [hw, hcalc]; simp; omega

end Astits.PSIRT
