/-
C05 / C01 support — histories WITH automatic PID assignment (`AddElementaryStream` with PID 0) and raw
`WritePacket` calls: the continuity-counter history theorem of `MuxCounters` re-proved over `MuxTables.StepOK'`
(invariant `PidInv`), and its extension to `MuxWhole.Call` histories.
-/
import Astits.Proofs.MuxTables
import Astits.Proofs.MuxWhole
namespace Astits.MuxAuto
open Astits.MuxCounters Astits.MuxTables Astits.MuxWhole

/-! ## one `AddElementaryStream` with PID 0 moves no counter -/

/-- an automatically assigned PID starts from the counter kept for that PID when it was last removed (or fresh):
the stored counter of every PID is unchanged by the call -/
theorem add_auto_stored (m : Mux) (es : PMTElementaryStream) (h : PidInv m) (h0 : es.elementaryPID = 0)
    (hroom : m.streams.length < 7934) (p : Nat) :
    stored (m.addElementaryStream es).2 p = stored m p := by
  obtain ⟨_, _, a1, a2, a3, a4⟩ := add_auto_spec m es h h0 hroom
  rw [add_auto_eq m es h0]
  have hno : lookup m.esCC (autoPID m) = none := by
    rw [lookup_none_iff]
    cases hb : m.esCC.any (·.1 == autoPID m) with
    | false => rfl
    | true =>
      exfalso
      rw [any_fst_eq, h.pids] at hb
      exact a4 hb
  by_cases hp0 : p = 0
  · subst hp0; rw [stored_zero, stored_zero]
  · by_cases hp1 : p = 4096
    · subst hp1; rw [stored_pmt, stored_pmt]
    · rw [stored_es _ p hp0 hp1, stored_es _ p hp0 hp1]
      simp only
      by_cases hp : p = autoPID m
      · subst hp
        rw [lookup_append, hno, lookup_cons, if_pos rfl, keptCC_eq, lookup_filter_self]
        cases hk : lookup m.removedCC (autoPID m) with
        | none => rfl
        | some c => rfl
      · have hne : ¬ autoPID m = p := fun hh => hp hh.symm
        rw [lookup_append, lookup_cons, if_neg hne, lookup_nil, Option.or_none, lookup_filter_ne _ _ _ hp]

/-! ## admissible histories with automatic PIDs -/

/-- the call is admissible in the sense of `MuxTables.StepOK'` (explicit PIDs 13-bit and not 0x1000; PID 0 = automatic
assignment, only while fewer than 7934 streams exist) and, if it is a `WriteData`, burns no counter value -/
def StepOKA (m : Mux) (op : Op) : Prop := StepOK' m op ∧ ∀ d, op = .data d → NoBurn m d

/-- under `OpOK'` a call that is not an automatic add is `OpOK` -/
theorem opOK_of_opOK' (op : Op) (h : OpOK' op) (hna : ∀ es, op = .add es → es.elementaryPID ≠ 0) : OpOK op := by
  cases op with
  | add es => exact ⟨hna es rfl, h.1, h.2⟩
  | remove _ => trivial
  | setPCR _ => trivial
  | tables => trivial
  | data _ => trivial

/-- **per-step preservation, automatic PIDs included** -/
theorem step_adv' (m : Mux) (op : Op) (h : PidInv m) (hok : StepOKA m op) :
    PidInv (step m op).2 ∧ StepAdv m (step m op).1 (step m op).2 := by
  refine ⟨step_pidInv m op h hok.1, ?_⟩
  by_cases ha : ∃ es, op = .add es ∧ es.elementaryPID = 0
  · obtain ⟨es, rfl, h0⟩ := ha
    exact StepAdv.of_eq (add_auto_stored m es h h0 (hok.1.2 h0))
  · have hop : OpOK op := opOK_of_opOK' op hok.1.1 (fun es he h0 => ha ⟨es, he, h0⟩)
    exact (step_adv m op h.inv ⟨hop, hok.2⟩).2

theorem run_adv' (m : Mux) (ops : List Op) (h : PidInv m) (hok : RunAll StepOKA m ops) :
    PidInv (run m ops).2 ∧ StepAdv m (run m ops).1 (run m ops).2 := by
  induction ops generalizing m with
  | nil => exact ⟨h, StepAdv.of_eq fun _ => rfl⟩
  | cons op ops ih =>
    obtain ⟨h1, h2⟩ := step_adv' m op h hok.1
    obtain ⟨h3, h4⟩ := ih (step m op).2 h1 hok.2
    exact ⟨h3, h2.trans h4⟩

/-- **history theorem with automatic PIDs** -/
theorem history_counters_auto (period : Nat) (ops : List Op) (hok : RunAll StepOKA (newMux period) ops) (p : Nat) :
    ccsOn p (run (newMux period) ops).1
        = (List.range (ccsOn p (run (newMux period) ops).1).length).map (· % 16) ∧
    stored (run (newMux period) ops).2 p = adv 16 (ccsOn p (run (newMux period) ops).1).length := by
  have h := (run_adv' (newMux period) ops (pidInv_new period) hok).2 p
  rw [stored_new] at h
  exact ⟨by rw [← succs_fresh]; exact h.1, h.2⟩

theorem history_counters_auto_from (m : Mux) (ops : List Op) (h : PidInv m) (hok : RunAll StepOKA m ops) (p : Nat) :
    Adv (stored m p) (ccsOn p (run m ops).1) (stored (run m ops).2 p) :=
  (run_adv' m ops h hok).2 p

/-- generic strengthening of the per-call predicate along a history, with `PidInv` available at every call -/
theorem runAll_mono' (P Q : Mux → Op → Prop) (hQ : ∀ m op, Q m op → StepOK' m op)
    (hPQ : ∀ m op, PidInv m → P m op → Q m op) (m : Mux) (ops : List Op) (h : PidInv m)
    (hP : RunAll P m ops) : RunAll Q m ops := by
  induction ops generalizing m with
  | nil => trivial
  | cons op ops ih =>
    have hq := hPQ m op h hP.1
    exact ⟨hq, ih _ (step_pidInv m op h (hQ m op hq)) hP.2⟩

/-- observable sufficient condition: no `WriteData` of the history panics -/
def StepNoPanicA (m : Mux) (op : Op) : Prop := StepOK' m op ∧ ∀ d, op = .data d → (m.writeData d).1.panic = false

theorem runAll_noPanic (m : Mux) (ops : List Op) (h : PidInv m) (hok : RunAll StepNoPanicA m ops) :
    RunAll StepOKA m ops :=
  runAll_mono' StepNoPanicA StepOKA (fun _ _ h => h.1)
    (fun m _ hm h => ⟨h.1, fun d hd => noBurn_of_noPanic m d hm.inv (h.2 d hd)⟩) m ops h hok

/-- static sufficient condition: every call is `OpOK'`, every `WriteData` input is `DataOK`, and the history
contains at most 7934 `AddElementaryStream` calls (counting the streams already present) -/
theorem runAll_static (m : Mux) (ops : List Op) (h : PidInv m)
    (hok : ∀ op ∈ ops, OpOK' op ∧ ∀ d, op = .data d → DataOK d)
    (hn : m.streams.length + (ops.filter isAdd).length ≤ 7934) : RunAll StepOKA m ops := by
  have hroom := runAll_room m ops (fun op ho => (hok op ho).1) hn
  -- carry the static condition along the history
  have key : ∀ (ops : List Op) (m : Mux), PidInv m → RunAll StepOK' m ops →
      (∀ op ∈ ops, ∀ d, op = .data d → DataOK d) → RunAll StepOKA m ops := by
    intro ops
    induction ops with
    | nil => intro _ _ _ _; trivial
    | cons op ops ih =>
      intro m hm hr hd
      refine ⟨⟨hr.1, fun d he => noBurn_of_wf m d hm.inv (hd op List.mem_cons_self d he).wf⟩, ?_⟩
      exact ih _ (step_pidInv m op hm hr.1) hr.2 (fun o ho => hd o (List.mem_cons_of_mem _ ho))
  exact key ops m h hroom (fun op ho => (hok op ho).2)

/-! ## raw `WritePacket` calls -/

theorem writePacketCall_state (m : Mux) (p : Packet) : (m.writePacketCall p).2 = m := by
  unfold Mux.writePacketCall
  split <;> rfl

def isOp : Call → Bool
  | .op _ => true
  | .packet _ => false

/-- the API calls of a history other than raw `WritePacket` -/
def opsOf : List Call → List Op
  | [] => []
  | .op o :: cs => o :: opsOf cs
  | .packet _ :: cs => opsOf cs

/-- the chunks handed to the writer by the muxer's own calls (everything except raw `WritePacket`), in order -/
def ownWritten (m : Mux) : List Call → List Bytes
  | [] => []
  | c :: cs => (if isOp c then (call m c).1.chunks else []) ++ ownWritten (call m c).2 cs

/-- the chunks handed to the writer by raw `WritePacket` calls, in order -/
def rawWritten (m : Mux) : List Call → List Bytes
  | [] => []
  | c :: cs => (if isOp c then [] else (call m c).1.chunks) ++ rawWritten (call m c).2 cs

/-- raw `WritePacket` calls do not touch the muxer state: state and own chunks of a `Call` history are those of the
`Op` history obtained by deleting the raw calls -/
theorem own_eq_run (m : Mux) (cs : List Call) :
    ownWritten m cs = (run m (opsOf cs)).1 ∧ (hist m cs).2 = (run m (opsOf cs)).2 := by
  induction cs generalizing m with
  | nil => exact ⟨rfl, rfl⟩
  | cons c cs ih =>
    cases c with
    | op o =>
      have h1a : (call m (.op o)).1.chunks = (step m o).1 := congrArg Prod.fst (call_op m o)
      have h1b : (call m (.op o)).2 = (step m o).2 := congrArg Prod.snd (call_op m o)
      obtain ⟨i1, i2⟩ := ih (call m (.op o)).2
      constructor
      · show (call m (.op o)).1.chunks ++ ownWritten (call m (.op o)).2 cs = (step m o).1 ++ (run (step m o).2 (opsOf cs)).1
        rw [i1, h1a, h1b]
      · show (hist (call m (.op o)).2 cs).2 = (run (step m o).2 (opsOf cs)).2
        rw [i2, h1b]
    | packet p =>
      have hs : (call m (.packet p)).2 = m := writePacketCall_state m p
      obtain ⟨i1, i2⟩ := ih m
      constructor
      · show [] ++ ownWritten (call m (.packet p)).2 cs = _
        rw [hs, List.nil_append, i1]; rfl
      · show (hist (call m (.packet p)).2 cs).2 = _
        rw [hs, i2]; rfl

theorem filter_append_nil {α} (f : α → Bool) (a b : List α) (h : a.filter f = []) : (a ++ b).filter f = b.filter f := by
  rw [List.filter_append, h, List.nil_append]

/-- on a PID on which no raw packet was written, the whole output and the muxer's own output have the same chunks -/
theorem written_on_pid (p : Nat) (m : Mux) (cs : List Call) (hraw : ∀ c ∈ rawWritten m cs, pktPID c ≠ p) :
    (written (hist m cs).1).filter (fun c => pktPID c == p) = (ownWritten m cs).filter (fun c => pktPID c == p) := by
  induction cs generalizing m with
  | nil => rfl
  | cons c cs ih =>
    have hraw' : ∀ x ∈ rawWritten (call m c).2 cs, pktPID x ≠ p :=
      fun x hx => hraw x (List.mem_append_right _ hx)
    have i := ih (call m c).2 hraw'
    show ((call m c).1.chunks ++ written (hist (call m c).2 cs).1).filter _ =
      ((if isOp c then (call m c).1.chunks else []) ++ ownWritten (call m c).2 cs).filter _
    cases hc : isOp c with
    | true => simp only [if_true, List.filter_append, i]
    | false =>
      simp only [Bool.false_eq_true, if_false, List.nil_append]
      rw [filter_append_nil _ _ _ ?_, i]
      rw [List.filter_eq_nil_iff]
      intro x hx
      have : x ∈ rawWritten m (c :: cs) := by
        show x ∈ (if isOp c then [] else (call m c).1.chunks) ++ rawWritten (call m c).2 cs
        rw [hc]; exact List.mem_append_left _ hx
      simpa using hraw x this

theorem ccsOn_written (p : Nat) (m : Mux) (cs : List Call) (hraw : ∀ c ∈ rawWritten m cs, pktPID c ≠ p) :
    ccsOn p (written (hist m cs).1) = ccsOn p (ownWritten m cs) := by
  unfold ccsOn
  rw [written_on_pid p m cs hraw]

/-- a raw packet with a well-formed header is written on the PID its header says -/
theorem rawWritten_pid (m : Mux) (cs : List Call) (c : Bytes) (hc : c ∈ rawWritten m cs) :
    ∃ pk, Call.packet pk ∈ cs ∧ writePacket pk 188 = .ok c := by
  induction cs generalizing m with
  | nil => cases hc
  | cons x cs ih =>
    have hc' : c ∈ (if isOp x then [] else (call m x).1.chunks) ++ rawWritten (call m x).2 cs := hc
    rcases List.mem_append.mp hc' with h | h
    · cases x with
      | op o => simp [isOp] at h
      | packet pk =>
        simp only [isOp, Bool.false_eq_true, if_false] at h
        refine ⟨pk, List.mem_cons_self, ?_⟩
        have h' : c ∈ (m.writePacketCall pk).1.chunks := h
        unfold Mux.writePacketCall at h'
        split at h'
        · rename_i bs hw
          simp only [List.mem_cons, List.not_mem_nil, or_false] at h'
          rw [h']; exact hw
        · cases h'
        · cases h'
    · obtain ⟨pk, h1, h2⟩ := ih _ h
      exact ⟨pk, List.mem_cons_of_mem _ h1, h2⟩

/-- sufficient condition on the caller's packets: every raw packet has a 13-bit PID different from `p`, a 2-bit
scrambling control and a 4-bit counter (so that the PID read from the written chunk is the header's) -/
theorem raw_off_pid (p : Nat) (m : Mux) (cs : List Call)
    (h : ∀ pk, Call.packet pk ∈ cs → pk.header.pid < 8192 ∧ pk.header.transportScramblingControl < 4 ∧
      pk.header.continuityCounter < 16 ∧ pk.header.pid ≠ p) :
    ∀ c ∈ rawWritten m cs, pktPID c ≠ p := by
  intro c hc
  obtain ⟨pk, h1, h2⟩ := rawWritten_pid m cs c hc
  obtain ⟨a1, a2, a3, a4⟩ := h pk h1
  rw [(writePacket_observe pk 188 c h2 a1 a2 a3).1]
  exact a4

/-- **history theorem, all API calls.**  In a history of `Call`s (the five muxer calls and raw `WritePacket`) from a
new muxer whose own calls are admissible (`StepOKA`, evaluated along the history with the raw calls deleted — they
do not change the state):
* the chunks emitted by the muxer's own calls carry, on every PID, the counters 0, 1, 2, … mod 16, and the stored
  counter is the last one sent;
* on every PID on which no raw packet was written, this holds of the complete output. -/
theorem history_counters_calls (period : Nat) (cs : List Call) (hok : RunAll StepOKA (newMux period) (opsOf cs))
    (p : Nat) :
    (ccsOn p (ownWritten (newMux period) cs)
        = (List.range (ccsOn p (ownWritten (newMux period) cs)).length).map (· % 16) ∧
     stored (hist (newMux period) cs).2 p = adv 16 (ccsOn p (ownWritten (newMux period) cs)).length) ∧
    ((∀ c ∈ rawWritten (newMux period) cs, pktPID c ≠ p) →
      ccsOn p (written (hist (newMux period) cs).1)
        = (List.range (ccsOn p (written (hist (newMux period) cs).1)).length).map (· % 16) ∧
      stored (hist (newMux period) cs).2 p = adv 16 (ccsOn p (written (hist (newMux period) cs).1)).length) := by
  obtain ⟨e1, e2⟩ := own_eq_run (newMux period) cs
  have h := history_counters_auto period (opsOf cs) hok p
  rw [← e1, ← e2] at h
  refine ⟨h, fun hraw => ?_⟩
  rw [ccsOn_written p _ cs hraw]
  exact h

end Astits.MuxAuto
