/-
C07 support — per-PID independence at the level of `Demux.NextData` call sequences.

`Proofs/MuxDemuxNext.lean` shows, for an elementary-stream PID (`ESPid`), that the data `NextData` returns on that PID
are the parsed groups of the PID's accumulator.  Here the same is shown for *any* PID relative to a reference program
map `pm₀`: the only thing the demuxer's program map contributes on a PID is one bit, `early pid pm` ("PID 0 or listed
as a PMT PID"), which decides both the early flush (`isPSIComplete`) and — together with the fixed DVB SI range — the
PSI/PES choice of `parseData`.  While that bit has its reference value — or the PID is idle (empty queue, no packet
of it read by the call) — the calls deliver on the PID exactly `pidData pm₀ pid` of the PID's accepted packets.
-/
import Astits.Proofs.MuxDemuxNext
import Astits.Proofs.DemuxRuns
namespace Astits.PerPid
open Astits.MuxDemux

/-! ## the one bit of the program map a PID sees -/

/-- PID 0, or a PID the program map lists as PMT PID: its units are flushed as soon as `isPSIComplete`, and parsed
as PSI -/
def early (pid : Nat) (pm : ProgramMap) : Bool := pid == 0 || pm.has pid

theorem accAdd_early (pm pm' : ProgramMap) (pid : Nat) (q : List Packet) (p : Packet)
    (h : early pid pm = early pid pm') : accAdd pm pid q p = accAdd pm' pid q p := by
  unfold early at h
  unfold accAdd
  rw [h]

theorem parseData_early (g : List Packet) (pm pm' : ProgramMap) (pid : Nat)
    (hg : (g.headD default).header.pid = pid) (h : early pid pm = early pid pm') :
    parseData g .none pm = parseData g .none pm' := by
  unfold early at h
  unfold parseData isPSIPayload
  dsimp only
  rw [hg, h]

theorem early_of_ESPid {pid : Nat} {pm : ProgramMap} (h : ESPid pid pm) : early pid pm = early pid [] := by
  unfold early
  rw [h.notEarly, h.nil.notEarly]

theorem early_zero (pm pm' : ProgramMap) : early 0 pm = early 0 pm' := rfl

theorem early_of_has {pid : Nat} {pm pm' : ProgramMap} (h : pm.has pid = pm'.has pid) : early pid pm = early pid pm' := by
  unfold early; rw [h]

/-! ## what is expected on a PID under the reference map -/

/-- the groups the accumulator of `pid` hands to `parseData` under the program map `pm`, starting from queue `q`, while
the accepted packets `l` arrive, and the one the end-of-stream drain hands over -/
def groupsFromP (pm : ProgramMap) (pid : Nat) (q l : List Packet) : List (List Packet) :=
  (accRun pm pid q l).1.filter (fun g => !g.isEmpty) ++
    (if (accRun pm pid q l).2.isEmpty then [] else [(accRun pm pid q l).2])

theorem groupsFromP_nil_pm (pid : Nat) (q l : List Packet) : groupsFromP [] pid q l = groupsFrom pid q l := rfl

/-- the data parsed from these groups (groups that fail to parse contribute nothing) -/
def parsedOn (pm : ProgramMap) (pid : Nat) (q l : List Packet) : List DemuxerData :=
  okAll ((groupsFromP pm pid q l).map (parseData · .none pm))

/-- **the per-PID function**: what a run to the end of the stream delivers on `pid`, as a function of the accepted
packets of `pid` alone (reference map `pm₀`: only `early pid pm₀` matters) -/
def pidData (pm₀ : ProgramMap) (pid : Nat) (l : List Packet) : List DemuxerData := parsedOn pm₀ pid [] l

theorem parsedOn_nil (pm : ProgramMap) (pid : Nat) (q : List Packet) :
    parsedOn pm pid q [] = if q.isEmpty then [] else okAll [parseData q .none pm] := by
  unfold parsedOn groupsFromP
  simp only [accRun, List.filter_nil, List.nil_append]
  by_cases h : q.isEmpty = true
  · simp only [h, if_true]; rfl
  · simp only [h]; rfl

theorem parsedOn_cons (pm : ProgramMap) (pid : Nat) (q : List Packet) (p : Packet) (l : List Packet) :
    parsedOn pm pid q (p :: l) =
      (if (accAdd pm pid q p).1.isEmpty then [] else okAll [parseData (accAdd pm pid q p).1 .none pm]) ++
        parsedOn pm pid (accAdd pm pid q p).2 l := by
  unfold parsedOn groupsFromP
  simp only [accRun, List.filter_cons]
  cases h : (accAdd pm pid q p).1.isEmpty <;> simp [okAll]

theorem parsedOn_early (pm pm' : ProgramMap) (pid : Nat) (q l : List Packet) (h : early pid pm = early pid pm')
    (hq : ∀ x ∈ q, x.header.pid = pid) (hl : ∀ x ∈ l, x.header.pid = pid) :
    parsedOn pm pid q l = parsedOn pm' pid q l := by
  induction l generalizing q with
  | nil =>
    rw [parsedOn_nil, parsedOn_nil]
    cases hqe : q.isEmpty with
    | true => rfl
    | false =>
      have hne : q ≠ [] := by intro hh; rw [hh] at hqe; cases hqe
      simp only [Bool.false_eq_true, if_false]
      rw [parseData_early q pm pm' pid (hq _ (MuxDemux.headD_mem _ _ hne)) h]
  | cons p l ih =>
    rw [parsedOn_cons, parsedOn_cons, ← accAdd_early pm pm' pid q p h]
    have hm := accAdd_mem pm pid q p
    have hp : p.header.pid = pid := hl p (by simp)
    have h1 : ∀ x ∈ (accAdd pm pid q p).1, x.header.pid = pid := by
      intro x hx
      rcases hm.1 x hx with h' | h'
      · exact hq x h'
      · rw [h']; exact hp
    have h2 : ∀ x ∈ (accAdd pm pid q p).2, x.header.pid = pid := by
      intro x hx
      rcases hm.2 x hx with h' | h'
      · exact hq x h'
      · rw [h']; exact hp
    rw [ih _ h2 (fun x hx => hl x (by simp [hx]))]
    cases hge : (accAdd pm pid q p).1.isEmpty with
    | true => rfl
    | false =>
      have hne : (accAdd pm pid q p).1 ≠ [] := by intro hh; rw [hh] at hge; cases hge
      simp only [Bool.false_eq_true, if_false]
      rw [parseData_early _ pm pm' pid (h1 _ (MuxDemux.headD_mem _ _ hne)) h]

/-- what is still to come on `pid`: buffered data, then the parsed groups -/
def expectP (pm₀ : ProgramMap) (pid : Nat) (d : Demux) (s : List Packet) : List DemuxerData :=
  d.dataBuffer.filter (·.pid == pid) ++ parsedOn pm₀ pid (d.pool.get pid) (s.filter (accepted pid))

theorem expectP_nil_pm (pid : Nat) (d : Demux) (s : List Packet) : expectP [] pid d s = expect pid d s := rfl

/-- the `pid` part of what a step returns (`none`: nothing returned, the loop goes on) -/
def resOut (pid : Nat) : Option (Res DemuxerData) → List DemuxerData
  | some r => pidOut pid [r]
  | none => []

theorem accepted_pid {pid : Nat} {p : Packet} (h : accepted pid p = true) : p.header.pid = pid := by
  unfold accepted at h
  simp only [Bool.and_eq_true, beq_iff_eq] at h
  exact h.1.1

/-! ## a flushed group -/

theorem group_pid (pid : Nat) (pm₀ : ProgramMap) (d : Demux) (g : List Packet) (k : Nat)
    (hp : d.parser = .none) (hb : d.dataBuffer = []) (hk : (g.headD default).header.pid = k) :
    SameIO d (d.group g).2 ∧ (d.group g).2.pool = d.pool ∧
    ((∀ x, (d.group g).1 ≠ some (.ok x)) → (d.group g).2.dataBuffer = [] ∧ (d.group g).2.programMap = d.programMap) ∧
    (∀ e, (d.group g).1 = some (.err e) → e = .other) ∧
    ((k ≠ pid ∨ early pid d.programMap = early pid pm₀) →
      resOut pid (d.group g).1 ++ (d.group g).2.dataBuffer.filter (·.pid == pid) =
        if k = pid then okAll [parseData g .none pm₀] else []) := by
  rw [group_eq, hp, logParser_none d g hp]
  have hpar : k = pid → (k ≠ pid ∨ early pid d.programMap = early pid pm₀) →
      parseData g .none pm₀ = parseData g .none d.programMap := by
    intro hkp hm
    rcases hm with hm | hm
    · exact absurd hkp hm
    · exact (parseData_early g _ _ pid (hk.trans hkp) hm).symm
  cases hr : parseData g .none d.programMap with
  | err e =>
    have := parseData_err _ _ _ hr
    subst this
    refine ⟨⟨rfl, rfl, rfl, rfl, rfl⟩, rfl, fun _ => ⟨hb, rfl⟩, fun e he => ?_, fun hm => ?_⟩
    · simp only [Option.some.injEq, Res.err.injEq] at he
      exact he.symm
    · by_cases hkp : k = pid
      · rw [hpar hkp hm, hr]
        simp [resOut, pidOut, hb, hkp, okAll]
      · simp [resOut, pidOut, hb, hkp]
  | panic =>
    refine ⟨⟨rfl, rfl, rfl, rfl, rfl⟩, rfl, fun _ => ⟨hb, rfl⟩, fun e he => ?_, fun hm => ?_⟩
    · cases he
    · by_cases hkp : k = pid
      · rw [hpar hkp hm, hr]
        simp [resOut, pidOut, hb, hkp, okAll]
      · simp [resOut, pidOut, hb, hkp]
  | ok ds =>
    have hpid := parseData_pid _ _ _ hr
    rw [hk] at hpid
    cases ds with
    | nil =>
      refine ⟨⟨rfl, rfl, rfl, rfl, rfl⟩, rfl, fun _ => ⟨by simp [hb], rfl⟩, fun e he => ?_, fun hm => ?_⟩
      · cases he
      · by_cases hkp : k = pid
        · rw [hpar hkp hm, hr]
          simp [resOut, hb, hkp, okAll]
        · simp [resOut, hb, hkp]
    | cons x more =>
      refine ⟨⟨rfl, rfl, rfl, rfl, rfl⟩, rfl, fun h => absurd rfl (h x), fun e he => ?_, fun hm => ?_⟩
      · cases he
      · by_cases hkp : k = pid
        · rw [hpar hkp hm, hr]
          subst hkp
          simp only [List.head?_cons, Option.map_some, resOut, List.tail_cons, hb, List.nil_append, if_true]
          rw [filter_pid_all k more (fun y hy => hpid y (by simp [hy]))]
          simp [pidOut, hpid x (by simp), okAll]
        · simp only [List.head?_cons, Option.map_some, resOut, List.tail_cons, hb, List.nil_append, hkp, if_false]
          rw [filter_pid_none pid more k hkp (fun y hy => hpid y (by simp [hy]))]
          have hx : x.pid ≠ pid := by rw [hpid x (by simp)]; exact hkp
          simp [pidOut, hx]

/-! ## one packet handed to the pool -/

/-- one packet through the pool, seen from `pid` -/
theorem poolAdd_onP (pid : Nat) (pm₀ pm : ProgramMap) (pool : Pool) (p : Packet) :
    (accepted pid p = true → early pid pm = early pid pm₀ →
      (poolAdd pm pool p).1 = (accAdd pm₀ pid (pool.get pid) p).1 ∧
      (poolAdd pm pool p).2.get pid = (accAdd pm₀ pid (pool.get pid) p).2) ∧
    (accepted pid p = false →
      (poolAdd pm pool p).2.get pid = pool.get pid ∧ ((poolAdd pm pool p).1 = [] ∨ p.header.pid ≠ pid)) := by
  constructor
  · intro ha he
    unfold accepted at ha
    simp only [Bool.and_eq_true, beq_iff_eq, Bool.not_eq_true'] at ha
    obtain ⟨⟨h1, h2⟩, h3⟩ := ha
    unfold poolAdd
    simp only [h3, h2, Bool.false_eq_true, if_false, Bool.not_true, h1, Pool.get_put_same]
    rw [accAdd_early pm pm₀ pid _ p he]
    exact ⟨rfl, rfl⟩
  · intro ha
    unfold accepted at ha
    by_cases hp : p.header.pid = pid
    · have hig : p.header.transportErrorIndicator = true ∨ p.header.hasPayload = false := by
        simp only [hp, beq_self_eq_true, Bool.true_and] at ha
        cases h2 : p.header.hasPayload
        · exact Or.inr rfl
        · cases h3 : p.header.transportErrorIndicator
          · simp [h2, h3] at ha
          · exact Or.inl rfl
      rw [C07.poolAdd_ignores pm pool p hig]
      exact ⟨rfl, Or.inl rfl⟩
    · exact ⟨C07.poolAdd_other_pid pm pool p pid (fun hh => hp hh.symm), Or.inr hp⟩

theorem feed_pid (pid : Nat) (pm₀ : ProgramMap) (d : Demux) (p : Packet) (s' : List Packet)
    (hp : d.parser = .none) (hb : d.dataBuffer = []) (hwf : PoolWF d.pool)
    (hok : early pid d.programMap = early pid pm₀ ∨ accepted pid p = false) :
    SameIO d (d.feed p).2 ∧ PoolWF (d.feed p).2.pool ∧
    ((∀ x, (d.feed p).1 ≠ some (.ok x)) → (d.feed p).2.dataBuffer = [] ∧ (d.feed p).2.programMap = d.programMap) ∧
    (∀ e, (d.feed p).1 = some (.err e) → e = .other) ∧
    (accepted pid p = false → (d.feed p).2.pool.get pid = d.pool.get pid) ∧
    resOut pid (d.feed p).1 ++ expectP pm₀ pid (d.feed p).2 s' = expectP pm₀ pid d (p :: s') := by
  obtain ⟨w1, w2⟩ := wf_poolAdd d.programMap d.pool p hwf
  obtain ⟨on1, on2⟩ := poolAdd_onP pid pm₀ d.programMap d.pool p
  have hfe : d.feed p = if (poolAdd d.programMap d.pool p).1.isEmpty then (none, withPool d (poolAdd d.programMap d.pool p).2)
      else (withPool d (poolAdd d.programMap d.pool p).2).group (poolAdd d.programMap d.pool p).1 := rfl
  rw [hfe]
  generalize hg : (poolAdd d.programMap d.pool p).1 = g at *
  generalize hpl : (poolAdd d.programMap d.pool p).2 = pool' at *
  have hE : expectP pm₀ pid d (p :: s') =
      (if accepted pid p = true ∧ g.isEmpty = false then okAll [parseData g .none pm₀] else []) ++
        parsedOn pm₀ pid (pool'.get pid) (s'.filter (accepted pid)) := by
    unfold expectP
    rw [hb]
    by_cases ha : accepted pid p = true
    · have he : early pid d.programMap = early pid pm₀ := by
        rcases hok with h | h
        · exact h
        · rw [ha] at h; cases h
      obtain ⟨o1, o2⟩ := on1 ha he
      simp only [List.filter_cons, ha, if_true, parsedOn_cons, ← o1, ← o2, true_and, List.filter_nil, List.nil_append]
      cases hge : g.isEmpty <;> simp
    · have ha' : accepted pid p = false := by simpa using ha
      obtain ⟨o1, _⟩ := on2 ha'
      simp only [List.filter_cons, ha', Bool.false_eq_true, if_false, false_and, List.nil_append, o1, List.filter_nil]
  by_cases hge : g.isEmpty = true
  · rw [if_pos hge]
    refine ⟨⟨rfl, rfl, rfl, rfl, rfl⟩, w1, fun _ => ⟨hb, rfl⟩, fun e he => (by cases he), fun ha => (on2 ha).1, ?_⟩
    rw [hE]
    have hb' : (withPool d pool').dataBuffer = [] := hb
    have hp' : (withPool d pool').pool = pool' := rfl
    simp [resOut, expectP, hb', hp', hge]
  · have hge' : g.isEmpty = false := by simpa using hge
    have hgne : g ≠ [] := by intro hh; rw [hh] at hge'; cases hge'
    rw [if_neg hge]
    have hhead : (g.headD default).header.pid = p.header.pid := w2 _ (MuxDemux.headD_mem _ _ hgne)
    obtain ⟨g1, g2, g3, g4, g5⟩ := group_pid pid pm₀ (withPool d pool') g p.header.pid hp hb hhead
    have g2' : ((withPool d pool').group g).2.pool = pool' := g2
    refine ⟨g1, by rw [g2']; exact w1, g3, g4, fun ha => by rw [g2']; exact (on2 ha).1, ?_⟩
    have hmode : p.header.pid ≠ pid ∨ early pid d.programMap = early pid pm₀ := by
      rcases hok with h | h
      · exact Or.inr h
      · rcases (on2 h).2 with h1 | h1
        · exact absurd h1 hgne
        · exact Or.inl h1
    have hcond : (p.header.pid = pid) ↔ (accepted pid p = true ∧ g.isEmpty = false) := by
      constructor
      · intro hpp
        refine ⟨?_, hge'⟩
        cases ha : accepted pid p with
        | true => rfl
        | false =>
          rcases (on2 ha).2 with h1 | h1
          · exact absurd h1 hgne
          · exact absurd hpp h1
      · intro ⟨ha, _⟩
        exact accepted_pid ha
    rw [hE]
    unfold expectP
    rw [g2', ← List.append_assoc, g5 hmode]
    by_cases hpp : p.header.pid = pid
    · rw [if_pos hpp, if_pos (hcond.mp hpp)]
    · rw [if_neg hpp, if_neg (fun h => hpp (hcond.mpr h))]

/-! ## one `NextData` call -/

/-- `pid` is idle during a step that starts in state `d` and hands the packets `fed` to the pool: its queue is empty
and none of these packets is accepted on `pid` -/
def Idle (pid : Nat) (d : Demux) (fed : List Packet) : Prop :=
  d.pool.get pid = [] ∧ ∀ p ∈ fed, accepted pid p = false

/-- post-condition of a `NextData`-like step (cf. `MuxDemux.StepPost`), relative to the reference map `pm₀`; `idle` is
the idleness assumption of the step, under which the queue of `pid` is still empty afterwards -/
def StepPostP (pid : Nat) (pm₀ : ProgramMap) (idle : Prop) (e : List DemuxerData) (out : Res DemuxerData × Demux) : Prop :=
  ∃ cs' s', Rep out.2 cs' ∧ ParsesTo cs' s' ∧ PoolWF out.2.pool ∧
    (∀ er, out.1 = .err er → er = .eof ∨ er = .other) ∧
    (idle → out.2.pool.get pid = []) ∧
    (isEOF out.1 = true → e = []) ∧
    (isEOF out.1 = false → pidOut pid [out.1] ++ expectP pm₀ pid out.2 s' = e)

theorem drain_succ' (d : Demux) (fuel : Nat) :
    d.drain (fuel + 1) =
      if (poolDump d.pool).1.isEmpty then (.err .eof, withPool d (poolDump d.pool).2)
      else
        match (withPool d (poolDump d.pool).2).group (poolDump d.pool).1 with
        | (some (.ok x), d') => (.ok x, d')
        | (some .panic, d') => (.panic, d')
        | (some (.err _), d') => d'.drain fuel
        | (none, d') => d'.drain fuel := Astits.drain_succ d fuel

/-- the end-of-stream drain -/
theorem drain_postP (pid : Nat) (pm₀ : ProgramMap) :
    ∀ (fuel : Nat) (d : Demux), Rep d [] → PoolWF d.pool → d.dataBuffer = [] →
      (early pid d.programMap = early pid pm₀ ∨ d.pool.get pid = []) → d.pool.length < fuel →
      StepPostP pid pm₀ (d.pool.get pid = []) (expectP pm₀ pid d []) (d.drain fuel) := by
  intro fuel
  induction fuel with
  | zero => intro d _ _ _ _ hl; omega
  | succ fuel ih =>
    intro d hrep hwf hbuf hok hl
    rw [drain_succ' d fuel]
    have hexp : expectP pm₀ pid d [] = parsedOn pm₀ pid (d.pool.get pid) [] := by
      unfold expectP; rw [hbuf]; rfl
    rcases poolDump_spec d.pool hwf with ⟨a1, a0, a2⟩ | ⟨k, b1, b2, b3, b4, b5, b6, b7⟩
    · have hio : SameIO d (withPool d (poolDump d.pool).2) := ⟨rfl, rfl, rfl, rfl, rfl⟩
      rw [a1]
      simp only [List.isEmpty_nil, if_true]
      refine ⟨[], [], hrep.transfer hio, trivial, (by show PoolWF (poolDump d.pool).2; rw [a0]; trivial),
        fun er he => ?_, fun _ => ?_, fun _ => ?_, fun h => (by cases h)⟩
      · simp only [Res.err.injEq] at he
        exact Or.inl he.symm
      · show (poolDump d.pool).2.get pid = []
        rw [a0]; rfl
      · rw [hexp, a2 pid]; rfl
    · have hne : (poolDump d.pool).1.isEmpty = false := by
        cases hg : (poolDump d.pool).1 with
        | nil => exact absurd hg b2
        | cons _ _ => rfl
      rw [hne]
      simp only [Bool.false_eq_true, if_false]
      generalize hgd : (poolDump d.pool).1 = g at *
      generalize hpd : (poolDump d.pool).2 = pool' at *
      have hhead : (g.headD default).header.pid = k := b6 _ (MuxDemux.headD_mem _ _ b2)
      obtain ⟨g1, g2, g3, g4, g5⟩ := group_pid pid pm₀ (withPool d pool') g k hrep.parser hbuf hhead
      have g2' : ((withPool d pool').group g).2.pool = pool' := g2
      have hmode : k ≠ pid ∨ early pid d.programMap = early pid pm₀ := by
        rcases hok with h | h
        · exact Or.inr h
        · left
          intro hk
          subst hk
          exact b2 (b1.trans h)
      have hC := g5 hmode
      have hkey : resOut pid ((withPool d pool').group g).1 ++ expectP pm₀ pid ((withPool d pool').group g).2 [] =
          expectP pm₀ pid d [] := by
        rw [hexp]
        unfold expectP
        rw [g2', ← List.append_assoc, hC]
        simp only [List.filter_nil]
        rw [parsedOn_nil, parsedOn_nil]
        by_cases hk : k = pid
        · subst hk
          rw [b3, ← b1, hne]
          simp
        · rw [b4 pid (fun hh => hk hh.symm)]
          simp [hk]
      have hidle : d.pool.get pid = [] → pool'.get pid = [] := by
        intro h
        by_cases hk : k = pid
        · subst hk; exact b3
        · rw [b4 pid (fun hh => hk hh.symm)]; exact h
      have hcont : ∀ d' : Demux, SameIO d d' → d'.pool = pool' → d'.dataBuffer = [] → d'.programMap = d.programMap →
          expectP pm₀ pid d' [] = expectP pm₀ pid d [] →
          StepPostP pid pm₀ (d.pool.get pid = []) (expectP pm₀ pid d []) (d'.drain fuel) := by
        intro d' hio' hp' hb' hpm' he'
        have hok' : early pid d'.programMap = early pid pm₀ ∨ d'.pool.get pid = [] := by
          rw [hpm', hp']
          rcases hok with h | h
          · exact Or.inl h
          · exact Or.inr (hidle h)
        have := ih d' (hrep.transfer hio') (by rw [hp']; exact b5) hb' hok' (by rw [hp']; omega)
        rw [he'] at this
        obtain ⟨cs', s', q1, q2, q3, q4, q5, q6, q7⟩ := this
        exact ⟨cs', s', q1, q2, q3, q4, fun h => q5 (by rw [hp']; exact hidle h), q6, q7⟩
      rcases hgr : (withPool d pool').group g with ⟨o, d'⟩
      rw [hgr] at g1 g2' g3 g4 hkey
      cases o with
      | none =>
        simp only
        obtain ⟨hb', hpm'⟩ := g3 (fun x h => by cases h)
        refine hcont d' g1 g2' hb' hpm' ?_
        simpa [resOut] using hkey
      | some r =>
        cases r with
        | ok x =>
          simp only
          exact ⟨[], [], hrep.transfer g1, trivial, (by rw [g2']; exact b5), fun er he => (by cases he),
            fun h => (by rw [g2']; exact hidle h), fun h => (by cases h), fun _ => hkey⟩
        | panic =>
          simp only
          exact ⟨[], [], hrep.transfer g1, trivial, (by rw [g2']; exact b5), fun er he => (by cases he),
            fun h => (by rw [g2']; exact hidle h), fun h => (by cases h), fun _ => hkey⟩
        | err e =>
          simp only
          obtain ⟨hb', hpm'⟩ := g3 (fun x h => by cases h)
          refine hcont d' g1 g2' hb' hpm' ?_
          simpa [resOut, pidOut] using hkey

/-- the packet loop -/
theorem dataLoop_postP (pid : Nat) (pm₀ : ProgramMap) :
    ∀ (cs : List Bytes) (s : List Packet) (fuel : Nat) (d : Demux), Rep d cs → ParsesTo cs s → PoolWF d.pool →
      d.dataBuffer = [] → cs.length < fuel →
      (early pid d.programMap = early pid pm₀ ∨ Idle pid d (d.fed fuel)) →
      StepPostP pid pm₀ (Idle pid d (d.fed fuel)) (expectP pm₀ pid d s) (d.dataLoop fuel) := by
  intro cs
  induction cs with
  | nil =>
    intro s fuel d hrep hs hwf hbuf hl hok
    have hs0 := ParsesTo.nil_inv hs
    subst hs0
    obtain ⟨d1, hnp, hrep1, hsd⟩ := nextPacket_nil d hrep
    cases fuel with
    | zero => omega
    | succ f =>
      rw [Astits.dataLoop_succ d f, hnp]
      simp only
      have hexp : expectP pm₀ pid d1 [] = expectP pm₀ pid d [] := by
        unfold expectP; rw [hsd.1, hsd.2.2]
      rw [← hexp]
      have hok1 : early pid d1.programMap = early pid pm₀ ∨ d1.pool.get pid = [] := by
        rw [hsd.1, hsd.2.1]
        rcases hok with h | h
        · exact Or.inl h
        · exact Or.inr h.1
      obtain ⟨cs', s', q1, q2, q3, q4, q5, q6, q7⟩ :=
        drain_postP pid pm₀ _ d1 hrep1 (by rw [hsd.1]; exact hwf) (by rw [hsd.2.2]; exact hbuf) hok1 (Nat.lt_succ_self _)
      exact ⟨cs', s', q1, q2, q3, q4, fun h => q5 (by rw [hsd.1]; exact h.1), q6, q7⟩
  | cons c cs ih =>
    intro s fuel d hrep hs hwf hbuf hl hok
    cases s with
    | nil => exact hs.elim
    | cons p s' =>
      obtain ⟨hp, hs'⟩ := hs
      obtain ⟨d1, hnp, hrep1, hsd⟩ := nextPacket_cons d c cs p hrep hp
      cases fuel with
      | zero => omega
      | succ f =>
        have hfed : d.fed (f + 1) =
            p :: (match (d1.feed p).1 with
                  | none => (d1.feed p).2.fed f
                  | some _ => []) := by
          simp only [Demux.fed, hnp]
          rfl
        rw [Astits.dataLoop_succ d f, hnp, hfed]
        rw [hfed] at hok
        simp only
        have hexp : expectP pm₀ pid d1 (p :: s') = expectP pm₀ pid d (p :: s') := by
          unfold expectP; rw [hsd.1, hsd.2.2]
        have hwf1 : PoolWF d1.pool := by rw [hsd.1]; exact hwf
        have hbuf1 : d1.dataBuffer = [] := by rw [hsd.2.2]; exact hbuf
        have hok1 : early pid d1.programMap = early pid pm₀ ∨ accepted pid p = false := by
          rw [hsd.2.1]
          rcases hok with h | h
          · exact Or.inl h
          · exact Or.inr (h.2 p (by simp))
        obtain ⟨f1, f2, f3, f4, f5, f6⟩ := feed_pid pid pm₀ d1 p s' hrep1.parser hbuf1 hwf1 hok1
        rcases hfd : d1.feed p with ⟨o, d2⟩
        rw [hfd] at f1 f2 f3 f4 f5 f6 hok
        simp only at f1 f2 f3 f4 f5 f6 hok ⊢
        have hget : Idle pid d (p :: (match o with | none => d2.fed f | some _ => [])) → d2.pool.get pid = [] := by
          intro h
          rw [f5 (h.2 p (by simp)), hsd.1]
          exact h.1
        cases o with
        | some r =>
          simp only at hok hget ⊢
          refine ⟨cs, s', hrep1.transfer f1, hs', f2, fun er he => ?_, hget, fun h => ?_, fun _ => ?_⟩
          · have he' : r = .err er := he
            exact Or.inr (f4 er (by rw [he']))
          · cases r with
            | ok x => cases h
            | panic => cases h
            | err e =>
              have := f4 e rfl
              subst this
              cases h
          · rw [← hexp, ← f6]; rfl
        | none =>
          simp only at hok hget ⊢
          obtain ⟨hb2, hpm2⟩ := f3 (fun x h => by cases h)
          have hok2 : early pid d2.programMap = early pid pm₀ ∨ Idle pid d2 (d2.fed f) := by
            rw [hpm2, hsd.2.1]
            rcases hok with h | h
            · exact Or.inl h
            · exact Or.inr ⟨hget h, fun x hx => h.2 x (by simp [hx])⟩
          obtain ⟨cs', s'', q1, q2, q3, q4, q5, q6, q7⟩ :=
            ih s' f d2 (hrep1.transfer f1) hs' f2 hb2 (by simp at hl; omega) hok2
          have he2 : expectP pm₀ pid d2 s' = expectP pm₀ pid d (p :: s') := by
            rw [← hexp, ← f6]; rfl
          rw [he2] at q6 q7
          exact ⟨cs', s'', q1, q2, q3, q4,
            fun h => q5 ⟨hget h, fun x hx => h.2 x (by simp [hx])⟩, q6, q7⟩

/-- **one `NextData` call** -/
theorem nextData_postP (pid : Nat) (pm₀ : ProgramMap) (cs : List Bytes) (s : List Packet) (d : Demux) (hrep : Rep d cs)
    (hs : ParsesTo cs s) (hwf : PoolWF d.pool)
    (hok : early pid d.programMap = early pid pm₀ ∨ Idle pid d d.fedByNextData) :
    StepPostP pid pm₀ (Idle pid d d.fedByNextData) (expectP pm₀ pid d s) d.nextData := by
  cases hb : d.dataBuffer with
  | nil =>
    have hfb : d.fedByNextData = d.fed (d.r.data.length + 2) := by
      unfold Demux.fedByNextData; rw [hb]
    have hnd : d.nextData = d.dataLoop (d.r.data.length + 2) := by
      unfold Demux.nextData; rw [hb]
    rw [hfb] at hok ⊢
    rw [hnd]
    refine dataLoop_postP pid pm₀ cs s _ d hrep hs hwf hb ?_ hok
    have h1 := length_le_flatten188 cs hrep.len
    have h2 : cs.flatten.length ≤ d.r.data.length := by
      rw [← hrep.data, List.length_drop]; omega
    omega
  | cons x rest =>
    have hnd : d.nextData = (.ok x, { d with dataBuffer := rest }) := by
      unfold Demux.nextData; rw [hb]
    rw [hnd]
    refine ⟨cs, s, hrep.transfer ⟨rfl, rfl, rfl, rfl, rfl⟩, hs, hwf, fun er he => (by cases he), fun h => h.1,
      fun h => (by cases h), fun _ => ?_⟩
    simp only [expectP, hb, List.filter_cons]
    by_cases hx : x.pid = pid
    · simp [pidOut, hx]
    · simp [pidOut, hx]

/-! ## sequences of `NextData` calls -/

/-- the reference condition of one call: the program map shows `pid` the reference bit, or `pid` is idle during the call -/
def CallOK (pid : Nat) (pm₀ : ProgramMap) (d : Demux) : Prop :=
  early pid d.programMap = early pid pm₀ ∨ Idle pid d d.fedByNextData

theorem collect_pidP (pid : Nat) (pm₀ : ProgramMap) :
    ∀ (n : Nat) (d : Demux) (cs : List Bytes) (s : List Packet), Rep d cs → ParsesTo cs s → PoolWF d.pool →
      (∀ k, k < n → CallOK pid pm₀ (after k d)) → (collect n d).2 = true →
      pidOut pid (collect n d).1 = expectP pm₀ pid d s := by
  intro n
  induction n with
  | zero => intro d cs s _ _ _ _ he; simp [collect] at he
  | succ n ih =>
    intro d cs s hrep hs hwf hsafe he
    obtain ⟨cs', s', p1, p2, p3, _, _, p4, p5⟩ := nextData_postP pid pm₀ cs s d hrep hs hwf (hsafe 0 (by omega))
    unfold collect at he ⊢
    by_cases heof : isEOF d.nextData.1 = true
    · simp only [heof, if_true]
      rw [p4 heof]; rfl
    · have heof' : isEOF d.nextData.1 = false := by simpa using heof
      simp only [heof', Bool.false_eq_true, if_false] at he ⊢
      rw [pidOut_cons, ih d.nextData.2 cs' s' p1 p2 p3 (fun k hk => hsafe (k + 1) (by omega)) he]
      exact p5 heof'

/-- **`NextData` sequences deliver, on any PID, exactly the parsed groups of its accumulator under the reference map** -/
theorem nextData_deliversP (pid : Nat) (pm₀ : ProgramMap) (cs : List Bytes) (s : List Packet) (hs : ParsesTo cs s)
    (hlen : ∀ c ∈ cs, c.length = 188)
    (n : Nat) (hsafe : ∀ k, k < n → CallOK pid pm₀ (after k (demuxOf cs.flatten)))
    (hend : (collect n (demuxOf cs.flatten)).2 = true) :
    pidOut pid (collect n (demuxOf cs.flatten)).1 = pidData pm₀ pid (s.filter (accepted pid)) := by
  rw [collect_pidP pid pm₀ n _ cs s (rep_demuxOf cs hlen) hs trivial hsafe hend]
  rfl

/-! ## errors: with packets that all parse, the only error a call returns before the end is a unit that fails to parse -/

theorem collect_errs :
    ∀ (n : Nat) (d : Demux) (cs : List Bytes) (s : List Packet), Rep d cs → ParsesTo cs s → PoolWF d.pool →
      ∀ r ∈ (collect n d).1, ∀ e, r = .err e → e = .other := by
  intro n
  induction n with
  | zero => intro d cs s _ _ _ r hr; simp [collect] at hr
  | succ n ih =>
    intro d cs s hrep hs hwf r hr e he
    obtain ⟨cs', s', p1, p2, p3, p4, _, _, _⟩ := nextData_postP 0 d.programMap cs s d hrep hs hwf (Or.inl rfl)
    unfold collect at hr
    by_cases heof : isEOF d.nextData.1 = true
    · simp [heof] at hr
    · have heof' : isEOF d.nextData.1 = false := by simpa using heof
      simp only [heof', Bool.false_eq_true, if_false, List.mem_cons] at hr
      rcases hr with hr | hr
      · subst hr
        rcases p4 e he with h | h
        · subst h; rw [he] at heof'; cases heof'
        · exact h
      · exact ih d.nextData.2 cs' s' p1 p2 p3 r hr e he

/-! ## a PID that is idle until the PAT announcing it has been delivered -/

theorem after_add (a b : Nat) (d : Demux) : after (a + b) d = after b (after a d) := by
  induction a generalizing d with
  | zero => simp [after]
  | succ a ih =>
    have e : a + 1 + b = (a + b) + 1 := by omega
    rw [e]
    show after (a + b) d.nextData.2 = after b (after a d.nextData.2)
    exact ih _

theorem after_grow (j : Nat) (d : Demux) : PMGrow d (after j d) := by
  induction j generalizing d with
  | zero => exact PMGrow.refl d
  | succ j ih => exact PMGrow.trans (nextData_grow d) (ih d.nextData.2)

/-- while the calls read no packet accepted on `pid`, its queue stays empty -/
theorem idle_prefix (pid : Nat) :
    ∀ (k₀ : Nat) (d : Demux) (cs : List Bytes) (s : List Packet), Rep d cs → ParsesTo cs s → PoolWF d.pool →
      d.pool.get pid = [] →
      (∀ k, k < k₀ → ∀ p ∈ (after k d).fedByNextData, accepted pid p = false) →
      ∀ k, k ≤ k₀ → (after k d).pool.get pid = [] := by
  intro k₀
  induction k₀ with
  | zero =>
    intro d cs s _ _ _ h0 _ k hk
    have : k = 0 := by omega
    subst this
    exact h0
  | succ k₀ ih =>
    intro d cs s hrep hs hwf h0 hq k hk
    cases k with
    | zero => exact h0
    | succ k =>
      have hidle : Idle pid d d.fedByNextData := ⟨h0, hq 0 (by omega)⟩
      obtain ⟨cs', s', p1, p2, p3, _, p5, _, _⟩ :=
        nextData_postP pid d.programMap cs s d hrep hs hwf (Or.inr hidle)
      exact ih d.nextData.2 cs' s' p1 p2 p3 (p5 hidle) (fun j hj => hq (j + 1) (by omega)) k (by omega)

/-- the PAT announcing `pid` is delivered by the first `k₀` calls, which read no packet accepted on `pid`: every call is
fine with respect to any reference map listing `pid` -/
theorem callOK_of_pat (pid : Nat) (pm₀ : ProgramMap) (hpm₀ : pm₀.has pid = true) (d : Demux) (cs : List Bytes)
    (s : List Packet) (hrep : Rep d cs) (hs : ParsesTo cs s) (hwf : PoolWF d.pool) (h0 : d.pool.get pid = [])
    (k₀ : Nat) (hpat : (after k₀ d).programMap.has pid = true)
    (hquiet : ∀ k, k < k₀ → ∀ p ∈ (after k d).fedByNextData, accepted pid p = false) :
    ∀ k, CallOK pid pm₀ (after k d) := by
  intro k
  by_cases hk : k < k₀
  · exact Or.inr ⟨idle_prefix pid k₀ d cs s hrep hs hwf h0 hquiet k (by omega), hquiet k hk⟩
  · left
    have e : k = k₀ + (k - k₀) := by omega
    have hg := after_grow (k - k₀) (after k₀ d) pid hpat
    rw [← after_add, ← e] at hg
    unfold early
    rw [hg, hpm₀]

/-! ## order-preserving interleavings -/

/-- `b` is `a` with packets that are not accepted on `pid` inserted anywhere (packets of other PIDs, null packets,
adaptation-field-only packets and transport-error packets of `pid` itself), the order of `a` being preserved -/
inductive Interleaved (pid : Nat) : List Packet → List Packet → Prop
  | nil : Interleaved pid [] []
  | keep (p : Packet) {a b : List Packet} : Interleaved pid a b → Interleaved pid (p :: a) (p :: b)
  | insert (x : Packet) {a b : List Packet} : accepted pid x = false → Interleaved pid a b → Interleaved pid a (x :: b)

theorem Interleaved.filter_eq {pid : Nat} {a b : List Packet} (h : Interleaved pid a b) :
    a.filter (accepted pid) = b.filter (accepted pid) := by
  induction h with
  | nil => rfl
  | keep p _ ih =>
    simp only [List.filter_cons, ih]
  | insert x hx _ ih =>
    simp only [List.filter_cons, hx, Bool.false_eq_true, if_false, ih]

/-- every stream is such an interleaving of its own accepted packets on `pid` -/
theorem interleaved_filter (pid : Nat) (s : List Packet) : Interleaved pid (s.filter (accepted pid)) s := by
  induction s with
  | nil => exact .nil
  | cons p s ih =>
    by_cases hp : accepted pid p = true
    · simp only [List.filter_cons, hp, if_true]
      exact .keep p ih
    · have hp' : accepted pid p = false := by simpa using hp
      simp only [List.filter_cons, hp', Bool.false_eq_true, if_false]
      exact .insert p hp' ih

/-- the same packets on `pid` (whatever their flags) give the same accepted packets -/
theorem accepted_filter_of_pid_filter (pid : Nat) (s₁ s₂ : List Packet)
    (h : s₁.filter (fun p => p.header.pid == pid) = s₂.filter (fun p => p.header.pid == pid)) :
    s₁.filter (accepted pid) = s₂.filter (accepted pid) := by
  have e : ∀ s : List Packet, s.filter (accepted pid) =
      (s.filter (fun p => p.header.pid == pid)).filter (fun p => p.header.hasPayload && !p.header.transportErrorIndicator) := by
    intro s
    rw [List.filter_filter]
    apply List.filter_congr
    intro p _
    simp only [accepted]
    cases (p.header.pid == pid) <;> cases p.header.hasPayload <;> cases p.header.transportErrorIndicator <;> rfl
  rw [e s₁, e s₂, h]

/-- executable check of `Interleaved` (for concrete streams) -/
def interleavedB (pid : Nat) : List Packet → List Packet → Bool
  | a, [] => a.isEmpty
  | a, x :: b =>
    (match a with
     | p :: a' => decide (p = x) && interleavedB pid a' b
     | [] => false) || (!accepted pid x && interleavedB pid a b)

theorem interleaved_of_B (pid : Nat) : ∀ (b a : List Packet), interleavedB pid a b = true → Interleaved pid a b := by
  intro b
  induction b with
  | nil =>
    intro a h
    cases a with
    | nil => exact .nil
    | cons _ _ => simp [interleavedB] at h
  | cons x b ih =>
    intro a h
    unfold interleavedB at h
    rw [Bool.or_eq_true] at h
    rcases h with h | h
    · cases a with
      | nil => simp at h
      | cons p a' =>
        simp only [Bool.and_eq_true, decide_eq_true_eq] at h
        obtain ⟨rfl, h2⟩ := h
        exact .keep p (ih a' h2)
    · simp only [Bool.and_eq_true, Bool.not_eq_true'] at h
      exact .insert x h.1 (ih a h.2)

end Astits.PerPid
