/-
Per-descriptor round trip, kinds with a flags byte and optional fields (AC-3, enhanced AC-3, extension), and the
unknown-tag descriptor.
-/
import Astits.Proofs.DescRT.Core
namespace Astits.DescRT
open Astits Astits.PacketRT

/-- an optional one-byte field: 8 bits when its flag is set, Go's zero value when it is not (the parser leaves the
field alone when the flag is clear, the writer does not emit it) -/
def OptByte (flag : Bool) (v : Nat) : Prop := (flag = true → v < 256) ∧ (flag = false → v = 0)

instance (flag : Bool) (v : Nat) : Decidable (OptByte flag v) := by unfold OptByte; infer_instance

theorem optByte_at (pre : Bytes) (c : Bool) (v : Nat) (h : OptByte c v) :
    ParsesAt pre (byteIf c) (if c = true then wU8 v else []) v := byteIf_at pre c v h.1 h.2

/-! ### AC-3 -/

def ofAC3 (x : DescriptorAC3) : Descriptor :=
  { tag := descriptorTagAC3, length := calcDescriptorAC3Length x, ac3 := some x }

structure AC3WF (x : DescriptorAC3) : Prop where
  componentType : OptByte x.hasComponentType x.componentType
  bsid : OptByte x.hasBSID x.bsid
  mainID : OptByte x.hasMainID x.mainID
  asvc : OptByte x.hasASVC x.asvc
  fits : DescLen.ac3Size x < 256

def ac3Byte (x : DescriptorAC3) : Nat :=
  (((b2n x.hasComponentType * 2 + b2n x.hasBSID) * 2 + b2n x.hasMainID) * 2 + b2n x.hasASVC) * 16 + 15

theorem ac3_bytes (x : DescriptorAC3) :
    packFields [(b2n x.hasComponentType, 1), (b2n x.hasBSID, 1), (b2n x.hasMainID, 1), (b2n x.hasASVC, 1), (0xff, 4)]
      = [ac3Byte x] := by
  have h1 := b2n_le x.hasComponentType
  have h2 := b2n_le x.hasBSID
  have h3 := b2n_le x.hasMainID
  have h4 := b2n_le x.hasASVC
  simp only [packFields, fieldsWidth, fieldsValue, beBytes, Nat.reducePow, ac3Byte]
  congr 1; omega

theorem ac3_decode (x : DescriptorAC3) :
    (ac3Byte x / 128 % 2 = 1) = (x.hasComponentType = true) ∧ (ac3Byte x / 64 % 2 = 1) = (x.hasBSID = true) ∧
    (ac3Byte x / 32 % 2 = 1) = (x.hasMainID = true) ∧ (ac3Byte x / 16 % 2 = 1) = (x.hasASVC = true) := by
  have h1 := b2n_le x.hasComponentType
  have h2 := b2n_le x.hasBSID
  have h3 := b2n_le x.hasMainID
  have h4 := b2n_le x.hasASVC
  rw [← b2n_eq_one, ← b2n_eq_one, ← b2n_eq_one, ← b2n_eq_one]
  unfold ac3Byte
  refine ⟨?_, ?_, ?_, ?_⟩ <;> (apply congrArg (· = 1); omega)

theorem ac3_body (x : DescriptorAC3) (wf : AC3WF x) (pre : Bytes) :
    ParsesAt pre (newDescriptorAC3 ((pre.length : Int) + ((writeDescriptorAC3 x).length : Nat)))
      (writeDescriptorAC3 x) x := by
  have hlen := DescLen.ac3_length x
  unfold newDescriptorAC3
  unfold writeDescriptorAC3 at hlen ⊢
  rw [ac3_bytes] at hlen ⊢
  obtain ⟨d1, d2, d3, d4⟩ := ac3_decode x
  simp only [List.append_assoc] at hlen ⊢
  refine ParsesAt.bind (nextByte_at _ _) ?_
  simp only [d1, d2, d3, d4, Bool.decide_eq_true]
  refine ParsesAt.bind (optByte_at _ _ _ wf.componentType) ?_
  refine ParsesAt.bind (optByte_at _ _ _ wf.bsid) ?_
  refine ParsesAt.bind (optByte_at _ _ _ wf.mainID) ?_
  refine ParsesAt.bind (optByte_at _ _ _ wf.asvc) ?_
  refine ParsesAt.bind_last (restIfAny_at _ _ _ ?_) (ParsesAt.pure _ _)
  simp only [List.length_append, List.length_cons, List.length_nil, Int.natCast_add] at hlen ⊢
  omega

theorem ac3_ok (x : DescriptorAC3) (wf : AC3WF x) : PSIRT.DescOk (ofAC3 x) := by
  have h2 := wf.fits
  have hs : (writeDescriptorAC3 x).length = DescLen.ac3Size x := DescLen.ac3_length x
  have hl : (writeDescriptorAC3 x).length = calcDescriptorAC3Length x := by
    rw [hs, DescLen.ac3_calc]; omega
  have hp : 0 < DescLen.ac3Size x := by unfold DescLen.ac3Size; omega
  refine frame _ descriptorTagAC3 (writeDescriptorAC3 x) rfl (by decide) (by decide) hl.symm rfl (by omega) (by omega) ?_
  intro pre
  have hb := ac3_body x wf pre
  rw [hl] at hb ⊢
  switch_simp
  exact ParsesAt.bind_last hb (ParsesAt.pure _ _)

/-! ### enhanced AC-3 -/

def ofEnhancedAC3 (x : DescriptorEnhancedAC3) : Descriptor :=
  { tag := descriptorTagEnhancedAC3, length := calcDescriptorEnhancedAC3Length x, enhancedAC3 := some x }

structure EnhancedAC3WF (x : DescriptorEnhancedAC3) : Prop where
  componentType : OptByte x.hasComponentType x.componentType
  bsid : OptByte x.hasBSID x.bsid
  mainID : OptByte x.hasMainID x.mainID
  asvc : OptByte x.hasASVC x.asvc
  subStream1 : OptByte x.hasSubStream1 x.subStream1
  subStream2 : OptByte x.hasSubStream2 x.subStream2
  subStream3 : OptByte x.hasSubStream3 x.subStream3
  fits : DescLen.enhancedAC3Size x < 256

def eac3Byte (x : DescriptorEnhancedAC3) : Nat :=
  ((((((b2n x.hasComponentType * 2 + b2n x.hasBSID) * 2 + b2n x.hasMainID) * 2 + b2n x.hasASVC) * 2
    + b2n x.mixInfoExists) * 2 + b2n x.hasSubStream1) * 2 + b2n x.hasSubStream2) * 2 + b2n x.hasSubStream3

theorem eac3_bytes (x : DescriptorEnhancedAC3) :
    packFields [(b2n x.hasComponentType, 1), (b2n x.hasBSID, 1), (b2n x.hasMainID, 1), (b2n x.hasASVC, 1),
      (b2n x.mixInfoExists, 1), (b2n x.hasSubStream1, 1), (b2n x.hasSubStream2, 1), (b2n x.hasSubStream3, 1)]
      = [eac3Byte x] := by
  have h1 := b2n_le x.hasComponentType
  have h2 := b2n_le x.hasBSID
  have h3 := b2n_le x.hasMainID
  have h4 := b2n_le x.hasASVC
  have h5 := b2n_le x.mixInfoExists
  have h6 := b2n_le x.hasSubStream1
  have h7 := b2n_le x.hasSubStream2
  have h8 := b2n_le x.hasSubStream3
  simp only [packFields, fieldsWidth, fieldsValue, beBytes, Nat.reducePow, eac3Byte]
  congr 1; omega

theorem eac3_decode (x : DescriptorEnhancedAC3) :
    (eac3Byte x / 128 % 2 = 1) = (x.hasComponentType = true) ∧ (eac3Byte x / 64 % 2 = 1) = (x.hasBSID = true) ∧
    (eac3Byte x / 32 % 2 = 1) = (x.hasMainID = true) ∧ (eac3Byte x / 16 % 2 = 1) = (x.hasASVC = true) ∧
    (eac3Byte x / 8 % 2 = 1) = (x.mixInfoExists = true) ∧ (eac3Byte x / 4 % 2 = 1) = (x.hasSubStream1 = true) ∧
    (eac3Byte x / 2 % 2 = 1) = (x.hasSubStream2 = true) ∧ (eac3Byte x % 2 = 1) = (x.hasSubStream3 = true) := by
  have h1 := b2n_le x.hasComponentType
  have h2 := b2n_le x.hasBSID
  have h3 := b2n_le x.hasMainID
  have h4 := b2n_le x.hasASVC
  have h5 := b2n_le x.mixInfoExists
  have h6 := b2n_le x.hasSubStream1
  have h7 := b2n_le x.hasSubStream2
  have h8 := b2n_le x.hasSubStream3
  rw [← b2n_eq_one, ← b2n_eq_one, ← b2n_eq_one, ← b2n_eq_one, ← b2n_eq_one, ← b2n_eq_one, ← b2n_eq_one, ← b2n_eq_one]
  unfold eac3Byte
  refine ⟨?_, ?_, ?_, ?_, ?_, ?_, ?_, ?_⟩ <;> (apply congrArg (· = 1); omega)

theorem enhancedAC3_body (x : DescriptorEnhancedAC3) (wf : EnhancedAC3WF x) (pre : Bytes) :
    ParsesAt pre (newDescriptorEnhancedAC3 ((pre.length : Int) + ((writeDescriptorEnhancedAC3 x).length : Nat)))
      (writeDescriptorEnhancedAC3 x) x := by
  have hlen := DescLen.enhancedAC3_length x
  unfold newDescriptorEnhancedAC3
  unfold writeDescriptorEnhancedAC3 at hlen ⊢
  rw [eac3_bytes] at hlen ⊢
  obtain ⟨d1, d2, d3, d4, d5, d6, d7, d8⟩ := eac3_decode x
  simp only [List.append_assoc] at hlen ⊢
  refine ParsesAt.bind (nextByte_at _ _) ?_
  simp only [d1, d2, d3, d4, d5, d6, d7, d8, Bool.decide_eq_true]
  refine ParsesAt.bind (optByte_at _ _ _ wf.componentType) ?_
  refine ParsesAt.bind (optByte_at _ _ _ wf.bsid) ?_
  refine ParsesAt.bind (optByte_at _ _ _ wf.mainID) ?_
  refine ParsesAt.bind (optByte_at _ _ _ wf.asvc) ?_
  refine ParsesAt.bind (optByte_at _ _ _ wf.subStream1) ?_
  refine ParsesAt.bind (optByte_at _ _ _ wf.subStream2) ?_
  refine ParsesAt.bind (optByte_at _ _ _ wf.subStream3) ?_
  refine ParsesAt.bind_last (restIfAny_at _ _ _ ?_) (ParsesAt.pure _ _)
  simp only [List.length_append, List.length_cons, List.length_nil, Int.natCast_add] at hlen ⊢
  omega

theorem enhancedAC3_ok (x : DescriptorEnhancedAC3) (wf : EnhancedAC3WF x) : PSIRT.DescOk (ofEnhancedAC3 x) := by
  have h2 := wf.fits
  have hs : (writeDescriptorEnhancedAC3 x).length = DescLen.enhancedAC3Size x := DescLen.enhancedAC3_length x
  have hl : (writeDescriptorEnhancedAC3 x).length = calcDescriptorEnhancedAC3Length x := by
    rw [hs, DescLen.enhancedAC3_calc]; omega
  have hp : 0 < DescLen.enhancedAC3Size x := by unfold DescLen.enhancedAC3Size; omega
  refine frame _ descriptorTagEnhancedAC3 (writeDescriptorEnhancedAC3 x) rfl (by decide) (by decide) hl.symm rfl (by omega) (by omega) ?_
  intro pre
  have hb := enhancedAC3_body x wf pre
  rw [hl] at hb ⊢
  switch_simp
  exact ParsesAt.bind_last hb (ParsesAt.pure _ _)

/-! ### extension: supplementary audio (extension tag 6) or raw bytes (any other extension tag) -/

structure SupplementaryAudioWF (s : DescriptorExtensionSupplementaryAudio) : Prop where
  editorialClassification : s.editorialClassification < 32
  language : s.hasLanguageCode = true → s.languageCode.length = 3
  noLanguage : s.hasLanguageCode = false → s.languageCode = []

def saByte (s : DescriptorExtensionSupplementaryAudio) : Nat :=
  ((b2n s.mixType * 32 + s.editorialClassification % 32) * 2 + 1) * 2 + b2n s.hasLanguageCode

theorem sa_bytes (s : DescriptorExtensionSupplementaryAudio) :
    packFields [(b2n s.mixType, 1), (s.editorialClassification, 5), (1, 1), (b2n s.hasLanguageCode, 1)] = [saByte s] := by
  have h1 := b2n_le s.mixType
  have h2 := b2n_le s.hasLanguageCode
  simp only [packFields, fieldsWidth, fieldsValue, beBytes, Nat.reducePow, saByte]
  congr 1; omega

theorem sa_decode (s : DescriptorExtensionSupplementaryAudio) (h : s.editorialClassification < 32) :
    (saByte s % 2 = 1) = (s.hasLanguageCode = true) ∧ saByte s / 4 % 32 = s.editorialClassification ∧
    (saByte s / 128 % 2 = 1) = (s.mixType = true) := by
  have h1 := b2n_le s.mixType
  have h2 := b2n_le s.hasLanguageCode
  rw [← b2n_eq_one, ← b2n_eq_one]
  unfold saByte
  refine ⟨?_, ?_, ?_⟩ <;> first | omega | (apply congrArg (· = 1); omega)

theorem supplementaryAudio_body (s : DescriptorExtensionSupplementaryAudio) (wf : SupplementaryAudioWF s) (pre : Bytes) (e : Int)
    (he : e = (pre.length : Int) + ((writeDescriptorExtensionSupplementaryAudio s).length : Nat)) :
    ParsesAt pre (newDescriptorExtensionSupplementaryAudio e) (writeDescriptorExtensionSupplementaryAudio s) s := by
  subst he
  have hw : (if s.hasLanguageCode = true then wBytesN s.languageCode 3 0 else []) = (if s.hasLanguageCode = true then s.languageCode else []) := by
    cases h : s.hasLanguageCode
    · simp
    · simp only [if_true]; exact wBytesN_exact _ _ _ (wf.language h)
  have hv : (if s.hasLanguageCode = true then s.languageCode else []) = s.languageCode := by
    cases h : s.hasLanguageCode
    · simp [wf.noLanguage h]
    · simp
  unfold newDescriptorExtensionSupplementaryAudio writeDescriptorExtensionSupplementaryAudio
  rw [sa_bytes, hw]
  obtain ⟨d1, d2, d3⟩ := sa_decode s wf.editorialClassification
  simp only [List.append_assoc]
  refine ParsesAt.bind (nextByte_at _ _) ?_
  simp only [d1, d2, d3, Bool.decide_eq_true]
  refine ParsesAt.bind (opt_at _ _ _ _ _ s.languageCode ?_) ?_
  · intro hc
    exact nextBytes_at _ _ 3 (by simp [wf.language hc])
  refine ParsesAt.bind_last (restIfAny_at _ _ _ ?_) ?_
  · simp only [List.length_append, List.length_cons, List.length_nil, Int.natCast_add]
    omega
  refine ParsesAt.congr_val (ParsesAt.pure _ _) ?_
  rw [hv]

def ofExtension (x : DescriptorExtension) : Descriptor :=
  { tag := descriptorTagExtension, length := calcDescriptorExtensionLength x, extension := some x }

/-- the two shapes the parser produces: tag 6 with `SupplementaryAudio` set and `Unknown` nil, or any other 8-bit
extension tag with `Unknown` set (possibly to an empty slice) and `SupplementaryAudio` nil -/
inductive ExtensionWF : DescriptorExtension → Prop
  | supplementaryAudio (s : DescriptorExtensionSupplementaryAudio) (wf : SupplementaryAudioWF s)
      (fits : 1 + calcDescriptorExtensionSupplementaryAudioLength s < 256) :
      ExtensionWF { supplementaryAudio := some s, tag := descriptorTagExtensionSupplementaryAudio, unknown := none }
  | unknown (tag : Nat) (b : Bytes) (ht : tag ≠ descriptorTagExtensionSupplementaryAudio) (h256 : tag < 256)
      (fits : 1 + b.length < 256) :
      ExtensionWF { supplementaryAudio := none, tag := tag, unknown := some b }

theorem ParsesAt.congr_parser {α} {pre xs : Bytes} {p q : P α} {a : α} (h : ParsesAt pre p xs a) (e : p = q) :
    ParsesAt pre q xs a := e ▸ h

theorem extension_body (x : DescriptorExtension) (wf : ExtensionWF x) (pre : Bytes) :
    ParsesAt pre (newDescriptorExtension ((pre.length : Int) + ((writeDescriptorExtension x).length : Nat)))
      (writeDescriptorExtension x) x := by
  cases wf with
  | supplementaryAudio s wf fits =>
    unfold newDescriptorExtension writeDescriptorExtension
    simp only [if_true]
    refine ParsesAt.bind (wU8_at _ _ (by decide)) ?_
    simp only [if_true]
    refine ParsesAt.bind_last (supplementaryAudio_body s wf _ _ ?_) (ParsesAt.pure _ _)
    simp only [List.length_append, Int.natCast_add]; omega
  | unknown tag b ht h256 fits =>
    unfold newDescriptorExtension writeDescriptorExtension
    simp only [ht, if_false]
    refine ParsesAt.bind (wU8_at _ _ h256) ?_
    simp only [ht, if_false]
    refine ParsesAt.bind_last (restTo_at _ _ _ ?_) (ParsesAt.pure _ _)
    simp only [List.length_append, Int.natCast_add]; omega

theorem extension_fits (x : DescriptorExtension) (wf : ExtensionWF x) : DescLen.extensionSize x < 256 ∧ 0 < DescLen.extensionSize x := by
  cases wf with
  | supplementaryAudio s wf fits => simp [DescLen.extensionSize, nilOr]; omega
  | unknown tag b ht h256 fits => simp [DescLen.extensionSize, nilOr, ht]; omega

theorem extension_ok (x : DescriptorExtension) (wf : ExtensionWF x) : PSIRT.DescOk (ofExtension x) := by
  obtain ⟨h2, hp⟩ := extension_fits x wf
  have hs : (writeDescriptorExtension x).length = DescLen.extensionSize x := DescLen.extension_length x
  have hl : (writeDescriptorExtension x).length = calcDescriptorExtensionLength x := by
    rw [hs, DescLen.extension_calc]; omega
  refine frame _ descriptorTagExtension (writeDescriptorExtension x) rfl (by decide) (by decide) hl.symm rfl (by omega) (by omega) ?_
  intro pre
  have hb := extension_body x wf pre
  rw [hl] at hb ⊢
  switch_simp
  exact ParsesAt.bind_last hb (ParsesAt.pure _ _)

/-! ### the unknown-tag descriptor (the `default` branch of the `switch`) -/

def ofUnknown (x : DescriptorUnknown) : Descriptor :=
  { tag := x.tag, length := calcDescriptorUnknownLength x, unknown := some x }

/-- an 8-bit tag that is neither user-defined (0x80..0xfe) nor one of the 23 typed tags; the parser copies the
descriptor's tag into `Unknown.Tag`; an EMPTY content comes back without the sub-struct (`zero_length_rt`) -/
structure UnknownWF (x : DescriptorUnknown) : Prop where
  tag : x.tag < 256
  notUser : isUserDefinedTag x.tag = false
  notKnown : x.tag ∉ knownDescriptorTags
  nonempty : 0 < x.content.length
  fits : x.content.length < 256

theorem unknown_ok (x : DescriptorUnknown) (wf : UnknownWF x) : PSIRT.DescOk (ofUnknown x) := by
  have hk := wf.notKnown
  have hu := wf.notUser
  simp only [knownDescriptorTags, List.mem_cons, List.not_mem_nil, or_false, not_or] at hk
  obtain ⟨h1, h2, h3, h4, h5, h6, h7, h8, h9, h10, h11, h12, h13, h14, h15, h16, h17, h18, h19, h20, h21, h22, h23⟩ := hk
  have hf := wf.fits
  have hp := wf.nonempty
  have hl : (writeDescriptorUnknown x).length = calcDescriptorUnknownLength x := by
    unfold writeDescriptorUnknown calcDescriptorUnknownLength; omega
  have hs : (writeDescriptorUnknown x).length = x.content.length := rfl
  refine frame _ x.tag (writeDescriptorUnknown x) rfl wf.tag hu ?_ ?_ (by omega) (by omega) ?_
  · rw [hl]
    simp [calcDescriptorLength, ofUnknown, nilOr, *]
  · simp [descriptorBody, ofUnknown, nilBody, *]
  · intro pre
    rw [hl]
    simp only [parseDescriptorSwitch, h1, h2, h3, h4, h5, h6, h7, h8, h9, h10, h11, h12, h13, h14, h15, h16, h17, h18, h19,
      h20, h21, h22, h23, if_false]
    refine ParsesAt.bind_last ?_ (ParsesAt.pure _ _)
    unfold newDescriptorUnknown writeDescriptorUnknown
    refine ParsesAt.congr_val (ParsesAt.bind_last (nextBytes_at _ _ _ ?_) (ParsesAt.pure _ _)) ?_
    · unfold calcDescriptorUnknownLength; rw [Nat.mod_eq_of_lt hf]
    · rfl

end Astits.DescRT
