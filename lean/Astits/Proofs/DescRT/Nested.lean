/-
Per-descriptor round trip: extended event (a length-delimited item loop between fixed fields) and VBI data (a loop
of services, each with a length-delimited inner loop).
-/
import Astits.Proofs.DescRT.Strings
namespace Astits.DescRT
open Astits Astits.PacketRT

/-! ### extended event -/

def ofExtendedEvent (x : DescriptorExtendedEvent) : Descriptor :=
  { tag := descriptorTagExtendedEvent, length := (calcDescriptorExtendedEventLength x).1, extendedEvent := some x }

structure ExtendedEventItemWF (a : DescriptorExtendedEventItem) : Prop where
  description : a.description.length < 256
  content : a.content.length < 256

/-- `fits` bounds every length byte: the descriptor length, `length_of_items`, `text_length` -/
structure ExtendedEventWF (x : DescriptorExtendedEvent) : Prop where
  number : x.number < 16
  lastDescriptorNumber : x.lastDescriptorNumber < 16
  language : x.iso639LanguageCode.length = 3
  items : ∀ a ∈ x.items, ExtendedEventItemWF a
  fits : 6 + extendedEventItemsSize x.items + x.text.length < 256

def extendedEventItemBytes (a : DescriptorExtendedEventItem) : Bytes :=
  wU8 a.description.length ++ a.description ++ wU8 a.content.length ++ a.content

theorem extendedEventItems_eq (l : List DescriptorExtendedEventItem) :
    writeDescriptorExtendedEventItems l = (l.map extendedEventItemBytes).flatten := by
  induction l with
  | nil => rfl
  | cons a r ih => simp [writeDescriptorExtendedEventItems, extendedEventItemBytes, ih]

theorem extendedEventItem_at (pre : Bytes) (a : DescriptorExtendedEventItem) (ok : ExtendedEventItemWF a) :
    ParsesAt pre newDescriptorExtendedEventItem (extendedEventItemBytes a) a := by
  unfold newDescriptorExtendedEventItem extendedEventItemBytes
  simp only [List.append_assoc]
  refine ParsesAt.bind (wU8_at _ _ ok.description) ?_
  refine ParsesAt.bind (nextBytes_at _ _ _ rfl) ?_
  refine ParsesAt.bind (wU8_at _ _ ok.content) ?_
  exact ParsesAt.bind_last (nextBytes_at _ _ _ rfl) (ParsesAt.pure _ _)

theorem extendedEvent_nil (pre : Bytes) (e : Int) (f : Nat) (h : ¬ ((pre.length : Int) < e)) :
    ParsesAt pre (newDescriptorExtendedEventLoop e (f + 1)) [] [] := by
  rw [newDescriptorExtendedEventLoop]
  refine ParsesAt.bind_first (offset_at pre) ?_
  simp only [h, if_false]
  exact ParsesAt.pure _ _

theorem extendedEvent_step (pre : Bytes) (e : Int) (f : Nat) (a : DescriptorExtendedEventItem)
    (rest : List DescriptorExtendedEventItem) (rb : Bytes) (ok : ExtendedEventItemWF a) (hlt : (pre.length : Int) < e)
    (h : ParsesAt (pre ++ extendedEventItemBytes a) (newDescriptorExtendedEventLoop e f) rb rest) :
    ParsesAt pre (newDescriptorExtendedEventLoop e (f + 1)) (extendedEventItemBytes a ++ rb) (a :: rest) := by
  rw [newDescriptorExtendedEventLoop]
  refine ParsesAt.bind_first (offset_at pre) ?_
  simp only [hlt, if_true]
  refine ParsesAt.bind (extendedEventItem_at _ a ok) ?_
  exact ParsesAt.bind_last h (ParsesAt.pure _ _)

theorem extendedEventItemBytes_length (a : DescriptorExtendedEventItem) :
    (extendedEventItemBytes a).length = 1 + a.description.length + 1 + a.content.length := by
  simp [extendedEventItemBytes]; omega

theorem extendedEvent_body (x : DescriptorExtendedEvent) (wf : ExtendedEventWF x) (pre : Bytes) :
    ParsesAt pre newDescriptorExtendedEvent (writeDescriptorExtendedEvent x) x := by
  have hfit := wf.fits
  have hil := DescLen.extendedEventItems_length x.items
  unfold newDescriptorExtendedEvent writeDescriptorExtendedEvent
  rw [wBytesN_exact _ _ _ wf.language, nibbles_bytes, DescLen.extendedEvent_calc_items,
    Nat.mod_eq_of_lt (by omega : extendedEventItemsSize x.items < 256)]
  rw [extendedEventItems_eq] at hil ⊢
  obtain ⟨e1, e2⟩ := nibbles_decode _ _ wf.number wf.lastDescriptorNumber
  simp only [List.append_assoc]
  refine ParsesAt.bind (nextByte_at _ _) ?_
  refine ParsesAt.bind (nextBytes_at _ _ 3 (by simp [wf.language])) ?_
  refine ParsesAt.bind (wU8_at _ _ (by omega)) ?_
  refine ParsesAt.bind_first (offset_at _) ?_
  refine fueled_loop_bind newDescriptorExtendedEventLoop extendedEventItemBytes ExtendedEventItemWF extendedEvent_nil
    extendedEvent_step (fun a _ => by rw [extendedEventItemBytes_length]; omega) x.items _ _ wf.items (by rw [hil]) _ _ _ ?_
  refine ParsesAt.bind (wU8_at _ _ (by omega)) ?_
  refine ParsesAt.bind_last (nextBytes_at _ _ _ rfl) ?_
  refine ParsesAt.congr_val (ParsesAt.pure _ _) ?_
  rw [e1, e2]

theorem extendedEvent_ok (x : DescriptorExtendedEvent) (wf : ExtendedEventWF x) : PSIRT.DescOk (ofExtendedEvent x) := by
  have h2 := wf.fits
  have hs : (writeDescriptorExtendedEvent x).length = 1 + 3 + 1 + extendedEventItemsSize x.items + 1 + x.text.length :=
    DescLen.extendedEvent_length x
  have hl : (writeDescriptorExtendedEvent x).length = (calcDescriptorExtendedEventLength x).1 := by
    rw [hs, DescLen.extendedEvent_calc]; unfold DescLen.extendedEventSize; omega
  refine frame _ descriptorTagExtendedEvent (writeDescriptorExtendedEvent x) rfl (by decide) (by decide) hl.symm rfl (by omega) (by omega) ?_
  intro pre
  have hb := extendedEvent_body x wf pre
  rw [hl]
  switch_simp
  exact ParsesAt.bind_last hb (ParsesAt.pure _ _)

/-! ### VBI data -/

def ofVBIData (x : DescriptorVBIData) : Descriptor :=
  { tag := descriptorTagVBIData, length := calcDescriptorVBIDataLength x, vbiData := some x }

structure VBIDataDescriptorWF (d : DescriptorVBIDataDescriptor) : Prop where
  lineOffset : d.lineOffset < 32

/-- a service with one of the six known ids carries up to 255 line descriptors; for any other id the writer emits one
reserved byte and the parser returns NO line descriptor -/
structure VBIDataServiceWF (s : DescriptorVBIDataService) : Prop where
  id : s.dataServiceID < 256
  known : isKnownVBIDataServiceID s.dataServiceID = true → s.descriptors.length < 256 ∧ ∀ d ∈ s.descriptors, VBIDataDescriptorWF d
  unknown : isKnownVBIDataServiceID s.dataServiceID = false → s.descriptors = []

structure VBIDataWF (x : DescriptorVBIData) : Prop where
  services : ∀ s ∈ x.services, VBIDataServiceWF s
  nonempty : 0 < x.services.length
  fits : vbiDataServicesSize x.services < 256

def vbiDescBytes (d : DescriptorVBIDataDescriptor) : Bytes :=
  packFields [(0xff, 2), (b2n d.fieldParity, 1), (d.lineOffset, 5)]

theorem vbiDescs_eq (l : List DescriptorVBIDataDescriptor) :
    writeDescriptorVBIDataDescriptors l = (l.map vbiDescBytes).flatten := by
  induction l with
  | nil => rfl
  | cons a r ih => simp [writeDescriptorVBIDataDescriptors, vbiDescBytes, ih]

def vbiDescByte (d : DescriptorVBIDataDescriptor) : Nat := 192 + b2n d.fieldParity * 32 + d.lineOffset % 32

theorem vbiDesc_bytes (d : DescriptorVBIDataDescriptor) : vbiDescBytes d = [vbiDescByte d] := by
  have h1 := b2n_le d.fieldParity
  simp only [vbiDescBytes, packFields, fieldsWidth, fieldsValue, beBytes, Nat.reducePow, vbiDescByte]
  congr 1; omega

theorem vbiDesc_decode (d : DescriptorVBIDataDescriptor) (h : d.lineOffset < 32) :
    (vbiDescByte d / 32 % 2 = 1) = (d.fieldParity = true) ∧ vbiDescByte d % 32 = d.lineOffset := by
  have h1 := b2n_le d.fieldParity
  rw [← b2n_eq_one]
  unfold vbiDescByte
  refine ⟨?_, ?_⟩ <;> first | omega | (apply congrArg (· = 1); omega)

theorem vbiDesc_nil (id : Nat) (pre : Bytes) (e : Int) (f : Nat) (h : ¬ ((pre.length : Int) < e)) :
    ParsesAt pre (newDescriptorVBIDataDescLoop id e (f + 1)) [] [] := by
  rw [newDescriptorVBIDataDescLoop]
  refine ParsesAt.bind_first (offset_at pre) ?_
  simp only [h, if_false]
  exact ParsesAt.pure _ _

theorem vbiDesc_step (id : Nat) (hk : isKnownVBIDataServiceID id = true) (pre : Bytes) (e : Int) (f : Nat)
    (a : DescriptorVBIDataDescriptor) (rest : List DescriptorVBIDataDescriptor) (rb : Bytes) (ok : VBIDataDescriptorWF a)
    (hlt : (pre.length : Int) < e)
    (h : ParsesAt (pre ++ vbiDescBytes a) (newDescriptorVBIDataDescLoop id e f) rb rest) :
    ParsesAt pre (newDescriptorVBIDataDescLoop id e (f + 1)) (vbiDescBytes a ++ rb) (a :: rest) := by
  rw [newDescriptorVBIDataDescLoop]
  refine ParsesAt.bind_first (offset_at pre) ?_
  simp only [hlt, if_true]
  rw [vbiDesc_bytes] at h ⊢
  obtain ⟨d1, d2⟩ := vbiDesc_decode a ok.lineOffset
  refine ParsesAt.bind (nextByte_at _ _) ?_
  refine ParsesAt.bind_last h ?_
  simp only [hk, if_true]
  refine ParsesAt.congr_val (ParsesAt.pure _ _) ?_
  simp only [d1, d2, Bool.decide_eq_true]

/-- an unknown service id: the single reserved byte is read and dropped -/
theorem vbiDesc_unknown_at (id : Nat) (hk : isKnownVBIDataServiceID id = false) (pre : Bytes) (b : Nat) (e : Int)
    (he : e = (pre.length : Int) + 1) (fuel : Nat) (hf : 1 < fuel) :
    ParsesAt pre (newDescriptorVBIDataDescLoop id e fuel) [b] [] := by
  obtain ⟨f, rfl⟩ : ∃ f, fuel = f + 1 + 1 := ⟨fuel - 2, by omega⟩
  rw [newDescriptorVBIDataDescLoop]
  refine ParsesAt.bind_first (offset_at pre) ?_
  have h1 : (pre.length : Int) < e := by omega
  simp only [h1, if_true]
  refine ParsesAt.bind_last (nextByte_at _ _) ?_
  refine ParsesAt.bind_first (vbiDesc_nil id _ e f (by simp; omega)) ?_
  simp only [hk, Bool.false_eq_true, if_false]
  exact ParsesAt.pure _ _

def vbiServiceBytes (s : DescriptorVBIDataService) : Bytes :=
  wU8 s.dataServiceID
    ++ (if isKnownVBIDataServiceID s.dataServiceID then
          wU8 s.descriptors.length ++ writeDescriptorVBIDataDescriptors s.descriptors
        else [1, 0xff])

theorem vbiServices_eq (l : List DescriptorVBIDataService) :
    writeDescriptorVBIDataServices l = (l.map vbiServiceBytes).flatten := by
  induction l with
  | nil => rfl
  | cons a r ih => simp [writeDescriptorVBIDataServices, vbiServiceBytes, ih]

theorem vbiData_nil (pre : Bytes) (e : Int) (f : Nat) (h : ¬ ((pre.length : Int) < e)) :
    ParsesAt pre (newDescriptorVBIDataLoop e (f + 1)) [] [] := by
  rw [newDescriptorVBIDataLoop]
  refine ParsesAt.bind_first (offset_at pre) ?_
  simp only [h, if_false]
  exact ParsesAt.pure _ _

theorem vbiDescBytes_length (d : DescriptorVBIDataDescriptor) : (vbiDescBytes d).length = 1 := by
  rw [vbiDesc_bytes]; rfl

theorem vbiData_step (pre : Bytes) (e : Int) (f : Nat) (a : DescriptorVBIDataService)
    (rest : List DescriptorVBIDataService) (rb : Bytes) (ok : VBIDataServiceWF a) (hlt : (pre.length : Int) < e)
    (h : ParsesAt (pre ++ vbiServiceBytes a) (newDescriptorVBIDataLoop e f) rb rest) :
    ParsesAt pre (newDescriptorVBIDataLoop e (f + 1)) (vbiServiceBytes a ++ rb) (a :: rest) := by
  rw [newDescriptorVBIDataLoop]
  refine ParsesAt.bind_first (offset_at pre) ?_
  simp only [hlt, if_true]
  unfold vbiServiceBytes at h ⊢
  cases hk : isKnownVBIDataServiceID a.dataServiceID with
  | true =>
    obtain ⟨hlen, hds⟩ := ok.known hk
    have hdl := DescLen.vbiDataDescriptors_length a.descriptors
    simp only [hk, if_true] at h ⊢
    rw [vbiDescs_eq] at h hdl ⊢
    simp only [List.append_assoc] at h ⊢
    refine ParsesAt.bind (wU8_at _ _ ok.id) ?_
    refine ParsesAt.bind (wU8_at _ _ hlen) ?_
    refine ParsesAt.bind_first (offset_at _) ?_
    refine fueled_loop_bind (newDescriptorVBIDataDescLoop a.dataServiceID) vbiDescBytes VBIDataDescriptorWF
      (vbiDesc_nil a.dataServiceID) (vbiDesc_step a.dataServiceID hk) (fun d _ => by rw [vbiDescBytes_length]; omega)
      a.descriptors _ _ hds (by rw [hdl]) _ _ _ ?_
    exact ParsesAt.bind_last (by simpa using h) (ParsesAt.pure _ _)
  | false =>
    have hnil := ok.unknown hk
    simp only [hk, Bool.false_eq_true, if_false] at h ⊢
    have hsplit : wU8 a.dataServiceID ++ [1, 255] ++ rb = wU8 a.dataServiceID ++ ([1] ++ ([255] ++ rb)) := by simp
    rw [hsplit]
    refine ParsesAt.bind (wU8_at _ _ ok.id) ?_
    refine ParsesAt.bind (nextByte_at _ _) ?_
    refine ParsesAt.bind_first (offset_at _) ?_
    refine ParsesAt.bind (p := loopFuel >>= fun fuel' => newDescriptorVBIDataDescLoop a.dataServiceID _ fuel') (a := []) ?_ ?_
    · apply fuel_at
      intro fuel hf
      exact vbiDesc_unknown_at a.dataServiceID hk _ 255 _ (by simp) fuel (by simpa using hf)
    · refine ParsesAt.bind_last (by simpa using h) ?_
      refine ParsesAt.congr_val (ParsesAt.pure _ _) ?_
      cases a with
      | mk id ds => simp only at hnil; subst hnil; rfl

theorem vbiServiceBytes_pos (a : DescriptorVBIDataService) : 0 < (vbiServiceBytes a).length := by
  simp only [vbiServiceBytes, List.length_append, DescLen.wU8_length]; omega

theorem vbiData_body (x : DescriptorVBIData) (wf : VBIDataWF x) (pre : Bytes) :
    ParsesAt pre (newDescriptorVBIData ((pre.length : Int) + ((writeDescriptorVBIData x).length : Nat)))
      (writeDescriptorVBIData x) x := by
  unfold newDescriptorVBIData writeDescriptorVBIData
  rw [vbiServices_eq]
  exact fueled_loop_at newDescriptorVBIDataLoop vbiServiceBytes VBIDataServiceWF vbiData_nil
    vbiData_step (fun a _ => vbiServiceBytes_pos a) x.services pre _ wf.services rfl DescriptorVBIData.mk

theorem vbiDataServicesSize_pos (l : List DescriptorVBIDataService) (h : 0 < l.length) : 0 < vbiDataServicesSize l := by
  cases l with
  | nil => simp at h
  | cons a r => unfold vbiDataServicesSize; omega

theorem vbiData_ok (x : DescriptorVBIData) (wf : VBIDataWF x) : PSIRT.DescOk (ofVBIData x) := by
  have h1 := vbiDataServicesSize_pos x.services wf.nonempty
  have h2 := wf.fits
  have hs : (writeDescriptorVBIData x).length = vbiDataServicesSize x.services := DescLen.vbiData_length x
  have hl : (writeDescriptorVBIData x).length = calcDescriptorVBIDataLength x := by
    rw [hs]; unfold calcDescriptorVBIDataLength; omega
  refine frame _ descriptorTagVBIData (writeDescriptorVBIData x) rfl (by decide) (by decide) hl.symm rfl (by omega) (by omega) ?_
  intro pre
  have hb := vbiData_body x wf pre
  rw [hl] at hb ⊢
  switch_simp
  exact ParsesAt.bind_last hb (ParsesAt.pure _ _)

end Astits.DescRT
