/-
C14 / C13 helper — per-descriptor round trip `parseDescriptor (writeDescriptor d ++ r) = d`:
the calculus shared by all typed kinds.  `ParsesAt` (Proofs/PacketRT.lean) is the judgment "started right after `pre`
the parser consumes exactly `xs` and returns `a`"; here: the leaves used by the descriptor parsers (`restIfAny`,
`restTo`, `byteIf`, `loopFuel`), a generic lemma for the `for i.Offset() < offsetEnd` loops, and the frame lemma
that lifts a round trip of the body (`parseDescriptorSwitch`) to `PSIRT.DescRT`.
-/
import Astits.Model.Desc
import Astits.Proofs.PacketRT
import Astits.Proofs.PSIRT
import Astits.Proofs.DescLengths
namespace Astits.DescRT
open Astits Astits.PacketRT

/-! ### leaves -/

theorem ParsesAt.congr_bytes {α} {pre xs xs' : Bytes} {p : P α} {a : α} (h : ParsesAt pre p xs a) (e : xs = xs') :
    ParsesAt pre p xs' a := e ▸ h

/-- `restIfAny e` in front of `xs`, where `e` is the offset right after `xs` -/
theorem restIfAny_at (pre xs : Bytes) (e : Int) (he : e = (pre.length : Int) + (xs.length : Int)) :
    ParsesAt pre (restIfAny e) xs xs := by
  unfold restIfAny
  cases xs with
  | nil =>
    refine ParsesAt.bind_last (offset_at pre) ?_
    have : ¬ ((pre.length : Int) < e) := by simp only [List.length_nil] at he; omega
    simp only [this, if_false]
    exact ParsesAt.pure _ _
  | cons x r =>
    refine ParsesAt.congr_bytes (ParsesAt.bind (offset_at pre) ?_) (List.nil_append _)
    have : (pre.length : Int) < e := by simp only [List.length_cons] at he; omega
    simp only [this, if_true]
    exact nextBytes_at _ _ _ (by omega)

theorem restTo_at (pre xs : Bytes) (e : Int) (he : e = (pre.length : Int) + (xs.length : Int)) :
    ParsesAt pre (restTo e) xs xs := by
  unfold restTo
  refine ParsesAt.congr_bytes (ParsesAt.bind (offset_at pre) ?_) (List.nil_append _)
  exact nextBytes_at _ _ _ (by omega)

/-- `byteIf flag` in front of the optional byte the writers emit (`if flag then wU8 v else []`); an absent field
keeps Go's zero value -/
theorem byteIf_at (pre : Bytes) (c : Bool) (v : Nat) (hv : c = true → v < 256) (h0 : c = false → v = 0) :
    ParsesAt pre (byteIf c) (if c = true then wU8 v else []) v := by
  unfold byteIf
  cases c
  · simp only [Bool.false_eq_true, if_false]
    rw [h0 rfl]; exact ParsesAt.pure _ _
  · simp only [if_true, wU8]
    rw [Nat.mod_eq_of_lt (hv rfl)]; exact nextByte_at _ _

theorem wU8_at (pre : Bytes) (v : Nat) (hv : v < 256) : ParsesAt pre It.nextByte (wU8 v) v := by
  unfold wU8; rw [Nat.mod_eq_of_lt hv]; exact nextByte_at _ _

/-- `WriteBytesN(bs, 3, 0)` of exactly three bytes writes them -/
theorem wBytesN_exact (bs : Bytes) (n pad : Nat) (h : bs.length = n) : wBytesN bs n pad = bs := by
  unfold wBytesN
  rw [← h, List.take_length, Nat.sub_self]; simp

/-- a length-prefixed byte string: `Write(uint8(len(x))); Write(x)` read by `NextByte; NextBytes(n)` -/
theorem lenPrefixed_at (pre xs : Bytes) (h : xs.length < 256) :
    ParsesAt pre (do let n ← It.nextByte; It.nextBytes n : P Bytes) (wU8 xs.length ++ xs) xs := by
  refine ParsesAt.bind (wU8_at _ _ h) ?_
  exact nextBytes_at _ _ _ rfl

/-- the fuel `loopFuel` hands to a loop is more than any number of bytes in front of the iterator's end -/
theorem fuel_at {α} (pre xs : Bytes) (f : Nat → P α) (a : α)
    (h : ∀ fuel, xs.length < fuel → ParsesAt pre (f fuel) xs a) : ParsesAt pre (loopFuel >>= f) xs a := by
  intro post
  rw [P.bind_run]
  simp only [loopFuel]
  exact h _ (by simp only [List.length_append]; omega) post

/-! ### the `for i.Offset() < offsetEnd { item }` loops -/

/-- generic loop lemma: a fuel-recursive loop that (`hnil`) stops at the end offset and (`hstep`) otherwise reads one
item and goes on, run in front of the concatenation of the written items with the end offset right after them and
more fuel than items, returns the items -/
theorem loop_at {α} (loop : Int → Nat → P (List α)) (enc : α → Bytes) (ok : α → Prop)
    (hnil : ∀ (pre : Bytes) (e : Int) (f : Nat), ¬ ((pre.length : Int) < e) → ParsesAt pre (loop e (f + 1)) [] [])
    (hstep : ∀ (pre : Bytes) (e : Int) (f : Nat) (a : α) (rest : List α) (rb : Bytes), ok a → (pre.length : Int) < e →
      ParsesAt (pre ++ enc a) (loop e f) rb rest → ParsesAt pre (loop e (f + 1)) (enc a ++ rb) (a :: rest))
    (hpos : ∀ a, ok a → 0 < (enc a).length) :
    ∀ (as : List α) (pre : Bytes) (e : Int) (fuel : Nat), (∀ a ∈ as, ok a) → as.length < fuel →
      e = (pre.length : Int) + (((as.map enc).flatten.length : Nat) : Int) →
      ParsesAt pre (loop e fuel) (as.map enc).flatten as := by
  intro as
  induction as with
  | nil =>
    intro pre e fuel _ hf he
    cases fuel with
    | zero => simp at hf
    | succ f => exact hnil pre e f (by simp at he; omega)
  | cons a as ih =>
    intro pre e fuel hok hf he
    cases fuel with
    | zero => simp at hf
    | succ f =>
      have hoka := hok a (by simp)
      have hp := hpos a hoka
      simp only [List.map_cons, List.flatten_cons, List.length_append, Int.natCast_add] at he ⊢
      refine hstep pre e f a as _ hoka (by omega) ?_
      refine ih (pre ++ enc a) e f (fun x hx => hok x (by simp [hx])) (by simp at hf; omega) ?_
      simp only [List.length_append, Int.natCast_add]; omega

theorem flatten_length_ge {α} (enc : α → Bytes) (ok : α → Prop) (hpos : ∀ a, ok a → 0 < (enc a).length)
    (as : List α) (h : ∀ a ∈ as, ok a) : as.length ≤ (as.map enc).flatten.length :=
  PSIRT.length_le_flatten enc as (fun a ha => hpos a (h a ha))

/-- first action consumes nothing -/
theorem ParsesAt.bind_first {α β} {pre ys : Bytes} {p : P α} {f : α → P β} {a : α} {b : β}
    (h1 : ParsesAt pre p [] a) (h2 : ParsesAt pre (f a) ys b) : ParsesAt pre (p >>= f) ys b := by
  have := ParsesAt.bind h1 (by simpa using h2)
  simpa using this

/-- `fuel ← loopFuel; items ← loop e fuel; k items` in front of the written items followed by what `k` reads -/
theorem fueled_loop_bind {α β} (loop : Int → Nat → P (List α)) (enc : α → Bytes) (ok : α → Prop)
    (hnil : ∀ (pre : Bytes) (e : Int) (f : Nat), ¬ ((pre.length : Int) < e) → ParsesAt pre (loop e (f + 1)) [] [])
    (hstep : ∀ (pre : Bytes) (e : Int) (f : Nat) (a : α) (rest : List α) (rb : Bytes), ok a → (pre.length : Int) < e →
      ParsesAt (pre ++ enc a) (loop e f) rb rest → ParsesAt pre (loop e (f + 1)) (enc a ++ rb) (a :: rest))
    (hpos : ∀ a, ok a → 0 < (enc a).length)
    (as : List α) (pre : Bytes) (e : Int) (hok : ∀ a ∈ as, ok a)
    (he : e = (pre.length : Int) + (((as.map enc).flatten.length : Nat) : Int))
    (k : List α → P β) (ys : Bytes) (b : β) (hk : ParsesAt (pre ++ (as.map enc).flatten) (k as) ys b) :
    ParsesAt pre (loopFuel >>= fun fuel => loop e fuel >>= k) ((as.map enc).flatten ++ ys) b := by
  apply fuel_at
  intro fuel hf
  have hle := flatten_length_ge enc ok hpos as hok
  refine ParsesAt.bind (loop_at loop enc ok hnil hstep hpos as pre e fuel hok ?_ he) hk
  simp only [List.length_append] at hf; omega

/-- `fuel ← loopFuel; items ← loop e fuel; return mk items`: the shape of the list-valued `newDescriptorXxx` -/
theorem fueled_loop_at {α β} (loop : Int → Nat → P (List α)) (enc : α → Bytes) (ok : α → Prop)
    (hnil : ∀ (pre : Bytes) (e : Int) (f : Nat), ¬ ((pre.length : Int) < e) → ParsesAt pre (loop e (f + 1)) [] [])
    (hstep : ∀ (pre : Bytes) (e : Int) (f : Nat) (a : α) (rest : List α) (rb : Bytes), ok a → (pre.length : Int) < e →
      ParsesAt (pre ++ enc a) (loop e f) rb rest → ParsesAt pre (loop e (f + 1)) (enc a ++ rb) (a :: rest))
    (hpos : ∀ a, ok a → 0 < (enc a).length)
    (as : List α) (pre : Bytes) (e : Int) (hok : ∀ a ∈ as, ok a)
    (he : e = (pre.length : Int) + (((as.map enc).flatten.length : Nat) : Int)) (mk : List α → β) :
    ParsesAt pre (loopFuel >>= fun fuel => loop e fuel >>= fun items => pure (mk items)) (as.map enc).flatten (mk as) := by
  have := fueled_loop_bind loop enc ok hnil hstep hpos as pre e hok he (fun items => pure (mk items)) [] (mk as)
    (ParsesAt.pure _ _)
  simpa using this

/-! ### the tag `switch` -/

/-- `simp` set that evaluates the `switch d.Tag` chains for a literal tag -/
macro "tag_simp" : tactic =>
  `(tactic| simp [isUserDefinedTag, descriptorTagAC3, descriptorTagAVCVideo, descriptorTagComponent, descriptorTagContent,
    descriptorTagDataStreamAlignment, descriptorTagEnhancedAC3, descriptorTagExtendedEvent, descriptorTagExtension,
    descriptorTagISO639LanguageAndAudioType, descriptorTagLocalTimeOffset, descriptorTagMaximumBitrate,
    descriptorTagNetworkName, descriptorTagParentalRating, descriptorTagPrivateDataIndicator,
    descriptorTagPrivateDataSpecifier, descriptorTagRegistration, descriptorTagService, descriptorTagShortEvent,
    descriptorTagStreamIdentifier, descriptorTagSubtitling, descriptorTagTeletext, descriptorTagVBIData,
    descriptorTagVBITeletext])

/-- evaluates `parseDescriptorSwitch` on a header with a literal tag, leaving the selected branch -/
macro "switch_simp" : tactic =>
  `(tactic| simp only [parseDescriptorSwitch, descriptorTagAC3, descriptorTagAVCVideo, descriptorTagComponent, descriptorTagContent,
    descriptorTagDataStreamAlignment, descriptorTagEnhancedAC3, descriptorTagExtendedEvent, descriptorTagExtension,
    descriptorTagISO639LanguageAndAudioType, descriptorTagLocalTimeOffset, descriptorTagMaximumBitrate,
    descriptorTagNetworkName, descriptorTagParentalRating, descriptorTagPrivateDataIndicator,
    descriptorTagPrivateDataSpecifier, descriptorTagRegistration, descriptorTagService, descriptorTagShortEvent,
    descriptorTagStreamIdentifier, descriptorTagSubtitling, descriptorTagTeletext, descriptorTagVBIData,
    descriptorTagVBITeletext, Nat.reduceEqDiff, ↓reduceIte])

/-! ### the frame: tag, length, body, seek -/

/-- `d` is written, `d'` comes back (the parser stops right after the written bytes); `DescRT d = DescRTTo d d` -/
def DescRTTo (d d' : Descriptor) : Prop :=
  ∀ (bs : Bytes) (off : Int) (r : Bytes), PSIRT.It.At ⟨bs, off⟩ (writeDescriptor d ++ r) →
    parseDescriptor ⟨bs, off⟩ = .ok (d', ⟨bs, off + (((writeDescriptor d).length : Nat) : Int)⟩)

theorem descRT_iff (d : Descriptor) : PSIRT.DescRT d ↔ DescRTTo d d := Iff.rfl

/-- same bytes, same result: the way normal forms are derived -/
theorem DescRTTo.of_write_eq {d d' : Descriptor} (h : writeDescriptor d = writeDescriptor d') (rt : PSIRT.DescRT d') :
    DescRTTo d d' := by
  intro bs off r hat
  rw [h] at hat ⊢
  exact rt bs off r hat

/-- from a round trip of the body to the descriptor: `d` is written as `tag, length, body` with `length = |body| > 0`,
and the `switch` of `parseDescriptors`, started on the body with `offsetDescriptorEnd` right after it, returns `d'` -/
theorem frameTo (d d' : Descriptor) (tag : Nat) (body : Bytes) (hd : d.tag = tag)
    (htag : tag < 256) (hu : isUserDefinedTag tag = false)
    (hcalc : calcDescriptorLength d = body.length) (hbody : descriptorBody d = body)
    (hpos : 0 < body.length) (h256 : body.length < 256)
    (hsw : ∀ pre : Bytes, ParsesAt pre
      (parseDescriptorSwitch { length := body.length, tag := tag } ((pre.length : Int) + (body.length : Int))) body d') :
    DescRTTo d d' ∧ (writeDescriptor d).length = 2 + calcDescriptorLength d := by
  subst hd
  have hw : writeDescriptor d = [d.tag, body.length] ++ body := by
    unfold writeDescriptor
    simp only [hcalc, hbody, wU8, Nat.mod_eq_of_lt htag, Nat.mod_eq_of_lt h256]
    have : ¬ (body.length = 0) := by omega
    simp [this]
  refine ⟨?_, by rw [hw, hcalc]; simp; omega⟩
  intro bs off r hat
  rw [hw] at hat ⊢
  obtain ⟨pre, hb, ho⟩ := hat
  simp only at hb ho
  subst hb ho
  have hat' : PSIRT.It.At ⟨pre ++ ([d.tag, body.length] ++ body ++ r), (pre.length : Int)⟩ ([d.tag, body.length] ++ (body ++ r)) :=
    ⟨pre, by simp, rfl⟩
  unfold parseDescriptor
  rw [PSIRT.P.bind_of_ok (PSIRT.nextBytes_at _ _ _ _ 2 (by simp) hat')]
  simp only [List.getD_cons_zero, List.getD_cons_succ]
  have hp : body.length > 0 := hpos
  simp only [hp, if_true, hu, Bool.false_eq_true, if_false]
  rw [PSIRT.P.bind_of_ok (PSIRT.offset_run _)]
  have hs := hsw (pre ++ [d.tag, body.length]) r
  have e1 : pre ++ [d.tag, body.length] ++ (body ++ r) = pre ++ ([d.tag, body.length] ++ body ++ r) := by simp
  have e2 : (((pre ++ [d.tag, body.length]).length : Nat) : Int) = (pre.length : Int) + 2 := by simp
  rw [e1, e2] at hs
  rw [PSIRT.P.bind_of_ok hs, PSIRT.P.bind_of_ok (PSIRT.seek_run _ _)]
  simp only [P.pure_run, List.length_append, List.length_cons, List.length_nil]
  congr 2
  simp only [It.mk.injEq, true_and]
  omega

/-- `frameTo` with `d' = d`: the round trip and the length equation, i.e. `PSIRT.DescOk d` -/
theorem frame (d : Descriptor) (tag : Nat) (body : Bytes) (hd : d.tag = tag)
    (htag : tag < 256) (hu : isUserDefinedTag tag = false)
    (hcalc : calcDescriptorLength d = body.length) (hbody : descriptorBody d = body)
    (hpos : 0 < body.length) (h256 : body.length < 256)
    (hsw : ∀ pre : Bytes, ParsesAt pre
      (parseDescriptorSwitch { length := body.length, tag := tag } ((pre.length : Int) + (body.length : Int))) body d) :
    PSIRT.DescOk d :=
  let h := frameTo d d tag body hd htag hu hcalc hbody hpos h256 hsw
  ⟨h.1, h.2⟩

/-- the other case of `writeDescriptor` / `parseDescriptor`: a computed length of 0. Nothing but tag and length is
written, the body parser is not called, and what comes back is the bare header — any sub-struct is LOST -/
theorem zero_length_rt (d : Descriptor) (htag : d.tag < 256) (hcalc : calcDescriptorLength d = 0)
    (bs : Bytes) (off : Int) (r : Bytes) (hat : PSIRT.It.At ⟨bs, off⟩ (writeDescriptor d ++ r)) :
    parseDescriptor ⟨bs, off⟩ = .ok ({ tag := d.tag, length := 0 }, ⟨bs, off + 2⟩) := by
  have hw : writeDescriptor d = [d.tag, 0] := by
    unfold writeDescriptor
    simp [hcalc, wU8, Nat.mod_eq_of_lt htag]
  rw [hw] at hat
  unfold parseDescriptor
  rw [PSIRT.P.bind_of_ok (PSIRT.nextBytes_at _ _ _ _ 2 (by simp) hat)]
  simp

end Astits.DescRT
