/-
Per-descriptor round trip: the DVB time and duration leaves in `ParsesAt` form (from the C15 range theorems), and the
local time offset descriptor.
-/
import Astits.Proofs.DescRT.Core
import Astits.Props.C15
namespace Astits.DescRT
open Astits Astits.PacketRT

/-! ### hh:mm durations -/

/-- a duration `writeDVBDurationMinutes` / `parseDVBDurationMinutes` carry exactly: whole minutes, 0 ≤ d < 160 h.
(Two BCD digits cover 0..99 h; the code also round-trips 100..159 h through the non-BCD "digits" 0xA..0xF of
`(h / 10) << 4`; at 160 h that shift overflows the byte.) -/
def DurationMinutesOk (ns : Int) : Prop := 0 ≤ ns ∧ ns < 576000000000000 ∧ ns % 60000000000 = 0

instance (ns : Int) : Decidable (DurationMinutesOk ns) := by unfold DurationMinutesOk; infer_instance

theorem bcd_rt (n : Nat) (h : n < 160) : parseDVBDurationByte (dvbDurationByteRepresentation n) = n := by
  unfold parseDVBDurationByte dvbDurationByteRepresentation; omega

theorem durationMinutes_at (pre : Bytes) (ns : Int) (h : DurationMinutesOk ns) :
    ParsesAt pre parseDVBDurationMinutes (writeDVBDurationMinutes ns) ns := by
  obtain ⟨h0, h1, h2⟩ := h
  unfold parseDVBDurationMinutes writeDVBDurationMinutes
  refine ParsesAt.congr_val (ParsesAt.bind_last (nextBytes_at _ _ 2 rfl) (ParsesAt.pure _ _)) ?_
  simp only [List.getD_cons_zero, List.getD_cons_succ, durationMinutesOfBytes]
  obtain ⟨hh, ehh⟩ : ∃ hh : Nat, ns / 3600000000000 = (hh : Int) := ⟨(ns / 3600000000000).toNat, by omega⟩
  obtain ⟨mm, emm⟩ : ∃ mm : Nat, ns / 60000000000 % 60 = (mm : Int) := ⟨(ns / 60000000000 % 60).toNat, by omega⟩
  rw [ehh, emm]
  simp only [Int.toNat_natCast]
  have hh100 : hh < 160 := by omega
  have mm60 : mm < 60 := by omega
  rw [Nat.mod_eq_of_lt (by omega : hh < 256), bcd_rt hh hh100, bcd_rt mm (by omega)]
  omega

/-! ### UTC time: 16-bit MJD + hh:mm:ss -/

/-- an instant (Unix seconds) `writeDVBTime` encodes exactly: MJD 15079 (1900-03-01) … 65535 (2038-04-22) -/
def DVBTimeOk (t : Int) : Prop := -2203891200 ≤ t ∧ t < 2155593600

instance (t : Int) : Decidable (DVBTimeOk t) := by unfold DVBTimeOk; infer_instance

theorem durationSeconds_at (pre : Bytes) (sec : Nat) (hs : sec < 86400) :
    ParsesAt pre parseDVBDurationSeconds [Spec.bcd (sec / 3600), Spec.bcd (sec / 60 % 60), Spec.bcd (sec % 60)]
      (((sec : Nat) : Int) * 1000000000) := by
  unfold parseDVBDurationSeconds
  refine ParsesAt.congr_val (ParsesAt.bind_last (nextBytes_at _ _ 3 rfl) (ParsesAt.pure _ _)) ?_
  simp only [List.getD_cons_zero, List.getD_cons_succ]
  have := (C15.duration_seconds_roundtrip (sec / 3600) (sec / 60 % 60) (sec % 60) (by omega) (by omega) (by omega)).2
  rw [this]
  have hsum : sec / 3600 * 3600 + sec / 60 % 60 * 60 + sec % 60 = sec := by omega
  rw [hsum]

theorem dvbTime_at (pre : Bytes) (t : Int) (h : DVBTimeOk t) : ParsesAt pre parseDVBTime (writeDVBTime t) t := by
  obtain ⟨h0, h1⟩ := h
  obtain ⟨n, en⟩ : ∃ n : Nat, t / 86400 + 40587 - 15079 = (n : Int) := ⟨(t / 86400 + 40587 - 15079).toNat, by omega⟩
  obtain ⟨sec, es⟩ : ∃ sec : Nat, t % 86400 = (sec : Int) := ⟨(t % 86400).toNat, by omega⟩
  have hn : n < 50457 := by omega
  have hs : sec < 86400 := by omega
  have ht : t = (((15079 + n : Nat) : Int) - 40587) * 86400 + (sec : Int) := by omega
  rw [ht, C15.writeDVBTime_spec n sec hn hs, ← ht]
  obtain ⟨hdec, hunix, _, _⟩ := C15.mjd_model n hn
  unfold parseDVBTime Spec.dvbTimeBytes
  have hsplit : [(15079 + n) / 256 % 256, (15079 + n) % 256, Spec.bcd (sec / 3600), Spec.bcd (sec / 60 % 60), Spec.bcd (sec % 60)]
      = [(15079 + n) / 256 % 256, (15079 + n) % 256] ++ [Spec.bcd (sec / 3600), Spec.bcd (sec / 60 % 60), Spec.bcd (sec % 60)] := rfl
  rw [hsplit]
  refine ParsesAt.bind (nextBytes_at _ _ 2 rfl) ?_
  simp only [List.getD_cons_zero, List.getD_cons_succ]
  have hm : (15079 + n) / 256 % 256 * 256 + (15079 + n) % 256 = 15079 + n := by omega
  rw [hm, hdec]
  simp only [MJD.toI]
  refine ParsesAt.congr_val (ParsesAt.bind_last (durationSeconds_at _ sec hs) (ParsesAt.pure _ _)) ?_
  rw [hunix]
  omega

/-! ### local time offset -/

def ofLocalTimeOffset (x : DescriptorLocalTimeOffset) : Descriptor :=
  { tag := descriptorTagLocalTimeOffset, length := calcDescriptorLocalTimeOffsetLength x, localTimeOffset := some x }

structure LocalTimeOffsetItemWF (a : DescriptorLocalTimeOffsetItem) : Prop where
  countryCode : a.countryCode.length = 3
  countryRegionID : a.countryRegionID < 64
  localTimeOffset : DurationMinutesOk a.localTimeOffset
  timeOfChange : DVBTimeOk a.timeOfChange
  nextTimeOffset : DurationMinutesOk a.nextTimeOffset

structure LocalTimeOffsetWF (x : DescriptorLocalTimeOffset) : Prop where
  items : ∀ a ∈ x.items, LocalTimeOffsetItemWF a
  nonempty : 0 < x.items.length
  fits : 13 * x.items.length < 256

def localTimeOffsetItemBytes (a : DescriptorLocalTimeOffsetItem) : Bytes :=
  wBytesN a.countryCode 3 0
    ++ packFields [(a.countryRegionID, 6), (0xff, 1), (b2n a.localTimeOffsetPolarity, 1)]
    ++ writeDVBDurationMinutes a.localTimeOffset
    ++ writeDVBTime a.timeOfChange
    ++ writeDVBDurationMinutes a.nextTimeOffset

theorem localTimeOffsetItems_eq (l : List DescriptorLocalTimeOffsetItem) :
    writeDescriptorLocalTimeOffsetItems l = (l.map localTimeOffsetItemBytes).flatten := by
  induction l with
  | nil => rfl
  | cons a r ih => simp [writeDescriptorLocalTimeOffsetItems, localTimeOffsetItemBytes, ih]

def ltoByte (a : DescriptorLocalTimeOffsetItem) : Nat := a.countryRegionID % 64 * 4 + 2 + b2n a.localTimeOffsetPolarity

theorem lto_bytes (a : DescriptorLocalTimeOffsetItem) :
    packFields [(a.countryRegionID, 6), (0xff, 1), (b2n a.localTimeOffsetPolarity, 1)] = [ltoByte a] := by
  have h1 := b2n_le a.localTimeOffsetPolarity
  simp only [packFields, fieldsWidth, fieldsValue, beBytes, Nat.reducePow, ltoByte]
  congr 1; omega

theorem lto_decode (a : DescriptorLocalTimeOffsetItem) (h : a.countryRegionID < 64) :
    ltoByte a / 4 % 64 = a.countryRegionID ∧ (ltoByte a % 2 = 1) = (a.localTimeOffsetPolarity = true) := by
  have h1 := b2n_le a.localTimeOffsetPolarity
  rw [← b2n_eq_one]
  unfold ltoByte
  refine ⟨?_, ?_⟩ <;> first | omega | (apply congrArg (· = 1); omega)

theorem localTimeOffset_nil (pre : Bytes) (e : Int) (f : Nat) (h : ¬ ((pre.length : Int) < e)) :
    ParsesAt pre (newDescriptorLocalTimeOffsetLoop e (f + 1)) [] [] := by
  rw [newDescriptorLocalTimeOffsetLoop]
  refine ParsesAt.bind_first (offset_at pre) ?_
  simp only [h, if_false]
  exact ParsesAt.pure _ _

theorem localTimeOffset_step (pre : Bytes) (e : Int) (f : Nat) (a : DescriptorLocalTimeOffsetItem)
    (rest : List DescriptorLocalTimeOffsetItem) (rb : Bytes) (ok : LocalTimeOffsetItemWF a) (hlt : (pre.length : Int) < e)
    (h : ParsesAt (pre ++ localTimeOffsetItemBytes a) (newDescriptorLocalTimeOffsetLoop e f) rb rest) :
    ParsesAt pre (newDescriptorLocalTimeOffsetLoop e (f + 1)) (localTimeOffsetItemBytes a ++ rb) (a :: rest) := by
  rw [newDescriptorLocalTimeOffsetLoop]
  refine ParsesAt.bind_first (offset_at pre) ?_
  simp only [hlt, if_true]
  unfold localTimeOffsetItemBytes at h ⊢
  rw [wBytesN_exact _ _ _ ok.countryCode, lto_bytes] at h ⊢
  obtain ⟨d1, d2⟩ := lto_decode a ok.countryRegionID
  simp only [List.append_assoc] at h ⊢
  refine ParsesAt.bind (nextBytes_at _ _ 3 (by simp [ok.countryCode])) ?_
  refine ParsesAt.bind (nextByte_at _ _) ?_
  refine ParsesAt.bind (durationMinutes_at _ _ ok.localTimeOffset) ?_
  refine ParsesAt.bind (dvbTime_at _ _ ok.timeOfChange) ?_
  refine ParsesAt.bind (durationMinutes_at _ _ ok.nextTimeOffset) ?_
  refine ParsesAt.bind_last (by simpa using h) ?_
  refine ParsesAt.congr_val (ParsesAt.pure _ _) ?_
  simp only [d1, d2, Bool.decide_eq_true]

theorem localTimeOffsetItemBytes_length (a : DescriptorLocalTimeOffsetItem) : (localTimeOffsetItemBytes a).length = 13 := by
  simp [localTimeOffsetItemBytes, DescLen.packFields_length, fieldsWidth]

theorem localTimeOffset_body (x : DescriptorLocalTimeOffset) (wf : LocalTimeOffsetWF x) (pre : Bytes) :
    ParsesAt pre (newDescriptorLocalTimeOffset ((pre.length : Int) + ((writeDescriptorLocalTimeOffset x).length : Nat)))
      (writeDescriptorLocalTimeOffset x) x := by
  unfold newDescriptorLocalTimeOffset writeDescriptorLocalTimeOffset
  rw [localTimeOffsetItems_eq]
  exact fueled_loop_at newDescriptorLocalTimeOffsetLoop localTimeOffsetItemBytes LocalTimeOffsetItemWF localTimeOffset_nil
    localTimeOffset_step (fun a _ => by rw [localTimeOffsetItemBytes_length]; omega) x.items pre _ wf.items rfl
    DescriptorLocalTimeOffset.mk

theorem localTimeOffset_ok (x : DescriptorLocalTimeOffset) (wf : LocalTimeOffsetWF x) : PSIRT.DescOk (ofLocalTimeOffset x) := by
  have h1 := wf.nonempty
  have h2 := wf.fits
  have hs : (writeDescriptorLocalTimeOffset x).length = 13 * x.items.length := DescLen.localTimeOffset_length x
  have hl : (writeDescriptorLocalTimeOffset x).length = calcDescriptorLocalTimeOffsetLength x := by
    rw [hs]; unfold calcDescriptorLocalTimeOffsetLength; omega
  refine frame _ descriptorTagLocalTimeOffset (writeDescriptorLocalTimeOffset x) rfl (by decide) (by decide) hl.symm rfl (by omega) (by omega) ?_
  intro pre
  have hb := localTimeOffset_body x wf pre
  rw [hl] at hb ⊢
  switch_simp
  exact ParsesAt.bind_last hb (ParsesAt.pure _ _)

end Astits.DescRT
