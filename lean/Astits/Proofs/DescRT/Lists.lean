/-
Per-descriptor round trip, list-valued kinds with fixed-size items: content, parental rating, subtitling, teletext
(tags 0x56 and 0x46).
-/
import Astits.Proofs.DescRT.Core
namespace Astits.DescRT
open Astits Astits.PacketRT

theorem list3 (l : Bytes) (h : l.length = 3) : ∃ a b c, l = [a, b, c] := by
  match l, h with
  | [a, b, c], _ => exact ⟨a, b, c, rfl⟩

/-! ### content -/

def ofContent (x : DescriptorContent) : Descriptor :=
  { tag := descriptorTagContent, length := calcDescriptorContentLength x, content := some x }

structure ContentItemWF (a : DescriptorContentItem) : Prop where
  level1 : a.contentNibbleLevel1 < 16
  level2 : a.contentNibbleLevel2 < 16
  userByte : a.userByte < 256

/-- an EMPTY item list is written with length 0 and comes back without the sub-struct (`zero_length_rt`) -/
structure ContentWF (x : DescriptorContent) : Prop where
  items : ∀ a ∈ x.items, ContentItemWF a
  nonempty : 0 < x.items.length
  fits : 2 * x.items.length < 256

def contentItemBytes (a : DescriptorContentItem) : Bytes :=
  packFields [(a.contentNibbleLevel1, 4), (a.contentNibbleLevel2, 4)] ++ wU8 a.userByte

theorem contentItems_eq (l : List DescriptorContentItem) :
    writeDescriptorContentItems l = (l.map contentItemBytes).flatten := by
  induction l with
  | nil => rfl
  | cons a r ih => simp [writeDescriptorContentItems, contentItemBytes, ih]

theorem content_nil (pre : Bytes) (e : Int) (f : Nat) (h : ¬ ((pre.length : Int) < e)) :
    ParsesAt pre (newDescriptorContentLoop e (f + 1)) [] [] := by
  rw [newDescriptorContentLoop]
  refine ParsesAt.bind_first (offset_at pre) ?_
  simp only [h, if_false]
  exact ParsesAt.pure _ _

theorem content_step (pre : Bytes) (e : Int) (f : Nat) (a : DescriptorContentItem) (rest : List DescriptorContentItem)
    (rb : Bytes) (ok : ContentItemWF a) (hlt : (pre.length : Int) < e)
    (h : ParsesAt (pre ++ contentItemBytes a) (newDescriptorContentLoop e f) rb rest) :
    ParsesAt pre (newDescriptorContentLoop e (f + 1)) (contentItemBytes a ++ rb) (a :: rest) := by
  rw [newDescriptorContentLoop]
  refine ParsesAt.bind_first (offset_at pre) ?_
  simp only [hlt, if_true]
  have hb : contentItemBytes a = [a.contentNibbleLevel1 % 16 * 16 + a.contentNibbleLevel2 % 16, a.userByte] := by
    unfold contentItemBytes wU8
    rw [Nat.mod_eq_of_lt ok.userByte]
    simp only [packFields, fieldsWidth, fieldsValue, beBytes, Nat.reducePow]
    simp only [List.cons_append, List.nil_append, List.cons.injEq, and_true]
    omega
  refine ParsesAt.bind (nextBytes_at _ _ 2 (by rw [hb]; rfl)) ?_
  refine ParsesAt.bind_last h ?_
  refine ParsesAt.congr_val (ParsesAt.pure _ _) ?_
  rw [hb]
  simp only [List.getD_cons_zero, List.getD_cons_succ]
  have h1 := ok.level1
  have h2 := ok.level2
  cases a with
  | mk n1 n2 u =>
    simp only at h1 h2 ⊢
    congr 2 <;> omega

theorem contentItemBytes_length (a : DescriptorContentItem) : (contentItemBytes a).length = 2 := by
  simp [contentItemBytes, DescLen.packFields_length, fieldsWidth]

theorem content_body (x : DescriptorContent) (wf : ContentWF x) (pre : Bytes) :
    ParsesAt pre (newDescriptorContent ((pre.length : Int) + ((writeDescriptorContent x).length : Nat)))
      (writeDescriptorContent x) x := by
  unfold newDescriptorContent writeDescriptorContent
  rw [contentItems_eq]
  exact fueled_loop_at newDescriptorContentLoop contentItemBytes ContentItemWF content_nil content_step
    (fun a _ => by rw [contentItemBytes_length]; omega) x.items pre _ wf.items rfl DescriptorContent.mk

theorem content_ok (x : DescriptorContent) (wf : ContentWF x) : PSIRT.DescOk (ofContent x) := by
  have h1 := wf.nonempty
  have h2 := wf.fits
  have hs : (writeDescriptorContent x).length = 2 * x.items.length := DescLen.content_length x
  have hl : (writeDescriptorContent x).length = calcDescriptorContentLength x := by
    rw [hs]; unfold calcDescriptorContentLength; omega
  refine frame _ descriptorTagContent (writeDescriptorContent x) rfl (by decide) (by decide) hl.symm rfl (by omega) (by omega) ?_
  intro pre
  have hb := content_body x wf pre
  rw [hl] at hb ⊢
  switch_simp
  exact ParsesAt.bind_last hb (ParsesAt.pure _ _)

/-! ### parental rating -/

def ofParentalRating (x : DescriptorParentalRating) : Descriptor :=
  { tag := descriptorTagParentalRating, length := calcDescriptorParentalRatingLength x, parentalRating := some x }

structure ParentalRatingItemWF (a : DescriptorParentalRatingItem) : Prop where
  countryCode : a.countryCode.length = 3
  rating : a.rating < 256

structure ParentalRatingWF (x : DescriptorParentalRating) : Prop where
  items : ∀ a ∈ x.items, ParentalRatingItemWF a
  nonempty : 0 < x.items.length
  fits : 4 * x.items.length < 256

def parentalRatingItemBytes (a : DescriptorParentalRatingItem) : Bytes := wBytesN a.countryCode 3 0 ++ wU8 a.rating

theorem parentalRatingItems_eq (l : List DescriptorParentalRatingItem) :
    writeDescriptorParentalRatingItems l = (l.map parentalRatingItemBytes).flatten := by
  induction l with
  | nil => rfl
  | cons a r ih => simp [writeDescriptorParentalRatingItems, parentalRatingItemBytes, ih]

theorem parentalRating_nil (pre : Bytes) (e : Int) (f : Nat) (h : ¬ ((pre.length : Int) < e)) :
    ParsesAt pre (newDescriptorParentalRatingLoop e (f + 1)) [] [] := by
  rw [newDescriptorParentalRatingLoop]
  refine ParsesAt.bind_first (offset_at pre) ?_
  simp only [h, if_false]
  exact ParsesAt.pure _ _

theorem parentalRating_step (pre : Bytes) (e : Int) (f : Nat) (a : DescriptorParentalRatingItem)
    (rest : List DescriptorParentalRatingItem) (rb : Bytes) (ok : ParentalRatingItemWF a) (hlt : (pre.length : Int) < e)
    (h : ParsesAt (pre ++ parentalRatingItemBytes a) (newDescriptorParentalRatingLoop e f) rb rest) :
    ParsesAt pre (newDescriptorParentalRatingLoop e (f + 1)) (parentalRatingItemBytes a ++ rb) (a :: rest) := by
  rw [newDescriptorParentalRatingLoop]
  refine ParsesAt.bind_first (offset_at pre) ?_
  simp only [hlt, if_true]
  obtain ⟨c0, c1, c2, hc⟩ := list3 _ ok.countryCode
  have hb : parentalRatingItemBytes a = [c0, c1, c2, a.rating] := by
    unfold parentalRatingItemBytes wU8
    rw [Nat.mod_eq_of_lt ok.rating, wBytesN_exact _ _ _ ok.countryCode, hc]; rfl
  refine ParsesAt.bind (nextBytes_at _ _ 4 (by rw [hb]; rfl)) ?_
  refine ParsesAt.bind_last h ?_
  refine ParsesAt.congr_val (ParsesAt.pure _ _) ?_
  rw [hb]
  cases a with
  | mk cc r =>
    simp only at hc
    simp [hc]

theorem parentalRatingItemBytes_length (a : DescriptorParentalRatingItem) : (parentalRatingItemBytes a).length = 4 := by
  simp [parentalRatingItemBytes]

theorem parentalRating_body (x : DescriptorParentalRating) (wf : ParentalRatingWF x) (pre : Bytes) :
    ParsesAt pre (newDescriptorParentalRating ((pre.length : Int) + ((writeDescriptorParentalRating x).length : Nat)))
      (writeDescriptorParentalRating x) x := by
  unfold newDescriptorParentalRating writeDescriptorParentalRating
  rw [parentalRatingItems_eq]
  exact fueled_loop_at newDescriptorParentalRatingLoop parentalRatingItemBytes ParentalRatingItemWF parentalRating_nil
    parentalRating_step (fun a _ => by rw [parentalRatingItemBytes_length]; omega) x.items pre _ wf.items rfl
    DescriptorParentalRating.mk

theorem parentalRating_ok (x : DescriptorParentalRating) (wf : ParentalRatingWF x) : PSIRT.DescOk (ofParentalRating x) := by
  have h1 := wf.nonempty
  have h2 := wf.fits
  have hs : (writeDescriptorParentalRating x).length = 4 * x.items.length := DescLen.parentalRating_length x
  have hl : (writeDescriptorParentalRating x).length = calcDescriptorParentalRatingLength x := by
    rw [hs]; unfold calcDescriptorParentalRatingLength; omega
  refine frame _ descriptorTagParentalRating (writeDescriptorParentalRating x) rfl (by decide) (by decide) hl.symm rfl (by omega) (by omega) ?_
  intro pre
  have hb := parentalRating_body x wf pre
  rw [hl] at hb ⊢
  switch_simp
  exact ParsesAt.bind_last hb (ParsesAt.pure _ _)

/-! ### subtitling -/

def ofSubtitling (x : DescriptorSubtitling) : Descriptor :=
  { tag := descriptorTagSubtitling, length := calcDescriptorSubtitlingLength x, subtitling := some x }

structure SubtitlingItemWF (a : DescriptorSubtitlingItem) : Prop where
  language : a.language.length = 3
  type : a.type < 256
  compositionPageID : a.compositionPageID < 65536
  ancillaryPageID : a.ancillaryPageID < 65536

structure SubtitlingWF (x : DescriptorSubtitling) : Prop where
  items : ∀ a ∈ x.items, SubtitlingItemWF a
  nonempty : 0 < x.items.length
  fits : 8 * x.items.length < 256

def subtitlingItemBytes (a : DescriptorSubtitlingItem) : Bytes :=
  wBytesN a.language 3 0 ++ wU8 a.type ++ wU16 a.compositionPageID ++ wU16 a.ancillaryPageID

theorem subtitlingItems_eq (l : List DescriptorSubtitlingItem) :
    writeDescriptorSubtitlingItems l = (l.map subtitlingItemBytes).flatten := by
  induction l with
  | nil => rfl
  | cons a r ih => simp [writeDescriptorSubtitlingItems, subtitlingItemBytes, ih]

theorem wU16_bytes (v : Nat) (h : v < 65536) : wU16 v = [v / 256 % 256, v % 256] := by
  unfold wU16
  rw [Nat.mod_eq_of_lt h]
  simp [beBytes]

theorem subtitling_nil (pre : Bytes) (e : Int) (f : Nat) (h : ¬ ((pre.length : Int) < e)) :
    ParsesAt pre (newDescriptorSubtitlingLoop e (f + 1)) [] [] := by
  rw [newDescriptorSubtitlingLoop]
  refine ParsesAt.bind_first (offset_at pre) ?_
  simp only [h, if_false]
  exact ParsesAt.pure _ _

theorem subtitling_step (pre : Bytes) (e : Int) (f : Nat) (a : DescriptorSubtitlingItem)
    (rest : List DescriptorSubtitlingItem) (rb : Bytes) (ok : SubtitlingItemWF a) (hlt : (pre.length : Int) < e)
    (h : ParsesAt (pre ++ subtitlingItemBytes a) (newDescriptorSubtitlingLoop e f) rb rest) :
    ParsesAt pre (newDescriptorSubtitlingLoop e (f + 1)) (subtitlingItemBytes a ++ rb) (a :: rest) := by
  rw [newDescriptorSubtitlingLoop]
  refine ParsesAt.bind_first (offset_at pre) ?_
  simp only [hlt, if_true]
  unfold subtitlingItemBytes at h ⊢
  rw [wBytesN_exact _ _ _ ok.language, wU16_bytes _ ok.compositionPageID, wU16_bytes _ ok.ancillaryPageID] at h ⊢
  simp only [List.append_assoc] at h ⊢
  refine ParsesAt.bind (nextBytes_at _ _ 3 (by simp [ok.language])) ?_
  refine ParsesAt.bind (wU8_at _ _ ok.type) ?_
  refine ParsesAt.bind (nextBytes_at _ _ 2 rfl) ?_
  refine ParsesAt.bind (nextBytes_at _ _ 2 rfl) ?_
  refine ParsesAt.bind_last (by simpa using h) ?_
  refine ParsesAt.congr_val (ParsesAt.pure _ _) ?_
  simp only [List.getD_cons_zero, List.getD_cons_succ]
  have h1 := ok.compositionPageID
  have h2 := ok.ancillaryPageID
  cases a with
  | mk an co la ty =>
    simp only at h1 h2 ⊢
    congr 2 <;> omega

theorem subtitlingItemBytes_length (a : DescriptorSubtitlingItem) : (subtitlingItemBytes a).length = 8 := by
  simp [subtitlingItemBytes]

theorem subtitling_body (x : DescriptorSubtitling) (wf : SubtitlingWF x) (pre : Bytes) :
    ParsesAt pre (newDescriptorSubtitling ((pre.length : Int) + ((writeDescriptorSubtitling x).length : Nat)))
      (writeDescriptorSubtitling x) x := by
  unfold newDescriptorSubtitling writeDescriptorSubtitling
  rw [subtitlingItems_eq]
  exact fueled_loop_at newDescriptorSubtitlingLoop subtitlingItemBytes SubtitlingItemWF subtitling_nil
    subtitling_step (fun a _ => by rw [subtitlingItemBytes_length]; omega) x.items pre _ wf.items rfl
    DescriptorSubtitling.mk

theorem subtitling_ok (x : DescriptorSubtitling) (wf : SubtitlingWF x) : PSIRT.DescOk (ofSubtitling x) := by
  have h1 := wf.nonempty
  have h2 := wf.fits
  have hs : (writeDescriptorSubtitling x).length = 8 * x.items.length := DescLen.subtitling_length x
  have hl : (writeDescriptorSubtitling x).length = calcDescriptorSubtitlingLength x := by
    rw [hs]; unfold calcDescriptorSubtitlingLength; omega
  refine frame _ descriptorTagSubtitling (writeDescriptorSubtitling x) rfl (by decide) (by decide) hl.symm rfl (by omega) (by omega) ?_
  intro pre
  have hb := subtitling_body x wf pre
  rw [hl] at hb ⊢
  switch_simp
  exact ParsesAt.bind_last hb (ParsesAt.pure _ _)

/-! ### teletext (tag 0x56) and VBI teletext (tag 0x46): the same body -/

def ofTeletext (x : DescriptorTeletext) : Descriptor :=
  { tag := descriptorTagTeletext, length := calcDescriptorTeletextLength x, teletext := some x }

def ofVBITeletext (x : DescriptorTeletext) : Descriptor :=
  { tag := descriptorTagVBITeletext, length := calcDescriptorTeletextLength x, vbiTeletext := some x }

/-- `page` is written as two 4-bit digits `page / 10`, `page % 10`: pages up to 159 survive (a page of 160 or more
loses the high bits of `page / 10`) -/
structure TeletextItemWF (a : DescriptorTeletextItem) : Prop where
  language : a.language.length = 3
  type : a.type < 32
  magazine : a.magazine < 8
  page : a.page < 160

structure TeletextWF (x : DescriptorTeletext) : Prop where
  items : ∀ a ∈ x.items, TeletextItemWF a
  nonempty : 0 < x.items.length
  fits : 5 * x.items.length < 256

def teletextItemBytes (a : DescriptorTeletextItem) : Bytes :=
  wBytesN a.language 3 0 ++ packFields [(a.type, 5), (a.magazine, 3), (a.page / 10, 4), (a.page % 10, 4)]

theorem teletextItems_eq (l : List DescriptorTeletextItem) :
    writeDescriptorTeletextItems l = (l.map teletextItemBytes).flatten := by
  induction l with
  | nil => rfl
  | cons a r ih => simp [writeDescriptorTeletextItems, teletextItemBytes, ih]

theorem teletext_pack (t m p : Nat) :
    packFields [(t, 5), (m, 3), (p / 10, 4), (p % 10, 4)] = [t % 32 * 8 + m % 8, p / 10 % 16 * 16 + p % 10] := by
  simp only [packFields, fieldsWidth, fieldsValue, beBytes, Nat.reducePow, Nat.reduceAdd, Nat.reduceDiv]
  simp only [List.cons.injEq, and_true]
  constructor <;> omega

theorem teletext_pack' (t m p : Nat) :
    packFields [(t, 5), (m, 3), (p / 10, 4), (p % 10, 4)] = [t % 32 * 8 + m % 8] ++ [p / 10 % 16 * 16 + p % 10] := by
  rw [teletext_pack]; rfl

theorem teletext_nil (pre : Bytes) (e : Int) (f : Nat) (h : ¬ ((pre.length : Int) < e)) :
    ParsesAt pre (newDescriptorTeletextLoop e (f + 1)) [] [] := by
  rw [newDescriptorTeletextLoop]
  refine ParsesAt.bind_first (offset_at pre) ?_
  simp only [h, if_false]
  exact ParsesAt.pure _ _

theorem teletext_step (pre : Bytes) (e : Int) (f : Nat) (a : DescriptorTeletextItem)
    (rest : List DescriptorTeletextItem) (rb : Bytes) (ok : TeletextItemWF a) (hlt : (pre.length : Int) < e)
    (h : ParsesAt (pre ++ teletextItemBytes a) (newDescriptorTeletextLoop e f) rb rest) :
    ParsesAt pre (newDescriptorTeletextLoop e (f + 1)) (teletextItemBytes a ++ rb) (a :: rest) := by
  rw [newDescriptorTeletextLoop]
  refine ParsesAt.bind_first (offset_at pre) ?_
  simp only [hlt, if_true]
  unfold teletextItemBytes at h ⊢
  rw [wBytesN_exact _ _ _ ok.language, teletext_pack'] at h ⊢
  simp only [List.append_assoc] at h ⊢
  refine ParsesAt.bind (nextBytes_at _ _ 3 (by simp [ok.language])) ?_
  refine ParsesAt.bind (nextByte_at _ _) ?_
  refine ParsesAt.bind (nextByte_at _ _) ?_
  refine ParsesAt.bind_last (by simpa using h) ?_
  refine ParsesAt.congr_val (ParsesAt.pure _ _) ?_
  have h1 := ok.type
  have h2 := ok.magazine
  have h3 := ok.page
  cases a with
  | mk la ma pa ty =>
    simp only at h1 h2 h3 ⊢
    congr 2 <;> omega

theorem teletextItemBytes_length (a : DescriptorTeletextItem) : (teletextItemBytes a).length = 5 := by
  simp [teletextItemBytes, DescLen.packFields_length, fieldsWidth]

theorem teletext_body (x : DescriptorTeletext) (wf : TeletextWF x) (pre : Bytes) :
    ParsesAt pre (newDescriptorTeletext ((pre.length : Int) + ((writeDescriptorTeletext x).length : Nat)))
      (writeDescriptorTeletext x) x := by
  unfold newDescriptorTeletext writeDescriptorTeletext
  rw [teletextItems_eq]
  exact fueled_loop_at newDescriptorTeletextLoop teletextItemBytes TeletextItemWF teletext_nil
    teletext_step (fun a _ => by rw [teletextItemBytes_length]; omega) x.items pre _ wf.items rfl
    DescriptorTeletext.mk

theorem teletext_ok (x : DescriptorTeletext) (wf : TeletextWF x) : PSIRT.DescOk (ofTeletext x) := by
  have h1 := wf.nonempty
  have h2 := wf.fits
  have hs : (writeDescriptorTeletext x).length = 5 * x.items.length := DescLen.teletext_length x
  have hl : (writeDescriptorTeletext x).length = calcDescriptorTeletextLength x := by
    rw [hs]; unfold calcDescriptorTeletextLength; omega
  refine frame _ descriptorTagTeletext (writeDescriptorTeletext x) rfl (by decide) (by decide) hl.symm rfl (by omega) (by omega) ?_
  intro pre
  have hb := teletext_body x wf pre
  rw [hl] at hb ⊢
  switch_simp
  exact ParsesAt.bind_last hb (ParsesAt.pure _ _)

theorem vbiTeletext_ok (x : DescriptorTeletext) (wf : TeletextWF x) : PSIRT.DescOk (ofVBITeletext x) := by
  have h1 := wf.nonempty
  have h2 := wf.fits
  have hs : (writeDescriptorTeletext x).length = 5 * x.items.length := DescLen.teletext_length x
  have hl : (writeDescriptorTeletext x).length = calcDescriptorTeletextLength x := by
    rw [hs]; unfold calcDescriptorTeletextLength; omega
  refine frame _ descriptorTagVBITeletext (writeDescriptorTeletext x) rfl (by decide) (by decide) hl.symm rfl (by omega) (by omega) ?_
  intro pre
  have hb := teletext_body x wf pre
  rw [hl] at hb ⊢
  switch_simp
  exact ParsesAt.bind_last hb (ParsesAt.pure _ _)

end Astits.DescRT
