/-
Per-descriptor round trip, kinds made of fixed fields, optional bytes and byte strings.
-/
import Astits.Proofs.DescRT.Core
namespace Astits.DescRT
open Astits Astits.PacketRT

/-! ### network name -/

def ofNetworkName (x : DescriptorNetworkName) : Descriptor :=
  { tag := descriptorTagNetworkName, length := calcDescriptorNetworkNameLength x, networkName := some x }

/-- an EMPTY name is written with length 0 and comes back without the sub-struct (`zero_length_rt`) -/
structure NetworkNameWF (x : DescriptorNetworkName) : Prop where
  nonempty : 0 < x.name.length
  fits : x.name.length < 256

theorem networkName_body (x : DescriptorNetworkName) (pre : Bytes) :
    ParsesAt pre (newDescriptorNetworkName ((pre.length : Int) + ((writeDescriptorNetworkName x).length : Nat)))
      (writeDescriptorNetworkName x) x := by
  unfold newDescriptorNetworkName writeDescriptorNetworkName
  exact ParsesAt.bind_last (restTo_at _ _ _ rfl) (ParsesAt.pure _ _)

theorem networkName_ok (x : DescriptorNetworkName) (wf : NetworkNameWF x) : PSIRT.DescOk (ofNetworkName x) := by
  have hl : (writeDescriptorNetworkName x).length = calcDescriptorNetworkNameLength x := by
    rw [DescLen.networkName_length, DescLen.networkName_calc]; have := wf.fits
    unfold DescLen.networkNameSize; omega
  have hs : (writeDescriptorNetworkName x).length = x.name.length := rfl
  have h1 := wf.nonempty
  have h2 := wf.fits
  refine frame _ descriptorTagNetworkName (writeDescriptorNetworkName x) rfl (by decide) (by decide) hl.symm rfl (by omega) (by omega) ?_
  intro pre
  have hb := networkName_body x pre
  rw [hl] at hb ⊢
  switch_simp
  exact ParsesAt.bind_last hb (ParsesAt.pure _ _)

/-! ### registration -/

def ofRegistration (x : DescriptorRegistration) : Descriptor :=
  { tag := descriptorTagRegistration, length := calcDescriptorRegistrationLength x, registration := some x }

structure RegistrationWF (x : DescriptorRegistration) : Prop where
  formatIdentifier : x.formatIdentifier < 4294967296
  fits : 4 + x.additionalIdentificationInfo.length < 256

theorem wU32_length4 (v : Nat) : (wU32 v).length = 4 := rfl

theorem registration_body (x : DescriptorRegistration) (wf : RegistrationWF x) (pre : Bytes) :
    ParsesAt pre (newDescriptorRegistration ((pre.length : Int) + ((writeDescriptorRegistration x).length : Nat)))
      (writeDescriptorRegistration x) x := by
  unfold newDescriptorRegistration writeDescriptorRegistration
  refine ParsesAt.bind (nextBytes_at _ _ 4 rfl) ?_
  refine ParsesAt.bind_last (restIfAny_at _ _ _ (by simp only [List.length_append, Int.natCast_add]; omega)) ?_
  refine ParsesAt.congr_val (ParsesAt.pure _ _) ?_
  have : rdBE32 (wU32 x.formatIdentifier) = x.formatIdentifier := by
    have h := wf.formatIdentifier
    unfold wU32
    rw [Nat.mod_eq_of_lt h]
    simp only [beBytes, rdBE32, List.getD_cons_zero, List.getD_cons_succ, Nat.reducePow]
    omega
  rw [this]

theorem registration_ok (x : DescriptorRegistration) (wf : RegistrationWF x) : PSIRT.DescOk (ofRegistration x) := by
  have h2 := wf.fits
  have hs : (writeDescriptorRegistration x).length = 4 + x.additionalIdentificationInfo.length := DescLen.registration_length x
  have hl : (writeDescriptorRegistration x).length = calcDescriptorRegistrationLength x := by
    rw [hs]; unfold calcDescriptorRegistrationLength; omega
  refine frame _ descriptorTagRegistration (writeDescriptorRegistration x) rfl (by decide) (by decide) hl.symm rfl (by omega) (by omega) ?_
  intro pre
  have hb := registration_body x wf pre
  rw [hl] at hb ⊢
  switch_simp
  exact ParsesAt.bind_last hb (ParsesAt.pure _ _)

/-! ### service -/

def ofService (x : DescriptorService) : Descriptor :=
  { tag := descriptorTagService, length := calcDescriptorServiceLength x, service := some x }

structure ServiceWF (x : DescriptorService) : Prop where
  type : x.type < 256
  fits : 3 + x.name.length + x.provider.length < 256

theorem service_body (x : DescriptorService) (wf : ServiceWF x) (pre : Bytes) :
    ParsesAt pre newDescriptorService (writeDescriptorService x) x := by
  have h := wf.fits
  unfold newDescriptorService writeDescriptorService
  simp only [List.append_assoc]
  refine ParsesAt.bind (wU8_at _ _ wf.type) ?_
  refine ParsesAt.bind (wU8_at _ _ (by omega)) ?_
  refine ParsesAt.bind (nextBytes_at _ _ _ rfl) ?_
  refine ParsesAt.bind (wU8_at _ _ (by omega)) ?_
  exact ParsesAt.bind_last (nextBytes_at _ _ _ rfl) (ParsesAt.pure _ _)

theorem service_ok (x : DescriptorService) (wf : ServiceWF x) : PSIRT.DescOk (ofService x) := by
  have h2 := wf.fits
  have hs : (writeDescriptorService x).length = 3 + x.name.length + x.provider.length := DescLen.service_length x
  have hl : (writeDescriptorService x).length = calcDescriptorServiceLength x := by
    rw [hs]; unfold calcDescriptorServiceLength; omega
  refine frame _ descriptorTagService (writeDescriptorService x) rfl (by decide) (by decide) hl.symm rfl (by omega) (by omega) ?_
  intro pre
  have hb := service_body x wf pre
  rw [hl]
  switch_simp
  exact ParsesAt.bind_last hb (ParsesAt.pure _ _)

/-! ### short event -/

def ofShortEvent (x : DescriptorShortEvent) : Descriptor :=
  { tag := descriptorTagShortEvent, length := calcDescriptorShortEventLength x, shortEvent := some x }

structure ShortEventWF (x : DescriptorShortEvent) : Prop where
  language : x.language.length = 3
  fits : 5 + x.eventName.length + x.text.length < 256

theorem shortEvent_body (x : DescriptorShortEvent) (wf : ShortEventWF x) (pre : Bytes) :
    ParsesAt pre newDescriptorShortEvent (writeDescriptorShortEvent x) x := by
  have h := wf.fits
  unfold newDescriptorShortEvent writeDescriptorShortEvent
  rw [wBytesN_exact _ _ _ wf.language]
  simp only [List.append_assoc]
  refine ParsesAt.bind (nextBytes_at _ _ 3 (by simp [wf.language])) ?_
  refine ParsesAt.bind (wU8_at _ _ (by omega)) ?_
  refine ParsesAt.bind (nextBytes_at _ _ _ rfl) ?_
  refine ParsesAt.bind (wU8_at _ _ (by omega)) ?_
  exact ParsesAt.bind_last (nextBytes_at _ _ _ rfl) (ParsesAt.pure _ _)

theorem shortEvent_ok (x : DescriptorShortEvent) (wf : ShortEventWF x) : PSIRT.DescOk (ofShortEvent x) := by
  have h2 := wf.fits
  have hs : (writeDescriptorShortEvent x).length = 3 + 1 + 1 + x.eventName.length + x.text.length := DescLen.shortEvent_length x
  have hl : (writeDescriptorShortEvent x).length = calcDescriptorShortEventLength x := by
    rw [hs]; unfold calcDescriptorShortEventLength; omega
  refine frame _ descriptorTagShortEvent (writeDescriptorShortEvent x) rfl (by decide) (by decide) hl.symm rfl (by omega) (by omega) ?_
  intro pre
  have hb := shortEvent_body x wf pre
  rw [hl]
  switch_simp
  exact ParsesAt.bind_last hb (ParsesAt.pure _ _)

/-! ### component -/

def ofComponent (x : DescriptorComponent) : Descriptor :=
  { tag := descriptorTagComponent, length := calcDescriptorComponentLength x, component := some x }

structure ComponentWF (x : DescriptorComponent) : Prop where
  componentTag : x.componentTag < 256
  componentType : x.componentType < 256
  language : x.iso639LanguageCode.length = 3
  streamContent : x.streamContent < 16
  streamContentExt : x.streamContentExt < 16
  fits : 6 + x.text.length < 256

theorem nibbles_bytes (hi lo : Nat) : packFields [(hi, 4), (lo, 4)] = [hi % 16 * 16 + lo % 16] := by
  simp only [packFields, fieldsWidth, fieldsValue, beBytes, Nat.reducePow]
  congr 1; omega

theorem nibbles_decode (hi lo : Nat) (h1 : hi < 16) (h2 : lo < 16) :
    (hi % 16 * 16 + lo % 16) % 16 = lo ∧ (hi % 16 * 16 + lo % 16) / 16 % 16 = hi := by
  constructor <;> omega

theorem component_body (x : DescriptorComponent) (wf : ComponentWF x) (pre : Bytes) :
    ParsesAt pre (newDescriptorComponent ((pre.length : Int) + ((writeDescriptorComponent x).length : Nat)))
      (writeDescriptorComponent x) x := by
  rw [DescLen.component_length]
  unfold newDescriptorComponent writeDescriptorComponent DescLen.componentSize
  rw [wBytesN_exact _ _ _ wf.language, nibbles_bytes]
  obtain ⟨e1, e2⟩ := nibbles_decode _ _ wf.streamContentExt wf.streamContent
  simp only [List.append_assoc]
  refine ParsesAt.bind (nextByte_at _ _) ?_
  refine ParsesAt.bind (wU8_at _ _ wf.componentType) ?_
  refine ParsesAt.bind (wU8_at _ _ wf.componentTag) ?_
  refine ParsesAt.bind (nextBytes_at _ _ 3 (by simp [wf.language])) ?_
  refine ParsesAt.bind_last (restIfAny_at _ _ _ ?_) ?_
  · simp only [List.length_append, List.length_cons, List.length_nil, wf.language, DescLen.wU8_length, Int.natCast_add]
    omega
  refine ParsesAt.congr_val (ParsesAt.pure _ _) ?_
  rw [e1, e2]

theorem component_ok (x : DescriptorComponent) (wf : ComponentWF x) : PSIRT.DescOk (ofComponent x) := by
  have h2 := wf.fits
  have hs : (writeDescriptorComponent x).length = 6 + x.text.length := DescLen.component_length x
  have hl : (writeDescriptorComponent x).length = calcDescriptorComponentLength x := by
    rw [hs]; unfold calcDescriptorComponentLength; omega
  refine frame _ descriptorTagComponent (writeDescriptorComponent x) rfl (by decide) (by decide) hl.symm rfl (by omega) (by omega) ?_
  intro pre
  have hb := component_body x wf pre
  rw [hl] at hb ⊢
  switch_simp
  exact ParsesAt.bind_last hb (ParsesAt.pure _ _)

end Astits.DescRT
