/-
Per-descriptor round trip, fixed-size kinds.
-/
import Astits.Proofs.DescRT.Core
namespace Astits.DescRT
open Astits Astits.PacketRT

/-! ### stream identifier -/

def ofStreamIdentifier (x : DescriptorStreamIdentifier) : Descriptor :=
  { tag := descriptorTagStreamIdentifier, length := calcDescriptorStreamIdentifierLength x, streamIdentifier := some x }

structure StreamIdentifierWF (x : DescriptorStreamIdentifier) : Prop where
  componentTag : x.componentTag < 256

theorem streamIdentifier_body (x : DescriptorStreamIdentifier) (wf : StreamIdentifierWF x) (pre : Bytes) :
    ParsesAt pre newDescriptorStreamIdentifier (writeDescriptorStreamIdentifier x) x := by
  unfold newDescriptorStreamIdentifier writeDescriptorStreamIdentifier
  exact ParsesAt.bind_last (wU8_at _ _ wf.componentTag) (ParsesAt.pure _ _)

theorem streamIdentifier_ok (x : DescriptorStreamIdentifier) (wf : StreamIdentifierWF x) :
    PSIRT.DescOk (ofStreamIdentifier x) := by
  have hl : (writeDescriptorStreamIdentifier x).length = 1 := rfl
  refine frame _ descriptorTagStreamIdentifier (writeDescriptorStreamIdentifier x) rfl (by decide) (by decide) ?_ ?_ (by omega) (by omega) ?_
  · rw [hl]; rfl
  · rfl
  · intro pre
    rw [hl]
    switch_simp
    exact ParsesAt.bind_last (streamIdentifier_body x wf pre) (ParsesAt.pure _ _)

/-! ### data stream alignment -/

def ofDataStreamAlignment (x : DescriptorDataStreamAlignment) : Descriptor :=
  { tag := descriptorTagDataStreamAlignment, length := calcDescriptorDataStreamAlignmentLength x, dataStreamAlignment := some x }

structure DataStreamAlignmentWF (x : DescriptorDataStreamAlignment) : Prop where
  type : x.type < 256

theorem dataStreamAlignment_body (x : DescriptorDataStreamAlignment) (wf : DataStreamAlignmentWF x) (pre : Bytes) :
    ParsesAt pre newDescriptorDataStreamAlignment (writeDescriptorDataStreamAlignment x) x := by
  unfold newDescriptorDataStreamAlignment writeDescriptorDataStreamAlignment
  exact ParsesAt.bind_last (wU8_at _ _ wf.type) (ParsesAt.pure _ _)

theorem dataStreamAlignment_ok (x : DescriptorDataStreamAlignment) (wf : DataStreamAlignmentWF x) :
    PSIRT.DescOk (ofDataStreamAlignment x) := by
  have hl : (writeDescriptorDataStreamAlignment x).length = 1 := rfl
  refine frame _ descriptorTagDataStreamAlignment (writeDescriptorDataStreamAlignment x) rfl (by decide) (by decide) ?_ ?_ (by omega) (by omega) ?_
  · rw [hl]; rfl
  · rfl
  · intro pre
    rw [hl]
    switch_simp
    exact ParsesAt.bind_last (dataStreamAlignment_body x wf pre) (ParsesAt.pure _ _)

/-! ### private data indicator / specifier: 32-bit big-endian -/

theorem wU32_bytes (v : Nat) (h : v < 4294967296) :
    wU32 v = [v / 16777216 % 256, v / 65536 % 256, v / 256 % 256, v % 256] := by
  unfold wU32
  rw [Nat.mod_eq_of_lt h]
  simp [beBytes]

theorem rdBE32_wU32 (v : Nat) (h : v < 4294967296) : rdBE32 (wU32 v) = v := by
  rw [wU32_bytes v h]
  simp only [rdBE32, List.getD_cons_zero, List.getD_cons_succ]
  omega

theorem wU32_at (pre : Bytes) (v : Nat) : ParsesAt pre (It.nextBytes 4) (wU32 v) (wU32 v) :=
  nextBytes_at _ _ _ rfl

def ofPrivateDataIndicator (x : DescriptorPrivateDataIndicator) : Descriptor :=
  { tag := descriptorTagPrivateDataIndicator, length := calcDescriptorPrivateDataIndicatorLength x, privateDataIndicator := some x }

structure PrivateDataIndicatorWF (x : DescriptorPrivateDataIndicator) : Prop where
  indicator : x.indicator < 4294967296

theorem privateDataIndicator_body (x : DescriptorPrivateDataIndicator) (wf : PrivateDataIndicatorWF x) (pre : Bytes) :
    ParsesAt pre newDescriptorPrivateDataIndicator (writeDescriptorPrivateDataIndicator x) x := by
  unfold newDescriptorPrivateDataIndicator writeDescriptorPrivateDataIndicator
  refine ParsesAt.congr_val (ParsesAt.bind_last (wU32_at _ _) (ParsesAt.pure _ _)) ?_
  rw [rdBE32_wU32 _ wf.indicator]

theorem privateDataIndicator_ok (x : DescriptorPrivateDataIndicator) (wf : PrivateDataIndicatorWF x) :
    PSIRT.DescOk (ofPrivateDataIndicator x) := by
  have hl : (writeDescriptorPrivateDataIndicator x).length = 4 := rfl
  refine frame _ descriptorTagPrivateDataIndicator (writeDescriptorPrivateDataIndicator x) rfl (by decide) (by decide) ?_ ?_ (by omega) (by omega) ?_
  · rw [hl]; rfl
  · rfl
  · intro pre
    rw [hl]
    switch_simp
    exact ParsesAt.bind_last (privateDataIndicator_body x wf pre) (ParsesAt.pure _ _)

def ofPrivateDataSpecifier (x : DescriptorPrivateDataSpecifier) : Descriptor :=
  { tag := descriptorTagPrivateDataSpecifier, length := calcDescriptorPrivateDataSpecifierLength x, privateDataSpecifier := some x }

structure PrivateDataSpecifierWF (x : DescriptorPrivateDataSpecifier) : Prop where
  specifier : x.specifier < 4294967296

theorem privateDataSpecifier_body (x : DescriptorPrivateDataSpecifier) (wf : PrivateDataSpecifierWF x) (pre : Bytes) :
    ParsesAt pre newDescriptorPrivateDataSpecifier (writeDescriptorPrivateDataSpecifier x) x := by
  unfold newDescriptorPrivateDataSpecifier writeDescriptorPrivateDataSpecifier
  refine ParsesAt.congr_val (ParsesAt.bind_last (wU32_at _ _) (ParsesAt.pure _ _)) ?_
  rw [rdBE32_wU32 _ wf.specifier]

theorem privateDataSpecifier_ok (x : DescriptorPrivateDataSpecifier) (wf : PrivateDataSpecifierWF x) :
    PSIRT.DescOk (ofPrivateDataSpecifier x) := by
  have hl : (writeDescriptorPrivateDataSpecifier x).length = 4 := rfl
  refine frame _ descriptorTagPrivateDataSpecifier (writeDescriptorPrivateDataSpecifier x) rfl (by decide) (by decide) ?_ ?_ (by omega) (by omega) ?_
  · rw [hl]; rfl
  · rfl
  · intro pre
    rw [hl]
    switch_simp
    exact ParsesAt.bind_last (privateDataSpecifier_body x wf pre) (ParsesAt.pure _ _)

/-! ### maximum bitrate: 2 reserved bits, 22 bits in units of 50 bytes/s -/

def ofMaximumBitrate (x : DescriptorMaximumBitrate) : Descriptor :=
  { tag := descriptorTagMaximumBitrate, length := calcDescriptorMaximumBitrateLength x, maximumBitrate := some x }

/-- the writer divides by 50 and keeps 22 bits; the parser multiplies by 50 -/
structure MaximumBitrateWF (x : DescriptorMaximumBitrate) : Prop where
  multiple : x.bitrate % 50 = 0
  fits : x.bitrate / 50 < 4194304

theorem maximumBitrate_bytes (r : Nat) :
    packFields [(0xff, 2), (r, 22)] = [(3 * 4194304 + r % 4194304) / 65536 % 256, (3 * 4194304 + r % 4194304) / 256 % 256,
      (3 * 4194304 + r % 4194304) % 256] := by
  simp only [packFields, fieldsWidth, fieldsValue, beBytes, Nat.reducePow, Nat.reduceAdd, Nat.reduceDiv]
  simp only [List.cons.injEq, and_true]
  refine ⟨?_, ?_, ?_⟩ <;> first | trivial | omega

/-- what the parser computes from the three written bytes, for EVERY bitrate -/
theorem maximumBitrate_decode (r : Nat) :
    (((3 * 4194304 + r % 4194304) / 65536 % 256 % 64) * 65536 + (3 * 4194304 + r % 4194304) / 256 % 256 * 256
      + (3 * 4194304 + r % 4194304) % 256) = r % 4194304 := by
  omega

/-- total version: whatever the bitrate, the parser returns `bitrate / 50 % 2^22 * 50` -/
theorem maximumBitrate_body_norm (x : DescriptorMaximumBitrate) (pre : Bytes) :
    ParsesAt pre newDescriptorMaximumBitrate (writeDescriptorMaximumBitrate x)
      { bitrate := x.bitrate / 50 % 4194304 * 50 } := by
  unfold newDescriptorMaximumBitrate writeDescriptorMaximumBitrate
  rw [maximumBitrate_bytes]
  refine ParsesAt.congr_val (ParsesAt.bind_last (nextBytes_at _ _ 3 rfl) (ParsesAt.pure _ _)) ?_
  simp only [List.getD_cons_zero, List.getD_cons_succ]
  rw [maximumBitrate_decode]

theorem maximumBitrate_body (x : DescriptorMaximumBitrate) (wf : MaximumBitrateWF x) (pre : Bytes) :
    ParsesAt pre newDescriptorMaximumBitrate (writeDescriptorMaximumBitrate x) x := by
  refine ParsesAt.congr_val (maximumBitrate_body_norm x pre) ?_
  have h1 := wf.multiple
  have h2 := wf.fits
  cases x with
  | mk b =>
    simp only at h1 h2 ⊢
    congr 1
    omega

theorem maximumBitrate_ok (x : DescriptorMaximumBitrate) (wf : MaximumBitrateWF x) :
    PSIRT.DescOk (ofMaximumBitrate x) := by
  have hl : (writeDescriptorMaximumBitrate x).length = 3 := DescLen.maximumBitrate_length x
  refine frame _ descriptorTagMaximumBitrate (writeDescriptorMaximumBitrate x) rfl (by decide) (by decide) ?_ ?_ (by omega) (by omega) ?_
  · rw [hl]; rfl
  · rfl
  · intro pre
    rw [hl]
    switch_simp
    exact ParsesAt.bind_last (maximumBitrate_body x wf pre) (ParsesAt.pure _ _)

/-! ### AVC video -/

def ofAVCVideo (x : DescriptorAVCVideo) : Descriptor :=
  { tag := descriptorTagAVCVideo, length := calcDescriptorAVCVideoLength x, avcVideo := some x }

structure AVCVideoWF (x : DescriptorAVCVideo) : Prop where
  profileIDC : x.profileIDC < 256
  compatibleFlags : x.compatibleFlags < 32
  levelIDC : x.levelIDC < 256

def avcByte1 (x : DescriptorAVCVideo) : Nat :=
  ((b2n x.constraintSet0Flag * 2 + b2n x.constraintSet1Flag) * 2 + b2n x.constraintSet2Flag) * 32 + x.compatibleFlags % 32

def avcByte3 (x : DescriptorAVCVideo) : Nat := (b2n x.avcStillPresent * 2 + b2n x.avc24HourPictureFlag) * 64 + 63

theorem avc_bytes (x : DescriptorAVCVideo) :
    packFields [(b2n x.constraintSet0Flag, 1), (b2n x.constraintSet1Flag, 1), (b2n x.constraintSet2Flag, 1), (x.compatibleFlags, 5)]
      = [avcByte1 x] ∧
    packFields [(b2n x.avcStillPresent, 1), (b2n x.avc24HourPictureFlag, 1), (0xff, 6)] = [avcByte3 x] := by
  have h1 := b2n_le x.constraintSet0Flag
  have h2 := b2n_le x.constraintSet1Flag
  have h3 := b2n_le x.constraintSet2Flag
  have h4 := b2n_le x.avcStillPresent
  have h5 := b2n_le x.avc24HourPictureFlag
  simp only [packFields, fieldsWidth, fieldsValue, beBytes, Nat.reducePow, avcByte1, avcByte3]
  constructor <;> (congr 1; omega)

theorem avc_decode (x : DescriptorAVCVideo) (h : x.compatibleFlags < 32) :
    (avcByte1 x / 128 % 2 = 1) = (x.constraintSet0Flag = true) ∧ (avcByte1 x / 64 % 2 = 1) = (x.constraintSet1Flag = true) ∧
    (avcByte1 x / 32 % 2 = 1) = (x.constraintSet2Flag = true) ∧ avcByte1 x % 32 = x.compatibleFlags ∧
    (avcByte3 x / 128 % 2 = 1) = (x.avcStillPresent = true) ∧ (avcByte3 x / 64 % 2 = 1) = (x.avc24HourPictureFlag = true) := by
  have h1 := b2n_le x.constraintSet0Flag
  have h2 := b2n_le x.constraintSet1Flag
  have h3 := b2n_le x.constraintSet2Flag
  have h4 := b2n_le x.avcStillPresent
  have h5 := b2n_le x.avc24HourPictureFlag
  rw [← b2n_eq_one, ← b2n_eq_one, ← b2n_eq_one, ← b2n_eq_one, ← b2n_eq_one]
  unfold avcByte1 avcByte3
  refine ⟨?_, ?_, ?_, ?_, ?_, ?_⟩ <;> first | omega | (apply congrArg (· = 1); omega)

theorem avcVideo_body (x : DescriptorAVCVideo) (wf : AVCVideoWF x) (pre : Bytes) :
    ParsesAt pre newDescriptorAVCVideo (writeDescriptorAVCVideo x) x := by
  unfold newDescriptorAVCVideo writeDescriptorAVCVideo
  obtain ⟨e1, e3⟩ := avc_bytes x
  obtain ⟨d1, d2, d3, d4, d5, d6⟩ := avc_decode x wf.compatibleFlags
  rw [e1, e3]
  simp only [List.append_assoc]
  refine ParsesAt.bind (wU8_at _ _ wf.profileIDC) ?_
  refine ParsesAt.bind (nextByte_at _ _) ?_
  refine ParsesAt.bind (wU8_at _ _ wf.levelIDC) ?_
  refine ParsesAt.bind_last (nextByte_at _ _) ?_
  refine ParsesAt.congr_val (ParsesAt.pure _ _) ?_
  simp only [d1, d2, d3, d4, d5, d6, Bool.decide_eq_true]

theorem avcVideo_ok (x : DescriptorAVCVideo) (wf : AVCVideoWF x) : PSIRT.DescOk (ofAVCVideo x) := by
  have hl : (writeDescriptorAVCVideo x).length = 4 := DescLen.avcVideo_length x
  refine frame _ descriptorTagAVCVideo (writeDescriptorAVCVideo x) rfl (by decide) (by decide) ?_ ?_ (by omega) (by omega) ?_
  · rw [hl]; rfl
  · rfl
  · intro pre
    rw [hl]
    switch_simp
    exact ParsesAt.bind_last (avcVideo_body x wf pre) (ParsesAt.pure _ _)

/-! ### ISO 639 language and audio type -/

def ofISO639 (x : DescriptorISO639LanguageAndAudioType) : Descriptor :=
  { tag := descriptorTagISO639LanguageAndAudioType, length := calcDescriptorISO639LanguageAndAudioTypeLength x,
    iso639LanguageAndAudioType := some x }

structure ISO639WF (x : DescriptorISO639LanguageAndAudioType) : Prop where
  language : x.language.length = 3
  type : x.type < 256

theorem iso639_body (x : DescriptorISO639LanguageAndAudioType) (wf : ISO639WF x) (pre : Bytes) :
    ParsesAt pre (newDescriptorISO639LanguageAndAudioType ((pre.length : Int) + ((4 : Nat) : Int)))
      (writeDescriptorISO639LanguageAndAudioType x) x := by
  unfold newDescriptorISO639LanguageAndAudioType writeDescriptorISO639LanguageAndAudioType
  rw [wBytesN_exact _ _ _ wf.language, wU8, Nat.mod_eq_of_lt wf.type]
  have hl : (x.language ++ [x.type]).length = 4 := by simp [wf.language]
  refine ParsesAt.bind_last (restTo_at _ _ _ (by rw [hl])) ?_
  have hz : ¬ ((x.language ++ [x.type]).length = 0) := by omega
  simp only [hz, if_false]
  refine ParsesAt.congr_val (ParsesAt.pure _ _) ?_
  have h3 : (x.language ++ [x.type]).length - 1 = x.language.length := by simp
  rw [h3, List.take_left]
  cases x with
  | mk l t => simp

theorem iso639_ok (x : DescriptorISO639LanguageAndAudioType) (wf : ISO639WF x) : PSIRT.DescOk (ofISO639 x) := by
  have hl : (writeDescriptorISO639LanguageAndAudioType x).length = 4 := DescLen.iso639_length x
  refine frame _ descriptorTagISO639LanguageAndAudioType (writeDescriptorISO639LanguageAndAudioType x) rfl (by decide) (by decide) ?_ ?_ (by omega) (by omega) ?_
  · rw [hl]; rfl
  · rfl
  · intro pre
    rw [hl]
    switch_simp
    exact ParsesAt.bind_last (iso639_body x wf pre) (ParsesAt.pure _ _)

end Astits.DescRT
