/-
Per-descriptor round trip: the places where `parseDescriptor ∘ writeDescriptor` is NOT the identity on values whose
fields are in range, with the normal form the parser returns (`DescRTTo d (normalise d)`).
-/
import Astits.Proofs.DescRT.Fixed
import Astits.Proofs.DescRT.Flags
import Astits.Proofs.DescRT.Lists
import Astits.Proofs.DescRT.Nested
namespace Astits.DescRT
open Astits Astits.PacketRT

/-! ### the redundant `Length` field -/

/-- `writeDescriptor` never reads `d.Length` (the model's deviation (a): the computed length decides), the parser sets
it from the wire: a stale `Length` comes back corrected -/
theorem staleLength_rt (d' : Descriptor) (n : Nat) (rt : PSIRT.DescRT d') : DescRTTo { d' with length := n } d' :=
  DescRTTo.of_write_eq rfl rt

/-! ### maximum bitrate: units of 50 bytes/s, 22 bits -/

/-- total: for EVERY bitrate the parser returns `bitrate / 50 % 2^22 * 50` (the remainder modulo 50 is lost by the
writer's division, bits above the 22nd by `WriteN(…, 22)`) -/
theorem maximumBitrate_norm (x : DescriptorMaximumBitrate) :
    DescRTTo (ofMaximumBitrate x) (ofMaximumBitrate { bitrate := x.bitrate / 50 % 4194304 * 50 }) := by
  have hl : (writeDescriptorMaximumBitrate x).length = 3 := DescLen.maximumBitrate_length x
  refine (frameTo _ _ descriptorTagMaximumBitrate (writeDescriptorMaximumBitrate x) rfl (by decide) (by decide) ?_ ?_
    (by omega) (by omega) ?_).1
  · rw [hl]; rfl
  · rfl
  · intro pre
    rw [hl]
    switch_simp
    exact ParsesAt.bind_last (maximumBitrate_body_norm x pre) (ParsesAt.pure _ _)

/-! ### AC-3 / enhanced AC-3: a field whose flag is clear is not written -/

def normAC3 (x : DescriptorAC3) : DescriptorAC3 :=
  { x with
    asvc := if x.hasASVC then x.asvc else 0
    bsid := if x.hasBSID then x.bsid else 0
    componentType := if x.hasComponentType then x.componentType else 0
    mainID := if x.hasMainID then x.mainID else 0 }

theorem writeAC3_norm (x : DescriptorAC3) : writeDescriptorAC3 (normAC3 x) = writeDescriptorAC3 x := by
  unfold writeDescriptorAC3 normAC3
  cases x.hasComponentType <;> cases x.hasBSID <;> cases x.hasMainID <;> cases x.hasASVC <;> rfl

theorem optByte_norm (c : Bool) (v : Nat) (h : c = true → v < 256) : OptByte c (if c = true then v else 0) := by
  cases c
  · exact ⟨fun h => (by cases h), fun _ => rfl⟩
  · exact ⟨fun _ => h rfl, fun h => (by cases h)⟩

/-- hypotheses: only the 8-bit ranges of the fields that ARE written, and the 255-byte bound -/
theorem ac3_norm (x : DescriptorAC3) (h1 : x.hasComponentType = true → x.componentType < 256)
    (h2 : x.hasBSID = true → x.bsid < 256) (h3 : x.hasMainID = true → x.mainID < 256)
    (h4 : x.hasASVC = true → x.asvc < 256) (hfit : DescLen.ac3Size x < 256) :
    DescRTTo (ofAC3 x) (ofAC3 (normAC3 x)) := by
  have wf : AC3WF (normAC3 x) :=
    ⟨optByte_norm _ _ h1, optByte_norm _ _ h2, optByte_norm _ _ h3, optByte_norm _ _ h4, hfit⟩
  refine DescRTTo.of_write_eq ?_ (ac3_ok _ wf).rt
  show wU8 _ ++ wU8 (calcDescriptorAC3Length x) ++ (if calcDescriptorAC3Length x = 0 then [] else writeDescriptorAC3 x)
    = wU8 _ ++ wU8 (calcDescriptorAC3Length (normAC3 x))
        ++ (if calcDescriptorAC3Length (normAC3 x) = 0 then [] else writeDescriptorAC3 (normAC3 x))
  rw [writeAC3_norm]
  rfl

def normEnhancedAC3 (x : DescriptorEnhancedAC3) : DescriptorEnhancedAC3 :=
  { x with
    asvc := if x.hasASVC then x.asvc else 0
    bsid := if x.hasBSID then x.bsid else 0
    componentType := if x.hasComponentType then x.componentType else 0
    mainID := if x.hasMainID then x.mainID else 0
    subStream1 := if x.hasSubStream1 then x.subStream1 else 0
    subStream2 := if x.hasSubStream2 then x.subStream2 else 0
    subStream3 := if x.hasSubStream3 then x.subStream3 else 0 }

theorem ite_wU8_norm (c : Bool) (v : Nat) :
    (if c = true then wU8 (if c = true then v else 0) else []) = (if c = true then wU8 v else []) := by
  cases c <;> rfl

theorem writeEnhancedAC3_norm (x : DescriptorEnhancedAC3) :
    writeDescriptorEnhancedAC3 (normEnhancedAC3 x) = writeDescriptorEnhancedAC3 x := by
  unfold writeDescriptorEnhancedAC3 normEnhancedAC3
  simp only [ite_wU8_norm]

theorem enhancedAC3_norm (x : DescriptorEnhancedAC3) (h1 : x.hasComponentType = true → x.componentType < 256)
    (h2 : x.hasBSID = true → x.bsid < 256) (h3 : x.hasMainID = true → x.mainID < 256)
    (h4 : x.hasASVC = true → x.asvc < 256) (h5 : x.hasSubStream1 = true → x.subStream1 < 256)
    (h6 : x.hasSubStream2 = true → x.subStream2 < 256) (h7 : x.hasSubStream3 = true → x.subStream3 < 256)
    (hfit : DescLen.enhancedAC3Size x < 256) :
    DescRTTo (ofEnhancedAC3 x) (ofEnhancedAC3 (normEnhancedAC3 x)) := by
  have wf : EnhancedAC3WF (normEnhancedAC3 x) :=
    ⟨optByte_norm _ _ h1, optByte_norm _ _ h2, optByte_norm _ _ h3, optByte_norm _ _ h4, optByte_norm _ _ h5,
      optByte_norm _ _ h6, optByte_norm _ _ h7, hfit⟩
  refine DescRTTo.of_write_eq ?_ (enhancedAC3_ok _ wf).rt
  show wU8 _ ++ wU8 (calcDescriptorEnhancedAC3Length x)
        ++ (if calcDescriptorEnhancedAC3Length x = 0 then [] else writeDescriptorEnhancedAC3 x)
    = wU8 _ ++ wU8 (calcDescriptorEnhancedAC3Length (normEnhancedAC3 x))
        ++ (if calcDescriptorEnhancedAC3Length (normEnhancedAC3 x) = 0 then [] else writeDescriptorEnhancedAC3 (normEnhancedAC3 x))
  rw [writeEnhancedAC3_norm]
  rfl

/-! ### teletext: the page number goes through two 4-bit digits -/

def normTeletextItem (a : DescriptorTeletextItem) : DescriptorTeletextItem :=
  { a with page := a.page / 10 % 16 * 10 + a.page % 10 }

def normTeletext (x : DescriptorTeletext) : DescriptorTeletext := { items := x.items.map normTeletextItem }

theorem teletextItemBytes_norm (a : DescriptorTeletextItem) : teletextItemBytes (normTeletextItem a) = teletextItemBytes a := by
  unfold teletextItemBytes normTeletextItem
  rw [teletext_pack, teletext_pack]
  simp only
  congr 3
  omega

theorem writeTeletext_norm (x : DescriptorTeletext) : writeDescriptorTeletext (normTeletext x) = writeDescriptorTeletext x := by
  unfold writeDescriptorTeletext normTeletext
  rw [teletextItems_eq, teletextItems_eq, List.map_map]
  congr 1
  apply List.map_congr_left
  intro a _
  exact teletextItemBytes_norm a

/-- every 8-bit page: the parser returns `page / 10 % 16 * 10 + page % 10` (= `page` up to 159, `page − 160` above) -/
theorem teletext_norm (x : DescriptorTeletext)
    (hitems : ∀ a ∈ x.items, a.language.length = 3 ∧ a.type < 32 ∧ a.magazine < 8)
    (hne : 0 < x.items.length) (hfit : 5 * x.items.length < 256) :
    DescRTTo (ofTeletext x) (ofTeletext (normTeletext x)) ∧ DescRTTo (ofVBITeletext x) (ofVBITeletext (normTeletext x)) := by
  have wf : TeletextWF (normTeletext x) := by
    refine ⟨?_, by simpa [normTeletext] using hne, by simpa [normTeletext] using hfit⟩
    intro a ha
    simp only [normTeletext, List.mem_map] at ha
    obtain ⟨b, hb, rfl⟩ := ha
    obtain ⟨h1, h2, h3⟩ := hitems b hb
    exact ⟨h1, h2, h3, by simp only [normTeletextItem]; omega⟩
  have hc : calcDescriptorTeletextLength (normTeletext x) = calcDescriptorTeletextLength x := by
    simp [calcDescriptorTeletextLength, normTeletext]
  constructor
  · refine DescRTTo.of_write_eq ?_ (teletext_ok _ wf).rt
    show wU8 _ ++ wU8 (calcDescriptorTeletextLength x)
          ++ (if calcDescriptorTeletextLength x = 0 then [] else writeDescriptorTeletext x)
      = wU8 _ ++ wU8 (calcDescriptorTeletextLength (normTeletext x))
          ++ (if calcDescriptorTeletextLength (normTeletext x) = 0 then [] else writeDescriptorTeletext (normTeletext x))
    rw [writeTeletext_norm, hc]
    rfl
  · refine DescRTTo.of_write_eq ?_ (vbiTeletext_ok _ wf).rt
    show wU8 _ ++ wU8 (calcDescriptorTeletextLength x)
          ++ (if calcDescriptorTeletextLength x = 0 then [] else writeDescriptorTeletext x)
      = wU8 _ ++ wU8 (calcDescriptorTeletextLength (normTeletext x))
          ++ (if calcDescriptorTeletextLength (normTeletext x) = 0 then [] else writeDescriptorTeletext (normTeletext x))
    rw [writeTeletext_norm, hc]
    rfl

/-! ### VBI data: line descriptors of a service with an unknown id are replaced by one reserved byte -/

def normVBIService (s : DescriptorVBIDataService) : DescriptorVBIDataService :=
  if isKnownVBIDataServiceID s.dataServiceID then s else { s with descriptors := [] }

def normVBIData (x : DescriptorVBIData) : DescriptorVBIData := { services := x.services.map normVBIService }

theorem vbiServiceBytes_norm (s : DescriptorVBIDataService) : vbiServiceBytes (normVBIService s) = vbiServiceBytes s := by
  unfold normVBIService
  cases hk : isKnownVBIDataServiceID s.dataServiceID
  · simp [vbiServiceBytes, hk]
  · simp

theorem vbiSize_norm (l : List DescriptorVBIDataService) :
    vbiDataServicesSize (l.map normVBIService) = vbiDataServicesSize l := by
  induction l with
  | nil => rfl
  | cons s r ih =>
    simp only [List.map_cons, vbiDataServicesSize, ih]
    unfold normVBIService
    cases hk : isKnownVBIDataServiceID s.dataServiceID <;> simp [hk]

theorem vbiData_norm (x : DescriptorVBIData)
    (hsrv : ∀ s ∈ x.services, s.dataServiceID < 256 ∧
      (isKnownVBIDataServiceID s.dataServiceID = true → s.descriptors.length < 256 ∧ ∀ d ∈ s.descriptors, d.lineOffset < 32))
    (hne : 0 < x.services.length) (hfit : vbiDataServicesSize x.services < 256) :
    DescRTTo (ofVBIData x) (ofVBIData (normVBIData x)) := by
  have wf : VBIDataWF (normVBIData x) := by
    refine ⟨?_, by simpa [normVBIData] using hne, by simpa [normVBIData, vbiSize_norm] using hfit⟩
    intro a ha
    simp only [normVBIData, List.mem_map] at ha
    obtain ⟨s, hs, rfl⟩ := ha
    obtain ⟨h1, h2⟩ := hsrv s hs
    unfold normVBIService
    cases hk : isKnownVBIDataServiceID s.dataServiceID
    · simp only [Bool.false_eq_true, if_false]
      exact ⟨h1, fun h => by simp [hk] at h, fun _ => rfl⟩
    · simp only [if_true]
      refine ⟨h1, fun _ => ⟨(h2 hk).1, fun d hd => ⟨(h2 hk).2 d hd⟩⟩, fun h => by simp [hk] at h⟩
  have hw : writeDescriptorVBIData (normVBIData x) = writeDescriptorVBIData x := by
    unfold writeDescriptorVBIData normVBIData
    rw [vbiServices_eq, vbiServices_eq, List.map_map]
    congr 1
    apply List.map_congr_left
    intro a _
    exact vbiServiceBytes_norm a
  have hc : calcDescriptorVBIDataLength (normVBIData x) = calcDescriptorVBIDataLength x := by
    simp [calcDescriptorVBIDataLength, normVBIData, vbiSize_norm]
  refine DescRTTo.of_write_eq ?_ (vbiData_ok _ wf).rt
  show wU8 _ ++ wU8 (calcDescriptorVBIDataLength x)
        ++ (if calcDescriptorVBIDataLength x = 0 then [] else writeDescriptorVBIData x)
    = wU8 _ ++ wU8 (calcDescriptorVBIDataLength (normVBIData x))
        ++ (if calcDescriptorVBIDataLength (normVBIData x) = 0 then [] else writeDescriptorVBIData (normVBIData x))
  rw [hw, hc]
  rfl

/-! ### extension: the pointer that the extension tag does not select is dropped; a nil `Unknown` comes back empty -/

def normExtension (x : DescriptorExtension) : DescriptorExtension :=
  if x.tag = descriptorTagExtensionSupplementaryAudio then { x with unknown := none }
  else { supplementaryAudio := none, tag := x.tag, unknown := some (x.unknown.getD []) }

theorem extension_norm_unknown (x : DescriptorExtension) (ht : x.tag ≠ descriptorTagExtensionSupplementaryAudio)
    (h256 : x.tag < 256) (hfit : 1 + (x.unknown.getD []).length < 256) :
    DescRTTo (ofExtension x) (ofExtension (normExtension x)) := by
  have hn : normExtension x = { supplementaryAudio := none, tag := x.tag, unknown := some (x.unknown.getD []) } := by
    simp [normExtension, ht]
  rw [hn]
  refine DescRTTo.of_write_eq ?_ (extension_ok _ (.unknown x.tag _ ht h256 hfit)).rt
  show wU8 _ ++ wU8 (calcDescriptorExtensionLength x)
        ++ (if calcDescriptorExtensionLength x = 0 then [] else writeDescriptorExtension x)
    = wU8 _ ++ wU8 (calcDescriptorExtensionLength _)
        ++ (if calcDescriptorExtensionLength _ = 0 then [] else writeDescriptorExtension _)
  have hc : calcDescriptorExtensionLength x
      = calcDescriptorExtensionLength { supplementaryAudio := none, tag := x.tag, unknown := some (x.unknown.getD []) } := by
    simp only [calcDescriptorExtensionLength, ht, if_false]
    cases x.unknown <;> rfl
  have hw : writeDescriptorExtension x
      = writeDescriptorExtension { supplementaryAudio := none, tag := x.tag, unknown := some (x.unknown.getD []) } := by
    simp only [writeDescriptorExtension, ht, if_false]
    cases x.unknown <;> rfl
  rw [hc, hw]
  rfl

theorem extension_norm_supplementaryAudio (x : DescriptorExtension) (s : DescriptorExtensionSupplementaryAudio)
    (ht : x.tag = descriptorTagExtensionSupplementaryAudio) (hs : x.supplementaryAudio = some s)
    (wf : SupplementaryAudioWF s) (hfit : 1 + calcDescriptorExtensionSupplementaryAudioLength s < 256) :
    DescRTTo (ofExtension x) (ofExtension (normExtension x)) := by
  have hn : normExtension x = { supplementaryAudio := some s, tag := descriptorTagExtensionSupplementaryAudio, unknown := none } := by
    cases x with
    | mk sa t u => simp only at ht hs; subst ht hs; simp [normExtension]
  rw [hn]
  refine DescRTTo.of_write_eq ?_ (extension_ok _ (.supplementaryAudio s wf hfit)).rt
  cases x with
  | mk sa t u => simp only at ht hs; subst ht hs; rfl

end Astits.DescRT
