/-
C03, termination half: progress of `NextPacket`, bounded termination of repeated `NextPacket` / `NextData` calls,
fuel sufficiency of the model's loops (`bufferNext`, `dataLoop`, `drain`), with and without a one-shot reader fault.

Everything is phrased through three numbers of a reader: its position, the length of its data and the position
`fpos` of the pending fault (`length + 1` when no fault is pending: such a fault can never fire).
-/
import Astits.Proofs.DemuxRuns
import Astits.Proofs.NoPanic.Demux
namespace Astits.Term

/-! ### the reader in numbers -/

/-- position of the pending fault; `data.length + 1` (a position no `Read` ever reaches) when none is pending -/
def fpos (r : Reader) : Nat :=
  match r.faultActive with
  | some f => f
  | none => r.data.length + 1

/-- the reader's fault, if any, fires at most once -/
def OneShot (r : Reader) : Prop := r.faultAt = none ∨ r.faultOnce = true

/-- same stream: only the position and the "fault has fired" flag may differ -/
structure Same (r r' : Reader) : Prop where
  data : r'.data = r.data
  kind : r'.kind = r.kind
  faultAt : r'.faultAt = r.faultAt
  faultOnce : r'.faultOnce = r.faultOnce

theorem Same.refl (r : Reader) : Same r r := ⟨rfl, rfl, rfl, rfl⟩
theorem Same.trans {a b c : Reader} (h1 : Same a b) (h2 : Same b c) : Same a c :=
  ⟨h2.data.trans h1.data, h2.kind.trans h1.kind, h2.faultAt.trans h1.faultAt, h2.faultOnce.trans h1.faultOnce⟩
theorem Same.oneShot {a b : Reader} (h : Same a b) (ho : OneShot a) : OneShot b := by
  unfold OneShot at *; rw [h.faultAt, h.faultOnce]; exact ho

/-- the reader is exhausted: no byte is left and no fault is pending at the end position.  Every read reports EOF
and leaves the reader as it is. -/
def Exh (r : Reader) : Prop := r.data.length ≤ r.pos ∧ (fpos r = r.pos → r.data.length < fpos r)

theorem fpos_of_none {r : Reader} (h : r.faultAt = none) : fpos r = r.data.length + 1 := by
  unfold fpos; rw [Reader.faultActive_none h]

theorem fpos_done {r : Reader} (h : r.faultDone = true) : fpos r = r.data.length + 1 := by
  unfold fpos Reader.faultActive; rw [h]; rfl

theorem fpos_congr {r r' : Reader} (h : Same r r') (hd : r'.faultDone = r.faultDone) : fpos r' = fpos r := by
  unfold fpos Reader.faultActive; rw [h.data, h.faultAt, hd]

/-- `io.ReadFull` decides on the three numbers only -/
theorem readFull_eq (r : Reader) (n : Nat) :
    r.readFull n =
      if r.pos ≤ fpos r ∧ fpos r < r.pos + n ∧ fpos r ≤ r.data.length then
        ((r.data.drop r.pos).take (fpos r - r.pos), some .injected, { r with pos := fpos r, faultDone := r.faultOnce })
      else if r.data.length - r.pos ≥ n then ((r.data.drop r.pos).take n, none, { r with pos := r.pos + n })
      else if r.data.length - r.pos = 0 then ([], some .eof, r)
      else (r.data.drop r.pos, some .unexpectedEOF, { r with pos := r.data.length }) := by
  unfold Reader.readFull fpos
  cases r.faultActive with
  | some f => rfl
  | none =>
    dsimp only
    have : ¬ (r.pos ≤ r.data.length + 1 ∧ r.data.length + 1 < r.pos + n ∧ r.data.length + 1 ≤ r.data.length) := by omega
    rw [if_neg this]

/-- the four outcomes of `io.ReadFull` -/
inductive RF (r : Reader) (n : Nat) : Bytes → Option ReadErr → Reader → Prop where
  | injected (bs r') : Same r r' → r.pos ≤ fpos r → fpos r < r.pos + n → fpos r ≤ r.data.length → r'.pos = fpos r →
      fpos r' = r.data.length + 1 → RF r n bs (some .injected) r'
  | full (bs r') : Same r r' → r.pos + n ≤ r.data.length → r'.pos = r.pos + n → fpos r' = fpos r → bs.length = n →
      ¬ (r.pos ≤ fpos r ∧ fpos r < r.pos + n) → RF r n bs none r'
  | eof : Exh r → RF r n [] (some .eof) r
  | short (bs r') : Same r r' → r.pos < r.data.length → r.data.length < r.pos + n → r'.pos = r.data.length →
      fpos r' = fpos r → ¬ (r.pos ≤ fpos r ∧ fpos r ≤ r.data.length) → RF r n bs (some .unexpectedEOF) r'

theorem readFull_RF (r : Reader) (n : Nat) (hn : 0 < n) (ho : OneShot r) :
    RF r n (r.readFull n).1 (r.readFull n).2.1 (r.readFull n).2.2 := by
  rw [readFull_eq]
  split
  · rename_i h
    refine RF.injected _ _ ⟨rfl, rfl, rfl, rfl⟩ h.1 h.2.1 h.2.2 rfl ?_
    have hact : r.faultActive ≠ none := by
      intro hc; unfold fpos at h; rw [hc] at h; dsimp only at h; omega
    have hat : r.faultAt ≠ none := by
      intro hc; exact hact (Reader.faultActive_none hc)
    have hon : r.faultOnce = true := by
      rcases ho with h1 | h1
      · exact absurd h1 hat
      · exact h1
    exact fpos_done (r := { r with pos := fpos r, faultDone := r.faultOnce }) hon
  · rename_i h
    split
    · rename_i h1
      refine RF.full _ _ ⟨rfl, rfl, rfl, rfl⟩ (by omega) rfl (fpos_congr ⟨rfl, rfl, rfl, rfl⟩ rfl) ?_ (by omega)
      rw [List.length_take, List.length_drop]; omega
    · split
      · rename_i h1 h2
        exact RF.eof ⟨by omega, by omega⟩
      · rename_i h1 h2
        exact RF.short _ _ ⟨rfl, rfl, rfl, rfl⟩ (by omega) (by omega) rfl (fpos_congr ⟨rfl, rfl, rfl, rfl⟩ rfl) (by omega)

/-- on an exhausted reader every read reports EOF and changes nothing -/
theorem readFull_exh (r : Reader) (n : Nat) (hn : 0 < n) (h : Exh r) : r.readFull n = ([], some .eof, r) := by
  obtain ⟨h1, h2⟩ := h
  rw [readFull_eq]
  have c1 : ¬ (r.pos ≤ fpos r ∧ fpos r < r.pos + n ∧ fpos r ≤ r.data.length) := by omega
  have c2 : ¬ (r.data.length - r.pos ≥ n) := by omega
  have c3 : r.data.length - r.pos = 0 := by omega
  rw [if_neg c1, if_neg c2, if_pos c3]

/-! ### `packetBuffer.next` without fuel -/

/-- big-step semantics of `packetBuffer.next`, the loop over skipped packets written as an inductive relation: there
is no fuel, hence no "fuel exhausted" outcome -/
inductive BufferNextSem (size : Nat) : Demux → Res Packet → Demux → Prop where
  | io (d : Demux) (bs : Bytes) (r' : Reader) : d.r.readFull size = (bs, some .injected, r') →
      BufferNextSem size d (.err .io) { d with r := r' }
  | eof (d : Demux) (bs : Bytes) (e : ReadErr) (r' : Reader) : d.r.readFull size = (bs, some e, r') → e ≠ .injected →
      BufferNextSem size d (.err .eof) { d with r := r' }
  | bad (d : Demux) (bs : Bytes) (r' : Reader) (e : Err) : d.r.readFull size = (bs, none, r') →
      (parsePacket none).val bs = .err e →
      BufferNextSem size d (.err (if e = .sync then .sync else .other)) { d with r := r' }
  | panic (d : Demux) (bs : Bytes) (r' : Reader) : d.r.readFull size = (bs, none, r') →
      (parsePacket none).val bs = .panic → BufferNextSem size d .panic { d with r := r' }
  | keep (d : Demux) (bs : Bytes) (r' : Reader) (p : Packet) : d.r.readFull size = (bs, none, r') →
      (parsePacket none).val bs = .ok p →
      (({ d with r := r' } : Demux).consultSkipper { p with payload := [] }).1 = false →
      BufferNextSem size d (.ok p) (({ d with r := r' } : Demux).consultSkipper { p with payload := [] }).2
  | skip (d : Demux) (bs : Bytes) (r' : Reader) (p : Packet) (res : Res Packet) (d' : Demux) :
      d.r.readFull size = (bs, none, r') → (parsePacket none).val bs = .ok p →
      (({ d with r := r' } : Demux).consultSkipper { p with payload := [] }).1 = true →
      BufferNextSem size (({ d with r := r' } : Demux).consultSkipper { p with payload := [] }).2 res d' →
      BufferNextSem size d res d'

theorem consultSkipper_r (d : Demux) (p : Packet) : (d.consultSkipper p).2.r = d.r := by
  rw [consultSkipper_eq]

/-- **fuel sufficiency of `packetBuffer.next`**: with `fuel * size` above the number of bytes left, the model's
fuel-bounded loop computes the fuel-free semantics -/
theorem bufferNext_sem (size : Nat) (hs : 0 < size) (fuel : Nat) (d : Demux) (ho : OneShot d.r)
    (hf : d.r.data.length - d.r.pos < fuel * size) :
    BufferNextSem size d (d.bufferNext size fuel).1 (d.bufferNext size fuel).2 := by
  induction fuel generalizing d with
  | zero => omega
  | succ fuel ih =>
    have hrf := readFull_RF d.r size hs ho
    unfold Demux.bufferNext
    rcases hrd : d.r.readFull size with ⟨bs, e, r'⟩
    rw [hrd] at hrf
    dsimp only at hrf ⊢
    cases e with
    | some e =>
      cases e with
      | injected => exact BufferNextSem.io d bs r' hrd
      | eof => exact BufferNextSem.eof d bs _ r' hrd (by simp)
      | unexpectedEOF => exact BufferNextSem.eof d bs _ r' hrd (by simp)
    | none =>
      dsimp only
      cases hpp : (parsePacket none).val bs with
      | panic => exact BufferNextSem.panic d bs r' hrd hpp
      | err e => exact BufferNextSem.bad d bs r' e hrd hpp
      | ok p =>
        dsimp only
        by_cases hsk : (({ d with r := r' } : Demux).consultSkipper { p with payload := [] }).1 = true
        · rw [if_pos hsk]
          refine BufferNextSem.skip d bs r' p _ _ hrd hpp hsk (ih _ ?_ ?_)
          · rw [consultSkipper_r]
            cases hrf with
            | full _ _ hsame _ _ _ _ _ => exact hsame.oneShot ho
          · rw [consultSkipper_r]
            cases hrf with
            | full _ _ hsame h1 h2 _ _ _ =>
              dsimp only
              rw [hsame.data, h2]
              rw [Nat.succ_mul] at hf
              omega
        · rw [if_neg hsk]
          have hsk' : (({ d with r := r' } : Demux).consultSkipper { p with payload := [] }).1 = false := by
            simpa using hsk
          exact BufferNextSem.keep d bs r' p hrd hpp hsk'

/-- `r'` is `r` advanced by at least `k` bytes, or the pending fault has fired on the way (the position never goes
back and stays within the data) -/
def Adv (k : Nat) (r r' : Reader) : Prop :=
  Same r r' ∧ r.pos ≤ r'.pos ∧ r'.pos ≤ r.data.length ∧
    ((fpos r' = fpos r ∧ r.pos + k ≤ r'.pos) ∨ (fpos r ≤ r.data.length ∧ fpos r' = r.data.length + 1))

/-- `r'` is `r` read to its end: exhausted, not moved backwards, fault status unchanged -/
def AtEnd (r r' : Reader) : Prop := Same r r' ∧ Exh r' ∧ r.pos ≤ r'.pos ∧ fpos r' = fpos r

theorem RF.adv {r : Reader} {n : Nat} {bs : Bytes} {e : Option ReadErr} {r' : Reader} (h : RF r n bs e r') :
    (e = none → Adv n r r' ∧ fpos r' = fpos r ∧ r'.pos = r.pos + n ∧ bs.length = n) ∧
    (e = some .injected → Adv n r r' ∧ fpos r ≤ r.data.length ∧ fpos r' = r.data.length + 1) ∧
    (e = some .eof → r' = r ∧ Exh r) ∧
    (e = some .unexpectedEOF → AtEnd r r' ∧ r.pos < r'.pos ∧ r'.pos = r.data.length) := by
  cases h with
  | injected bs r' hs h1 h2 h3 h4 h5 =>
    refine ⟨(by intro h; cases h), fun _ => ⟨⟨hs, by omega, by omega, Or.inr ⟨h3, h5⟩⟩, h3, h5⟩, (by intro h; cases h),
      (by intro h; cases h)⟩
  | full bs r' hs h1 h2 h3 h4 h5 =>
    refine ⟨fun _ => ⟨⟨hs, by omega, by omega, Or.inl ⟨h3, by omega⟩⟩, h3, h2, h4⟩, (by intro h; cases h),
      (by intro h; cases h), (by intro h; cases h)⟩
  | eof hx => exact ⟨(by intro h; cases h), (by intro h; cases h), fun _ => ⟨rfl, hx⟩, (by intro h; cases h)⟩
  | short bs r' hs h1 h2 h3 h4 h5 =>
    refine ⟨(by intro h; cases h), (by intro h; cases h), (by intro h; cases h), fun _ => ⟨⟨hs, ?_, by omega, h4⟩, by omega, h3⟩⟩
    unfold Exh
    rw [hs.data]
    omega

theorem Adv.trans_full {k : Nat} {a b c : Reader} (h1 : Adv k a b) (hf : fpos b = fpos a) (h2 : Adv k b c) : Adv k a c := by
  obtain ⟨s1, p1, l1, c1⟩ := h1
  obtain ⟨s2, p2, l2, c2⟩ := h2
  rw [s1.data] at l2 c2
  refine ⟨s1.trans s2, by omega, l2, ?_⟩
  omega

theorem Adv.mono {k k' : Nat} {a b : Reader} (h : Adv k a b) (hk : k' ≤ k) : Adv k' a b := by
  obtain ⟨s1, p1, l1, c1⟩ := h
  exact ⟨s1, p1, l1, by omega⟩

/-- what `packetBuffer.next` does to the reader: ErrNoMorePackets = the reader has been read to its end; every other
outcome = the reader advanced by at least one packet (or its one-shot fault fired) -/
theorem BufferNextSem.reader {size : Nat} {d d' : Demux} {res : Res Packet} (h : BufferNextSem size d res d')
    (hs : 0 < size) (ho : OneShot d.r) :
    (res = .err .eof → AtEnd d.r d'.r) ∧ (res ≠ .err .eof → Adv size d.r d'.r) := by
  induction h with
  | io d bs r' hrd =>
    have := (readFull_RF d.r size hs ho); rw [hrd] at this
    exact ⟨(by intro h; cases h), fun _ => (this.adv.2.1 rfl).1⟩
  | eof d bs e r' hrd hne =>
    have := (readFull_RF d.r size hs ho); rw [hrd] at this
    refine ⟨fun _ => ?_, fun h => absurd rfl h⟩
    cases e with
    | injected => exact absurd rfl hne
    | eof =>
      obtain ⟨h1, h2⟩ := this.adv.2.2.1 rfl
      dsimp only at h1
      show AtEnd d.r r'
      rw [h1]; exact ⟨Same.refl _, h2, Nat.le_refl _, rfl⟩
    | unexpectedEOF => exact (this.adv.2.2.2 rfl).1
  | bad d bs r' e hrd hpp =>
    have := (readFull_RF d.r size hs ho); rw [hrd] at this
    refine ⟨?_, fun _ => (this.adv.1 rfl).1⟩
    intro h; split at h <;> cases h
  | panic d bs r' hrd hpp =>
    have := (readFull_RF d.r size hs ho); rw [hrd] at this
    exact ⟨(by intro h; cases h), fun _ => (this.adv.1 rfl).1⟩
  | keep d bs r' p hrd hpp hsk =>
    have := (readFull_RF d.r size hs ho); rw [hrd] at this
    refine ⟨(by intro h; cases h), fun _ => ?_⟩
    rw [consultSkipper_r]
    exact (this.adv.1 rfl).1
  | skip d bs r' p res d' hrd hpp hsk hrest ih =>
    have := (readFull_RF d.r size hs ho); rw [hrd] at this
    obtain ⟨hadv, hfp, hpos, _⟩ := this.adv.1 rfl
    dsimp only at hadv hfp hpos
    rw [consultSkipper_r] at ih
    have ih := ih (hadv.1.oneShot ho)
    dsimp only at ih
    refine ⟨fun he => ?_, fun hne => hadv.trans_full hfp (ih.2 hne)⟩
    obtain ⟨s2, e2, p2, f2⟩ := ih.1 he
    exact ⟨hadv.1.trans s2, e2, by omega, by omega⟩

/-! ### packet-size auto-detection -/

/-- undecided advance: `r'` is `r` advanced by at least `k` bytes or up to the end of the data (by at least one
byte), or the pending fault has fired -/
def AdvU (k : Nat) (r r' : Reader) : Prop :=
  Same r r' ∧ r.pos ≤ r'.pos ∧ r'.pos ≤ r.data.length ∧
    ((fpos r' = fpos r ∧ r.pos < r'.pos ∧ (r.pos + k ≤ r'.pos ∨ r'.pos = r.data.length)) ∨
     (fpos r ≤ r.data.length ∧ fpos r' = r.data.length + 1))

theorem findSync_lt (b : Bytes) (size : Nat) (h : findSync b = some size) : size < 193 := by
  unfold findSync at h
  have hm := List.mem_of_mem_head? h
  rw [List.mem_filter] at hm
  simpa using hm.1

/-- the outcomes of `autoDetectPacketSize` -/
inductive AD (r : Reader) : Res Nat → Reader → Prop where
  | eof : Exh r → AD r (.err .eof) r
  | fail (e : Err) (r' : Reader) : e ≠ .eof → AdvU 193 r r' → AD r (.err e) r'
  | okSeek (s : Nat) (r' : Reader) : r.kind = .seek → 188 ≤ s → s ≤ 192 → Same r r' → fpos r' = fpos r →
      r.pos < r.data.length → r'.pos = 0 → AD r (.ok s) r'
  | okBufio (s : Nat) : r.kind = .bufio → 188 ≤ s → s ≤ 192 → r.pos < r.data.length → AD r (.ok s) r
  | okPlain (s : Nat) (r' : Reader) : r.kind ≠ .seek → r.kind ≠ .bufio → 188 ≤ s → s ≤ 192 → Same r r' →
      fpos r' = fpos r → r'.pos = r.pos + 2 * s → r'.pos ≤ r.data.length → AD r (.ok s) r'

theorem autoDetect_AD_read (r : Reader) (hk : r.kind ≠ .bufio) (ho : OneShot r) :
    AD r (autoDetectPacketSize r).1 (autoDetectPacketSize r).2 := by
  have hrf := readFull_RF r 193 (by omega) ho
  unfold autoDetectPacketSize
  dsimp only
  rcases hrd : r.readFull 193 with ⟨bs, e, r1⟩
  rw [hrd] at hrf
  dsimp only at hrf
  have hA : e = none ∨ e = some .unexpectedEOF →
      Same r r1 ∧ fpos r1 = fpos r ∧ r.pos < r1.pos ∧ r1.pos ≤ r.data.length ∧
        (r1.pos = r.pos + 193 ∨ r1.pos = r.data.length) := by
    intro he
    rcases he with he | he
    · obtain ⟨⟨h1, h2, h3, h4⟩, h5, h6, _⟩ := hrf.adv.1 he
      exact ⟨h1, h5, by omega, h3, by omega⟩
    · obtain ⟨⟨h1, h2, h3, h4⟩, h5, h6⟩ := hrf.adv.2.2.2 he
      exact ⟨h1, h4, h5, by omega, Or.inr h6⟩
  have hInj : e = some .injected → AD r (.err .io) r1 := by
    intro he
    obtain ⟨⟨h1, h2, h3, h4⟩, h5, h6⟩ := hrf.adv.2.1 he
    exact AD.fail _ _ (by decide) ⟨h1, h2, h3, Or.inr ⟨h5, h6⟩⟩
  have hEof : e = some .eof → AD r (.err .eof) r1 := by
    intro he
    obtain ⟨h1, h2⟩ := hrf.adv.2.2.1 he
    rw [h1]; exact AD.eof h2
  cases hk' : r.kind with
  | bufio => exact absurd hk' hk
  | seek =>
    dsimp only
    rcases e with _ | (_ | _ | _)
    case some.injected => exact hInj rfl
    case some.eof => exact hEof rfl
    all_goals
      obtain ⟨h1, h2, h3, h4, h5⟩ := hA (by first | exact Or.inl rfl | exact Or.inr rfl)
      dsimp only
      split
      · simp only [reduceCtorEq, if_false]
        exact AD.fail _ _ (by decide) ⟨h1, by omega, h4, Or.inl ⟨h2, h3, by omega⟩⟩
      · split
        · simp only [reduceCtorEq, if_false]
          exact AD.fail _ _ (by decide) ⟨h1, by omega, h4, Or.inl ⟨h2, h3, by omega⟩⟩
        · rename_i size hfs
          have h188 := findSync_ge _ _ hfs
          have h193 := findSync_lt _ _ hfs
          simp only [Bool.not_true, Bool.false_eq_true, if_false]
          refine AD.okSeek size _ hk' h188 (by omega) ⟨h1.data, h1.kind, h1.faultAt, h1.faultOnce⟩ ?_ (by omega) rfl
          rw [← h2]
          exact fpos_congr ⟨rfl, rfl, rfl, rfl⟩ rfl
  | _ =>
    dsimp only
    rcases e with _ | (_ | _ | _)
    case some.injected => exact hInj rfl
    case some.eof => exact hEof rfl
    all_goals
      obtain ⟨h1, h2, h3, h4, h5⟩ := hA (by first | exact Or.inl rfl | exact Or.inr rfl)
      dsimp only
      split
      · simp only [reduceCtorEq, if_false]
        exact AD.fail _ _ (by decide) ⟨h1, by omega, h4, Or.inl ⟨h2, h3, by omega⟩⟩
      · split
        · simp only [reduceCtorEq, if_false]
          exact AD.fail _ _ (by decide) ⟨h1, by omega, h4, Or.inl ⟨h2, h3, by omega⟩⟩
        · rename_i size hfs
          have h188 := findSync_ge _ _ hfs
          have h193 := findSync_lt _ _ hfs
          simp only [Bool.not_true, Bool.false_eq_true, if_false]
          have hrf2 := readFull_RF r1 (size - (193 - size)) (by omega) (h1.oneShot ho)
          rcases hrd2 : r1.readFull (size - (193 - size)) with ⟨bs2, e2, r2⟩
          rw [hrd2] at hrf2
          dsimp only at hrf2 ⊢
          rcases e2 with _ | (_ | _ | _)
          · obtain ⟨⟨g1, g2, g3, g4⟩, g5, g6, _⟩ := hrf2.adv.1 rfl
            dsimp only
            rw [h1.data] at g3
            exact AD.okPlain size _ (by rw [hk']; decide) hk (by omega) (by omega) (h1.trans g1) (by omega) (by omega) g3
          · obtain ⟨g1, g2⟩ := hrf2.adv.2.2.1 rfl
            dsimp only
            rw [g1]
            exact AD.fail _ _ (by decide) ⟨h1, by omega, h4, Or.inl ⟨h2, h3, by omega⟩⟩
          · obtain ⟨⟨g1, g2, g3, g4⟩, g5, g6⟩ := hrf2.adv.2.2.2 rfl
            dsimp only
            rw [h1.data] at g6
            exact AD.fail _ _ (by decide) ⟨h1.trans g1, by omega, by omega, Or.inl ⟨by omega, by omega, Or.inr g6⟩⟩
          · obtain ⟨⟨g1, g2, g3, g4⟩, g5, g6⟩ := hrf2.adv.2.1 rfl
            dsimp only
            rw [h1.data] at g3 g5 g6
            exact AD.fail _ _ (by decide) ⟨h1.trans g1, by omega, g3, Or.inr ⟨by omega, g6⟩⟩

/-- what `autoDetectPacketSize` does after a successful `Peek` on a bufio reader -/
def bufioTail (r : Reader) : Res Nat × Reader :=
  if (padTo ((r.data.drop r.pos).take 193) 193).getD 0 0 ≠ syncByte then
    (.err .sync, { r with pos := min r.data.length (r.pos + 193) })
  else match findSync (padTo ((r.data.drop r.pos).take 193) 193) with
    | none => (.err .other, { r with pos := min r.data.length (r.pos + 193) })
    | some size => (.ok size, r)

theorem autoDetect_bufio (r : Reader) (hk : r.kind = .bufio) :
    autoDetectPacketSize r =
      if r.pos ≤ fpos r ∧ fpos r < r.pos + 193 ∧ fpos r ≤ r.data.length then
        (.err .io, { r with faultDone := r.faultOnce })
      else if r.data.length - r.pos = 0 then (.err .eof, r)
      else bufioTail r := by
  unfold autoDetectPacketSize fpos bufioTail
  simp only [hk]
  cases hfa : r.faultActive with
  | none =>
    dsimp only
    have hw : ¬ (r.pos ≤ r.data.length + 1 ∧ r.data.length + 1 < r.pos + 193 ∧ r.data.length + 1 ≤ r.data.length) := by
      omega
    rw [if_neg hw]
    by_cases h0 : r.data.length - r.pos = 0
    · simp only [h0, if_true]
    · simp only [h0, if_false, if_true]
      split
      · rw [hk]
      · split <;> simp_all
  | some f =>
    dsimp only
    by_cases hw : r.pos ≤ f ∧ f < r.pos + 193 ∧ f ≤ r.data.length
    · simp only [hw, and_self, if_true]
    · simp only [hw, if_false]
      by_cases h0 : r.data.length - r.pos = 0
      · simp only [h0, if_true]
      · simp only [h0, if_false, if_true]
        split
        · rw [hk]
        · split <;> simp_all

theorem fpos_fired {r r' : Reader} (ho : OneShot r) (h : fpos r ≤ r.data.length) (hd : r'.data = r.data)
    (hf : r'.faultDone = r.faultOnce) : fpos r' = r.data.length + 1 := by
  have hact : r.faultActive ≠ none := by
    intro hc; unfold fpos at h; rw [hc] at h; dsimp only at h; omega
  have hat : r.faultAt ≠ none := fun hc => hact (Reader.faultActive_none hc)
  have hon : r.faultOnce = true := by
    rcases ho with h1 | h1
    · exact absurd h1 hat
    · exact h1
  rw [← hd]
  exact fpos_done (hf.trans hon)

theorem autoDetect_AD_bufio (r : Reader) (hk : r.kind = .bufio) (ho : OneShot r) :
    AD r (autoDetectPacketSize r).1 (autoDetectPacketSize r).2 := by
  rw [autoDetect_bufio r hk]
  split
  · rename_i hw
    refine AD.fail _ _ (by decide) ⟨⟨rfl, rfl, rfl, rfl⟩, Nat.le_refl _, by dsimp only; omega, Or.inr ⟨hw.2.2, ?_⟩⟩
    exact fpos_fired ho hw.2.2 rfl rfl
  · rename_i hw
    split
    · rename_i h0
      exact AD.eof ⟨by omega, by omega⟩
    · rename_i h0
      have hc : AdvU 193 r { r with pos := min r.data.length (r.pos + 193) } := by
        refine ⟨⟨rfl, rfl, rfl, rfl⟩, by dsimp only; omega, by dsimp only; omega, Or.inl ⟨?_, by dsimp only; omega,
          by dsimp only; omega⟩⟩
        exact fpos_congr ⟨rfl, rfl, rfl, rfl⟩ rfl
      unfold bufioTail
      split
      · exact AD.fail _ _ (by decide) hc
      · split
        · exact AD.fail _ _ (by decide) hc
        · rename_i size hfs
          have h188 := findSync_ge _ _ hfs
          have h193 := findSync_lt _ _ hfs
          exact AD.okBufio size hk h188 (by omega) (by omega)

/-- **the outcomes of `autoDetectPacketSize`**, for every reader kind, with or without a one-shot fault -/
theorem autoDetect_AD (r : Reader) (ho : OneShot r) : AD r (autoDetectPacketSize r).1 (autoDetectPacketSize r).2 := by
  by_cases hk : r.kind = .bufio
  · exact autoDetect_AD_bufio r hk ho
  · exact autoDetect_AD_read r hk ho

theorem AD.ok_inv {r r' : Reader} {s : Nat} (h : AD r (.ok s) r') :
    188 ≤ s ∧ s ≤ 192 ∧ Same r r' ∧ fpos r' = fpos r ∧ r.pos < r.data.length ∧
      (r.kind = .seek → r'.pos = 0) ∧ (r.kind = .bufio → r'.pos = r.pos) ∧
      (r.kind ≠ .seek → r.kind ≠ .bufio → r'.pos = r.pos + 2 * s ∧ r'.pos ≤ r.data.length) := by
  cases h with
  | okSeek _ _ hk h1 h2 hs h3 h4 h5 =>
    exact ⟨h1, h2, hs, h3, h4, fun _ => h5, fun (hb : r.kind = .bufio) => (by rw [hk] at hb; cases hb), fun hn => absurd hk hn⟩
  | okBufio _ hk h1 h2 h4 =>
    exact ⟨h1, h2, Same.refl _, rfl, h4, fun (hb : r.kind = .seek) => (by rw [hk] at hb; cases hb), fun _ => rfl, fun _ hn => absurd hk hn⟩
  | okPlain _ _ hk1 hk2 h1 h2 hs h3 h4 h5 =>
    exact ⟨h1, h2, hs, h3, by omega, fun hb => absurd hb hk1, fun hb => absurd hb hk2, fun _ _ => ⟨h4, h5⟩⟩

theorem AD.err_inv {r r' : Reader} {e : Err} (h : AD r (.err e) r') :
    (e = .eof → r' = r ∧ Exh r) ∧ (e ≠ .eof → AdvU 193 r r') := by
  cases h with
  | eof hx => exact ⟨fun _ => ⟨rfl, hx⟩, fun hne => absurd rfl hne⟩
  | fail _ _ hne hadv => exact ⟨fun he => absurd he hne, fun _ => hadv⟩

theorem AD.not_panic {r r' : Reader} (h : AD r .panic r') : False := by cases h

/-! ### `NextPacket` without fuel -/

/-- big-step semantics of `Demuxer.NextPacket`: create the packet buffer on first use (explicit size, or
auto-detection, whose failure leaves the demuxer without a packet buffer), then `packetBuffer.next` -/
inductive NextPacketSem : Demux → Res Packet → Demux → Prop where
  | sized (d : Demux) (s : Nat) (res : Res Packet) (d' : Demux) : d.packetSize = some s → BufferNextSem s d res d' →
      NextPacketSem d res d'
  | opt (d : Demux) (res : Res Packet) (d' : Demux) : d.packetSize = none → d.optPacketSize ≠ 0 →
      BufferNextSem d.optPacketSize { d with packetSize := some d.optPacketSize } res d' → NextPacketSem d res d'
  | detected (d : Demux) (s : Nat) (r' : Reader) (res : Res Packet) (d' : Demux) : d.packetSize = none →
      d.optPacketSize = 0 → autoDetectPacketSize d.r = (.ok s, r') →
      BufferNextSem s { d with r := r', packetSize := some s } res d' → NextPacketSem d res d'
  | detectErr (d : Demux) (e : Err) (r' : Reader) : d.packetSize = none → d.optPacketSize = 0 →
      autoDetectPacketSize d.r = (.err e, r') → NextPacketSem d (.err e) { d with r := r' }

theorem fuel_ok (L p s : Nat) (hs : 0 < s) : L - p < (L + 2) * s := by
  have : L + 2 ≤ (L + 2) * s := Nat.le_mul_of_pos_right _ hs
  omega

/-- **fuel sufficiency of `NextPacket`**: in every state with supported packet sizes, over any reader whose fault (if
any) is one-shot, the model's `nextPacket` (fuel `data.length + 2` for the skip loop) computes the fuel-free semantics -/
theorem nextPacket_sem (d : Demux) (hok : d.SizeOK) (ho : OneShot d.r) :
    NextPacketSem d d.nextPacket.1 d.nextPacket.2 := by
  obtain ⟨hopt, hps⟩ := hok
  unfold Demux.nextPacket
  cases hp : d.packetSize with
  | some s =>
    dsimp only
    have h187 := hps s hp
    exact NextPacketSem.sized d s _ _ hp (bufferNext_sem s (by omega) _ d ho (fuel_ok _ _ _ (by omega)))
  | none =>
    dsimp only
    by_cases hz : d.optPacketSize = 0
    · have hc : ¬ (d.optPacketSize ≠ 0) := by simp [hz]
      rw [if_neg hc]
      have had := autoDetect_AD d.r ho
      rcases hadr : autoDetectPacketSize d.r with ⟨res, r'⟩
      rw [hadr] at had
      dsimp only at had
      cases res with
      | panic => cases had
      | err e =>
        dsimp only
        have h := NextPacketSem.detectErr d e r' hp hz hadr
        rw [hp] at h
        exact h
      | ok s =>
        dsimp only
        have hs188 : 188 ≤ s ∧ Same d.r r' := by
          cases had with
          | okSeek _ _ _ h1 _ h2 _ _ _ => exact ⟨h1, h2⟩
          | okBufio _ _ h1 _ _ => exact ⟨h1, Same.refl _⟩
          | okPlain _ _ _ _ h1 _ h2 _ _ _ => exact ⟨h1, h2⟩
        exact NextPacketSem.detected d s r' _ _ hp hz hadr
          (bufferNext_sem s (by omega) _ _ (hs188.2.oneShot ho) (fuel_ok _ _ _ (by omega)))
    · have hc : d.optPacketSize ≠ 0 := hz
      rw [if_pos hc]
      have h187 : 187 ≤ d.optPacketSize := by
        rcases hopt with h0 | h1
        · exact absurd h0 hz
        · exact h1
      exact NextPacketSem.opt d _ _ hp hz (bufferNext_sem _ (by omega) _ _ ho (fuel_ok _ _ _ (by omega)))

/-! ### what `NextPacket` does to the reader; the termination measure -/

theorem BufferNextSem.frame {size : Nat} {d d' : Demux} {res : Res Packet} (h : BufferNextSem size d res d') :
    DataSame d d' ∧ d'.optPacketSize = d.optPacketSize ∧ d'.packetSize = d.packetSize ∧ d'.skipper = d.skipper := by
  induction h with
  | io d bs r' hrd => exact ⟨⟨rfl, rfl, rfl, rfl, rfl⟩, rfl, rfl, rfl⟩
  | eof d bs e r' hrd hne => exact ⟨⟨rfl, rfl, rfl, rfl, rfl⟩, rfl, rfl, rfl⟩
  | bad d bs r' e hrd hpp => exact ⟨⟨rfl, rfl, rfl, rfl, rfl⟩, rfl, rfl, rfl⟩
  | panic d bs r' hrd hpp => exact ⟨⟨rfl, rfl, rfl, rfl, rfl⟩, rfl, rfl, rfl⟩
  | keep d bs r' p hrd hpp hsk => rw [consultSkipper_eq]; exact ⟨⟨rfl, rfl, rfl, rfl, rfl⟩, rfl, rfl, rfl⟩
  | skip d bs r' p res d' hrd hpp hsk hrest ih =>
    rw [consultSkipper_eq] at ih
    dsimp only at ih
    obtain ⟨h1, h2, h3, h4⟩ := ih
    exact ⟨⟨h1.pool, h1.programMap, h1.dataBuffer, h1.parser, h1.parserLog⟩, h2, h3, h4⟩

/-- 1 while a (one-shot) fault is pending inside the data, else 0 -/
def phi (r : Reader) : Nat := if fpos r ≤ r.data.length then 1 else 0

/-- **the termination measure of `NextPacket`**: an upper bound on the number of calls that do not return
ErrNoMorePackets.  With a packet buffer (or an explicit size): the whole packets left; before a successful
auto-detection: the 187-byte blocks left, rounded up, plus — on a seekable reader, which a successful detection
rewinds to offset 0 — the whole packets of the entire data; plus one for a pending fault. -/
def pktMeasure (d : Demux) : Nat :=
  phi d.r +
    (if d.packetSize ≠ none ∨ d.optPacketSize ≠ 0 then (d.r.data.length - d.r.pos) / 187
     else (d.r.data.length - d.r.pos + 186) / 187 + (if d.r.kind = .seek then d.r.data.length / 187 else 0))

theorem Adv.lt {k : Nat} {r r' : Reader} (h : Adv k r r') (hk : 187 ≤ k) :
    phi r' + (r'.data.length - r'.pos) / 187 < phi r + (r.data.length - r.pos) / 187 := by
  obtain ⟨hs, h1, h2, h3⟩ := h
  unfold phi
  rw [hs.data]
  rcases h3 with ⟨h4, h5⟩ | ⟨h4, h5⟩
  · rw [h4]; omega
  · rw [h5, if_pos h4, if_neg (by omega)]; omega

theorem AdvU.lt {k : Nat} {r r' : Reader} (h : AdvU k r r') (hk : 187 ≤ k) :
    phi r' + (r'.data.length - r'.pos + 186) / 187 < phi r + (r.data.length - r.pos + 186) / 187 := by
  obtain ⟨hs, h1, h2, h3⟩ := h
  unfold phi
  rw [hs.data]
  rcases h3 with ⟨h4, h5, h6⟩ | ⟨h4, h5⟩
  · rw [h4]; omega
  · rw [h5, if_pos h4, if_neg (by omega)]; omega

/-- ErrNoMorePackets leaves an exhausted reader behind -/
theorem NextPacketSem.eof_exh {d d' : Demux} (h : NextPacketSem d (.err .eof) d') (hok : d.SizeOK) (ho : OneShot d.r) :
    Same d.r d'.r ∧ Exh d'.r := by
  obtain ⟨hopt, hps⟩ := hok
  generalize hres : (Res.err Err.eof : Res Packet) = res at h
  cases h with
  | sized s _ _ hp hb =>
    have := (hb.reader (by have := hps s hp; omega) ho).1 hres.symm
    exact ⟨this.1, this.2.1⟩
  | opt _ _ hp hz hb =>
    have := (hb.reader (by omega) ho).1 hres.symm
    exact ⟨this.1, this.2.1⟩
  | detected s r' _ _ hp hz had hb =>
    have hAD := autoDetect_AD d.r ho
    rw [had] at hAD
    obtain ⟨h1, h2, hs, _⟩ := hAD.ok_inv
    have := (hb.reader (by omega) (hs.oneShot ho)).1 hres.symm
    exact ⟨hs.trans this.1, this.2.1⟩
  | detectErr e r' hp hz had =>
    have hAD := autoDetect_AD d.r ho
    rw [had] at hAD
    cases hres
    obtain ⟨h1, h2⟩ := hAD.err_inv.1 rfl
    dsimp only at h1 ⊢
    rw [h1]
    exact ⟨Same.refl _, h2⟩

/-- **progress of `NextPacket`** (measure form): every call that does not return ErrNoMorePackets strictly decreases
the termination measure -/
theorem NextPacketSem.measure_lt {d d' : Demux} {res : Res Packet} (h : NextPacketSem d res d') (hok : d.SizeOK)
    (ho : OneShot d.r) (hne : res ≠ .err .eof) : pktMeasure d' < pktMeasure d := by
  obtain ⟨hopt, hps⟩ := hok
  cases h with
  | sized s _ _ hp hb =>
    have h187 := hps s hp
    have hadv := (hb.reader (by omega) ho).2 hne
    have hfr := hb.frame
    unfold pktMeasure
    rw [if_pos (Or.inl (by rw [hfr.2.2.1, hp]; simp)), if_pos (Or.inl (by rw [hp]; simp))]
    exact hadv.lt h187
  | opt _ _ hp hz hb =>
    have h187 : 187 ≤ d.optPacketSize := by
      rcases hopt with h0 | h1
      · exact absurd h0 hz
      · exact h1
    have hadv := (hb.reader (by omega) ho).2 hne
    have hfr := hb.frame
    unfold pktMeasure
    rw [if_pos (Or.inl (by rw [hfr.2.2.1]; simp)), if_pos (Or.inr hz)]
    exact hadv.lt h187
  | detected s r' _ _ hp hz had hb =>
    have hAD := autoDetect_AD d.r ho
    rw [had] at hAD
    have hfr := hb.frame
    have hund : ¬ (d.packetSize ≠ none ∨ d.optPacketSize ≠ 0) := by rw [hp, hz]; simp
    obtain ⟨h1, h2, hs, h3, h4, k1, k2, k3⟩ := hAD.ok_inv
    dsimp only at hs h3 k1 k2 k3
    have hlt := ((hb.reader (by omega) (hs.oneShot ho)).2 hne).lt (by omega : 187 ≤ s)
    dsimp only at hlt
    have hphi : phi r' = phi d.r := by unfold phi; rw [h3, hs.data]
    rw [hphi, hs.data] at hlt
    unfold pktMeasure
    rw [if_pos (Or.inl (by rw [hfr.2.2.1]; simp)), if_neg hund]
    by_cases hk1 : d.r.kind = .seek
    · rw [if_pos hk1]
      have := k1 hk1
      rw [this] at hlt
      omega
    · rw [if_neg hk1]
      by_cases hk2 : d.r.kind = .bufio
      · have := k2 hk2
        rw [this] at hlt
        omega
      · have := k3 hk1 hk2
        rw [this.1] at hlt
        omega
  | detectErr e r' hp hz had =>
    have hAD := autoDetect_AD d.r ho
    rw [had] at hAD
    have hund : ¬ (d.packetSize ≠ none ∨ d.optPacketSize ≠ 0) := by rw [hp, hz]; simp
    have hadv := hAD.err_inv.2 (fun he => hne (by rw [he]))
    dsimp only at hadv
    have hlt := hadv.lt (by omega : 187 ≤ 193)
    unfold pktMeasure
    dsimp only
    rw [if_neg hund, if_neg hund, hadv.1.kind, hadv.1.data]
    rw [hadv.1.data] at hlt
    omega

/-! ### ErrNoMorePackets is sticky -/

theorem autoDetect_exh (r : Reader) (h : Exh r) : autoDetectPacketSize r = (.err .eof, r) := by
  by_cases hk : r.kind = .bufio
  · rw [autoDetect_bufio r hk]
    obtain ⟨h1, h2⟩ := h
    rw [if_neg (by omega), if_pos (by omega)]
  · unfold autoDetectPacketSize
    dsimp only
    rw [readFull_exh r 193 (by omega) h]
    cases hk' : r.kind with
    | bufio => exact absurd hk' hk
    | _ => rfl

theorem bufferNext_exh (d : Demux) (size fuel : Nat) (hs : 0 < size) (hf : fuel ≠ 0) (h : Exh d.r) :
    d.bufferNext size fuel = (.err .eof, d) := by
  obtain ⟨f, rfl⟩ := Nat.exists_eq_succ_of_ne_zero hf
  unfold Demux.bufferNext
  rw [readFull_exh d.r size hs h]

/-- on an exhausted reader `NextPacket` returns ErrNoMorePackets and leaves the reader as it is -/
theorem nextPacket_exh (d : Demux) (hok : d.SizeOK) (h : Exh d.r) :
    d.nextPacket.1 = .err .eof ∧ d.nextPacket.2.r = d.r := by
  obtain ⟨hopt, hps⟩ := hok
  unfold Demux.nextPacket
  cases hp : d.packetSize with
  | some s =>
    dsimp only
    have := hps s hp
    rw [bufferNext_exh d s _ (by omega) (by omega) h]
    exact ⟨rfl, rfl⟩
  | none =>
    dsimp only
    by_cases hz : d.optPacketSize = 0
    · rw [if_neg (by simp [hz]), autoDetect_exh d.r h]
      exact ⟨rfl, rfl⟩
    · rw [if_pos hz]
      have h187 : 187 ≤ d.optPacketSize := by
        rcases hopt with h0 | h1
        · exact absurd h0 hz
        · exact h1
      dsimp only
      rw [bufferNext_exh { d with packetSize := some d.optPacketSize } _ _ (by omega) (by omega) h]
      exact ⟨rfl, rfl⟩

/-! ### repeated `NextPacket` calls -/

/-- the state after `n` calls of `NextPacket` -/
def afterPackets (d : Demux) : Nat → Demux
  | 0 => d
  | n + 1 => afterPackets d.nextPacket.2 n

theorem afterPackets_succ (d : Demux) (n : Nat) : afterPackets d (n + 1) = (afterPackets d n).nextPacket.2 := by
  induction n generalizing d with
  | zero => rfl
  | succ n ih => exact ih d.nextPacket.2

/-- the invariant of the termination argument: supported packet sizes, a fault (if any) that fires once -/
def Good (d : Demux) : Prop := d.SizeOK ∧ OneShot d.r

theorem BufferNextSem.same {size : Nat} {d d' : Demux} {res : Res Packet} (h : BufferNextSem size d res d')
    (hs : 0 < size) (ho : OneShot d.r) : Same d.r d'.r := by
  by_cases he : res = .err .eof
  · exact ((h.reader hs ho).1 he).1
  · exact ((h.reader hs ho).2 he).1

theorem NextPacketSem.same {d d' : Demux} {res : Res Packet} (h : NextPacketSem d res d') (hok : d.SizeOK)
    (ho : OneShot d.r) : Same d.r d'.r := by
  obtain ⟨hopt, hps⟩ := hok
  cases h with
  | sized s _ _ hp hb => exact hb.same (by have := hps s hp; omega) ho
  | opt _ _ hp hz hb => exact hb.same (by omega) ho
  | detected s r' _ _ hp hz had hb =>
    have hAD := autoDetect_AD d.r ho
    rw [had] at hAD
    obtain ⟨h1, h2, hs, _⟩ := hAD.ok_inv
    exact hs.trans (hb.same (by omega) (hs.oneShot ho))
  | detectErr e r' hp hz had =>
    have hAD := autoDetect_AD d.r ho
    rw [had] at hAD
    by_cases he : e = .eof
    · have := (hAD.err_inv.1 he).1
      dsimp only at this ⊢
      rw [this]; exact Same.refl _
    · exact (hAD.err_inv.2 he).1

theorem nextPacket_good (d : Demux) (h : Good d) : Good d.nextPacket.2 :=
  ⟨(nextPacket_spec d h.1).2, ((nextPacket_sem d h.1 h.2).same h.1 h.2).oneShot h.2⟩

/-- once the reader is exhausted it stays exhausted and every further `NextPacket` is ErrNoMorePackets -/
theorem afterPackets_exh (d : Demux) (hg : Good d) (h : Exh d.r) (n : Nat) :
    Good (afterPackets d n) ∧ (afterPackets d n).r = d.r ∧ (afterPackets d n).nextPacket.1 = .err .eof := by
  induction n with
  | zero => exact ⟨hg, rfl, (nextPacket_exh d hg.1 h).1⟩
  | succ n ih =>
    obtain ⟨g1, g2, g3⟩ := ih
    rw [afterPackets_succ]
    have hx : Exh (afterPackets d n).r := by rw [g2]; exact h
    have hr := (nextPacket_exh _ g1.1 hx).2
    have hg' := nextPacket_good _ g1
    have hx' : Exh (afterPackets d n).nextPacket.2.r := by rw [hr]; exact hx
    exact ⟨hg', hr.trans g2, (nextPacket_exh _ hg'.1 hx').1⟩

/-- **bounded termination of `NextPacket`** (general form): within `pktMeasure d` calls the reader is exhausted, the
next call returns ErrNoMorePackets, and so does every later call -/
theorem packets_terminate (d : Demux) (hg : Good d) :
    ∃ n, n ≤ pktMeasure d ∧ (∀ k, k < n → (afterPackets d k).nextPacket.1 ≠ .err .eof) ∧
      ∀ m, n ≤ m → (afterPackets d m).nextPacket.1 = .err .eof := by
  generalize hM : pktMeasure d = M
  induction M using Nat.strongRecOn generalizing d with
  | _ M ih =>
    have hsem := nextPacket_sem d hg.1 hg.2
    by_cases he : d.nextPacket.1 = .err .eof
    · refine ⟨0, Nat.zero_le _, fun k hk => absurd hk (Nat.not_lt_zero _), fun m _ => ?_⟩
      rw [he] at hsem
      have hx := (hsem.eof_exh hg.1 hg.2).2
      cases m with
      | zero => exact he
      | succ m => exact (afterPackets_exh _ (nextPacket_good d hg) hx m).2.2
    · have hlt := hsem.measure_lt hg.1 hg.2 he
      obtain ⟨n, hn, hbefore, hafter⟩ := ih _ (by omega) d.nextPacket.2 (nextPacket_good d hg) rfl
      refine ⟨n + 1, by omega, fun k hk => ?_, fun m hm => ?_⟩
      · cases k with
        | zero => exact he
        | succ k => exact hbefore k (by omega)
      · cases m with
        | zero => omega
        | succ m => exact hafter m (by omega)

/-! ### the pool: `dumpUnlocked` shrinks it -/

theorem insertSorted_length (e : Nat × List Packet) (l : Pool) : (insertSorted e l).length = l.length + 1 := by
  induction l with
  | nil => rfl
  | cons x r ih =>
    unfold insertSorted
    split
    · rfl
    · simp only [List.length_cons, ih]

theorem sorted_length (pool : Pool) : pool.sorted.length = pool.length := by
  unfold Pool.sorted
  induction pool with
  | nil => rfl
  | cons x r ih => rw [List.foldr_cons, insertSorted_length, ih]; rfl

theorem poolDump_go_length (l : Pool) :
    ((poolDump.go l).1.isEmpty = true → (poolDump.go l).2 = []) ∧
    ((poolDump.go l).1.isEmpty = false → (poolDump.go l).2.length < l.length) := by
  induction l with
  | nil => exact ⟨fun _ => rfl, fun h => by simp [poolDump.go] at h⟩
  | cons x r ih =>
    obtain ⟨k, q⟩ := x
    unfold poolDump.go
    by_cases hq : q.isEmpty = true
    · rw [if_pos hq]
      exact ⟨ih.1, fun h => by have := ih.2 h; simp only [List.length_cons]; omega⟩
    · rw [if_neg hq]
      exact ⟨fun h => absurd h hq, fun _ => by simp⟩

/-- dumping an accumulator removes it from the pool; dumping nothing means the pool is left empty -/
theorem poolDump_length (pool : Pool) :
    ((poolDump pool).1.isEmpty = true → (poolDump pool).2 = []) ∧
    ((poolDump pool).1.isEmpty = false → (poolDump pool).2.length < pool.length) := by
  have := poolDump_go_length pool.sorted
  rw [sorted_length] at this
  exact this

theorem group_pool (d : Demux) (ps : List Packet) : (d.group ps).2.pool = d.pool := by
  rw [group_eq, logParser_eq]
  cases parseData ps d.parser d.programMap <;> rfl

/-! ### the EOF drain and the packet loop of `NextData` without fuel -/

/-- big-step semantics of the EOF drain of `NextData` -/
inductive DrainSem : Demux → Res DemuxerData → Demux → Prop where
  | done (d : Demux) : (poolDump d.pool).1.isEmpty = true →
      DrainSem d (.err .eof) { d with pool := (poolDump d.pool).2 }
  | data (d : Demux) (x : DemuxerData) (d' : Demux) : (poolDump d.pool).1.isEmpty = false →
      Demux.group { d with pool := (poolDump d.pool).2 } (poolDump d.pool).1 = (some (.ok x), d') →
      DrainSem d (.ok x) d'
  | panic (d : Demux) (d' : Demux) : (poolDump d.pool).1.isEmpty = false →
      Demux.group { d with pool := (poolDump d.pool).2 } (poolDump d.pool).1 = (some .panic, d') →
      DrainSem d .panic d'
  | failed (d : Demux) (e : Err) (d1 : Demux) (res : Res DemuxerData) (d' : Demux) :
      (poolDump d.pool).1.isEmpty = false →
      Demux.group { d with pool := (poolDump d.pool).2 } (poolDump d.pool).1 = (some (.err e), d1) →
      DrainSem d1 res d' → DrainSem d res d'
  | empty (d : Demux) (d1 : Demux) (res : Res DemuxerData) (d' : Demux) :
      (poolDump d.pool).1.isEmpty = false →
      Demux.group { d with pool := (poolDump d.pool).2 } (poolDump d.pool).1 = (none, d1) →
      DrainSem d1 res d' → DrainSem d res d'

/-- **fuel sufficiency of the EOF drain**: fuel above the number of accumulators in the pool is enough (the model
gives `pool.length + 1`) -/
theorem drain_sem (fuel : Nat) (d : Demux) (hf : d.pool.length < fuel) :
    DrainSem d (d.drain fuel).1 (d.drain fuel).2 := by
  induction fuel generalizing d with
  | zero => omega
  | succ fuel ih =>
    rw [drain_succ]
    have hlen := poolDump_length d.pool
    by_cases he : (poolDump d.pool).1.isEmpty = true
    · rw [if_pos he]; exact DrainSem.done d he
    · rw [if_neg he]
      have he' : (poolDump d.pool).1.isEmpty = false := by simpa using he
      have hlt := hlen.2 he'
      have hgp := group_pool { d with pool := (poolDump d.pool).2 } (poolDump d.pool).1
      rcases hg : Demux.group { d with pool := (poolDump d.pool).2 } (poolDump d.pool).1 with ⟨x, d1⟩
      rw [hg] at hgp
      dsimp only at hgp
      have hf1 : d1.pool.length < fuel := by rw [hgp]; omega
      cases x with
      | none => exact DrainSem.empty d d1 _ _ he' hg (ih d1 hf1)
      | some x =>
        cases x with
        | ok x => exact DrainSem.data d x d1 he' hg
        | panic => exact DrainSem.panic d d1 he' hg
        | err e => exact DrainSem.failed d e d1 _ _ he' hg (ih d1 hf1)

/-- big-step semantics of the packet loop of `NextData` -/
inductive DataLoopSem : Demux → Res DemuxerData → Demux → Prop where
  | eof (d d1 : Demux) (res : Res DemuxerData) (d' : Demux) : NextPacketSem d (.err .eof) d1 → DrainSem d1 res d' →
      DataLoopSem d res d'
  | err (d : Demux) (e : Err) (d1 : Demux) : NextPacketSem d (.err e) d1 → e ≠ .eof → DataLoopSem d (.err e) d1
  | panic (d d1 : Demux) : NextPacketSem d .panic d1 → DataLoopSem d .panic d1
  | out (d : Demux) (p : Packet) (d1 : Demux) (x : Res DemuxerData) (d' : Demux) : NextPacketSem d (.ok p) d1 →
      d1.feed p = (some x, d') → DataLoopSem d x d'
  | next (d : Demux) (p : Packet) (d1 d2 : Demux) (res : Res DemuxerData) (d' : Demux) : NextPacketSem d (.ok p) d1 →
      d1.feed p = (none, d2) → DataLoopSem d2 res d' → DataLoopSem d res d'

theorem srcSame_pktMeasure {d d' : Demux} (h : SrcSame d d') : pktMeasure d' = pktMeasure d := by
  unfold pktMeasure; rw [h.r, h.opt, h.packetSize]

theorem srcSame_good {d d' : Demux} (h : SrcSame d d') (hg : Good d) : Good d' := by
  refine ⟨SizeOK_of_fields hg.1 h.opt h.packetSize, ?_⟩
  rw [h.r]; exact hg.2

/-- **fuel sufficiency of the packet loop of `NextData`**: fuel above the termination measure of `NextPacket` is
enough -/
theorem dataLoop_sem (fuel : Nat) (d : Demux) (hg : Good d) (hf : pktMeasure d < fuel) :
    DataLoopSem d (d.dataLoop fuel).1 (d.dataLoop fuel).2 := by
  induction fuel generalizing d with
  | zero => omega
  | succ fuel ih =>
    rw [dataLoop_succ]
    have hsem := nextPacket_sem d hg.1 hg.2
    have hg1 := nextPacket_good d hg
    rcases hnp : d.nextPacket with ⟨rp, d1⟩
    rw [hnp] at hsem hg1
    dsimp only at hsem hg1 ⊢
    cases rp with
    | panic => exact DataLoopSem.panic d d1 hsem
    | err e =>
      cases e with
      | eof => exact DataLoopSem.eof d d1 _ _ hsem (drain_sem _ d1 (Nat.lt_succ_self _))
      | _ => exact DataLoopSem.err d _ d1 hsem (by decide)
    | ok p =>
      dsimp only
      have hlt := hsem.measure_lt hg.1 hg.2 (by simp)
      have hsrc := feed_src d1 p
      rcases hfd : d1.feed p with ⟨x, d2⟩
      rw [hfd] at hsrc
      dsimp only at hsrc ⊢
      cases x with
      | some x => exact DataLoopSem.out d p d1 x d2 hsem hfd
      | none =>
        dsimp only
        refine DataLoopSem.next d p d1 d2 _ _ hsem hfd (ih d2 (srcSame_good hsrc hg1) ?_)
        rw [srcSame_pktMeasure hsrc]; omega

/-! ### `NextData` without fuel -/

/-- big-step semantics of `Demuxer.NextData` -/
inductive NextDataSem : Demux → Res DemuxerData → Demux → Prop where
  | buffered (d : Demux) (x : DemuxerData) (rest : List DemuxerData) : d.dataBuffer = x :: rest →
      NextDataSem d (.ok x) { d with dataBuffer := rest }
  | loop (d : Demux) (res : Res DemuxerData) (d' : Demux) : d.dataBuffer = [] → DataLoopSem d res d' →
      NextDataSem d res d'

theorem phi_le (r : Reader) : phi r ≤ 1 := by unfold phi; split <;> omega

/-- the measure is at most `data.length + 1`: the fuel `data.length + 2` of the model's loops is above it -/
theorem pktMeasure_le (d : Demux) : pktMeasure d ≤ d.r.data.length + 1 := by
  unfold pktMeasure
  have := phi_le d.r
  split
  · omega
  · split <;> omega

/-- **fuel sufficiency of `NextData`**: the model's `nextData` computes the fuel-free semantics -/
theorem nextData_sem (d : Demux) (hg : Good d) : NextDataSem d d.nextData.1 d.nextData.2 := by
  unfold Demux.nextData
  cases hb : d.dataBuffer with
  | cons x rest => exact NextDataSem.buffered d x rest hb
  | nil =>
    dsimp only
    exact NextDataSem.loop d _ _ hb (dataLoop_sem _ d hg (by have := pktMeasure_le d; omega))

/-! ### the termination measure of `NextData` -/

/-- an upper bound on the number of `NextData` calls that run the packet loop and do not return ErrNoMorePackets: every
such call consumes a packet (which adds at most one accumulator to the pool) or dumps an accumulator -/
def dataMeasure (d : Demux) : Nat := 2 * pktMeasure d + d.pool.length

/-- nothing is left: the reader is exhausted, the pool and the data buffer are empty -/
def Done (d : Demux) : Prop := Exh d.r ∧ d.pool = [] ∧ d.dataBuffer = []

theorem NextPacketSem.frame {d d' : Demux} {res : Res Packet} (h : NextPacketSem d res d') :
    DataSame d d' ∧ d'.optPacketSize = d.optPacketSize := by
  cases h with
  | sized s _ _ hp hb => exact ⟨hb.frame.1, hb.frame.2.1⟩
  | opt _ _ hp hz hb =>
    have := hb.frame
    exact ⟨⟨this.1.pool, this.1.programMap, this.1.dataBuffer, this.1.parser, this.1.parserLog⟩, this.2.1⟩
  | detected s r' _ _ hp hz had hb =>
    have := hb.frame
    exact ⟨⟨this.1.pool, this.1.programMap, this.1.dataBuffer, this.1.parser, this.1.parserLog⟩, this.2.1⟩
  | detectErr e r' hp hz had => exact ⟨⟨rfl, rfl, rfl, rfl, rfl⟩, rfl⟩

theorem AtEnd.rem {r r' : Reader} (h : AtEnd r r') :
    phi r' = phi r ∧ r'.data.length - r'.pos = 0 := by
  obtain ⟨hs, hx, hp, hf⟩ := h
  unfold phi
  rw [hf, hs.data]
  exact ⟨rfl, by have := hx.1; rw [hs.data] at this; omega⟩

/-- a call that returns ErrNoMorePackets does not increase the measure -/
theorem NextPacketSem.eof_measure_le {d d' : Demux} (h : NextPacketSem d (.err .eof) d') (hok : d.SizeOK)
    (ho : OneShot d.r) : pktMeasure d' ≤ pktMeasure d := by
  obtain ⟨hopt, hps⟩ := hok
  generalize hres : (Res.err Err.eof : Res Packet) = res at h
  cases h with
  | sized s _ _ hp hb =>
    have hae := ((hb.reader (by have := hps s hp; omega) ho).1 hres.symm).rem
    have hfr := hb.frame
    unfold pktMeasure
    rw [if_pos (Or.inl (by rw [hfr.2.2.1, hp]; simp)), if_pos (Or.inl (by rw [hp]; simp)), hae.1, hae.2]
    omega
  | opt _ _ hp hz hb =>
    have hae := ((hb.reader (by omega) ho).1 hres.symm).rem
    have hfr := hb.frame
    unfold pktMeasure
    rw [if_pos (Or.inl (by rw [hfr.2.2.1]; simp)), if_pos (Or.inr hz), hae.1, hae.2]
    dsimp only
    omega
  | detected s r' _ _ hp hz had hb =>
    have hAD := autoDetect_AD d.r ho
    rw [had] at hAD
    obtain ⟨h1, h2, hs, h3, _⟩ := hAD.ok_inv
    dsimp only at hs h3
    have hae := ((hb.reader (by omega) (hs.oneShot ho)).1 hres.symm).rem
    dsimp only at hae
    have hfr := hb.frame
    have hphi : phi r' = phi d.r := by unfold phi; rw [h3, hs.data]
    unfold pktMeasure
    rw [if_pos (Or.inl (by rw [hfr.2.2.1]; simp)), hae.1, hae.2, hphi]
    omega
  | detectErr e r' hp hz had =>
    have hAD := autoDetect_AD d.r ho
    rw [had] at hAD
    cases hres
    have := (hAD.err_inv.1 rfl).1
    dsimp only at this
    rw [this]
    exact Nat.le_refl _

theorem Pool.put_length_le (pool : Pool) (pid : Nat) (q : List Packet) : (pool.put pid q).length ≤ pool.length + 1 := by
  induction pool with
  | nil => simp [Pool.put]
  | cons x r ih =>
    obtain ⟨k, v⟩ := x
    unfold Pool.put
    split
    · simp
    · simp only [List.length_cons]; omega

theorem poolAdd_length_le (pm : ProgramMap) (pool : Pool) (p : Packet) :
    (poolAdd pm pool p).2.length ≤ pool.length + 1 := by
  unfold poolAdd
  split
  · dsimp only; omega
  · split
    · dsimp only; omega
    · exact Pool.put_length_le _ _ _

theorem feed_pool (d : Demux) (p : Packet) : (d.feed p).2.pool = (poolAdd d.programMap d.pool p).2 := by
  unfold Demux.feed
  split
  · rfl
  · rw [group_pool]

theorem group_buffer (d : Demux) (ps : List Packet) (h : ∀ x, (d.group ps).1 ≠ some (.ok x)) :
    (d.group ps).2.dataBuffer = d.dataBuffer := by
  rw [group_eq] at h ⊢
  rw [logParser_eq]
  cases hpd : parseData ps d.parser d.programMap with
  | panic => rfl
  | err e => rfl
  | ok ds =>
    rw [hpd] at h
    dsimp only at h ⊢
    cases ds with
    | nil => simp
    | cons x r => exact absurd rfl (h x)

theorem feed_buffer (d : Demux) (p : Packet) (h : (d.feed p).1 = none) : (d.feed p).2.dataBuffer = d.dataBuffer := by
  unfold Demux.feed at h ⊢
  split
  · rfl
  · rename_i hne
    rw [if_neg hne] at h
    rw [group_buffer _ _ (by intro x hx; rw [hx] at h; cases h)]

/-- the drain: same packet source; data = an accumulator left the pool; ErrNoMorePackets = the pool is empty and
nothing was buffered -/
theorem DrainSem.facts {d d' : Demux} {res : Res DemuxerData} (h : DrainSem d res d') :
    SrcSame d d' ∧ (res ≠ .err .eof → d'.pool.length < d.pool.length) ∧
      (res = .err .eof → d'.pool = [] ∧ d'.dataBuffer = d.dataBuffer) := by
  induction h with
  | done d he =>
    exact ⟨⟨rfl, rfl, rfl, rfl, rfl, rfl, rfl⟩, fun h => absurd rfl h, fun _ => ⟨(poolDump_length d.pool).1 he, rfl⟩⟩
  | data d x d' he hg =>
    have hs := group_src { d with pool := (poolDump d.pool).2 } (poolDump d.pool).1
    have hp := group_pool { d with pool := (poolDump d.pool).2 } (poolDump d.pool).1
    rw [hg] at hs hp
    refine ⟨⟨hs.r, hs.opt, hs.skipper, hs.packetSize, hs.skipLog, hs.skipIdx, hs.parser⟩, fun _ => ?_,
      fun h => by cases h⟩
    rw [hp]; exact (poolDump_length d.pool).2 he
  | panic d d' he hg =>
    have hs := group_src { d with pool := (poolDump d.pool).2 } (poolDump d.pool).1
    have hp := group_pool { d with pool := (poolDump d.pool).2 } (poolDump d.pool).1
    rw [hg] at hs hp
    refine ⟨⟨hs.r, hs.opt, hs.skipper, hs.packetSize, hs.skipLog, hs.skipIdx, hs.parser⟩, fun _ => ?_,
      fun h => by cases h⟩
    rw [hp]; exact (poolDump_length d.pool).2 he
  | failed d e d1 res d' he hg hrest ih =>
    have hs := group_src { d with pool := (poolDump d.pool).2 } (poolDump d.pool).1
    have hp := group_pool { d with pool := (poolDump d.pool).2 } (poolDump d.pool).1
    have hb := group_buffer { d with pool := (poolDump d.pool).2 } (poolDump d.pool).1
      (by rw [hg]; intro x hx; cases hx)
    rw [hg] at hs hp hb
    dsimp only at hp hb
    have hlt := (poolDump_length d.pool).2 he
    obtain ⟨i1, i2, i3⟩ := ih
    refine ⟨SrcSame.trans ⟨hs.r, hs.opt, hs.skipper, hs.packetSize, hs.skipLog, hs.skipIdx, hs.parser⟩ i1,
      fun hne => ?_, fun heq => ?_⟩
    · have := i2 hne; rw [hp] at this; omega
    · have := i3 heq; exact ⟨this.1, this.2.trans hb⟩
  | empty d d1 res d' he hg hrest ih =>
    have hs := group_src { d with pool := (poolDump d.pool).2 } (poolDump d.pool).1
    have hp := group_pool { d with pool := (poolDump d.pool).2 } (poolDump d.pool).1
    have hb := group_buffer { d with pool := (poolDump d.pool).2 } (poolDump d.pool).1
      (by rw [hg]; intro x hx; cases hx)
    rw [hg] at hs hp hb
    dsimp only at hp hb
    have hlt := (poolDump_length d.pool).2 he
    obtain ⟨i1, i2, i3⟩ := ih
    refine ⟨SrcSame.trans ⟨hs.r, hs.opt, hs.skipper, hs.packetSize, hs.skipLog, hs.skipIdx, hs.parser⟩ i1,
      fun hne => ?_, fun heq => ?_⟩
    · have := i2 hne; rw [hp] at this; omega
    · have := i3 heq; exact ⟨this.1, this.2.trans hb⟩

theorem NextPacketSem.good {d d' : Demux} {res : Res Packet} (h : NextPacketSem d res d') (hg : Good d) : Good d' := by
  refine ⟨?_, (h.same hg.1 hg.2).oneShot hg.2⟩
  obtain ⟨hopt, hps⟩ := hg.1
  refine ⟨by rw [h.frame.2]; exact hopt, ?_⟩
  cases h with
  | sized s _ _ hp hb => rw [hb.frame.2.2.1]; exact hps
  | opt _ _ hp hz hb =>
    rw [hb.frame.2.2.1]
    intro s hs
    cases hs
    rcases hopt with h0 | h1
    · exact absurd h0 hz
    · exact h1
  | detected s r' _ _ hp hz had hb =>
    have hAD := autoDetect_AD d.r hg.2
    rw [had] at hAD
    rw [hb.frame.2.2.1]
    intro s' hs
    cases hs
    have := hAD.ok_inv.1
    omega
  | detectErr e r' hp hz had => exact hps

/-- the only errors `parseData` returns are the failing custom parser's and a parse error: never ErrNoMorePackets -/
theorem parseData_ne_eof (ps : List Packet) (prs : ParserKind) (pm : ProgramMap) : parseData ps prs pm ≠ .err .eof := by
  unfold parseData
  cases prs <;> simp only [ne_eq, reduceCtorEq, not_false_eq_true, Res.err.injEq]
  all_goals
    split
    · simp
    · split
      · split <;> simp_all
      · split
        · split <;> simp_all
        · simp

/-- **progress of the packet loop of `NextData`**: every outcome other than ErrNoMorePackets strictly decreases the
measure; ErrNoMorePackets means nothing is left (and nothing was buffered on the way) -/
theorem DataLoopSem.facts {d d' : Demux} {res : Res DemuxerData} (h : DataLoopSem d res d') (hg : Good d) :
    Good d' ∧ (res ≠ .err .eof → dataMeasure d' < dataMeasure d) ∧
      (res = .err .eof → Exh d'.r ∧ d'.pool = [] ∧ d'.dataBuffer = d.dataBuffer) := by
  induction h with
  | eof d d1 res d' hnp hdr =>
    have hg1 := hnp.good hg
    have hle := hnp.eof_measure_le hg.1 hg.2
    have hx := (hnp.eof_exh hg.1 hg.2).2
    have hfr := hnp.frame.1
    obtain ⟨f1, f2, f3⟩ := hdr.facts
    refine ⟨srcSame_good f1 hg1, fun hne => ?_, fun heq => ?_⟩
    · have := f2 hne
      unfold dataMeasure
      rw [srcSame_pktMeasure f1]
      rw [hfr.pool] at this
      omega
    · have := f3 heq
      rw [f1.r]
      exact ⟨hx, this.1, this.2.trans hfr.dataBuffer⟩
  | err d e d1 hnp hne =>
    have hlt := hnp.measure_lt hg.1 hg.2 (by intro h; cases h; exact hne rfl)
    refine ⟨hnp.good hg, fun _ => ?_, fun h => by cases h; exact absurd rfl hne⟩
    unfold dataMeasure
    rw [hnp.frame.1.pool]
    omega
  | panic d d1 hnp =>
    have hlt := hnp.measure_lt hg.1 hg.2 (by intro h; cases h)
    refine ⟨hnp.good hg, fun _ => ?_, fun h => by cases h⟩
    unfold dataMeasure
    rw [hnp.frame.1.pool]
    omega
  | out d p d1 x d' hnp hfd =>
    have hlt := hnp.measure_lt hg.1 hg.2 (by intro h; cases h)
    have hsrc := feed_src d1 p
    have hpool := feed_pool d1 p
    have hpl := poolAdd_length_le d1.programMap d1.pool p
    rw [hfd] at hsrc hpool
    dsimp only at hsrc hpool
    have hW : dataMeasure d' < dataMeasure d := by
      unfold dataMeasure
      rw [srcSame_pktMeasure hsrc, hpool, ← hnp.frame.1.pool]
      omega
    refine ⟨srcSame_good hsrc (hnp.good hg), fun _ => hW, fun heq => ?_⟩
    -- a packet loop iteration that returns, returns data or a parse error: never ErrNoMorePackets
    exfalso
    subst heq
    unfold Demux.feed at hfd
    split at hfd
    · cases hfd
    · rw [group_eq] at hfd
      have hnp := parseData_ne_panic (poolAdd d1.programMap d1.pool p).1 d1.parser d1.programMap
      revert hfd
      cases hpd : parseData (poolAdd d1.programMap d1.pool p).1 d1.parser d1.programMap with
      | panic => intro h; cases h
      | err e =>
        intro h
        simp only [Prod.mk.injEq, Option.some.injEq, Res.err.injEq] at h
        have : e ≠ .eof := by
          intro he; subst he; exact parseData_ne_eof _ _ _ hpd
        exact this h.1
      | ok ds =>
        intro h
        dsimp only at h
        cases ds <;> simp at h
  | next d p d1 d2 res d' hnp hfd hrest ih =>
    have hlt := hnp.measure_lt hg.1 hg.2 (by intro h; cases h)
    have hsrc := feed_src d1 p
    have hpool := feed_pool d1 p
    have hbuf := feed_buffer d1 p (by rw [hfd])
    have hpl := poolAdd_length_le d1.programMap d1.pool p
    rw [hfd] at hsrc hpool hbuf
    dsimp only at hsrc hpool hbuf
    have hW : dataMeasure d2 < dataMeasure d := by
      unfold dataMeasure
      rw [srcSame_pktMeasure hsrc, hpool, ← hnp.frame.1.pool]
      omega
    obtain ⟨i1, i2, i3⟩ := ih (srcSame_good hsrc (hnp.good hg))
    refine ⟨i1, fun hne => Nat.lt_trans (i2 hne) hW, fun heq => ?_⟩
    obtain ⟨j1, j2, j3⟩ := i3 heq
    exact ⟨j1, j2, j3.trans (hbuf.trans hnp.frame.1.dataBuffer)⟩

/-! ### repeated `NextData` calls -/

theorem NextDataSem.facts {d d' : Demux} {res : Res DemuxerData} (h : NextDataSem d res d') (hg : Good d) :
    Good d' ∧
    (d.dataBuffer ≠ [] → res ≠ .err .eof ∧ dataMeasure d' = dataMeasure d ∧
        d'.dataBuffer.length + 1 = d.dataBuffer.length) ∧
    (d.dataBuffer = [] → (res ≠ .err .eof → dataMeasure d' < dataMeasure d) ∧ (res = .err .eof → Done d')) := by
  cases h with
  | buffered x rest hb =>
    refine ⟨hg, fun _ => ⟨(by intro h; cases h), rfl, (by rw [hb]; rfl)⟩, fun h => ?_⟩
    rw [hb] at h; cases h
  | loop _ _ hb hl =>
    obtain ⟨f1, f2, f3⟩ := hl.facts hg
    refine ⟨f1, fun h => absurd hb h, fun _ => ⟨f2, fun heq => ?_⟩⟩
    obtain ⟨g1, g2, g3⟩ := f3 heq
    exact ⟨g1, g2, g3.trans hb⟩

/-- **ErrNoMorePackets is sticky** (general form): when nothing is left, `NextData` returns ErrNoMorePackets and
nothing is left afterwards either -/
theorem nextData_done (d : Demux) (hg : Good d) (h : Done d) :
    d.nextData.1 = .err .eof ∧ Done d.nextData.2 ∧ Good d.nextData.2 := by
  obtain ⟨hx, hp, hb⟩ := h
  have hnp := nextPacket_exh d hg.1 hx
  have hds := nextPacket_data d
  have hg1 := nextPacket_good d hg
  have key : d.nextData = (.err .eof, { d.nextPacket.2 with pool := [] }) := by
    unfold Demux.nextData
    rw [hb]
    dsimp only
    have : d.r.data.length + 2 = (d.r.data.length + 1) + 1 := rfl
    rw [this, dataLoop_succ, hnp.1]
    dsimp only
    rw [drain_succ, hds.pool, hp]
    rfl
  rw [key]
  refine ⟨rfl, ⟨by rw [← hnp.2] at hx; exact hx, rfl, by rw [← hb]; exact hds.dataBuffer⟩, ?_⟩
  exact ⟨SizeOK_of_fields hg1.1 rfl rfl, hg1.2⟩

/-- the state after `n` calls of `NextData` -/
def afterData (d : Demux) : Nat → Demux
  | 0 => d
  | n + 1 => afterData d.nextData.2 n

/-- among the first `n` calls of `NextData`, those that found the data buffer empty (and so ran the packet loop) -/
def loopCalls (d : Demux) : Nat → Nat
  | 0 => 0
  | n + 1 => (if d.dataBuffer.isEmpty then 1 else 0) + loopCalls d.nextData.2 n

theorem afterData_done (d : Demux) (hg : Good d) (h : Done d) (n : Nat) :
    (afterData d n).nextData.1 = .err .eof := by
  induction n generalizing d with
  | zero => exact (nextData_done d hg h).1
  | succ n ih => exact ih _ (nextData_done d hg h).2.2 (nextData_done d hg h).2.1

/-- what the termination theorem says about the call sequence from `d`: the first `n` calls do not return
ErrNoMorePackets, every later call does, and at most `bound` of the first `n` calls ran the packet loop -/
def TerminatesAt (d : Demux) (n bound : Nat) : Prop :=
  (∀ k, k < n → (afterData d k).nextData.1 ≠ .err .eof) ∧
  (∀ m, n ≤ m → (afterData d m).nextData.1 = .err .eof) ∧
  loopCalls d n ≤ bound

theorem TerminatesAt.step {d : Demux} {n b b' : Nat} (h : TerminatesAt d.nextData.2 n b)
    (hne : d.nextData.1 ≠ .err .eof) (hb : (if d.dataBuffer.isEmpty then 1 else 0) + b ≤ b') :
    TerminatesAt d (n + 1) b' := by
  obtain ⟨h1, h2, h3⟩ := h
  refine ⟨fun k hk => ?_, fun m hm => ?_, ?_⟩
  · cases k with
    | zero => exact hne
    | succ k => exact h1 k (by omega)
  · cases m with
    | zero => omega
    | succ m => exact h2 m (by omega)
  · show (if d.dataBuffer.isEmpty then 1 else 0) + loopCalls d.nextData.2 n ≤ b'
    omega

theorem data_terminate_aux (M : Nat) : ∀ (b : Nat) (d : Demux), Good d → dataMeasure d = M → d.dataBuffer.length = b →
    ∃ n, TerminatesAt d n M := by
  induction M using Nat.strongRecOn with
  | _ M ihM =>
    intro b
    induction b with
    | zero =>
      intro d hg hM hb
      have hb0 : d.dataBuffer = [] := List.eq_nil_of_length_eq_zero hb
      obtain ⟨f1, _, f3⟩ := (nextData_sem d hg).facts hg
      obtain ⟨f3a, f3b⟩ := f3 hb0
      by_cases he : d.nextData.1 = .err .eof
      · refine ⟨0, fun k hk => absurd hk (Nat.not_lt_zero _), fun m _ => ?_, Nat.zero_le _⟩
        cases m with
        | zero => exact he
        | succ m => exact afterData_done _ f1 (f3b he) m
      · have hlt := f3a he
        obtain ⟨n, hn⟩ := ihM (dataMeasure d.nextData.2) (by omega) _ d.nextData.2 f1 rfl rfl
        refine ⟨n + 1, hn.step he ?_⟩
        rw [hb0]
        simp only [List.isEmpty_nil, if_true]
        omega
    | succ b ihb =>
      intro d hg hM hb
      have hbne : d.dataBuffer ≠ [] := by intro h; rw [h] at hb; cases hb
      obtain ⟨f1, f2, _⟩ := (nextData_sem d hg).facts hg
      obtain ⟨g1, g2, g3⟩ := f2 hbne
      obtain ⟨n, hn⟩ := ihb d.nextData.2 f1 (by omega) (by omega)
      refine ⟨n + 1, hn.step g1 ?_⟩
      have : d.dataBuffer.isEmpty = false := by
        cases hd : d.dataBuffer with
        | nil => exact absurd hd hbne
        | cons _ _ => rfl
      rw [this]
      simp

/-- **termination of `NextData`**: from every state with supported packet sizes, over a reader whose fault (if any)
is one-shot, some call returns ErrNoMorePackets and every later call does too; at most `dataMeasure d` of the calls
before it ran the packet loop (the others returned buffered data) -/
theorem data_terminate (d : Demux) (hg : Good d) : ∃ n, TerminatesAt d n (dataMeasure d) :=
  data_terminate_aux _ _ d hg rfl rfl

/-! ### the position: what each branch of `NextPacket` consumes -/

theorem Adv.nofault {k : Nat} {r r' : Reader} (h : Adv k r r') (hf : r.faultAt = none) :
    r.pos + k ≤ r'.pos ∧ r'.pos ≤ r.data.length := by
  obtain ⟨hs, h1, h2, h3⟩ := h
  have := fpos_of_none hf
  omega

theorem AdvU.nofault {k : Nat} {r r' : Reader} (h : AdvU k r r') (hf : r.faultAt = none) :
    r.pos < r'.pos ∧ r'.pos ≤ r.data.length ∧ (r.pos + k ≤ r'.pos ∨ r'.pos = r.data.length) := by
  obtain ⟨hs, h1, h2, h3⟩ := h
  have := fpos_of_none hf
  omega

/-- the position never goes back, except through the rewind of a successful auto-detection on a seekable reader -/
theorem NextPacketSem.pos_mono {d d' : Demux} {res : Res Packet} (h : NextPacketSem d res d') (hok : d.SizeOK)
    (ho : OneShot d.r) (hc : d.r.kind ≠ .seek ∨ d.packetSize ≠ none ∨ d.optPacketSize ≠ 0) : d.r.pos ≤ d'.r.pos := by
  obtain ⟨hopt, hps⟩ := hok
  have hbuf : ∀ {size : Nat} {d0 d1 : Demux} {res : Res Packet}, BufferNextSem size d0 res d1 → 0 < size →
      OneShot d0.r → d0.r.pos ≤ d1.r.pos := by
    intro size d0 d1 res hb hs ho0
    by_cases he : res = .err .eof
    · exact ((hb.reader hs ho0).1 he).2.2.1
    · exact ((hb.reader hs ho0).2 he).2.1
  cases h with
  | sized s _ _ hp hb => exact hbuf hb (by have := hps s hp; omega) ho
  | opt _ _ hp hz hb =>
    have := hbuf hb (Nat.pos_of_ne_zero hz) ho
    exact this
  | detected s r' _ _ hp hz had hb =>
    have hAD := autoDetect_AD d.r ho
    rw [had] at hAD
    obtain ⟨h1, h2, hs, h3, h4, k1, k2, k3⟩ := hAD.ok_inv
    dsimp only at hs k1 k2 k3
    have hm := hbuf hb (by omega) (hs.oneShot ho)
    dsimp only at hm
    rcases hc with hc | hc | hc
    · by_cases hk2 : d.r.kind = .bufio
      · have := k2 hk2; omega
      · have := k3 hc hk2; omega
    · exact absurd hp hc
    · exact absurd hz hc
  | detectErr e r' hp hz had =>
    have hAD := autoDetect_AD d.r ho
    rw [had] at hAD
    by_cases he : e = .eof
    · have := (hAD.err_inv.1 he).1
      dsimp only at this ⊢
      rw [this]; exact Nat.le_refl _
    · exact (hAD.err_inv.2 he).2.1

/-- **progress of `NextPacket`, branch by branch** (fault-free reader): what a call that does not return
ErrNoMorePackets consumes -/
theorem NextPacketSem.progress {d d' : Demux} {res : Res Packet} (h : NextPacketSem d res d') (hok : d.SizeOK)
    (hf : d.r.faultAt = none) (hne : res ≠ .err .eof) :
    d'.r.pos ≤ d.r.data.length ∧
    (∀ s, d.packetSize = some s → d.r.pos + s ≤ d'.r.pos) ∧
    (d.packetSize = none → d.optPacketSize ≠ 0 → d.r.pos + d.optPacketSize ≤ d'.r.pos) ∧
    (d.packetSize = none → d.optPacketSize = 0 →
      (d'.packetSize = none →
        d.r.pos < d'.r.pos ∧ (d.r.pos + 193 ≤ d'.r.pos ∨ d'.r.pos = d.r.data.length)) ∧
      (∀ s, d'.packetSize = some s → 188 ≤ s ∧ s ≤ 192 ∧
        (d.r.kind = .seek → s ≤ d'.r.pos) ∧ (d.r.kind = .bufio → d.r.pos + s ≤ d'.r.pos) ∧
        (d.r.kind ≠ .seek → d.r.kind ≠ .bufio → d.r.pos + 3 * s ≤ d'.r.pos))) := by
  obtain ⟨hopt, hps⟩ := hok
  have ho : OneShot d.r := Or.inl hf
  cases h with
  | sized s _ _ hp hb =>
    have hadv := ((hb.reader (by have := hps s hp; omega) ho).2 hne).nofault hf
    refine ⟨hadv.2, fun s' hs' => ?_, fun hn => ?_, fun hn => ?_⟩
    · rw [hp] at hs'; cases hs'; exact hadv.1
    · rw [hp] at hn; cases hn
    · rw [hp] at hn; cases hn
  | opt _ _ hp hz hb =>
    have hadv := ((hb.reader (by omega) ho).2 hne).nofault hf
    refine ⟨hadv.2, fun s' hs' => ?_, fun _ _ => hadv.1, fun _ h0 => absurd h0 hz⟩
    rw [hp] at hs'; cases hs'
  | detected s r' _ _ hp hz had hb =>
    have hAD := autoDetect_AD d.r ho
    rw [had] at hAD
    obtain ⟨h1, h2, hs, h3, h4, k1, k2, k3⟩ := hAD.ok_inv
    dsimp only at hs k1 k2 k3
    have hf' : r'.faultAt = none := hs.faultAt.trans hf
    have hadv := ((hb.reader (by omega) (hs.oneShot ho)).2 hne).nofault hf'
    dsimp only at hadv
    rw [hs.data] at hadv
    have hps' := hb.frame.2.2.1
    dsimp only at hps'
    refine ⟨hadv.2, fun s' hs' => ?_, fun _ h0 => absurd hz h0, fun _ _ => ⟨fun hn => ?_, fun s' hs' => ?_⟩⟩
    · rw [hp] at hs'; cases hs'
    · rw [hps'] at hn; cases hn
    · rw [hps'] at hs'; cases hs'
      refine ⟨h1, h2, fun hk => ?_, fun hk => ?_, fun hk1 hk2 => ?_⟩
      · have := k1 hk; omega
      · have := k2 hk; omega
      · have := k3 hk1 hk2; omega
  | detectErr e r' hp hz had =>
    have hAD := autoDetect_AD d.r ho
    rw [had] at hAD
    have hadv := (hAD.err_inv.2 (fun he => hne (by rw [he]))).nofault hf
    dsimp only at hadv
    refine ⟨hadv.2.1, fun s' hs' => ?_, fun _ h0 => absurd hz h0, fun _ _ => ⟨fun _ => ⟨hadv.1, hadv.2.2⟩, fun s' hs' => ?_⟩⟩
    · rw [hp] at hs'; cases hs'
    · dsimp only at hs'; rw [hp] at hs'; cases hs'

/-! ### a permanent reader fault: no ErrNoMorePackets, the same error forever -/

/-- a reader parked on a permanent fault: every `NextPacket` returns the I/O error and changes nothing -/
theorem nextPacket_permanent_fault (d : Demux) (s f : Nat) (hs : d.packetSize = some s) (h0 : 0 < s)
    (hfa : d.r.faultAt = some f) (hfo : d.r.faultOnce = false) (hfd : d.r.faultDone = false) (hpos : d.r.pos = f)
    (hle : f ≤ d.r.data.length) : d.nextPacket = (.err .io, d) := by
  have hfp : fpos d.r = f := by unfold fpos Reader.faultActive; rw [hfd, hfa]; rfl
  unfold Demux.nextPacket
  rw [hs]
  dsimp only
  unfold Demux.bufferNext
  rw [readFull_eq, if_pos (by omega)]
  dsimp only
  obtain ⟨r, o, sk, pr, ps, pool, pm, db, sl, pl, si⟩ := d
  obtain ⟨data, pos, kind, fa, fo, fd⟩ := r
  simp_all

end Astits.Term
