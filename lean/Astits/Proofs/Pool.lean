/-
Helper lemmas about the accumulator / pool model (C06, C07).
-/
import Astits.Model.Demux
namespace Astits

theorem lastCC_append (q : List Packet) (p : Packet) : lastCC (q ++ [p]) = some p.header.continuityCounter := by
  simp [lastCC]

theorem isSame_after_append (q : List Packet) (p : Packet) (hp : p.header.hasPayload = true) :
    isSameAsPrevious (q ++ [p]) p = true := by
  simp [isSameAsPrevious, lastCC_append, hp]

@[simp] theorem Pool.get_put_same (pool : Pool) (pid : Nat) (q : List Packet) : (pool.put pid q).get pid = q := by
  induction pool with
  | nil => simp [Pool.put, Pool.get]
  | cons e r ih =>
    obtain ⟨k, v⟩ := e
    by_cases h : k = pid
    · simp [Pool.put, Pool.get, h]
    · simp [Pool.put, Pool.get, h, ih]

theorem Pool.get_put_other (pool : Pool) (pid pid' : Nat) (q : List Packet) (h : pid' ≠ pid) :
    (pool.put pid q).get pid' = pool.get pid' := by
  induction pool with
  | nil => simp [Pool.put, Pool.get, Ne.symm h]
  | cons e r ih =>
    obtain ⟨k, v⟩ := e
    by_cases hk : k = pid
    · subst hk
      simp [Pool.put, Pool.get, Ne.symm h]
    · by_cases hk' : k = pid'
      · subst hk'
        simp [Pool.put, Pool.get, hk]
      · simp [Pool.put, Pool.get, hk, hk', ih]

theorem Pool.put_put (pool : Pool) (pid : Nat) (q q' : List Packet) :
    (pool.put pid q).put pid q' = pool.put pid q' := by
  induction pool with
  | nil => simp [Pool.put]
  | cons e r ih =>
    obtain ⟨k, v⟩ := e
    by_cases h : k = pid
    · simp [Pool.put, h]
    · simp [Pool.put, h, ih]

end Astits
