/-
C01 support (demuxer side) — an invariant of `Demux.nextData` runs: on a stream whose packets are "safe" (`SP`: no
packet on a DVB SI PID; every packet on PID 0 / 0x1000 starts a unit, announces no discontinuity and — alone — parses
to data whose PATs list PMT PID 0x1000 only), the program map never holds a key other than 0x1000, whatever the number
of calls.  Hence an elementary-stream PID other than 0x1000 is never turned into a PSI PID (`hsafe`).
-/
import Astits.Proofs.MuxDemuxNext
namespace Astits.DemuxSafePM
open Astits.MuxDemux

/-- the DVB SI PIDs the demuxer parses as PSI whatever the program map says -/
def SI (pid : Nat) : Prop := (0x10 ≤ pid ∧ pid ≤ 0x14) ∨ (0x1e ≤ pid ∧ pid ≤ 0x1f)

instance (pid : Nat) : Decidable (SI pid) := by unfold SI; infer_instance

/-- the program map knows no PMT PID but 0x1000 -/
def SafePM (pm : ProgramMap) : Prop := ∀ e ∈ pm, e.1 = 4096

def SafeDatum (x : DemuxerData) : Prop := ∀ pat, x.pat = some pat → ∀ pg ∈ pat.programs, pg.programMapID = 4096

def SafeOut (r : Res (List DemuxerData)) : Prop := ∀ ds, r = .ok ds → ∀ x ∈ ds, SafeDatum x

/-- a safe packet -/
structure SP (p : Packet) : Prop where
  notSI : ¬ SI p.header.pid
  table : p.header.pid = 0 ∨ p.header.pid = 4096 →
    p.header.payloadUnitStartIndicator = true ∧ pktDI p = false ∧
    ∀ pm, SafePM pm → SafeOut (parseData [p] .none pm)

theorem safePM_nil : SafePM [] := fun e he => by cases he

theorem safePM_set (pm : ProgramMap) (n : Nat) (h : SafePM pm) : SafePM (pm.set 4096 n) := by
  unfold ProgramMap.set
  split
  · intro e he
    obtain ⟨e0, he0, rfl⟩ := List.mem_map.mp he
    split
    · rfl
    · exact h e0 he0
  · intro e he
    rcases List.mem_append.mp he with h1 | h1
    · exact h e h1
    · simp only [List.mem_cons, List.not_mem_nil, or_false] at h1
      rw [h1]

theorem safePM_has (pm : ProgramMap) (h : SafePM pm) (k : Nat) (hk : k ≠ 4096) : pm.has k = false := by
  unfold ProgramMap.has
  rw [List.any_eq_false]
  intro e he
  have := h e he
  simp [this]; exact fun hh => hk hh.symm

theorem fold_programs_safe (l : List PATProgram) (pm : ProgramMap) (h : SafePM pm) (hl : ∀ pg ∈ l, pg.programMapID = 4096) :
    SafePM (l.foldl (fun pm pg => if pg.programNumber > 0 then pm.set pg.programMapID pg.programNumber else pm) pm) := by
  induction l generalizing pm with
  | nil => exact h
  | cons pg r ih =>
    simp only [List.foldl_cons]
    apply ih _ _ (fun x hx => hl x (by simp [hx]))
    split
    · rw [hl pg (by simp)]; exact safePM_set pm _ h
    · exact h

theorem fold_data_safe (ds : List DemuxerData) (pm : ProgramMap) (h : SafePM pm) (hd : ∀ x ∈ ds, SafeDatum x) :
    SafePM (ds.foldl (fun pm v => match v.pat with
      | some pat => pat.programs.foldl (fun pm pg => if pg.programNumber > 0 then pm.set pg.programMapID pg.programNumber else pm) pm
      | none => pm) pm) := by
  induction ds generalizing pm with
  | nil => exact h
  | cons x r ih =>
    simp only [List.foldl_cons]
    apply ih _ _ (fun y hy => hd y (by simp [hy]))
    cases hp : x.pat with
    | none => exact h
    | some pat => exact fold_programs_safe _ pm h (hd x (by simp) pat hp)

/-- `updateData` keeps the program map safe when the data are -/
theorem updateData_safe (d : Demux) (ds : List DemuxerData) (h : SafePM d.programMap) (hd : ∀ x ∈ ds, SafeDatum x) :
    SafePM (d.updateData ds).2.programMap := by
  cases ds with
  | nil => exact h
  | cons x r => exact fold_data_safe (x :: r) d.programMap h hd

/-- a group that is not parsed as PSI yields no PAT -/
theorem parseData_nonpsi_safe (g : List Packet) (pm : ProgramMap)
    (h : (g.headD default).header.pid = 1 ∨ isPSIPayload (g.headD default).header.pid pm = false) :
    SafeOut (parseData g .none pm) := by
  intro ds hds
  unfold parseData at hds
  simp only at hds
  split at hds
  · simp only [Res.ok.injEq] at hds; subst hds; intro x hx; cases hx
  · rename_i h1
    have h2 : isPSIPayload (g.headD default).header.pid pm = false := by
      rcases h with h | h
      · rw [h] at h1; simp at h1
      · exact h
    rw [h2] at hds
    simp only [Bool.false_eq_true, if_false] at hds
    split at hds
    · split at hds
      · simp only [Res.ok.injEq] at hds; subst hds
        intro x hx
        simp only [List.mem_cons, List.not_mem_nil, or_false] at hx
        subst hx
        intro pat hp; cases hp
      · cases hds
      · cases hds
    · simp only [Res.ok.injEq] at hds; subst hds; intro x hx; cases hx

theorem isPSIPayload_false (k : Nat) (pm : ProgramMap) (h0 : k ≠ 0) (h1 : k ≠ 4096) (hsi : ¬ SI k) (hpm : SafePM pm) :
    isPSIPayload k pm = false := by
  unfold isPSIPayload
  rw [safePM_has pm hpm k h1]
  unfold SI at hsi
  simp only [Bool.or_false, Bool.or_eq_false_iff, beq_eq_false_iff_ne, ne_eq, decide_eq_false_iff_not]
  exact ⟨h0, fun h => hsi (Or.inl h), fun h => hsi (Or.inr h)⟩

/-- what a queue of PID `k` may hold -/
def GoodQ (k : Nat) (q : List Packet) : Prop :=
  (∀ p ∈ q, SP p ∧ p.header.pid = k) ∧ (k = 0 ∨ k = 4096 → q.length ≤ 1)

theorem goodQ_nil (k : Nat) : GoodQ k [] := ⟨fun p hp => (by cases hp), fun _ => (by simp)⟩

/-- **a flushed group parses to safe data** -/
theorem group_safe (g : List Packet) (k : Nat) (pm : ProgramMap) (hne : g ≠ []) (hg : GoodQ k g) (hpm : SafePM pm) :
    SafeOut (parseData g .none pm) := by
  obtain ⟨h1, h2⟩ := hg
  cases g with
  | nil => exact absurd rfl hne
  | cons p r =>
    obtain ⟨hsp, hpid⟩ := h1 p (by simp)
    by_cases hk : k = 0 ∨ k = 4096
    · have hl := h2 hk
      have hr : r = [] := by
        cases r with
        | nil => rfl
        | cons _ _ => simp at hl
      subst hr
      exact (hsp.table (by rw [hpid]; exact hk)).2.2 pm hpm
    · have hk0 : k ≠ 0 := fun h => hk (Or.inl h)
      have hk1 : k ≠ 4096 := fun h => hk (Or.inr h)
      apply parseData_nonpsi_safe
      right
      show isPSIPayload p.header.pid pm = false
      rw [hpid]
      exact isPSIPayload_false k pm hk0 hk1 (hpid ▸ hsp.notSI) hpm

/-- a unit start that announces no discontinuity: what the accumulator can do -/
theorem accAdd_pusi_cases (pm : ProgramMap) (pid : Nat) (q : List Packet) (p : Packet)
    (hu : p.header.payloadUnitStartIndicator = true) (hd : pktDI p = false) :
    accAdd pm pid q p = ([], q) ∨ accAdd pm pid q p = ([p], []) ∨ accAdd pm pid q p = ([], [p]) ∨
    accAdd pm pid q p = (q, [p]) := by
  unfold accAdd
  simp only [hu, hd, Bool.not_false, Bool.and_true, Bool.false_and, Bool.and_false, Bool.not_false, if_true,
    List.nil_append]
  split
  · exact Or.inl rfl
  · (repeat' split) <;> simp

theorem accAdd_goodQ (pm : ProgramMap) (k : Nat) (q : List Packet) (p : Packet) (hq : GoodQ k q) (hp : SP p)
    (hpid : p.header.pid = k) : GoodQ k (accAdd pm k q p).1 ∧ GoodQ k (accAdd pm k q p).2 := by
  have hm := accAdd_mem pm k q p
  have hmem : ∀ l : List Packet, (∀ x ∈ l, x ∈ q ∨ x = p) → ∀ x ∈ l, SP x ∧ x.header.pid = k := by
    intro l hl x hx
    rcases hl x hx with h | h
    · exact hq.1 x h
    · rw [h]; exact ⟨hp, hpid⟩
  by_cases hk : k = 0 ∨ k = 4096
  · obtain ⟨hu, hd, _⟩ := hp.table (by rw [hpid]; exact hk)
    have hl := hq.2 hk
    rcases accAdd_pusi_cases pm k q p hu hd with h | h | h | h <;> rw [h] <;>
      exact ⟨⟨by rw [h] at hm; exact hmem _ hm.1, fun _ => by simp [hl]⟩,
        ⟨by rw [h] at hm; exact hmem _ hm.2, fun _ => by simp [hl]⟩⟩
  · exact ⟨⟨hmem _ hm.1, fun h => absurd h hk⟩, ⟨hmem _ hm.2, fun h => absurd h hk⟩⟩

/-- pool invariant -/
def PoolSafe (pool : Pool) : Prop := PoolWF pool ∧ ∀ k, GoodQ k (pool.get k)

theorem poolSafe_nil : PoolSafe [] := ⟨trivial, fun k => goodQ_nil k⟩

theorem poolAdd_safe (pm : ProgramMap) (pool : Pool) (p : Packet) (h : PoolSafe pool) (hp : SP p) :
    PoolSafe (poolAdd pm pool p).2 ∧ GoodQ p.header.pid (poolAdd pm pool p).1 := by
  have hwf := (wf_poolAdd pm pool p h.1).1
  unfold poolAdd at hwf ⊢
  split
  · exact ⟨h, goodQ_nil _⟩
  · split
    · exact ⟨h, goodQ_nil _⟩
    · rename_i h1 h2
      simp only [h1, h2, Bool.false_eq_true, if_false] at hwf
      obtain ⟨g1, g2⟩ := accAdd_goodQ pm p.header.pid (pool.get p.header.pid) p (h.2 _) hp rfl
      refine ⟨⟨hwf, fun k => ?_⟩, g1⟩
      by_cases hk : k = p.header.pid
      · subst hk; simp only; rw [Pool.get_put_same]; exact g2
      · simp only; rw [Pool.get_put_other _ _ _ _ hk]; exact h.2 k

/-- the invariant of a demuxer reading a safe stream -/
def DInv (d : Demux) : Prop :=
  ∃ cs s, Rep d cs ∧ ParsesTo cs s ∧ (∀ p ∈ s, SP p) ∧ PoolSafe d.pool ∧ SafePM d.programMap

theorem drain_safe : ∀ (fuel : Nat) (d : Demux), Rep d [] → PoolSafe d.pool → SafePM d.programMap →
    DInv (d.drain fuel).2 := by
  intro fuel
  induction fuel with
  | zero => intro d hrep hp hpm; exact ⟨[], [], hrep, trivial, fun p hp => (by cases hp), hp, hpm⟩
  | succ fuel ih =>
    intro d hrep hp hpm
    rw [drain_succ d fuel hrep.parser]
    have hio : SameIO d (withPool d (poolDump d.pool).2) := ⟨rfl, rfl, rfl, rfl, rfl⟩
    have hrep1 : Rep (withPool d (poolDump d.pool).2) [] := hrep.transfer hio
    have fin : ∀ d' : Demux, Rep d' [] → PoolSafe d'.pool → SafePM d'.programMap → DInv d' :=
      fun d' a b c => ⟨[], [], a, trivial, fun p hp => (by cases hp), b, c⟩
    rcases poolDump_spec d.pool hp.1 with ⟨a1, a0, a2⟩ | ⟨k, b1, b2, b3, b4, b5, b6, b7⟩
    · rw [a1]
      simp only [List.isEmpty_nil, if_true]
      exact fin _ hrep1 (by show PoolSafe (poolDump d.pool).2; rw [a0]; exact poolSafe_nil) hpm
    · have hne : (poolDump d.pool).1.isEmpty = false := by
        cases hg : (poolDump d.pool).1 with
        | nil => exact absurd hg b2
        | cons _ _ => rfl
      rw [hne]
      simp only [Bool.false_eq_true, if_false]
      have hps : PoolSafe (poolDump d.pool).2 := by
        refine ⟨b5, fun k' => ?_⟩
        by_cases hk : k' = k
        · rw [hk, b3]; exact goodQ_nil k
        · rw [b4 k' hk]; exact hp.2 k'
      have hgq : GoodQ k (poolDump d.pool).1 := by rw [b1]; exact hp.2 k
      have hso := group_safe _ k d.programMap b2 hgq hpm
      have ih1 := ih (withPool d (poolDump d.pool).2) hrep1 hps hpm
      cases hr : parseData (poolDump d.pool).1 .none d.programMap with
      | ok ds =>
        cases ds with
        | nil =>
          simp only [updateData_nil]
          exact ih1
        | cons x more =>
          obtain ⟨u1, u2, u3, u4⟩ := updateData_cons (withPool d (poolDump d.pool).2) x more
          simp only [u1]
          refine fin _ (hrep1.transfer u2) (by rw [u3]; exact hps) ?_
          exact updateData_safe (withPool d (poolDump d.pool).2) (x :: more) hpm (hso _ hr)
      | err e =>
        simp only
        exact ih1
      | panic =>
        simp only
        exact fin _ hrep1 hps hpm

theorem dataLoop_safe : ∀ (fuel : Nat) (d : Demux), DInv d → DInv (d.dataLoop fuel).2 := by
  intro fuel
  induction fuel with
  | zero => intro d h; exact h
  | succ f ih =>
    intro d ⟨cs, s, hrep, hs, hsp, hp, hpm⟩
    cases cs with
    | nil =>
      obtain ⟨d1, hnp, hrep1, hsd⟩ := nextPacket_nil d hrep
      rw [dataLoop_succ d f (by rw [hnp]; exact hrep1.parser), hnp]
      simp only
      exact drain_safe _ d1 hrep1 (by rw [hsd.1]; exact hp) (by rw [hsd.2.1]; exact hpm)
    | cons c cs =>
      cases s with
      | nil => exact hs.elim
      | cons p s' =>
        obtain ⟨hpp, hs'⟩ := hs
        obtain ⟨d1, hnp, hrep1, hsd⟩ := nextPacket_cons d c cs p hrep hpp
        rw [dataLoop_succ d f (by rw [hnp]; exact hrep1.parser), hnp]
        simp only
        have hp1 : PoolSafe d1.pool := by rw [hsd.1]; exact hp
        have hpm1 : SafePM d1.programMap := by rw [hsd.2.1]; exact hpm
        obtain ⟨w1, w2⟩ := poolAdd_safe d1.programMap d1.pool p hp1 (hsp p (by simp))
        generalize hg : (poolAdd d1.programMap d1.pool p).1 = g at *
        generalize hpl : (poolAdd d1.programMap d1.pool p).2 = pool' at *
        have hio : SameIO d1 (withPool d1 pool') := ⟨rfl, rfl, rfl, rfl, rfl⟩
        have hrep2 : Rep (withPool d1 pool') cs := hrep1.transfer hio
        have hsp' : ∀ x ∈ s', SP x := fun x hx => hsp x (by simp [hx])
        have inv2 : DInv (withPool d1 pool') := ⟨cs, s', hrep2, hs', hsp', w1, hpm1⟩
        by_cases hge : g.isEmpty = true
        · simp only [hge, if_true]
          exact ih _ inv2
        · have hge' : g.isEmpty = false := by simpa using hge
          have hgne : g ≠ [] := by intro hh; rw [hh] at hge'; cases hge'
          simp only [hge', Bool.false_eq_true, if_false]
          have hso := group_safe g _ d1.programMap hgne w2 hpm1
          cases hr : parseData g .none d1.programMap with
          | ok ds =>
            cases ds with
            | nil =>
              simp only [updateData_nil]
              exact ih _ inv2
            | cons x more =>
              obtain ⟨u1, u2, u3, u4⟩ := updateData_cons (withPool d1 pool') x more
              simp only [u1]
              exact ⟨cs, s', hrep2.transfer u2, hs', hsp', by rw [u3]; exact w1,
                updateData_safe (withPool d1 pool') (x :: more) hpm1 (hso _ hr)⟩
          | err e => simp only; exact inv2
          | panic => simp only; exact inv2

theorem nextData_safe (d : Demux) (h : DInv d) : DInv d.nextData.2 := by
  unfold Demux.nextData
  cases hb : d.dataBuffer with
  | nil => simp only; exact dataLoop_safe _ d h
  | cons x rest =>
    simp only
    obtain ⟨cs, s, hrep, hs, hsp, hp, hpm⟩ := h
    exact ⟨cs, s, hrep.transfer ⟨rfl, rfl, rfl, rfl, rfl⟩, hs, hsp, hp, hpm⟩

theorem after_safe (k : Nat) (d : Demux) (h : DInv d) : DInv (after k d) := by
  induction k generalizing d with
  | zero => exact h
  | succ k ih => exact ih _ (nextData_safe d h)

/-- **the program map of a demuxer reading a safe stream of whole chunks never knows a PMT PID but 0x1000** -/
theorem programMap_safe (cs : List Bytes) (s : List Packet) (hs : ParsesTo cs s) (hlen : ∀ c ∈ cs, c.length = 188)
    (hsp : ∀ p ∈ s, SP p) (k : Nat) : SafePM (after k (demuxOf cs.flatten)).programMap := by
  obtain ⟨_, _, _, _, _, _, h⟩ := after_safe k (demuxOf cs.flatten)
    ⟨cs, s, rep_demuxOf cs hlen, hs, hsp, poolSafe_nil, safePM_nil⟩
  exact h

/-- hence a PID that is an elementary-stream PID under the empty map, other than 0x1000, stays one -/
theorem esPid_of_safe (pid : Nat) (pm : ProgramMap) (h : ESPid pid []) (hne : pid ≠ 4096) (hpm : SafePM pm) : ESPid pid pm := by
  refine ⟨h.1, ?_⟩
  have h2 := h.2
  unfold isPSIPayload at h2 ⊢
  rw [safePM_has pm hpm pid hne]
  exact h2

end Astits.DemuxSafePM
