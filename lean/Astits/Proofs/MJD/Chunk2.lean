/- C15: kernel evaluation of the day-by-day walk over MJD 27879 .. 34278 (decode = calendar, encode = inverse). -/
import Astits.Proofs.MJDCore
namespace Astits.MJD

theorem chunk2 : walk 6400 (15079 + 12800) (1935, 3, 18) = some (1952, 9, 24) := by decide +kernel

end Astits.MJD
