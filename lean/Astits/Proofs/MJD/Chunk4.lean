/- C15: kernel evaluation of the day-by-day walk over MJD 40679 .. 47078 (decode = calendar, encode = inverse). -/
import Astits.Proofs.MJDCore
namespace Astits.MJD

theorem chunk4 : walk 6400 (15079 + 25600) (1970, 4, 3) = some (1987, 10, 11) := by decide +kernel

end Astits.MJD
