/- C15: the Int-valued model functions (decodeYMD, unixOfDate, civilFromDays, encodeMJD) evaluated by the kernel on MJD 21479 .. 27878. -/
import Astits.Proofs.MJDCore
namespace Astits.MJD

theorem chunkI1 : walkI 6400 (15079 + 6400) (1917, 9, 8) = true := by decide +kernel

end Astits.MJD
