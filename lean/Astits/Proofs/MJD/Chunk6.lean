/- C15: kernel evaluation of the day-by-day walk over MJD 53479 .. 59878 (decode = calendar, encode = inverse). -/
import Astits.Proofs.MJDCore
namespace Astits.MJD

theorem chunk6 : walk 6400 (15079 + 38400) (2005, 4, 19) = some (2022, 10, 27) := by decide +kernel

end Astits.MJD
