/- C15: kernel evaluation of the day-by-day walk over MJD 59879 .. 65535 (decode = calendar, encode = inverse). -/
import Astits.Proofs.MJDCore
namespace Astits.MJD

theorem chunk7 : walk 5657 (15079 + 44800) (2022, 10, 27) = some (2038, 4, 23) := by decide +kernel

end Astits.MJD
