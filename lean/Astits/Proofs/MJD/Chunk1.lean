/- C15: kernel evaluation of the day-by-day walk over MJD 21479 .. 27878 (decode = calendar, encode = inverse). -/
import Astits.Proofs.MJDCore
namespace Astits.MJD

theorem chunk1 : walk 6400 (15079 + 6400) (1917, 9, 8) = some (1935, 3, 18) := by decide +kernel

end Astits.MJD
