/- C15: kernel evaluation of the day-by-day walk over MJD 15079 .. 21478 (decode = calendar, encode = inverse). -/
import Astits.Proofs.MJDCore
namespace Astits.MJD

theorem chunk0 : walk 6400 (15079 + 0) (1900, 3, 1) = some (1917, 9, 8) := by decide +kernel

end Astits.MJD
