/- C15: the Int-valued model functions (decodeYMD, unixOfDate, civilFromDays, encodeMJD) evaluated by the kernel on MJD 27879 .. 34278. -/
import Astits.Proofs.MJDCore
namespace Astits.MJD

theorem chunkI2 : walkI 6400 (15079 + 12800) (1935, 3, 18) = true := by decide +kernel

end Astits.MJD
