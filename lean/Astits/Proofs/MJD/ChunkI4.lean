/- C15: the Int-valued model functions (decodeYMD, unixOfDate, civilFromDays, encodeMJD) evaluated by the kernel on MJD 40679 .. 47078. -/
import Astits.Proofs.MJDCore
namespace Astits.MJD

theorem chunkI4 : walkI 6400 (15079 + 25600) (1970, 4, 3) = true := by decide +kernel

end Astits.MJD
