/- C15: the Int-valued model functions (decodeYMD, unixOfDate, civilFromDays, encodeMJD) evaluated by the kernel on MJD 34279 .. 40678. -/
import Astits.Proofs.MJDCore
namespace Astits.MJD

theorem chunkI3 : walkI 6400 (15079 + 19200) (1952, 9, 24) = true := by decide +kernel

end Astits.MJD
