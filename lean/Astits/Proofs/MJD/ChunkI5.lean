/- C15: the Int-valued model functions (decodeYMD, unixOfDate, civilFromDays, encodeMJD) evaluated by the kernel on MJD 47079 .. 53478. -/
import Astits.Proofs.MJDCore
namespace Astits.MJD

theorem chunkI5 : walkI 6400 (15079 + 32000) (1987, 10, 11) = true := by decide +kernel

end Astits.MJD
