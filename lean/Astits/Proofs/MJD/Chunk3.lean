/- C15: kernel evaluation of the day-by-day walk over MJD 34279 .. 40678 (decode = calendar, encode = inverse). -/
import Astits.Proofs.MJDCore
namespace Astits.MJD

theorem chunk3 : walk 6400 (15079 + 19200) (1952, 9, 24) = some (1970, 4, 3) := by decide +kernel

end Astits.MJD
