/- C15: kernel evaluation of the day-by-day walk over MJD 47079 .. 53478 (decode = calendar, encode = inverse). -/
import Astits.Proofs.MJDCore
namespace Astits.MJD

theorem chunk5 : walk 6400 (15079 + 32000) (1987, 10, 11) = some (2005, 4, 19) := by decide +kernel

end Astits.MJD
