/- C15: the Int-valued model functions (decodeYMD, unixOfDate, civilFromDays, encodeMJD) evaluated by the kernel on MJD 53479 .. 59878. -/
import Astits.Proofs.MJDCore
namespace Astits.MJD

theorem chunkI6 : walkI 6400 (15079 + 38400) (2005, 4, 19) = true := by decide +kernel

end Astits.MJD
