/- C15: the Int-valued model functions (decodeYMD, unixOfDate, civilFromDays, encodeMJD) evaluated by the kernel on MJD 15079 .. 21478. -/
import Astits.Proofs.MJDCore
namespace Astits.MJD

theorem chunkI0 : walkI 6400 (15079 + 0) (1900, 3, 1) = true := by decide +kernel

end Astits.MJD
