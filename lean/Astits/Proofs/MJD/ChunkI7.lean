/- C15: the Int-valued model functions (decodeYMD, unixOfDate, civilFromDays, encodeMJD) evaluated by the kernel on MJD 59879 .. 65535. -/
import Astits.Proofs.MJDCore
namespace Astits.MJD

theorem chunkI7 : walkI 5657 (15079 + 44800) (2022, 10, 27) = true := by decide +kernel

end Astits.MJD
