/-
C06 (loss clause) for TABLE PIDs (`(pid == 0 || pm.has pid) = true`: groups are flushed early as soon as
`isPSIComplete`).  Part 1: a generic invariant of the accumulator of a table PID on ANY sequence of plain payload
packets in which no packet repeats the counter of its predecessor: every group flushed, and the queue, is a
contiguous run of the input with consecutive counters and no unit start except possibly at its head — together with
the reason why it was flushed.  Part 2 (chains of PAT/PMT units with a gap) builds on it.
-/
import Astits.Proofs.Loss
import Astits.Proofs.PSIComplete
namespace Astits.LossTable
open Astits Astits.Loss Astits.PSIComplete

/-! ### the accumulator of a table PID at a counter jump -/

/-- **the queue is DISCARDED at a counter jump, also on a table PID** — never flushed, whatever it holds (the head of a
unit whose completing packet was lost, a stuffing tail, …), even when the packet starts a unit; the packet is queued
alone, or flushed at once when it looks complete by itself -/
theorem accAdd_table_jump (pm : ProgramMap) (pid : Nat) (q : List Packet) (p : Packet) (l : Nat)
    (htab : (pid == 0 || pm.has pid) = true) (hq : lastCC q = some l) (hp : PlainPayload p)
    (h1 : p.header.continuityCounter ≠ l) (h2 : p.header.continuityCounter ≠ (l + 1) % 16) :
    accAdd pm pid q p = if isPSIComplete [p] then ([p], []) else ([], [p]) := by
  obtain ⟨hpay, _, hdi, _⟩ := hp
  have hsame : isSameAsPrevious q p = false := by
    simp [isSameAsPrevious, hq, hpay, h1]
  have hdisc : hasDiscontinuity q p = true := by
    simp [hasDiscontinuity, hdi, hq, hpay, h2]
  unfold accAdd
  by_cases hpusi : p.header.payloadUnitStartIndicator = true <;> simp [hsame, hdisc, hpusi, htab, hdi]

/-- on an empty queue: the same -/
theorem accAdd_table_nil (pm : ProgramMap) (pid : Nat) (p : Packet)
    (htab : (pid == 0 || pm.has pid) = true) (hp : PlainPayload p) :
    accAdd pm pid [] p = if isPSIComplete [p] then ([p], []) else ([], [p]) := by
  obtain ⟨hpay, _, hdi, _⟩ := hp
  unfold accAdd
  by_cases hpusi : p.header.payloadUnitStartIndicator = true <;>
    simp [isSameAsPrevious, hasDiscontinuity, lastCC, hpusi, htab, hdi]

/-- **a gap acts as a reset** on a table PID too -/
theorem accRun_table_jump (pm : ProgramMap) (pid : Nat) (q : List Packet) (p : Packet) (b : List Packet) (l : Nat)
    (htab : (pid == 0 || pm.has pid) = true) (hq : lastCC q = some l) (hp : PlainPayload p)
    (h1 : p.header.continuityCounter ≠ l) (h2 : p.header.continuityCounter ≠ (l + 1) % 16) :
    accRun pm pid q (p :: b) = accRun pm pid [] (p :: b) := by
  simp only [accRun, accAdd_table_jump pm pid q p l htab hq hp h1 h2, accAdd_table_nil pm pid p htab hp]

/-! ### runs -/

/-- a run: plain payload packets with consecutive counters, no unit start after the first packet -/
def Good : List Packet → Prop
  | [] => True
  | p :: r => PlainPayload p ∧ Continues p.header.continuityCounter r

/-- every non-empty prefix looks incomplete -/
def PrefInc (g : List Packet) : Prop := ∀ i, i < g.length → isPSIComplete (g.take (i + 1)) = false

/-- every non-empty PROPER prefix looks incomplete -/
def ProperPrefInc (g : List Packet) : Prop := ∀ i, i + 1 < g.length → isPSIComplete (g.take (i + 1)) = false

/-- why a group was flushed: it looks complete and no proper prefix of it does (flushed at its completing packet), or the
next packet of the input starts a unit with the next counter (and no prefix of the group looks complete) -/
inductive Why (done g : List Packet) : Prop
  | early : isPSIComplete g = true → ProperPrefInc g → Why done g
  | byStart (pre post : List Packet) (p' : Packet) (l : Nat) : done = pre ++ g ++ p' :: post →
      p'.header.payloadUnitStartIndicator = true → lastCC g = some l → p'.header.continuityCounter = (l + 1) % 16 →
      PrefInc g → Why done g

structure Inv (done : List Packet) (F : List (List Packet)) (Q : List Packet) : Prop where
  suffix : ∃ pre, done = pre ++ Q
  good : Good Q
  inc : PrefInc Q
  flushed : ∀ g ∈ F, g ≠ [] → (∃ pre post, done = pre ++ g ++ post) ∧ Good g ∧ Why done g

theorem Why.mono {done g : List Packet} (h : Why done g) (x : List Packet) : Why (done ++ x) g := by
  cases h with
  | early h1 h2 => exact .early h1 h2
  | byStart pre post p' l e h1 h2 h3 h4 => exact .byStart pre (post ++ x) p' l (by rw [e]; simp) h1 h2 h3 h4

theorem Good_snoc (q : List Packet) (last p : Packet) (hg : Good (q ++ [last])) (hp : PlainPayload p)
    (hpusi : p.header.payloadUnitStartIndicator = false)
    (hcc : p.header.continuityCounter = (last.header.continuityCounter + 1) % 16) : Good (q ++ [last] ++ [p]) := by
  cases q with
  | nil => exact ⟨hg.1, hp, hpusi, hcc, trivial⟩
  | cons h t =>
    refine ⟨hg.1, ?_⟩
    have hc : Continues h.header.continuityCounter (t ++ [last]) := hg.2
    show Continues h.header.continuityCounter ((t ++ [last]) ++ [p])
    rw [Continues_append]
    refine ⟨hc, ?_⟩
    have : endCC h.header.continuityCounter (t ++ [last]) = last.header.continuityCounter := endCC_append_singleton _ _ _
    rw [this]
    exact ⟨hp, hpusi, hcc, trivial⟩

theorem Good_last_lt (q : List Packet) (last : Packet) (hg : Good (q ++ [last])) : last.header.continuityCounter < 16 := by
  cases q with
  | nil => exact hg.1.2.2.2
  | cons h t =>
    have hc : Continues h.header.continuityCounter (t ++ [last]) := hg.2
    rw [Continues_append] at hc
    exact hc.2.1.2.2.2

theorem lastCC_of_suffix (pre Q : List Packet) (hQ : Q ≠ []) : lastCC (pre ++ Q) = lastCC Q := by
  unfold lastCC
  have : (pre ++ Q).getLast? = Q.getLast? := by
    simp only [List.getLast?_append]
    cases h : Q.getLast? with
    | none => simp [List.getLast?_eq_none_iff] at h; exact absurd h hQ
    | some x => simp
  rw [this]

theorem PrefInc_snoc (q : List Packet) (p : Packet) (h : PrefInc q) (hc : isPSIComplete (q ++ [p]) = false) :
    PrefInc (q ++ [p]) := by
  intro i hi
  by_cases hlt : i < q.length
  · have : (q ++ [p]).take (i + 1) = q.take (i + 1) := by
      rw [List.take_append_of_le_length (by omega)]
    rw [this]; exact h i hlt
  · have : (q ++ [p]).take (i + 1) = q ++ [p] := by
      apply List.take_of_length_le
      simp only [List.length_append, List.length_cons, List.length_nil] at hi ⊢
      omega
    rw [this]; exact hc

theorem ProperPrefInc_snoc (q : List Packet) (p : Packet) (h : PrefInc q) : ProperPrefInc (q ++ [p]) := by
  intro i hi
  have hlt : i < q.length := by
    simp only [List.length_append, List.length_cons, List.length_nil] at hi; omega
  have : (q ++ [p]).take (i + 1) = q.take (i + 1) := by
    rw [List.take_append_of_le_length (by omega)]
  rw [this]; exact h i hlt

theorem PrefInc_single (p : Packet) (h : isPSIComplete [p] = false) : PrefInc [p] := by
  intro i hi
  have : i = 0 := by simpa using hi
  subst this
  simpa using h

theorem ProperPrefInc_single (p : Packet) : ProperPrefInc [p] := by
  intro i hi
  simp at hi

/-- one step of the accumulator of a table PID on a plain payload packet that does not repeat the last counter -/
theorem Inv.step (pm : ProgramMap) (pid : Nat) (htab : (pid == 0 || pm.has pid) = true)
    {done : List Packet} {F : List (List Packet)} {Q : List Packet} (I : Inv done F Q) (p : Packet) (hp : PlainPayload p)
    (hnd : ∀ l, lastCC done = some l → p.header.continuityCounter ≠ l) :
    Inv (done ++ [p]) (F ++ [(accAdd pm pid Q p).1]) (accAdd pm pid Q p).2 := by
  obtain ⟨pre, hpre⟩ := I.suffix
  -- the flushes so far stay what they were
  have hold : ∀ g ∈ F, g ≠ [] → (∃ pre post, done ++ [p] = pre ++ g ++ post) ∧ Good g ∧ Why (done ++ [p]) g := by
    intro g hg hne
    obtain ⟨⟨a, b, e⟩, h2, h3⟩ := I.flushed g hg hne
    exact ⟨⟨a, b ++ [p], by rw [e]; simp⟩, h2, h3.mono [p]⟩
  -- the packet alone
  have alone : accAdd pm pid Q p = (if isPSIComplete [p] then ([p], []) else ([], [p])) →
      Inv (done ++ [p]) (F ++ [(accAdd pm pid Q p).1]) (accAdd pm pid Q p).2 := by
    intro e
    rw [e]
    by_cases hc : isPSIComplete [p] = true
    · simp only [hc, if_true]
      refine ⟨⟨done ++ [p], by simp⟩, trivial, fun i hi => by simp at hi, ?_⟩
      intro g hg hne
      rcases List.mem_append.mp hg with hg | hg
      · exact hold g hg hne
      · have : g = [p] := by simpa using hg
        subst this
        exact ⟨⟨done, [], by simp⟩, ⟨hp, trivial⟩, .early hc (ProperPrefInc_single p)⟩
    · have hc' : isPSIComplete [p] = false := by simpa using hc
      simp only [hc', Bool.false_eq_true, if_false]
      refine ⟨⟨done, rfl⟩, ⟨hp, trivial⟩, PrefInc_single p hc', ?_⟩
      intro g hg hne
      rcases List.mem_append.mp hg with hg | hg
      · exact hold g hg hne
      · have : g = [] := by simpa using hg
        exact absurd this hne
  rcases List.eq_nil_or_concat Q with hQ | ⟨q, last, hQ⟩
  · subst hQ
    exact alone (accAdd_table_nil pm pid p htab hp)
  · rw [List.concat_eq_append] at hQ
    subst hQ
    have hlast : lastCC (q ++ [last]) = some last.header.continuityCounter := lastCC_append q last
    have hlastd : lastCC done = some last.header.continuityCounter := by
      rw [hpre, lastCC_of_suffix _ _ (by simp), hlast]
    have hne := hnd _ hlastd
    have hl := Good_last_lt q last I.good
    by_cases hcc : p.header.continuityCounter = (last.header.continuityCounter + 1) % 16
    · by_cases hpusi : p.header.payloadUnitStartIndicator = true
      · -- a unit start with the next counter: flush the queue (or drop it when the packet alone looks complete)
        have e := accAdd_table_start pm pid (q ++ [last]) p htab hp hpusi (Or.inr ⟨q, last, rfl, hl, hcc⟩)
        by_cases hc : isPSIComplete [p] = true
        · exact alone (by rw [e]; simp [hc])
        · have hc' : isPSIComplete [p] = false := by simpa using hc
          rw [e]
          simp only [hc', Bool.false_eq_true, if_false]
          refine ⟨⟨done, rfl⟩, ⟨hp, trivial⟩, PrefInc_single p hc', ?_⟩
          intro g hg hgne
          rcases List.mem_append.mp hg with hg | hg
          · exact hold g hg hgne
          · have : g = q ++ [last] := by simpa using hg
            subst this
            exact ⟨⟨pre, [p], by rw [hpre]⟩, I.good,
              .byStart pre [] p _ (by rw [hpre]) hpusi hlast hcc I.inc⟩
      · -- a continuation packet
        have hpusi' : p.header.payloadUnitStartIndicator = false := by simpa using hpusi
        have e := accAdd_table_cont pm pid q last p htab hl hp hpusi' hcc
        have hgood := Good_snoc q last p I.good hp hpusi' hcc
        rw [e]
        by_cases hc : isPSIComplete (q ++ [last] ++ [p]) = true
        · simp only [hc, if_true]
          refine ⟨⟨done ++ [p], by simp⟩, trivial, fun i hi => by simp at hi, ?_⟩
          intro g hg hgne
          rcases List.mem_append.mp hg with hg | hg
          · exact hold g hg hgne
          · have : g = q ++ [last] ++ [p] := by simpa using hg
            subst this
            exact ⟨⟨pre, [], by rw [hpre]; simp⟩, hgood, .early hc (ProperPrefInc_snoc _ p I.inc)⟩
        · have hc' : isPSIComplete (q ++ [last] ++ [p]) = false := by simpa using hc
          simp only [hc', Bool.false_eq_true, if_false]
          refine ⟨⟨pre, by rw [hpre]; simp⟩, hgood, PrefInc_snoc _ p I.inc hc', ?_⟩
          intro g hg hgne
          rcases List.mem_append.mp hg with hg | hg
          · exact hold g hg hgne
          · have : g = [] := by simpa using hg
            exact absurd this hgne
    · -- a counter jump: the queue is discarded
      exact alone (accAdd_table_jump pm pid (q ++ [last]) p _ htab hlast hp hne hcc)

/-- the input: plain payload packets, none repeating the counter of its predecessor (after `done`) -/
def StreamOK (done rest : List Packet) : Prop :=
  ∀ pre p post, rest = pre ++ p :: post → PlainPayload p ∧ ∀ l, lastCC (done ++ pre) = some l → p.header.continuityCounter ≠ l

theorem Inv.run (pm : ProgramMap) (pid : Nat) (htab : (pid == 0 || pm.has pid) = true) (rest : List Packet) :
    ∀ (done : List Packet) (F : List (List Packet)) (Q : List Packet), Inv done F Q → StreamOK done rest →
      Inv (done ++ rest) (F ++ (accRun pm pid Q rest).1) (accRun pm pid Q rest).2 := by
  induction rest with
  | nil => intro done F Q I _; simpa [accRun] using I
  | cons p r ih =>
    intro done F Q I hs
    obtain ⟨hp, hnd⟩ := hs [] p r rfl
    have I1 := I.step pm pid htab p hp (by simpa using hnd)
    have hs' : StreamOK (done ++ [p]) r := by
      intro pre x post e
      have := hs (p :: pre) x post (by rw [e]; rfl)
      simpa using this
    have := ih (done ++ [p]) _ _ I1 hs'
    simpa [accRun] using this

theorem Inv.init : Inv [] [] [] :=
  ⟨⟨[], rfl⟩, trivial, fun i hi => by simp at hi, fun g hg => by cases hg⟩

/-- **generic invariant**: on any input of plain payload packets without repeated counters, read from an empty queue -/
theorem accRun_inv (pm : ProgramMap) (pid : Nat) (htab : (pid == 0 || pm.has pid) = true) (s : List Packet)
    (hs : StreamOK [] s) : Inv s (accRun pm pid [] s).1 (accRun pm pid [] s).2 := by
  have := Inv.run pm pid htab s [] [] [] Inv.init hs
  simpa using this

/-! ### Part 2 — sequences with consecutive counters -/

/-- in a sequence with consecutive counters, a packet carries the successor of the counter before it -/
theorem consec_adj (pre : List Packet) (p : Packet) (post : List Packet) (h : Consec (pre ++ p :: post)) (l : Nat)
    (hl : lastCC pre = some l) : p.header.continuityCounter = (l + 1) % 16 ∧ l < 16 ∧ PlainPayload p := by
  cases pre with
  | nil => simp [lastCC] at hl
  | cons x t =>
    have h2 : CCRun x.header.continuityCounter (t ++ p :: post) := h.2
    rw [CCRun_append] at h2
    have e : lastCC (x :: t) = some (endCC x.header.continuityCounter t) := lastCC_eq_endCC 0 (x :: t) (by simp)
    rw [e] at hl
    have : endCC x.header.continuityCounter t = l := by simpa using hl
    rw [← this]
    exact ⟨h2.2.2.1, endCC_lt _ _ h.1.2.2.2 h2.1, h2.2.1⟩

theorem consec_plain (s : List Packet) (h : Consec s) : ∀ p ∈ s, PlainPayload p := by
  cases s with
  | nil => intro p hp; cases hp
  | cons x t =>
    intro p hp
    rcases List.mem_cons.mp hp with rfl | hp
    · exact h.1
    · have : ∀ (c : Nat) (r : List Packet), CCRun c r → ∀ p ∈ r, PlainPayload p := by
        intro c r
        induction r generalizing c with
        | nil => intro _ p hp; cases hp
        | cons q t ih =>
          intro hc p hp
          rcases List.mem_cons.mp hp with rfl | hp
          · exact hc.1
          · exact ih _ hc.2.2 p hp
      exact this _ _ h.2 p hp

theorem Consec_infix (a b c : List Packet) (h : Consec (a ++ b ++ c)) : Consec b := by
  have h1 : Consec (b ++ c) := Consec_append_right a (b ++ c) (by simpa [List.append_assoc] using h)
  exact Consec_append_left b c h1

/-- adjacent packets carry consecutive counters -/
def Linked (g : List Packet) : Prop :=
  ∀ x p y, g = x ++ p :: y → ∀ c, lastCC x = some c → p.header.continuityCounter = (c + 1) % 16

theorem Continues_linked (c : Nat) (r : List Packet) (h : Continues c r) : CCRun c r := Continues_CCRun c r h

theorem Good_consec (g : List Packet) (h : Good g) : Consec g := by
  cases g with
  | nil => trivial
  | cons p r => exact ⟨h.1, Continues_CCRun _ _ h.2⟩

theorem Good_linked (g : List Packet) (h : Good g) : Linked g := by
  intro x p y e c hc
  have := Good_consec g h
  rw [e] at this
  exact (consec_adj x p y this c hc).1

theorem Linked_snoc (g : List Packet) (p' : Packet) (l : Nat) (h : Linked g) (hl : lastCC g = some l)
    (hp : p'.header.continuityCounter = (l + 1) % 16) : Linked (g ++ [p']) := by
  intro x p y e c hc
  rcases List.eq_nil_or_concat y with hy | ⟨y', z, hy⟩
  · subst hy
    have e' : g ++ [p'] = x ++ [p] := e
    have := List.append_inj' e' rfl
    obtain ⟨e1, e2⟩ := this
    have : p = p' := by simpa using e2.symm
    subst this
    rw [← e1, hl] at hc
    have : l = c := by simpa using hc
    rw [← this]; exact hp
  · rw [List.concat_eq_append] at hy
    subst hy
    have e' : g ++ [p'] = (x ++ p :: y') ++ [z] := by rw [e]; simp
    have := List.append_inj' e' rfl
    exact h x p y' this.1 c hc

/-- **a linked run does not straddle the gap** -/
theorem linked_not_across (A gap B g pre post : List Packet) (hcon : Consec (A ++ gap ++ B))
    (hg1 : 1 ≤ gap.length) (hg2 : gap.length ≤ 14) (hL : Linked g) (hs : A ++ B = pre ++ g ++ post) :
    (∃ post', A = pre ++ g ++ post' ∧ post = post' ++ B) ∨ (∃ pre', B = pre' ++ g ++ post ∧ pre = A ++ pre') := by
  rw [List.append_assoc, List.append_eq_append_iff] at hs
  rcases hs with ⟨c', hpre, hB⟩ | ⟨a', hA, hgp⟩
  · right; exact ⟨c', by rw [hB]; simp, hpre⟩
  · -- pre ends inside A: A = pre ++ a', g ++ post = a' ++ B
    rw [List.append_eq_append_iff] at hgp
    rcases hgp with ⟨c'', hg, hB⟩ | ⟨a'', ha', hpost⟩
    · -- a' = g ++ c''
      left; exact ⟨c'', by rw [hA, hg]; simp, hB⟩
    · -- g = a' ++ a'', B = a'' ++ post
      cases a' with
      | nil =>
        right
        refine ⟨[], ?_, by simpa using hA.symm⟩
        simp only [List.nil_append] at ha' ⊢
        rw [hpost, ha']
      | cons a0 at' =>
        cases a'' with
        | nil =>
          left
          refine ⟨[], ?_, by simpa using hpost.symm⟩
          rw [hA, ha']; simp
        | cons p ct =>
          exfalso
          have hcon' : Consec (pre ++ (a0 :: at') ++ gap ++ p :: (ct ++ post)) := by
            rw [hA, hpost] at hcon
            simpa [List.append_assoc] using hcon
          obtain ⟨l, hl, _, j1, j2⟩ := jump_after pre (a0 :: at') gap p (ct ++ post) hcon' (by simp) hg1 hg2
          exact j2 (hL (a0 :: at') p ct ha' l hl)

/-! ### locating a run in the chain of units -/

theorem continues_no_pusi (c : Nat) (r : List Packet) (h : Continues c r) :
    ∀ p ∈ r, p.header.payloadUnitStartIndicator = false := by
  induction r generalizing c with
  | nil => intro p hp; cases hp
  | cons q t ih =>
    intro p hp
    rcases List.mem_cons.mp hp with rfl | hp
    · exact h.2.1
    · exact ih _ h.2.2.2 p hp

theorem good_tail_no_pusi (z c : List Packet) (hz : z ≠ []) (h : Good (z ++ c)) :
    ∀ p ∈ c, p.header.payloadUnitStartIndicator = false := by
  cases z with
  | nil => exact absurd rfl hz
  | cons x t =>
    intro p hp
    exact continues_no_pusi _ _ h.2 p (by simp [hp])

theorem good_no_pusi_tail (p : Packet) (r : List Packet) (h : Good (p :: r)) :
    ∀ q ∈ r, q.header.payloadUnitStartIndicator = false := continues_no_pusi _ _ h.2

/-- a run inside the packet sequence of a chain of units lies inside ONE unit -/
theorem run_in_unit (us : List UnitPk) (hu : ∀ u ∈ us, UnitOK u) (pre g post : List Packet)
    (hs : us.flatMap UnitPk.packets = pre ++ g ++ post) (hne : g ≠ []) (hg : Good g) :
    ∃ U1 u U2 x z', us = U1 ++ u :: U2 ∧ pre = U1.flatMap UnitPk.packets ++ x ∧ u.packets = x ++ g ++ z' ∧
      post = z' ++ U2.flatMap UnitPk.packets := by
  obtain ⟨U1, u, U2, x, z, e1, e2, e3, e4, e5⟩ := split_prefix us pre (g ++ post) (by simpa [List.append_assoc] using hs)
    (by simp [hne])
  rw [List.append_eq_append_iff] at e5
  rcases e5 with ⟨a', hz, hpost⟩ | ⟨c', hgz, hU2⟩
  · exact ⟨U1, u, U2, x, a', e1, e2, by rw [e3, hz]; simp, hpost⟩
  · cases c' with
    | nil =>
      refine ⟨U1, u, U2, x, [], e1, e2, ?_, by simpa using hU2.symm⟩
      rw [e3]; simp at hgz; rw [hgz]; simp
    | cons p ct =>
      exfalso
      -- `p` is the first packet of the next unit: a unit start inside the run
      cases U2 with
      | nil => simp at hU2
      | cons v U2' =>
        have hv : p = v.first := by
          simp only [List.flatMap_cons, UnitPk.packets, List.cons_append, List.cons.injEq] at hU2
          exact hU2.1.symm
        have hvok : UnitOK v := hu v (by rw [e1]; simp)
        have := good_tail_no_pusi z (p :: ct) e4 (hgz ▸ hg) p (by simp)
        rw [hv, hvok.2.1] at this
        cases this

/-- a unit start inside the packet sequence of a chain stands at a unit boundary -/
theorem start_at_boundary (us : List UnitPk) (hu : ∀ u ∈ us, UnitOK u) (pre : List Packet) (p' : Packet) (post : List Packet)
    (hs : us.flatMap UnitPk.packets = pre ++ p' :: post) (hp : p'.header.payloadUnitStartIndicator = true) :
    ∃ U1 u U2, us = U1 ++ u :: U2 ∧ pre = U1.flatMap UnitPk.packets ∧ u.first = p' := by
  obtain ⟨U1, u, U2, x, z, e1, e2, e3, e4, e5⟩ := split_prefix us pre (p' :: post) hs (by simp)
  cases z with
  | nil => exact absurd rfl e4
  | cons z0 zt =>
    have hz0 : p' = z0 := by
      simp only [List.cons_append, List.cons.injEq] at e5; exact e5.1
    subst hz0
    cases x with
    | nil =>
      refine ⟨U1, u, U2, e1, by simpa using e2, ?_⟩
      simp only [UnitPk.packets, List.nil_append, List.cons.injEq] at e3
      exact e3.1
    | cons x0 xt =>
      exfalso
      have huok : UnitOK u := hu u (by rw [e1]; simp)
      have : p' ∈ u.rest := by
        simp only [UnitPk.packets, List.cons_append, List.cons.injEq] at e3
        rw [e3.2]; simp
      have := continues_no_pusi _ _ huok.2.2 p' this
      rw [hp] at this
      cases this

/-! ### PAT / PMT units -/

/-- a PSI unit as packets: `a` the packets before the completing packet, `pk` the packet that carries the last section
byte, `b` the stuffing-only packets after it (normally none) -/
structure TU where
  u : UnitPk
  a : List Packet
  pk : Packet
  b : List Packet

/-- well-formed table unit: the hypotheses of `C02.table_unit_flushed` (unit layout pointer_field / filler / sections /
0xff stuffing, conformant cut points), without any bound on the stuffing tail -/
structure TU.OK (t : TU) : Prop where
  unit : UnitOK t.u
  split : t.u.packets = t.a ++ [t.pk] ++ t.b
  layout : ∃ ptr filler secs stuffing, UnitLayout (concatPayload t.u.packets) ptr filler secs stuffing ∧
    (concatPayload t.a).length < 1 + ptr + secs.flatten.length ∧
    1 + ptr + secs.flatten.length ≤ (concatPayload (t.a ++ [t.pk])).length ∧ ConformantCut t.a ptr secs

theorem take_snoc_mid {α} (a : List α) (p : α) (b : List α) : (a ++ [p] ++ b).take (a.length + 1) = a ++ [p] := by
  have : a.length + 1 = (a ++ [p]).length := by simp
  rw [this, List.take_left]

theorem concat_take_le (l : List Packet) (i : Nat) : (concatPayload (l.take i)).length ≤ (concatPayload l).length := by
  conv => rhs; rw [← List.take_append_drop i l, concatPayload_append]
  simp

theorem concat_take_mono (l : List Packet) (i j : Nat) (h : i ≤ j) :
    (concatPayload (l.take i)).length ≤ (concatPayload (l.take j)).length := by
  have : l.take i = (l.take j).take i := by rw [List.take_take, Nat.min_eq_left h]
  rw [this]; exact concat_take_le _ _

/-- prefixes of a table unit: incomplete up to `a`, complete from the completing packet on -/
theorem TU.OK.prefixes {t : TU} (h : t.OK) (n : Nat) (hn : 0 < n) :
    isPSIComplete (t.u.packets.take n) = decide (t.a.length < n) := by
  obtain ⟨ptr, filler, secs, stuffing, L, hbefore, hat, hcut⟩ := h.layout
  have hU : concatPayload t.u.packets = concatPayload (t.u.packets.take n ++ t.u.packets.drop n) := by
    rw [List.take_append_drop]
  have hcg := complete_group L _ _ hU
  by_cases hlt : t.a.length < n
  · simp only [hlt, decide_true]
    apply hcg.mpr
    left
    have : t.a ++ [t.pk] = t.u.packets.take (t.a.length + 1) := by
      rw [h.split, take_snoc_mid]
    rw [this] at hat
    exact Nat.le_trans hat (concat_take_mono _ _ _ hlt)
  · simp only [hlt, decide_false]
    cases hc : isPSIComplete (t.u.packets.take n) with
    | false => rfl
    | true =>
      have hta : t.u.packets.take n = t.a.take n := by
        rw [h.split, List.append_assoc, List.take_append_of_le_length (by omega)]
      rcases hcg.mp hc with h1 | ⟨k, hk, hkl, h1⟩
      · rw [hta] at h1
        have := concat_take_le t.a n
        omega
      · rw [hta] at h1
        exact absurd h1 (hcut n hn (by omega) k hk hkl)

theorem TU.OK.len {t : TU} (h : t.OK) : t.a.length + 1 ≤ t.u.packets.length := by
  rw [h.split]; simp

theorem take_prefix (x g z : List Packet) : (x ++ g ++ z).take (x ++ g).length = x ++ g := by
  rw [List.append_assoc x g z, ← List.append_assoc, List.take_left]

/-- a group that starts with the unit's first packet and looks complete while none of its proper prefixes does is the
unit as far as its completing packet -/
theorem TU.OK.early_is_whole {t : TU} (h : t.OK) (g z : List Packet) (hne : g ≠ []) (hs : t.u.packets = g ++ z)
    (hc : isPSIComplete g = true) (hp : ProperPrefInc g) : g = t.a ++ [t.pk] := by
  have hg : g = t.u.packets.take g.length := by rw [hs, List.take_left]
  have hpos : 0 < g.length := List.length_pos_iff.mpr hne
  have h1 : t.a.length < g.length := by
    rw [hg, h.prefixes _ hpos] at hc
    simpa using hc
  have h2 : ¬ (t.a.length + 1 < g.length) := by
    intro hlt
    have := hp t.a.length hlt
    have e : g.take (t.a.length + 1) = t.u.packets.take (t.a.length + 1) := by
      rw [hs, List.take_append_of_le_length (by omega)]
    rw [e, h.prefixes _ (by omega)] at this
    simp at this
  have hl : g.length = t.a.length + 1 := by omega
  rw [hg, hl, h.split, take_snoc_mid]

/-- a group that starts with the unit's first packet and none of whose prefixes looks complete ends before the completing
packet -/
theorem TU.OK.inc_is_head {t : TU} (h : t.OK) (g z : List Packet) (hne : g ≠ []) (hs : t.u.packets = g ++ z)
    (hp : PrefInc g) : g.length ≤ t.a.length := by
  have hpos : 0 < g.length := List.length_pos_iff.mpr hne
  have := hp (g.length - 1) (by omega)
  have e : g.take (g.length - 1 + 1) = t.u.packets.take g.length := by
    rw [hs, List.take_left]
    have : g.length - 1 + 1 = g.length := by omega
    rw [this, List.take_length]
  rw [e, h.prefixes _ hpos] at this
  simpa using this

/-! ### one gap in a chain of PAT / PMT units -/

/-- a contiguous part of the packets of unit `v` that does not contain its first packet -/
def Fragment (v : UnitPk) (f : List Packet) : Prop := ∃ x z, x ≠ [] ∧ v.packets = x ++ f ++ z

theorem Fragment.no_pusi {v : UnitPk} {f : List Packet} (hv : UnitOK v) (h : Fragment v f) :
    ∀ p ∈ f, p.header.payloadUnitStartIndicator = false := by
  obtain ⟨x, z, hx, e⟩ := h
  cases x with
  | nil => exact absurd rfl hx
  | cons x0 xt =>
    intro p hp
    have : p ∈ v.rest := by
      simp only [UnitPk.packets, List.cons_append, List.cons.injEq] at e
      rw [e.2]; simp [hp]
    exact continues_no_pusi _ _ hv.2.2 p this

/-- the lossy stream is a valid input of the generic invariant: no packet repeats its predecessor's counter -/
theorem lossy_streamOK (A gap B : List Packet) (hcon : Consec (A ++ gap ++ B)) (hg1 : 1 ≤ gap.length) (hg2 : gap.length ≤ 14) :
    StreamOK [] (A ++ B) := by
  intro pre p post e
  have hplain : PlainPayload p := by
    apply consec_plain _ hcon p
    have : p ∈ A ++ B := by rw [e]; simp
    rcases List.mem_append.mp this with h | h
    · simp [h]
    · simp [h]
  refine ⟨hplain, ?_⟩
  intro l hl
  simp only [List.nil_append] at hl
  have jump : ∀ post', B = p :: post' → pre = A → p.header.continuityCounter ≠ l := by
    intro post' hB hpre
    subst hpre
    have hne : pre ≠ [] := by intro h; rw [h] at hl; simp [lastCC] at hl
    have hcon' : Consec ([] ++ pre ++ gap ++ p :: post') := by rw [hB] at hcon; simpa using hcon
    obtain ⟨l', hl', _, j1, _⟩ := jump_after [] pre gap p post' hcon' hne hg1 hg2
    rw [hl] at hl'
    have : l = l' := by simpa using hl'
    rw [this]; exact j1
  have adj : ∀ pre' post', A ++ gap ++ B = pre' ++ p :: post' → lastCC pre' = some l → p.header.continuityCounter ≠ l := by
    intro pre' post' e' hl'
    rw [e'] at hcon
    obtain ⟨h1, h2, _⟩ := consec_adj pre' p post' hcon l hl'
    omega
  rw [List.append_eq_append_iff] at e
  rcases e with ⟨c', hpre, hB⟩ | ⟨a', hA, hp⟩
  · cases c' with
    | nil => exact jump post (by simpa using hB) (by simpa using hpre)
    | cons c0 ct =>
      refine adj (A ++ gap ++ (c0 :: ct)) post (by rw [hB]; simp) ?_
      rw [lastCC_of_suffix _ _ (by simp)]
      rw [hpre, lastCC_of_suffix _ _ (by simp)] at hl
      exact hl
  · cases a' with
    | nil => exact jump post (by simpa using hp.symm) (by simpa using hA.symm)
    | cons a0 at' =>
      have : a0 = p ∧ at' ++ B = post := by simpa using hp.symm
      obtain ⟨rfl, hpost⟩ := this
      exact adj pre (at' ++ gap ++ B) (by rw [hA]; simp) hl

theorem mem_units (ts : List TU) (u : UnitPk) (h : u ∈ ts.map (·.u)) : ∃ t ∈ ts, t.u = u := by
  obtain ⟨t, ht, e⟩ := List.mem_map.mp h
  exact ⟨t, ht, e⟩

/-- **(L1, table PIDs) never a splice.**  `ts` is a chain of well-formed PAT/PMT units (conformant cut points) of a table
PID with counters running on, `A ++ gap ++ B` its packet sequence; the `gap` (1..14 packets) is lost and followed by at
least one received packet.  Every non-empty group handed to the unit parser for `A ++ B` — flushed early at a completing
packet, flushed by a unit start, or left in the queue at the end — is
* `t.a ++ [t.pk]` for a unit `t` of the chain: the unit from its first packet to its completing packet (exactly what the
  loss-free run delivers for it), or
* a `Fragment` of ONE unit: a contiguous part of its packets without its first packet (a headless remainder, a piece of
  one, or stuffing-only tail packets).
No group contains packets of two units, nor packets from both sides of the gap; no group that starts with a unit start is
anything but the whole unit: in particular a unit that lost its completing packet (or any packet before it) is never
delivered — its head is discarded at the first packet after the gap (`accAdd_table_jump`).  No hypothesis excludes "false
completes" of headless remainders: they only cut the remainder into several fragments. -/
theorem table_loss_no_splice (pm : ProgramMap) (pid : Nat) (htab : (pid == 0 || pm.has pid) = true) (ts : List TU)
    (hok : ∀ t ∈ ts, t.OK) (hc : ChainOK [] (ts.map (·.u))) (A gap B : List Packet)
    (hs : (ts.map (·.u)).flatMap UnitPk.packets = A ++ gap ++ B) (hg1 : 1 ≤ gap.length) (hg2 : gap.length ≤ 14)
    (hB : B ≠ []) (g : List Packet) (hne : g ≠ [])
    (hmem : g ∈ (accRun pm pid [] (A ++ B)).1 ∨ g = (accRun pm pid [] (A ++ B)).2) :
    (∃ t ∈ ts, g = t.a ++ [t.pk]) ∨ (∃ t ∈ ts, Fragment t.u g) := by
  have hu : ∀ u ∈ ts.map (·.u), UnitOK u := by
    intro u hmu
    obtain ⟨t, ht, rfl⟩ := mem_units ts u hmu
    exact (hok t ht).unit
  have hcon : Consec (A ++ gap ++ B) := by rw [← hs]; exact chain_consec [] _ hc
  have I := accRun_inv pm pid htab (A ++ B) (lossy_streamOK A gap B hcon hg1 hg2)
  -- a run of the received stream is a run of the stream sent
  have toOrig : ∀ (r pre post : List Packet), Linked r → A ++ B = pre ++ r ++ post →
      ∃ pre0 post0, (ts.map (·.u)).flatMap UnitPk.packets = pre0 ++ r ++ post0 ∧ (post = [] → post0 = [] ∨ B = []) := by
    intro r pre post hL e
    rcases linked_not_across A gap B r pre post hcon hg1 hg2 hL e with ⟨post', hA, hpost⟩ | ⟨pre', hB', hpre⟩
    · refine ⟨pre, post' ++ gap ++ B, by rw [hs, hA]; simp, ?_⟩
      intro hp
      rw [hp] at hpost
      right
      have := congrArg List.length hpost
      simp only [List.length_nil, List.length_append] at this
      exact List.eq_nil_of_length_eq_zero (by omega)
    · refine ⟨A ++ gap ++ pre', post, by rw [hs, hB']; simp, ?_⟩
      intro hp; left; exact hp
  -- classification of a run found inside one unit
  have frag : ∀ (u : UnitPk) (x z' : List Packet), u ∈ ts.map (·.u) → x ≠ [] → u.packets = x ++ g ++ z' →
      (∃ t ∈ ts, g = t.a ++ [t.pk]) ∨ (∃ t ∈ ts, Fragment t.u g) := by
    intro u x z' hmu hx e
    obtain ⟨t, ht, rfl⟩ := mem_units ts u hmu
    exact .inr ⟨t, ht, x, z', hx, e⟩
  rcases hmem with hF | hQ
  · obtain ⟨⟨pre, post, e⟩, hgood, hwhy⟩ := I.flushed g hF hne
    cases hwhy with
    | early hcomp hprop =>
      obtain ⟨pre0, post0, e0, _⟩ := toOrig g pre post (Good_linked g hgood) e
      obtain ⟨U1, u, U2, x, z', e1, e2, e3, e4⟩ := run_in_unit _ hu pre0 g post0 e0 hne hgood
      have hmu : u ∈ ts.map (·.u) := by rw [e1]; simp
      cases x with
      | nil =>
        obtain ⟨t, ht, rfl⟩ := mem_units ts u hmu
        exact .inl ⟨t, ht, (hok t ht).early_is_whole g z' hne (by simpa using e3) hcomp hprop⟩
      | cons x0 xt => exact frag u _ z' hmu (by simp) e3
    | byStart pre1 post1 p' l e' hpusi hl hcc hinc =>
      have hL : Linked (g ++ [p']) := Linked_snoc g p' l (Good_linked g hgood) hl hcc
      obtain ⟨pre0, post0, e0, _⟩ := toOrig (g ++ [p']) pre1 post1 hL (by rw [e']; simp)
      have e0' : (ts.map (·.u)).flatMap UnitPk.packets = pre0 ++ g ++ (p' :: post0) := by rw [e0]; simp
      obtain ⟨U1, u, U2, x, z', e1, e2, e3, e4⟩ := run_in_unit _ hu pre0 g (p' :: post0) e0' hne hgood
      have hmu : u ∈ ts.map (·.u) := by rw [e1]; simp
      cases x with
      | cons x0 xt => exact frag u _ z' hmu (by simp) e3
      | nil =>
        exfalso
        obtain ⟨t, ht, rfl⟩ := mem_units ts u hmu
        have e3' : t.u.packets = g ++ z' := by simpa using e3
        have hle := (hok t ht).inc_is_head g z' hne e3' hinc
        have hlen := (hok t ht).len
        have hz : z' ≠ [] := by
          intro hz
          rw [e3', hz] at hlen
          simp at hlen
          omega
        cases z' with
        | nil => exact hz rfl
        | cons z0 zt =>
          have : p' = z0 := by
            simp only [List.cons_append, List.cons.injEq] at e4
            exact e4.1
          subst this
          have hin : p' ∈ t.u.rest := by
            cases g with
            | nil => exact absurd rfl hne
            | cons g0 gt =>
              simp only [UnitPk.packets, List.cons_append, List.cons.injEq] at e3'
              rw [e3'.2]; simp
          have := continues_no_pusi _ _ (hok t ht).unit.2.2 p' hin
          rw [hpusi] at this
          cases this
  · -- the queue left at the end
    subst hQ
    obtain ⟨pre, e⟩ := I.suffix
    obtain ⟨pre0, post0, e0, hpost⟩ := toOrig _ pre [] (Good_linked _ I.good) (by simp only [List.append_nil]; exact e)
    have hp0 : post0 = [] := by
      rcases hpost rfl with h | h
      · exact h
      · exact absurd h hB
    subst hp0
    obtain ⟨U1, u, U2, x, z', e1, e2, e3, e4⟩ := run_in_unit _ hu pre0 _ [] e0 hne I.good
    have hmu : u ∈ ts.map (·.u) := by rw [e1]; simp
    have hz' : z' = [] := by
      have := congrArg List.length e4
      simp only [List.length_nil, List.length_append] at this
      exact List.eq_nil_of_length_eq_zero (by omega)
    subst hz'
    cases x with
    | cons x0 xt => exact frag u _ [] hmu (by simp) e3
    | nil =>
      exfalso
      obtain ⟨t, ht, rfl⟩ := mem_units ts u hmu
      have e3' : t.u.packets = (accRun pm pid [] (A ++ B)).2 ++ [] := by simpa using e3
      have hle := (hok t ht).inc_is_head _ [] hne e3' I.inc
      have hlen := (hok t ht).len
      rw [e3'] at hlen
      simp at hlen
      omega

/-! ### which units survive: every unit the gap does not touch -/

theorem consec_streamOK (s : List Packet) (h : Consec s) : StreamOK [] s := by
  intro pre p post e
  refine ⟨consec_plain s h p (by rw [e]; simp), ?_⟩
  intro l hl
  simp only [List.nil_append] at hl
  rw [e] at h
  obtain ⟨h1, h2, _⟩ := consec_adj pre p post h l hl
  omega

/-- the loss-free run of a chain of table units (stuffing tails of at most 256 bytes) from any queue the first unit start
continues: every unit is flushed from its first to its completing packet -/
theorem tchain_run (pm : ProgramMap) (pid : Nat) (htab : (pid == 0 || pm.has pid) = true) :
    ∀ (ts : List TU) (q : List Packet), (∀ t ∈ ts, t.OK ∧ (concatPayload t.b).length ≤ 256) → ChainOK q (ts.map (·.u)) →
      ∀ t ∈ ts, t.a ++ [t.pk] ∈ (accRun pm pid q ((ts.map (·.u)).flatMap UnitPk.packets)).1 := by
  intro ts
  induction ts with
  | nil => intro q _ _ t ht; cases ht
  | cons t0 r ih =>
    intro q hok hc t ht
    obtain ⟨h0, htail⟩ := hok t0 (by simp)
    obtain ⟨ptr, filler, secs, stuffing, L, hbefore, hat, hcut⟩ := h0.layout
    have hrun := table_unit_run pm pid htab q t0.u h0.unit hc.2.1 t0.a t0.pk t0.b h0.split ptr filler secs stuffing L
      hbefore hat hcut htail
    simp only [List.map_cons, List.flatMap_cons]
    rw [accRun_append, hrun]
    simp only []
    rcases List.mem_cons.mp ht with rfl | ht
    · simp
    · have hc' : ChainOK t0.b (r.map (·.u)) := by
        by_cases hb : t0.b = []
        · rw [hb]; exact ChainOK_nil_queue _ _ hc.2.2
        · have := hc.2.2
          rw [h0.split] at this
          exact ChainOK_suffix _ _ _ this hb
      have := ih t0.b (fun t' ht' => hok t' (by simp [ht'])) hc' t ht
      exact List.mem_append_right _ this

/-- **completeness**: every unit of the chain that lost no packet — the units `T1` before and `T3` after the units `M`
touched by the gap — is delivered, from its first to its completing packet.  Unlike on a PES PID (`loss_one_gap`: the unit
immediately preceding the gap is discarded), the unit that ends right before the gap is NOT lost on a table PID: it was
flushed at its completing packet. -/
theorem table_loss_untouched_delivered (pm : ProgramMap) (pid : Nat) (htab : (pid == 0 || pm.has pid) = true)
    (T1 M T3 : List TU) (hok : ∀ t ∈ T1 ++ M ++ T3, t.OK ∧ (concatPayload t.b).length ≤ 256)
    (hc : ChainOK [] ((T1 ++ M ++ T3).map (·.u))) (x gap y : List Packet)
    (hM : (M.map (·.u)).flatMap UnitPk.packets = x ++ gap ++ y)
    (hlast : ∃ M' v w, M = M' ++ [v] ∧ v.u.packets = w ++ y ∧ w ≠ [])
    (hg1 : 1 ≤ gap.length) (hg2 : gap.length ≤ 14) (hb : y ++ (T3.map (·.u)).flatMap UnitPk.packets ≠ []) :
    ∀ t ∈ T1 ++ T3, t.a ++ [t.pk] ∈
      (accRun pm pid [] (((T1.map (·.u)).flatMap UnitPk.packets ++ x) ++ (y ++ (T3.map (·.u)).flatMap UnitPk.packets))).1 := by
  have hcon : Consec (((T1.map (·.u)).flatMap UnitPk.packets ++ x) ++ gap ++ (y ++ (T3.map (·.u)).flatMap UnitPk.packets)) := by
    have := chain_consec [] _ hc
    simp only [List.map_append, List.flatMap_append, hM] at this
    simpa [List.append_assoc] using this
  obtain ⟨hc12, hc3⟩ := (ChainOK_append [] ((T1 ++ M).map (·.u)) (T3.map (·.u))).mp (by simpa using hc)
  obtain ⟨hc1, _⟩ := (ChainOK_append [] (T1.map (·.u)) (M.map (·.u))).mp (by simpa using hc12)
  generalize hA : (T1.map (·.u)).flatMap UnitPk.packets ++ x = A at *
  generalize hBd : y ++ (T3.map (·.u)).flatMap UnitPk.packets = B at *
  intro t ht
  rw [accRun_append]
  simp only []
  rcases List.mem_append.mp ht with ht1 | ht3
  · -- before the gap
    apply List.mem_append_left
    rw [← hA, accRun_append]
    apply List.mem_append_left
    exact tchain_run pm pid htab T1 [] (fun t' ht' => hok t' (by simp [ht'])) hc1 t ht1
  · -- after the gap: the run restarts from an empty queue
    apply List.mem_append_right
    obtain ⟨p, b0, hB⟩ : ∃ p b0, B = p :: b0 := by
      cases B with
      | nil => exact absurd rfl hb
      | cons p b0 => exact ⟨p, b0, rfl⟩
    have hreset : accRun pm pid (accRun pm pid [] A).2 B = accRun pm pid [] B := by
      by_cases hq : (accRun pm pid [] A).2 = []
      · rw [hq]
      · have IA := accRun_inv pm pid htab A (consec_streamOK A (Consec_append_left A (gap ++ B) (by simpa [List.append_assoc] using hcon)))
        obtain ⟨a0, ha0⟩ := IA.suffix
        have hcon' : Consec (a0 ++ (accRun pm pid [] A).2 ++ gap ++ p :: b0) := by rw [← ha0, ← hB]; exact hcon
        obtain ⟨l, hl, hp, j1, j2⟩ := jump_after a0 _ gap p b0 hcon' hq hg1 hg2
        rw [hB]
        exact accRun_table_jump pm pid _ p b0 l htab hl hp j1 j2
    rw [hreset, ← hBd, accRun_append]
    apply List.mem_append_right
    -- the queue left by the remainder `y` leads to the first unit of `T3`
    obtain ⟨M', v, w, hMv, hv, hw⟩ := hlast
    have hfq : finalQueue [] ((T1 ++ M).map (·.u)) = v.u.packets := by
      rw [hMv]
      have : (T1 ++ (M' ++ [v])).map (·.u) = ((T1 ++ M').map (·.u)) ++ [v.u] := by simp
      rw [this, finalQueue_snoc]
    rw [hfq, hv] at hc3
    have hcy : ChainOK (accRun pm pid [] y).2 (T3.map (·.u)) := by
      by_cases hq : (accRun pm pid [] y).2 = []
      · rw [hq]; exact ChainOK_nil_queue _ _ hc3
      · have hyB : Consec y := by
          have : Consec (y ++ (T3.map (·.u)).flatMap UnitPk.packets) := by
            rw [hBd]
            exact Consec_append_right (A ++ gap) B (by simpa [List.append_assoc] using hcon)
          exact Consec_append_left _ _ this
        have Iy := accRun_inv pm pid htab y (consec_streamOK y hyB)
        obtain ⟨y0, hy0⟩ := Iy.suffix
        have hyne : y ≠ [] := by
          intro h; rw [h] at hq; simp [accRun] at hq
        have h1 := ChainOK_suffix w y _ hc3 hyne
        rw [hy0] at h1
        exact ChainOK_suffix y0 _ _ h1 hq
    exact tchain_run pm pid htab T3 _ (fun t' ht' => hok t' (by simp [ht'])) hcy t ht3

end Astits.LossTable
