/-
Fuel audit of the PARSER loops (Astits/Model/PSI.lean, Astits/Model/Desc.lean, `psiCompleteLoop` of
Astits/Model/Demux.lean).

The model turns every Go `for i.Offset() < end { … }` loop into a function that is structurally recursive on a fuel
argument; its `0` branch (`P.fail`, resp. `pure false` for `psiCompleteLoop`) is an outcome the Go code does not
have.  This development proves that the `0` branch is NEVER reached with the fuel the callers pass
(`len(slice) + 1`), from ANY iterator state (any bytes, any offset, malformed input included):

* ParserFuel/Core.lean  — the generic fuel-recursive loop `iter`, its exhaustion-reporting twin `iterX` (fourth
  outcome `XRes.exhausted` in the `0` branch, nowhere else), the progress property `ProgStep`, and the theorems
  `iterX_not_exhausted`, `iter_fuel_irrelevant`, `iter_runs` (fuel-free big-step semantics `IterRuns`).
* ParserFuel/Desc.lean, PSI.lean, Demux.lean — every loop of the model IS `iter` (for every fuel), every loop
  step has the progress property, and exhaustion-reporting variants `…X` of all parsers that contain loops
  (nested loops included) never report exhaustion and coincide with the model's parsers.

This file collects the per-loop statements in the form: for every fuel above the remaining bytes,
(a) the result is the result with fuel `rem i + 1` (fuel irrelevance), (b) the exhaustion-reporting loop is not
exhausted and equals the model's loop, (c) the result is the one of the fuel-free big-step semantics.
`rem i ≤ i.bs.length` (`rem_le`), so the callers' fuel `i.bs.length + 1` is always above the bound.
-/
import Astits.Proofs.ParserFuel.Core
import Astits.Proofs.ParserFuel.Desc
import Astits.Proofs.ParserFuel.PSI
import Astits.Proofs.ParserFuel.Demux
namespace Astits.ParserFuel

/-- the callers' fuel is above the bound, from any state -/
theorem caller_fuel_suffices (i : It) : rem i < i.bs.length + 1 := by have := rem_le i; omega

/-- a run that is not exhausted is the model's run -/
theorem eq_ofRes_of_ne {α} {x : PX α} {p : P α} (he : erase x = p) {i : It} (h : x i ≠ .exhausted) :
    x i = .ofRes (p i) := by
  rw [← he]; exact XRes.eq_ofRes_toRes h

/-! ### generic statement for the model's `for` loops -/

section ForLoops
variable {α β : Type} {L : Nat → P β} {e : Int} {body : P α} {nil : β} {fin : α → β → β}

/-- (a) fuel irrelevance above the remaining bytes -/
theorem for_fuel_irrelevant (hL : ∀ n, L n = iter P.fail (forStep e body nil) fin n) (hp : Rd body 1)
    (n : Nat) (i : It) (h : rem i < n) : L n i = L (rem i + 1) i := by
  rw [hL, hL]; exact iter_fuel_irrelevant _ _ (ProgStep.forStep e nil hp) n i h

/-- (c) the loop computes the fuel-free big-step semantics of `for i.Offset() < e { a := body(); … }` -/
theorem for_runs (hL : ∀ n, L n = iter P.fail (forStep e body nil) fin n) (hp : Rd body 1)
    (n : Nat) (i : It) (h : rem i < n) : IterRuns (forStep e body nil) fin i (L n i) := by
  rw [hL]; exact iter_runs _ _ (ProgStep.forStep e nil hp) n i h
end ForLoops

/-! ### `loopUntil` (PAT programme loop, PMT stream loop, SDT service loop, EIT event loop, NIT transport stream
loop): any body that begins with a successful read and does not move backwards -/

theorem loopUntil_fuel_irrelevant {α} (e : Int) {body : P α} (hp : Rd body 1) (n : Nat) (i : It) (h : rem i < n) :
    loopUntil n e body i = loopUntil (rem i + 1) e body i :=
  for_fuel_irrelevant (L := fun n => loopUntil n e body) (fun n => loopUntil_eq n e body) hp n i h

theorem loopUntil_runs {α} (e : Int) {body : P α} (hp : Rd body 1) (n : Nat) (i : It) (h : rem i < n) :
    IterRuns (forStep e body []) List.cons i (loopUntil n e body i) :=
  for_runs (L := fun n => loopUntil n e body) (fun n => loopUntil_eq n e body) hp n i h

theorem loopUntilX_eq {α} (e : Int) {body : PX α} (hn : NX body) (hp : Rd (erase body) 1) (n : Nat) (i : It)
    (h : rem i < n) : loopUntilX n e body i = .ofRes (loopUntil n e (erase body) i) :=
  eq_ofRes_of_ne (erase_loopUntilX n e body) (loopUntilX_not_exhausted e hn hp n i h)

/-- the five bodies used by the table parsers have the progress property -/
theorem table_loop_bodies_progress :
    Rd patBody 1 ∧ Rd pmtBody 1 ∧ Rd sdtBody 1 ∧ Rd nitBody 1 ∧ Rd eitBody 1 :=
  ⟨Rd_patBody, Rd_pmtBody, Rd_sdtBody, Rd_nitBody, Rd_eitBody⟩

/-! ### `parsePSISections` -/

theorem parsePSISections_fuel_irrelevant (n : Nat) (i : It) (h : rem i < n) :
    parsePSISections n i = parsePSISections (rem i + 1) i := by
  rw [parsePSISections_eq, parsePSISections_eq]
  exact iter_fuel_irrelevant _ _ ProgStep_sectionsStep n i h

theorem parsePSISections_runs (n : Nat) (i : It) (h : rem i < n) :
    IterRuns sectionsStep List.cons i (parsePSISections n i) := by
  rw [parsePSISections_eq]; exact iter_runs _ _ ProgStep_sectionsStep n i h

theorem parsePSISectionsX_eq (n : Nat) (i : It) (h : rem i < n) :
    parsePSISectionsX n i = .ofRes (parsePSISections n i) :=
  eq_ofRes_of_ne (erase_parsePSISectionsX n) (parsePSISectionsX_not_exhausted n i h)

/-! ### `parseDescriptorsLoop` -/

theorem parseDescriptorsLoop_fuel_irrelevant (e : Int) (n : Nat) (i : It) (h : rem i < n) :
    parseDescriptorsLoop e n i = parseDescriptorsLoop e (rem i + 1) i :=
  for_fuel_irrelevant (descriptorsLoop_eq e) Rd_parseDescriptor n i h

theorem parseDescriptorsLoop_runs (e : Int) (n : Nat) (i : It) (h : rem i < n) :
    IterRuns (forStep e parseDescriptor []) List.cons i (parseDescriptorsLoop e n i) :=
  for_runs (descriptorsLoop_eq e) Rd_parseDescriptor n i h

theorem parseDescriptorsLoopX_eq (e : Int) (n : Nat) (i : It) (h : rem i < n) :
    parseDescriptorsLoopX e n i = .ofRes (parseDescriptorsLoop e n i) :=
  eq_ofRes_of_ne (erase_parseDescriptorsLoopX e n) (parseDescriptorsLoopX_not_exhausted e n i h)

/-! ### the eight loops inside descriptor bodies -/

theorem contentLoop_fuel_irrelevant (e : Int) (n : Nat) (i : It) (h : rem i < n) :
    newDescriptorContentLoop e n i = newDescriptorContentLoop e (rem i + 1) i :=
  for_fuel_irrelevant (contentLoop_eq e) Rd_contentBody n i h
theorem contentLoop_runs (e : Int) (n : Nat) (i : It) (h : rem i < n) :
    IterRuns (forStep e contentBody []) List.cons i (newDescriptorContentLoop e n i) :=
  for_runs (contentLoop_eq e) Rd_contentBody n i h
theorem contentLoopX_eq (e : Int) (n : Nat) (i : It) (h : rem i < n) :
    newDescriptorContentLoopX e n i = .ofRes (newDescriptorContentLoop e n i) :=
  eq_ofRes_of_ne (erase_contentLoopX e n) (contentLoopX_not_exhausted e n i h)

theorem extendedEventLoop_fuel_irrelevant (e : Int) (n : Nat) (i : It) (h : rem i < n) :
    newDescriptorExtendedEventLoop e n i = newDescriptorExtendedEventLoop e (rem i + 1) i :=
  for_fuel_irrelevant (extendedEventLoop_eq e) Rd_extendedEventItem n i h
theorem extendedEventLoop_runs (e : Int) (n : Nat) (i : It) (h : rem i < n) :
    IterRuns (forStep e newDescriptorExtendedEventItem []) List.cons i (newDescriptorExtendedEventLoop e n i) :=
  for_runs (extendedEventLoop_eq e) Rd_extendedEventItem n i h
theorem extendedEventLoopX_eq (e : Int) (n : Nat) (i : It) (h : rem i < n) :
    newDescriptorExtendedEventLoopX e n i = .ofRes (newDescriptorExtendedEventLoop e n i) :=
  eq_ofRes_of_ne (erase_extendedEventLoopX e n) (extendedEventLoopX_not_exhausted e n i h)

theorem localTimeOffsetLoop_fuel_irrelevant (e : Int) (n : Nat) (i : It) (h : rem i < n) :
    newDescriptorLocalTimeOffsetLoop e n i = newDescriptorLocalTimeOffsetLoop e (rem i + 1) i :=
  for_fuel_irrelevant (localTimeOffsetLoop_eq e) Rd_localTimeOffsetBody n i h
theorem localTimeOffsetLoop_runs (e : Int) (n : Nat) (i : It) (h : rem i < n) :
    IterRuns (forStep e localTimeOffsetBody []) List.cons i (newDescriptorLocalTimeOffsetLoop e n i) :=
  for_runs (localTimeOffsetLoop_eq e) Rd_localTimeOffsetBody n i h
theorem localTimeOffsetLoopX_eq (e : Int) (n : Nat) (i : It) (h : rem i < n) :
    newDescriptorLocalTimeOffsetLoopX e n i = .ofRes (newDescriptorLocalTimeOffsetLoop e n i) :=
  eq_ofRes_of_ne (erase_localTimeOffsetLoopX e n) (localTimeOffsetLoopX_not_exhausted e n i h)

theorem parentalRatingLoop_fuel_irrelevant (e : Int) (n : Nat) (i : It) (h : rem i < n) :
    newDescriptorParentalRatingLoop e n i = newDescriptorParentalRatingLoop e (rem i + 1) i :=
  for_fuel_irrelevant (parentalRatingLoop_eq e) Rd_parentalRatingBody n i h
theorem parentalRatingLoop_runs (e : Int) (n : Nat) (i : It) (h : rem i < n) :
    IterRuns (forStep e parentalRatingBody []) List.cons i (newDescriptorParentalRatingLoop e n i) :=
  for_runs (parentalRatingLoop_eq e) Rd_parentalRatingBody n i h
theorem parentalRatingLoopX_eq (e : Int) (n : Nat) (i : It) (h : rem i < n) :
    newDescriptorParentalRatingLoopX e n i = .ofRes (newDescriptorParentalRatingLoop e n i) :=
  eq_ofRes_of_ne (erase_parentalRatingLoopX e n) (parentalRatingLoopX_not_exhausted e n i h)

theorem subtitlingLoop_fuel_irrelevant (e : Int) (n : Nat) (i : It) (h : rem i < n) :
    newDescriptorSubtitlingLoop e n i = newDescriptorSubtitlingLoop e (rem i + 1) i :=
  for_fuel_irrelevant (subtitlingLoop_eq e) Rd_subtitlingBody n i h
theorem subtitlingLoop_runs (e : Int) (n : Nat) (i : It) (h : rem i < n) :
    IterRuns (forStep e subtitlingBody []) List.cons i (newDescriptorSubtitlingLoop e n i) :=
  for_runs (subtitlingLoop_eq e) Rd_subtitlingBody n i h
theorem subtitlingLoopX_eq (e : Int) (n : Nat) (i : It) (h : rem i < n) :
    newDescriptorSubtitlingLoopX e n i = .ofRes (newDescriptorSubtitlingLoop e n i) :=
  eq_ofRes_of_ne (erase_subtitlingLoopX e n) (subtitlingLoopX_not_exhausted e n i h)

theorem teletextLoop_fuel_irrelevant (e : Int) (n : Nat) (i : It) (h : rem i < n) :
    newDescriptorTeletextLoop e n i = newDescriptorTeletextLoop e (rem i + 1) i :=
  for_fuel_irrelevant (teletextLoop_eq e) Rd_teletextBody n i h
theorem teletextLoop_runs (e : Int) (n : Nat) (i : It) (h : rem i < n) :
    IterRuns (forStep e teletextBody []) List.cons i (newDescriptorTeletextLoop e n i) :=
  for_runs (teletextLoop_eq e) Rd_teletextBody n i h
theorem teletextLoopX_eq (e : Int) (n : Nat) (i : It) (h : rem i < n) :
    newDescriptorTeletextLoopX e n i = .ofRes (newDescriptorTeletextLoop e n i) :=
  eq_ofRes_of_ne (erase_teletextLoopX e n) (teletextLoopX_not_exhausted e n i h)

theorem vbiDataDescLoop_fuel_irrelevant (id : Nat) (e : Int) (n : Nat) (i : It) (h : rem i < n) :
    newDescriptorVBIDataDescLoop id e n i = newDescriptorVBIDataDescLoop id e (rem i + 1) i :=
  for_fuel_irrelevant (vbiDataDescLoop_eq id e) Rd.nextByte n i h
theorem vbiDataDescLoop_runs (id : Nat) (e : Int) (n : Nat) (i : It) (h : rem i < n) :
    IterRuns (forStep e It.nextByte []) (vbiDescFin id) i (newDescriptorVBIDataDescLoop id e n i) :=
  for_runs (vbiDataDescLoop_eq id e) Rd.nextByte n i h
theorem vbiDataDescLoopX_eq (id : Nat) (e : Int) (n : Nat) (i : It) (h : rem i < n) :
    newDescriptorVBIDataDescLoopX id e n i = .ofRes (newDescriptorVBIDataDescLoop id e n i) :=
  eq_ofRes_of_ne (erase_vbiDataDescLoopX id e n) (vbiDataDescLoopX_not_exhausted id e n i h)

theorem vbiDataLoop_fuel_irrelevant (e : Int) (n : Nat) (i : It) (h : rem i < n) :
    newDescriptorVBIDataLoop e n i = newDescriptorVBIDataLoop e (rem i + 1) i :=
  for_fuel_irrelevant (vbiDataLoop_eq e) Rd_vbiDataBody n i h
theorem vbiDataLoop_runs (e : Int) (n : Nat) (i : It) (h : rem i < n) :
    IterRuns (forStep e vbiDataBody []) List.cons i (newDescriptorVBIDataLoop e n i) :=
  for_runs (vbiDataLoop_eq e) Rd_vbiDataBody n i h
theorem vbiDataLoopX_eq (e : Int) (n : Nat) (i : It) (h : rem i < n) :
    newDescriptorVBIDataLoopX e n i = .ofRes (newDescriptorVBIDataLoop e n i) :=
  eq_ofRes_of_ne (erase_vbiDataLoopX e n) (vbiDataLoopX_not_exhausted e n i h)

/-! ### `psiCompleteLoop` (see Demux.lean: `psiCompleteLoop_fuel_irrelevant`, `psiCompleteLoopX_eq`) -/

theorem psiCompleteLoop_runs (n : Nat) (i : It) (h : rem i < n) :
    IterRuns psiCompleteStep (fun _ r => r) i (psiCompleteLoop n i) := by
  rw [psiCompleteLoop_eq]; exact iter_runs _ _ ProgStep_psiCompleteStep n i h

/-! ### the exhaustion-reporting loop does report exhaustion when the fuel is too small (the fourth outcome is
not vacuous), and the model then answers with its `0` branch -/

/-- three PAT programmes need four units of fuel (three iterations and the final test) -/
def threeProgrammes : It := ⟨[0, 1, 0xe0, 0x20, 0, 2, 0xe0, 0x21, 0, 3, 0xe0, 0x22], 0⟩

example : (loopUntilX 3 12 (lift patBody) threeProgrammes).isExhausted = true := by decide +kernel
example : (loopUntil 3 12 patBody threeProgrammes).isOk = false := by decide +kernel
example : (loopUntilX 4 12 (lift patBody) threeProgrammes).isOk = true := by decide +kernel
example : (loopUntil 4 12 patBody threeProgrammes).isOk = true := by decide +kernel
example : rem threeProgrammes = 12 := by decide +kernel

end Astits.ParserFuel
