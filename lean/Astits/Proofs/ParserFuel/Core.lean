/-
Fuel audit of the parser loops, part 1: generic machinery.

* `P` is a lawful monad (so `do` blocks can be re-associated).
* `XRes` / `PX`: results and parsers with a fourth outcome `exhausted` ("the `0` branch of a fuel-recursive loop
  was reached"); `erase : PX α → P α` forgets the distinction in the way the model does (`P.fail`).
* `iter` / `iterX`: THE fuel-recursive loop, in `P` and in `PX`.  Every loop of the model is proved equal to an
  instance of `iter` for every fuel (Desc.lean / PSI.lean of this directory).
* Generic theorems: a loop whose step makes progress (`ProgStep`) is never exhausted with more fuel than there are
  remaining bytes (`iterX_not_exhausted`), its result does not depend on the fuel above that bound
  (`iter_fuel_irrelevant`), and it computes the fuel-free big-step semantics `IterRuns` (`iter_runs`).
* A partial-correctness logic for `P` (`Keeps`, `Adv`, `Rd`) with a tactic, used for the progress lemmas.
-/
import Astits.Basic
namespace Astits.ParserFuel

/-! ### `P` is a lawful monad -/

theorem P.ext {α} {x y : P α} (h : ∀ i, x i = y i) : x = y := funext h

instance : LawfulMonad P := LawfulMonad.mk'
  (id_map := by
    intro α x; apply P.ext; intro i
    show (x >>= fun a => pure (id a)) i = x i
    rw [P.bind_run]; cases x i with
    | ok v => rfl
    | err _ => rfl
    | panic => rfl)
  (pure_bind := by intro α β a f; rfl)
  (bind_assoc := by
    intro α β γ x f g; apply P.ext; intro i
    simp only [P.bind_run]
    cases x i with
    | ok v => rfl
    | err _ => rfl
    | panic => rfl)

theorem ite_bind {m} [Monad m] {α β} (c : Prop) [Decidable c] (x y : m α) (f : α → m β) :
    (if c then x else y) >>= f = if c then x >>= f else y >>= f := by
  split <;> rfl

theorem bind_ok_inv {α β} {x : P α} {f : α → P β} {i : It} {r : β × It} (h : (x >>= f) i = .ok r) :
    ∃ a i1, x i = .ok (a, i1) ∧ f a i1 = .ok r := by
  rw [P.bind_run] at h
  cases e : x i with
  | ok v => obtain ⟨a, i1⟩ := v; rw [e] at h; exact ⟨a, i1, rfl, h⟩
  | err _ => rw [e] at h; cases h
  | panic => rw [e] at h; cases h

theorem bind_of_ok {α β} {x : P α} {f : α → P β} {i i1 : It} {a : α} (h : x i = .ok (a, i1)) :
    (x >>= f) i = f a i1 := by rw [P.bind_run, h]
theorem bind_of_err {α β} {x : P α} {f : α → P β} {i : It} {e : Err} (h : x i = .err e) :
    (x >>= f) i = .err e := by rw [P.bind_run, h]
theorem bind_of_panic {α β} {x : P α} {f : α → P β} {i : It} (h : x i = .panic) :
    (x >>= f) i = .panic := by rw [P.bind_run, h]

/-! ### results with a fourth outcome: fuel exhausted -/

inductive XRes (α : Type) where
  | ok : α → XRes α
  | err : Err → XRes α
  | panic : XRes α
  /-- the `0` branch of a fuel-recursive loop was reached -/
  | exhausted : XRes α

def XRes.ofRes {α} : Res α → XRes α
  | .ok a => .ok a
  | .err e => .err e
  | .panic => .panic

/-- what the model makes of the four outcomes: its `0` branches are `P.fail`, i.e. `.err .other` -/
def XRes.toRes {α} : XRes α → Res α
  | .ok a => .ok a
  | .err e => .err e
  | .panic => .panic
  | .exhausted => .err .other

def XRes.isExhausted {α} : XRes α → Bool
  | .exhausted => true
  | _ => false

def XRes.isOk {α} : XRes α → Bool
  | .ok _ => true
  | _ => false

@[simp] theorem XRes.toRes_ofRes {α} (r : Res α) : (XRes.ofRes r).toRes = r := by cases r <;> rfl
theorem XRes.ofRes_ne_exhausted {α} (r : Res α) : XRes.ofRes r ≠ .exhausted := by cases r <;> simp [XRes.ofRes]
theorem XRes.eq_ofRes_toRes {α} {x : XRes α} (h : x ≠ .exhausted) : x = .ofRes x.toRes := by
  cases x <;> first | rfl | exact absurd rfl h

/-- parsers that report fuel exhaustion -/
def PX (α : Type) := It → XRes (α × It)

instance : Monad PX where
  pure a := fun i => .ok (a, i)
  bind x f := fun i => match x i with
    | .ok (a, i') => f a i'
    | .err e => .err e
    | .panic => .panic
    | .exhausted => .exhausted

theorem PX.bind_run {α β} (x : PX α) (f : α → PX β) (i : It) :
    (x >>= f) i = match x i with
      | .ok (a, i') => f a i'
      | .err e => .err e
      | .panic => .panic
      | .exhausted => .exhausted := rfl
@[simp] theorem PX.pure_run {α} (a : α) (i : It) : (pure a : PX α) i = .ok (a, i) := rfl

theorem PX.ext {α} {x y : PX α} (h : ∀ i, x i = y i) : x = y := funext h

instance : LawfulMonad PX := LawfulMonad.mk'
  (id_map := by
    intro α x; apply PX.ext; intro i
    show (x >>= fun a => pure (id a)) i = x i
    rw [PX.bind_run]; cases x i with
    | ok v => rfl
    | err _ => rfl
    | panic => rfl
    | exhausted => rfl)
  (pure_bind := by intro α β a f; rfl)
  (bind_assoc := by
    intro α β γ x f g; apply PX.ext; intro i
    simp only [PX.bind_run]
    cases x i with
    | ok v => rfl
    | err _ => rfl
    | panic => rfl
    | exhausted => rfl)

/-- a model parser run inside `PX`: never exhausted -/
def lift {α} (p : P α) : PX α := fun i => .ofRes (p i)

instance : MonadLift P PX := ⟨lift⟩

/-- the fuel-exhausted outcome -/
def PX.exhausted {α} : PX α := fun _ => .exhausted

/-- forget the fourth outcome the way the model does -/
def erase {α} (x : PX α) : P α := fun i => (x i).toRes

@[simp] theorem erase_pure {α} (a : α) : erase (pure a : PX α) = pure a := rfl
@[simp] theorem erase_lift {α} (p : P α) : erase (lift p) = p := by
  apply P.ext; intro i; simp [erase, lift]
@[simp] theorem erase_monadLift {α} (p : P α) : erase (monadLift p : PX α) = p := erase_lift p
@[simp] theorem erase_liftM {α} (p : P α) : erase (MonadLift.monadLift p : PX α) = p := erase_lift p
@[simp] theorem erase_exhausted {α} : erase (PX.exhausted : PX α) = P.fail := rfl
@[simp] theorem erase_bind {α β} (x : PX α) (f : α → PX β) : erase (x >>= f) = erase x >>= fun a => erase (f a) := by
  apply P.ext; intro i
  simp only [erase, PX.bind_run, P.bind_run]
  cases x i with
  | ok v => rfl
  | err _ => rfl
  | panic => rfl
  | exhausted => rfl
@[simp] theorem erase_ite {α} (c : Prop) [Decidable c] (x y : PX α) :
    erase (if c then x else y) = if c then erase x else erase y := by split <;> rfl

/-- `x` never reports exhaustion -/
def NX {α} (x : PX α) : Prop := ∀ i, x i ≠ .exhausted

theorem NX.pure {α} (a : α) : NX (pure a : PX α) := fun _ h => by cases h
theorem NX.of_lift {α} (p : P α) : NX (lift p) := fun _ => XRes.ofRes_ne_exhausted _
theorem NX.of_monadLift {α} (p : P α) : NX (monadLift p : PX α) := NX.of_lift p
theorem NX.bind {α β} {x : PX α} {f : α → PX β} (hx : NX x) (hf : ∀ a, NX (f a)) : NX (x >>= f) := by
  intro i
  rw [PX.bind_run]
  cases e : x i with
  | ok v => exact hf _ _
  | err _ => intro h; cases h
  | panic => intro h; cases h
  | exhausted => exact absurd e (hx i)
theorem NX.ite {α} {c : Prop} [Decidable c] {x y : PX α} (hx : NX x) (hy : NX y) : NX (if c then x else y) := by
  split <;> assumption

/-- when `x` is never exhausted it is the lifted model parser -/
theorem NX.eq_lift {α} {x : PX α} (h : NX x) : x = lift (erase x) := by
  apply PX.ext; intro i
  exact XRes.eq_ofRes_toRes (h i)

theorem erase_ok {α} {x : PX α} {i : It} {r : α × It} (h : x i = .ok r) : erase x i = .ok r := by
  simp [erase, h, XRes.toRes]

/-! ### the loop combinator -/

/-- one iteration: either the loop is over with result `r`, or the iteration produced `a` and the loop goes on -/
inductive Step (α β : Type) where
  | stop : β → Step α β
  | next : α → Step α β

/-- the fuel-recursive loop of the model: `z` in the `0` branch; otherwise one `step`, and after a `next a` the
rest of the loop, whose result `r` is combined into `fin a r` -/
def iter {α β} (z : P β) (step : P (Step α β)) (fin : α → β → β) : Nat → P β
  | 0 => z
  | n + 1 => step >>= fun c => match c with
    | .stop r => pure r
    | .next a => iter z step fin n >>= fun r => pure (fin a r)

/-- the same loop reporting exhaustion in the `0` branch -/
def iterX {α β} (step : PX (Step α β)) (fin : α → β → β) : Nat → PX β
  | 0 => PX.exhausted
  | n + 1 => step >>= fun c => match c with
    | .stop r => pure r
    | .next a => iterX step fin n >>= fun r => pure (fin a r)

/-- `fin a` applied to the value of a result -/
def XRes.mapVal {β} (f : β → β) : XRes (β × It) → XRes (β × It)
  | .ok (r, i) => .ok (f r, i)
  | .err e => .err e
  | .panic => .panic
  | .exhausted => .exhausted

def Res.mapVal {β} (f : β → β) : Res (β × It) → Res (β × It)
  | .ok (r, i) => .ok (f r, i)
  | .err e => .err e
  | .panic => .panic

theorem XRes.mapVal_exhausted {β} {f : β → β} {x : XRes (β × It)} : x.mapVal f = .exhausted ↔ x = .exhausted := by
  cases x <;> simp [XRes.mapVal]

/-- the continuation of a step inside the loop -/
def iterK {α β} (fin : α → β → β) (rest : P β) : Step α β → P β
  | .stop r => pure r
  | .next a => rest >>= fun r => pure (fin a r)

theorem iter_succ_eq {α β} (z : P β) (step : P (Step α β)) (fin : α → β → β) (n : Nat) :
    iter z step fin (n + 1) = step >>= iterK fin (iter z step fin n) := by
  show (step >>= fun c => match c with
      | .stop r => pure r
      | .next a => iter z step fin n >>= fun r => pure (fin a r)) = _
  congr 1

theorem iterX_zero {α β} (step : PX (Step α β)) (fin : α → β → β) (i : It) : iterX step fin 0 i = .exhausted := rfl
theorem iterX_stop {α β} {step : PX (Step α β)} (fin : α → β → β) (n : Nat) {i i1 : It} {r : β}
    (h : step i = .ok (.stop r, i1)) : iterX step fin (n + 1) i = .ok (r, i1) := by
  unfold iterX; rw [PX.bind_run, h]; rfl
theorem iterX_next {α β} {step : PX (Step α β)} (fin : α → β → β) (n : Nat) {i i1 : It} {a : α}
    (h : step i = .ok (.next a, i1)) : iterX step fin (n + 1) i = (iterX step fin n i1).mapVal (fin a) := by
  rw [show iterX step fin (n + 1) = (step >>= fun c => match c with
      | .stop r => pure r
      | .next a => iterX step fin n >>= fun r => pure (fin a r)) from rfl]
  rw [PX.bind_run, h]
  show (iterX step fin n >>= fun r => pure (fin a r)) i1 = _
  rw [PX.bind_run]
  cases iterX step fin n i1 with
  | ok v => rfl
  | err _ => rfl
  | panic => rfl
  | exhausted => rfl
theorem iterX_err {α β} {step : PX (Step α β)} (fin : α → β → β) (n : Nat) {i : It} {e : Err}
    (h : step i = .err e) : iterX step fin (n + 1) i = .err e := by
  unfold iterX; rw [PX.bind_run, h]
theorem iterX_panic {α β} {step : PX (Step α β)} (fin : α → β → β) (n : Nat) {i : It}
    (h : step i = .panic) : iterX step fin (n + 1) i = .panic := by
  unfold iterX; rw [PX.bind_run, h]
theorem iterX_exh {α β} {step : PX (Step α β)} (fin : α → β → β) (n : Nat) {i : It}
    (h : step i = .exhausted) : iterX step fin (n + 1) i = .exhausted := by
  unfold iterX; rw [PX.bind_run, h]

theorem iter_stop {α β} (z : P β) {step : P (Step α β)} (fin : α → β → β) (n : Nat) {i i1 : It} {r : β}
    (h : step i = .ok (.stop r, i1)) : iter z step fin (n + 1) i = .ok (r, i1) := by
  unfold iter; rw [P.bind_run, h]; rfl
theorem iter_next {α β} (z : P β) {step : P (Step α β)} (fin : α → β → β) (n : Nat) {i i1 : It} {a : α}
    (h : step i = .ok (.next a, i1)) : iter z step fin (n + 1) i = Res.mapVal (fin a) (iter z step fin n i1) := by
  rw [show iter z step fin (n + 1) = (step >>= fun c => match c with
      | .stop r => pure r
      | .next a => iter z step fin n >>= fun r => pure (fin a r)) from rfl]
  rw [P.bind_run, h]
  show (iter z step fin n >>= fun r => pure (fin a r)) i1 = _
  rw [P.bind_run]
  cases iter z step fin n i1 with
  | ok v => rfl
  | err _ => rfl
  | panic => rfl
theorem iter_err {α β} (z : P β) {step : P (Step α β)} (fin : α → β → β) (n : Nat) {i : It} {e : Err}
    (h : step i = .err e) : iter z step fin (n + 1) i = .err e := by
  unfold iter; rw [P.bind_run, h]
theorem iter_panic {α β} (z : P β) {step : P (Step α β)} (fin : α → β → β) (n : Nat) {i : It}
    (h : step i = .panic) : iter z step fin (n + 1) i = .panic := by
  unfold iter; rw [P.bind_run, h]

theorem erase_iterX {α β} (step : PX (Step α β)) (fin : α → β → β) (n : Nat) :
    erase (iterX step fin n) = iter P.fail (erase step) fin n := by
  induction n with
  | zero => rfl
  | succ n ih =>
    unfold iterX iter
    rw [erase_bind]
    congr 1
    funext c
    cases c with
    | stop r => rfl
    | next a => simp only [erase_bind, ih, erase_pure]

/-- remaining bytes (0 for a negative offset: every read panics or fails there) -/
def rem (i : It) : Nat := if i.off < 0 then 0 else (i.bs.length - i.off).toNat

theorem rem_le (i : It) : rem i ≤ i.bs.length := by
  unfold rem; split <;> omega

/-- the progress property of a loop step: an iteration after which the loop goes on started inside the slice and
left the offset strictly larger (the slice itself is never changed) -/
def ProgStep {α β} (s : P (Step α β)) : Prop :=
  ∀ i a i', s i = .ok (.next a, i') → i'.bs = i.bs ∧ i.off < i'.off ∧ 0 ≤ i.off ∧ i.off < i.bs.length

theorem rem_lt {i i' : It} (h : i'.bs = i.bs ∧ i.off < i'.off ∧ 0 ≤ i.off ∧ i.off < i.bs.length) : rem i' < rem i := by
  obtain ⟨h1, h2, h3, h4⟩ := h
  unfold rem
  rw [h1]
  have : ¬ i.off < 0 := by omega
  have : ¬ i'.off < 0 := by omega
  simp only [*, if_false]
  omega

/-- NEVER EXHAUSTED: with more fuel than remaining bytes the `0` branch is not reached -/
theorem iterX_not_exhausted {α β} {step : PX (Step α β)} (fin : α → β → β) (hn : NX step)
    (hp : ProgStep (erase step)) : ∀ (n : Nat) (i : It), rem i < n → iterX step fin n i ≠ .exhausted := by
  intro n
  induction n with
  | zero => intro i h; omega
  | succ n ih =>
    intro i h
    cases e : step i with
    | ok v =>
      obtain ⟨c, i1⟩ := v
      cases c with
      | stop r => rw [iterX_stop fin n e]; intro h; cases h
      | next a =>
        have hlt := rem_lt (hp i a i1 (erase_ok e))
        rw [iterX_next fin n e]
        intro h
        exact ih i1 (by omega) (XRes.mapVal_exhausted.mp h)
    | err _ => rw [iterX_err fin n e]; intro h; cases h
    | panic => rw [iterX_panic fin n e]; intro h; cases h
    | exhausted => exact absurd e (hn i)

/-- more fuel does not change a result that was not exhausted (no progress assumption) -/
theorem iterX_succ {α β} (step : PX (Step α β)) (fin : α → β → β) :
    ∀ (n : Nat) (i : It), iterX step fin n i ≠ .exhausted → iterX step fin (n + 1) i = iterX step fin n i := by
  intro n
  induction n with
  | zero => intro i h; exact absurd rfl h
  | succ n ih =>
    intro i h
    cases e : step i with
    | ok v =>
      obtain ⟨c, i1⟩ := v
      cases c with
      | stop r => rw [iterX_stop fin _ e, iterX_stop fin _ e]
      | next a =>
        rw [iterX_next fin _ e] at h ⊢
        rw [iterX_next fin _ e]
        rw [ih i1 (fun e2 => h (XRes.mapVal_exhausted.mpr e2))]
    | err _ => rw [iterX_err fin _ e, iterX_err fin _ e]
    | panic => rw [iterX_panic fin _ e, iterX_panic fin _ e]
    | exhausted => rw [iterX_exh fin _ e, iterX_exh fin _ e]

theorem iterX_stable {α β} (step : PX (Step α β)) (fin : α → β → β) (n m : Nat) (i : It)
    (h : iterX step fin n i ≠ .exhausted) (hm : n ≤ m) : iterX step fin m i = iterX step fin n i := by
  induction m with
  | zero => have : n = 0 := by omega
            subst this; rfl
  | succ m ih =>
    by_cases hnm : n = m + 1
    · subst hnm; rfl
    · have := ih (by omega)
      rw [iterX_succ step fin m i (by rw [this]; exact h), this]

/-- FUEL IRRELEVANCE in `PX`: any fuel above the remaining bytes gives the result of `rem i + 1` -/
theorem iterX_fuel_irrelevant {α β} {step : PX (Step α β)} (fin : α → β → β) (hn : NX step)
    (hp : ProgStep (erase step)) (n : Nat) (i : It) (h : rem i < n) :
    iterX step fin n i = iterX step fin (rem i + 1) i :=
  iterX_stable step fin (rem i + 1) n i (iterX_not_exhausted fin hn hp _ i (by omega)) (by omega)

/-- FUEL IRRELEVANCE for the model's loop, any `0` branch `z`: above the remaining bytes the fuel does not matter -/
theorem iter_fuel_irrelevant' {α β} (z : P β) {step : P (Step α β)} (fin : α → β → β) (hp : ProgStep step) :
    ∀ (n m : Nat) (i : It), rem i < n → rem i < m → iter z step fin n i = iter z step fin m i := by
  intro n
  induction n with
  | zero => intro m i h; omega
  | succ n ih =>
    intro m i hn hm
    cases m with
    | zero => omega
    | succ m =>
      cases e : step i with
      | ok v =>
        obtain ⟨c, i1⟩ := v
        cases c with
        | stop r => rw [iter_stop z fin _ e, iter_stop z fin _ e]
        | next a =>
          have hlt := rem_lt (hp i a i1 e)
          rw [iter_next z fin _ e, iter_next z fin _ e, ih m i1 (by omega) (by omega)]
      | err _ => rw [iter_err z fin _ e, iter_err z fin _ e]
      | panic => rw [iter_panic z fin _ e, iter_panic z fin _ e]

theorem iter_fuel_irrelevant {α β} (z : P β) {step : P (Step α β)} (fin : α → β → β) (hp : ProgStep step)
    (n : Nat) (i : It) (h : rem i < n) : iter z step fin n i = iter z step fin (rem i + 1) i :=
  iter_fuel_irrelevant' z fin hp n (rem i + 1) i h (by omega)

/-- the model's loop with enough fuel IS the exhaustion-reporting loop, which is not exhausted -/
theorem iterX_lift_eq {α β} {step : P (Step α β)} (fin : α → β → β) (hp : ProgStep step) (n : Nat) (i : It)
    (h : rem i < n) : iterX (lift step) fin n i = .ofRes (iter P.fail step fin n i) := by
  have h1 := iterX_not_exhausted (step := lift step) fin (NX.of_lift step) (by rw [erase_lift]; exact hp) n i h
  have h2 := XRes.eq_ofRes_toRes h1
  rw [h2]
  have : erase (iterX (lift step) fin n) i = iter P.fail step fin n i := by rw [erase_iterX, erase_lift]
  rw [← this]; rfl

theorem XRes.ofRes_mapVal {β} (f : β → β) (r : Res (β × It)) :
    XRes.ofRes (Res.mapVal f r) = (XRes.ofRes r).mapVal f := by
  cases r with
  | ok v => rfl
  | err _ => rfl
  | panic => rfl

theorem lift_run {α} (p : P α) (i : It) : lift p i = .ofRes (p i) := rfl

/-- a run that was not exhausted never looked at the `0` branch: it is the model's run, whatever the model puts
into its `0` branch -/
theorem iterX_lift_eq_any {α β} (z : P β) (step : P (Step α β)) (fin : α → β → β) :
    ∀ (n : Nat) (i : It), iterX (lift step) fin n i ≠ .exhausted →
      iterX (lift step) fin n i = .ofRes (iter z step fin n i) := by
  intro n
  induction n with
  | zero => intro i h; exact absurd rfl h
  | succ n ih =>
    intro i h
    cases e : step i with
    | ok v =>
      obtain ⟨c, i1⟩ := v
      have e' : lift step i = .ok (c, i1) := by rw [lift_run, e]; rfl
      cases c with
      | stop r => rw [iterX_stop fin n e', iter_stop z fin n e]; rfl
      | next a =>
        rw [iterX_next fin n e'] at h ⊢
        rw [iter_next z fin n e, XRes.ofRes_mapVal, ih i1 (fun e2 => h (XRes.mapVal_exhausted.mpr e2))]
    | err x =>
      have e' : lift step i = .err x := by rw [lift_run, e]; rfl
      rw [iterX_err fin n e', iter_err z fin n e]; rfl
    | panic =>
      have e' : lift step i = .panic := by rw [lift_run, e]; rfl
      rw [iterX_panic fin n e', iter_panic z fin n e]; rfl

/-- with enough fuel: the model's loop, whatever its `0` branch, is the exhaustion-reporting loop -/
theorem iterX_lift_eq' {α β} (z : P β) {step : P (Step α β)} (fin : α → β → β) (hp : ProgStep step) (n : Nat) (i : It)
    (h : rem i < n) : iterX (lift step) fin n i = .ofRes (iter z step fin n i) :=
  iterX_lift_eq_any z step fin n i
    (iterX_not_exhausted (step := lift step) fin (NX.of_lift step) (by rw [erase_lift]; exact hp) n i h)

/-! ### fuel-free big-step semantics of the loop -/

inductive IterRuns {α β} (step : P (Step α β)) (fin : α → β → β) : It → Res (β × It) → Prop where
  | stop {i r i'} : step i = .ok (.stop r, i') → IterRuns step fin i (.ok (r, i'))
  | err {i e} : step i = .err e → IterRuns step fin i (.err e)
  | panic {i} : step i = .panic → IterRuns step fin i .panic
  | next_ok {i a i1 r i2} : step i = .ok (.next a, i1) → IterRuns step fin i1 (.ok (r, i2)) →
      IterRuns step fin i (.ok (fin a r, i2))
  | next_err {i a i1 e} : step i = .ok (.next a, i1) → IterRuns step fin i1 (.err e) → IterRuns step fin i (.err e)
  | next_panic {i a i1} : step i = .ok (.next a, i1) → IterRuns step fin i1 .panic → IterRuns step fin i .panic

/-- the fuel-recursive loop computes the fuel-free semantics (which has no "out of fuel" rule) -/
theorem iter_runs {α β} (z : P β) {step : P (Step α β)} (fin : α → β → β) (hp : ProgStep step) :
    ∀ (n : Nat) (i : It), rem i < n → IterRuns step fin i (iter z step fin n i) := by
  intro n
  induction n with
  | zero => intro i h; omega
  | succ n ih =>
    intro i h
    cases e : step i with
    | ok v =>
      obtain ⟨c, i1⟩ := v
      cases c with
      | stop r => rw [iter_stop z fin _ e]; exact .stop e
      | next a =>
        have hlt := rem_lt (hp i a i1 e)
        have := ih i1 (by omega)
        rw [iter_next z fin _ e]
        cases e2 : iter z step fin n i1 with
        | ok v => obtain ⟨r, i2⟩ := v; rw [e2] at this; exact .next_ok e this
        | err _ => rw [e2] at this; exact .next_err e this
        | panic => rw [e2] at this; exact .next_panic e this
    | err _ => rw [iter_err z fin _ e]; exact .err e
    | panic => rw [iter_panic z fin _ e]; exact .panic e

/-- the big-step semantics is deterministic -/
theorem IterRuns.det {α β} {step : P (Step α β)} {fin : α → β → β} {i : It} {r1 r2 : Res (β × It)}
    (h1 : IterRuns step fin i r1) (h2 : IterRuns step fin i r2) : r1 = r2 := by
  induction h1 generalizing r2 with
  | stop e => cases h2 <;> simp_all
  | err e => cases h2 <;> simp_all
  | panic e => cases h2 <;> simp_all
  | next_ok e _ ih =>
    cases h2 with
    | next_ok e' h' => rw [e] at e'; cases e'; have := ih h'; cases this; rfl
    | next_err e' h' => rw [e] at e'; cases e'; have := ih h'; cases this
    | next_panic e' h' => rw [e] at e'; cases e'; have := ih h'; cases this
    | _ e' => (rw [e] at e'; try cases e')
  | next_err e _ ih =>
    cases h2 with
    | next_ok e' h' => rw [e] at e'; cases e'; have := ih h'; cases this
    | next_err e' h' => rw [e] at e'; cases e'; exact ih h'
    | next_panic e' h' => rw [e] at e'; cases e'; have := ih h'; cases this
    | _ e' => (rw [e] at e'; try cases e')
  | next_panic e _ ih =>
    cases h2 with
    | next_ok e' h' => rw [e] at e'; cases e'; have := ih h'; cases this
    | next_err e' h' => rw [e] at e'; cases e'; have := ih h'; cases this
    | next_panic e' h' => rfl
    | _ e' => (rw [e] at e'; try cases e')

/-! ### the `for i.Offset() < end { a := body() … }` step -/

/-- one iteration of `for i.Offset() < endOff`: test, then the body -/
def forStep {α β} (endOff : Int) (body : P α) (nil : β) : P (Step α β) := do
  let off ← It.offset
  if off < endOff then do
    let a ← body
    pure (.next a)
  else pure (.stop nil)

def forStepX {α β} (endOff : Int) (body : PX α) (nil : β) : PX (Step α β) := do
  let off ← It.offset
  if off < endOff then do
    let a ← body
    pure (.next a)
  else pure (.stop nil)

/-- the unfolding of a `for` loop: exactly the Go loop's recursion equation, for fuel `n + 1` -/
theorem iter_forStep_succ {α β} (z : P β) (e : Int) (body : P α) (nil : β) (fin : α → β → β) (n : Nat) :
    iter z (forStep e body nil) fin (n + 1) = (do
      let off ← It.offset
      if off < e then do
        let a ← body
        let r ← iter z (forStep e body nil) fin n
        pure (fin a r)
      else pure nil) := by
  rw [show iter z (forStep e body nil) fin (n + 1) = (forStep e body nil >>= fun c => match c with
      | .stop r => pure r
      | .next a => iter z (forStep e body nil) fin n >>= fun r => pure (fin a r)) from rfl]
  rw [show forStep e body nil = (It.offset >>= fun off => if off < e then body >>= fun a => pure (.next a)
      else pure (.stop nil)) from rfl]
  simp only [bind_assoc, pure_bind, ite_bind]

theorem erase_forStepX {α β} (e : Int) (body : PX α) (nil : β) :
    erase (forStepX e body nil) = forStep e (erase body) nil := by
  unfold forStepX forStep
  simp only [erase_bind, erase_monadLift, erase_ite, erase_pure]

theorem NX_forStepX {α β} (e : Int) {body : PX α} (nil : β) (h : NX body) : NX (forStepX e body nil : PX (Step α β)) := by
  unfold forStepX
  exact NX.bind (NX.of_monadLift _) (fun _ => NX.ite (NX.bind h (fun _ => NX.pure _)) (NX.pure _))

/-! ### a partial-correctness logic for `P`: what holds when a parser returns a value -/

/-- the slice is never changed -/
def Keeps {α} (p : P α) : Prop := ∀ i a i', p i = .ok (a, i') → i'.bs = i.bs
/-- the offset advances by at least `k` (and the slice is unchanged) -/
def Adv {α} (p : P α) (k : Int) : Prop := ∀ i a i', p i = .ok (a, i') → i'.bs = i.bs ∧ i.off + k ≤ i'.off
/-- the offset never moves backwards -/
def Mono {α} (p : P α) : Prop := Adv p 0
/-- `Adv`, and the parser started inside the slice (it begins with a successful read) -/
def Rd {α} (p : P α) (k : Int) : Prop :=
  ∀ i a i', p i = .ok (a, i') → i'.bs = i.bs ∧ i.off + k ≤ i'.off ∧ 0 ≤ i.off ∧ i.off < i.bs.length
/-- reads nothing, changes nothing, cannot fail -/
def Getter {α} (p : P α) : Prop := ∀ i, ∃ a, p i = .ok (a, i)

theorem Adv.keeps {α} {p : P α} {k : Int} (h : Adv p k) : Keeps p := fun i a i' e => (h i a i' e).1
theorem Mono.keeps {α} {p : P α} (h : Mono p) : Keeps p := Adv.keeps h
theorem Rd.adv {α} {p : P α} {k : Int} (h : Rd p k) : Adv p k := fun i a i' e => ⟨(h i a i' e).1, (h i a i' e).2.1⟩
theorem Adv.mono {α} {p : P α} {k k' : Int} (h : Adv p k) (hk : k' ≤ k) : Adv p k' :=
  fun i a i' e => ⟨(h i a i' e).1, by have := (h i a i' e).2; omega⟩
theorem Rd.mono {α} {p : P α} {k k' : Int} (h : Rd p k) (hk : k' ≤ k) : Rd p k' :=
  fun i a i' e => by obtain ⟨h1, h2, h3⟩ := h i a i' e; exact ⟨h1, by omega, h3⟩
theorem Getter.mono {α} {p : P α} (h : Getter p) : Mono p := by
  intro i a i' e
  obtain ⟨b, hb⟩ := h i
  rw [hb] at e; cases e
  exact ⟨rfl, by omega⟩

theorem Keeps.pure {α} (a : α) : Keeps (pure a : P α) := fun i b i' e => by cases e; rfl
theorem Keeps.fail {α} (e : Err) : Keeps (P.fail e : P α) := fun i b i' h => by cases h
theorem Keeps.bind {α β} {x : P α} {f : α → P β} (hx : Keeps x) (hf : ∀ a, Keeps (f a)) : Keeps (x >>= f) := by
  intro i b i' e
  obtain ⟨a, i1, e1, e2⟩ := bind_ok_inv e
  rw [hf a i1 b i' e2, hx i a i1 e1]
theorem Keeps.ite {α} {c : Prop} [Decidable c] {p q : P α} (hp : Keeps p) (hq : Keeps q) : Keeps (if c then p else q) := by
  split <;> assumption

theorem Adv.pure {α} (a : α) : Adv (pure a : P α) 0 := fun i b i' e => by cases e; exact ⟨rfl, by omega⟩
theorem Adv.fail {α} (e : Err) (k : Int) : Adv (P.fail e : P α) k := fun i b i' h => by cases h
theorem Adv.bind {α β} {x : P α} {f : α → P β} {k1 k2 : Int} (hx : Adv x k1) (hf : ∀ a, Adv (f a) k2) :
    Adv (x >>= f) (k1 + k2) := by
  intro i b i' e
  obtain ⟨a, i1, e1, e2⟩ := bind_ok_inv e
  obtain ⟨h1, h2⟩ := hx i a i1 e1
  obtain ⟨h3, h4⟩ := hf a i1 b i' e2
  exact ⟨by rw [h3, h1], by omega⟩
theorem Adv.ite {α} {c : Prop} [Decidable c] {p q : P α} {k : Int} (hp : Adv p k) (hq : Adv q k) :
    Adv (if c then p else q) k := by
  split <;> assumption

theorem Mono.pure {α} (a : α) : Mono (pure a : P α) := Adv.pure a
theorem Mono.fail {α} (e : Err) : Mono (P.fail e : P α) := Adv.fail e 0
theorem Mono.bind {α β} {x : P α} {f : α → P β} (hx : Mono x) (hf : ∀ a, Mono (f a)) : Mono (x >>= f) :=
  Adv.bind (k1 := 0) (k2 := 0) hx hf
theorem Mono.ite {α} {c : Prop} [Decidable c] {p q : P α} (hp : Mono p) (hq : Mono q) : Mono (if c then p else q) :=
  Adv.ite hp hq
theorem Adv.toMono {α} {p : P α} {k : Int} (h : Adv p k) (hk : 0 ≤ k) : Mono p := Adv.mono h hk

theorem Rd.bind {α β} {x : P α} {f : α → P β} {k1 k2 : Int} (hx : Rd x k1) (hf : ∀ a, Adv (f a) k2) :
    Rd (x >>= f) (k1 + k2) := by
  intro i b i' e
  obtain ⟨a, i1, e1, e2⟩ := bind_ok_inv e
  obtain ⟨h1, h2, h5⟩ := hx i a i1 e1
  obtain ⟨h3, h4⟩ := hf a i1 b i' e2
  exact ⟨by rw [h3, h1], by omega, h5⟩
/-- the form used for loop bodies: a first read of at least one byte, then anything that does not move back -/
theorem Rd.bind_mono {α β} {x : P α} {f : α → P β} (hx : Rd x 1) (hf : ∀ a, Mono (f a)) : Rd (x >>= f) 1 :=
  Rd.bind (k1 := 1) (k2 := 0) hx hf
theorem Rd.getter_bind {α β} {x : P α} {f : α → P β} {k : Int} (hx : Getter x) (hf : ∀ a, Rd (f a) k) :
    Rd (x >>= f) k := by
  intro i b i' e
  obtain ⟨a, i1, e1, e2⟩ := bind_ok_inv e
  obtain ⟨a', h'⟩ := hx i
  rw [h'] at e1; cases e1
  exact hf a i b i' e2

/-! #### the iterator primitives -/

theorem nextByte_ok {i i' : It} {b : Nat} (h : It.nextByte i = .ok (b, i')) :
    i'.bs = i.bs ∧ i'.off = i.off + 1 ∧ 0 ≤ i.off ∧ i.off < i.bs.length := by
  unfold It.nextByte at h
  split at h
  · cases h
  · split at h
    · cases h
    · cases h; exact ⟨rfl, rfl, by omega, by omega⟩

theorem nextBytes_ok {n : Int} {i i' : It} {b : Bytes} (h : It.nextBytes n i = .ok (b, i')) :
    i'.bs = i.bs ∧ i'.off = i.off + n ∧ 0 ≤ i.off ∧ 0 ≤ n ∧ i.off + n ≤ i.bs.length := by
  unfold It.nextBytes at h
  split at h
  · cases h
  · split at h
    · cases h
    · cases h; exact ⟨rfl, rfl, by omega, by omega, by omega⟩

theorem Rd.nextByte : Rd It.nextByte 1 := fun i a i' e => by
  obtain ⟨h1, h2, h3, h4⟩ := nextByte_ok e; exact ⟨h1, by omega, h3, h4⟩
theorem Rd.nextBytes (n : Int) (hn : 1 ≤ n) : Rd (It.nextBytes n) 1 := fun i a i' e => by
  obtain ⟨h1, h2, h3, h4, h5⟩ := nextBytes_ok e; exact ⟨h1, by omega, h3, by omega⟩
theorem Rd.nextBytes' (n : Int) (hn : 1 ≤ n) : Rd (It.nextBytes n) n := fun i a i' e => by
  obtain ⟨h1, h2, h3, h4, h5⟩ := nextBytes_ok e; exact ⟨h1, by omega, h3, by omega⟩
theorem Adv.nextByte : Adv It.nextByte 1 := Rd.nextByte.adv
theorem Adv.nextBytes (n : Int) : Adv (It.nextBytes n) n := fun i a i' e => by
  obtain ⟨h1, h2, h3, h4, h5⟩ := nextBytes_ok e; exact ⟨h1, by omega⟩
theorem Adv.skip (n : Int) : Adv (It.skip n) n := fun i a i' e => by
  simp only [It.skip] at e; cases e; exact ⟨rfl, by simp⟩
theorem Mono.nextByte : Mono It.nextByte := Adv.nextByte.mono (by omega)
theorem Mono.nextBytes (n : Int) : Mono (It.nextBytes n) := fun i a i' e => by
  obtain ⟨h1, h2, h3, h4, h5⟩ := nextBytes_ok e; exact ⟨h1, by omega⟩
theorem Mono.skip (n : Int) (hn : 0 ≤ n) : Mono (It.skip n) := (Adv.skip n).mono hn
theorem Mono.skip_nat (n : Nat) : Mono (It.skip (n : Int)) := Mono.skip _ (Int.natCast_nonneg n)
theorem Getter.offset : Getter It.offset := fun _ => ⟨_, rfl⟩
theorem Getter.len : Getter It.len := fun _ => ⟨_, rfl⟩
theorem Getter.hasBytesLeft : Getter It.hasBytesLeft := fun _ => ⟨_, rfl⟩
theorem Mono.offset : Mono It.offset := Getter.offset.mono
theorem Mono.len : Mono It.len := Getter.len.mono
theorem Mono.hasBytesLeft : Mono It.hasBytesLeft := Getter.hasBytesLeft.mono
theorem Mono.dump : Mono It.dump := fun i a i' e => by
  unfold It.dump at e
  split at e
  · cases e; exact ⟨rfl, by omega⟩
  · split at e
    · cases e
    · cases e; exact ⟨rfl, by simp only; omega⟩
theorem Keeps.seek (n : Int) : Keeps (It.seek n) := fun i a i' e => by simp only [It.seek] at e; cases e; rfl
theorem Keeps.skip (n : Int) : Keeps (It.skip n) := (Adv.skip n).keeps
theorem Keeps.nextByte : Keeps It.nextByte := Mono.nextByte.keeps
theorem Keeps.nextBytes (n : Int) : Keeps (It.nextBytes n) := (Mono.nextBytes n).keeps
theorem Keeps.offset : Keeps It.offset := Mono.offset.keeps
theorem Keeps.len : Keeps It.len := Mono.len.keeps
theorem Keeps.hasBytesLeft : Keeps It.hasBytesLeft := Mono.hasBytesLeft.keeps
theorem Keeps.dump : Keeps It.dump := Mono.dump.keeps

theorem Keeps.optP {α} {c : Bool} {p : P α} (h : Keeps p) : Keeps (Astits.optP c p) := by
  unfold Astits.optP; cases c
  · exact Keeps.pure _
  · exact Keeps.bind h (fun _ => Keeps.pure _)
theorem Mono.optP {α} {c : Bool} {p : P α} (h : Mono p) : Mono (Astits.optP c p) := by
  unfold Astits.optP; cases c
  · exact Mono.pure _
  · exact Mono.bind h (fun _ => Mono.pure _)

/-! #### loops -/

theorem Keeps.iter {α β} {z : P β} {step : P (Step α β)} (fin : α → β → β) (hz : Keeps z) (hs : Keeps step)
    (n : Nat) : Keeps (iter z step fin n) := by
  induction n with
  | zero => exact hz
  | succ n ih =>
    unfold ParserFuel.iter
    refine Keeps.bind hs (fun c => ?_)
    cases c with
    | stop r => exact Keeps.pure _
    | next a => exact Keeps.bind ih (fun _ => Keeps.pure _)

theorem Mono.iter {α β} {z : P β} {step : P (Step α β)} (fin : α → β → β) (hz : Mono z) (hs : Mono step)
    (n : Nat) : Mono (iter z step fin n) := by
  induction n with
  | zero => exact hz
  | succ n ih =>
    unfold ParserFuel.iter
    refine Mono.bind hs (fun c => ?_)
    cases c with
    | stop r => exact Mono.pure _
    | next a => exact Mono.bind ih (fun _ => Mono.pure _)

theorem Keeps.forStep {α β} (e : Int) {body : P α} (nil : β) (h : Keeps body) : Keeps (forStep e body nil) := by
  unfold ParserFuel.forStep
  exact Keeps.bind Keeps.offset (fun _ => Keeps.ite (Keeps.bind h (fun _ => Keeps.pure _)) (Keeps.pure _))
theorem Mono.forStep {α β} (e : Int) {body : P α} (nil : β) (h : Mono body) : Mono (forStep e body nil) := by
  unfold ParserFuel.forStep
  exact Mono.bind Mono.offset (fun _ => Mono.ite (Mono.bind h (fun _ => Mono.pure _)) (Mono.pure _))

/-- the progress property of a `for` loop follows from its body: a first successful read, no move backwards -/
theorem ProgStep.forStep {α β} (e : Int) {body : P α} (nil : β) (h : Rd body 1) : ProgStep (forStep e body nil) := by
  intro i a i' hs
  unfold ParserFuel.forStep at hs
  rw [bind_of_ok (show It.offset i = .ok (i.off, i) from rfl)] at hs
  split at hs
  · obtain ⟨b, i1, e1, e2⟩ := bind_ok_inv hs
    cases e2
    obtain ⟨h1, h2, h3, h4⟩ := h i a i' e1
    exact ⟨h1, by omega, h3, h4⟩
  · cases hs

/-! #### a tactic for `Keeps` / `Mono` goals of straight-line parsers (extended by `macro_rules`) -/

syntax "pf_leaf" : tactic
macro_rules | `(tactic| pf_leaf) => `(tactic| assumption)
macro_rules | `(tactic| pf_leaf) => `(tactic| exact Keeps.pure _)
macro_rules | `(tactic| pf_leaf) => `(tactic| exact Keeps.fail _)
macro_rules | `(tactic| pf_leaf) => `(tactic| exact Keeps.nextByte)
macro_rules | `(tactic| pf_leaf) => `(tactic| exact Keeps.nextBytes _)
macro_rules | `(tactic| pf_leaf) => `(tactic| exact Keeps.seek _)
macro_rules | `(tactic| pf_leaf) => `(tactic| exact Keeps.skip _)
macro_rules | `(tactic| pf_leaf) => `(tactic| exact Keeps.offset)
macro_rules | `(tactic| pf_leaf) => `(tactic| exact Keeps.len)
macro_rules | `(tactic| pf_leaf) => `(tactic| exact Keeps.hasBytesLeft)
macro_rules | `(tactic| pf_leaf) => `(tactic| exact Keeps.dump)
macro_rules | `(tactic| pf_leaf) => `(tactic| exact Mono.pure _)
macro_rules | `(tactic| pf_leaf) => `(tactic| exact Mono.fail _)
macro_rules | `(tactic| pf_leaf) => `(tactic| exact Mono.nextByte)
macro_rules | `(tactic| pf_leaf) => `(tactic| exact Mono.nextBytes _)
macro_rules | `(tactic| pf_leaf) => `(tactic| exact Mono.skip_nat _)
macro_rules | `(tactic| pf_leaf) => `(tactic| (apply Mono.skip; omega))
macro_rules | `(tactic| pf_leaf) => `(tactic| exact Mono.offset)
macro_rules | `(tactic| pf_leaf) => `(tactic| exact Mono.len)
macro_rules | `(tactic| pf_leaf) => `(tactic| exact Mono.hasBytesLeft)
macro_rules | `(tactic| pf_leaf) => `(tactic| exact Mono.dump)

syntax "pf_step" : tactic
macro_rules | `(tactic| pf_step) => `(tactic| first
  | (with_reducible pf_leaf)
  | (with_reducible refine Keeps.bind ?_ (fun _ => ?_))
  | (with_reducible refine Keeps.ite ?_ ?_)
  | (with_reducible refine Keeps.optP ?_)
  | (with_reducible refine Mono.bind ?_ (fun _ => ?_))
  | (with_reducible refine Mono.ite ?_ ?_)
  | (with_reducible refine Mono.optP ?_)
  | (dsimp only)
  | (split))

macro "pf_auto" : tactic => `(tactic| repeat' pf_step)

end Astits.ParserFuel
