/-
Fuel audit of the parser loops, part 4: `psiCompleteLoop` / `isPSIComplete` and `parseData` (data.go).
-/
import Astits.Proofs.ParserFuel.PSI
import Astits.Model.Demux
namespace Astits.ParserFuel

/-- an exhaustion-reporting parser that is never exhausted and erases to `p` IS `p` -/
theorem eq_ofRes_of_NX {α} {x : PX α} {p : P α} (hn : NX x) (he : erase x = p) (i : It) : x i = .ofRes (p i) := by
  rw [← he]
  exact XRes.eq_ofRes_toRes (hn i)

theorem parseDescriptorsX_eq (i : It) : parseDescriptorsX i = .ofRes (parseDescriptors i) :=
  eq_ofRes_of_NX NX_parseDescriptorsX erase_parseDescriptorsX i
theorem parsePSIDataX_eq (i : It) : parsePSIDataX i = .ofRes (parsePSIData i) :=
  eq_ofRes_of_NX NX_parsePSIDataX erase_parsePSIDataX i

/-! ### `psiCompleteLoop` (its `0` branch is `pure false`, not an error) -/

/-- one iteration of the loop of `isPSIComplete` -/
def psiCompleteStep : P (Step Unit Bool) := do
  let more ← It.hasBytesLeft
  if more then do
    let t ← It.nextByte
    if shouldStopPSIParsing t then (do let l ← It.len; let o ← It.offset; pure (.stop (decide (l ≥ o))))
    else do
      let bs ← It.nextBytes 2
      It.skip ((bs.getD 0 0 % 16) * 256 + bs.getD 1 0 : Nat)
      pure (.next ())
  else (do let l ← It.len; let o ← It.offset; pure (.stop (decide (l ≥ o))))

theorem psiCompleteLoop_eq (n : Nat) : psiCompleteLoop n = iter (pure false) psiCompleteStep (fun _ r => r) n := by
  induction n with
  | zero => rfl
  | succ n ih =>
    rw [iter_succ_eq, ← ih, psiCompleteLoop]
    unfold psiCompleteStep
    simp only [bind_assoc, pure_bind, ite_bind, iterK, bind_pure]

theorem ProgStep_psiCompleteStep : ProgStep psiCompleteStep := by
  intro i a i' h
  unfold psiCompleteStep at h
  obtain ⟨more, i0, e0, h⟩ := bind_ok_inv h
  cases e0
  split at h
  · obtain ⟨t, i1, e1, h⟩ := bind_ok_inv h
    obtain ⟨a1, a2, a3, a4⟩ := nextByte_ok e1
    split at h
    · obtain ⟨l, i2, e2, h⟩ := bind_ok_inv h
      obtain ⟨o, i3, e3, h⟩ := bind_ok_inv h
      cases h
    · obtain ⟨bs, i2, e2, h⟩ := bind_ok_inv h
      obtain ⟨b1, b2, b3, b4, b5⟩ := nextBytes_ok e2
      obtain ⟨_, i3, e3, h⟩ := bind_ok_inv h
      obtain ⟨c1, c2⟩ := Adv.skip _ _ _ _ e3
      cases h
      exact ⟨by rw [c1, b1, a1], by omega, a3, a4⟩
  · obtain ⟨l, i2, e2, h⟩ := bind_ok_inv h
    obtain ⟨o, i3, e3, h⟩ := bind_ok_inv h
    cases h

/-- FUEL IRRELEVANCE for `psiCompleteLoop` -/
theorem psiCompleteLoop_fuel_irrelevant (n : Nat) (i : It) (h : rem i < n) :
    psiCompleteLoop n i = psiCompleteLoop (rem i + 1) i := by
  rw [psiCompleteLoop_eq, psiCompleteLoop_eq]
  exact iter_fuel_irrelevant _ _ ProgStep_psiCompleteStep n i h

/-- the loop of `isPSIComplete`, reporting exhaustion -/
def psiCompleteLoopX (n : Nat) : PX Bool := iterX (lift psiCompleteStep) (fun _ r => r) n

theorem psiCompleteLoopX_not_exhausted (n : Nat) (i : It) (h : rem i < n) : psiCompleteLoopX n i ≠ .exhausted :=
  iterX_not_exhausted _ (NX.of_lift _) (by rw [erase_lift]; exact ProgStep_psiCompleteStep) n i h

/-- a run of `psiCompleteLoopX` that is not exhausted is the model's run -/
theorem psiCompleteLoopX_eq_of_ne (n : Nat) (i : It) (h : psiCompleteLoopX n i ≠ .exhausted) :
    psiCompleteLoopX n i = .ofRes (psiCompleteLoop n i) := by
  rw [psiCompleteLoop_eq]
  exact iterX_lift_eq_any _ _ _ n i h

theorem psiCompleteLoopX_eq (n : Nat) (i : It) (h : rem i < n) :
    psiCompleteLoopX n i = .ofRes (psiCompleteLoop n i) :=
  psiCompleteLoopX_eq_of_ne n i (psiCompleteLoopX_not_exhausted n i h)

/-! ### `isPSIComplete` -/

/-- `isPSICompleteBytes` with the loop replaced; `none` = the loop ran out of fuel -/
def isPSICompleteBytesX (payload : Bytes) : Option Bool :=
  let p : PX Bool := do
    let b ← It.nextByte
    It.skip b
    let more ← It.hasBytesLeft
    if !more then pure false
    else psiCompleteLoopX (payload.length + 1)
  match p ⟨payload, 0⟩ with
  | .ok (b, _) => some b
  | .exhausted => none
  | _ => some false

def isPSICompleteX (ps : List Packet) : Option Bool := isPSICompleteBytesX (concatPayload ps)

theorem lift_bind_ofRes {α β} {x : P α} {f : α → PX β} {g : α → P β} {i : It}
    (h : ∀ a i1, x i = .ok (a, i1) → f a i1 = .ofRes (g a i1)) :
    ((monadLift x : PX α) >>= f) i = .ofRes ((x >>= g) i) := by
  rw [PX.bind_run, P.bind_run]
  show (match XRes.ofRes (x i) with
    | .ok (a, i') => f a i' | .err e => .err e | .panic => .panic | .exhausted => .exhausted) = _
  cases e : x i with
  | ok v => obtain ⟨a, i1⟩ := v; exact h a i1 e
  | err _ => rfl
  | panic => rfl

/-- `isPSIComplete` never runs out of fuel -/
theorem isPSICompleteBytesX_eq (payload : Bytes) : isPSICompleteBytesX payload = some (isPSICompleteBytes payload) := by
  have key : (do
      let b ← It.nextByte
      It.skip b
      let more ← It.hasBytesLeft
      if !more then pure false
      else psiCompleteLoopX (payload.length + 1) : PX Bool) ⟨payload, 0⟩ = .ofRes ((do
      let b ← It.nextByte
      It.skip b
      let more ← It.hasBytesLeft
      if !more then pure false
      else psiCompleteLoop (payload.length + 1) : P Bool) ⟨payload, 0⟩) := by
    refine lift_bind_ofRes (fun b i1 e1 => ?_)
    have a1 := (nextByte_ok e1).1
    refine lift_bind_ofRes (fun _ i2 e2 => ?_)
    have a2 := (Adv.skip _ _ _ _ e2).1
    refine lift_bind_ofRes (fun more i3 e3 => ?_)
    have a3 := Keeps.hasBytesLeft _ _ _ e3
    split
    · rfl
    · apply psiCompleteLoopX_eq
      have := rem_le i3
      have hb : i3.bs = payload := by rw [a3, a2, a1]
      rw [hb] at this
      omega
  unfold isPSICompleteBytesX isPSICompleteBytes P.val
  simp only []
  rw [key]
  cases (do
      let b ← It.nextByte
      It.skip b
      let more ← It.hasBytesLeft
      if !more then pure false
      else psiCompleteLoop (payload.length + 1) : P Bool) ⟨payload, 0⟩ with
  | ok v => obtain ⟨b, i'⟩ := v; rfl
  | err _ => rfl
  | panic => rfl

theorem isPSICompleteX_eq (ps : List Packet) : isPSICompleteX ps = some (isPSIComplete ps) :=
  isPSICompleteBytesX_eq _

/-! ### `parseData` -/

/-- `parseData` with `parsePSIData` replaced by its exhaustion-reporting variant (`parsePESData` has no loop) -/
def parseDataX (ps : List Packet) (prs : ParserKind) (pm : ProgramMap) : XRes (List DemuxerData) :=
  match prs with
  | .failing => .err .parser
  | .replacer => .ok [replacerData ps]
  | .dropper => .ok []
  | _ =>
    let payload := concatPayload ps
    let p0 := ps.headD default
    let pid := p0.header.pid
    let fp : Packet := { adaptationField := p0.adaptationField, header := p0.header, payload := [] }
    if pid == 1 then .ok []
    else if isPSIPayload pid pm then
      match parsePSIDataX ⟨payload, 0⟩ with
      | .ok (d, _) => .ok (psiToData d fp pid)
      | .err _ => .err .other
      | .panic => .panic
      | .exhausted => .exhausted
    else if isPESPayload payload then
      match parsePESData.val payload with
      | .ok d => .ok [{ firstPacket := some fp, pes := some d, pid := pid }]
      | .err _ => .err .other
      | .panic => .panic
    else .ok []

/-- `parseData` never runs out of fuel: the variant is the model's function -/
theorem parseDataX_eq (ps : List Packet) (prs : ParserKind) (pm : ProgramMap) :
    parseDataX ps prs pm = .ofRes (parseData ps prs pm) := by
  unfold parseDataX parseData
  cases prs <;> try rfl
  all_goals
    dsimp only
    split
    · rfl
    · split
      · rw [parsePSIDataX_eq]
        unfold P.val
        cases parsePSIData ⟨concatPayload ps, 0⟩ with
        | ok v => obtain ⟨d, i'⟩ := v; rfl
        | err _ => rfl
        | panic => rfl
      · split
        · cases parsePESData.val (concatPayload ps) <;> rfl
        · rfl

end Astits.ParserFuel
