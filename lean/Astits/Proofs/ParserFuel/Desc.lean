/-
Fuel audit of the parser loops, part 2: the loops of descriptor.go.

For every loop `L` of Astits/Model/Desc.lean:
* `L_eq`   : `L e n = iter P.fail (forStep e body nil) fin n` for EVERY fuel `n` (the loop is an instance of the generic
             fuel-recursive `for` loop; `body` is the text of one iteration);
* `Rd body 1` : one iteration that succeeds started inside the slice and moved the offset forward;
and the exhaustion-reporting variants `…X` of every parser of descriptor.go that contains a loop, with
* `erase_…X` : forgetting the fourth outcome gives the model's parser (for every fuel where there is one);
* `NX_…X`    : the variants that fetch their own fuel (`loopFuel`) never report exhaustion.
-/
import Astits.Proofs.ParserFuel.Core
import Astits.Model.Desc
namespace Astits.ParserFuel

/-! ### fuel getters -/

theorem loopFuel_run (i : It) : loopFuel i = .ok (i.bs.length + 1, i) := rfl
theorem Getter.loopFuel : Getter loopFuel := fun _ => ⟨_, rfl⟩
theorem Mono.loopFuel : Mono Astits.loopFuel := Getter.loopFuel.mono
theorem Keeps.loopFuel : Keeps Astits.loopFuel := Mono.loopFuel.keeps
macro_rules | `(tactic| pf_leaf) => `(tactic| exact Mono.loopFuel)
macro_rules | `(tactic| pf_leaf) => `(tactic| exact Keeps.loopFuel)

/-- a loop that is not exhausted with more fuel than remaining bytes is not exhausted with the caller's fuel
`len + 1`, from any state -/
theorem NX_fuelled {β γ} {g : P Nat} (hg : ∀ i, g i = .ok (i.bs.length + 1, i)) {L : Nat → PX β} {k : β → PX γ}
    (hL : ∀ n i, rem i < n → L n i ≠ .exhausted) (hk : ∀ b, NX (k b)) :
    NX ((monadLift g : PX Nat) >>= fun fuel => L fuel >>= k) := by
  intro i
  have hrun : (monadLift g : PX Nat) i = .ok (i.bs.length + 1, i) := by
    show XRes.ofRes (g i) = _
    rw [hg i]; rfl
  rw [PX.bind_run, hrun]
  show (L (i.bs.length + 1) >>= k) i ≠ _
  rw [PX.bind_run]
  have := hL (i.bs.length + 1) i (by have := rem_le i; omega)
  cases e : L (i.bs.length + 1) i with
  | ok v => exact hk _ _
  | err _ => intro h; cases h
  | panic => intro h; cases h
  | exhausted => exact absurd e this

theorem NX_fuelled_last {β} {g : P Nat} (hg : ∀ i, g i = .ok (i.bs.length + 1, i)) {L : Nat → PX β}
    (hL : ∀ n i, rem i < n → L n i ≠ .exhausted) :
    NX ((monadLift g : PX Nat) >>= fun fuel => L fuel) := by
  have := NX_fuelled hg hL (k := fun b => pure b) (fun b => NX.pure b)
  simpa using this

/-- the exhaustion-reporting `for` loop -/
def forX {α β} (e : Int) (body : PX α) (nil : β) (fin : α → β → β) (n : Nat) : PX β :=
  iterX (forStepX e body nil) fin n

theorem erase_forX {α β} (e : Int) (body : PX α) (nil : β) (fin : α → β → β) (n : Nat) :
    erase (forX e body nil fin n) = iter P.fail (forStep e (erase body) nil) fin n := by
  unfold forX; rw [erase_iterX, erase_forStepX]

/-- NEVER EXHAUSTED, `for` loops: the body never reports exhaustion, and a successful iteration started inside
the slice and moved forward -/
theorem forX_not_exhausted {α β} (e : Int) {body : PX α} (nil : β) (fin : α → β → β) (hn : NX body)
    (hp : Rd (erase body) 1) (n : Nat) (i : It) (h : rem i < n) : forX e body nil fin n i ≠ .exhausted :=
  iterX_not_exhausted fin (NX_forStepX e nil hn) (by rw [erase_forStepX]; exact ProgStep.forStep e nil hp) n i h

/-! ### nx tactic -/

syntax "nx_leaf" : tactic
macro_rules | `(tactic| nx_leaf) => `(tactic| assumption)
macro_rules | `(tactic| nx_leaf) => `(tactic| exact NX.pure _)
macro_rules | `(tactic| nx_leaf) => `(tactic| exact NX.of_monadLift _)
macro_rules | `(tactic| nx_leaf) => `(tactic| exact NX.of_lift _)

syntax "nx_step" : tactic
macro_rules | `(tactic| nx_step) => `(tactic| first
  | (with_reducible nx_leaf)
  | (with_reducible refine NX.bind ?_ (fun _ => ?_))
  | (with_reducible refine NX.ite ?_ ?_)
  | (exact NX.of_lift _)
  | (dsimp only)
  | (split))
macro "nx_auto" : tactic => `(tactic| repeat' nx_step)

/-! ### dvb.go -/

theorem Mono_parseDVBDurationSeconds : Mono parseDVBDurationSeconds := by unfold parseDVBDurationSeconds; pf_auto
macro_rules | `(tactic| pf_leaf) => `(tactic| exact Mono_parseDVBDurationSeconds)
theorem Mono_parseDVBDurationMinutes : Mono parseDVBDurationMinutes := by unfold parseDVBDurationMinutes; pf_auto
macro_rules | `(tactic| pf_leaf) => `(tactic| exact Mono_parseDVBDurationMinutes)
theorem Mono_parseDVBTime : Mono parseDVBTime := by unfold parseDVBTime; pf_auto
macro_rules | `(tactic| pf_leaf) => `(tactic| exact Mono_parseDVBTime)
theorem Keeps_parseDVBDurationSeconds : Keeps parseDVBDurationSeconds := Mono_parseDVBDurationSeconds.keeps
macro_rules | `(tactic| pf_leaf) => `(tactic| exact Keeps_parseDVBDurationSeconds)
theorem Keeps_parseDVBDurationMinutes : Keeps parseDVBDurationMinutes := Mono_parseDVBDurationMinutes.keeps
macro_rules | `(tactic| pf_leaf) => `(tactic| exact Keeps_parseDVBDurationMinutes)
theorem Keeps_parseDVBTime : Keeps parseDVBTime := Mono_parseDVBTime.keeps
macro_rules | `(tactic| pf_leaf) => `(tactic| exact Keeps_parseDVBTime)

/-! ### loop bodies (the text between `if off < offsetEnd then` and the recursive call) and `L = iter …` -/

def contentBody : P DescriptorContentItem := do
  let bs ← It.nextBytes 2
  pure { contentNibbleLevel1 := bs.getD 0 0 / 16 % 16, contentNibbleLevel2 := bs.getD 0 0 % 16, userByte := bs.getD 1 0 }

theorem contentLoop_eq (e : Int) (n : Nat) :
    newDescriptorContentLoop e n = iter P.fail (forStep e contentBody []) List.cons n := by
  induction n with
  | zero => rfl
  | succ n ih =>
    rw [iter_forStep_succ, ← ih, newDescriptorContentLoop]
    simp only [contentBody, bind_assoc, pure_bind]

theorem Rd_contentBody : Rd contentBody 1 :=
  Rd.bind_mono (Rd.nextBytes 2 (by omega)) (fun _ => Mono.pure _)

theorem extendedEventLoop_eq (e : Int) (n : Nat) :
    newDescriptorExtendedEventLoop e n = iter P.fail (forStep e newDescriptorExtendedEventItem []) List.cons n := by
  induction n with
  | zero => rfl
  | succ n ih =>
    rw [iter_forStep_succ, ← ih, newDescriptorExtendedEventLoop]

theorem Rd_extendedEventItem : Rd newDescriptorExtendedEventItem 1 := by
  unfold newDescriptorExtendedEventItem
  exact Rd.bind_mono Rd.nextByte (fun _ => by pf_auto)

def localTimeOffsetBody : P DescriptorLocalTimeOffsetItem := do
  let countryCode ← It.nextBytes 3
  let b ← It.nextByte
  let localTimeOffset ← parseDVBDurationMinutes
  let timeOfChange ← parseDVBTime
  let nextTimeOffset ← parseDVBDurationMinutes
  pure { countryCode := countryCode, countryRegionID := b / 4 % 64, localTimeOffset := localTimeOffset,
         localTimeOffsetPolarity := b % 2 = 1, nextTimeOffset := nextTimeOffset, timeOfChange := timeOfChange }

theorem localTimeOffsetLoop_eq (e : Int) (n : Nat) :
    newDescriptorLocalTimeOffsetLoop e n = iter P.fail (forStep e localTimeOffsetBody []) List.cons n := by
  induction n with
  | zero => rfl
  | succ n ih =>
    rw [iter_forStep_succ, ← ih, newDescriptorLocalTimeOffsetLoop]
    simp only [localTimeOffsetBody, bind_assoc, pure_bind]

theorem Rd_localTimeOffsetBody : Rd localTimeOffsetBody 1 := by
  unfold localTimeOffsetBody
  exact Rd.bind_mono (Rd.nextBytes 3 (by omega)) (fun _ => by pf_auto)

def parentalRatingBody : P DescriptorParentalRatingItem := do
  let bs ← It.nextBytes 4
  pure { countryCode := bs.take 3, rating := bs.getD 3 0 }

theorem parentalRatingLoop_eq (e : Int) (n : Nat) :
    newDescriptorParentalRatingLoop e n = iter P.fail (forStep e parentalRatingBody []) List.cons n := by
  induction n with
  | zero => rfl
  | succ n ih =>
    rw [iter_forStep_succ, ← ih, newDescriptorParentalRatingLoop]
    simp only [parentalRatingBody, bind_assoc, pure_bind]

theorem Rd_parentalRatingBody : Rd parentalRatingBody 1 :=
  Rd.bind_mono (Rd.nextBytes 4 (by omega)) (fun _ => Mono.pure _)

def subtitlingBody : P DescriptorSubtitlingItem := do
  let language ← It.nextBytes 3
  let type ← It.nextByte
  let c ← It.nextBytes 2
  let a ← It.nextBytes 2
  pure { ancillaryPageID := a.getD 0 0 * 256 + a.getD 1 0, compositionPageID := c.getD 0 0 * 256 + c.getD 1 0,
         language := language, type := type }

theorem subtitlingLoop_eq (e : Int) (n : Nat) :
    newDescriptorSubtitlingLoop e n = iter P.fail (forStep e subtitlingBody []) List.cons n := by
  induction n with
  | zero => rfl
  | succ n ih =>
    rw [iter_forStep_succ, ← ih, newDescriptorSubtitlingLoop]
    simp only [subtitlingBody, bind_assoc, pure_bind]

theorem Rd_subtitlingBody : Rd subtitlingBody 1 := by
  unfold subtitlingBody
  exact Rd.bind_mono (Rd.nextBytes 3 (by omega)) (fun _ => by pf_auto)

def teletextBody : P DescriptorTeletextItem := do
  let language ← It.nextBytes 3
  let b ← It.nextByte
  let p ← It.nextByte
  pure { language := language, magazine := b % 8, page := (p / 16 % 16) * 10 + p % 16, type := b / 8 % 32 }

theorem teletextLoop_eq (e : Int) (n : Nat) :
    newDescriptorTeletextLoop e n = iter P.fail (forStep e teletextBody []) List.cons n := by
  induction n with
  | zero => rfl
  | succ n ih =>
    rw [iter_forStep_succ, ← ih, newDescriptorTeletextLoop]
    simp only [teletextBody, bind_assoc, pure_bind]

theorem Rd_teletextBody : Rd teletextBody 1 := by
  unfold teletextBody
  exact Rd.bind_mono (Rd.nextBytes 3 (by omega)) (fun _ => by pf_auto)

/-- how one byte of the inner VBI loop enters the result -/
def vbiDescFin (id : Nat) (b : Nat) (rest : List DescriptorVBIDataDescriptor) : List DescriptorVBIDataDescriptor :=
  if isKnownVBIDataServiceID id then { fieldParity := b / 32 % 2 = 1, lineOffset := b % 32 } :: rest else rest

theorem vbiDataDescLoop_eq (id : Nat) (e : Int) (n : Nat) :
    newDescriptorVBIDataDescLoop id e n = iter P.fail (forStep e It.nextByte []) (vbiDescFin id) n := by
  induction n with
  | zero => rfl
  | succ n ih =>
    rw [iter_forStep_succ, ← ih, newDescriptorVBIDataDescLoop]
    unfold vbiDescFin
    cases isKnownVBIDataServiceID id <;> simp

def vbiDataBody : P DescriptorVBIDataService := do
  let id ← It.nextByte
  let dataServiceDescriptorLength ← It.nextByte
  let off ← It.offset
  let fuel' ← loopFuel
  let descs ← newDescriptorVBIDataDescLoop id (off + dataServiceDescriptorLength) fuel'
  pure { dataServiceID := id, descriptors := descs }

theorem vbiDataLoop_eq (e : Int) (n : Nat) :
    newDescriptorVBIDataLoop e n = iter P.fail (forStep e vbiDataBody []) List.cons n := by
  induction n with
  | zero => rfl
  | succ n ih =>
    rw [iter_forStep_succ, ← ih, newDescriptorVBIDataLoop]
    simp only [vbiDataBody, bind_assoc, pure_bind]

theorem Mono_vbiDataDescLoop (id : Nat) (e : Int) (n : Nat) : Mono (newDescriptorVBIDataDescLoop id e n) := by
  rw [vbiDataDescLoop_eq]
  exact Mono.iter _ (Mono.fail _) (Mono.forStep e [] Mono.nextByte) n
macro_rules | `(tactic| pf_leaf) => `(tactic| exact Mono_vbiDataDescLoop _ _ _)

theorem Rd_vbiDataBody : Rd vbiDataBody 1 := by
  unfold vbiDataBody
  exact Rd.bind_mono Rd.nextByte (fun _ => by pf_auto)

/-! ### every parser of descriptor.go leaves the slice alone (`Keeps`) -/

theorem Keeps_of_eq_iter {α β} {L : Nat → P β} {e : Int} {body : P α} {nil : β} {fin : α → β → β}
    (h : ∀ n, L n = iter P.fail (forStep e body nil) fin n) (hb : Keeps body) (n : Nat) : Keeps (L n) := by
  rw [h]; exact Keeps.iter _ (Keeps.fail _) (Keeps.forStep e nil hb) n

theorem Mono_of_eq_iter {α β} {L : Nat → P β} {e : Int} {body : P α} {nil : β} {fin : α → β → β}
    (h : ∀ n, L n = iter P.fail (forStep e body nil) fin n) (hb : Mono body) (n : Nat) : Mono (L n) := by
  rw [h]; exact Mono.iter _ (Mono.fail _) (Mono.forStep e nil hb) n

theorem Keeps_restIfAny (e : Int) : Keeps (restIfAny e) := by unfold restIfAny; pf_auto
macro_rules | `(tactic| pf_leaf) => `(tactic| exact Keeps_restIfAny _)
theorem Keeps_restTo (e : Int) : Keeps (restTo e) := by unfold restTo; pf_auto
macro_rules | `(tactic| pf_leaf) => `(tactic| exact Keeps_restTo _)
theorem Keeps_byteIf (c : Bool) : Keeps (byteIf c) := by unfold byteIf; pf_auto
macro_rules | `(tactic| pf_leaf) => `(tactic| exact Keeps_byteIf _)
theorem Keeps_panic {α} : Keeps (P.panic : P α) := fun i a i' h => by cases h
macro_rules | `(tactic| pf_leaf) => `(tactic| exact Keeps_panic)

theorem Keeps_newDescriptorAC3 (e : Int) : Keeps (newDescriptorAC3 e) := by unfold newDescriptorAC3; pf_auto
macro_rules | `(tactic| pf_leaf) => `(tactic| exact Keeps_newDescriptorAC3 _)
theorem Keeps_newDescriptorAVCVideo : Keeps newDescriptorAVCVideo := by unfold newDescriptorAVCVideo; pf_auto
macro_rules | `(tactic| pf_leaf) => `(tactic| exact Keeps_newDescriptorAVCVideo)
theorem Keeps_newDescriptorComponent (e : Int) : Keeps (newDescriptorComponent e) := by unfold newDescriptorComponent; pf_auto
macro_rules | `(tactic| pf_leaf) => `(tactic| exact Keeps_newDescriptorComponent _)
theorem Keeps_newDescriptorContentLoop (e : Int) (n : Nat) : Keeps (newDescriptorContentLoop e n) :=
  Keeps_of_eq_iter (contentLoop_eq e) Rd_contentBody.adv.keeps n
macro_rules | `(tactic| pf_leaf) => `(tactic| exact Keeps_newDescriptorContentLoop _ _)
theorem Keeps_newDescriptorContent (e : Int) : Keeps (newDescriptorContent e) := by unfold newDescriptorContent; pf_auto
macro_rules | `(tactic| pf_leaf) => `(tactic| exact Keeps_newDescriptorContent _)
theorem Keeps_newDescriptorDataStreamAlignment : Keeps newDescriptorDataStreamAlignment := by
  unfold newDescriptorDataStreamAlignment; pf_auto
macro_rules | `(tactic| pf_leaf) => `(tactic| exact Keeps_newDescriptorDataStreamAlignment)
theorem Keeps_newDescriptorEnhancedAC3 (e : Int) : Keeps (newDescriptorEnhancedAC3 e) := by
  unfold newDescriptorEnhancedAC3; pf_auto
macro_rules | `(tactic| pf_leaf) => `(tactic| exact Keeps_newDescriptorEnhancedAC3 _)
theorem Keeps_newDescriptorExtendedEventLoop (e : Int) (n : Nat) : Keeps (newDescriptorExtendedEventLoop e n) :=
  Keeps_of_eq_iter (extendedEventLoop_eq e) Rd_extendedEventItem.adv.keeps n
macro_rules | `(tactic| pf_leaf) => `(tactic| exact Keeps_newDescriptorExtendedEventLoop _ _)
theorem Keeps_newDescriptorExtendedEvent : Keeps newDescriptorExtendedEvent := by unfold newDescriptorExtendedEvent; pf_auto
macro_rules | `(tactic| pf_leaf) => `(tactic| exact Keeps_newDescriptorExtendedEvent)
theorem Keeps_newDescriptorExtensionSupplementaryAudio (e : Int) : Keeps (newDescriptorExtensionSupplementaryAudio e) := by
  unfold newDescriptorExtensionSupplementaryAudio; pf_auto
macro_rules | `(tactic| pf_leaf) => `(tactic| exact Keeps_newDescriptorExtensionSupplementaryAudio _)
theorem Keeps_newDescriptorExtension (e : Int) : Keeps (newDescriptorExtension e) := by unfold newDescriptorExtension; pf_auto
macro_rules | `(tactic| pf_leaf) => `(tactic| exact Keeps_newDescriptorExtension _)
theorem Keeps_newDescriptorISO639LanguageAndAudioType (e : Int) : Keeps (newDescriptorISO639LanguageAndAudioType e) := by
  unfold newDescriptorISO639LanguageAndAudioType; pf_auto
macro_rules | `(tactic| pf_leaf) => `(tactic| exact Keeps_newDescriptorISO639LanguageAndAudioType _)
theorem Keeps_newDescriptorLocalTimeOffsetLoop (e : Int) (n : Nat) : Keeps (newDescriptorLocalTimeOffsetLoop e n) :=
  Keeps_of_eq_iter (localTimeOffsetLoop_eq e) Rd_localTimeOffsetBody.adv.keeps n
macro_rules | `(tactic| pf_leaf) => `(tactic| exact Keeps_newDescriptorLocalTimeOffsetLoop _ _)
theorem Keeps_newDescriptorLocalTimeOffset (e : Int) : Keeps (newDescriptorLocalTimeOffset e) := by
  unfold newDescriptorLocalTimeOffset; pf_auto
macro_rules | `(tactic| pf_leaf) => `(tactic| exact Keeps_newDescriptorLocalTimeOffset _)
theorem Keeps_newDescriptorMaximumBitrate : Keeps newDescriptorMaximumBitrate := by unfold newDescriptorMaximumBitrate; pf_auto
macro_rules | `(tactic| pf_leaf) => `(tactic| exact Keeps_newDescriptorMaximumBitrate)
theorem Keeps_newDescriptorNetworkName (e : Int) : Keeps (newDescriptorNetworkName e) := by unfold newDescriptorNetworkName; pf_auto
macro_rules | `(tactic| pf_leaf) => `(tactic| exact Keeps_newDescriptorNetworkName _)
theorem Keeps_newDescriptorParentalRatingLoop (e : Int) (n : Nat) : Keeps (newDescriptorParentalRatingLoop e n) :=
  Keeps_of_eq_iter (parentalRatingLoop_eq e) Rd_parentalRatingBody.adv.keeps n
macro_rules | `(tactic| pf_leaf) => `(tactic| exact Keeps_newDescriptorParentalRatingLoop _ _)
theorem Keeps_newDescriptorParentalRating (e : Int) : Keeps (newDescriptorParentalRating e) := by
  unfold newDescriptorParentalRating; pf_auto
macro_rules | `(tactic| pf_leaf) => `(tactic| exact Keeps_newDescriptorParentalRating _)
theorem Keeps_newDescriptorPrivateDataIndicator : Keeps newDescriptorPrivateDataIndicator := by
  unfold newDescriptorPrivateDataIndicator; pf_auto
macro_rules | `(tactic| pf_leaf) => `(tactic| exact Keeps_newDescriptorPrivateDataIndicator)
theorem Keeps_newDescriptorPrivateDataSpecifier : Keeps newDescriptorPrivateDataSpecifier := by
  unfold newDescriptorPrivateDataSpecifier; pf_auto
macro_rules | `(tactic| pf_leaf) => `(tactic| exact Keeps_newDescriptorPrivateDataSpecifier)
theorem Keeps_newDescriptorRegistration (e : Int) : Keeps (newDescriptorRegistration e) := by
  unfold newDescriptorRegistration; pf_auto
macro_rules | `(tactic| pf_leaf) => `(tactic| exact Keeps_newDescriptorRegistration _)
theorem Keeps_newDescriptorService : Keeps newDescriptorService := by unfold newDescriptorService; pf_auto
macro_rules | `(tactic| pf_leaf) => `(tactic| exact Keeps_newDescriptorService)
theorem Keeps_newDescriptorShortEvent : Keeps newDescriptorShortEvent := by unfold newDescriptorShortEvent; pf_auto
macro_rules | `(tactic| pf_leaf) => `(tactic| exact Keeps_newDescriptorShortEvent)
theorem Keeps_newDescriptorStreamIdentifier : Keeps newDescriptorStreamIdentifier := by
  unfold newDescriptorStreamIdentifier; pf_auto
macro_rules | `(tactic| pf_leaf) => `(tactic| exact Keeps_newDescriptorStreamIdentifier)
theorem Keeps_newDescriptorSubtitlingLoop (e : Int) (n : Nat) : Keeps (newDescriptorSubtitlingLoop e n) :=
  Keeps_of_eq_iter (subtitlingLoop_eq e) Rd_subtitlingBody.adv.keeps n
macro_rules | `(tactic| pf_leaf) => `(tactic| exact Keeps_newDescriptorSubtitlingLoop _ _)
theorem Keeps_newDescriptorSubtitling (e : Int) : Keeps (newDescriptorSubtitling e) := by unfold newDescriptorSubtitling; pf_auto
macro_rules | `(tactic| pf_leaf) => `(tactic| exact Keeps_newDescriptorSubtitling _)
theorem Keeps_newDescriptorTeletextLoop (e : Int) (n : Nat) : Keeps (newDescriptorTeletextLoop e n) :=
  Keeps_of_eq_iter (teletextLoop_eq e) Rd_teletextBody.adv.keeps n
macro_rules | `(tactic| pf_leaf) => `(tactic| exact Keeps_newDescriptorTeletextLoop _ _)
theorem Keeps_newDescriptorTeletext (e : Int) : Keeps (newDescriptorTeletext e) := by unfold newDescriptorTeletext; pf_auto
macro_rules | `(tactic| pf_leaf) => `(tactic| exact Keeps_newDescriptorTeletext _)
theorem Keeps_newDescriptorUnknown (t l : Nat) : Keeps (newDescriptorUnknown t l) := by unfold newDescriptorUnknown; pf_auto
macro_rules | `(tactic| pf_leaf) => `(tactic| exact Keeps_newDescriptorUnknown _ _)
theorem Keeps_newDescriptorVBIDataLoop (e : Int) (n : Nat) : Keeps (newDescriptorVBIDataLoop e n) :=
  Keeps_of_eq_iter (vbiDataLoop_eq e) Rd_vbiDataBody.adv.keeps n
macro_rules | `(tactic| pf_leaf) => `(tactic| exact Keeps_newDescriptorVBIDataLoop _ _)
theorem Keeps_newDescriptorVBIData (e : Int) : Keeps (newDescriptorVBIData e) := by unfold newDescriptorVBIData; pf_auto
macro_rules | `(tactic| pf_leaf) => `(tactic| exact Keeps_newDescriptorVBIData _)

theorem Keeps_parseDescriptorSwitch (d : Descriptor) (e : Int) : Keeps (parseDescriptorSwitch d e) := by
  unfold parseDescriptorSwitch; pf_auto
macro_rules | `(tactic| pf_leaf) => `(tactic| exact Keeps_parseDescriptorSwitch _ _)

/-! ### `parseDescriptor`: the progress of one iteration of the descriptor loop

After the body parser the iterator is moved by `Seek` to the declared end of the descriptor, `off + 2 + length`,
wherever the body parser stopped (possibly beyond that point, possibly beyond the end of the slice). -/

theorem parseDescriptor_ok {i i' : It} {d : Descriptor} (h : parseDescriptor i = .ok (d, i')) :
    i'.bs = i.bs ∧ i.off + 2 ≤ i'.off ∧ 0 ≤ i.off ∧ i.off + 2 ≤ i.bs.length := by
  unfold parseDescriptor at h
  obtain ⟨bs, i1, e1, h⟩ := bind_ok_inv h
  obtain ⟨h1, h2, h3, _, h5⟩ := nextBytes_ok e1
  dsimp only at h
  split at h
  · obtain ⟨off, i2, e2, h⟩ := bind_ok_inv h
    cases e2
    obtain ⟨d', i3, e3, h⟩ := bind_ok_inv h
    have hk : i3.bs = i1.bs := by
      revert e3
      split
      · intro e3
        obtain ⟨u, i4, e4, e5⟩ := bind_ok_inv e3
        cases e5
        exact Keeps.nextBytes _ _ _ _ e4
      · intro e3
        exact Keeps_parseDescriptorSwitch _ _ _ _ _ e3
    obtain ⟨_, i4, e4, h⟩ := bind_ok_inv h
    simp only [It.seek] at e4
    cases e4
    cases h
    exact ⟨by simp only; rw [hk, h1], by simp only; omega, h3, by omega⟩
  · cases h
    exact ⟨h1, by omega, h3, by omega⟩

theorem Rd_parseDescriptor : Rd parseDescriptor 1 := fun i a i' e => by
  obtain ⟨h1, h2, h3, h4⟩ := parseDescriptor_ok e
  exact ⟨h1, by omega, h3, by omega⟩

theorem descriptorsLoop_eq (e : Int) (n : Nat) :
    parseDescriptorsLoop e n = iter P.fail (forStep e parseDescriptor []) List.cons n := by
  induction n with
  | zero => rfl
  | succ n ih =>
    rw [iter_forStep_succ, ← ih, parseDescriptorsLoop]

theorem Mono_parseDescriptorsLoop (e : Int) (n : Nat) : Mono (parseDescriptorsLoop e n) :=
  Mono_of_eq_iter (descriptorsLoop_eq e) (Rd_parseDescriptor.adv.mono (by omega)) n
macro_rules | `(tactic| pf_leaf) => `(tactic| exact Mono_parseDescriptorsLoop _ _)
theorem Keeps_parseDescriptorsLoop (e : Int) (n : Nat) : Keeps (parseDescriptorsLoop e n) :=
  (Mono_parseDescriptorsLoop e n).keeps
macro_rules | `(tactic| pf_leaf) => `(tactic| exact Keeps_parseDescriptorsLoop _ _)

theorem Mono_parseDescriptors : Mono parseDescriptors := by unfold parseDescriptors; pf_auto
macro_rules | `(tactic| pf_leaf) => `(tactic| exact Mono_parseDescriptors)
theorem Keeps_parseDescriptors : Keeps parseDescriptors := Mono_parseDescriptors.keeps
macro_rules | `(tactic| pf_leaf) => `(tactic| exact Keeps_parseDescriptors)

/-! ### the exhaustion-reporting variants

Loops: `forX e body nil fin n` (= `iterX`, whose `0` branch is `exhausted`).  Every other definition is the text of
the model with the loop-containing callees replaced by their `…X` variants (model parsers without loops are used as
they are: `do` lifts them into `PX`). -/

def newDescriptorContentLoopX (e : Int) (n : Nat) : PX (List DescriptorContentItem) :=
  forX e (lift contentBody) [] List.cons n
def newDescriptorExtendedEventLoopX (e : Int) (n : Nat) : PX (List DescriptorExtendedEventItem) :=
  forX e (lift newDescriptorExtendedEventItem) [] List.cons n
def newDescriptorLocalTimeOffsetLoopX (e : Int) (n : Nat) : PX (List DescriptorLocalTimeOffsetItem) :=
  forX e (lift localTimeOffsetBody) [] List.cons n
def newDescriptorParentalRatingLoopX (e : Int) (n : Nat) : PX (List DescriptorParentalRatingItem) :=
  forX e (lift parentalRatingBody) [] List.cons n
def newDescriptorSubtitlingLoopX (e : Int) (n : Nat) : PX (List DescriptorSubtitlingItem) :=
  forX e (lift subtitlingBody) [] List.cons n
def newDescriptorTeletextLoopX (e : Int) (n : Nat) : PX (List DescriptorTeletextItem) :=
  forX e (lift teletextBody) [] List.cons n
def newDescriptorVBIDataDescLoopX (id : Nat) (e : Int) (n : Nat) : PX (List DescriptorVBIDataDescriptor) :=
  forX e (lift It.nextByte) [] (vbiDescFin id) n

/-- the body of the outer VBI loop calls the inner loop with fresh fuel -/
def vbiDataBodyX : PX DescriptorVBIDataService := do
  let id ← It.nextByte
  let dataServiceDescriptorLength ← It.nextByte
  let off ← It.offset
  let fuel' ← loopFuel
  let descs ← newDescriptorVBIDataDescLoopX id (off + dataServiceDescriptorLength) fuel'
  pure { dataServiceID := id, descriptors := descs }

def newDescriptorVBIDataLoopX (e : Int) (n : Nat) : PX (List DescriptorVBIDataService) :=
  forX e vbiDataBodyX [] List.cons n

theorem erase_contentLoopX (e : Int) (n : Nat) : erase (newDescriptorContentLoopX e n) = newDescriptorContentLoop e n := by
  rw [newDescriptorContentLoopX, erase_forX, erase_lift, contentLoop_eq]
theorem erase_extendedEventLoopX (e : Int) (n : Nat) :
    erase (newDescriptorExtendedEventLoopX e n) = newDescriptorExtendedEventLoop e n := by
  rw [newDescriptorExtendedEventLoopX, erase_forX, erase_lift, extendedEventLoop_eq]
theorem erase_localTimeOffsetLoopX (e : Int) (n : Nat) :
    erase (newDescriptorLocalTimeOffsetLoopX e n) = newDescriptorLocalTimeOffsetLoop e n := by
  rw [newDescriptorLocalTimeOffsetLoopX, erase_forX, erase_lift, localTimeOffsetLoop_eq]
theorem erase_parentalRatingLoopX (e : Int) (n : Nat) :
    erase (newDescriptorParentalRatingLoopX e n) = newDescriptorParentalRatingLoop e n := by
  rw [newDescriptorParentalRatingLoopX, erase_forX, erase_lift, parentalRatingLoop_eq]
theorem erase_subtitlingLoopX (e : Int) (n : Nat) :
    erase (newDescriptorSubtitlingLoopX e n) = newDescriptorSubtitlingLoop e n := by
  rw [newDescriptorSubtitlingLoopX, erase_forX, erase_lift, subtitlingLoop_eq]
theorem erase_teletextLoopX (e : Int) (n : Nat) :
    erase (newDescriptorTeletextLoopX e n) = newDescriptorTeletextLoop e n := by
  rw [newDescriptorTeletextLoopX, erase_forX, erase_lift, teletextLoop_eq]
theorem erase_vbiDataDescLoopX (id : Nat) (e : Int) (n : Nat) :
    erase (newDescriptorVBIDataDescLoopX id e n) = newDescriptorVBIDataDescLoop id e n := by
  rw [newDescriptorVBIDataDescLoopX, erase_forX, erase_lift, vbiDataDescLoop_eq]
theorem erase_vbiDataBodyX : erase vbiDataBodyX = vbiDataBody := by
  unfold vbiDataBodyX vbiDataBody
  simp only [erase_bind, erase_monadLift, erase_pure, erase_vbiDataDescLoopX]
theorem erase_vbiDataLoopX (e : Int) (n : Nat) :
    erase (newDescriptorVBIDataLoopX e n) = newDescriptorVBIDataLoop e n := by
  rw [newDescriptorVBIDataLoopX, erase_forX, erase_vbiDataBodyX, vbiDataLoop_eq]

/-! #### never exhausted: the eight loops of descriptor.go, from ANY iterator state, with more fuel than
remaining bytes (`rem i < n`; the callers pass `len + 1 > rem i`) -/

theorem contentLoopX_not_exhausted (e : Int) (n : Nat) (i : It) (h : rem i < n) :
    newDescriptorContentLoopX e n i ≠ .exhausted :=
  forX_not_exhausted e [] _ (NX.of_lift _) (by rw [erase_lift]; exact Rd_contentBody) n i h
theorem extendedEventLoopX_not_exhausted (e : Int) (n : Nat) (i : It) (h : rem i < n) :
    newDescriptorExtendedEventLoopX e n i ≠ .exhausted :=
  forX_not_exhausted e [] _ (NX.of_lift _) (by rw [erase_lift]; exact Rd_extendedEventItem) n i h
theorem localTimeOffsetLoopX_not_exhausted (e : Int) (n : Nat) (i : It) (h : rem i < n) :
    newDescriptorLocalTimeOffsetLoopX e n i ≠ .exhausted :=
  forX_not_exhausted e [] _ (NX.of_lift _) (by rw [erase_lift]; exact Rd_localTimeOffsetBody) n i h
theorem parentalRatingLoopX_not_exhausted (e : Int) (n : Nat) (i : It) (h : rem i < n) :
    newDescriptorParentalRatingLoopX e n i ≠ .exhausted :=
  forX_not_exhausted e [] _ (NX.of_lift _) (by rw [erase_lift]; exact Rd_parentalRatingBody) n i h
theorem subtitlingLoopX_not_exhausted (e : Int) (n : Nat) (i : It) (h : rem i < n) :
    newDescriptorSubtitlingLoopX e n i ≠ .exhausted :=
  forX_not_exhausted e [] _ (NX.of_lift _) (by rw [erase_lift]; exact Rd_subtitlingBody) n i h
theorem teletextLoopX_not_exhausted (e : Int) (n : Nat) (i : It) (h : rem i < n) :
    newDescriptorTeletextLoopX e n i ≠ .exhausted :=
  forX_not_exhausted e [] _ (NX.of_lift _) (by rw [erase_lift]; exact Rd_teletextBody) n i h
theorem vbiDataDescLoopX_not_exhausted (id : Nat) (e : Int) (n : Nat) (i : It) (h : rem i < n) :
    newDescriptorVBIDataDescLoopX id e n i ≠ .exhausted :=
  forX_not_exhausted e [] _ (NX.of_lift _) (by rw [erase_lift]; exact Rd.nextByte) n i h

theorem NX_vbiDataBodyX : NX vbiDataBodyX := by
  unfold vbiDataBodyX
  refine NX.bind (NX.of_monadLift _) (fun id => NX.bind (NX.of_monadLift _) (fun l => NX.bind (NX.of_monadLift _) (fun off => ?_)))
  exact NX_fuelled loopFuel_run (fun n i h => vbiDataDescLoopX_not_exhausted _ _ n i h) (fun _ => NX.pure _)

theorem vbiDataLoopX_not_exhausted (e : Int) (n : Nat) (i : It) (h : rem i < n) :
    newDescriptorVBIDataLoopX e n i ≠ .exhausted :=
  forX_not_exhausted e [] _ NX_vbiDataBodyX (by rw [erase_vbiDataBodyX]; exact Rd_vbiDataBody) n i h

/-! #### the callers of the loops -/

def newDescriptorContentX (offsetEnd : Int) : PX DescriptorContent := do
  let fuel ← loopFuel
  let items ← newDescriptorContentLoopX offsetEnd fuel
  return { items := items }

def newDescriptorExtendedEventX : PX DescriptorExtendedEvent := do
  let b ← It.nextByte
  let lang ← It.nextBytes 3
  let itemsLength ← It.nextByte
  let off ← It.offset
  let fuel ← loopFuel
  let items ← newDescriptorExtendedEventLoopX (off + itemsLength) fuel
  let textLength ← It.nextByte
  let text ← It.nextBytes textLength
  return { iso639LanguageCode := lang, items := items, lastDescriptorNumber := b % 16, number := b / 16 % 16,
           text := text }

def newDescriptorLocalTimeOffsetX (offsetEnd : Int) : PX DescriptorLocalTimeOffset := do
  let fuel ← loopFuel
  let items ← newDescriptorLocalTimeOffsetLoopX offsetEnd fuel
  return { items := items }

def newDescriptorParentalRatingX (offsetEnd : Int) : PX DescriptorParentalRating := do
  let fuel ← loopFuel
  let items ← newDescriptorParentalRatingLoopX offsetEnd fuel
  return { items := items }

def newDescriptorSubtitlingX (offsetEnd : Int) : PX DescriptorSubtitling := do
  let fuel ← loopFuel
  let items ← newDescriptorSubtitlingLoopX offsetEnd fuel
  return { items := items }

def newDescriptorTeletextX (offsetEnd : Int) : PX DescriptorTeletext := do
  let fuel ← loopFuel
  let items ← newDescriptorTeletextLoopX offsetEnd fuel
  return { items := items }

def newDescriptorVBIDataX (offsetEnd : Int) : PX DescriptorVBIData := do
  let fuel ← loopFuel
  let services ← newDescriptorVBIDataLoopX offsetEnd fuel
  return { services := services }

theorem erase_newDescriptorContentX (e : Int) : erase (newDescriptorContentX e) = newDescriptorContent e := by
  unfold newDescriptorContentX newDescriptorContent
  simp only [erase_bind, erase_monadLift, erase_pure, erase_contentLoopX]
theorem erase_newDescriptorExtendedEventX : erase newDescriptorExtendedEventX = newDescriptorExtendedEvent := by
  unfold newDescriptorExtendedEventX newDescriptorExtendedEvent
  simp only [erase_bind, erase_monadLift, erase_pure, erase_extendedEventLoopX]
theorem erase_newDescriptorLocalTimeOffsetX (e : Int) :
    erase (newDescriptorLocalTimeOffsetX e) = newDescriptorLocalTimeOffset e := by
  unfold newDescriptorLocalTimeOffsetX newDescriptorLocalTimeOffset
  simp only [erase_bind, erase_monadLift, erase_pure, erase_localTimeOffsetLoopX]
theorem erase_newDescriptorParentalRatingX (e : Int) :
    erase (newDescriptorParentalRatingX e) = newDescriptorParentalRating e := by
  unfold newDescriptorParentalRatingX newDescriptorParentalRating
  simp only [erase_bind, erase_monadLift, erase_pure, erase_parentalRatingLoopX]
theorem erase_newDescriptorSubtitlingX (e : Int) : erase (newDescriptorSubtitlingX e) = newDescriptorSubtitling e := by
  unfold newDescriptorSubtitlingX newDescriptorSubtitling
  simp only [erase_bind, erase_monadLift, erase_pure, erase_subtitlingLoopX]
theorem erase_newDescriptorTeletextX (e : Int) : erase (newDescriptorTeletextX e) = newDescriptorTeletext e := by
  unfold newDescriptorTeletextX newDescriptorTeletext
  simp only [erase_bind, erase_monadLift, erase_pure, erase_teletextLoopX]
theorem erase_newDescriptorVBIDataX (e : Int) : erase (newDescriptorVBIDataX e) = newDescriptorVBIData e := by
  unfold newDescriptorVBIDataX newDescriptorVBIData
  simp only [erase_bind, erase_monadLift, erase_pure, erase_vbiDataLoopX]

theorem NX_newDescriptorContentX (e : Int) : NX (newDescriptorContentX e) :=
  NX_fuelled loopFuel_run (contentLoopX_not_exhausted e) (fun _ => NX.pure _)
macro_rules | `(tactic| nx_leaf) => `(tactic| exact NX_newDescriptorContentX _)
theorem NX_newDescriptorExtendedEventX : NX newDescriptorExtendedEventX := by
  unfold newDescriptorExtendedEventX
  refine NX.bind (NX.of_monadLift _) (fun _ => NX.bind (NX.of_monadLift _) (fun _ => NX.bind (NX.of_monadLift _) (fun _ =>
    NX.bind (NX.of_monadLift _) (fun _ => ?_))))
  exact NX_fuelled loopFuel_run (extendedEventLoopX_not_exhausted _) (fun _ => by nx_auto)
macro_rules | `(tactic| nx_leaf) => `(tactic| exact NX_newDescriptorExtendedEventX)
theorem NX_newDescriptorLocalTimeOffsetX (e : Int) : NX (newDescriptorLocalTimeOffsetX e) :=
  NX_fuelled loopFuel_run (localTimeOffsetLoopX_not_exhausted e) (fun _ => NX.pure _)
macro_rules | `(tactic| nx_leaf) => `(tactic| exact NX_newDescriptorLocalTimeOffsetX _)
theorem NX_newDescriptorParentalRatingX (e : Int) : NX (newDescriptorParentalRatingX e) :=
  NX_fuelled loopFuel_run (parentalRatingLoopX_not_exhausted e) (fun _ => NX.pure _)
macro_rules | `(tactic| nx_leaf) => `(tactic| exact NX_newDescriptorParentalRatingX _)
theorem NX_newDescriptorSubtitlingX (e : Int) : NX (newDescriptorSubtitlingX e) :=
  NX_fuelled loopFuel_run (subtitlingLoopX_not_exhausted e) (fun _ => NX.pure _)
macro_rules | `(tactic| nx_leaf) => `(tactic| exact NX_newDescriptorSubtitlingX _)
theorem NX_newDescriptorTeletextX (e : Int) : NX (newDescriptorTeletextX e) :=
  NX_fuelled loopFuel_run (teletextLoopX_not_exhausted e) (fun _ => NX.pure _)
macro_rules | `(tactic| nx_leaf) => `(tactic| exact NX_newDescriptorTeletextX _)
theorem NX_newDescriptorVBIDataX (e : Int) : NX (newDescriptorVBIDataX e) :=
  NX_fuelled loopFuel_run (vbiDataLoopX_not_exhausted e) (fun _ => NX.pure _)
macro_rules | `(tactic| nx_leaf) => `(tactic| exact NX_newDescriptorVBIDataX _)

/-- the `switch d.Tag` with the loop-containing constructors replaced -/
def parseDescriptorSwitchX (d : Descriptor) (offsetDescriptorEnd : Int) : PX Descriptor :=
  if d.tag = descriptorTagAC3 then do
    let x ← newDescriptorAC3 offsetDescriptorEnd; return { d with ac3 := some x }
  else if d.tag = descriptorTagAVCVideo then do
    let x ← newDescriptorAVCVideo; return { d with avcVideo := some x }
  else if d.tag = descriptorTagComponent then do
    let x ← newDescriptorComponent offsetDescriptorEnd; return { d with component := some x }
  else if d.tag = descriptorTagContent then do
    let x ← newDescriptorContentX offsetDescriptorEnd; return { d with content := some x }
  else if d.tag = descriptorTagDataStreamAlignment then do
    let x ← newDescriptorDataStreamAlignment; return { d with dataStreamAlignment := some x }
  else if d.tag = descriptorTagEnhancedAC3 then do
    let x ← newDescriptorEnhancedAC3 offsetDescriptorEnd; return { d with enhancedAC3 := some x }
  else if d.tag = descriptorTagExtendedEvent then do
    let x ← newDescriptorExtendedEventX; return { d with extendedEvent := some x }
  else if d.tag = descriptorTagExtension then do
    let x ← newDescriptorExtension offsetDescriptorEnd; return { d with extension := some x }
  else if d.tag = descriptorTagISO639LanguageAndAudioType then do
    let x ← newDescriptorISO639LanguageAndAudioType offsetDescriptorEnd
    return { d with iso639LanguageAndAudioType := some x }
  else if d.tag = descriptorTagLocalTimeOffset then do
    let x ← newDescriptorLocalTimeOffsetX offsetDescriptorEnd; return { d with localTimeOffset := some x }
  else if d.tag = descriptorTagMaximumBitrate then do
    let x ← newDescriptorMaximumBitrate; return { d with maximumBitrate := some x }
  else if d.tag = descriptorTagNetworkName then do
    let x ← newDescriptorNetworkName offsetDescriptorEnd; return { d with networkName := some x }
  else if d.tag = descriptorTagParentalRating then do
    let x ← newDescriptorParentalRatingX offsetDescriptorEnd; return { d with parentalRating := some x }
  else if d.tag = descriptorTagPrivateDataIndicator then do
    let x ← newDescriptorPrivateDataIndicator; return { d with privateDataIndicator := some x }
  else if d.tag = descriptorTagPrivateDataSpecifier then do
    let x ← newDescriptorPrivateDataSpecifier; return { d with privateDataSpecifier := some x }
  else if d.tag = descriptorTagRegistration then do
    let x ← newDescriptorRegistration offsetDescriptorEnd; return { d with registration := some x }
  else if d.tag = descriptorTagService then do
    let x ← newDescriptorService; return { d with service := some x }
  else if d.tag = descriptorTagShortEvent then do
    let x ← newDescriptorShortEvent; return { d with shortEvent := some x }
  else if d.tag = descriptorTagStreamIdentifier then do
    let x ← newDescriptorStreamIdentifier; return { d with streamIdentifier := some x }
  else if d.tag = descriptorTagSubtitling then do
    let x ← newDescriptorSubtitlingX offsetDescriptorEnd; return { d with subtitling := some x }
  else if d.tag = descriptorTagTeletext then do
    let x ← newDescriptorTeletextX offsetDescriptorEnd; return { d with teletext := some x }
  else if d.tag = descriptorTagVBIData then do
    let x ← newDescriptorVBIDataX offsetDescriptorEnd; return { d with vbiData := some x }
  else if d.tag = descriptorTagVBITeletext then do
    let x ← newDescriptorTeletextX offsetDescriptorEnd; return { d with vbiTeletext := some x }
  else do
    let x ← newDescriptorUnknown d.tag d.length; return { d with unknown := some x }

theorem erase_parseDescriptorSwitchX (d : Descriptor) (e : Int) :
    erase (parseDescriptorSwitchX d e) = parseDescriptorSwitch d e := by
  unfold parseDescriptorSwitchX parseDescriptorSwitch
  simp only [erase_ite, erase_bind, erase_monadLift, erase_pure, erase_newDescriptorContentX,
    erase_newDescriptorExtendedEventX, erase_newDescriptorLocalTimeOffsetX, erase_newDescriptorParentalRatingX,
    erase_newDescriptorSubtitlingX, erase_newDescriptorTeletextX, erase_newDescriptorVBIDataX]

theorem NX_parseDescriptorSwitchX (d : Descriptor) (e : Int) : NX (parseDescriptorSwitchX d e) := by
  unfold parseDescriptorSwitchX; nx_auto
macro_rules | `(tactic| nx_leaf) => `(tactic| exact NX_parseDescriptorSwitchX _ _)

def parseDescriptorX : PX Descriptor := do
  let bs ← It.nextBytes 2
  let d : Descriptor := { length := bs.getD 1 0, tag := bs.getD 0 0 }
  if d.length > 0 then
    let off ← It.offset
    let offsetDescriptorEnd : Int := off + d.length
    let d ← (if isUserDefinedTag d.tag then do
        let u ← It.nextBytes d.length
        pure { d with userDefined := u }
      else parseDescriptorSwitchX d offsetDescriptorEnd : PX Descriptor)
    It.seek offsetDescriptorEnd
    return d
  else return d

theorem erase_parseDescriptorX : erase parseDescriptorX = parseDescriptor := by
  unfold parseDescriptorX parseDescriptor
  simp only [erase_ite, erase_bind, erase_monadLift, erase_pure, erase_parseDescriptorSwitchX]

theorem NX_parseDescriptorX : NX parseDescriptorX := by unfold parseDescriptorX; nx_auto
macro_rules | `(tactic| nx_leaf) => `(tactic| exact NX_parseDescriptorX)

def parseDescriptorsLoopX (e : Int) (n : Nat) : PX (List Descriptor) := forX e parseDescriptorX [] List.cons n

theorem erase_parseDescriptorsLoopX (e : Int) (n : Nat) : erase (parseDescriptorsLoopX e n) = parseDescriptorsLoop e n := by
  rw [parseDescriptorsLoopX, erase_forX, erase_parseDescriptorX, descriptorsLoop_eq]

/-- NEVER EXHAUSTED: the descriptor loop, from any state, nested loops included -/
theorem parseDescriptorsLoopX_not_exhausted (e : Int) (n : Nat) (i : It) (h : rem i < n) :
    parseDescriptorsLoopX e n i ≠ .exhausted :=
  forX_not_exhausted e [] _ NX_parseDescriptorX (by rw [erase_parseDescriptorX]; exact Rd_parseDescriptor) n i h

def parseDescriptorsX : PX (List Descriptor) := do
  let bs ← It.nextBytes 2
  let length : Nat := (bs.getD 0 0 % 16) * 256 + bs.getD 1 0
  if length > 0 then
    let off ← It.offset
    let fuel ← loopFuel
    parseDescriptorsLoopX (off + length) fuel
  else return []

theorem erase_parseDescriptorsX : erase parseDescriptorsX = parseDescriptors := by
  unfold parseDescriptorsX parseDescriptors
  simp only [erase_ite, erase_bind, erase_monadLift, erase_pure, erase_parseDescriptorsLoopX]

theorem NX_parseDescriptorsX : NX parseDescriptorsX := by
  unfold parseDescriptorsX
  refine NX.bind (NX.of_monadLift _) (fun bs => ?_)
  dsimp only
  refine NX.ite (NX.bind (NX.of_monadLift _) (fun off => ?_)) (NX.pure _)
  exact NX_fuelled_last loopFuel_run (parseDescriptorsLoopX_not_exhausted _)
macro_rules | `(tactic| nx_leaf) => `(tactic| exact NX_parseDescriptorsX)

end Astits.ParserFuel
